import GnarkVerif.Model.ArgHash
import Mathlib.Algebra.Ring.GeomSum
import Mathlib.Algebra.BigOperators.Group.Finset.Basic
import Mathlib.Algebra.BigOperators.Ring.Finset
import Mathlib.Algebra.Field.Basic
import Mathlib.Tactic.Ring
import Mathlib.Tactic.FieldSimp
import Mathlib.Tactic.Linarith
import Mathlib.Tactic.LinearCombination
/-
Helper lemmas for C17 (hash-based half): the model of `Model/ArgHash.lean` instantiated with the dictionary of a
genuine field `K`, discrete Fourier orthogonality, "EvalFextPolyLagrange = value of the interpolant", linearity.
-/
set_option linter.unusedSectionVars false
namespace GV.ArgHash
open GV.Alg Finset

/-- the dictionary of a genuine field -/
def ofField (K : Type) [Field K] [DecidableEq K] : FOps K where
  zero := 0
  one := 1
  add := (· + ·)
  sub := (· - ·)
  neg := (- ·)
  mul := (· * ·)
  inv := (·⁻¹)
  beq a b := decide (a = b)
  ofNat n := (n : K)
  show_ _ := ""

variable {K : Type} [Field K] [DecidableEq K]

@[simp] theorem of_zero : (ofField K).zero = 0 := rfl
@[simp] theorem of_one : (ofField K).one = 1 := rfl
@[simp] theorem of_add (a b : K) : (ofField K).add a b = a + b := rfl
@[simp] theorem of_sub (a b : K) : (ofField K).sub a b = a - b := rfl
@[simp] theorem of_mul (a b : K) : (ofField K).mul a b = a * b := rfl
@[simp] theorem of_inv (a : K) : (ofField K).inv a = a⁻¹ := rfl
@[simp] theorem of_ofNat (n : Nat) : (ofField K).ofNat n = (n : K) := rfl
@[simp] theorem of_beq (a b : K) : ((ofField K).beq a b = true) ↔ a = b := by simp [ofField]

theorem sumN_eq (f : Nat → K) (n : Nat) : sumN (ofField K) f n = ∑ k ∈ range n, f k := by
  induction n with
  | zero => simp [sumN]
  | succ n ih => simp [sumN, ih, sum_range_succ]

@[simp] theorem npow_eq (x : K) (n : Nat) : npow (ofField K) x n = x ^ n := by
  induction n with
  | zero => simp [npow]
  | succ n ih => simp [npow, ih, pow_succ]

@[simp] theorem nth_eq (l : List K) (i : Nat) : nth (ofField K) l i = l.getD i 0 := rfl

@[simp] theorem horner_nil (x : K) : horner (ofField K) [] x = 0 := rfl
@[simp] theorem horner_cons (a : K) (c : List K) (x : K) :
    horner (ofField K) (a :: c) x = a + horner (ofField K) c x * x := rfl

theorem horner_eq_sum (c : List K) (x : K) :
    horner (ofField K) c x = ∑ k ∈ range c.length, c.getD k 0 * x ^ k := by
  induction c with
  | nil => simp
  | cons a c ih =>
    rw [horner_cons, ih, List.length_cons, sum_range_succ', sum_mul]
    simp only [List.getD_cons_succ, List.getD_cons_zero, pow_zero, mul_one, pow_succ]
    rw [add_comm]
    congr 1
    apply sum_congr rfl
    intro k _
    ring

theorem horner_eq_sum_of_le (c : List K) (x : K) {n : Nat} (h : c.length ≤ n) :
    horner (ofField K) c x = ∑ k ∈ range n, c.getD k 0 * x ^ k := by
  rw [horner_eq_sum]
  apply sum_subset (range_subset_range.2 h)
  intro k _ hk
  have : c.length ≤ k := by simpa using hk
  have h0 : c.getD k 0 = 0 := by simp [List.getD, List.getElem?_eq_none this]
  rw [h0, zero_mul]

/-- primitive `N`-th root of unity in a field where `N` is invertible -/
structure PrimRoot (ω : K) (N : Nat) : Prop where
  pow_N : ω ^ N = 1
  ne_one : ∀ d, 0 < d → d < N → ω ^ d ≠ 1
  card_ne : (N : K) ≠ 0
  pos : 0 < N

namespace PrimRoot
variable {ω : K} {N : Nat}

theorem ne_zero (h : PrimRoot ω N) : ω ≠ 0 := by
  intro h0
  have := h.pow_N
  rw [h0, zero_pow (Nat.pos_iff_ne_zero.mp h.pos)] at this
  exact zero_ne_one this

theorem pow_inj (h : PrimRoot ω N) {a b : Nat} (ha : a < N) (hb : b < N) (e : ω ^ a = ω ^ b) : a = b := by
  have key : ∀ {a b : Nat}, a < b → b < N → ω ^ a = ω ^ b → False := by
    intro a b hlt hb e
    have h1 : ω ^ b = ω ^ a * ω ^ (b - a) := by rw [← pow_add]; congr 1; omega
    rw [h1] at e
    have hne : ω ^ a ≠ 0 := pow_ne_zero _ h.ne_zero
    have : ω ^ (b - a) = 1 :=
      mul_left_cancel₀ hne (show ω ^ a * ω ^ (b - a) = ω ^ a * 1 by rw [mul_one]; exact e.symm)
    exact h.ne_one (b - a) (by omega) (by omega) this
  rcases Nat.lt_trichotomy a b with hlt | heq | hgt
  · exact (key hlt hb e).elim
  · exact heq
  · exact (key hgt ha e.symm).elim

/-- discrete Fourier orthogonality -/
theorem orth (h : PrimRoot ω N) {a b : Nat} (ha : a < N) (hb : b < N) :
    ∑ k ∈ range N, ω ^ (a * k) * (ω⁻¹) ^ (b * k) = if a = b then (N : K) else 0 := by
  have hω := h.ne_zero
  split_ifs with hab
  · subst hab
    have : ∀ k ∈ range N, ω ^ (a * k) * (ω⁻¹) ^ (a * k) = 1 := by
      intro k _
      rw [inv_pow, mul_inv_cancel₀ (pow_ne_zero _ hω)]
    rw [sum_congr rfl this]
    simp
  · have hterm : ∀ k ∈ range N, ω ^ (a * k) * (ω⁻¹) ^ (b * k) = (ω ^ a * (ω⁻¹) ^ b) ^ k := by
      intro k _
      rw [mul_pow, ← pow_mul, ← pow_mul]
    rw [sum_congr rfl hterm]
    have hζ1 : ω ^ a * (ω⁻¹) ^ b ≠ 1 := by
      intro h1
      apply hab
      apply h.pow_inj ha hb
      have : ω ^ a * (ω⁻¹) ^ b * ω ^ b = 1 * ω ^ b := by rw [h1]
      rw [mul_assoc, inv_pow, inv_mul_cancel₀ (pow_ne_zero _ hω), mul_one, one_mul] at this
      exact this
    have hζN : (ω ^ a * (ω⁻¹) ^ b) ^ N = 1 := by
      rw [mul_pow, ← pow_mul, ← pow_mul, mul_comm a, mul_comm b, pow_mul, pow_mul, inv_pow, h.pow_N]
      simp
    have := mul_geom_sum (ω ^ a * (ω⁻¹) ^ b) N
    rw [hζN, sub_self] at this
    exact (mul_eq_zero.mp this).resolve_left (sub_ne_zero.mpr hζ1)

end PrimRoot

/-- `rsCoeff` as a sum -/
theorem rsCoeff_eq (ωi : K) (u : List K) (j : Nat) :
    rsCoeff (ofField K) ωi u j = ∑ k ∈ range u.length, u.getD k 0 * ωi ^ (j * k) := by
  unfold rsCoeff
  rw [horner_eq_sum, npow_eq]
  apply sum_congr rfl
  intro k _
  rw [pow_mul]

/-- the inverse DFT of the evaluations of a polynomial of degree `< n ≤ N` returns its coefficients (times `N`) -/
theorem rsCoeff_of_evals {ω : K} {N : Nat} (h : PrimRoot ω N) (u : List K) (hu : u.length = N)
    (c : Nat → K) (n : Nat) (hn : n ≤ N)
    (hev : ∀ k, k < N → u.getD k 0 = ∑ j ∈ range n, c j * ω ^ (j * k)) (j' : Nat) (hj' : j' < N) :
    rsCoeff (ofField K) ω⁻¹ u j' = if j' < n then (N : K) * c j' else 0 := by
  rw [rsCoeff_eq, hu]
  have h1 : ∀ k ∈ range N, u.getD k 0 * (ω⁻¹) ^ (j' * k) = ∑ j ∈ range n, c j * (ω ^ (j * k) * (ω⁻¹) ^ (j' * k)) := by
    intro k hk
    rw [hev k (mem_range.mp hk), sum_mul]
    apply sum_congr rfl
    intro j _
    ring
  rw [sum_congr rfl h1, sum_comm]
  have h2 : ∀ j ∈ range n, ∑ k ∈ range N, c j * (ω ^ (j * k) * (ω⁻¹) ^ (j' * k)) = if j = j' then (N : K) * c j' else 0 := by
    intro j hj
    rw [← mul_sum, h.orth (lt_of_lt_of_le (mem_range.mp hj) hn) hj']
    split_ifs with e
    · subst e; ring
    · ring
  rw [sum_congr rfl h2, sum_ite_eq' (range n) j' (fun _ => (N : K) * c j')]
  simp

/-- DFT inversion: every vector of length `N` is the evaluation vector of its interpolant -/
theorem idft_inversion {ω : K} {N : Nat} (h : PrimRoot ω N) (u : List K) (hu : u.length = N) (k : Nat) (hk : k < N) :
    ∑ m ∈ range N, rsCoeff (ofField K) ω⁻¹ u m * ω ^ (m * k) = (N : K) * u.getD k 0 := by
  have h1 : ∀ m ∈ range N, rsCoeff (ofField K) ω⁻¹ u m * ω ^ (m * k)
      = ∑ k' ∈ range N, u.getD k' 0 * (ω ^ (k * m) * (ω⁻¹) ^ (k' * m)) := by
    intro m _
    rw [rsCoeff_eq, hu, sum_mul]
    apply sum_congr rfl
    intro k' _
    rw [mul_comm m k', mul_comm m k]
    ring
  rw [sum_congr rfl h1, sum_comm]
  have h2 : ∀ k' ∈ range N, ∑ m ∈ range N, u.getD k' 0 * (ω ^ (k * m) * (ω⁻¹) ^ (k' * m))
      = if k' = k then (N : K) * u.getD k 0 else 0 := by
    intro k' hk'
    rw [← mul_sum, h.orth hk (mem_range.mp hk')]
    split_ifs with e1 e2 e2
    · subst e2; ring
    · exact (e2 e1.symm).elim
    · exact (e1 e2.symm).elim
    · ring
  rw [sum_congr rfl h2, sum_ite_eq' (range N) k (fun _ => (N : K) * u.getD k 0)]
  simp [hk]

/-- **EvalFextPolyLagrange computes the value at `x` of the interpolant** (both branches of the Go function) -/
theorem evalLagrange_eq_interp {ω : K} {N : Nat} (h : PrimRoot ω N) (u : List K) (hu : u.length = N) (x : K) :
    evalLagrange (ofField K) ω⁻¹ u x = (N : K)⁻¹ * ∑ m ∈ range N, rsCoeff (ofField K) ω⁻¹ u m * x ^ m := by
  have hω := h.ne_zero
  unfold evalLagrange
  simp only [hu]
  split
  · rename_i i hi
    have hi' := List.find?_some hi
    have hmem := List.mem_of_find?_eq_some hi
    have hiN : i < N := by simpa using hmem
    have hx : x = ω ^ i := by
      have : x * (ω⁻¹) ^ i - 1 = 0 := by simpa using hi'
      have h2 : x * (ω⁻¹) ^ i = 1 := sub_eq_zero.mp this
      have : x * (ω⁻¹) ^ i * ω ^ i = 1 * ω ^ i := by rw [h2]
      rw [mul_assoc, inv_pow, inv_mul_cancel₀ (pow_ne_zero _ hω), mul_one, one_mul] at this
      exact this
    have := idft_inversion h u hu i hiN
    rw [nth_eq, hx]
    have e : ∀ m ∈ range N, rsCoeff (ofField K) ω⁻¹ u m * (ω ^ i) ^ m = rsCoeff (ofField K) ω⁻¹ u m * ω ^ (m * i) := by
      intro m _; rw [← pow_mul, mul_comm i m]
    rw [sum_congr rfl e, this, ← mul_assoc, inv_mul_cancel₀ h.card_ne, one_mul]
  · rename_i hnone
    have hne : ∀ i, i < N → x * (ω⁻¹) ^ i - 1 ≠ 0 := by
      intro i hi
      have := List.find?_eq_none.mp hnone i (by simpa using hi)
      simpa using this
    rw [sumN_eq]
    simp only [of_mul, of_inv, of_sub, of_one, npow_eq, nth_eq, of_ofNat]
    -- (y_i − 1)⁻¹ (x^N − 1) = Σ_m y_i^m
    have hgeom : ∀ i, i < N → (x * (ω⁻¹) ^ i - 1)⁻¹ * (x ^ N - 1) = ∑ m ∈ range N, (x * (ω⁻¹) ^ i) ^ m := by
      intro i hi
      have hy : (x * (ω⁻¹) ^ i) ^ N = x ^ N := by
        rw [mul_pow, ← pow_mul, mul_comm i N, pow_mul, inv_pow, h.pow_N]; simp
      have := mul_geom_sum (x * (ω⁻¹) ^ i) N
      rw [hy] at this
      rw [← this, ← mul_assoc, inv_mul_cancel₀ (hne i hi), one_mul]
    have step : (∑ i ∈ range N, (x * (ω⁻¹) ^ i - 1)⁻¹ * u.getD i 0) * ((x ^ N - 1) * (N : K)⁻¹)
        = (N : K)⁻¹ * ∑ i ∈ range N, u.getD i 0 * ∑ m ∈ range N, (x * (ω⁻¹) ^ i) ^ m := by
      rw [sum_mul, mul_sum]
      apply sum_congr rfl
      intro i hi
      rw [← hgeom i (mem_range.mp hi)]
      ring
    rw [step]
    congr 1
    have e1 : ∀ i ∈ range N, u.getD i 0 * ∑ m ∈ range N, (x * (ω⁻¹) ^ i) ^ m
        = ∑ m ∈ range N, u.getD i 0 * (ω⁻¹) ^ (m * i) * x ^ m := by
      intro i _
      rw [mul_sum]
      apply sum_congr rfl
      intro m _
      rw [mul_pow, ← pow_mul, mul_comm i m]
      ring
    rw [sum_congr rfl e1, sum_comm]
    apply sum_congr rfl
    intro m _
    rw [rsCoeff_eq, hu, sum_mul]

/-- evaluation of a codeword: if `u` is the evaluation vector of `Σ_{j<n} c_j X^j`, `n ≤ N`, then
    `EvalFextPolyLagrange(u, x) = Σ_{j<n} c_j x^j` for EVERY `x` (on or off the domain) -/
theorem evalLagrange_of_evals {ω : K} {N : Nat} (h : PrimRoot ω N) (u : List K) (hu : u.length = N)
    (c : Nat → K) (n : Nat) (hn : n ≤ N)
    (hev : ∀ k, k < N → u.getD k 0 = ∑ j ∈ range n, c j * ω ^ (j * k)) (x : K) :
    evalLagrange (ofField K) ω⁻¹ u x = ∑ j ∈ range n, c j * x ^ j := by
  rw [evalLagrange_eq_interp h u hu]
  have e : ∀ m ∈ range N, rsCoeff (ofField K) ω⁻¹ u m * x ^ m = if m < n then (N : K) * (c m * x ^ m) else 0 := by
    intro m hm
    rw [rsCoeff_of_evals h u hu c n hn hev m (mem_range.mp hm)]
    split_ifs <;> ring
  rw [sum_congr rfl e, ← sum_filter, ← mul_sum, ← mul_assoc, inv_mul_cancel₀ h.card_ne, one_mul]
  apply sum_congr _ (fun _ _ => rfl)
  ext m
  simp only [mem_filter, mem_range]
  omega


/-! ### lists: pointwise sum, maps -/

/-- pointwise sum of two vectors -/
def vadd (u e : List K) : List K := List.zipWith (· + ·) u e

theorem vadd_length (u e : List K) (h : e.length = u.length) : (vadd u e).length = u.length := by
  simp [vadd, h]

theorem getD_vadd : ∀ (u e : List K), e.length = u.length → ∀ k, (vadd u e).getD k 0 = u.getD k 0 + e.getD k 0
  | [], [], _, k => by simp [vadd]
  | [], _ :: _, h, _ => by simp at h
  | _ :: _, [], h, _ => by simp at h
  | a :: u, b :: e, h, 0 => by simp [vadd]
  | a :: u, b :: e, h, k+1 => by
    have := getD_vadd u e (by simpa using h) k
    simpa [vadd] using this

theorem horner_vadd : ∀ (u e : List K), e.length = u.length → ∀ y,
    horner (ofField K) (vadd u e) y = horner (ofField K) u y + horner (ofField K) e y
  | [], [], _, y => by simp [vadd]
  | [], _ :: _, h, _ => by simp at h
  | _ :: _, [], h, _ => by simp at h
  | a :: u, b :: e, h, y => by
    have ih := horner_vadd u e (by simpa using h) y
    have : vadd (a :: u) (b :: e) = (a + b) :: vadd u e := rfl
    rw [this, horner_cons, horner_cons, horner_cons, ih]
    ring

theorem rsCoeff_vadd (ωi : K) (u e : List K) (h : e.length = u.length) (j : Nat) :
    rsCoeff (ofField K) ωi (vadd u e) j = rsCoeff (ofField K) ωi u j + rsCoeff (ofField K) ωi e j := by
  unfold rsCoeff; exact horner_vadd u e h _

theorem evalLagrange_vadd {ω : K} {N : Nat} (h : PrimRoot ω N) (u e : List K) (hu : u.length = N) (he : e.length = N) (x : K) :
    evalLagrange (ofField K) ω⁻¹ (vadd u e) x = evalLagrange (ofField K) ω⁻¹ u x + evalLagrange (ofField K) ω⁻¹ e x := by
  rw [evalLagrange_eq_interp h _ (by rw [vadd_length u e (by omega), hu]), evalLagrange_eq_interp h u hu,
    evalLagrange_eq_interp h e he, ← mul_add, ← sum_add_distrib]
  congr 1
  apply sum_congr rfl
  intro m _
  rw [rsCoeff_vadd _ u e (by omega)]
  ring

theorem horner_map {β : Type} (f : β → K) (d : β) (y : K) : ∀ l : List β,
    horner (ofField K) (l.map f) y = ∑ i ∈ range l.length, f (l.getD i d) * y ^ i
  | [] => by simp
  | a :: l => by
    rw [List.map_cons, horner_cons, horner_map f d y l, List.length_cons, sum_range_succ', sum_mul]
    simp only [List.getD_cons_succ, List.getD_cons_zero, pow_zero, mul_one, pow_succ]
    rw [add_comm]
    congr 1
    apply sum_congr rfl
    intro k _
    ring

theorem getD_map_range (g : Nat → K) (N k : Nat) (hk : k < N) : ((List.range N).map g).getD k 0 = g k := by
  simp [List.getD, hk]

theorem horner_replicate (δ y : K) : ∀ N, horner (ofField K) (List.replicate N δ) y = δ * ∑ k ∈ range N, y ^ k
  | 0 => by simp
  | N+1 => by
    rw [List.replicate_succ, horner_cons, horner_replicate δ y N, geom_sum_succ]
    ring

/-! ### Merkle tree -/
section Merkle
variable {D : Type} (compress : D → D → D)

def CompressInj : Prop := ∀ a b a' b', compress a b = compress a' b' → a = a' ∧ b = b'

theorem merkle_complete : ∀ (d : Nat) (lv : Nat → D) (i : Nat), i < 2 ^ d →
    merkleFold compress (lv i) i (merklePath compress d lv i) = merkleRoot compress d lv
  | 0, lv, i, hi => by
    have : i = 0 := by simpa using hi
    subst this; rfl
  | d+1, lv, i, hi => by
    have hi2 : i / 2 < 2 ^ d := by rw [pow_succ] at hi; omega
    have ih := merkle_complete d (fun k => compress (lv (2*k)) (lv (2*k+1))) (i/2) hi2
    simp only [merklePath, merkleFold, merkleRoot]
    rw [← ih]
    congr 1
    rcases Nat.mod_two_eq_zero_or_one i with h0 | h1
    · have e : 2 * (i / 2) = i := by omega
      simp [h0, e]
    · have e1 : 2 * (i / 2) + 1 = i := by omega
      have e2 : 2 * (i / 2) = i - 1 := by omega
      have e3 : i - 1 + 1 = i := by omega
      simp [h1, e2, e3]

theorem merklePath_length : ∀ (d : Nat) (lv : Nat → D) (i : Nat), (merklePath compress d lv i).length = d
  | 0, _, _ => rfl
  | d+1, lv, i => by simp [merklePath, merklePath_length d]

theorem merkle_sound (hinj : CompressInj compress) : ∀ (d : Nat) (lv : Nat → D) (i : Nat), i < 2 ^ d →
    ∀ (leaf : D) (path : List D), path.length = d →
    merkleFold compress leaf i path = merkleRoot compress d lv → leaf = lv i ∧ path = merklePath compress d lv i
  | 0, lv, i, hi, leaf, path, hl, h => by
    have : i = 0 := by simpa using hi
    subst this
    have : path = [] := List.length_eq_zero_iff.mp hl
    subst this
    exact ⟨h, rfl⟩
  | d+1, lv, i, hi, leaf, path, hl, h => by
    match path, hl with
    | hd :: tl, hl =>
      have hi2 : i / 2 < 2 ^ d := by rw [pow_succ] at hi; omega
      simp only [merkleFold, merkleRoot] at h
      have ih := merkle_sound hinj d (fun k => compress (lv (2*k)) (lv (2*k+1))) (i/2) hi2 _ tl (by simpa using hl) h
      obtain ⟨hnode, htl⟩ := ih
      simp only [merklePath]
      rcases Nat.mod_two_eq_zero_or_one i with h0 | h1
      · have e : 2 * (i / 2) = i := by omega
        simp only [h0, e] at hnode
        have hnode' : compress leaf hd = compress (lv i) (lv (i + 1)) := by simpa using hnode
        obtain ⟨ha, hb⟩ := hinj _ _ _ _ hnode'
        simp [h0, ha, hb, htl]
      · have e1 : 2 * (i / 2) + 1 = i := by omega
        have e2 : 2 * (i / 2) = i - 1 := by omega
        have e3 : i - 1 + 1 = i := by omega
        simp only [h1, e2, e3] at hnode
        have hnode' : compress hd leaf = compress (lv (i - 1)) (lv i) := by simpa using hnode
        obtain ⟨ha, hb⟩ := hinj _ _ _ _ hnode'
        simp [h1, ha, hb, htl]

theorem merkleFold_leaf_ne (hinj : CompressInj compress) : ∀ (path : List D) (i : Nat) (l l' : D), l ≠ l' →
    merkleFold compress l i path ≠ merkleFold compress l' i path
  | [], _, _, _, h => h
  | hd :: tl, i, l, l', h => by
    simp only [merkleFold]
    apply merkleFold_leaf_ne hinj tl
    split_ifs
    · intro e; exact h (hinj _ _ _ _ e).2
    · intro e; exact h (hinj _ _ _ _ e).1

theorem merkleFold_sibling_ne (hinj : CompressInj compress) (pre : List D) (h h' : D) (post : List D) (i : Nat) (l : D)
    (hne : h ≠ h') : merkleFold compress l i (pre ++ h :: post) ≠ merkleFold compress l i (pre ++ h' :: post) := by
  induction pre generalizing i l with
  | nil =>
    simp only [List.nil_append, merkleFold]
    apply merkleFold_leaf_ne compress hinj
    split_ifs
    · intro e; exact hne (hinj _ _ _ _ e).1
    · intro e; exact hne (hinj _ _ _ _ e).2
  | cons a pre ih =>
    simp only [List.cons_append, merkleFold]
    exact ih _ _

end Merkle

/-! ### FRI folding on coefficients -/

theorem foldCoeffs_length (x : K) : ∀ c : List K, (foldCoeffs (ofField K) x c).length = (c.length + 1) / 2
  | [] => by simp [foldCoeffs]
  | [_] => by simp [foldCoeffs]
  | a :: b :: t => by
    simp only [foldCoeffs, List.length_cons, foldCoeffs_length x t]
    omega

/-- division-free form of the folding identity -/
theorem foldCoeffs_eval (x y : K) : ∀ c : List K,
    2 * y * horner (ofField K) (foldCoeffs (ofField K) x c) (y * y)
      = y * (horner (ofField K) c y + horner (ofField K) c (-y)) + x * (horner (ofField K) c y - horner (ofField K) c (-y))
  | [] => by simp [foldCoeffs]
  | [a] => by simp [foldCoeffs]; ring
  | a :: b :: t => by
    have ih := foldCoeffs_eval x y t
    simp only [foldCoeffs, horner_cons, of_add, of_mul]
    linear_combination (y * y) * ih

theorem foldAll_length : ∀ (xs : List K) (c : List K), c.length ≤ 2 ^ xs.length →
    (foldAll (ofField K) xs c).length ≤ 1
  | [], c, h => by simpa [foldAll] using h
  | x :: xs, c, h => by
    simp only [foldAll]
    apply foldAll_length xs
    rw [foldCoeffs_length]
    simp only [List.length_cons, pow_succ] at h
    omega

theorem horner_of_length_le_one (c : List K) (h : c.length ≤ 1) (y : K) : horner (ofField K) c y = c.getD 0 0 := by
  match c, h with
  | [], _ => simp
  | [a], _ => simp

end GV.ArgHash
