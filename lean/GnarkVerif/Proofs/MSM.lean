import GnarkVerif.Model.MSM
import Mathlib.Algebra.BigOperators.Group.Finset.Basic
import Mathlib.Tactic.Ring
import Mathlib.Tactic.Linarith
import Mathlib.Tactic.Module
/-
Helper lemmas for C04 (multi-exponentiation). The property theorems are in Props/C04.lean.
-/
namespace GV.MSM

/-! ## `parallel.Execute`: the ranges tile `[0,n)` -/

/-- the ranges of `l` are consecutive and non-decreasing, the first starts at `a`, the last ends at `b` -/
inductive Tiles : List (Nat × Nat) → Nat → Nat → Prop
  | nil (a : Nat) : Tiles [] a a
  | cons {a m b : Nat} {l : List (Nat × Nat)} : a ≤ m → Tiles l m b → Tiles ((a, m) :: l) a b

theorem execLoop_tiles (per : Nat) : ∀ t i extra off a b, extra ≤ t → a = i * per + off →
    b = (i + t) * per + off + extra → Tiles (execLoop per t i extra off) a b := by
  intro t
  induction t with
  | zero =>
    intro i extra off a b he ha hb
    have h0 : extra = 0 := by omega
    subst h0
    have : b = a := by rw [ha, hb]; simp
    subst this
    simp only [execLoop]
    exact Tiles.nil _
  | succ t ih =>
    intro i extra off a b he ha hb
    have hmul : (i + 1) * per = i * per + per := by ring
    have hmul2 : (i + (t + 1)) * per = (i + 1 + t) * per := by ring
    simp only [execLoop]
    split
    · rename_i hpos
      subst ha
      exact Tiles.cons (by omega) (ih (i+1) (extra-1) (off+1) _ _ (by omega) (by omega) (by omega))
    · rename_i hpos
      subst ha
      exact Tiles.cons (by omega) (ih (i+1) extra off _ _ (by omega) (by omega) (by omega))

theorem executeCore_tiles (n k : Nat) (hk : 1 ≤ k) : Tiles (executeCore n k) 0 n := by
  unfold executeCore
  dsimp only
  split
  · exact Tiles.cons (Nat.zero_le _) (Tiles.nil _)
  · by_cases hper : n / k < 1
    · simp only [hper, if_true]
      exact execLoop_tiles 1 n 0 (n - n * 1) 0 0 n (by omega) (by simp) (by simp)
    · simp only [hper, if_false]
      have h1 := Nat.div_add_mod n k
      have h2 := Nat.mod_lt n (show k > 0 by omega)
      have h3 : (0 + k) * (n / k) = k * (n / k) := by ring
      exact execLoop_tiles (n/k) k 0 (n - k * (n / k)) 0 0 n (by omega) (by simp) (by omega)

theorem Tiles.le {l : List (Nat × Nat)} {a b : Nat} (h : Tiles l a b) : a ≤ b := by
  induction h with
  | nil a => exact Nat.le_refl _
  | cons h1 _ ih => exact Nat.le_trans h1 ih

theorem Tiles.flatMap_range {l : List (Nat × Nat)} {a b : Nat} (h : Tiles l a b) :
    l.flatMap (fun se => List.range' se.1 (se.2 - se.1)) = List.range' a (b - a) := by
  induction h with
  | nil a => simp
  | @cons a m b l h1 h2 ih =>
    have hle := h2.le
    rw [List.flatMap_cons, ih]
    show List.range' a (m - a) ++ List.range' m (b - m) = List.range' a (b - a)
    have e2 : b - a = (m - a) + (b - m) := by omega
    rw [e2, ← List.range'_append_1]
    congr 2
    omega

theorem clamp_pos (k : Int) : 1 ≤ (if k < 1 then 1 else if k > 512 then 512 else k.toNat) := by
  split
  · exact Nat.le_refl _
  · split
    · decide
    · omega

theorem map_range_getD {α : Type} (f : Nat → α) : ∀ (r : List Nat),
    (List.range r.length).map (fun j => f (r.getD j 0)) = r.map f := by
  intro r
  induction r with
  | nil => simp
  | cons a r ih =>
    rw [List.length_cons, List.range_succ_eq_map, List.map_cons, List.map_map, List.map_cons]
    congr 1

/-! ## signed-digit recoding -/

/-- value of a digit string in radix 2^c, least significant first -/
def evalDigits (c : Nat) : List Int → Int
  | [] => 0
  | d :: ds => d + 2^c * evalDigits c ds

/-- value of the windows `j … j+k` in radix 2^c -/
def winSum (c : Nat) (w : Nat → Nat) : Nat → Nat → Nat
  | j, 0 => w j
  | j, k+1 => w j + 2^c * winSum c w (j+1) k

theorem recode_eval (c : Nat) (w : Nat → Nat) : ∀ k j carry,
    evalDigits c (recode c w j k carry) = (carry : Int) + (winSum c w j k : Int) := by
  intro k
  induction k with
  | zero => intro j carry; simp [recode, evalDigits, winSum]
  | succ k ih =>
    intro j carry
    simp only [recode, winSum]
    split
    · simp only [evalDigits, ih, Int.ofNat_eq_natCast]; push_cast; ring
    · simp only [evalDigits, ih, Int.ofNat_eq_natCast]; push_cast; ring

theorem winSum_div (c s : Nat) : ∀ k j,
    winSum c (fun i => s / 2^(c*i) % 2^c) j k = s / 2^(c*j) % 2^(c*(k+1)) := by
  intro k
  induction k with
  | zero => intro j; simp [winSum]
  | succ k ih =>
    intro j
    simp only [winSum, ih]
    have e1 : s / 2^(c*(j+1)) = s / 2^(c*j) / 2^c := by
      have e0 : c * (j + 1) = c * j + c := by ring
      rw [Nat.div_div_eq_div_mul, ← Nat.pow_add, e0]
    have e2 : 2^(c*(k+1+1)) = 2^c * 2^(c*(k+1)) := by
      rw [← Nat.pow_add]; congr 1; ring
    rw [e1, e2, Nat.mod_mul]

theorem recode_congr (c : Nat) (w w' : Nat → Nat) : ∀ k j carry,
    (∀ i, j ≤ i → i ≤ j + k → w i = w' i) → recode c w j k carry = recode c w' j k carry := by
  intro k
  induction k with
  | zero => intro j carry h; simp only [recode, h j (Nat.le_refl _) (by omega)]
  | succ k ih =>
    intro j carry h
    have hj := h j (Nat.le_refl _) (by omega)
    simp only [recode, hj]
    rw [ih (j+1) 1 (fun i h1 h2 => h i (by omega) (by omega)),
        ih (j+1) 0 (fun i h1 h2 => h i (by omega) (by omega))]

theorem recode_cons (c : Nat) (w : Nat → Nat) (k j carry : Nat) :
    ∃ x xs, recode c w j k carry = x :: xs := by
  cases k with
  | zero => exact ⟨_, _, rfl⟩
  | succ k =>
    simp only [recode]
    split
    · exact ⟨_, _, rfl⟩
    · exact ⟨_, _, rfl⟩

theorem recode_length (c : Nat) (w : Nat → Nat) : ∀ k j carry, (recode c w j k carry).length = k + 1 := by
  intro k
  induction k with
  | zero => intro j carry; simp [recode]
  | succ k ih =>
    intro j carry
    simp only [recode]
    split <;> simp [ih]

/-- all digits but the last are in `[-2^(c-1), 2^(c-1))`, the last one is in `[0, B]` -/
def digitsOK (c : Nat) (B : Int) : List Int → Prop
  | [] => True
  | [d] => 0 ≤ d ∧ d ≤ B
  | d :: d' :: ds => -(2:Int)^(c-1) ≤ d ∧ d < (2:Int)^(c-1) ∧ digitsOK c B (d' :: ds)

theorem recode_ok (c : Nat) (hc : 1 ≤ c) (w : Nat → Nat) (hw : ∀ i, w i < 2^c) (B : Int) :
    ∀ k j carry, carry ≤ 1 → (w (j + k) : Int) + 1 ≤ B → digitsOK c B (recode c w j k carry) := by
  obtain ⟨c', rfl⟩ : ∃ c', c = c' + 1 := ⟨c - 1, by omega⟩
  have hN : (2:ℕ)^(c'+1) = 2 * 2^c' := by ring
  have hZ : (2:ℤ)^(c'+1) = 2 * 2^c' := by ring
  have hlink : ((2^c' : ℕ) : ℤ) = (2:ℤ)^c' := by push_cast; rfl
  intro k
  induction k with
  | zero =>
    intro j carry hcar hB
    simp only [recode, digitsOK, Int.ofNat_eq_natCast]
    simp only [Nat.add_zero] at hB
    constructor <;> omega
  | succ k ih =>
    intro j carry hcar hB
    have hwj := hw j
    simp only [recode, Nat.add_sub_cancel, Int.ofNat_eq_natCast]
    split
    · rename_i hgt
      obtain ⟨x, xs, hx⟩ := recode_cons (c'+1) w k (j+1) 1
      have ih' := ih (j+1) 1 (Nat.le_refl _) (by rw [show j + 1 + k = j + (k + 1) by omega]; exact hB)
      rw [hx] at ih' ⊢
      simp only [digitsOK, Nat.add_sub_cancel]
      refine ⟨?_, ?_, ih'⟩ <;> omega
    · rename_i hgt
      obtain ⟨x, xs, hx⟩ := recode_cons (c'+1) w k (j+1) 0
      have ih' := ih (j+1) 0 (Nat.zero_le _) (by rw [show j + 1 + k = j + (k + 1) by omega]; exact hB)
      rw [hx] at ih' ⊢
      simp only [digitsOK, Nat.add_sub_cancel]
      refine ⟨?_, ?_, ih'⟩ <;> omega

/-! ### uint16 layout -/

theorem decode_encodeDigit (d : Int) (h1 : -32768 ≤ d) (h2 : d < 32768) :
    decodeDigit (encodeDigit d) = d := by
  unfold encodeDigit decodeDigit u16
  simp only [Nat.shiftLeft_eq, pow_one, Int.ofNat_eq_natCast]
  split_ifs <;> omega

theorem decode_encodeLast (d : Int) (h1 : 0 ≤ d) (h2 : d < 32768) :
    decodeDigit (encodeLast d) = d := by
  unfold encodeLast decodeDigit u16
  simp only [Nat.shiftLeft_eq, pow_one, Int.ofNat_eq_natCast]
  split_ifs <;> omega

theorem bucketOf_encodeDigit (P : Nat) (hP : P ≤ 32768) (d : Int) (h1 : -(P:Int) ≤ d) (h2 : d < P)
    (hne : encodeDigit d ≠ 0) : bucketOf (encodeDigit d) < P := by
  unfold encodeDigit bucketOf u16 at *
  simp only [Nat.shiftLeft_eq, pow_one] at *
  split_ifs at * <;> omega

theorem bucketOf_encodeLast (B : Nat) (hB : B < 32768) (d : Int) (h1 : 0 ≤ d) (h2 : d ≤ B)
    (hne : encodeLast d ≠ 0) : bucketOf (encodeLast d) < B := by
  unfold encodeLast bucketOf u16 at *
  simp only [Nat.shiftLeft_eq, pow_one] at *
  split_ifs at * <;> omega

/-- decoding the stored digits gives back the signed digits -/
theorem decode_encodeAll (c : Nat) (hc : c ≤ 16) (B : Int) (hB : B < 32768) : ∀ ds : List Int,
    digitsOK c B ds → (encodeAll ds).map decodeDigit = ds := by
  have hp : (2:Int)^(c-1) ≤ 32768 := by
    have : (2:Int)^(c-1) ≤ 2^15 := pow_le_pow_right₀ (by norm_num) (by omega)
    simpa using this
  intro ds
  induction ds with
  | nil => intro _; simp [encodeAll]
  | cons d ds ih =>
    intro h
    cases ds with
    | nil =>
      simp only [digitsOK] at h
      simp only [encodeAll, List.map_cons, List.map_nil]
      rw [decode_encodeLast d h.1 (by omega)]
    | cons d' ds =>
      simp only [digitsOK] at h
      simp only [encodeAll, List.map_cons]
      rw [decode_encodeDigit d (by omega) (by omega)]
      congr 1
      exact ih h.2.2

theorem encodeAll_length : ∀ ds : List Int, (encodeAll ds).length = ds.length
  | [] => rfl
  | [_] => rfl
  | _ :: d' :: ds => by simp only [encodeAll, List.length_cons, encodeAll_length (d' :: ds)]

/-! ## group level -/

section group
variable {G : Type} [AddCommGroup G]

/-- the dictionary really is the group structure -/
structure Lawful (ops : GOps G) : Prop where
  zero : ops.zero = 0
  add : ∀ a b, ops.add a b = a + b
  neg : ∀ a, ops.neg a = -a

/-- `Σ_k (off+k+1) • B_k` -/
def wsumFrom (off : Nat) : List G → G
  | [] => 0
  | b :: bs => ((off:ℤ) + 1) • b + wsumFrom (off+1) bs

theorem wsumFrom_succ (bs : List G) : ∀ k, wsumFrom (k+1) bs = wsumFrom k bs + bs.sum := by
  induction bs with
  | nil => intro k; simp [wsumFrom]
  | cons b bs ih =>
    intro k
    simp only [wsumFrom, List.sum_cons, ih (k+1)]
    push_cast
    module

theorem reduceAux_eq (ops : GOps G) (h : Lawful ops) (bs : List G) :
    reduceAux ops bs = (bs.sum, wsumFrom 0 bs) := by
  induction bs with
  | nil => simp [reduceAux, wsumFrom, h.zero]
  | cons b bs ih =>
    have e : reduceAux ops (b :: bs) = (ops.add (reduceAux ops bs).1 b,
        ops.add (reduceAux ops bs).2 (ops.add (reduceAux ops bs).1 b)) := rfl
    rw [e, ih]
    simp only [h.add, wsumFrom, List.sum_cons, wsumFrom_succ]
    rw [Prod.mk.injEq]
    constructor
    · exact add_comm _ _
    · push_cast; module

theorem wsumFrom_modify (P : G) : ∀ (bs : List G) (k idx : Nat), idx < bs.length →
    wsumFrom k (bs.modify idx (fun b => b + P)) = wsumFrom k bs + ((k:ℤ) + idx + 1) • P := by
  intro bs
  induction bs with
  | nil => intro k idx h; simp at h
  | cons b bs ih =>
    intro k idx h
    cases idx with
    | zero => simp only [List.modify_zero_cons, wsumFrom]; push_cast; module
    | succ idx =>
      simp only [List.modify_succ_cons, wsumFrom, ih (k+1) idx (by simpa using h)]
      push_cast
      module

theorem wsumFrom_replicate_zero : ∀ (n k : Nat), wsumFrom k (List.replicate n (0:G)) = 0 := by
  intro n
  induction n with
  | zero => intro k; simp [wsumFrom]
  | succ n ih => intro k; simp [List.replicate_succ, wsumFrom, ih]

theorem bucketStep_wsum (ops : GOps G) (h : Lawful ops) (B : List G) (P : G) (u : Nat)
    (hr : u ≠ 0 → bucketOf u < B.length) :
    wsumFrom 0 (bucketStep ops B P u) = wsumFrom 0 B + decodeDigit u • P ∧
      (bucketStep ops B P u).length = B.length := by
  unfold bucketStep decodeDigit
  by_cases h0 : u = 0
  · simp [h0]
  · have hr' := hr h0
    unfold bucketOf at hr'
    by_cases he : u % 2 = 0
    · simp only [h0, he, if_true, if_false] at hr' ⊢
      simp only [h.add]
      refine ⟨?_, by simp⟩
      rw [wsumFrom_modify P B 0 _ hr']
      have e : ((0:ℕ):ℤ) + ((u/2 - 1 : ℕ):ℤ) + 1 = Int.ofNat (u/2) := by
        simp only [Int.ofNat_eq_natCast]; omega
      rw [e]
    · simp only [h0, he, if_false] at hr' ⊢
      simp only [h.add, h.neg]
      refine ⟨?_, by simp⟩
      rw [wsumFrom_modify (-P) B 0 _ hr']
      simp only [Int.ofNat_eq_natCast]
      push_cast
      module

/-- `Σ_i d_i • P_i` for the stored digits `u_i` -/
def digitSum : List G → List Nat → G
  | P :: Ps, u :: us => decodeDigit u • P + digitSum Ps us
  | _, _ => 0

theorem digitSum_nil_left (us : List Nat) : digitSum ([] : List G) us = 0 := by
  cases us <;> rfl

theorem digitSum_nil_right (Ps : List G) : digitSum Ps [] = 0 := by
  cases Ps <;> rfl

theorem foldl_bucketStep (ops : GOps G) (h : Lawful ops) : ∀ (Ps : List G) (us : List Nat) (B : List G),
    (∀ u ∈ us, u ≠ 0 → bucketOf u < B.length) →
    wsumFrom 0 ((Ps.zip us).foldl (fun B pu => bucketStep ops B pu.1 pu.2) B) = wsumFrom 0 B + digitSum Ps us := by
  intro Ps
  induction Ps with
  | nil => intro us B _; simp [digitSum_nil_left]
  | cons P Ps ih =>
    intro us B hr
    cases us with
    | nil => simp [digitSum_nil_right]
    | cons u us =>
      have hs := bucketStep_wsum ops h B P u (hr u (by simp))
      simp only [List.zip_cons_cons, List.foldl_cons]
      rw [ih us _ (fun u' hu' => by rw [hs.2]; exact hr u' (by simp [hu'])), hs.1]
      simp only [digitSum]
      module

theorem processChunkJac_eq (ops : GOps G) (h : Lawful ops) (nb : Nat) (Ps : List G) (us : List Nat)
    (hr : ∀ u ∈ us, u ≠ 0 → bucketOf u < nb) : processChunkJac ops nb Ps us = digitSum Ps us := by
  unfold processChunkJac reduceBuckets accumulate
  rw [reduceAux_eq ops h]
  show wsumFrom 0 _ = _
  rw [foldl_bucketStep ops h Ps us _ (by simpa using hr), h.zero, wsumFrom_replicate_zero]
  simp

theorem digitSum_take_drop : ∀ (m : Nat) (Ps : List G) (us : List Nat),
    digitSum Ps us = digitSum (Ps.take m) (us.take m) + digitSum (Ps.drop m) (us.drop m) := by
  intro m
  induction m with
  | zero => intro Ps us; simp [digitSum_nil_left]
  | succ m ih =>
    intro Ps us
    cases Ps with
    | nil => simp [digitSum_nil_left]
    | cons P Ps =>
      cases us with
      | nil => simp [digitSum_nil_right]
      | cons u us =>
        simp only [List.take_succ_cons, List.drop_succ_cons, digitSum]
        rw [ih Ps us]
        module

/-! ### Horner over the chunks -/

def hsum (c : Nat) : List G → G
  | [] => 0
  | t :: ts => t + (2:ℤ)^c • hsum c ts

theorem dblN_eq (ops : GOps G) (h : Lawful ops) : ∀ (k : Nat) (x : G), dblN ops k x = (2:ℤ)^k • x := by
  intro k
  induction k with
  | zero => intro x; simp [dblN]
  | succ k ih =>
    intro x
    simp only [dblN, h.add, ih]
    rw [pow_succ]
    module

theorem reduceChunks_eq (ops : GOps G) (h : Lawful ops) (c : Nat) : ∀ ts : List G,
    reduceChunks ops c ts = hsum c ts
  | [] => by simp [reduceChunks, hsum, h.zero]
  | [t] => by simp [reduceChunks, hsum]
  | t :: t' :: ts => by
    have ih := reduceChunks_eq ops h c (t' :: ts)
    simp only [reduceChunks, h.add, dblN_eq ops h, ih]
    simp only [hsum]
    module

theorem hsum_map_add (c : Nat) (f g : Nat → G) : ∀ l : List Nat,
    hsum c (l.map (fun j => f j + g j)) = hsum c (l.map f) + hsum c (l.map g) := by
  intro l
  induction l with
  | nil => simp [hsum]
  | cons a l ih => simp only [List.map_cons, hsum, ih]; module

theorem hsum_map_smul (c : Nat) (z : Nat → Int) (P : G) : ∀ l : List Nat,
    hsum c (l.map (fun j => z j • P)) = evalDigits c (l.map z) • P := by
  intro l
  induction l with
  | nil => simp [hsum, evalDigits]
  | cons a l ih => simp only [List.map_cons, hsum, evalDigits, ih]; module

theorem hsum_map_zero (c : Nat) : ∀ l : List Nat, hsum c (l.map (fun _ => (0:G))) = 0 := by
  intro l
  induction l with
  | nil => simp [hsum]
  | cons a l ih => simp only [List.map_cons, hsum, ih]; simp

theorem hsum_replicate_zero (c : Nat) : ∀ n : Nat, hsum c (List.replicate n (0:G)) = 0 := by
  intro n
  induction n with
  | zero => simp [hsum]
  | succ n ih => simp [List.replicate_succ, hsum, ih]

/-- the specification: `Σ_i s_i • P_i` -/
def linComb : List Nat → List G → G
  | s :: ss, P :: Ps => (s:ℤ) • P + linComb ss Ps
  | _, _ => 0

theorem linComb_nil_left (Ps : List G) : linComb [] Ps = 0 := by cases Ps <;> rfl
theorem linComb_nil_right (ss : List Nat) : linComb ss ([] : List G) = 0 := by cases ss <;> rfl

theorem linComb_eq_sum : ∀ (ss : List Nat) (Ps : List G),
    linComb ss Ps = (List.zipWith (fun s P => (s:ℤ) • P) ss Ps).sum
  | [], Ps => by simp [linComb_nil_left]
  | s :: ss, [] => by simp [linComb_nil_right]
  | s :: ss, P :: Ps => by simp [linComb, linComb_eq_sum ss Ps]

theorem linComb_take_drop : ∀ (m : Nat) (ss : List Nat) (Ps : List G),
    linComb ss Ps = linComb (ss.take m) (Ps.take m) + linComb (ss.drop m) (Ps.drop m) := by
  intro m
  induction m with
  | zero => intro ss Ps; simp [linComb_nil_left]
  | succ m ih =>
    intro ss Ps
    cases ss with
    | nil => simp [linComb_nil_left]
    | cons s ss =>
      cases Ps with
      | nil => simp [linComb_nil_right]
      | cons P Ps =>
        simp only [List.take_succ_cons, List.drop_succ_cons, linComb]
        rw [ih ss Ps]
        module

/-- Horner over the chunk totals, chunk `j` being `Σ_i d_ij • P_i` -/
def chunkForm (c nb : Nat) (pts : List G) (rows : List (List Nat)) : G :=
  hsum c ((List.range nb).map (fun j => digitSum pts (colOf rows j)))

theorem chunkForm_cons (c nb : Nat) (P : G) (pts : List G) (r : List Nat) (rows : List (List Nat)) :
    chunkForm c nb (P :: pts) (r :: rows) =
      evalDigits c ((List.range nb).map (fun j => decodeDigit (r.getD j 0))) • P + chunkForm c nb pts rows := by
  unfold chunkForm
  have e : (fun j => digitSum (P :: pts) (colOf (r :: rows) j)) =
      (fun j => decodeDigit (r.getD j 0) • P + digitSum pts (colOf rows j)) := by
    funext j; simp [colOf, digitSum]
  rw [e, hsum_map_add, hsum_map_smul]

theorem chunkForm_eq (c nb : Nat) (rowf : Nat → List Nat) :
    ∀ (scs : List Nat) (pts : List G), pts.length = scs.length →
      (∀ s ∈ scs, (rowf s).length = nb ∧ evalDigits c ((rowf s).map decodeDigit) = (s:ℤ)) →
      chunkForm c nb pts (scs.map rowf) = linComb scs pts := by
  intro scs
  induction scs with
  | nil =>
    intro pts hl _
    cases pts with
    | nil => unfold chunkForm; simp [digitSum_nil_left, hsum_replicate_zero, linComb_nil_left]
    | cons _ _ => simp at hl
  | cons s scs ih =>
    intro pts hl hok
    cases pts with
    | nil => simp at hl
    | cons P pts =>
      rw [List.map_cons, chunkForm_cons, ih pts (by simpa using hl) (fun s' hs' => hok s' (by simp [hs']))]
      obtain ⟨h1, h2⟩ := hok s (by simp)
      rw [← h1, map_range_getD, h2]
      simp only [linComb]

end group

end GV.MSM
