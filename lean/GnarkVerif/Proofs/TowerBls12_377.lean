/- Bridge between the GENERATED bls12_377 tower structures (Gen/Tower/Bls12_377.lean) and the generic spec
   (Proofs/Tower.lean): E2 = Fp[u]/(u²+5), E6 = E2[v]/(v³ − u), E12 = E6[w]/(w² − v). -/
import GnarkVerif.Proofs.Tower
import GnarkVerif.Gen.Tower.Bls12_377Alias

namespace GV.Gen.Tower.bls12_377
open GV.Tower

variable {F : Type} [CommRing F]

/-- Fp2 = Fp[u]/(u² = -5) -/
abbrev Fp2 (F : Type) [CommRing F] := QuadExt F (-5 : F)
/-- the cubic non-residue ξ = 0 + 1·u -/
def xi : Fp2 F := ⟨0, 1⟩
/-- Fp6 = Fp2[v]/(v³ = ξ) -/
abbrev Fp6 (F : Type) [CommRing F] := CubicExt (Fp2 F) xi
/-- Fp12 = Fp6[w]/(w² = v) -/
abbrev Fp12 (F : Type) [CommRing F] := QuadExt (Fp6 F) CubicExt.gen

@[simp, gv_proj] theorem xi_a0 : (xi : Fp2 F).a0 = 0 := rfl
@[simp, gv_proj] theorem xi_a1 : (xi : Fp2 F).a1 = 1 := rfl

/-- forget the Go field names -/
def E2.spec (x : E2 F) : Fp2 F := ⟨x.A0, x.A1⟩
def E6.spec (x : E6 F) : Fp6 F := ⟨x.B0.spec, x.B1.spec, x.B2.spec⟩
def E12.spec (x : E12 F) : Fp12 F := ⟨x.C0.spec, x.C1.spec⟩

@[simp, gv_proj] theorem E2.spec_a0 (x : E2 F) : x.spec.a0 = x.A0 := rfl
@[simp, gv_proj] theorem E2.spec_a1 (x : E2 F) : x.spec.a1 = x.A1 := rfl
@[simp, gv_proj] theorem E6.spec_b0 (x : E6 F) : x.spec.b0 = x.B0.spec := rfl
@[simp, gv_proj] theorem E6.spec_b1 (x : E6 F) : x.spec.b1 = x.B1.spec := rfl
@[simp, gv_proj] theorem E6.spec_b2 (x : E6 F) : x.spec.b2 = x.B2.spec := rfl
@[simp, gv_proj] theorem E12.spec_a0 (x : E12 F) : x.spec.a0 = x.C0.spec := rfl
@[simp, gv_proj] theorem E12.spec_a1 (x : E12 F) : x.spec.a1 = x.C1.spec := rfl
@[simp, gv_proj] theorem E2.spec_mk (a b : F) : (E2.mk a b).spec = ⟨a, b⟩ := rfl
@[simp, gv_proj] theorem E6.spec_mk (a b c : E2 F) : (E6.mk a b c).spec = ⟨a.spec, b.spec, c.spec⟩ := rfl
@[simp, gv_proj] theorem E12.spec_mk (a b : E6 F) : (E12.mk a b).spec = ⟨a.spec, b.spec⟩ := rfl

theorem E2.spec_injective : Function.Injective (E2.spec (F := F)) := by
  intro x y h
  have h0 := congrArg QuadExt.a0 h
  have h1 := congrArg QuadExt.a1 h
  ext <;> simpa using ‹_›
theorem E6.spec_injective : Function.Injective (E6.spec (F := F)) := by
  intro x y h
  have h0 := congrArg CubicExt.b0 h
  have h1 := congrArg CubicExt.b1 h
  have h2 := congrArg CubicExt.b2 h
  simp only [E6.spec_b0, E6.spec_b1, E6.spec_b2] at h0 h1 h2
  exact E6.ext (E2.spec_injective h0) (E2.spec_injective h1) (E2.spec_injective h2)
theorem E12.spec_injective : Function.Injective (E12.spec (F := F)) := by
  intro x y h
  have h0 := congrArg QuadExt.a0 h
  have h1 := congrArg QuadExt.a1 h
  simp only [E12.spec_a0, E12.spec_a1] at h0 h1
  exact E12.ext (E6.spec_injective h0) (E6.spec_injective h1)

end GV.Gen.Tower.bls12_377
