import GnarkVerif.Model.Sig
import Mathlib.Tactic.Ring
import Mathlib.Tactic.Linarith
import Mathlib.Tactic.Positivity
import Mathlib.Algebra.Order.Ring.Nat
import Mathlib.Data.Int.ModEq
import Mathlib.Data.Nat.Prime.Basic
import Mathlib.Tactic.NormNum
/-
C12 — helper lemmas on the executable signature model: big-endian byte strings (`natToBE` / `beToNat`),
unfolding lemmas of the parsers.
-/
namespace GV.Sig
open GV

/-! ### big-endian bytes -/

theorem natToBE_length (len n : Nat) : (natToBE len n).length = len := by
  simp [natToBE]

theorem natToBE_succ (len n : Nat) :
    natToBE (len + 1) n = UInt8.ofNat ((n / 256 ^ len) % 256) :: natToBE len n := by
  simp [natToBE, List.range_succ]

theorem beToNat_foldl (bs : List UInt8) (acc : Nat) :
    bs.foldl (fun a b => a * 256 + b.toNat) acc = acc * 256 ^ bs.length + beToNat bs := by
  induction bs generalizing acc with
  | nil => simp [beToNat]
  | cons b rest ih =>
    simp only [List.foldl_cons, List.length_cons, beToNat]
    rw [ih, ih (0 * 256 + b.toNat)]
    ring

theorem beToNat_cons (b : UInt8) (rest : List UInt8) :
    beToNat (b :: rest) = b.toNat * 256 ^ rest.length + beToNat rest := by
  have := beToNat_foldl rest (0 * 256 + b.toNat)
  simp only [beToNat, List.foldl_cons] at this ⊢
  rw [this]; ring

theorem beToNat_nil : beToNat [] = 0 := rfl

theorem beToNat_append (a b : List UInt8) : beToNat (a ++ b) = beToNat a * 256 ^ b.length + beToNat b := by
  unfold beToNat
  rw [List.foldl_append, beToNat_foldl]
  rfl

theorem beToNat_lt (bs : List UInt8) : beToNat bs < 256 ^ bs.length := by
  induction bs with
  | nil => simp [beToNat]
  | cons b rest ih =>
    rw [beToNat_cons, List.length_cons, pow_succ]
    have hb : b.toNat < 256 := UInt8.toNat_lt b
    have hp : 0 < 256 ^ rest.length := by positivity
    nlinarith

theorem beToNat_natToBE (len n : Nat) : beToNat (natToBE len n) = n % 256 ^ len := by
  induction len with
  | zero => simp [natToBE, beToNat, Nat.mod_one]
  | succ k ih =>
    rw [natToBE_succ, beToNat_cons, ih, natToBE_length, Nat.mod_pow_succ]
    have : (UInt8.ofNat (n / 256 ^ k % 256)).toNat = n / 256 ^ k % 256 := by
      simp [UInt8.toNat_ofNat']
    rw [this]; ring

theorem beToNat_natToBE_of_lt (len n : Nat) (h : n < 256 ^ len) : beToNat (natToBE len n) = n := by
  rw [beToNat_natToBE, Nat.mod_eq_of_lt h]

/-- bytes above position `k` do not influence the low `k` bytes -/
theorem natToBE_add_mul (k N c : Nat) : natToBE k (N + c * 256 ^ k) = natToBE k N := by
  induction k generalizing c with
  | zero => simp [natToBE]
  | succ j ih =>
    rw [natToBE_succ, natToBE_succ]
    have h1 : N + c * 256 ^ (j + 1) = N + (c * 256) * 256 ^ j := by ring
    rw [h1, ih (c * 256)]
    congr 2
    rw [Nat.add_mul_div_right _ _ (by positivity), Nat.add_mul_mod_self_right]

theorem natToBE_beToNat (bs : List UInt8) : natToBE bs.length (beToNat bs) = bs := by
  induction bs with
  | nil => simp [natToBE]
  | cons b rest ih =>
    rw [List.length_cons, natToBE_succ, beToNat_cons]
    have hlt := beToNat_lt rest
    have h1 : b.toNat * 256 ^ rest.length + beToNat rest = beToNat rest + b.toNat * 256 ^ rest.length := by ring
    rw [h1, natToBE_add_mul, ih]
    congr 1
    rw [Nat.add_mul_div_right _ _ (by positivity), Nat.div_eq_of_lt hlt, Nat.zero_add,
      Nat.mod_eq_of_lt (UInt8.toNat_lt b)]
    simp

theorem natToBE_beToNat_of_length (bs : List UInt8) (k : Nat) (h : bs.length = k) : natToBE k (beToNat bs) = bs := by
  subst h; exact natToBE_beToNat bs

/-! ### the Euclid inverse -/

theorem xgcd_spec (a : ℤ) (q : ℕ) : ∀ (fuel r1 r0 : ℕ) (t0 t1 : ℤ), r1 < fuel →
    t0 * a ≡ (r0 : ℤ) [ZMOD q] → t1 * a ≡ (r1 : ℤ) [ZMOD q] →
    xgcd fuel r0 r1 t0 t1 * a ≡ ((Nat.gcd r0 r1 : ℕ) : ℤ) [ZMOD q] := by
  intro fuel
  induction fuel with
  | zero => intro r1 r0 t0 t1 h; omega
  | succ f ih =>
    intro r1 r0 t0 t1 hf h0 h1
    rw [xgcd]
    split_ifs with hz
    · subst hz; simpa using h0
    · have hlt : r0 % r1 < r1 := Nat.mod_lt _ (Nat.pos_of_ne_zero hz)
      have e : ((r0 % r1 : ℕ) : ℤ) + (r1 : ℤ) * ((r0 / r1 : ℕ) : ℤ) = (r0 : ℤ) := by
        exact_mod_cast Nat.mod_add_div r0 r1
      have key : (t0 - Int.ofNat (r0 / r1) * t1) * a ≡ ((r0 % r1 : ℕ) : ℤ) [ZMOD q] := by
        have h2 : (t0 - Int.ofNat (r0 / r1) * t1) * a = t0 * a - ((r0 / r1 : ℕ) : ℤ) * (t1 * a) := by
          simp only [Int.ofNat_eq_natCast]; ring
        have h3 : ((r0 % r1 : ℕ) : ℤ) = (r0 : ℤ) - ((r0 / r1 : ℕ) : ℤ) * (r1 : ℤ) := by linarith
        rw [h2, h3]
        exact h0.sub (h1.mul_left _)
      have := ih (r0 % r1) r1 t1 (t0 - Int.ofNat (r0 / r1) * t1) (by omega) h1 key
      have hg : Nat.gcd r1 (r0 % r1) = Nat.gcd r0 r1 := by
        rw [Nat.gcd_comm r1, ← Nat.gcd_rec, Nat.gcd_comm]
      rwa [hg] at this

/-- for a prime modulus the Euclid inverse is the modular inverse -/
theorem invE_spec (q a : ℕ) (hq : q.Prime) (ha : a % q ≠ 0) : invE q a * a % q = 1 ∧ invE q a < q := by
  have hq0 : 0 < q := hq.pos
  have hq2 : 2 ≤ q := hq.two_le
  unfold invE
  rw [if_neg ha]
  have hlt : a % q < q := Nat.mod_lt _ hq0
  have hcop : Nat.gcd q (a % q) = 1 := by
    apply (Nat.Prime.coprime_iff_not_dvd hq).2
    exact Nat.not_dvd_of_pos_of_lt (Nat.pos_of_ne_zero ha) hlt
  have h0 : (0 : ℤ) * (a : ℤ) ≡ (q : ℤ) [ZMOD q] := by
    simp [Int.ModEq]
  have h1 : (1 : ℤ) * (a : ℤ) ≡ ((a % q : ℕ) : ℤ) [ZMOD q] := by
    simp [Int.ModEq]
  have hs := xgcd_spec (a : ℤ) q (a % q + 1) (a % q) q 0 1 (by omega) h0 h1
  rw [hcop] at hs
  set t := xgcd (a % q + 1) q (a % q) 0 1 with ht
  have hnn : 0 ≤ t % (q : ℤ) := Int.emod_nonneg _ (by exact_mod_cast hq0.ne')
  have hltq : t % (q : ℤ) < q := Int.emod_lt_of_pos _ (by exact_mod_cast hq0)
  have hi : (((t % Int.ofNat q).toNat : ℕ) : ℤ) = t % (q : ℤ) := by
    simp only [Int.ofNat_eq_natCast]; exact Int.toNat_of_nonneg hnn
  constructor
  · have h5 : (((t % Int.ofNat q).toNat * a : ℕ) : ℤ) ≡ ((1 : ℕ) : ℤ) [ZMOD q] := by
      push_cast
      rw [hi]
      exact ((Int.mod_modEq t q).mul_right _).trans (by simpa using hs)
    have h6 := (Int.natCast_modEq_iff).1 h5
    unfold Nat.ModEq at h6
    rw [h6, Nat.mod_eq_of_lt hq2]
  · have : (((t % Int.ofNat q).toNat : ℕ) : ℤ) < q := by rw [hi]; exact hltq
    exact_mod_cast this

/-! ### sign-and-magnitude split of a compressed point -/

theorem pow256_eq (k : Nat) (hk : 0 < k) : 256 ^ k = 2 * 2 ^ (8 * k - 1) := by
  have h8 : 8 * k = (8 * k - 1) + 1 := by omega
  calc 256 ^ k = (2 ^ 8) ^ k := by norm_num
    _ = 2 ^ (8 * k) := by rw [← pow_mul]
    _ = 2 ^ ((8 * k - 1) + 1) := by rw [← h8]
    _ = 2 * 2 ^ (8 * k - 1) := by rw [pow_succ]; ring

theorem split_top (v K : Nat) (hK : 0 < K) (h : v < 2 * K) :
    v % K + (if (v / K == 1) = true then K else 0) = v := by
  have hd : v / K < 2 := Nat.div_lt_of_lt_mul (by omega)
  have hm := Nat.div_add_mod v K
  generalize v / K = d at hd hm ⊢
  rcases d with _ | _ | d
  · simp at hm ⊢; omega
  · simp at hm ⊢; omega
  · omega

end GV.Sig
