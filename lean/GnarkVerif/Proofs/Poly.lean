import GnarkVerif.Model.Poly
import GnarkVerif.Props.C10
import Mathlib.Algebra.Ring.GeomSum
import Mathlib.Tactic.FieldSimp
/-
C20 helper lemmas: denotation of the six forms, soundness of the dispatch table (corollaries of the C10 theorems),
Horner, the barycentric (Lagrange) evaluation loop, multilinear tables, interpolation on a range.
-/
namespace GV.Poly
open GV.FFT Finset
set_option linter.unusedSectionVars false
set_option linter.unusedVariables false

section Conv
variable {R : Type} [CommRing R]

/-- what the C10 theorems need from a domain -/
structure Good (d : Domain R) : Prop where
  prim : PrimRoot d.gen d.m
  gen : d.gen * d.genInv = 1
  g : d.g * d.gInv = 1
  card : (2:R)^d.m * d.cardInv = 1

@[simp] theorem evals_length (d : Domain R) (c : Bool) (a : List R) : (evals d c a).length = a.length := by
  simp [evals]

theorem fftA (kers : List Nat) (d : Domain R) (hd : Good d) (c : Bool) (a : List R) (ha : a.length = 2^d.m) :
    FFT kers d true c a = bitReverse d.m (evals d c a) := C10_FFT_DIF kers d c a hd.prim ha

theorem fftB (kers : List Nat) (d : Domain R) (hd : Good d) (c : Bool) (a : List R) (ha : a.length = 2^d.m) :
    FFT kers d false c (bitReverse d.m a) = evals d c a := C10_FFT_DIT kers d c a hd.prim ha

theorem invC (kers : List Nat) (d : Domain R) (hd : Good d) (c : Bool) (a : List R) (ha : a.length = 2^d.m) :
    FFTInverse kers d true c (evals d c a) = bitReverse d.m a := by
  rw [← fftB kers d hd c a ha]
  exact C10_inverse_DIF_of_DIT kers d c (bitReverse d.m a) hd.gen hd.g hd.card (by simp [ha])

theorem invD (kers : List Nat) (d : Domain R) (hd : Good d) (c : Bool) (a : List R) (ha : a.length = 2^d.m) :
    FFTInverse kers d false c (bitReverse d.m (evals d c a)) = a := by
  rw [← fftA kers d hd c a ha]
  exact C10_inverse_DIT_of_DIF kers d c a hd.gen hd.g hd.card ha

/-- the vector a polynomial `a` (coefficient list) is represented by in each basis, natural order -/
def vecOf (d : Domain R) (b : Basis) (a : List R) : List R :=
  match b with
  | .canonical => a
  | .lagrange => evals d false a
  | .lagrangeCoset => evals d true a

/-- layout -/
def lay (m : Nat) (br : Bool) (v : List R) : List R := if br then bitReverse m v else v

@[simp] theorem vecOf_length (d : Domain R) (b : Basis) (a : List R) : (vecOf d b a).length = a.length := by
  cases b <;> simp [vecOf]

@[simp] theorem lay_length (m : Nat) (br : Bool) (v : List R) : (lay m br v).length = v.length := by
  cases br <;> simp [lay]

/-- **denotation**: the object `p` denotes the polynomial with coefficient list `a` (`|a| = 2^m`) on the domain `d`:
    its stored vector is `a` / the values of `a` on `ωⁱ` / on `g·ωⁱ`, in its layout; a LagrangeCoset object knows
    its coset shift. -/
def Denotes (d : Domain R) (p : Poly R) (a : List R) : Prop :=
  a.length = 2^d.m ∧ p.coeffs = lay d.m p.bitrev (vecOf d p.basis a) ∧ (p.basis = .lagrangeCoset → p.coset = d.g)

theorem Denotes.length {d : Domain R} {p : Poly R} {a : List R} (h : Denotes d p a) : p.coeffs.length = 2^d.m := by
  rw [h.2.1]; simp [h.1]

theorem grow_eq (n : Nat) (c : List R) (h : c.length = n) : grow n c = c := by simp [grow, h]

theorem dispatch_none (t b : Basis) (br : Bool) (h : dispatch t b br = none) : t = b := by
  cases t <;> cases b <;> cases br <;> simp [dispatch] at h <;> rfl

/-- **soundness of the dispatch table**: the listed FFT calls map the stored vector of `a` in form `(b, br)` to
    the stored vector of the same `a` in form `(t, lay')` -/
theorem dispatch_sound (kers : List Nat) (d : Domain R) (hd : Good d) (a : List R) (ha : a.length = 2^d.m)
    (t b : Basis) (br : Bool) (calls : List Call) (lay' : Bool) (h : dispatch t b br = some (calls, lay')) :
    calls.foldl (applyCall kers d) (lay d.m br (vecOf d b a)) = lay d.m lay' (vecOf d t a) := by
  have A := fun c => fftA kers d hd c a ha
  have B := fun c => fftB kers d hd c a ha
  have C := fun c => invC kers d hd c a ha
  have D := fun c => invD kers d hd c a ha
  cases t <;> cases b <;> cases br <;> simp only [dispatch, Option.some.injEq, Prod.mk.injEq, reduceCtorEq] at h <;>
    obtain ⟨rfl, rfl⟩ := h <;>
    simp [applyCall, lay, vecOf, A, B, C, D]

theorem convert_denotes (kers : List Nat) (t : Basis) (d : Domain R) (hd : Good d) (p : Poly R) (a : List R)
    (h : Denotes d p a) : Denotes d (convert kers t d p) a := by
  obtain ⟨ha, hc, hk⟩ := h
  have hl : p.coeffs.length = 2^d.m := Denotes.length ⟨ha, hc, hk⟩
  unfold convert
  rw [grow_eq _ _ hl]
  cases hdis : dispatch t p.basis p.bitrev with
  | none =>
    have := dispatch_none _ _ _ hdis
    refine ⟨ha, hc, ?_⟩
    intro hb
    simp only at hb
    simp [this, hb]
  | some cl =>
    obtain ⟨calls, lay'⟩ := cl
    refine ⟨ha, ?_, ?_⟩
    · simp only
      rw [hc]
      exact dispatch_sound kers d hd a ha t p.basis p.bitrev calls lay' hdis
    · intro hb
      simp only at hb
      simp [hb]

theorem flip_eq (p : Poly R) (m : Nat) (h : p.coeffs.length = 2^m) : flip p = bitReverse m p.coeffs := by
  simp [flip, h, Nat.log2_two_pow]

theorem toRegular_denotes (d : Domain R) (p : Poly R) (a : List R) (h : Denotes d p a) :
    Denotes d (toRegular p) a := by
  have hl := h.length
  obtain ⟨ha, hc, hk⟩ := h
  unfold toRegular
  cases hb : p.bitrev with
  | false =>
    simp only [Bool.false_eq_true, if_false]
    exact ⟨ha, hc, hk⟩
  | true =>
    refine ⟨ha, ?_, hk⟩
    simp only [if_true, flip_eq p d.m hl]
    rw [hc, hb]
    simp only [lay, if_true, Bool.false_eq_true, if_false]
    exact bitReverse_bitReverse _ _ (by simp [ha])

theorem toBitReverse_denotes (d : Domain R) (p : Poly R) (a : List R) (h : Denotes d p a) :
    Denotes d (toBitReverse p) a := by
  have hl := h.length
  obtain ⟨ha, hc, hk⟩ := h
  unfold toBitReverse
  cases hb : p.bitrev with
  | true =>
    simp only [if_true]
    exact ⟨ha, hc, hk⟩
  | false =>
    refine ⟨ha, ?_, hk⟩
    simp only [Bool.false_eq_true, if_false, flip_eq p d.m hl]
    rw [hc, hb]
    simp [lay]

/-- the natural-order reading of a denoting object -/
theorem regular_of_denotes (d : Domain R) (p : Poly R) (a : List R) (h : Denotes d p a) :
    regular p = vecOf d p.basis a := by
  have hl := h.length
  obtain ⟨ha, hc, hk⟩ := h
  unfold regular
  cases hb : p.bitrev with
  | false => simp [hc, hb, lay]
  | true =>
    simp only [if_true, flip_eq p d.m hl]
    rw [hc, hb]
    simp only [lay, if_true]
    exact bitReverse_bitReverse _ _ (by simp [ha])

end Conv

/-! ### Horner, integer powers, `Evaluate` in canonical basis -/
section Horner
variable {R : Type} [CommRing R]

theorem evalAt_cons (a : R) (as : List R) (x : R) : evalAt (a :: as) x = a + x * evalAt as x := by
  rw [evalAt_eq, evalAt_eq, List.length_cons, Finset.sum_range_succ', Finset.mul_sum]
  simp only [List.getD_cons_succ, List.getD_cons_zero, pow_zero, mul_one]
  rw [add_comm]
  congr 1
  exact Finset.sum_congr rfl (fun j _ => by ring)

@[simp] theorem evalAt_nil (x : R) : evalAt ([] : List R) x = 0 := by simp [evalAt_eq]

/-- Horner's rule computes `Σ aⱼ xʲ` -/
theorem horner_eq (c : List R) (x : R) : horner c x = evalAt c x := by
  induction c with
  | nil => simp [horner]
  | cons a as ih =>
    rw [evalAt_cons, ← ih]
    simp only [horner, List.foldr_cons]
    ring

theorem natR_eq (n : Nat) : (natR n : R) = (n : R) := by
  induction n with
  | zero => simp [natR]
  | succ n ih => simp [natR, ih]

theorem evalAt_append_zeros (a : List R) (k : Nat) (x : R) : evalAt (a ++ List.replicate k 0) x = evalAt a x := by
  induction a with
  | nil =>
    induction k with
    | zero => simp
    | succ k ih => simp only [List.nil_append] at ih ⊢; rw [List.replicate_succ, evalAt_cons, ih]; simp
  | cons b bs ih => rw [List.cons_append, evalAt_cons, evalAt_cons, ih]

end Horner

section Eval
variable {F : Type} [Field F] [DecidableEq F]

theorem zpw_eq (w wInv : F) (h : wInv = w⁻¹) (s : Int) : zpw w wInv s = w ^ s := by
  unfold zpw
  split
  · rename_i hs
    rw [pw_eq]
    conv_rhs => rw [← Int.toNat_of_nonneg hs]
    rw [zpow_natCast]
  · rename_i hs
    rw [pw_eq, h, inv_pow]
    have : s = -(((-s).toNat : Nat) : Int) := by omega
    conv_rhs => rw [this]
    rw [zpow_neg, zpow_natCast]

/-- the argument `Evaluate` passes on to `polynomial.evaluate` -/
theorem evaluate_arg (env : Env F) (p : Poly F) (x : F) (hg : env.genInvOf p.size = (env.genOf p.size)⁻¹) :
    evaluate env p x =
      evalCore env p ((if p.basis = .lagrangeCoset then x * env.inv p.coset else x) * (env.genOf p.size) ^ p.shift) := by
  unfold evaluate
  simp only
  split
  · rename_i h0; simp [h0]
  · rw [zpw_eq _ _ hg]

theorem smallExp_eq (w : F) (s : Int) (h0 : 0 ≤ s) (h5 : s ≤ 5) : smallExp w s = w ^ s := by
  have : s = 0 ∨ s = 1 ∨ s = 2 ∨ s = 3 ∨ s = 4 ∨ s = 5 := by omega
  rcases this with rfl | rfl | rfl | rfl | rfl | rfl <;> simp [smallExp] <;> ring

theorem smallExp_neg (w : F) (s : Int) (h : s < 0) : smallExp w s = 0 := by
  unfold smallExp
  rw [if_neg (by omega), if_neg (by omega), if_neg (by omega), if_neg (by omega), if_neg (by omega), if_neg (by omega)]

end Eval

/-! ### the barycentric loop of `evalLagrange` -/
section Lagrange
variable {R : Type} [CommRing R]

theorem lagLoop_eq (w : R) (cs : List R) : ∀ (ds es : List R) (li r : R), ds.length = cs.length →
    es.length = cs.length → (∀ j, j < cs.length → ds.getD j 0 * es.getD j 0 = 1) →
    lagLoop w cs ds es li r = r + ∑ j ∈ range cs.length, li * w ^ j * es.getD j 0 * cs.getD j 0 := by
  induction cs with
  | nil => intro ds es li r _ _ _; cases ds <;> cases es <;> simp [lagLoop]
  | cons c cs ih =>
    intro ds es li r h1 h2 hde
    obtain ⟨d, ds, rfl⟩ : ∃ d ds', ds = d :: ds' := by
      cases ds with
      | nil => simp at h1
      | cons d ds => exact ⟨d, ds, rfl⟩
    obtain ⟨e, es, rfl⟩ : ∃ e es', es = e :: es' := by
      cases es with
      | nil => simp at h2
      | cons e es => exact ⟨e, es, rfl⟩
    simp only [lagLoop]
    rw [ih ds es _ _ (by simpa using h1) (by simpa using h2)
      (fun j hj => by simpa using hde (j+1) (by simpa using hj))]
    have h0 : d * e = 1 := by simpa using hde 0 (by simp)
    rw [List.length_cons, Finset.sum_range_succ']
    simp only [List.getD_cons_succ, List.getD_cons_zero, pow_zero, mul_one]
    have : ∀ j, li * e * d * w * w ^ j * es.getD j 0 * cs.getD j 0
        = li * w ^ (j+1) * es.getD j 0 * cs.getD j 0 := by
      intro j; rw [pow_succ]; linear_combination (li * w * w^j * es.getD j 0 * cs.getD j 0) * h0
    simp only [this]; ring

theorem primRoot_inv (d : Domain R) (hd : Good d) : PrimRoot d.genInv d.m := by
  have hp := hd.prim
  cases hm : d.m with
  | zero => trivial
  | succ k =>
    rw [hm] at hp
    show d.genInv ^ (2^k) = -1
    have h1 : d.gen ^ (2^k) = -1 := hp
    have h2 := pow_mul_pow_eq_one hd.gen (2^k)
    rw [h1] at h2; linear_combination (-1 : R) * h2

theorem gen_pow_card (w : R) (m : Nat) (hw : PrimRoot w m) (j : Nat) (hj : j < 2^m) : (w ^ j) ^ (2^m) = 1 := by
  cases m with
  | zero => have : j = 0 := by simpa using hj
            simp [this]
  | succ k =>
    have := PrimRoot.pow_one hw
    rw [← pow_mul, mul_comm, pow_mul, pow_succ, mul_comm (2^k) 2, this, one_pow]

/-- inverse DFT, read off the C10 inverse theorem: `b_k = n⁻¹ Σⱼ b(ωʲ) ω^{-jk}` -/
theorem idft_evals (d : Domain R) (hd : Good d) (b : List R) (hb : b.length = 2^d.m) (k : Nat) (hk : k < 2^d.m) :
    b.getD k 0 = (∑ j ∈ range (2^d.m), (evals d false b).getD j 0 * d.genInv ^ (j * k)) * d.cardInv := by
  have h := invD [] d hd false b hb
  rw [FFTInverse_eq_core _ _ _ _ _ (by simp [hb])] at h
  simp only [Bool.false_eq_true, if_false, postScale, Bool.not_false, if_true] at h
  rw [ditCore_eq_dft _ _ (primRoot_inv d hd) _ (by simp [hb])] at h
  conv_lhs => rw [← h]
  rw [getD_map _ _ _ (by simp [hb, hk]), dft, getD_map_range _ _ _ (by simp [hb, hk]), dftAt_eq]
  simp [hb]

end Lagrange

section LagrangeField
variable {F : Type} [Field F]

theorem bary_term (n : Nat) (y z zi : F) (hz : z ^ n = 1) (hzi : zi * z = 1) (hy : y ≠ z) :
    (y ^ n - 1) * z * (y - z)⁻¹ = ∑ i ∈ range n, zi ^ i * y ^ i := by
  have hne : y - z ≠ 0 := sub_ne_zero.mpr hy
  have hg := (Commute.all y z).geom_sum₂_mul n
  rw [hz] at hg
  rw [← hg, mul_assoc, mul_comm z, ← mul_assoc, mul_assoc _ (y - z), mul_inv_cancel₀ hne, mul_one, Finset.sum_mul]
  refine Finset.sum_congr rfl (fun i hi => ?_)
  have hi' : i < n := Finset.mem_range.mp hi
  have e : z ^ (n - 1 - i) * z = z ^ (n - i) := by rw [← pow_succ]; congr 1; omega
  have e2 : z ^ (n - i) = zi ^ i := by
    have h1 : zi ^ i * z ^ i = 1 := by rw [← mul_pow, hzi, one_pow]
    have h2 : z ^ (n - i) * z ^ i = 1 := by rw [← pow_add, Nat.sub_add_cancel (le_of_lt hi'), hz]
    calc z ^ (n - i) = z ^ (n - i) * (zi ^ i * z ^ i) := by rw [h1, mul_one]
      _ = zi ^ i * (z ^ (n - i) * z ^ i) := by ring
      _ = zi ^ i := by rw [h2, mul_one]
  rw [mul_assoc, e, e2]; ring

/-- **barycentric evaluation** (the loop of `evalLagrange`, `BatchInvert` = element-wise inverse): away from the
    domain it returns the value of the interpolated polynomial -/
theorem evalLagrangeGo_eq (d : Domain F) (hd : Good d) (b : List F) (hb : b.length = 2^d.m) (y : F)
    (hy : ∀ i, i < 2^d.m → y ≠ d.gen ^ i) :
    evalLagrangeGo (fun x => x⁻¹) (List.map (fun x => x⁻¹)) d.gen (evals d false b) y = evalAt b y := by
  have hN : ((2^d.m : Nat) : F) = (2:F)^d.m := by push_cast; rfl
  have hci : d.cardInv = ((2:F)^d.m)⁻¹ := eq_inv_of_mul_eq_one_right hd.card
  unfold evalLagrangeGo
  simp only [evals_length, hb]
  rw [lagLoop_eq _ _ _ _ _ _ (by simp [hb]) (by simp [hb])]
  · simp only [evals_length, hb, zero_add, natR_eq, pw_eq, hN]
    rw [evalAt_eq, hb]
    have hL : ∀ j ∈ range (2^d.m),
        ((2:F)^d.m)⁻¹ * (y ^ 2^d.m - 1) * d.gen ^ j *
          (List.map (fun x => x⁻¹) (List.map (fun a => y - a) (powers d.gen (2^d.m)))).getD j 0 *
          (evals d false b).getD j 0
        = ∑ i ∈ range (2^d.m), d.cardInv * ((evals d false b).getD j 0 * d.genInv ^ (j * i)) * y ^ i := by
      intro j hj
      have hj' : j < 2^d.m := Finset.mem_range.mp hj
      rw [getD_map _ _ _ (by simp [hj']), getD_map _ _ _ (by simp [hj']), getD_powers _ _ _ hj']
      have hb := bary_term (2^d.m) y (d.gen ^ j) (d.genInv ^ j) (gen_pow_card _ _ hd.prim j hj')
        (by rw [← mul_pow, mul_comm, hd.gen, one_pow]) (hy j hj')
      have : ((2:F)^d.m)⁻¹ * (y ^ 2^d.m - 1) * d.gen ^ j * (y - d.gen ^ j)⁻¹ * (evals d false b).getD j 0
          = ((2:F)^d.m)⁻¹ * (evals d false b).getD j 0 * ((y ^ 2^d.m - 1) * d.gen ^ j * (y - d.gen ^ j)⁻¹) := by
        ring
      rw [this, hb, Finset.mul_sum, hci]
      refine Finset.sum_congr rfl (fun i _ => ?_)
      rw [pow_mul]; ring
    rw [Finset.sum_congr rfl hL, Finset.sum_comm]
    refine Finset.sum_congr rfl (fun i hi => ?_)
    rw [idft_evals d hd b hb i (Finset.mem_range.mp hi), Finset.sum_mul, Finset.sum_mul]
    refine Finset.sum_congr rfl (fun j _ => ?_)
    ring
  · intro j hj
    have hj' : j < 2^d.m := by simpa [hb] using hj
    rw [getD_map _ _ _ (by simp [hj']), getD_map _ _ _ (by simp [hj']), getD_map _ _ _ (by simp [hj']),
      getD_powers _ _ _ hj']
    exact mul_inv_cancel₀ (sub_ne_zero.mpr (hy j hj'))

end LagrangeField

section EvalAll
variable {F : Type} [Field F] [DecidableEq F]

theorem domainIndex_some (ws : List F) (x : F) (i : Nat) (h : domainIndex ws x = some i) :
    i < ws.length ∧ ws.getD i 0 = x := by
  unfold domainIndex at h
  simp only at h
  split at h
  · rename_i hlt
    injection h with h
    subst h
    refine ⟨hlt, ?_⟩
    have := List.findIdx_getElem (w := hlt)
    rw [getD_of_lt _ _ hlt]
    simpa using this
  · cases h

theorem domainIndex_none (ws : List F) (x : F) (h : domainIndex ws x = none) :
    ∀ i, i < ws.length → ws.getD i 0 ≠ x := by
  unfold domainIndex at h
  simp only at h
  split at h
  · cases h
  · rename_i hge
    have hle := List.findIdx_le_length (p := fun a => decide (a = x)) (xs := ws)
    have heq : ws.findIdx (fun a => decide (a = x)) = ws.length := by omega
    rw [List.findIdx_eq_length] at heq
    intro i hi
    rw [getD_of_lt _ _ hi]
    have := heq ws[i] (List.getElem_mem hi)
    simpa using this

/-- Lagrange evaluation (as the property demands it) returns the value of the interpolated polynomial at EVERY point -/
theorem evalLagrange_eq (d : Domain F) (hd : Good d) (b : List F) (hb : b.length = 2^d.m) (y : F) :
    evalLagrange (fun x => x⁻¹) (List.map (fun x => x⁻¹)) d.gen (evals d false b) y = evalAt b y := by
  unfold evalLagrange
  simp only [evals_length, hb]
  cases h : domainIndex (powers d.gen (2^d.m)) y with
  | none =>
    simp only
    apply evalLagrangeGo_eq d hd b hb
    intro i hi
    have := domainIndex_none _ _ h i (by simpa using hi)
    rw [getD_powers _ _ _ hi] at this
    exact fun e => this e.symm
  | some i =>
    obtain ⟨hi, hx⟩ := domainIndex_some _ _ _ h
    have hi' : i < 2^d.m := by simpa using hi
    rw [getD_powers _ _ _ hi'] at hx
    simp only
    rw [evals, getD_map_range _ _ _ (by rw [hb]; exact hi')]
    simp [hx]

theorem evals_coset_eq (d : Domain F) (a : List F) :
    evals d true a = evals d false (List.zipWith (· * ·) a (powers d.g a.length)) := by
  rw [← dft_coset_eq_evals, dft_eq_evals]

theorem evalAt_scale (a : List F) (g y : F) :
    evalAt (List.zipWith (· * ·) a (powers g a.length)) y = evalAt a (g * y) := by
  rw [evalAt_eq, evalAt_eq]
  simp only [List.length_zipWith, powers_length, Nat.min_self]
  refine Finset.sum_congr rfl (fun j hj => ?_)
  have hj' := Finset.mem_range.mp hj
  rw [getD_zipWith _ _ _ _ hj' (by simpa using hj'), getD_powers _ _ _ hj', mul_pow]
  ring

/-- **Evaluate** (property model) returns the value of the denoted polynomial at `ω_size^shift · x`, in every basis,
    both layouts, for every integer shift and every point -/
theorem evaluate_eq (d : Domain F) (hd : Good d) (env : Env F) (p : Poly F) (a : List F) (h : Denotes d p a)
    (hinv : env.inv = fun x => x⁻¹) (hbinv : env.binv = List.map (fun x => x⁻¹))
    (hgen : env.genOf (2^d.m) = d.gen) (hsz : env.genInvOf p.size = (env.genOf p.size)⁻¹) (x : F) :
    evaluate env p x = evalAt a (x * (env.genOf p.size) ^ p.shift) := by
  rw [evaluate_arg env p x hsz]
  have hreg := regular_of_denotes d p a h
  have hl := h.length
  obtain ⟨ha, hc, hk⟩ := h
  unfold evalCore
  cases hb : p.basis with
  | canonical =>
    simp only [if_true, reduceCtorEq, if_false]
    rw [horner_eq, hreg, hb]
    rfl
  | lagrange =>
    simp only [reduceCtorEq, if_false]
    rw [hreg, hb, hl, hgen, hinv, hbinv]
    exact evalLagrange_eq d hd a ha _
  | lagrangeCoset =>
    simp only [reduceCtorEq, if_false, if_true]
    rw [hreg, hb, hl, hgen, hinv, hbinv, hk hb]
    show evalLagrange _ _ d.gen (evals d true a) _ = _
    rw [evals_coset_eq, evalLagrange_eq d hd _ (by simp [ha]), evalAt_scale]
    have hg0 : d.g ≠ 0 := fun e => by have := hd.g; rw [e, zero_mul] at this; exact zero_ne_one this
    congr 1
    field_simp

end EvalAll

section GoLiteral
variable {R : Type} [CommRing R]

theorem lagLoop_zero (w : R) (cs : List R) : ∀ (ds es : List R) (r : R), lagLoop w cs ds es 0 r = r := by
  induction cs with
  | nil => intro ds es r; simp [lagLoop]
  | cons c cs ih =>
    intro ds es r
    cases ds with
    | nil => simp [lagLoop]
    | cons d ds =>
      cases es with
      | nil => simp [lagLoop]
      | cons e es => simp only [lagLoop]; rw [show (0:R) * e * d * w = 0 by ring, ih]; ring

/-- the literal Go formula returns 0 at every `n`-th root of unity, in particular at every domain point -/
theorem evalLagrangeGo_root (inv : R → R) (binv : List R → List R) (w : R) (vals : List R) (y : R)
    (hy : y ^ vals.length = 1) : evalLagrangeGo inv binv w vals y = 0 := by
  unfold evalLagrangeGo
  simp only [pw_eq, hy, sub_self, mul_zero]
  exact lagLoop_zero _ _ _ _ _

end GoLiteral

/-! ### multilinear tables -/
section ML
variable {R : Type} [CommRing R]

/-- multilinear extension of a table of size `2^n` (first variable = most significant index bit) -/
def mle : List R → List R → R
  | m, [] => m.headD 0
  | m, r :: rs => (1 - r) * mle (m.take (m.length / 2)) rs + r * mle (m.drop (m.length / 2)) rs

def foldF (r : R) : R → R → R := fun b t => b + (t - b) * r

theorem mlFold_eq (m : List R) (r : R) :
    mlFold m r = List.zipWith (foldF r) (m.take (m.length/2)) (m.drop (m.length/2)) := rfl

theorem mlFold_append (A B : List R) (r : R) (h : A.length = B.length) :
    mlFold (A ++ B) r = List.zipWith (foldF r) A B := by
  rw [mlFold_eq]
  have : (A ++ B).length / 2 = A.length := by simp [h]; omega
  rw [this, List.take_left' rfl, List.drop_left' rfl]

theorem mlFold_length (m : List R) (r : R) (k : Nat) (h : m.length = 2 * k) : (mlFold m r).length = k := by
  rw [mlFold_eq]; simp [h]; omega

theorem mlFold_zipWith (A B : List R) (r c : R) (h : A.length = B.length) :
    mlFold (List.zipWith (foldF r) A B) c = List.zipWith (foldF r) (mlFold A c) (mlFold B c) := by
  simp only [mlFold_eq, List.length_zipWith, ← h, Nat.min_self, List.take_zipWith, List.drop_zipWith]
  apply ext_getD
  · simp; omega
  · intro i hi
    simp only [List.length_zipWith, List.length_take, List.length_drop] at hi
    have h1 : i < (A.take (A.length/2)).length := by simp; omega
    have h2 : i < (B.take (A.length/2)).length := by simp; omega
    have h3 : i < (A.drop (A.length/2)).length := by simp; omega
    have h4 : i < (B.drop (A.length/2)).length := by simp; omega
    rw [getD_zipWith _ _ _ _ (by simp; omega) (by simp; omega), getD_zipWith _ _ _ _ h1 h2,
      getD_zipWith _ _ _ _ h3 h4, getD_zipWith _ _ _ _ (by simp; omega) (by simp; omega),
      getD_zipWith _ _ _ _ h1 h3, getD_zipWith _ _ _ _ h2 h4]
    simp only [foldF]; ring

theorem foldl_zipWith (cs : List R) : ∀ (A B : List R) (r : R), A.length = B.length →
    cs.foldl mlFold (List.zipWith (foldF r) A B)
      = List.zipWith (foldF r) (cs.foldl mlFold A) (cs.foldl mlFold B) := by
  induction cs with
  | nil => intro A B r _; rfl
  | cons c cs ih =>
    intro A B r h
    simp only [List.foldl_cons]
    rw [mlFold_zipWith A B r c h]
    apply ih
    simp [mlFold_eq, h]

theorem mlEvaluate_halves (A B : List R) (r : R) (rs : List R) (h : A.length = B.length) (va vb : R)
    (hA : mlEvaluate A rs = some va) (hB : mlEvaluate B rs = some vb) :
    mlEvaluate (A ++ B) (r :: rs) = some ((1 - r) * va + r * vb) := by
  unfold mlEvaluate at *
  simp only [List.foldl_cons]
  rw [mlFold_append A B r h, foldl_zipWith rs A B r h]
  obtain ⟨ta, hta⟩ := List.head?_eq_some_iff.mp hA
  obtain ⟨tb, htb⟩ := List.head?_eq_some_iff.mp hB
  rw [hta, htb]
  simp only [List.zipWith_cons_cons, List.head?_cons, foldF]
  congr 1; ring

/-- `MultiLin.Evaluate` computes the multilinear extension -/
theorem mlEvaluate_eq (cs : List R) : ∀ (m : List R), m.length = 2 ^ cs.length → mlEvaluate m cs = some (mle m cs) := by
  induction cs with
  | nil =>
    intro m hm
    match m, hm with
    | [v], _ => rfl
  | cons r rs ih =>
    intro m hm
    have hlen : m.length / 2 = 2 ^ rs.length := by rw [hm]; simp [pow_succ]
    have hA : (m.take (m.length/2)).length = 2 ^ rs.length := by simp [hlen]; rw [hm]; simp [pow_succ]
    have hB : (m.drop (m.length/2)).length = 2 ^ rs.length := by simp [hlen]; rw [hm]; simp [pow_succ]; omega
    conv_lhs => rw [← List.take_append_drop (m.length/2) m]
    rw [mlEvaluate_halves _ _ r rs (by rw [hA, hB]) _ _ (ih _ hA) (ih _ hB)]
    rfl

theorem eqTable_length (q : List R) : ∀ c : R, (eqTable q c).length = 2 ^ q.length := by
  induction q with
  | nil => intro c; rfl
  | cons a q ih => intro c; simp [eqTable, ih, pow_succ]; ring

/-- the `Eq` table, read as a multilinear polynomial, is `c·∏ (1 + 2qᵢhᵢ − qᵢ − hᵢ)` -/
theorem mlEvaluate_eqTable (q : List R) : ∀ (c : R) (h : List R), h.length = q.length →
    mlEvaluate (eqTable q c) h = some (c * evalEq q h) := by
  induction q with
  | nil =>
    intro c h hh
    have : h = [] := List.length_eq_zero_iff.mp hh
    subst this
    simp [eqTable, mlEvaluate, evalEq]
  | cons a q ih =>
    intro c h hh
    match h, hh with
    | h0 :: hs, hh =>
      have hl : hs.length = q.length := by simpa using hh
      simp only [eqTable]
      rw [mlEvaluate_halves _ _ h0 hs (by rw [eqTable_length, eqTable_length]) _ _ (ih _ hs hl) (ih _ hs hl)]
      simp only [evalEq]
      congr 1; ring

theorem evalEq_eq_prod (q : List R) : ∀ h : List R, h.length = q.length →
    evalEq q h = (List.zipWith (fun a b => a * b + (1 - a) * (1 - b)) q h).prod := by
  induction q with
  | nil => intro h _; cases h <;> simp [evalEq]
  | cons a q ih =>
    intro h hh
    match h, hh with
    | h0 :: hs, hh =>
      simp only [evalEq, List.zipWith_cons_cons, List.prod_cons]
      rw [ih hs (by simpa using hh)]
      ring

end ML

/-! ### GetCoeff, expressions, quotient, grand products -/
section Derived
variable {R : Type} [CommRing R]

theorem emod_toNat_lt (t : Int) (n : Nat) (hn : 0 < n) : (t % (n : Int)).toNat < n := by
  have h1 : 0 ≤ t % (n : Int) := Int.emod_nonneg _ (by omega)
  have h2 : t % (n : Int) < n := Int.emod_lt_of_pos _ (by omega)
  omega

/-- `GetCoeff(i)` = entry `(i + ρ·shift) mod n` of the natural-order vector, for both layouts -/
theorem getCoeff_eq (d : Domain R) (p : Poly R) (a : List R) (h : Denotes d p a) (i : Nat) :
    getCoeff p i = (vecOf d p.basis a).getD
      ((((i : Int) + ((2^d.m / p.size : Nat) : Int) * p.shift) % ((2^d.m : Nat) : Int)).toNat) 0 := by
  have hl := h.length
  obtain ⟨ha, hc, hk⟩ := h
  unfold getCoeff
  simp only [hl, Nat.log2_two_pow]
  have hj := emod_toNat_lt ((i : Int) + ((2^d.m / p.size : Nat) : Int) * p.shift) (2^d.m) (Nat.pow_pos (by decide))
  generalize ((((i : Int) + ((2^d.m / p.size : Nat) : Int) * p.shift) % ((2^d.m : Nat) : Int)).toNat) = j at hj
  rw [hc]
  cases hb : p.bitrev with
  | false => simp [lay]
  | true =>
    simp only [lay, if_true]
    have hbl := bitrev_lt d.m j
    rw [getD_bitReverse _ _ _ (by simp [ha]; exact hbl), bitrev_invol _ _ hj]

theorem FFTInverse_length (kers : List Nat) (d : Domain R) (dif coset : Bool) (a : List R) (ha : a.length = 2^d.m) :
    (FFTInverse kers d dif coset a).length = 2^d.m := by
  rw [FFTInverse_eq_core _ _ _ _ _ ha, postScale_length]
  cases dif
  · simp only [Bool.false_eq_true, if_false]; exact ditCore_length _ _ _ ha
  · simp only [if_true]; exact difCore_length _ _ _ ha

/-- interpolation on the coset from bit-reversed values: `FFTInverse(DIT, OnCoset)` of `bitReverse v` is THE
    coefficient list whose coset evaluations are `v` -/
theorem coset_interp (kers : List Nat) (d : Domain R) (hd : Good d) (v : List R) (hv : v.length = 2^d.m) :
    evals d true (FFTInverse kers d false true (bitReverse d.m v)) = v := by
  have hb : (bitReverse d.m v).length = 2^d.m := by simp [hv]
  have hh := FFTInverse_length kers d false true _ hb
  have h1 := C10_forward_of_inverse kers d true true (bitReverse d.m v) hd.gen hd.g hd.card hb
  simp only [Bool.not_true] at h1
  rw [fftA kers d hd true _ hh] at h1
  have := congrArg (bitReverse d.m) h1
  rwa [bitReverse_bitReverse _ _ (by simp [hh]), bitReverse_bitReverse _ _ hv] at this

/-- `DivideByXMinusOne`: the result is canonical/regular and its evaluations on the big coset are the table products
    `a.GetCoeff(i) · tab[i mod ρ]` -/
theorem divide_spec (kers : List Nat) (inv : R → R) (d0 d1 : Domain R) (hd : Good d1) (a : Poly R)
    (hb : a.basis = .lagrangeCoset) (hl : a.coeffs.length = 2^d1.m) :
    ∃ r, divideByXMinusOne kers inv d0 d1 a = some r ∧ r.basis = .canonical ∧ r.bitrev = false ∧
      r.shift = 0 ∧ r.size = a.size ∧
      evals d1 true r.coeffs = (List.range (2^d1.m)).map (fun i =>
        getCoeff a i * (xnMinusOneInv inv d0 d1).getD (i % (2^d1.m / a.size)) 0) := by
  unfold divideByXMinusOne
  rw [if_neg (by simp [hb])]
  refine ⟨_, rfl, ?_⟩
  simp only [hl, Nat.log2_two_pow, toCanonical, convert, dispatch]
  rw [grow_eq _ _ (by simp)]
  simp only [List.foldl_cons, List.foldl_nil, applyCall, if_true, true_and]
  exact coset_interp kers d1 hd _ (by simp)

/-- `iop.Evaluate`: natural-order entry `i` of the result is `f(i, x₀.GetCoeff(i), …)`, whatever the forms of the
    operands and the requested layout -/
theorem exprEval_spec (f : Nat → List R → R) (b : Basis) (br : Bool) (x0 : Poly R) (xs : List (Poly R)) (m : Nat)
    (hl : ∀ x ∈ x0 :: xs, x.coeffs.length = 2^m) :
    ∃ r, exprEval f b br (x0 :: xs) = some r ∧ r.basis = b ∧ r.bitrev = br ∧ r.shift = 0 ∧ r.size = x0.size ∧
      regular r = (List.range (2^m)).map (fun i => f i ((x0 :: xs).map (fun x => getCoeff x i))) := by
  unfold exprEval
  have h0 : x0.coeffs.length = 2^m := hl x0 (by simp)
  have hany : ((x0 :: xs).any fun x => x.coeffs.length != x0.coeffs.length) = false := by
    rw [List.any_eq_false]
    intro x hx
    simp [hl x hx, h0]
  simp only [hany, Bool.false_eq_true, if_false]
  refine ⟨_, rfl, rfl, rfl, rfl, rfl, ?_⟩
  cases br with
  | false => simp [regular, h0]
  | true =>
    simp only [regular, if_true, flip, h0, Nat.log2_two_pow, bitReverse_length, List.length_map, List.length_range]
    exact bitReverse_bitReverse _ _ (by simp)

theorem runProd_length (bs : List R) : ∀ acc : R, (runProd acc bs).length = bs.length + 1 := by
  induction bs with
  | nil => intro acc; rfl
  | cons b bs ih => intro acc; simp [runProd, ih]

theorem runProd_zero (bs : List R) (acc : R) : (runProd acc bs).getD 0 0 = acc := by
  cases bs <;> simp [runProd]

theorem runProd_succ (bs : List R) : ∀ (acc : R) (i : Nat), i < bs.length →
    (runProd acc bs).getD (i+1) 0 = (runProd acc bs).getD i 0 * bs.getD i 0 := by
  induction bs with
  | nil => intro acc i hi; simp at hi
  | cons b bs ih =>
    intro acc i hi
    cases i with
    | zero =>
      simp only [runProd, List.getD_cons_succ, List.getD_cons_zero]
      exact runProd_zero _ _
    | succ i =>
      simp only [runProd, List.getD_cons_succ]
      exact ih _ i (by simpa using hi)

end Derived

section DerivedField
variable {F : Type} [Field F]

theorem runProd_ne_zero (bs : List F) (hbs : ∀ b ∈ bs, b ≠ 0) : ∀ (acc : F), acc ≠ 0 → ∀ i, i ≤ bs.length →
    (runProd acc bs).getD i 0 ≠ 0 := by
  induction bs with
  | nil => intro acc ha i hi; have : i = 0 := by simpa using hi
           subst this; simpa [runProd] using ha
  | cons b bs ih =>
    intro acc ha i hi
    cases i with
    | zero => simpa [runProd] using ha
    | succ i =>
      simp only [runProd, List.getD_cons_succ]
      exact ih (fun x hx => hbs x (by simp [hx])) _ (mul_ne_zero ha (hbs b (by simp))) i (by simpa using hi)

/-- **grand product**: `Z[0] = 1` and `Z[i+1]·dᵢ = Z[i]·nᵢ` whenever no denominator factor vanishes -/
theorem grandProduct_spec (ns ds : List F) (hlen : ns.length = ds.length) (hds : ∀ b ∈ ds, b ≠ 0) :
    (grandProduct (fun x => x⁻¹) ns ds).length = ns.length + 1 ∧
    (grandProduct (fun x => x⁻¹) ns ds).getD 0 0 = 1 ∧
    ∀ i, i < ns.length →
      (grandProduct (fun x => x⁻¹) ns ds).getD (i+1) 0 * ds.getD i 0
        = (grandProduct (fun x => x⁻¹) ns ds).getD i 0 * ns.getD i 0 := by
  unfold grandProduct
  refine ⟨by simp [runProd_length, hlen], ?_, ?_⟩
  · rw [getD_zipWith _ _ _ _ (by simp [runProd_length]) (by simp [runProd_length]), runProd_zero, runProd_zero]
    simp
  · intro i hi
    have hi' : i < ds.length := by omega
    rw [getD_zipWith _ _ _ _ (by simp [runProd_length]; omega) (by simp [runProd_length]; omega),
      getD_zipWith _ _ _ _ (by simp [runProd_length]; omega) (by simp [runProd_length]; omega),
      runProd_succ _ _ _ hi, runProd_succ _ _ _ hi']
    have h1 := runProd_ne_zero ds hds 1 one_ne_zero i (by omega)
    have h2 : ds.getD i 0 ≠ 0 := by
      rw [getD_of_lt _ _ hi']; exact hds _ (List.getElem_mem hi')
    field_simp

/-- `putInExpectedFormFromLagrangeRegular` stores the vector of the requested form -/
theorem putInExpectedForm_coeffs (kers : List Nat) (d : Domain F) (hd : Good d) (a : List F) (ha : a.length = 2^d.m)
    (b : Basis) (br : Bool) (size : Nat) :
    let r := putInExpectedForm kers d (evals d false a) b br size
    r.coeffs = lay d.m br (vecOf d b a) ∧ r.basis = b ∧ r.bitrev = br ∧ r.shift = 0 := by
  have hbl : (bitReverse d.m a).length = 2^d.m := by simp [ha]
  cases b <;> cases br <;>
    simp [putInExpectedForm, lay, vecOf, invC kers d hd false a ha, fftB kers d hd true a ha,
      bitReverse_bitReverse _ _ ha]

end DerivedField

/-! ### package `polynomial`: Add / Sub / Scale / Eval / InterpolateOnRange -/
section PolyPkg
variable {R : Type} [CommRing R]

theorem evalAt_padd (a : List R) : ∀ (b : List R) (x : R), evalAt (padd a b) x = evalAt a x + evalAt b x := by
  induction a with
  | nil => intro b x; simp [padd]
  | cons a as ih =>
    intro b x
    cases b with
    | nil => simp [padd]
    | cons b bs => simp only [padd, evalAt_cons, ih]; ring

theorem evalAt_pscale (c : R) (a : List R) (x : R) : evalAt (pscale c a) x = c * evalAt a x := by
  induction a with
  | nil => simp [pscale]
  | cons a as ih =>
    have : pscale c (a :: as) = c * a :: pscale c as := rfl
    rw [this, evalAt_cons, evalAt_cons, ih]; ring

theorem evalAt_zipWith_sub (a : List R) : ∀ (b : List R) (x : R), a.length = b.length →
    evalAt (List.zipWith (· - ·) a b) x = evalAt a x - evalAt b x := by
  induction a with
  | nil => intro b x h; cases b <;> simp_all
  | cons a as ih =>
    intro b x h
    cases b with
    | nil => simp at h
    | cons b bs =>
      simp only [List.zipWith_cons_cons, evalAt_cons]
      rw [ih bs x (by simpa using h)]; ring

theorem evalAt_mulLin (c : R) (p : List R) (x : R) : evalAt (mulLin c p) x = (x + c) * evalAt p x := by
  unfold mulLin
  rw [evalAt_padd, evalAt_cons]
  have : p.map (fun y => c * y) = pscale c p := rfl
  rw [this, evalAt_pscale]; ring

theorem evalAt_foldl_mulLin (L : List Nat) (x : R) : ∀ P : List R,
    evalAt (L.foldl (fun acc i => mulLin ((0:R) - natR i) acc) P) x
      = evalAt P x * (L.map (fun (i : Nat) => x - (i : R))).prod := by
  induction L with
  | nil => intro P; simp
  | cons i L ih =>
    intro P
    simp only [List.foldl_cons, List.map_cons, List.prod_cons]
    rw [ih, evalAt_mulLin, natR_eq]; ring

theorem evalAt_lagNum (n l : Nat) (x : R) :
    evalAt (lagNum n l : List R) x = (((List.range n).filter (· ≠ l)).map (fun (i : Nat) => x - (i : R))).prod := by
  unfold lagNum
  rw [evalAt_foldl_mulLin]
  simp [evalAt_cons]

theorem evalAt_foldl_padd (B : Nat → List R) (x : R) (L : List (Nat × R)) : ∀ acc : List R,
    evalAt (L.foldl (fun acc iv => padd acc (pscale iv.2 (B iv.1))) acc) x
      = evalAt acc x + (L.map (fun iv => iv.2 * evalAt (B iv.1) x)).sum := by
  induction L with
  | nil => intro acc; simp
  | cons iv L ih =>
    intro acc
    simp only [List.foldl_cons, List.map_cons, List.sum_cons]
    rw [ih, evalAt_padd, evalAt_pscale]; ring

theorem evalAt_replicate_zero (n : Nat) (x : R) : evalAt (List.replicate n (0:R)) x = 0 := by
  have := evalAt_append_zeros ([] : List R) n x
  simpa using this

theorem zip_range (v : List R) : List.zip (List.range v.length) v = (List.range v.length).map (fun i => (i, v.getD i 0)) := by
  apply List.ext_getElem
  · simp
  · intro i h1 h2
    have hi : i < v.length := by simpa using h1
    simp [List.getElem?_eq_getElem hi]

end PolyPkg

section Interp
variable {F : Type} [Field F]

/-- **InterpolateOnRange interpolates**: the result takes the value `v[k]` at the node `k`, for every `k < n`, provided
    the nodes `0, …, n-1` are distinct in the field -/
theorem interpolate_spec (v : List F) (hn : 0 < v.length) (hn' : v.length ≤ 255)
    (hdist : ∀ i j, i < v.length → j < v.length → i ≠ j → (i : F) ≠ (j : F)) :
    ∃ r, interpolateOnRange (fun x => x⁻¹) v = some r ∧
      ∀ k, k < v.length → evalAt r (k : F) = v.getD k 0 := by
  unfold interpolateOnRange
  simp only
  rw [if_neg (by omega)]
  refine ⟨_, rfl, ?_⟩
  intro k hk
  rw [evalAt_foldl_padd (fun i => lagBasis (fun x => x⁻¹) v.length i), evalAt_replicate_zero, zero_add, zip_range,
    List.map_map, list_sum_range]
  rw [Finset.sum_eq_single k]
  · -- the k-th basis polynomial takes the value 1 at k
    simp only [Function.comp]
    unfold lagBasis
    simp only
    rw [evalAt_pscale, horner_eq, natR_eq, evalAt_lagNum]
    have hne : (((List.range v.length).filter (· ≠ k)).map (fun (i : Nat) => (k : F) - (i : F))).prod ≠ 0 := by
      apply List.prod_ne_zero
      intro h0
      rw [List.mem_map] at h0
      obtain ⟨i, hi, h0⟩ := h0
      rw [List.mem_filter] at hi
      have hi1 : i < v.length := by simpa using hi.1
      have hi2 : i ≠ k := by simpa using hi.2
      exact hdist k i hk hi1 (Ne.symm hi2) (sub_eq_zero.mp h0)
    rw [inv_mul_cancel₀ hne, mul_one]
  · intro i hi hik
    have hi' := Finset.mem_range.mp hi
    simp only [Function.comp]
    unfold lagBasis
    simp only
    rw [evalAt_pscale, evalAt_lagNum]
    have : (((List.range v.length).filter (· ≠ i)).map (fun (j : Nat) => (k : F) - (j : F))).prod = 0 := by
      apply List.prod_eq_zero
      rw [List.mem_map]
      exact ⟨k, by rw [List.mem_filter]; exact ⟨by simpa using hk, by simpa using Ne.symm hik⟩, sub_self _⟩
    rw [this]; ring
  · intro hk'
    exact absurd (Finset.mem_range.mpr hk) hk'

end Interp

/-! ### the literal Go `Evaluate` (canonical basis): where it agrees with the property and where it does not -/
section GoEvaluate
variable {F : Type} [Field F] [DecidableEq F]

theorem evaluateGo_canonical (d : Domain F) (env : Env F) (p : Poly F) (a : List F) (h : Denotes d p a)
    (hb : p.basis = .canonical) (x : F) :
    evaluateGo env p x = evalAt a
      (if p.shift = 0 then x else if 0 ≤ p.shift ∧ p.shift ≤ 5 then x * (env.genOf p.size) ^ p.shift else 0) := by
  have hreg := regular_of_denotes d p a h
  rw [hb] at hreg
  unfold evaluateGo
  simp only [hb, reduceCtorEq, if_false, if_true, horner_eq, hreg]
  show evalAt a _ = evalAt a _
  congr 1
  by_cases h0 : p.shift = 0
  · simp [h0]
  · simp only [h0, if_false]
    by_cases h5 : p.shift ≤ 5
    · simp only [h5, if_true, and_true]
      by_cases hn : 0 ≤ p.shift
      · simp only [hn, if_true]; rw [smallExp_eq _ _ hn h5]
      · simp only [hn, if_false]; rw [smallExp_neg _ _ (by omega), mul_zero]
    · simp only [h5, if_false, and_false]
      rw [pw_eq, zero_pow (by omega), mul_zero]

end GoEvaluate

/-! ### serialisation -/
section Ser
open GV

theorem decodeVec_encodeVec (nb q : Nat) (hq : q ≤ 256^nb) (cs : List Nat) : ∀ (rest : List UInt8),
    (∀ c ∈ cs, c < q) → decodeVec nb q cs.length (encodeVec nb cs ++ rest) = .ok (cs, rest) := by
  induction cs with
  | nil => intro rest _; rfl
  | cons c cs ih =>
    intro rest h
    simp only [encodeVec, List.length_cons, decodeVec, List.append_assoc]
    rw [readElem_append _ _ _ _ (h c (by simp)) hq]
    simp only
    rw [ih rest (fun x hx => h x (by simp [hx]))]

theorem shift_roundtrip (s : Int) (h1 : -2147483648 ≤ s) (h2 : s < 2147483648) :
    shiftOfU32 (shiftU32 s % 256^4) = s := by
  unfold shiftOfU32 shiftU32
  have e : (2^32 : Int) = 4294967296 := by norm_num
  have e2 : (256^4 : Nat) = 4294967296 := by norm_num
  have e3 : (2^31 : Nat) = 2147483648 := by norm_num
  rw [e, e2, e3]
  by_cases hs : 0 ≤ s
  · have : s % 4294967296 = s := Int.emod_eq_of_lt hs (by omega)
    rw [this]
    have : s.toNat % 4294967296 = s.toNat := Nat.mod_eq_of_lt (by omega)
    rw [this, if_pos (by omega)]; omega
  · have : s % 4294967296 = s + 4294967296 := by
      rw [← Int.add_mul_emod_self_left s 4294967296 1]
      exact Int.emod_eq_of_lt (by omega) (by omega)
    rw [this]
    have : (s + 4294967296).toNat % 4294967296 = (s + 4294967296).toNat := Nat.mod_eq_of_lt (by omega)
    rw [this, if_neg (by omega)]; omega

/-- **WriteTo / ReadFrom round trip** (any trailing bytes are left in the stream) -/
theorem decode_encode (nb q : Nat) (hq : q ≤ 256^nb) (p : Rec) (rest : List UInt8)
    (hcs : ∀ c ∈ p.coeffs, c < q) (hlen : p.coeffs.length < 2^32) (hb : p.basis < 2^32) (hl : p.layout < 2^32)
    (hs1 : -2147483648 ≤ p.shift) (hs2 : p.shift < 2147483648) (hsz : p.size < 2^32) (hco : p.coset < q) :
    decode nb q (encode nb p ++ rest) = .ok (p, rest) := by
  have e : (256^4 : Nat) = 2^32 := by norm_num
  have m4 : ∀ v, v < 2^32 → beToNat (natToBE 4 v) = v := by
    intro v hv; rw [beToNat_natToBE, e, Nat.mod_eq_of_lt hv]
  simp only [decode, encode, List.append_assoc]
  rw [takeN_append _ _ _ (natToBE_length 4 _)]
  simp only [m4 _ hlen]
  rw [decodeVec_encodeVec nb q hq _ _ hcs]
  simp only
  rw [takeN_append _ _ _ (natToBE_length 4 _)]; simp only
  rw [takeN_append _ _ _ (natToBE_length 4 _)]; simp only
  rw [takeN_append _ _ _ (natToBE_length 4 _)]; simp only
  rw [takeN_append _ _ _ (natToBE_length 4 _)]; simp only
  rw [readElem_append _ _ _ _ hco hq]
  simp only [m4 _ hb, m4 _ hl, m4 _ hsz, beToNat_natToBE, shift_roundtrip _ hs1 hs2]

end Ser

section More
variable {F : Type} [Field F]

/-- in Lagrange basis `GetCoeff(i)` is the value of the SHIFTED polynomial at `ωⁱ`: `a(ωⁱ·(ω^ρ)^shift)`, `ρ = n/size`,
    for every integer shift -/
theorem getCoeff_lagrange (d : Domain F) (hd : Good d) (p : Poly F) (a : List F) (h : Denotes d p a)
    (hb : p.basis = .lagrange) (hω : d.gen ^ (2^d.m) = 1) (i : Nat) :
    getCoeff p i = evalAt a (d.gen ^ i * (d.gen ^ (2^d.m / p.size)) ^ p.shift) := by
  rw [getCoeff_eq d p a h i, hb]
  have hj := emod_toNat_lt ((i : Int) + ((2^d.m / p.size : Nat) : Int) * p.shift) (2^d.m) (Nat.pow_pos (by decide))
  have hnn : 0 ≤ ((i : Int) + ((2^d.m / p.size : Nat) : Int) * p.shift) % ((2^d.m : Nat) : Int) :=
    Int.emod_nonneg _ (by have := Nat.pow_pos (n := d.m) (show 0 < 2 by decide); omega)
  have hdef := Int.emod_def ((i : Int) + ((2^d.m / p.size : Nat) : Int) * p.shift) ((2^d.m : Nat) : Int)
  have hcast := Int.toNat_of_nonneg hnn
  generalize ((i : Int) + ((2^d.m / p.size : Nat) : Int) * p.shift) % ((2^d.m : Nat) : Int) = r at *
  generalize hjj : r.toNat = j at *
  simp only [vecOf]
  rw [evals, getD_map_range _ _ _ (by rw [h.1]; exact hj)]
  simp only [Bool.false_eq_true, if_false]
  congr 1
  have hg0 : d.gen ≠ 0 := fun e => by have := hd.gen; rw [e, zero_mul] at this; exact zero_ne_one this
  have e1 : d.gen ^ j = d.gen ^ (r : Int) := by rw [← hcast, zpow_natCast]
  rw [e1, hdef, zpow_sub₀ hg0, zpow_mul, zpow_natCast, hω, one_zpow, div_one, zpow_add₀ hg0, zpow_natCast,
    zpow_mul, zpow_natCast]

theorem xnMinusOneInv_getD (d0 d1 : Domain F) (hm : d0.m ≤ d1.m) (hω : d1.gen ^ (2^d1.m) = 1) (i : Nat) :
    (xnMinusOneInv (fun x => x⁻¹) d0 d1).getD (i % (2^d1.m / 2^d0.m)) 0
      = ((d1.g * d1.gen ^ i) ^ (2^d0.m) - 1)⁻¹ := by
  have hr : 2^d1.m / 2^d0.m = 2^(d1.m - d0.m) := Nat.pow_div hm (by decide)
  have hpos : 0 < 2^(d1.m - d0.m) := Nat.pow_pos (by decide)
  have hj : i % 2^(d1.m - d0.m) < 2^(d1.m - d0.m) := Nat.mod_lt _ hpos
  unfold xnMinusOneInv
  simp only [hr]
  rw [getD_map _ _ _ (by simpa using hj), getD_iter _ _ _ _ hj, pw_eq, pw_eq]
  congr 2
  rw [mul_pow]
  congr 1
  have hN : 2^d0.m * 2^(d1.m - d0.m) = 2^d1.m := by rw [← pow_add]; congr 1; omega
  have hi := Nat.div_add_mod i (2^(d1.m - d0.m))
  conv_rhs => rw [← hi]
  rw [← pow_mul, ← pow_mul, Nat.add_mul, pow_add]
  have : 2 ^ (d1.m - d0.m) * (i / 2 ^ (d1.m - d0.m)) * 2 ^ d0.m = 2^d1.m * (i / 2 ^ (d1.m - d0.m)) := by
    rw [← hN]; ring
  rw [this, pow_mul d1.gen (2^d1.m), hω, one_pow, one_mul, mul_comm]

theorem evalAt_grow (n : Nat) (c : List F) (x : F) : evalAt (grow n c) x = evalAt c x := evalAt_append_zeros c _ x

end More

/-! ### sequences of representation changes -/
section Seq
variable {R : Type} [CommRing R]

/-- the representation-changing methods of `iop.Polynomial` -/
inductive Op | toLagrange | toCanonical | toLagrangeCoset | toRegular | toBitReverse | clone | shallowClone
deriving DecidableEq, Repr

def applyOp (kers : List Nat) (d : Domain R) : Op → Poly R → Poly R
  | .toLagrange, p => toLagrange kers d p
  | .toCanonical, p => toCanonical kers d p
  | .toLagrangeCoset, p => toLagrangeCoset kers d p
  | .toRegular, p => toRegular p
  | .toBitReverse, p => toBitReverse p
  | .clone, p => clone p
  | .shallowClone, p => shallowClone p

def applyOps (kers : List Nat) (d : Domain R) (ops : List Op) (p : Poly R) : Poly R :=
  ops.foldl (fun p o => applyOp kers d o p) p

theorem convert_shift_size (kers : List Nat) (t : Basis) (d : Domain R) (p : Poly R) :
    (convert kers t d p).shift = p.shift ∧ (convert kers t d p).size = p.size := by
  unfold convert; simp only; split <;> exact ⟨rfl, rfl⟩

theorem applyOp_shift_size (kers : List Nat) (d : Domain R) (o : Op) (p : Poly R) :
    (applyOp kers d o p).shift = p.shift ∧ (applyOp kers d o p).size = p.size := by
  cases o
  · exact convert_shift_size kers _ d p
  · exact convert_shift_size kers _ d p
  · exact convert_shift_size kers _ d p
  · simp only [applyOp, toRegular]; split <;> exact ⟨rfl, rfl⟩
  · simp only [applyOp, toBitReverse]; split <;> exact ⟨rfl, rfl⟩
  · exact ⟨rfl, rfl⟩
  · exact ⟨rfl, rfl⟩

theorem applyOp_denotes (kers : List Nat) (d : Domain R) (hd : Good d) (o : Op) (p : Poly R) (a : List R)
    (h : Denotes d p a) : Denotes d (applyOp kers d o p) a := by
  cases o
  · exact convert_denotes kers _ d hd p a h
  · exact convert_denotes kers _ d hd p a h
  · exact convert_denotes kers _ d hd p a h
  · exact toRegular_denotes d p a h
  · exact toBitReverse_denotes d p a h
  · exact h
  · exact h

theorem applyOps_denotes (kers : List Nat) (d : Domain R) (hd : Good d) (ops : List Op) : ∀ (p : Poly R) (a : List R),
    Denotes d p a → Denotes d (applyOps kers d ops p) a ∧
      (applyOps kers d ops p).shift = p.shift ∧ (applyOps kers d ops p).size = p.size := by
  induction ops with
  | nil => intro p a h; exact ⟨h, rfl, rfl⟩
  | cons o ops ih =>
    intro p a h
    have h1 := applyOp_denotes kers d hd o p a h
    have h2 := applyOp_shift_size kers d o p
    obtain ⟨i1, i2, i3⟩ := ih _ a h1
    exact ⟨i1, i2.trans h2.1, i3.trans h2.2⟩

end Seq

/-! ### the driver instance: the model commutes with every homomorphism of `+ - * 0 1` (so with `ZM q → ZMod q`) -/
section HomP
variable {A B : Type} [Add A] [Sub A] [Mul A] [Zero A] [One A] [Add B] [Sub B] [Mul B] [Zero B] [One B]

set_option linter.dupNamespace false in
def Poly.mapP (φ : A → B) (p : Poly A) : Poly B := ⟨p.coeffs.map φ, p.basis, p.bitrev, p.shift, p.size, φ p.coset⟩

variable {φ : A → B} (h : OpsHom φ)
include h

theorem hom_grow (n : Nat) (c : List A) : grow n (c.map φ) = (grow n c).map φ := by simp [grow, h.zero]

theorem hom_applyCall (kers : List Nat) (d : Domain A) (c : List A) (k : Call) :
    applyCall kers (d.mapD φ) (c.map φ) k = (applyCall kers d c k).map φ := by
  unfold applyCall
  split
  · exact hom_FFTInverse h kers d _ _ c
  · exact hom_FFT h kers d _ _ c

theorem hom_foldl_applyCall (kers : List Nat) (d : Domain A) (calls : List Call) : ∀ c : List A,
    calls.foldl (applyCall kers (d.mapD φ)) (c.map φ) = (calls.foldl (applyCall kers d) c).map φ := by
  induction calls with
  | nil => intro c; rfl
  | cons k ks ih => intro c; simp only [List.foldl_cons]; rw [hom_applyCall h, ih]

theorem hom_convert (kers : List Nat) (t : Basis) (d : Domain A) (p : Poly A) :
    convert kers t (d.mapD φ) (p.mapP φ) = (convert kers t d p).mapP φ := by
  have e2 : (d.mapD φ).m = d.m := rfl
  have e1 : (d.mapD φ).g = φ d.g := rfl
  unfold convert
  simp only [Poly.mapP, e1, e2, hom_grow h]
  cases dispatch t p.basis p.bitrev with
  | none => simp only; split <;> rfl
  | some cl => simp only [hom_foldl_applyCall h]; split <;> rfl

theorem hom_flip (p : Poly A) : flip (p.mapP φ) = (flip p).map φ := by
  simp only [flip, Poly.mapP, List.length_map, bitReverse]
  exact hom_permute h _ _

theorem hom_toRegular (p : Poly A) : toRegular (p.mapP φ) = (toRegular p).mapP φ := by
  unfold toRegular
  have : (p.mapP φ).bitrev = p.bitrev := rfl
  rw [this]
  split
  · have hf := hom_flip h p
    simp only [Poly.mapP] at hf ⊢
    rw [hf]
  · rfl

theorem hom_toBitReverse (p : Poly A) : toBitReverse (p.mapP φ) = (toBitReverse p).mapP φ := by
  unfold toBitReverse
  have : (p.mapP φ).bitrev = p.bitrev := rfl
  rw [this]
  split
  · rfl
  · have hf := hom_flip h p
    simp only [Poly.mapP] at hf ⊢
    rw [hf]

theorem hom_getCoeff (p : Poly A) (i : Nat) : getCoeff (p.mapP φ) i = φ (getCoeff p i) := by
  unfold getCoeff
  simp only [Poly.mapP, List.length_map]
  split <;> exact hom_getD h _ _

end HomP
end GV.Poly
