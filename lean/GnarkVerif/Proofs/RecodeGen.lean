import GnarkVerif.Gen.Imp.Recode
import GnarkVerif.Proofs.ScalarMul
import Mathlib.Tactic.Ring
import Mathlib.Tactic.NormNum
import Mathlib.Tactic.Positivity
/-
Helper lemmas for Props/C04_recode_gen: the translated recoding part of `partitionScalars` (Gen/Imp/Recode.lean) against
`selectDigit` / `recodeFrom` / `encodeDigit` of Model/ScalarMul.lean.
-/
namespace GV.RecodeGen
open GV GV.ScalarMul GV.GoImp GV.Gen.Imp.Recode

/-- the selector the model describes for chunk `chunk` (the let-bound quantities of `selectDigit`) -/
def modelSelector (limbs c chunk : ℕ) : Selector :=
  let jc := chunk * c
  let index := jc / 64
  let shift := jc - index * 64
  let mw := decide (64 % c ≠ 0) && decide (shift > 64 - c) && decide (index < limbs - 1)
  { index := index, mask := ((((1 <<< c) - 1) <<< shift) % 2 ^ 64), shift := shift, multiWordSelect := mw,
    maskHigh := if mw then (1 <<< (shift - (64 - c))) - 1 else 0,
    shiftHigh := if mw then c - (shift - (64 - c)) else 0 }

theorem maskOf_eq (c : ℕ) (hc : c < 64) : maskOf c = (1 <<< c) - 1 := by
  have h1 : 2 ^ c < 2 ^ 64 := Nat.pow_lt_pow_right (by norm_num) hc
  have h2 : 1 ≤ 2 ^ c := Nat.one_le_two_pow
  unfold maskOf shl64
  rw [Nat.one_shiftLeft, one_mul, Nat.mod_eq_of_lt h1]
  omega

theorem maxOf_eq (c : ℕ) (hc1 : 1 ≤ c) (hc : c < 64) : maxOf c = ((2 ^ (c - 1) - 1 : ℕ) : ℤ) := by
  have h2 : 1 ≤ 2 ^ (c - 1) := Nat.one_le_two_pow
  have e : (c + 2 ^ 64 - 1) % 2 ^ 64 = c - 1 := by omega
  unfold maxOf
  rw [e]
  push_cast [h2]
  ring

/-- the translated selector loop body computes the selector of the model -/
theorem mkSelector_eq (limbs c chunk : ℕ) (hc1 : 1 ≤ c) (hc : c < 64) (hl1 : 1 ≤ limbs) (hl : limbs < 2 ^ 64)
    (hjc : chunk * c < 2 ^ 64) :
    mkSelector limbs c (maskOf c) (cDivides64Of c) chunk = modelSelector limbs c chunk := by
  rw [maskOf_eq c hc]
  have e1 : (chunk * c) % 2 ^ 64 = chunk * c := Nat.mod_eq_of_lt hjc
  have e2 : (chunk * c + 2 ^ 64 - (chunk * c / 64 * 64) % 2 ^ 64) % 2 ^ 64 = chunk * c - chunk * c / 64 * 64 := by omega
  have e3 : (64 + 2 ^ 64 - c) % 2 ^ 64 = 64 - c := by omega
  have e4 : (limbs + 2 ^ 64 - 1) % 2 ^ 64 = limbs - 1 := by omega
  have e5 : (!cDivides64Of c) = decide (64 % c ≠ 0) := by
    unfold cDivides64Of; by_cases h : 64 % c = 0 <;> simp [h]
  unfold mkSelector modelSelector
  simp only [e1, e2, e3, e4, e5, shl64, Nat.shiftLeft_eq]
  generalize hsh : chunk * c - chunk * c / 64 * 64 = sh
  have hsh64 : sh < 64 := by omega
  by_cases hmw : (decide (64 % c ≠ 0) && decide (sh > 64 - c) && decide (chunk * c / 64 < limbs - 1)) = true
  · have hgt : sh > 64 - c := by
      simp only [Bool.and_eq_true, decide_eq_true_eq] at hmw; exact hmw.1.2
    have e6 : (sh + 2 ^ 64 - (64 - c)) % 2 ^ 64 = sh - (64 - c) := by omega
    have hnb : sh - (64 - c) < 64 := by omega
    have h1 : 2 ^ (sh - (64 - c)) < 2 ^ 64 := Nat.pow_lt_pow_right (by norm_num) hnb
    have h2 : 1 ≤ 2 ^ (sh - (64 - c)) := Nat.one_le_two_pow
    have e7 : (1 * 2 ^ (sh - (64 - c)) % 2 ^ 64 + 2 ^ 64 - 1) % 2 ^ 64 = 1 * 2 ^ (sh - (64 - c)) - 1 := by
      rw [one_mul, Nat.mod_eq_of_lt h1]; omega
    have e8 : (c + 2 ^ 64 - (sh - (64 - c))) % 2 ^ 64 = c - (sh - (64 - c)) := by omega
    simp only [hmw, if_true, e6, e7, e8]
  · simp only [hmw, if_false, Bool.false_eq_true]

/-- the window value the translated bodies add to `digit` -/
def genSel (s : Selector) (scalar : ℕ → ℕ) : ℤ :=
  Int.ofNat (((scalar s.index) &&& s.mask) >>> s.shift) +
    (if s.multiWordSelect then (Int.ofNat ((scalar ((s.index + 1) % 2 ^ 64)) &&& s.maskHigh)) * 2 ^ s.shiftHigh else 0)

theorem genSel_model (limbs c s chunk : ℕ) (hidx : chunk * c / 64 + 1 < 2 ^ 64) :
    genSel (modelSelector limbs c chunk) (limb s) = ((selectDigit limbs c s chunk : ℕ) : ℤ) := by
  unfold genSel modelSelector selectDigit
  simp only [Nat.mod_eq_of_lt hidx]
  split
  · rename_i h
    simp only [h, if_true, Int.ofNat_eq_natCast, Nat.shiftLeft_eq]
    push_cast
    ring
  · rename_i h
    simp only [h, if_false, Int.ofNat_eq_natCast, add_zero, Bool.false_eq_true]

theorem enc_pos (d : ℤ) (h : 0 < d) : ((d % 65536).toNat * 2 ^ 1) % 65536 = (d.toNat <<< 1) % 65536 := by
  rw [Nat.shiftLeft_eq]; omega

theorem enc_neg (d : ℤ) (h : d < 0) :
    ((((-d - 1) % 65536).toNat * 2 ^ 1) % 65536 + 1) % 65536 = (((-d - 1).toNat <<< 1) + 1) % 65536 := by
  rw [Nat.shiftLeft_eq]; omega

/-- the translated chunk-loop body in terms of the window value -/
theorem digitStep_eq (c : ℕ) (mx : ℤ) (sels : ℕ → Selector) (scalar : ℕ → ℕ) (chunk : ℕ) (carry : ℤ) :
    digitStep c mx sels scalar chunk carry =
      (let digit := carry + genSel (sels chunk) scalar
       if digit > mx then
         (if digit - 2 ^ c = 0 then none else some (encodeDigit (digit - 2 ^ c)), 1)
       else (if digit = 0 then none else some (encodeDigit digit), 0)) := by
  unfold digitStep genSel
  dsimp only
  have hsel : ∀ (x y : ℤ), (if (sels chunk).multiWordSelect = true then carry + x + y else carry + x) =
      carry + (x + if (sels chunk).multiWordSelect = true then y else 0) := by
    intro x y; split <;> ring
  rw [hsel]
  generalize carry + (_ + _) = digit
  have henc : ∀ d : ℤ, d ≠ 0 →
      (if decide (d > 0) = true then ((d % 65536).toNat * 2 ^ 1) % 65536
        else ((((-d - 1) % 65536).toNat * 2 ^ 1) % 65536 + 1) % 65536) = encodeDigit d := by
    intro d hd
    unfold encodeDigit
    rw [if_neg hd]
    by_cases hp : d > 0
    · simp only [hp, decide_true, if_true]; exact enc_pos d hp
    · have hn : d < 0 := by omega
      simp only [hp, decide_false, if_false, Bool.false_eq_true]; exact enc_neg d hn
  by_cases hgt : digit > mx
  · simp only [hgt, decide_true, if_true, one_mul]
    by_cases hz : digit - 2 ^ c = 0
    · simp only [hz, decide_true, if_true]
    · simp only [hz, decide_false, if_false, Bool.false_eq_true, henc _ hz]
  · simp only [hgt, decide_false, if_false, Bool.false_eq_true]
    by_cases hz : digit = 0
    · simp only [hz, decide_true, if_true]
    · simp only [hz, decide_false, if_false, Bool.false_eq_true, henc _ hz]

theorem lastStep_eq (c : ℕ) (mx : ℤ) (sels : ℕ → Selector) (scalar : ℕ → ℕ) (chunk : ℕ) (carry : ℤ)
    (h : 0 ≤ carry + genSel (sels chunk) scalar) :
    lastStep c mx sels scalar chunk carry = encodeDigit (carry + genSel (sels chunk) scalar) := by
  unfold lastStep genSel at *
  dsimp only at *
  have hsel : ∀ (x y : ℤ), (if (sels chunk).multiWordSelect = true then carry + x + y else carry + x) =
      carry + (x + if (sels chunk).multiWordSelect = true then y else 0) := by
    intro x y; split <;> ring
  rw [hsel]
  revert h
  generalize carry + (_ + _) = digit
  intro h
  unfold encodeDigit
  by_cases hz : digit = 0
  · simp [hz]
  · have hp : digit > 0 := by omega
    rw [if_neg hz, if_pos hp]; exact enc_pos digit hp

theorem getD_enc (d : ℤ) : (if d = 0 then none else some (encodeDigit d)).getD 0 = encodeDigit d := by
  by_cases h : d = 0
  · simp [h, encodeDigit]
  · simp [h]

/-- the translated chunk loop followed by the last-chunk statements = the model's `recodeFrom`, encoded; `sel` is the window
value of every chunk -/
theorem chunkLoop_eq (c nb : ℕ) (hc1 : 1 ≤ c) (hc : c < 64) (hnb : nb < 2 ^ 64) (sels : ℕ → Selector) (scalar : ℕ → ℕ) (sel : ℕ → ℕ)
    (hsel : ∀ j, j < nb → genSel (sels j) scalar = ((sel j : ℕ) : ℤ))
    (mx : ℤ) (hmx : mx = ((2 ^ (c - 1) - 1 : ℕ) : ℤ)) :
    ∀ (todo chunk k : ℕ) (col : List ℕ), chunk + todo + 1 = nb →
      (chunkLoop c mx sels scalar nb todo chunk (k : ℤ) col).1 ++
        [lastStep c mx sels scalar ((nb + 2 ^ 64 - 1) % 2 ^ 64)
          (chunkLoop c mx sels scalar nb todo chunk (k : ℤ) col).2] =
      col ++ (recodeFrom c sel todo chunk k).map encodeDigit := by
  intro todo
  induction todo with
  | zero =>
    intro chunk k col h
    have e : (nb + 2 ^ 64 - 1) % 2 ^ 64 = chunk := by omega
    simp only [chunkLoop, recodeFrom, List.map_cons, List.map_nil, e]
    have hcn : chunk < nb := by omega
    have hpos : 0 ≤ (k : ℤ) + genSel (sels chunk) scalar := by
      rw [hsel chunk hcn]; exact add_nonneg (Int.natCast_nonneg _) (Int.natCast_nonneg _)
    rw [lastStep_eq _ _ _ _ _ _ hpos, hsel chunk hcn]
    simp only [Int.ofNat_eq_natCast, Nat.cast_add]
  | succ n ih =>
    intro chunk k col h
    have e : (nb + 2 ^ 64 - 1) % 2 ^ 64 = nb - 1 := by omega
    have hlt : chunk < (nb + 2 ^ 64 - 1) % 2 ^ 64 := by omega
    have e1 : (chunk + 1) % 2 ^ 64 = chunk + 1 := by omega
    have h2 : 1 ≤ 2 ^ (c - 1) := Nat.one_le_two_pow
    have hcn : chunk < nb := by omega
    unfold chunkLoop recodeFrom
    simp only [hlt, decide_true, if_true, e1, digitStep_eq, hsel chunk hcn]
    subst hmx
    by_cases hgt : k + sel chunk > 2 ^ (c - 1) - 1
    · have hgt' : ((k : ℤ) + (sel chunk : ℤ)) > ((2 ^ (c - 1) - 1 : ℕ) : ℤ) := by exact_mod_cast hgt
      simp only [hgt, hgt', if_true, getD_enc]
      have := ih (chunk + 1) 1 (col ++ [encodeDigit ((k : ℤ) + (sel chunk : ℤ) - 2 ^ c)]) (by omega)
      simp only [Nat.cast_one] at this
      rw [this]
      simp only [List.append_assoc, List.singleton_append, List.map_cons, Int.ofNat_eq_natCast, Nat.cast_add]
    · have hgt' : ¬ ((k : ℤ) + (sel chunk : ℤ)) > ((2 ^ (c - 1) - 1 : ℕ) : ℤ) := by exact_mod_cast hgt
      simp only [hgt, hgt', if_false, getD_enc]
      have := ih (chunk + 1) 0 (col ++ [encodeDigit ((k : ℤ) + (sel chunk : ℤ))]) (by omega)
      simp only [Nat.cast_zero] at this
      rw [this]
      simp only [List.append_assoc, List.singleton_append, List.map_cons, Int.ofNat_eq_natCast, Nat.cast_add]

end GV.RecodeGen
