import GnarkVerif.Proofs.PointCodec
import GnarkVerif.Proofs.Field
import GnarkVerif.Props.C01
import GnarkVerif.Model.PointCodecOps
/-
C07 — the hypotheses `Codec.OK` hold for the codec the driver uses for G1 (coordinates in the prime field of a field
package): they follow from C01 (reference square root, `LexicographicallyLargest`) and field arithmetic in `ZMod q`.
-/
namespace GV.PointCodec
open GV GV.Alg GV.Field
set_option linter.unusedSectionVars false

variable (P : Field.Params)

/-- the codec of a group whose coordinates live in the prime field `P.q` (G1 of every curve, G2 of the BW6 curves) -/
abbrev baseCodec (L : Layout) (fb a b r : Nat) : Codec Nat := mkCodec (FieldK.base P) L P.q fb a b r

variable {P}

theorem base_valid_iff (L : Layout) (fb a b r x : Nat) : (baseCodec P L fb a b r).Valid x ↔ x < P.q := by
  constructor
  · intro h; exact h.lt x (by simp [baseCodec, mkCodec, FieldK.base])
  · intro h
    exact ⟨by simp [baseCodec, mkCodec, FieldK.base], by simpa [baseCodec, mkCodec, FieldK.base] using h,
      by simp [baseCodec, mkCodec, FieldK.base]⟩

theorem cast_eq_of_lt {q x y : Nat} (hx : x < q) (hy : y < q) (h : (x : ZMod q) = (y : ZMod q)) : x = y := by
  have := (ZMod.natCast_eq_natCast_iff' x y q).mp h
  rwa [Nat.mod_eq_of_lt hx, Nat.mod_eq_of_lt hy] at this

theorem cast_neg_mod (q y : Nat) (hq : 0 < q) : (((q - y % q) % q : Nat) : ZMod q) = -(y : ZMod q) := by
  rw [ZMod.natCast_mod, Nat.cast_sub (Nat.le_of_lt (Nat.mod_lt y hq)), ZMod.natCast_self, ZMod.natCast_mod]
  ring

theorem baseCodec_OK [Fact P.q.Prime] (hP : P.OK) (L : Layout) (fb a b r : Nat)
    (hk : L.k ≤ 8 * fb) (hp : P.q ≤ 2 ^ (8 * fb - L.k)) (hb : b % P.q ≠ 0)
    (hsq : ∀ v, Field.sqrtRegular P v = none → ¬ Field.IsSqMod P.q v) :
    (baseCodec P L fb a b r).OK := by
  have hq1 : 1 < P.q := hP.q_gt
  have hq0 : 0 < P.q := by omega
  have hodd := hP.q_odd
  have hv := base_valid_iff (P := P) L fb a b r
  refine
    { c_pos := by simp [baseCodec, mkCodec, FieldK.base]
      k_le := hk
      p_le := hp
      p_pos := hq0
      to_of := ?_
      zero_comps := by simp [baseCodec, mkCodec, FieldK.base, fp]
      of_zeros := by simp [baseCodec, mkCodec, FieldK.base, fp]
      sqrt_sound := ?_
      sqrt_complete := ?_
      two_roots := ?_
      neg_valid := ?_
      sq_neg := ?_
      neg_zero := by simp [baseCodec, mkCodec, FieldK.base, fp]
      lex_neg := ?_
      lex_zero := by simp [baseCodec, mkCodec, FieldK.base, fp]
      origin_off := ?_ }
  · -- to_of
    intro l hl _
    have hl1 : l.length = 1 := by simpa [baseCodec, mkCodec, FieldK.base] using hl
    match l, hl1 with
    | [v], _ => simp [baseCodec, mkCodec, FieldK.base]
  · -- sqrt_sound
    intro x y _ hs
    rw [hv]
    simp only [baseCodec, mkCodec, FieldK.base] at hs ⊢
    cases hr : Field.sqrtRegular P ((fp P.q).add ((fp P.q).add ((fp P.q).mul x ((fp P.q).mul x x)) ((fp P.q).mul a x)) b) with
    | none => rw [hr] at hs; cases hs
    | some r0 =>
      rw [hr] at hs
      simp only [Option.map_some, Option.some.injEq] at hs
      subst hs
      have := sqrt_sound P hP _ r0 hr
      refine ⟨?_, Nat.mod_lt _ hq0⟩
      simp only [fp] at this ⊢
      rw [← Nat.mul_mod, this, Nat.mod_mod]
  · -- sqrt_complete
    intro x _ hs y _ hyy
    simp only [baseCodec, mkCodec, FieldK.base] at hs hyy
    cases hr : Field.sqrtRegular P ((fp P.q).add ((fp P.q).add ((fp P.q).mul x ((fp P.q).mul x x)) ((fp P.q).mul a x)) b) with
    | some r0 => rw [hr] at hs; cases hs
    | none =>
      apply hsq _ hr
      refine ⟨y, ?_⟩
      simp only [fp] at hyy ⊢
      rw [hyy, Nat.mod_mod]
  · -- two_roots
    intro y y' hy hy' hs
    rw [hv] at hy hy'
    simp only [baseCodec, mkCodec, FieldK.base, fp] at hs ⊢
    have hz : ((y : ZMod P.q)) * y = (y' : ZMod P.q) * y' := by
      have := (ZMod.natCast_eq_natCast_iff' (y * y) (y' * y') P.q).mpr hs
      push_cast at this; exact this
    rcases mul_self_eq_mul_self_iff.mp hz with h1 | h1
    · exact Or.inl (cast_eq_of_lt hy' hy h1.symm)
    · right
      apply cast_eq_of_lt hy' (Nat.mod_lt _ hq0)
      rw [cast_neg_mod P.q y hq0, h1, neg_neg]
  · -- neg_valid
    intro y _
    rw [hv]
    simp only [baseCodec, mkCodec, FieldK.base, fp]
    exact Nat.mod_lt _ hq0
  · -- sq_neg
    intro y
    simp only [baseCodec, mkCodec, FieldK.base, fp]
    apply (ZMod.natCast_eq_natCast_iff' _ _ P.q).mp
    push_cast
    rw [cast_neg_mod P.q y hq0]
    ring
  · -- lex_neg
    intro y hy hy0
    rw [hv] at hy
    simp only [baseCodec, mkCodec, FieldK.base, fp] at hy0 ⊢
    have hne : y ≠ 0 := hy0
    rw [Nat.mod_eq_of_lt hy, Nat.mod_eq_of_lt (by omega : P.q - y < P.q)]
    by_cases hl : y > (P.q - 1) / 2
    · simp only [hl, decide_true, Bool.not_true, decide_eq_false_iff_not]; omega
    · simp only [hl, decide_false, Bool.not_false, decide_eq_true_eq]; omega
  · -- origin_off
    simp only [baseCodec, mkCodec, FieldK.base, fp]
    intro h0
    apply hb
    simp at h0
    omega


/-! ## the ten curve packages: every closed numeric side condition of `baseCodec_OK`, checked by evaluation -/

/-- Montgomery block consistent, flag bits free (`p ≤ 2^(8·Bytes − k)`), `b ≠ 0`, and the reference square root is
complete (`q ≡ 3 mod 4`, or its non-residue search succeeds) -/
def CurveDesc.numOK (d : CurveDesc) (b : Nat) : Bool :=
  d.fpP.okb && decide (d.L.k ≤ 8 * d.fpC.bytes) && decide (d.fpP.q ≤ 2 ^ (8 * d.fpC.bytes - d.L.k)) &&
  decide (b % d.fpP.q ≠ 0) &&
  (decide (d.fpP.q % 4 = 3) ||
    decide (powMod (Field.sqrtRegular.findNR d.fpP.q 1000 2) ((d.fpP.q - 1) / 2) d.fpP.q = d.fpP.q - 1))

theorem curves_numOK : ∀ d ∈ curves, d.numOK d.b1 = true := by decide +kernel

theorem curves_numOK_g2 : ∀ d ∈ curves, d.g2 = .fp → d.numOK (d.g2b.headD 0) = true := by decide +kernel

theorem codec_OK_of_numOK (d : CurveDesc) (a b : Nat) [Fact d.fpP.q.Prime] (h : d.numOK b = true) :
    (baseCodec d.fpP d.L d.fpC.bytes a b d.r).OK := by
  simp only [CurveDesc.numOK, Bool.and_eq_true, Bool.or_eq_true, decide_eq_true_eq] at h
  obtain ⟨⟨⟨⟨hokb, hk⟩, hp⟩, hb⟩, hsq⟩ := h
  have hP : d.fpP.OK := Field.Params.OK_of_okb _ hokb
  refine baseCodec_OK hP d.L d.fpC.bytes a b d.r hk hp hb ?_
  intro v
  rcases hsq with h4 | hnr
  · exact (Field.C01_sqrt_3mod4 d.fpP hP h4 v).2.mp
  · exact (Field.C01_sqrt_TS d.fpP hP hnr v).2.mp

/-- G1 of every curve package of the table (`Model/PointCodecOps.lean`), primality of the base modulus assumed -/
theorem g1_codec_OK (d : CurveDesc) (hd : d ∈ curves) [Fact d.fpP.q.Prime] : d.codec1.OK :=
  codec_OK_of_numOK d (d.a % d.p) d.b1 (curves_numOK d hd)

/-- G2 of the BW6 curves (coordinates in Fp) -/
theorem g2fp_codec_OK (d : CurveDesc) (hd : d ∈ curves) (hg : d.g2 = .fp) [Fact d.fpP.q.Prime] : d.codecFp2.OK :=
  codec_OK_of_numOK d 0 (d.g2b.headD 0) (curves_numOK_g2 d hd hg)

end GV.PointCodec
