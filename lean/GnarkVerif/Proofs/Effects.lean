import GnarkVerif.Model.Effects
/-!
Soundness of write-effect summaries (C18, tools/goeff): if a summary `S` is CLOSED under the table (every direct write of `f` is in
`S f`, and for every call `g am` in `f` the image of `S g` under the argument map is in `S f`), then every execution of `f`, at every
call depth, from every state and under every environment, changes only cells denoted by roots of `S f` (frame theorem).
Core only (no Mathlib).
-/
namespace GV.Eff

/-- every atom of `body` is accounted for in `W` -/
def BodyOK (S : Nat → List Root) (W : List Root) (body : List Atom) : Prop :=
  ∀ a ∈ body, ∀ r ∈ atomRoots S a, r ∈ W

/-- `S` is closed under the table `T` -/
def Closed (T : Nat → Option (List Atom)) (S : Nat → List Root) : Prop :=
  ∀ f b, T f = some b → BodyOK S (S f) b

theorem mem_bindEnv {env : Env} {am : List (Nat × List Root)} {r : Root} {c : Cell} :
    c ∈ bindEnv env am r ↔ ∃ r' ∈ bindRoots am r, c ∈ env r' := by
  simp [bindEnv, List.mem_flatMap]

/-- FRAME: an execution changes only cells denoted by the roots of a set `W` that accounts for the body, given closed summaries -/
theorem frame_of_closed (T : Nat → Option (List Atom)) (S : Nat → List Root) (hC : Closed T S)
    {n : Nat} {env : Env} {body : List Atom} {σ σ' : State} (h : Exec T n env body σ σ') :
    ∀ W, BodyOK S W body → ∀ c, (∀ r ∈ W, c ∉ env r) → σ' c = σ c := by
  induction h with
  | done n env body σ => intro W _ c _; rfl
  | write n env body r σ σ₁ σ₂ hm hw _ ih =>
    intro W hB c hc
    have hr : r ∈ W := hB _ hm r (by simp [atomRoots])
    rw [ih W hB c hc]
    exact hw c (hc r hr)
  | call n env body f am b σ σ₁ σ₂ hm hT _ _ ihc ihr =>
    intro W hB c hc
    rw [ihr W hB c hc]
    apply ihc (S f) (hC f b hT) c
    intro r hr hmem
    obtain ⟨r', hr', hc'⟩ := mem_bindEnv.mp hmem
    have : r' ∈ W := hB _ hm r' (by
      simp only [atomRoots, List.mem_flatMap]
      exact ⟨r, hr, hr'⟩)
    exact hc r' this hc'

theorem bodyOK_of_bodyOKB {S : Nat → List Root} {W : List Root} {body : List Atom} (h : bodyOKB S W body = true) :
    BodyOK S W body := by
  intro a ha r hr
  simp only [bodyOKB, List.all_eq_true] at h
  have := h a ha r hr
  exact List.contains_iff_mem.mp this

theorem tableOf_some {fns : List Fn} {f : Nat} {b : List Atom} (h : tableOf fns f = some b) :
    ∃ fn ∈ fns, fn.id = f ∧ fn.body = b := by
  unfold tableOf at h
  cases hfind : fns.find? (fun fn => fn.id == f) with
  | none => simp [hfind] at h
  | some fn =>
    simp [hfind] at h
    refine ⟨fn, List.mem_of_find?_eq_some hfind, ?_, h⟩
    have := List.find?_some hfind
    exact beq_iff_eq.mp this

theorem closed_of_closedB {fns : List Fn} {S : Nat → List Root} (h : closedB fns S = true) : Closed (tableOf fns) S := by
  intro f b hT
  obtain ⟨fn, hmem, hid, hb⟩ := tableOf_some hT
  simp only [closedB, List.all_eq_true] at h
  have := bodyOK_of_bodyOKB (h fn hmem)
  rw [hid, hb] at this
  exact this

theorem bodyOK_self {fns : List Fn} {S : Nat → List Root} (h : closedB fns S = true) {fn : Fn} (hmem : fn ∈ fns) :
    BodyOK S (S fn.id) fn.body := by
  simp only [closedB, List.all_eq_true] at h
  exact bodyOK_of_bodyOKB (h fn hmem)

theorem policy_of_policyB {fns : List Fn} {S : Nat → List Root} (h : policyB fns S = true) {fn : Fn} (hmem : fn ∈ fns)
    (hex : fn.exported = true) : ∀ r ∈ S fn.id, r ∈ fn.allowed := by
  simp only [policyB, List.all_eq_true] at h
  have := h fn hmem
  simp [hex] at this
  intro r hr
  exact this r hr

end GV.Eff
