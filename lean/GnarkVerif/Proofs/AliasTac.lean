/- Tactics and simp sets used by the GENERATED alias / frame theorems (Gen/Tower/*Alias.lean, C19 material)
   and by the tower proofs (C06).
   `gv_frame f`    : a cell never written by `f` keeps its value      (definitional, possibly after case splits)
   `gv_alias f g`  : the aliased variant `f` equals the non-aliased `g` on equal values.
   simp set `gv_alias` : all generated alias + frame theorems (rewrites every aliased variant to the base def)
   simp set `gv_spec`  : "translated method = generic operation" theorems, used one tower level up. -/
import Mathlib.Tactic.Ring
import Mathlib.Tactic.SplitIfs

register_simp_attr gv_alias
register_simp_attr gv_spec
/-- component (projection) lemmas of QuadExt / CubicExt / the spec maps -/
register_simp_attr gv_proj

syntax "gv_frame " ident : tactic
macro_rules
  | `(tactic| gv_frame $f) =>
    `(tactic| first
      | rfl
      | (simp only [$f:ident]; split_ifs <;> rfl))

syntax "gv_alias " ident ident : tactic
macro_rules
  | `(tactic| gv_alias $f $g) =>
    `(tactic| first
      | rfl
      | (simp only [$f:ident, $g:ident]; split_ifs <;> rfl)
      | (simp only [$f:ident, $g:ident, gv_alias] <;> first | rfl | (split_ifs <;> rfl)))

/-- tower level ≥ 2: push the spec map through the generated body, then `ring` one level below -/
syntax "gv_level " ident,+ : tactic
macro_rules
  | `(tactic| gv_level $[$ds:ident],*) =>
    `(tactic| (ext : 1 <;> simp only [$[$ds:ident],*, gv_alias, gv_spec, gv_proj] <;> ring))

/-- sparse products: two levels of `ext`, full simp set, `ring` -/
syntax "gv_level2 " ident,+ : tactic
macro_rules
  | `(tactic| gv_level2 $[$ds:ident],*) =>
    `(tactic| (ext : 2 <;> simp [$[$ds:ident],*, gv_alias, gv_spec] <;> ring))
