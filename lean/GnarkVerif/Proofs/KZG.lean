import GnarkVerif.Model.KZG
import Mathlib.Data.ZMod.Basic
import Mathlib.Algebra.Field.ZMod
import Mathlib.Algebra.Polynomial.Eval.Defs
import Mathlib.Algebra.Polynomial.Coeff
import Mathlib.Tactic.Ring
import Mathlib.Tactic.LinearCombination
/-
Helper lemmas for C11 (property theorems are in Props/C11.lean).

* `toPoly` : coefficient list → `Polynomial`, `synth` : synthetic division over any commutative ring and its
  polynomial identity `toPoly l = (X − C a)·toPoly (synth a l).tail + C (synth a l).head`.
* casts `ℕ → ZMod r` of the `% r` arithmetic of the model.
* the two index loops of the Go code (`evalLoop`, `divLoop`) as folds.
-/
open Polynomial
set_option linter.unusedSectionVars false
set_option linter.unusedSimpArgs false

namespace GV.KZG

/-! ### coefficient lists as polynomials -/
section Ring
variable {R : Type*} [CommRing R]

/-- `[a₀,a₁,…] ↦ a₀ + a₁X + …` -/
noncomputable def toPoly (l : List R) : R[X] := l.foldr (fun a p => C a + X * p) 0

@[simp] theorem toPoly_nil : toPoly ([] : List R) = 0 := rfl
@[simp] theorem toPoly_cons (a : R) (l : List R) : toPoly (a :: l) = C a + X * toPoly l := rfl

theorem toPoly_coeff (l : List R) (i : ℕ) : (toPoly l).coeff i = l.getD i 0 := by
  induction l generalizing i with
  | nil => simp
  | cons a l ih =>
    cases i with
    | zero => simp
    | succ i => simp [ih]

theorem toPoly_head_tail (l : List R) : toPoly l = C (l.headD 0) + X * toPoly l.tail := by
  cases l <;> simp

theorem toPoly_append_zeros (l : List R) (k : ℕ) : toPoly (l ++ List.replicate k 0) = toPoly l := by
  induction l with
  | nil =>
    induction k with
    | zero => simp
    | succ k ih => simp only [List.nil_append] at ih; simp [List.replicate_succ, ih]
  | cons a l ih => simp [ih]

/-- Horner evaluation of the list = `Polynomial.eval` -/
theorem toPoly_eval (l : List R) (x : R) :
    (toPoly l).eval x = l.foldr (fun a acc => acc * x + a) 0 := by
  induction l with
  | nil => simp
  | cons a l ih => simp [ih]; ring

/-- one step of the synthetic-division loop: `f[i] += f[i+1]·a` (the entries above `i` are final) -/
def synthStep (a : R) (x : R) (acc : List R) : List R := (x + acc.headD 0 * a) :: acc

/-- the array after the synthetic-division loop -/
def synth (a : R) (l : List R) : List R := l.foldr (synthStep a) []

@[simp] theorem synth_nil (a : R) : synth a ([] : List R) = [] := rfl
theorem synth_cons (a x : R) (l : List R) :
    synth a (x :: l) = (x + (synth a l).headD 0 * a) :: synth a l := rfl

theorem synth_length (a : R) (l : List R) : (synth a l).length = l.length := by
  induction l with
  | nil => rfl
  | cons x l ih => simp [synth_cons, ih]

/-- synthetic division: quotient = tail, remainder = head -/
theorem toPoly_synth (a : R) (l : List R) :
    toPoly l = (X - C a) * toPoly (synth a l).tail + C ((synth a l).headD 0) := by
  induction l with
  | nil => simp
  | cons x l ih =>
    rw [synth_cons, toPoly_cons, ih]
    simp only [List.tail_cons, List.headD_cons]
    rw [toPoly_head_tail (synth a l)]
    simp only [map_add, map_mul]
    ring

/-- the remainder is the value at `a` -/
theorem synth_head (a : R) (l : List R) : (synth a l).headD 0 = (toPoly l).eval a := by
  have h := congrArg (Polynomial.eval a) (toPoly_synth a l)
  simp only [eval_add, eval_mul, eval_sub, eval_X, eval_C, sub_self, zero_mul, zero_add] at h
  exact h.symm

end Ring

/-! ### `% r` arithmetic is arithmetic of `ZMod r` -/
section Cast
variable (r : ℕ) [NeZero r]

theorem rpos : 0 < r := Nat.pos_of_ne_zero (NeZero.ne r)

@[simp] theorem cast_addm (a b : ℕ) : ((addm r a b : ℕ) : ZMod r) = a + b := by
  simp [addm, ZMod.natCast_mod]

@[simp] theorem cast_mulm (a b : ℕ) : ((mulm r a b : ℕ) : ZMod r) = a * b := by
  simp [mulm, ZMod.natCast_mod]

@[simp] theorem cast_subm (a b : ℕ) : ((subm r a b : ℕ) : ZMod r) = a - b := by
  have h : b % r ≤ r := (Nat.mod_lt b (rpos r)).le
  unfold subm
  rw [ZMod.natCast_mod, Nat.cast_add, Nat.cast_sub h, ZMod.natCast_self, ZMod.natCast_mod]
  ring

@[simp] theorem cast_negm (a : ℕ) : ((negm r a : ℕ) : ZMod r) = -a := by
  have h : a % r ≤ r := (Nat.mod_lt a (rpos r)).le
  unfold negm
  rw [ZMod.natCast_mod, Nat.cast_sub h, ZMod.natCast_self, ZMod.natCast_mod]
  ring

@[simp] theorem cast_one_mod : (((1 % r : ℕ)) : ZMod r) = 1 := by
  simp [ZMod.natCast_mod]

@[simp] theorem cast_mod (a : ℕ) : (((a % r : ℕ)) : ZMod r) = a := ZMod.natCast_mod a r

theorem addm_lt (a b : ℕ) : addm r a b < r := Nat.mod_lt _ (rpos r)

/-- a reduced value is 0 iff its class is 0 -/
theorem cast_eq_zero_of_lt {x : ℕ} (hx : x < r) : (x : ZMod r) = 0 ↔ x = 0 := by
  rw [ZMod.natCast_eq_zero_iff]
  constructor
  · intro h; exact Nat.eq_zero_of_dvd_of_lt h hx
  · intro h; simp [h]

/-- a list of naturals read in `ZMod r` -/
def castL (l : List ℕ) : List (ZMod r) := l.map (Nat.cast : ℕ → ZMod r)

@[simp] theorem castL_nil : castL r [] = [] := rfl
@[simp] theorem castL_cons (a : ℕ) (l : List ℕ) : castL r (a :: l) = (a : ZMod r) :: castL r l := rfl
@[simp] theorem castL_append (l l' : List ℕ) : castL r (l ++ l') = castL r l ++ castL r l' := by simp [castL]
@[simp] theorem castL_length (l : List ℕ) : (castL r l).length = l.length := by simp [castL]
theorem castL_headD (l : List ℕ) : (castL r l).headD 0 = ((l.headD 0 : ℕ) : ZMod r) := by cases l <;> simp
theorem castL_tail (l : List ℕ) : castL r l.tail = (castL r l).tail := by cases l <;> simp

/-- coefficient list of naturals as a polynomial over `ZMod r` -/
noncomputable def toPolyN (l : List ℕ) : (ZMod r)[X] := toPoly (castL r l)

@[simp] theorem toPolyN_nil : toPolyN r [] = 0 := rfl
@[simp] theorem toPolyN_cons (a : ℕ) (l : List ℕ) :
    toPolyN r (a :: l) = C (a : ZMod r) + X * toPolyN r l := rfl

end Cast

/-! ### the loops as folds (pure `ℕ` statements) -/
section Loops
variable (r : ℕ)

/-- Horner step of `eval` -/
def hornerStep (x : ℕ) (a acc : ℕ) : ℕ := addm r (mulm r acc x) a

theorem evalLoop_append (x : ℕ) (pre suf : List ℕ) (res : ℕ) :
    evalLoop r x (pre ++ suf) res pre.length = pre.foldr (hornerStep r x) res := by
  induction pre using List.reverseRecOn generalizing suf res with
  | nil => simp [evalLoop]
  | append_singleton pre y ih =>
    rw [List.length_append, List.length_singleton, evalLoop]
    have hget : ((pre ++ [y]) ++ suf).getD pre.length 0 = y := by
      simp [List.getD_eq_getElem?_getD, List.append_assoc]
    rw [hget, List.append_assoc, List.singleton_append, ih, List.foldr_append]
    rfl

theorem eval_eq_foldr (p : List ℕ) (x : ℕ) : eval r p x = p.foldr (hornerStep r x) 0 := by
  rcases List.eq_nil_or_concat p with rfl | ⟨init, last, rfl⟩
  · simp [eval, evalLoop]
  · rw [List.concat_eq_append]
    have h := evalLoop_append r x init [last] (last % r)
    simp only [eval, List.length_append, List.length_singleton, Nat.add_sub_cancel]
    have hget : (init ++ [last]).getD init.length 0 = last := by
      simp [List.getD_eq_getElem?_getD]
    rw [hget, h, List.foldr_append]
    simp [hornerStep, addm, mulm]

/-- loop step of `dividePolyByXminusA` -/
def divStep (a : ℕ) (x : ℕ) (acc : List ℕ) : List ℕ := addm r x (mulm r (acc.headD 0) a) :: acc

theorem divLoop_append (a : ℕ) (pre suf : List ℕ) :
    divLoop r a (pre ++ suf) pre.length = pre.foldr (divStep r a) suf := by
  induction pre using List.reverseRecOn generalizing suf with
  | nil => simp [divLoop]
  | append_singleton pre y ih =>
    rw [List.length_append, List.length_singleton, divLoop]
    have hget : ((pre ++ [y]) ++ suf).getD pre.length 0 = y := by
      simp [List.getD_eq_getElem?_getD, List.append_assoc]
    have hget1 : ((pre ++ [y]) ++ suf).getD (pre.length + 1) 0 = suf.headD 0 := by
      cases suf <;> simp [List.getD_eq_getElem?_getD, List.append_assoc]
    have hset : ∀ v, ((pre ++ [y]) ++ suf).set pre.length v = pre ++ (v :: suf) := by
      intro v; simp [List.append_assoc, List.set_append]
    rw [hget, hget1, hset, ih, List.foldr_append]
    rfl

end Loops

/-! ### the model functions in `ZMod r` -/
section CastModel
variable (r : ℕ) [NeZero r]

/-- Horner = `Polynomial.eval` -/
theorem cast_eval (p : List ℕ) (x : ℕ) :
    ((eval r p x : ℕ) : ZMod r) = (toPolyN r p).eval (x : ZMod r) := by
  rw [eval_eq_foldr, toPolyN, toPoly_eval]
  induction p with
  | nil => simp
  | cons a p ih => simp [hornerStep, ih]

theorem cast_divFold (a : ℕ) (pre suf : List ℕ) :
    castL r (pre.foldr (divStep r a) suf) = (castL r pre).foldr (synthStep (a : ZMod r)) (castL r suf) := by
  induction pre with
  | nil => simp
  | cons x pre ih =>
    simp only [List.foldr_cons, castL_cons, divStep, synthStep, cast_addm, cast_mulm, ih.symm, castL_headD]

theorem divLoop_length (a : ℕ) (f : List ℕ) (k : ℕ) : (divLoop r a f k).length = f.length := by
  induction k generalizing f with
  | zero => rfl
  | succ k ih => rw [divLoop, ih, List.length_set]

theorem divide_length (f : List ℕ) (fa a : ℕ) : (dividePolyByXminusA r f fa a).length = f.length - 1 := by
  simp [dividePolyByXminusA, divLoop_length]

/-- the loop of `dividePolyByXminusA` is synthetic division in `ZMod r` -/
theorem cast_divLoop (a : ℕ) (l : List ℕ) (hl : l ≠ []) :
    castL r (divLoop r a l (l.length - 1)) = synth (a : ZMod r) (castL r l) := by
  rcases List.eq_nil_or_concat l with rfl | ⟨init, last, rfl⟩
  · exact absurd rfl hl
  · rw [List.concat_eq_append]
    have hlen : (init ++ [last]).length - 1 = init.length := by simp
    rw [hlen, divLoop_append, cast_divFold, synth, castL_append, List.foldr_append]
    simp [synthStep]

/-- `f − fa = (X − a)·quotient + (f(a) − fa)` for every non-empty coefficient list -/
theorem divide_poly (f : List ℕ) (fa a : ℕ) (hf : f ≠ []) :
    toPolyN r f - C (fa : ZMod r) =
      (X - C (a : ZMod r)) * toPolyN r (dividePolyByXminusA r f fa a)
        + C ((toPolyN r f).eval (a : ZMod r) - fa) := by
  cases f with
  | nil => exact absurd rfl hf
  | cons x rest =>
    have h0 : (x :: rest).set 0 (subm r ((x :: rest).getD 0 0) fa) = subm r x fa :: rest := by simp
    have hne : subm r x fa :: rest ≠ [] := by simp
    have hlen : (x :: rest).length - 1 = (subm r x fa :: rest).length - 1 := by simp
    have hq : toPolyN r (dividePolyByXminusA r (x :: rest) fa a)
        = toPoly (synth (a : ZMod r) (castL r (subm r x fa :: rest))).tail := by
      unfold dividePolyByXminusA
      simp only [h0]
      rw [toPolyN, castL_tail, hlen, cast_divLoop r a _ hne]
    have hp : toPoly (castL r (subm r x fa :: rest)) = toPolyN r (x :: rest) - C (fa : ZMod r) := by
      simp only [castL_cons, toPoly_cons, toPolyN, cast_subm, map_sub]
      ring
    have hs := toPoly_synth (a : ZMod r) (castL r (subm r x fa :: rest))
    rw [synth_head, hp] at hs
    rw [hq, hs]
    simp

theorem msm_nil_right (ps : List ℕ) : msm r ps [] = 0 := by cases ps <;> rfl
theorem msm_nil_left (ss : List ℕ) : msm r [] ss = 0 := by cases ss <;> rfl

theorem msm_comm (a b : List ℕ) : msm r a b = msm r b a := by
  induction a generalizing b with
  | nil => rw [msm_nil_left, msm_nil_right]
  | cons x a ih =>
    cases b with
    | nil => rfl
    | cons y b => simp only [msm, ih b, mulm, Nat.mul_comm]

theorem msm_take (ps ss : List ℕ) : msm r (ps.take ss.length) ss = msm r ps ss := by
  induction ss generalizing ps with
  | nil => simp [msm_nil_right]
  | cons s ss ih =>
    cases ps with
    | nil => rfl
    | cons P ps => simp [msm, ih]

theorem powers_length (τ s n : ℕ) : (powers r τ s n).length = n := by
  induction n generalizing s with
  | zero => rfl
  | succ n ih => simp [powers, ih]

/-- MSM against the powers of τ is evaluation at τ: `Σ pᵢ·(s·τⁱ) = s·p(τ)` -/
theorem cast_msm_powers (τ : ℕ) (p : List ℕ) (s n : ℕ) (h : p.length ≤ n) :
    ((msm r (powers r τ s n) p : ℕ) : ZMod r) = s * (toPolyN r p).eval (τ : ZMod r) := by
  induction p generalizing s n with
  | nil => simp [msm_nil_right]
  | cons x p ih =>
    cases n with
    | zero => simp at h
    | succ n =>
      have h' : p.length ≤ n := by simpa using h
      simp only [powers, msm, cast_addm, cast_mulm, ih _ _ h', toPolyN_cons, eval_add, eval_C, eval_mul, eval_X]
      ring

/-- `Commit` on the SRS of trapdoor τ returns `p(τ)` -/
theorem commit_srs (τ size : ℕ) (p : List ℕ) (h1 : p ≠ []) (h2 : p.length ≤ size) :
    ∃ c, commit r p (powers r τ (1 % r) size) = .ok c ∧ (c : ZMod r) = (toPolyN r p).eval (τ : ZMod r) := by
  have hlen : ¬ (p.length = 0 ∨ p.length > (powers r τ (1 % r) size).length) := by
    rw [powers_length]
    have : p.length ≠ 0 := by simpa using h1
    omega
  refine ⟨msm r ((powers r τ (1 % r) size).take p.length) p, ?_, ?_⟩
  · simp only [commit, if_neg hlen]
  rw [msm_take, cast_msm_powers r τ p _ _ h2]
  simp

/-- commitment of the quotient (empty quotient ↦ identity) returns `h(τ)` -/
theorem commitQuotient_srs (τ size : ℕ) (h : List ℕ) (h2 : h.length ≤ size) :
    ∃ H, commitQuotient r h (powers r τ (1 % r) size) = .ok H ∧
      (H : ZMod r) = (toPolyN r h).eval (τ : ZMod r) := by
  unfold commitQuotient
  by_cases h0 : h.length = 0
  · have : h = [] := List.length_eq_zero_iff.mp h0
    subst this
    exact ⟨0, by simp, by simp⟩
  · rw [if_neg h0]
    exact commit_srs r τ size h (by intro e; simp [e] at h0) h2

/-- exact acceptance of `Verify`: the pairing equation the Go code checks, in the exponent -/
theorem verify_iff (τ c H v z : ℕ) :
    verify r (vkOf r τ) c H v z = true ↔ (c : ZMod r) - v = ((τ : ZMod r) - z) * H := by
  unfold verify pairingCheck vkOf
  simp only [List.foldl_cons, List.foldl_nil, beq_iff_eq]
  rw [← cast_eq_zero_of_lt r (addm_lt r _ _)]
  simp only [cast_addm, cast_mulm, cast_subm, cast_negm, cast_one_mod, cast_mod, Nat.cast_zero]
  constructor <;> intro h <;> linear_combination (-1 : ZMod r) * h

end CastModel

/-! ### weighted sums of claim defects (multi-point check) -/
section Dot
variable {F : Type*} [CommRing F]

/-- the defects `cᵢ − vᵢ − (τ − zᵢ)·hᵢ` of a list of claims (digests, proofs = (H, value), points) -/
def defects (τ : F) : List F → List (F × F) → List F → List F
  | c :: cs, (h, v) :: ps, z :: zs => (c - v - (τ - z) * h) :: defects τ cs ps zs
  | _, _, _ => []

/-- `Σ λᵢ·dᵢ` -/
def dot : List F → List F → F
  | l :: ls, d :: ds => l * d + dot ls ds
  | _, _ => 0

theorem dot_nil_right (ls : List F) : dot ls [] = 0 := by cases ls <;> rfl

theorem defects_length (τ : F) (cs : List F) (ps : List (F × F)) (zs : List F)
    (h1 : cs.length = ps.length) (h2 : cs.length = zs.length) : (defects τ cs ps zs).length = cs.length := by
  induction cs generalizing ps zs with
  | nil => rfl
  | cons c cs ih =>
    cases ps with
    | nil => simp at h1
    | cons p ps =>
      cases zs with
      | nil => simp at h2
      | cons z zs =>
        obtain ⟨h, v⟩ := p
        simp only [defects, List.length_cons, ih ps zs (by simpa using h1) (by simpa using h2)]

/-- the i-th defect is the defect of the i-th claim -/
theorem defects_getD (τ : F) (cs : List F) (ps : List (F × F)) (zs : List F) (i : ℕ)
    (h1 : cs.length = ps.length) (h2 : cs.length = zs.length) (hi : i < cs.length) :
    (defects τ cs ps zs).getD i 0 =
      cs.getD i 0 - (ps.getD i (0, 0)).2 - (τ - zs.getD i 0) * (ps.getD i (0, 0)).1 := by
  induction cs generalizing ps zs i with
  | nil => simp at hi
  | cons c cs ih =>
    cases ps with
    | nil => simp at h1
    | cons p ps =>
      cases zs with
      | nil => simp at h2
      | cons z zs =>
        obtain ⟨h, v⟩ := p
        cases i with
        | zero => simp [defects]
        | succ i =>
          have := ih ps zs i (by simpa using h1) (by simpa using h2) (by simpa using hi)
          simpa [defects] using this

theorem dot_zero_of_all_zero (ls ds : List F) (h : ∀ d ∈ ds, d = 0) : dot ls ds = 0 := by
  induction ls generalizing ds with
  | nil => cases ds <;> rfl
  | cons l ls ih =>
    cases ds with
    | nil => rfl
    | cons d ds =>
      have hd : d = 0 := h d (by simp)
      simp [dot, hd, ih ds (fun x hx => h x (by simp [hx]))]

theorem dot_zeros (n : ℕ) (ds : List F) : dot (List.replicate n 0) ds = 0 := by
  induction n generalizing ds with
  | zero => cases ds <;> rfl
  | succ n ih => cases ds with
    | nil => rfl
    | cons d ds => simp [List.replicate_succ, dot, ih]

/-- changing one weight moves the sum by `(x − λᵢ)·dᵢ` -/
theorem dot_set (ls ds : List F) (i : ℕ) (x : F) (hi : i < ls.length) :
    dot (ls.set i x) ds = dot ls ds + (x - ls.getD i 0) * ds.getD i 0 := by
  induction ls generalizing ds i with
  | nil => simp at hi
  | cons l ls ih =>
    cases ds with
    | nil => simp [dot_nil_right]
    | cons d ds =>
      cases i with
      | zero => simp [dot]; ring
      | succ i =>
        have := ih ds i (by simpa using hi)
        simp only [List.set_cons_succ, dot, this, List.getD_cons_succ]
        ring

end Dot

section Batch
variable (r : ℕ) [NeZero r]

/-- pairs of naturals read in `ZMod r` -/
def castP (ps : List (ℕ × ℕ)) : List (ZMod r × ZMod r) := ps.map (fun p => ((p.1 : ZMod r), (p.2 : ZMod r)))

theorem castL_map_mod (l : List ℕ) : castL r (l.map (· % r)) = castL r l := by
  simp [castL, List.map_map, Function.comp_def]

theorem castL_set (l : List ℕ) (i x : ℕ) : castL r (l.set i x) = (castL r l).set i (x : ZMod r) := by
  simp [castL, List.map_set]

theorem castL_getD (l : List ℕ) (i : ℕ) : (castL r l).getD i 0 = ((l.getD i 0 : ℕ) : ZMod r) := by
  simp only [castL, List.getD_eq_getElem?_getD, List.getElem?_map]
  cases l[i]? <;> simp

/-- two-pair pairing check in the exponent -/
theorem pairingCheck2_iff (a b c d : ℕ) :
    pairingCheck r [(a, b), (c, d)] = true ↔ (a : ZMod r) * b + c * d = 0 := by
  unfold pairingCheck
  simp only [List.foldl_cons, List.foldl_nil, beq_iff_eq]
  rw [← cast_eq_zero_of_lt r (addm_lt r _ _)]
  simp only [cast_addm, cast_mulm, Nat.cast_zero, zero_add]

/-- folding with `[1, γ, γ², …]` is evaluation of the list at γ: `Σ γⁱ dᵢ` -/
theorem cast_msm_gammaPowers (γ : ℕ) (ds : List ℕ) (n : ℕ) (h : ds.length ≤ n) :
    ((msm r ds (gammaPowers r γ n) : ℕ) : ZMod r) = (toPolyN r ds).eval (γ : ZMod r) := by
  rw [msm_comm, gammaPowers, cast_msm_powers r γ ds _ _ h]
  simp

theorem batchVerifySinglePoint_iff (γ τ z H : ℕ) (cs vs : List ℕ) (hlen : cs.length = vs.length) (hne : cs ≠ []) :
    ∃ b, batchVerifySinglePoint r γ (vkOf r τ) cs H vs z = .ok b ∧
      (b = true ↔ (toPolyN r cs).eval (γ : ZMod r) - (toPolyN r vs).eval (γ : ZMod r)
                    = ((τ : ZMod r) - z) * H) := by
  have h1 : ¬ (cs.length ≠ vs.length) := by simpa using hlen
  have h2 : ¬ (cs.length = 0) := by simpa using hne
  refine ⟨verify r (vkOf r τ) (msm r cs (gammaPowers r γ cs.length)) (H % r)
      (msm r vs (gammaPowers r γ cs.length)) z, ?_, ?_⟩
  · simp only [batchVerifySinglePoint, foldProof, if_neg h1, if_neg h2, fold]
  · rw [verify_iff, cast_msm_gammaPowers r γ cs _ le_rfl, cast_msm_gammaPowers r γ vs _ (by omega), cast_mod]

/-- the four multi-exponentiations of `BatchVerifyMultiPoints` combine to the weighted defect sum -/
theorem multi_cast (τ : ℕ) (L cs : List ℕ) (ps : List (ℕ × ℕ)) (zs : List ℕ)
    (h1 : cs.length = L.length) (h2 : ps.length = L.length) (h3 : zs.length = L.length) :
    ((msm r cs L : ℕ) : ZMod r) - (msm r (ps.map (·.2)) L : ℕ)
      + (msm r (ps.map (·.1)) (List.zipWith (mulm r) L zs) : ℕ) - ((msm r (ps.map (·.1)) L : ℕ) : ZMod r) * τ
      = dot (castL r L) (defects (τ : ZMod r) (castL r cs) (castP r ps) (castL r zs)) := by
  induction L generalizing cs ps zs with
  | nil =>
    simp [msm_nil_right, dot]
  | cons l L ih =>
    cases cs with
    | nil => simp at h1
    | cons c cs =>
      cases ps with
      | nil => simp at h2
      | cons p ps =>
        cases zs with
        | nil => simp at h3
        | cons z zs =>
          obtain ⟨h, v⟩ := p
          have := ih cs ps zs (by simpa using h1) (by simpa using h2) (by simpa using h3)
          simp only [List.map_cons, List.zipWith_cons_cons, msm, cast_addm, cast_mulm, castL_cons, castP,
            defects, dot] at this ⊢
          linear_combination this

/-- the folding branch accepts iff the weighted defect sum vanishes (λ₀ = 1) -/
theorem multiFold_iff (τ : ℕ) (lams cs : List ℕ) (ps : List (ℕ × ℕ)) (zs : List ℕ)
    (h1 : cs.length = ps.length) (h2 : cs.length = zs.length) (h3 : lams.length = cs.length) :
    multiFold r (vkOf r τ) lams cs ps zs = true ↔
      dot (castL r (lams.set 0 1)) (defects (τ : ZMod r) (castL r cs) (castP r ps) (castL r zs)) = 0 := by
  have hL : ((lams.set 0 1).map (· % r)).length = lams.length := by simp
  have hc := multi_cast r τ ((lams.set 0 1).map (· % r)) cs ps zs (by omega) (by omega) (by omega)
  rw [castL_map_mod] at hc
  rw [← hc]
  unfold multiFold fold vkOf
  simp only [pairingCheck2_iff, cast_addm, cast_mulm, cast_subm, cast_negm, cast_one_mod, cast_mod]
  constructor <;> intro h <;> linear_combination h

theorem batchVerifyMultiPoints_iff (τ : ℕ) (lams cs : List ℕ) (ps : List (ℕ × ℕ)) (zs : List ℕ)
    (h1 : cs.length = ps.length) (h2 : cs.length = zs.length) (h3 : lams.length = cs.length) (hne : cs ≠ []) :
    ∃ b, batchVerifyMultiPoints r (vkOf r τ) lams cs ps zs = .ok b ∧
      (b = true ↔
        dot (castL r (lams.set 0 1)) (defects (τ : ZMod r) (castL r cs) (castP r ps) (castL r zs)) = 0) := by
  have e1 : ¬ (cs.length ≠ ps.length ∨ cs.length ≠ zs.length) := by
    intro h; rcases h with h | h
    · exact h h1
    · exact h h2
  have e2 : ¬ cs.length = 0 := by simpa using hne
  by_cases e3 : cs.length = 1
  · refine ⟨verify r (vkOf r τ) (cs.getD 0 0) (ps.getD 0 (0, 0)).1 (ps.getD 0 (0, 0)).2 (zs.getD 0 0),
      by simp only [batchVerifyMultiPoints, if_neg e1, if_neg e2, if_pos e3], ?_⟩
    match cs, ps, zs, lams, h1, h2, h3, e3 with
    | [c], [(H, v)], [z], [l], _, _, _, _ =>
      rw [verify_iff]
      simp only [List.getD_cons_zero, List.set_cons_zero, castL_cons, castL_nil, castP, List.map_cons,
        List.map_nil, defects, dot, Nat.cast_one]
      constructor <;> intro h <;> linear_combination h
  · refine ⟨multiFold r (vkOf r τ) lams cs ps zs,
      by simp only [batchVerifyMultiPoints, if_neg e1, if_neg e2, if_neg e3], ?_⟩
    exact multiFold_iff r τ lams cs ps zs h1 h2 h3

/-- if some defect is non-zero there are weights (naturals) with a non-zero weighted sum -/
theorem exists_dot_ne_zero (ds : List (ZMod r)) (h : ∃ d ∈ ds, d ≠ 0) :
    ∃ lams : List ℕ, lams.length = ds.length ∧ dot (castL r lams) ds ≠ 0 := by
  induction ds with
  | nil => obtain ⟨d, hd, _⟩ := h; simp at hd
  | cons d ds ih =>
    by_cases hd : d = 0
    · obtain ⟨d', hd', hne⟩ := h
      have hmem : d' ∈ ds := by
        rcases List.mem_cons.mp hd' with e | e
        · exact absurd (e.trans hd) hne
        · exact e
      obtain ⟨lams, hl, hdot⟩ := ih ⟨d', hmem, hne⟩
      refine ⟨0 :: lams, by simp [hl], ?_⟩
      simpa [dot] using hdot
    · refine ⟨1 :: List.replicate ds.length 0, by simp, ?_⟩
      have hz : castL r (List.replicate ds.length 0) = List.replicate ds.length (0 : ZMod r) := by
        simp [castL]
      simp only [castL_cons, dot, hz, dot_zeros, Nat.cast_one, one_mul, add_zero]
      exact hd

/-- the same with the first weight forced to 1, as `BatchVerifyMultiPoints` does -/
theorem exists_dot_set_ne_zero (ds : List (ZMod r)) (h : ∃ d ∈ ds, d ≠ 0) :
    ∃ lams : List ℕ, lams.length = ds.length ∧ dot (castL r (lams.set 0 1)) ds ≠ 0 := by
  cases ds with
  | nil => obtain ⟨d, hd, _⟩ := h; simp at hd
  | cons d ds =>
    by_cases hd : d = 0
    · obtain ⟨d', hd', hne⟩ := h
      have hmem : d' ∈ ds := by
        rcases List.mem_cons.mp hd' with e | e
        · exact absurd (e.trans hd) hne
        · exact e
      obtain ⟨lams, hl, hdot⟩ := exists_dot_ne_zero r ds ⟨d', hmem, hne⟩
      refine ⟨0 :: lams, by simp [hl], ?_⟩
      simpa [dot, hd] using hdot
    · refine ⟨1 :: List.replicate ds.length 0, by simp, ?_⟩
      have hz : castL r (List.replicate ds.length 0) = List.replicate ds.length (0 : ZMod r) := by
        simp [castL]
      simp only [List.set_cons_zero, castL_cons, dot, hz, dot_zeros, Nat.cast_one, one_mul, add_zero]
      exact hd

end Batch

/-! ### honest batch opening: folded polynomial -/
section BatchOpen

section
variable {F : Type*} [CommRing F]

/-- `Σ γⁱ Pᵢ` -/
noncomputable def gfold (γ : F) (Ps : List F[X]) : F[X] := Ps.foldr (fun P acc => P + C γ * acc) 0

@[simp] theorem gfold_nil (γ : F) : gfold γ [] = 0 := rfl
@[simp] theorem gfold_cons (γ : F) (P : F[X]) (Ps : List F[X]) : gfold γ (P :: Ps) = P + C γ * gfold γ Ps := rfl

/-- evaluating the folded polynomial = folding the evaluations -/
theorem gfold_eval (γ x : F) (Ps : List F[X]) :
    (gfold γ Ps).eval x = (toPoly (Ps.map (fun P => P.eval x))).eval γ := by
  induction Ps with
  | nil => simp
  | cons P Ps ih => simp [ih]
end

variable (r : ℕ) [NeZero r]

theorem addScaled_length (s : ℕ) (acc p : List ℕ) : (addScaled r s acc p).length = acc.length := by
  induction acc generalizing p with
  | nil => cases p <;> rfl
  | cons a acc ih => cases p with
    | nil => rfl
    | cons x p => simp [addScaled, ih]

theorem toPolyN_addScaled (s : ℕ) (acc p : List ℕ) (h : p.length ≤ acc.length) :
    toPolyN r (addScaled r s acc p) = toPolyN r acc + C (s : ZMod r) * toPolyN r p := by
  induction acc generalizing p with
  | nil =>
    have : p = [] := by simpa using h
    subst this; simp [addScaled]
  | cons a acc ih =>
    cases p with
    | nil => simp [addScaled]
    | cons x p =>
      have h' : p.length ≤ acc.length := by simpa using h
      simp only [addScaled, toPolyN_cons, cast_addm, cast_mulm, ih p h', map_add, map_mul]
      ring

theorem foldl_addScaled (init : List ℕ) (pairs : List (List ℕ × ℕ))
    (h : ∀ pg ∈ pairs, pg.1.length ≤ init.length) :
    (pairs.foldl (fun acc pg => addScaled r pg.2 acc pg.1) init).length = init.length ∧
    toPolyN r (pairs.foldl (fun acc pg => addScaled r pg.2 acc pg.1) init) =
      toPolyN r init + (pairs.map (fun pg => C (pg.2 : ZMod r) * toPolyN r pg.1)).sum := by
  induction pairs generalizing init with
  | nil => simp
  | cons pg pairs ih =>
    have h0 : pg.1.length ≤ init.length := h pg (by simp)
    have hl := addScaled_length r pg.2 init pg.1
    obtain ⟨l1, l2⟩ := ih (addScaled r pg.2 init pg.1) (fun q hq => by rw [hl]; exact h q (by simp [hq]))
    refine ⟨by rw [List.foldl_cons, l1, hl], ?_⟩
    rw [List.foldl_cons, l2, toPolyN_addScaled r _ _ _ h0]
    simp only [List.map_cons, List.sum_cons]
    ring

theorem sum_zip_powers (γ s : ℕ) (rest : List (List ℕ)) (k : ℕ) (hk : rest.length ≤ k) :
    ((rest.zip (powers r γ s k)).map (fun pg => C (pg.2 : ZMod r) * toPolyN r pg.1)).sum
      = C (s : ZMod r) * gfold (γ : ZMod r) (rest.map (toPolyN r)) := by
  induction rest generalizing s k with
  | nil => simp
  | cons p rest ih =>
    cases k with
    | zero => simp at hk
    | succ k =>
      have hk' : rest.length ≤ k := by simpa using hk
      simp only [powers, List.zip_cons_cons, List.map_cons, List.sum_cons, ih _ _ hk', gfold_cons, cast_mulm,
        map_mul]
      ring

theorem le_foldl_max (polys : List (List ℕ)) (m : ℕ) :
    m ≤ polys.foldl (fun m p => max m p.length) m ∧
    ∀ p ∈ polys, p.length ≤ polys.foldl (fun m p => max m p.length) m := by
  induction polys generalizing m with
  | nil => simp
  | cons q polys ih =>
    obtain ⟨a, b⟩ := ih (max m q.length)
    refine ⟨le_trans (le_max_left _ _) a, ?_⟩
    intro p hp
    rcases List.mem_cons.mp hp with e | e
    · subst e; exact le_trans (le_max_right _ _) a
    · exact b p e

theorem foldl_max_le (polys : List (List ℕ)) (m size : ℕ) (hm : m ≤ size) (h : ∀ p ∈ polys, p.length ≤ size) :
    polys.foldl (fun m p => max m p.length) m ≤ size := by
  induction polys generalizing m with
  | nil => simpa
  | cons q polys ih =>
    exact ih _ (max_le hm (h q (by simp))) (fun p hp => h p (by simp [hp]))

/-- the folded polynomial of `BatchOpenSinglePoint` is `Σ γⁱ pᵢ` and has `largest` coefficients -/
theorem toPolyN_foldPolys (γ : ℕ) (p0 : List ℕ) (rest : List (List ℕ)) (largest : ℕ)
    (hl0 : p0.length ≤ largest) (hl : ∀ p ∈ rest, p.length ≤ largest) :
    (foldPolys r largest (p0 :: rest) (powers r γ (γ % r) (rest.length + 1))).length = largest ∧
    toPolyN r (foldPolys r largest (p0 :: rest) (powers r γ (γ % r) (rest.length + 1)))
      = gfold (γ : ZMod r) ((p0 :: rest).map (toPolyN r)) := by
  have hinitlen : ((p0.map (· % r)) ++ List.replicate (largest - p0.length) 0).length = largest := by
    simp; omega
  have hinit : toPolyN r ((p0.map (· % r)) ++ List.replicate (largest - p0.length) 0) = toPolyN r p0 := by
    have hz : castL r (List.replicate (largest - p0.length) 0)
        = List.replicate (largest - p0.length) (0 : ZMod r) := by simp [castL]
    rw [toPolyN, castL_append, castL_map_mod, hz, toPoly_append_zeros]
    rfl
  have hpairs : ∀ pg ∈ rest.zip (powers r γ (γ % r) (rest.length + 1)),
      pg.1.length ≤ ((p0.map (· % r)) ++ List.replicate (largest - p0.length) 0).length := by
    intro pg hpg
    rw [hinitlen]
    exact hl pg.1 (List.of_mem_zip hpg).1
  obtain ⟨l1, l2⟩ := foldl_addScaled r _ _ hpairs
  refine ⟨by simp only [foldPolys]; rw [l1, hinitlen], ?_⟩
  simp only [foldPolys]
  rw [l2, hinit, sum_zip_powers r γ (γ % r) rest _ (Nat.le_succ _)]
  simp

theorem cast_foldEvals (γ : ℕ) (vals : List ℕ) :
    ((foldEvals r γ vals : ℕ) : ZMod r) = (toPolyN r vals).eval (γ : ZMod r) := by
  rw [toPolyN, toPoly_eval, foldEvals]
  induction vals with
  | nil => simp
  | cons v vals ih => simp [ih]

end BatchOpen

end GV.KZG
