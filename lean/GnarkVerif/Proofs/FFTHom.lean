import GnarkVerif.Proofs.FFT
import Mathlib.Data.ZMod.Basic
/-
C10 helper: every function of Model/FFT.lean commutes with maps preserving + - * 0 1 ("free theorem", proved by
induction for each function), and `ZM q → ZMod q` is such a map. This transports the CommRing theorems of Props/C10
to the instance the driver executes.
-/
namespace GV.FFT
set_option linter.unusedSectionVars false

section Hom
variable {A B : Type} [Add A] [Sub A] [Mul A] [Zero A] [One A] [Add B] [Sub B] [Mul B] [Zero B] [One B]

/-- a map commuting with the five operations the model uses -/
structure OpsHom (φ : A → B) : Prop where
  add : ∀ x y, φ (x + y) = φ x + φ y
  sub : ∀ x y, φ (x - y) = φ x - φ y
  mul : ∀ x y, φ (x * y) = φ x * φ y
  zero : φ 0 = 0
  one : φ 1 = 1

variable {φ : A → B} (h : OpsHom φ)
include h

theorem hom_iter (w x : A) (n : Nat) : (iter w x n).map φ = iter (φ w) (φ x) n := by
  induction n generalizing x with
  | zero => rfl
  | succ n ih => simp [iter, ih, h.mul]

theorem hom_powers (w : A) (n : Nat) : (powers w n).map φ = powers (φ w) n := by
  simp [powers, hom_iter h, h.one]

theorem hom_pw (w : A) (n : Nat) : φ (pw w n) = pw (φ w) n := by
  induction n with
  | zero => simp [pw, h.one]
  | succ n ih => simp [pw, h.mul, ih]

theorem hom_getD (a : List A) (i : Nat) : (a.map φ).getD i 0 = φ (a.getD i 0) := by
  simp only [List.getD_eq_getElem?_getD, List.getElem?_map]
  cases a[i]? <;> simp [h.zero]

theorem hom_permute (f : Nat → Nat) (a : List A) : permute f (a.map φ) = (permute f a).map φ := by
  simp only [permute, List.length_map, List.map_map]
  apply List.map_congr_left
  intro i _
  have := hom_getD h a (f i)
  simpa [List.getD_eq_getElem?_getD] using this

theorem hom_zipWith_add (a b : List A) :
    List.zipWith (· + ·) (a.map φ) (b.map φ) = (List.zipWith (· + ·) a b).map φ := by
  rw [List.zipWith_map, List.map_zipWith]; simp [h.add]
theorem hom_zipWith_sub (a b : List A) :
    List.zipWith (· - ·) (a.map φ) (b.map φ) = (List.zipWith (· - ·) a b).map φ := by
  rw [List.zipWith_map, List.map_zipWith]; simp [h.sub]
theorem hom_zipWith_mul (a b : List A) :
    List.zipWith (· * ·) (a.map φ) (b.map φ) = (List.zipWith (· * ·) a b).map φ := by
  rw [List.zipWith_map, List.map_zipWith]; simp [h.mul]

theorem hom_bfDIF (t lo hi : List A) : bfDIF (t.map φ) (lo.map φ) (hi.map φ) = (bfDIF t lo hi).map φ := by
  unfold bfDIF
  rw [hom_zipWith_add h, hom_zipWith_sub h, hom_zipWith_mul h, List.map_append]

theorem hom_bfDIT (t lo hi : List A) : bfDIT (t.map φ) (lo.map φ) (hi.map φ) = (bfDIT t lo hi).map φ := by
  unfold bfDIT
  simp only []
  rw [hom_zipWith_mul h, hom_zipWith_add h, hom_zipWith_sub h, List.map_append]

theorem hom_mapBlocks (f : List A → List A) (f' : List B → List B) (hf : ∀ b, f' (b.map φ) = (f b).map φ)
    (sz c : Nat) (a : List A) : mapBlocks f' sz c (a.map φ) = (mapBlocks f sz c a).map φ := by
  induction c generalizing a with
  | zero => rfl
  | succ c ih => simp [mapBlocks, ← List.map_take, ← List.map_drop, hf, ih]

theorem hom_stageDIF (t : List A) (k c : Nat) (a : List A) :
    stageDIF (t.map φ) k c (a.map φ) = (stageDIF t k c a).map φ := by
  apply hom_mapBlocks h
  intro b; simp [← List.map_take, ← List.map_drop, hom_bfDIF h]

theorem hom_stageDIT (t : List A) (k c : Nat) (a : List A) :
    stageDIT (t.map φ) k c (a.map φ) = (stageDIT t k c a).map φ := by
  apply hom_mapBlocks h
  intro b; simp [← List.map_take, ← List.map_drop, hom_bfDIT h]

theorem hom_headD (rows : List (List A)) : (rows.map (List.map φ)).headD [] = (rows.headD []).map φ := by
  cases rows <;> simp

theorem hom_kerDIF (rows : List (List A)) (k c : Nat) (a : List A) :
    kerDIF (rows.map (List.map φ)) k c (a.map φ) = (kerDIF rows k c a).map φ := by
  induction k generalizing rows c a with
  | zero => rfl
  | succ k ih => simp only [kerDIF, hom_headD h, hom_stageDIF h, ← List.map_tail, ih]

theorem hom_kerDIT (rows : List (List A)) (k c : Nat) (a : List A) :
    kerDIT (rows.map (List.map φ)) k c (a.map φ) = (kerDIT rows k c a).map φ := by
  induction k generalizing rows c a with
  | zero => rfl
  | succ k ih => simp only [kerDIT, hom_headD h, ← List.map_tail, ih, hom_stageDIT h]

theorem hom_getD_rows (tw : List (List A)) (i : Nat) :
    (tw.map (List.map φ)).getD i [] = (tw.getD i []).map φ := by
  simp only [List.getD_eq_getElem?_getD, List.getElem?_map]
  cases tw[i]? <;> simp

theorem hom_kerRows (tw : List (List A)) (s k : Nat) :
    kerRows (tw.map (List.map φ)) s k = (kerRows tw s k).map (List.map φ) := by
  simp only [kerRows, List.map_append, List.map_map]
  congr 1
  · apply List.map_congr_left
    intro j _
    exact hom_getD_rows h tw _
  · simp [h.one]

theorem hom_buildTwiddles (w : A) (nb : Nat) :
    buildTwiddles (φ w) nb = (buildTwiddles w nb).map (List.map φ) := by
  unfold buildTwiddles
  split
  · rfl
  · simp only [List.map_map]
    apply List.map_congr_left
    intro i _
    simp only [Function.comp, List.map_map]
    apply List.map_congr_left
    intro j _
    have := hom_getD h (powers w (1 + 2^(nb-1))) (j * 2^i)
    rw [hom_powers h] at this
    simpa [List.getD_eq_getElem?_getD] using this

theorem hom_difFFT (kers : List Nat) (tw : List (List A)) (tss m : Nat) (w : A) (stage : Nat) (a : List A) :
    difFFT kers (tw.map (List.map φ)) tss m (φ w) stage (a.map φ) = (difFFT kers tw tss m w stage a).map φ := by
  induction m generalizing w stage a with
  | zero => rfl
  | succ m ih =>
    unfold difFFT
    split
    · rw [hom_kerRows h, hom_kerDIF h]
    · simp only []
      split
      · rw [← List.map_take, ← List.map_drop, hom_zipWith_add h, hom_zipWith_sub h, ← hom_powers h,
          hom_zipWith_mul h, ← h.mul, ih, ih, List.map_append]
      · rw [← List.map_take, ← List.map_drop, hom_zipWith_add h, hom_zipWith_sub h, hom_getD_rows h,
          hom_zipWith_mul h, ih, ih, List.map_append]

theorem hom_ditFFT (kers : List Nat) (tw : List (List A)) (tss m : Nat) (w : A) (stage : Nat) (a : List A) :
    ditFFT kers (tw.map (List.map φ)) tss m (φ w) stage (a.map φ) = (ditFFT kers tw tss m w stage a).map φ := by
  induction m generalizing w stage a with
  | zero => rfl
  | succ m ih =>
    unfold ditFFT
    split
    · rw [hom_kerRows h, hom_kerDIT h]
    · simp only []
      rw [← List.map_take, ← List.map_drop, ← h.mul, ih, ih]
      split
      · rw [← hom_powers h, hom_bfDIT h]
      · rw [hom_getD_rows h, hom_bfDIT h]

/-- image of a domain -/
def Domain.mapD (φ : A → B) (d : Domain A) : Domain B :=
  ⟨d.m, φ d.cardInv, φ d.gen, φ d.genInv, φ d.g, φ d.gInv, d.precomp⟩

theorem hom_tables (d : Domain A) (w : A) :
    tables (d.mapD φ) (φ w) = ((tables d w).1.map (List.map φ), (tables d w).2) := by
  cases hp : d.precomp
  · by_cases hm : d.m - 3 > 0
    · simp [tables, Domain.mapD, hp, hm, ← hom_pw h, hom_buildTwiddles h]
    · simp [tables, Domain.mapD, hp, hm]
  · simp [tables, Domain.mapD, hp, hom_buildTwiddles h]

/-- the model commutes with every homomorphism of the operations: what the driver computes on `ZM q`
    is the image of what the theorems talk about -/
theorem hom_FFT (kers : List Nat) (d : Domain A) (dif coset : Bool) (a : List A) :
    FFT kers (d.mapD φ) dif coset (a.map φ) = (FFT kers d dif coset a).map φ := by
  have ht := hom_tables h d d.gen
  have hg : (d.mapD φ).gen = φ d.gen := rfl
  have e1 : (d.mapD φ).g = φ d.g := rfl
  have e2 : (d.mapD φ).m = d.m := rfl
  cases dif <;> cases coset <;>
    simp only [FFT, hg, ht, e1, e2, List.length_map, Bool.false_eq_true, if_false, if_true]
  · exact hom_ditFFT h _ _ _ _ _ _ _
  · rw [← hom_powers h, hom_permute h, hom_zipWith_mul h]; exact hom_ditFFT h _ _ _ _ _ _ _
  · exact hom_difFFT h _ _ _ _ _ _ _
  · rw [← hom_powers h, hom_zipWith_mul h]; exact hom_difFFT h _ _ _ _ _ _ _

theorem hom_FFTInverse (kers : List Nat) (d : Domain A) (dif coset : Bool) (a : List A) :
    FFTInverse kers (d.mapD φ) dif coset (a.map φ) = (FFTInverse kers d dif coset a).map φ := by
  have ht := hom_tables h d d.genInv
  have hg : (d.mapD φ).genInv = φ d.genInv := rfl
  have e1 : (d.mapD φ).gInv = φ d.gInv := rfl
  have e2 : (d.mapD φ).m = d.m := rfl
  have e3 : (d.mapD φ).cardInv = φ d.cardInv := rfl
  have e4 : (d.mapD φ).precomp = d.precomp := rfl
  have hone : (1 : B) * φ d.cardInv = φ (1 * d.cardInv) := by rw [h.mul, h.one]
  have hz : ∀ x t : List A, List.zipWith (fun x t => x * t * φ d.cardInv) (x.map φ) (t.map φ)
      = (List.zipWith (fun x t => x * t * d.cardInv) x t).map φ := by
    intro x t; rw [List.zipWith_map, List.map_zipWith]; simp [h.mul]
  have hm : ∀ x : List A, (x.map φ).map (· * φ d.cardInv) = (x.map (· * d.cardInv)).map φ := by
    intro x; simp [h.mul]
  cases dif <;> cases coset <;>
    simp only [FFTInverse, hg, ht, e1, e2, e3, e4, List.length_map, Bool.false_eq_true, if_false, if_true,
      Bool.not_false, Bool.not_true]
  · rw [hom_ditFFT h, hm]
  · rw [hom_ditFFT h]
    split
    · rw [← hom_powers h, hz]
    · rw [hone, ← hom_iter h, hom_zipWith_mul h]
  · rw [hom_difFFT h, hm]
  · rw [hom_difFFT h, ← hom_powers h, hom_permute h, hz]

end Hom

/-! ### the executable instance `ZM q` maps homomorphically onto `ZMod q` -/

def zmCast {q : Nat} (x : ZM q) : ZMod q := (x.val : ZMod q)

theorem zmCast_hom (q : Nat) [NeZero q] : OpsHom (zmCast (q := q)) where
  add x y := by show (((x.val + y.val) % q : Nat) : ZMod q) = _; simp [zmCast]
  sub x y := by
    show (((x.val + (q - y.val % q)) % q : Nat) : ZMod q) = (x.val : ZMod q) - (y.val : ZMod q)
    have : y.val % q ≤ q := (Nat.mod_lt _ (Nat.pos_of_ne_zero (NeZero.ne q))).le
    simp [Nat.cast_sub this]
    ring
  mul x y := by show (((x.val * y.val) % q : Nat) : ZMod q) = _; simp [zmCast]
  zero := by show ((0 : Nat) : ZMod q) = 0; simp
  one := by show ((1 % q : Nat) : ZMod q) = 1; simp

end GV.FFT
