import GnarkVerif.Model.HashToField
import Mathlib.Tactic.Ring
import Mathlib.Tactic.Linarith
import Mathlib.Tactic.LinearCombination
import Mathlib.Tactic.FieldSimp
import Mathlib.Algebra.Field.Basic
/-
Helper lemmas for C13: the block loop of expand_message_xmd, chunking, and the algebra of the SvdW map.
-/
namespace GV.HashToField
open GV GV.Alg

/-! ### expand_message_xmd -/

theorem blockLoop_length (H : List UInt8 → List UInt8) (b : Nat) (hH : ∀ m, (H m).length = b)
    (b0 d : List UInt8) : ∀ (n i : Nat) (prev : List UInt8), (blockLoop H b0 d n i prev).length = n * b := by
  intro n
  induction n with
  | zero => intro i prev; simp [blockLoop]
  | succ n ih =>
    intro i prev
    simp only [blockLoop, List.length_append, ih, nextBlock, hH]
    rw [Nat.succ_mul]; omega

/-- `ell·b ≥ len` -/
theorem ell_mul_ge (b len : Nat) (hb : 0 < b) : len ≤ ellOf b len * b := by
  unfold ellOf
  have h1 := Nat.div_add_mod (len + b - 1) b
  have h2 := Nat.mod_lt (len + b - 1) hb
  have h3 : b * ((len + b - 1) / b) = (len + b - 1) / b * b := Nat.mul_comm _ _
  omega

theorem ell_zero (b len : Nat) (hb : 0 < b) (h : ellOf b len = 0) : len = 0 := by
  have := ell_mul_ge b len hb
  rw [h] at this; omega

/-- the recursive specification of the blocks: `b_0` given, `b_1 = H(b_0 ‖ 1 ‖ DST')`,
`b_i = H(strxor(b_0, b_(i-1)) ‖ i ‖ DST')` -/
def bSpec (H : List UInt8 → List UInt8) (b0 dstPrime : List UInt8) : Nat → List UInt8
  | 0 => b0
  | 1 => H (b0 ++ [1] ++ dstPrime)
  | i+2 => H (strxor b0 (bSpec H b0 dstPrime (i+1)) ++ [UInt8.ofNat (i+2)] ++ dstPrime)

/-- `b_1 ‖ … ‖ b_ell` -/
def uniformSpec (H : List UInt8 → List UInt8) (b0 dstPrime : List UInt8) (ell : Nat) : List UInt8 :=
  ((List.range ell).map (fun i => bSpec H b0 dstPrime (i+1))).flatten

theorem blockLoop_spec (H : List UInt8 → List UInt8) (b0 d : List UInt8) :
    ∀ (n i : Nat), blockLoop H b0 d n (i+2) (bSpec H b0 d (i+1)) =
      ((List.range n).map (fun k => bSpec H b0 d (i+2+k))).flatten := by
  intro n
  induction n with
  | zero => intro i; simp [blockLoop]
  | succ n ih =>
    intro i
    rw [List.range_succ_eq_map]
    simp only [blockLoop, List.map_cons, List.flatten_cons, List.map_map]
    have hb : nextBlock H b0 d (i+2) (bSpec H b0 d (i+1)) = bSpec H b0 d (i+2) := by
      simp [nextBlock, bSpec]
    rw [hb]
    congr 1
    have := ih (i+1)
    rw [show i + 1 + 2 = i + 2 + 1 by omega, show i + 1 + 1 = i + 2 by omega] at this
    rw [this]
    congr 1
    apply List.map_congr_left
    intro k _
    simp only [Function.comp]
    congr 1; omega

theorem uniform_eq_spec (H : List UInt8 → List UInt8) (b0 d : List UInt8) (ell : Nat) (h : 0 < ell) :
    H (b0 ++ [1] ++ d) ++ blockLoop H b0 d (ell - 1) 2 (H (b0 ++ [1] ++ d)) = uniformSpec H b0 d ell := by
  obtain ⟨n, rfl⟩ : ∃ n, ell = n + 1 := ⟨ell - 1, by omega⟩
  simp only [Nat.add_sub_cancel]
  have := blockLoop_spec H b0 d n 0
  simp only [Nat.zero_add] at this
  have hb1 : bSpec H b0 d 1 = H (b0 ++ [1] ++ d) := rfl
  rw [hb1] at this
  rw [this, uniformSpec, List.range_succ_eq_map]
  simp only [List.map_cons, List.flatten_cons, List.map_map, Nat.zero_add]
  rw [hb1]
  congr 2
  apply List.map_congr_left
  intro k _
  simp only [Function.comp]
  congr 1; omega

/-! ### chunking -/

theorem chunks_length (L : Nat) : ∀ (n : Nat) (bs : List UInt8), (chunks L n bs).length = n := by
  intro n
  induction n with
  | zero => intro bs; rfl
  | succ n ih => intro bs; simp [chunks, ih]

theorem chunks_eq (L : Nat) : ∀ (n : Nat) (bs : List UInt8),
    chunks L n bs = (List.range n).map (fun i => (bs.drop (i * L)).take L) := by
  intro n
  induction n with
  | zero => intro bs; rfl
  | succ n ih =>
    intro bs
    rw [List.range_succ_eq_map]
    simp only [chunks, List.map_cons, List.map_map, Nat.zero_mul, List.drop_zero, ih]
    congr 1
    apply List.map_congr_left
    intro i _
    simp only [Function.comp, List.drop_drop]
    congr 2
    rw [Nat.succ_mul]; omega

/-! ### SHA-256 output size -/

theorem sha256_compress_size (h : Array UInt32) (blk : Array UInt8) (off : Nat) : (Sha256.compress h blk off).size = 8 := by
  unfold Sha256.compress
  simp [Id.run]
  rfl

theorem foldl_inv {α β : Type} (P : β → Prop) (f : β → α → β) (hf : ∀ b a, P b → P (f b a)) :
    ∀ (l : List α) (b : β), P b → P (l.foldl f b) := by
  intro l; induction l with
  | nil => intro b hb; exact hb
  | cons a l ih => intro b hb; exact ih _ (hf b a hb)

theorem foldr4_length (f : UInt32 → UInt8 × UInt8 × UInt8 × UInt8) :
    ∀ (l : List UInt32), (List.foldr (fun x y => (f x).1 :: (f x).2.1 :: (f x).2.2.1 :: (f x).2.2.2 :: y) [] l).length = 4 * l.length := by
  intro l; induction l with
  | nil => rfl
  | cons a l ih => simp only [List.foldr_cons, List.length_cons, ih]; omega

/-- the SHA-256 model returns 32 bytes for every input -/
theorem sha256_length (m : List UInt8) : (Sha256.hash m).length = 32 := by
  unfold Sha256.hash
  simp [Id.run]
  show List.length (Array.foldr _ [] _) = 32
  rw [← Array.foldr_toList]
  have h8 : (List.foldl (fun b a => Sha256.compress b (Sha256.pad m).toArray (64 * a)) Sha256.H0
            (List.range' 0 ((Sha256.pad m).length / 64))).size = 8 :=
    foldl_inv (fun (b : Array UInt32) => b.size = 8) _ (fun b a _ => sha256_compress_size _ _ _) _ _ rfl
  have := foldr4_length (fun x => ((x >>> 24).toUInt8, (x >>> 16).toUInt8, (x >>> 8).toUInt8, x.toUInt8))
    (List.foldl (fun b a => Sha256.compress b (Sha256.pad m).toArray (64 * a)) Sha256.H0
            (List.range' 0 ((Sha256.pad m).length / 64))).toList
  simp only [Array.length_toList, h8] at this
  exact this

end GV.HashToField
