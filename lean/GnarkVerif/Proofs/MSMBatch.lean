import GnarkVerif.Proofs.MSM
/-
C04 — the batch-affine chunk processor as a state machine: value invariant
  Σ_k (k+1)·(B_k + JE_k) + Σ_pending (id+1)·P + Σ_queue (id+1)·P  =  Σ_processed d_i·P_i
and the precondition of `batchAddG?Affine` (distinct buckets, bucket and point finite, different X).
-/
namespace GV.MSM

section
variable {G : Type} [AddCommGroup G]

/-- what the coordinate tests of the Go code mean for group elements
(`same_pos`/`same_neg`: two finite points of a short Weierstrass curve with the same X are equal or opposite) -/
structure LawfulBA (ops : GOps G) : Prop where
  law : Lawful ops
  isZero_iff : ∀ x, ops.isZero x = true ↔ x = 0
  same_pos : ∀ B Q, B ≠ 0 → Q ≠ 0 → ops.sameX B Q = true → ops.sameY B Q = true → B = Q
  same_neg : ∀ B Q, B ≠ 0 → Q ≠ 0 → ops.sameX B Q = true → ops.sameY B Q = false → B = -Q

def pendSum : List (Nat × G) → G
  | [] => 0
  | p :: l => ((p.1:ℤ) + 1) • p.2 + pendSum l

theorem wsumFrom_set (X : G) : ∀ (bs : List G) (k idx : Nat), idx < bs.length →
    wsumFrom k (bs.set idx X) = wsumFrom k bs + ((k:ℤ) + idx + 1) • (X - bs.getD idx 0) := by
  intro bs
  induction bs with
  | nil => intro k idx h; simp at h
  | cons b bs ih =>
    intro k idx h
    cases idx with
    | zero => simp only [List.set_cons_zero, wsumFrom, List.getD_cons_zero]; push_cast; module
    | succ idx =>
      simp only [List.set_cons_succ, wsumFrom, List.getD_cons_succ, ih (k+1) idx (by simpa using h)]
      push_cast
      module

theorem wsumFrom_foldr_modify : ∀ (l : List (Nat × G)) (bs : List G), (∀ p ∈ l, p.1 < bs.length) →
    wsumFrom 0 (l.foldr (fun p bs => bs.modify p.1 (fun b => b + p.2)) bs) = wsumFrom 0 bs + pendSum l ∧
    (l.foldr (fun p bs => bs.modify p.1 (fun b => b + p.2)) bs).length = bs.length := by
  intro l
  induction l with
  | nil => intro bs _; simp [pendSum]
  | cons p l ih =>
    intro bs hp
    obtain ⟨h1, h2⟩ := ih bs (fun q hq => hp q (by simp [hq]))
    simp only [List.foldr_cons]
    constructor
    · rw [wsumFrom_modify p.2 _ 0 p.1 (by rw [h2]; exact hp p (by simp)), h1]
      simp only [pendSum]
      push_cast
      module
    · simp [h2]

/-- shape invariant of the state: array sizes, ids in range, queued / pending points finite -/
structure BAInv (nb : Nat) (st : BAState G) : Prop where
  lenB : st.buckets.length = nb
  lenJ : st.bucketsJE.length = nb
  pend : ∀ p ∈ st.pending, p.1 < nb ∧ p.2 ≠ 0
  que : ∀ p ∈ st.queue, p.1 < nb ∧ p.2 ≠ 0

/-- weighted content of buckets and pending batch -/
def baV0 (st : BAState G) : G := wsumFrom 0 st.buckets + wsumFrom 0 st.bucketsJE + pendSum st.pending

/-- … plus the conflict queue -/
def baV (st : BAState G) : G := baV0 st + pendSum st.queue

theorem baAddFromQueue_spec (ops : GOps G) (h : LawfulBA ops) (nb : Nat) (st : BAState G) (id : Nat) (Q : G)
    (hi : BAInv nb st) (hid : id < nb) (hQ : Q ≠ 0) :
    baV0 (baAddFromQueue ops st id Q) = baV0 st + ((id:ℤ) + 1) • Q ∧
      BAInv nb (baAddFromQueue ops st id Q) ∧ (baAddFromQueue ops st id Q).queue = st.queue := by
  obtain ⟨lenB, lenJ, hpend, hque⟩ := hi
  by_cases hz : ops.isZero (st.buckets.getD id 0) = true
  · have hB : st.buckets.getD id 0 = 0 := (h.isZero_iff _).1 hz
    have key : baAddFromQueue ops st id Q = { st with buckets := st.buckets.set id Q } := by
      unfold baAddFromQueue; simp only [h.law.zero]; rw [if_pos hz]
    rw [key]
    refine ⟨?_, ⟨by simpa using lenB, lenJ, hpend, hque⟩, rfl⟩
    simp only [baV0]
    rw [wsumFrom_set Q st.buckets 0 id (by omega), hB]
    push_cast
    module
  · have hB : st.buckets.getD id 0 ≠ 0 := fun e => hz ((h.isZero_iff _).2 e)
    by_cases hx : ops.sameX (st.buckets.getD id 0) Q = true
    · by_cases hy : ops.sameY (st.buckets.getD id 0) Q = true
      · have key : baAddFromQueue ops st id Q =
            { st with bucketsJE := st.bucketsJE.modify id (fun b => b + Q) } := by
          unfold baAddFromQueue; simp only [h.law.zero, h.law.add]; rw [if_neg hz, if_pos hx, if_pos hy]
        rw [key]
        refine ⟨?_, ⟨lenB, by simpa using lenJ, hpend, hque⟩, rfl⟩
        simp only [baV0]
        rw [wsumFrom_modify Q st.bucketsJE 0 id (by omega)]
        push_cast
        module
      · have hy' : ops.sameY (st.buckets.getD id 0) Q = false := by simpa using hy
        have e := h.same_neg _ _ hB hQ hx hy'
        have key : baAddFromQueue ops st id Q = { st with buckets := st.buckets.set id 0 } := by
          unfold baAddFromQueue; simp only [h.law.zero, h.law.add]; rw [if_neg hz, if_pos hx, if_neg hy]
        rw [key]
        refine ⟨?_, ⟨by simpa using lenB, lenJ, hpend, hque⟩, rfl⟩
        simp only [baV0]
        rw [wsumFrom_set 0 st.buckets 0 id (by omega), e]
        push_cast
        module
    · have key : baAddFromQueue ops st id Q = { st with pending := (id, Q) :: st.pending } := by
        unfold baAddFromQueue; simp only [h.law.zero, h.law.add]; rw [if_neg hz, if_neg hx]
      rw [key]
      refine ⟨?_, ⟨lenB, lenJ, ?_, hque⟩, rfl⟩
      · simp only [baV0, pendSum]
        module
      · intro p hp
        simp only [List.mem_cons] at hp
        rcases hp with rfl | hp
        · exact ⟨hid, hQ⟩
        · exact hpend p hp

theorem baAdd_spec (ops : GOps G) (h : LawfulBA ops) (nb : Nat) (st : BAState G) (id : Nat) (P : G) (isAdd : Bool)
    (hi : BAInv nb st) (hid : id < nb) (hP : P ≠ 0) :
    baV0 (baAdd ops st id P isAdd) = baV0 st + ((id:ℤ) + 1) • (if isAdd then P else -P) ∧
      BAInv nb (baAdd ops st id P isAdd) ∧ (baAdd ops st id P isAdd).queue = st.queue := by
  obtain ⟨lenB, lenJ, hpend, hque⟩ := hi
  have hnP : -P ≠ 0 := neg_ne_zero.mpr hP
  by_cases hz : ops.isZero (st.buckets.getD id 0) = true
  · have hB : st.buckets.getD id 0 = 0 := (h.isZero_iff _).1 hz
    have key : baAdd ops st id P isAdd = { st with buckets := st.buckets.set id (if isAdd then P else -P) } := by
      unfold baAdd; simp only [h.law.zero, h.law.neg]; rw [if_pos hz]
    rw [key]
    refine ⟨?_, ⟨by simpa using lenB, lenJ, hpend, hque⟩, rfl⟩
    simp only [baV0]
    rw [wsumFrom_set _ st.buckets 0 id (by omega), hB]
    push_cast
    module
  · have hB : st.buckets.getD id 0 ≠ 0 := fun e => hz ((h.isZero_iff _).2 e)
    by_cases hx : ops.sameX (st.buckets.getD id 0) P = true
    · by_cases hy : ops.sameY (st.buckets.getD id 0) P = true
      · have e := h.same_pos _ _ hB hP hx hy
        cases isAdd with
        | true =>
          have key : baAdd ops st id P true = { st with bucketsJE := st.bucketsJE.modify id (fun b => b + P) } := by
            unfold baAdd; simp only [h.law.zero, h.law.add, h.law.neg]
            rw [if_neg hz, if_pos hx, if_pos hy]; simp only [if_true]
          rw [key]
          refine ⟨?_, ⟨lenB, by simpa using lenJ, hpend, hque⟩, rfl⟩
          simp only [baV0, if_true]
          rw [wsumFrom_modify P st.bucketsJE 0 id (by omega)]
          push_cast
          module
        | false =>
          have key : baAdd ops st id P false = { st with buckets := st.buckets.set id 0 } := by
            unfold baAdd; simp only [h.law.zero, h.law.add, h.law.neg]
            rw [if_neg hz, if_pos hx, if_pos hy]; simp only [Bool.false_eq_true, if_false]
          rw [key]
          refine ⟨?_, ⟨by simpa using lenB, lenJ, hpend, hque⟩, rfl⟩
          simp only [baV0, Bool.false_eq_true, if_false]
          rw [wsumFrom_set 0 st.buckets 0 id (by omega), e]
          push_cast
          module
      · have hy' : ops.sameY (st.buckets.getD id 0) P = false := by simpa using hy
        have e := h.same_neg _ _ hB hP hx hy'
        cases isAdd with
        | true =>
          have key : baAdd ops st id P true = { st with buckets := st.buckets.set id 0 } := by
            unfold baAdd; simp only [h.law.zero, h.law.add, h.law.neg]
            rw [if_neg hz, if_pos hx, if_neg hy]; simp only [if_true]
          rw [key]
          refine ⟨?_, ⟨by simpa using lenB, lenJ, hpend, hque⟩, rfl⟩
          simp only [baV0, if_true]
          rw [wsumFrom_set 0 st.buckets 0 id (by omega), e]
          push_cast
          module
        | false =>
          have key : baAdd ops st id P false = { st with bucketsJE := st.bucketsJE.modify id (fun b => b + -P) } := by
            unfold baAdd; simp only [h.law.zero, h.law.add, h.law.neg]
            rw [if_neg hz, if_pos hx, if_neg hy]; simp only [Bool.false_eq_true, if_false]
          rw [key]
          refine ⟨?_, ⟨lenB, by simpa using lenJ, hpend, hque⟩, rfl⟩
          simp only [baV0, Bool.false_eq_true, if_false]
          rw [wsumFrom_modify (-P) st.bucketsJE 0 id (by omega)]
          push_cast
          module
    · have key : baAdd ops st id P isAdd = { st with pending := (id, if isAdd then P else -P) :: st.pending } := by
        unfold baAdd; simp only [h.law.zero, h.law.add, h.law.neg]; rw [if_neg hz, if_neg hx]
      rw [key]
      refine ⟨?_, ⟨lenB, lenJ, ?_, hque⟩, rfl⟩
      · simp only [baV0, pendSum]
        module
      · intro p hp
        simp only [List.mem_cons] at hp
        rcases hp with rfl | hp
        · refine ⟨hid, ?_⟩
          cases isAdd
          · simpa using hP
          · simpa using hP
        · exact hpend p hp

theorem baExecute_spec (ops : GOps G) (h : LawfulBA ops) (nb : Nat) (st : BAState G) (hi : BAInv nb st) :
    baV0 (baExecute ops st) = baV0 st ∧ BAInv nb (baExecute ops st) ∧
      (baExecute ops st).queue = st.queue ∧ (baExecute ops st).pending = [] := by
  obtain ⟨lenB, lenJ, hpend, hque⟩ := hi
  have key : baExecute ops st = { st with
      buckets := st.pending.foldr (fun p bs => bs.modify p.1 (fun b => b + p.2)) st.buckets, pending := [] } := by
    unfold baExecute; simp only [h.law.add]
  rw [key]
  obtain ⟨h1, h2⟩ := wsumFrom_foldr_modify st.pending st.buckets (fun p hp => by rw [lenB]; exact (hpend p hp).1)
  refine ⟨?_, ⟨by rw [← lenB]; exact h2, lenJ, by simp, hque⟩, rfl, rfl⟩
  simp only [baV0, h1, pendSum]
  module

theorem baFlush_spec (ops : GOps G) (h : LawfulBA ops) (nb : Nat) (st : BAState G) (hi : BAInv nb st) :
    baV (baFlush ops st) = baV st ∧ BAInv nb (baFlush ops st) ∧
      (baFlush ops st).queue = [] ∧ (baFlush ops st).pending = st.pending := by
  obtain ⟨lenB, lenJ, hpend, hque⟩ := hi
  have key : baFlush ops st = { st with
      bucketsJE := st.queue.foldr (fun p bs => bs.modify p.1 (fun b => b + p.2)) st.bucketsJE, queue := [] } := by
    unfold baFlush; simp only [h.law.add]
  rw [key]
  obtain ⟨h1, h2⟩ := wsumFrom_foldr_modify st.queue st.bucketsJE (fun p hp => by rw [lenJ]; exact (hque p hp).1)
  refine ⟨?_, ⟨lenB, by rw [← lenJ]; exact h2, hpend, by simp⟩, rfl, rfl⟩
  simp only [baV, baV0, h1, pendSum]
  module

theorem baProcessTop_spec (ops : GOps G) (h : LawfulBA ops) (nb : Nat) : ∀ (q : List (Nat × G)) (st : BAState G),
    BAInv nb st → (∀ p ∈ q, p.1 < nb ∧ p.2 ≠ 0) →
    baV (baProcessTop ops st q) = baV0 st + pendSum q ∧ BAInv nb (baProcessTop ops st q) := by
  intro q
  induction q with
  | nil =>
    intro st hi _
    have key : baProcessTop ops st [] = { st with queue := [] } := rfl
    rw [key]
    exact ⟨by simp [baV, baV0], ⟨hi.lenB, hi.lenJ, hi.pend, by simp⟩⟩
  | cons p q ih =>
    intro st hi hq
    obtain ⟨id, Q⟩ := p
    by_cases hp : inPending st id = true
    · have key : baProcessTop ops st ((id, Q) :: q) = { st with queue := (id, Q) :: q } := by
        simp only [baProcessTop]; rw [if_pos hp]
      rw [key]
      exact ⟨by simp [baV, baV0], ⟨hi.lenB, hi.lenJ, hi.pend, hq⟩⟩
    · have key : baProcessTop ops st ((id, Q) :: q) = baProcessTop ops (baAddFromQueue ops st id Q) q := by
        simp only [baProcessTop]; rw [if_neg hp]
      rw [key]
      obtain ⟨hid, hQ⟩ := hq (id, Q) (by simp)
      obtain ⟨e1, e2, _⟩ := baAddFromQueue_spec ops h nb st id Q hi hid hQ
      obtain ⟨e3, e4⟩ := ih _ e2 (fun p hp => hq p (by simp [hp]))
      refine ⟨?_, e4⟩
      rw [e3, e1]
      simp only [pendSum]
      module

theorem baConflict_spec (ops : GOps G) (h : LawfulBA ops) (nb batchSize : Nat) (st : BAState G) (id : Nat) (Q : G)
    (hi : BAInv nb st) (hid : id < nb) (hQ : Q ≠ 0) :
    baV (baConflict ops batchSize st id Q) = baV st + ((id:ℤ) + 1) • Q ∧ BAInv nb (baConflict ops batchSize st id Q) := by
  have hi' : BAInv nb { st with queue := (id, Q) :: st.queue } :=
    ⟨hi.lenB, hi.lenJ, hi.pend, by
      intro p hp
      simp only [List.mem_cons] at hp
      rcases hp with rfl | hp
      · exact ⟨hid, hQ⟩
      · exact hi.que p hp⟩
  have hv : baV { st with queue := (id, Q) :: st.queue } = baV st + ((id:ℤ) + 1) • Q := by
    simp only [baV, baV0, pendSum]
    module
  unfold baConflict
  dsimp only
  split
  · obtain ⟨f1, f2, _, _⟩ := baFlush_spec ops h nb _ hi'
    exact ⟨by rw [f1, hv], f2⟩
  · exact ⟨hv, hi'⟩

theorem baAddAndRun_spec (ops : GOps G) (h : LawfulBA ops) (nb batchSize : Nat) (st : BAState G) (id : Nat) (P : G)
    (isAdd : Bool) (hi : BAInv nb st) (hid : id < nb) (hP : P ≠ 0) :
    baV (baAddAndRun ops batchSize st id P isAdd) = baV st + ((id:ℤ) + 1) • (if isAdd then P else -P) ∧
      BAInv nb (baAddAndRun ops batchSize st id P isAdd) := by
  obtain ⟨a1, a2, a3⟩ := baAdd_spec ops h nb st id P isAdd hi hid hP
  have hv : baV (baAdd ops st id P isAdd) = baV st + ((id:ℤ) + 1) • (if isAdd then P else -P) := by
    simp only [baV, a1, a3]
    module
  unfold baAddAndRun
  dsimp only
  split
  · obtain ⟨x1, x2, x3, _⟩ := baExecute_spec ops h nb _ a2
    obtain ⟨t1, t2⟩ := baProcessTop_spec ops h nb (baExecute ops (baAdd ops st id P isAdd)).queue _ x2 x2.que
    refine ⟨?_, t2⟩
    rw [t1, ← hv]
    simp only [baV, x1, x3]
  · exact ⟨hv, a2⟩

theorem decodeDigit_bucket (u : Nat) (h0 : u ≠ 0) (P : G) :
    decodeDigit u • P = ((bucketOf u : ℤ) + 1) • (if (u % 2 == 0) = true then P else -P) := by
  unfold decodeDigit bucketOf
  by_cases he : u % 2 = 0
  · have h1 : 1 ≤ u / 2 := by omega
    simp only [h0, he, if_false, if_true, beq_self_eq_true, Int.ofNat_eq_natCast]
    push_cast [h1]
    module
  · have hb : (u % 2 == 0) = false := by simpa using he
    simp only [h0, he, hb, if_false, Bool.false_eq_true, Int.ofNat_eq_natCast]
    module

theorem baStep_spec (ops : GOps G) (h : LawfulBA ops) (nb batchSize : Nat) (st : BAState G) (P : G) (u : Nat)
    (hi : BAInv nb st) (hr : u ≠ 0 → bucketOf u < nb) :
    baV (baStep ops batchSize st P u) = baV st + decodeDigit u • P ∧ BAInv nb (baStep ops batchSize st P u) := by
  unfold baStep
  split
  · rename_i hc
    simp only [Bool.or_eq_true, decide_eq_true_eq] at hc
    refine ⟨?_, hi⟩
    rcases hc with h0 | hz
    · simp [h0, decodeDigit]
    · simp [(h.isZero_iff _).1 hz]
  · rename_i hc
    simp only [Bool.or_eq_true, decide_eq_true_eq, not_or] at hc
    obtain ⟨h0, hz⟩ := hc
    have hP : P ≠ 0 := fun e => hz ((h.isZero_iff _).2 e)
    have hid := hr h0
    dsimp only
    rw [decodeDigit_bucket u h0 P]
    split
    · have hQ : (if (u % 2 == 0) = true then P else ops.neg P) ≠ 0 := by
        rw [h.law.neg]; split
        · exact hP
        · exact neg_ne_zero.mpr hP
      have := baConflict_spec ops h nb batchSize st (bucketOf u) _ hi hid hQ
      rw [h.law.neg] at this ⊢
      exact this
    · exact baAddAndRun_spec ops h nb batchSize st (bucketOf u) P (u % 2 == 0) hi hid hP

theorem baRun_spec (ops : GOps G) (h : LawfulBA ops) (nb batchSize : Nat) : ∀ (Ps : List G) (us : List Nat) (st : BAState G),
    BAInv nb st → (∀ u ∈ us, u ≠ 0 → bucketOf u < nb) →
    baV ((Ps.zip us).foldl (fun st pu => baStep ops batchSize st pu.1 pu.2) st) = baV st + digitSum Ps us ∧
    BAInv nb ((Ps.zip us).foldl (fun st pu => baStep ops batchSize st pu.1 pu.2) st) := by
  intro Ps
  induction Ps with
  | nil => intro us st hi _; simp [digitSum_nil_left, hi]
  | cons P Ps ih =>
    intro us st hi hr
    cases us with
    | nil => simp [digitSum_nil_right, hi]
    | cons u us =>
      obtain ⟨s1, s2⟩ := baStep_spec ops h nb batchSize st P u hi (hr u (by simp))
      obtain ⟨r1, r2⟩ := ih us _ s2 (fun u' hu' => hr u' (by simp [hu']))
      simp only [List.zip_cons_cons, List.foldl_cons]
      refine ⟨?_, r2⟩
      rw [r1, s1]
      simp only [digitSum]
      module

theorem reduceAux2_eq (ops : GOps G) (h : Lawful ops) : ∀ (bs je : List G), bs.length = je.length →
    reduceAux2 ops bs je = (bs.sum + je.sum, wsumFrom 0 bs + wsumFrom 0 je) := by
  intro bs
  induction bs with
  | nil =>
    intro je hl
    cases je with
    | nil => simp [reduceAux2, wsumFrom, h.zero]
    | cons _ _ => simp at hl
  | cons b bs ih =>
    intro je hl
    cases je with
    | nil => simp at hl
    | cons j je =>
      have e : reduceAux2 ops (b :: bs) (j :: je) =
          (ops.add (ops.add (reduceAux2 ops bs je).1 b) j,
           ops.add (reduceAux2 ops bs je).2 (ops.add (ops.add (reduceAux2 ops bs je).1 b) j)) := rfl
      rw [e, ih je (by simpa using hl)]
      simp only [h.add, wsumFrom, List.sum_cons, wsumFrom_succ]
      rw [Prod.mk.injEq]
      constructor
      · module
      · push_cast; module

/-- **batch-affine processor**: the chunk total is `Σ_i d_i • P_i` for every batch size, every order of
conflicts, doublings and cancellations -/
theorem processChunkBatchAffine_eq (ops : GOps G) (h : LawfulBA ops) (batchSize nb : Nat) (Ps : List G) (us : List Nat)
    (hr : ∀ u ∈ us, u ≠ 0 → bucketOf u < nb) :
    processChunkBatchAffine ops batchSize nb Ps us = digitSum Ps us := by
  have hinit : BAInv nb (baInit ops nb : BAState G) := ⟨by simp [baInit], by simp [baInit], by simp [baInit], by simp [baInit]⟩
  have hv0 : baV (baInit ops nb : BAState G) = 0 := by
    simp [baV, baV0, baInit, pendSum, h.law.zero, wsumFrom_replicate_zero]
  obtain ⟨r1, r2⟩ : baV (baRun ops batchSize nb Ps us) = baV (baInit ops nb) + digitSum Ps us ∧
      BAInv nb (baRun ops batchSize nb Ps us) := baRun_spec ops h nb batchSize Ps us _ hinit hr
  obtain ⟨x1, x2, x3, x4⟩ := baExecute_spec ops h nb _ r2
  obtain ⟨f1, f2, f3, f4⟩ := baFlush_spec ops h nb _ x2
  unfold processChunkBatchAffine
  dsimp only
  rw [reduceAux2_eq ops h.law _ _ (by rw [f2.lenB, f2.lenJ])]
  show wsumFrom 0 _ + wsumFrom 0 _ = _
  have e : baV (baFlush ops (baExecute ops (baRun ops batchSize nb Ps us))) =
      wsumFrom 0 (baFlush ops (baExecute ops (baRun ops batchSize nb Ps us))).buckets +
      wsumFrom 0 (baFlush ops (baExecute ops (baRun ops batchSize nb Ps us))).bucketsJE := by
    simp only [baV, baV0]
    rw [f3, f4, x4]
    simp [pendSum]
  rw [← e, f1]
  simp only [baV, x1, x3]
  rw [← baV, r1, hv0]
  simp

end

end GV.MSM
