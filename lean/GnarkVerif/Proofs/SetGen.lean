import GnarkVerif.Proofs.Conv
import GnarkVerif.Gen.Imp.SetAll
/-
Helper lemmas for C08_set_gen: `SetBigInt` / `SetString` / `SetInt64` of Gen/Imp/Set_generic.lean (REGENERATED from
/repo/ecc/bn254/fr/element.go by tools/goslp mode "imp", pass Set, with the package constants as parameters; Gen/Imp/SetAll.lean checks
that the translation of each of the 23 field packages is this text at its own constants) compute the lenient setters of Model/Conv.lean.
Abstraction function: `val : F → Nat` (the integer an element value stands for).
-/
namespace GV.SetGen
open GV GV.GoImp GV.Conv GV.Gen.Imp GV.Gen.Imp.Set_generic

/-- the characters of a Go string (bytes) -/
def charsOf (s : GoString) : List Char := s.map (fun b => Char.ofNat b.toNat)

/-! ### int64 arithmetic -/

theorem xor_allOnes (a : Nat) (ha : a < 2 ^ 64) : a ^^^ (2 ^ 64 - 1) = 2 ^ 64 - 1 - a := by
  apply Nat.eq_of_testBit_eq
  intro i
  rw [Nat.testBit_xor, Nat.testBit_two_pow_sub_one, show 2 ^ 64 - 1 - a = 2 ^ 64 - (a + 1) by omega,
    Nat.testBit_two_pow_sub_succ ha]
  by_cases hi : i < 64
  · simp [hi]
  · have : a < 2 ^ i := lt_of_lt_of_le ha (Nat.pow_le_pow_right (by decide) (by omega))
    simp [hi, Nat.testBit_lt_two_pow this]

theorem shiftRight63 (v : Int) : Int.shiftRight v 63 = v / 9223372036854775808 := by
  show v >>> 63 = _
  rw [Int.shiftRight_eq_div_pow]; rfl

/-- `uint64((v ^ m) - m)` with `m = v >> 63` is `|v|` for every int64 (also for -2^63) -/
theorem abs64 (v : Int) (h1 : -2 ^ 63 ≤ v) (h2 : v < 2 ^ 63) :
    uintOfInt (wrapS64 (xorS64 v (Int.shiftRight v 63) - Int.shiftRight v 63)) = v.natAbs ∧
    (Int.shiftRight v 63 != 0) = decide (v < 0) := by
  rw [shiftRight63]
  by_cases hv : 0 ≤ v
  · have hm : v / 9223372036854775808 = 0 := by omega
    have e1 : (v % 2 ^ 64).toNat = v.toNat := by omega
    have hd : decide (v < 0) = false := by simp; omega
    rw [hm, hd]
    refine ⟨?_, by decide⟩
    simp only [xorS64, e1, show ((0 : Int) % 2 ^ 64).toNat = 0 by decide, Nat.xor_zero, wrapS64, uintOfInt, Int.ofNat_eq_natCast]
    omega
  · have hm : v / 9223372036854775808 = -1 := by omega
    have hd : decide (v < 0) = true := by simp; omega
    rw [hm, hd]
    refine ⟨?_, by decide⟩
    have e1 : (v % 2 ^ 64).toNat < 2 ^ 64 := by omega
    have e2 : ((-1 : Int) % 2 ^ 64).toNat = 2 ^ 64 - 1 := by decide
    simp only [xorS64, e2, xor_allOnes _ e1, wrapS64, uintOfInt, Int.ofNat_eq_natCast]
    omega

section
variable {F : Type} [Inhabited F] (zeroF : F) (setBigIntF : Int → F) (val : F → Nat) (q : Nat)

/-- the dispatch of `SetBigInt`: `v = q` ↦ zero, `0 ≤ v < q` ↦ `setBigInt v`, everything else ↦ `setBigInt (v mod q)` -/
theorem setBigInt_cases (bits m : Int) (z : F) (v : Int) :
    SetBigInt bits m zeroF setBigIntF z v =
      if v = m then zeroF else if 0 ≤ v ∧ v < m then setBigIntF v else setBigIntF (v % m) := by
  unfold SetBigInt bigCmp bigMod
  simp only
  by_cases h1 : v < m
  · have hne : v ≠ m := by omega
    by_cases h0 : v < 0
    · simp [h1, h0, hne]
    · by_cases hz : v = 0
      · subst hz; simp [h1, hne]
      · have : (0 ≤ v ∧ v < m) := by omega
        simp [h1, h0, hne, this, hz]
  · by_cases h2 : v = m
    · simp [h2]
    · simp [h1, h2]

variable (hq : 0 < q) (hzero : val zeroF = 0) (hset : ∀ v : Int, 0 ≤ v → v < q → val (setBigIntF v) = v.toNat)
include hq hzero hset

/-- `SetBigInt v` is the model's `setBigInt q v` (= `v mod q`) for EVERY integer v -/
theorem setBigInt_val (bits : Int) (z : F) (v : Int) :
    val (SetBigInt bits (q : Int) zeroF setBigIntF z v) = Conv.setBigInt q v := by
  have hm : Conv.setBigInt q v = (v % (q : Int)).toNat := by
    have := setBigInt_cast q hq v
    omega
  rw [hm, setBigInt_cases]
  have hqi : (0 : Int) < (q : Int) := by omega
  by_cases h1 : v = (q : Int)
  · simp [h1, hzero]
  · by_cases h2 : 0 ≤ v ∧ v < (q : Int)
    · simp only [h1, h2, and_self, if_true, if_false]
      rw [hset v h2.1 h2.2, Int.emod_eq_of_lt h2.1 h2.2]
    · simp only [h1, h2, if_false]
      rw [hset _ (Int.emod_nonneg v (by omega)) (Int.emod_lt_of_pos v hqi)]

omit hq hzero hset in
/-- `SetString`: when `big.Int.SetString(number, 0)` fails: the error, a nil pointer, z untouched; otherwise z := SetBigInt(value) -/
theorem setString_eq (bits : Int) (parse : GoString → Int × Bool) (z : F) (number : GoString) :
    SetString bits (q : Int) zeroF setBigIntF parse z number =
      if (parse number).2 then
        (SetBigInt bits (q : Int) zeroF setBigIntF z (parse number).1,
          some (SetBigInt bits (q : Int) zeroF setBigIntF z (parse number).1), GoImp.Err.nil)
      else (z, none, GoImp.Err.sentinel ("Element.SetString failed -> can't parse number into a big.Int " ++ strOf number)) := by
  unfold SetString
  rcases parse number with ⟨v, ok⟩
  cases ok <;> simp

omit hq hzero hset in
/-- `SetInt64`: `SetUint64(|v|)`, negated when v < 0 -/
theorem setInt64_eq (bits m : Int) (setU : Nat → F) (neg : F → F) (z : F) (v : Int) (h1 : -2 ^ 63 ≤ v) (h2 : v < 2 ^ 63) :
    SetInt64 bits m zeroF setBigIntF setU neg z v = if v < 0 then neg (setU v.natAbs) else setU v.natAbs := by
  obtain ⟨ha, hb⟩ := abs64 v h1 h2
  unfold SetInt64
  simp only [ha, hb]
  by_cases hv : v < 0 <;> simp [hv]

end

end GV.SetGen
