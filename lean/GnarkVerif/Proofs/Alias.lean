import GnarkVerif.Model.Alias
/-
Helper lemmas for C19: the simulation between the aliased run and the run on distinct objects.
-/
namespace GV.Alias
variable {V : Type}

@[simp] theorem Mem.set_same (m : Mem V) (c : Cell) (v : V) : m.set c v c = v := by simp [Mem.set]

theorem Mem.set_other (m : Mem V) (c c' : Cell) (v : V) (h : c' ≠ c) : m.set c v c' = m c' := by
  simp [Mem.set, h]

@[simp] theorem resolve_param (π : Pattern) (i f : Nat) : resolve π (.param i f) = .obj (π i) f := rfl
@[simp] theorem resolve_loc (π : Pattern) (k : Nat) : resolve π (.loc k) = .loc k := rfl

/-- simulation invariant: `M` is the aliased memory, `M'` the memory with distinct parameter objects, `W` the receiver
components written so far -/
structure Sim (π : Pattern) (W : List Nat) (M M' : Mem V) : Prop where
  loc : ∀ k, M (.loc k) = M' (.loc k)
  written : ∀ f, f ∈ W → M (.obj (π 0) f) = M' (.obj 0 f)
  fresh : ∀ f, f ∉ W → ∀ i, M (.obj (π i) f) = M' (.obj i f)

theorem sim_init (π : Pattern) (m : Mem V) : Sim π [] m (pull π m) :=
  ⟨fun _ => rfl, (fun _ h => nomatch h), fun _ _ _ => rfl⟩

/-- the receiver always corresponds, written or not -/
theorem Sim.recv {π : Pattern} {W : List Nat} {M M' : Mem V} (h : Sim π W M M') (f : Nat) :
    M (.obj (π 0) f) = M' (.obj 0 f) := by
  by_cases hf : f ∈ W
  · exact h.written f hf
  · exact h.fresh f hf 0

theorem Sim.read {π : Pattern} {W : List Nat} {M M' : Mem V} (h : Sim π W M M') (s : Name)
    (hs : srcOK W s = true) : M (resolve π s) = M' (resolve id s) := by
  cases s with
  | loc k => exact h.loc k
  | param i f =>
    cases i with
    | zero => exact h.recv f
    | succ j =>
      have hf : f ∉ W := by
        simpa [srcOK] using hs
      exact h.fresh f hf (j + 1)

theorem Sim.value {π : Pattern} {W : List Nat} {M M' : Mem V} (h : Sim π W M M') (I : Nat → List V → V)
    (p : Prim) (hs : p.srcs.all (srcOK W) = true) :
    I p.op (p.srcs.map fun s => M (resolve π s)) = I p.op (p.srcs.map fun s => M' (resolve id s)) := by
  congr 1
  apply List.map_congr_left
  intro s hmem
  exact h.read s (List.all_eq_true.mp hs s hmem)

theorem Sim.step_loc {π : Pattern} {W : List Nat} {M M' : Mem V} (h : Sim π W M M') (I : Nat → List V → V)
    (p : Prim) (k : Nat) (hd : p.dst = .loc k) (hs : p.srcs.all (srcOK W) = true) :
    Sim π W (step I π M p) (step I id M' p) := by
  have hv := h.value I p hs
  refine ⟨?_, ?_, ?_⟩
  · intro k'
    unfold step
    rw [hd, hv]
    simp only [resolve_loc]
    by_cases hk : k' = k
    · subst hk; simp
    · rw [Mem.set_other _ _ _ _ (by simpa using hk), Mem.set_other _ _ _ _ (by simpa using hk)]
      exact h.loc k'
  · intro f hf
    unfold step
    rw [hd]
    simp only [resolve_loc]
    rw [Mem.set_other _ _ _ _ (by simp), Mem.set_other _ _ _ _ (by simp)]
    exact h.written f hf
  · intro f hf i
    unfold step
    rw [hd]
    simp only [resolve_loc]
    rw [Mem.set_other _ _ _ _ (by simp), Mem.set_other _ _ _ _ (by simp)]
    exact h.fresh f hf i

theorem Sim.step_recv {π : Pattern} {W : List Nat} {M M' : Mem V} (h : Sim π W M M') (I : Nat → List V → V)
    (p : Prim) (g : Nat) (hd : p.dst = .param 0 g) (hs : p.srcs.all (srcOK W) = true) :
    Sim π (g :: W) (step I π M p) (step I id M' p) := by
  have hv := h.value I p hs
  refine ⟨?_, ?_, ?_⟩
  · intro k
    unfold step
    rw [hd]
    simp only [resolve_param]
    rw [Mem.set_other _ _ _ _ (by simp), Mem.set_other _ _ _ _ (by simp)]
    exact h.loc k
  · intro f hf
    unfold step
    rw [hd, hv]
    simp only [resolve_param, id_eq]
    by_cases hfg : f = g
    · subst hfg; simp
    · rw [Mem.set_other _ _ _ _ (by simpa using hfg), Mem.set_other _ _ _ _ (by simpa using hfg)]
      have hfW : f ∈ W := by
        cases hf with
        | head => exact absurd rfl hfg
        | tail _ h' => exact h'
      exact h.written f hfW
  · intro f hf i
    have hfg : f ≠ g := fun e => hf (e ▸ List.mem_cons_self)
    have hfW : f ∉ W := fun e => hf (List.mem_cons_of_mem _ e)
    unfold step
    rw [hd]
    simp only [resolve_param, id_eq]
    rw [Mem.set_other _ _ _ _ (by simp [hfg]), Mem.set_other _ _ _ _ (by simp [hfg])]
    exact h.fresh f hfW i

/-- a checked body keeps the two runs in simulation -/
theorem sim_run (I : Nat → List V → V) (π : Pattern) (b : Body) :
    ∀ (W : List Nat) (M M' : Mem V), copyInAux W b = true → Sim π W M M' →
      ∃ W', Sim π W' (run I π b M) (run I id b M') := by
  induction b with
  | nil => intro W M M' _ h; exact ⟨W, h⟩
  | cons p b ih =>
    intro W M M' hc h
    simp only [copyInAux, Bool.and_eq_true] at hc
    obtain ⟨hs, hrest⟩ := hc
    simp only [run, List.foldl_cons]
    cases hd : p.dst with
    | loc k =>
      rw [hd] at hrest
      exact ih W _ _ hrest (h.step_loc I p k hd hs)
    | param i g =>
      cases i with
      | zero =>
        rw [hd] at hrest
        exact ih (g :: W) _ _ hrest (h.step_recv I p g hd hs)
      | succ j =>
        rw [hd] at hrest
        exact absurd hrest (by simp)

/-- a checked body writes nothing outside the receiver's object and the locals -/
theorem run_frame (I : Nat → List V → V) (π : Pattern) (b : Body) :
    ∀ (W : List Nat) (M : Mem V), copyInAux W b = true →
      ∀ o f, o ≠ π 0 → run I π b M (.obj o f) = M (.obj o f) := by
  induction b with
  | nil => intro W M _ o f _; rfl
  | cons p b ih =>
    intro W M hc o f ho
    simp only [copyInAux, Bool.and_eq_true] at hc
    obtain ⟨_, hrest⟩ := hc
    simp only [run, List.foldl_cons]
    cases hd : p.dst with
    | loc k =>
      rw [hd] at hrest
      have := ih W (step I π M p) hrest o f ho
      simp only [run] at this
      rw [this]
      simp only [step, hd, resolve]
      exact Mem.set_other _ _ _ _ (by simp)
    | param i g =>
      cases i with
      | zero =>
        rw [hd] at hrest
        have := ih (g :: W) (step I π M p) hrest o f ho
        simp only [run] at this
        rw [this]
        simp only [step, hd, resolve]
        exact Mem.set_other _ _ _ _ (by simp [ho])
      | succ j =>
        rw [hd] at hrest
        exact absurd hrest (by simp)

/-- the coarse discipline implies the component-wise one -/
theorem strict_aux (b : Body) :
    ∀ (w : Bool) (W : List Nat), (w = false → W = []) → copyInStrictAux w b = true → copyInAux W b = true := by
  induction b with
  | nil => intro _ _ _ _; rfl
  | cons p b ih =>
    intro w W hw hc
    simp only [copyInStrictAux, Bool.and_eq_true] at hc
    obtain ⟨hs, hrest⟩ := hc
    have hsrc : p.srcs.all (srcOK W) = true := by
      rw [List.all_eq_true]
      intro s hmem
      cases w with
      | false =>
        rw [hw rfl]
        cases s with
        | loc k => rfl
        | param i f => cases i <;> simp [srcOK]
      | true =>
        have hloc : p.srcs.all (fun s => !isParam s) = true := by simpa using hs
        have := List.all_eq_true.mp hloc s hmem
        cases s with
        | loc k => rfl
        | param i f => simp [isParam] at this
    simp only [copyInAux, Bool.and_eq_true]
    refine ⟨hsrc, ?_⟩
    cases hd : p.dst with
    | loc k =>
      rw [hd] at hrest
      exact ih w W hw hrest
    | param i g =>
      cases i with
      | zero =>
        rw [hd] at hrest
        exact ih true (g :: W) (fun e => by cases e) hrest
      | succ j =>
        rw [hd] at hrest
        exact absurd hrest (by simp)

/-- the element-wise loop passes the check for every length -/
theorem vecFrom_ok (op : Nat) :
    ∀ (n s : Nat) (W : List Nat), (∀ w, w ∈ W → w < s) → copyInAux W (vecFrom op s n) = true := by
  intro n
  induction n with
  | zero => intro s W _; rfl
  | succ n ih =>
    intro s W hW
    have hs : s ∉ W := fun h => Nat.lt_irrefl _ (hW s h)
    simp only [vecFrom, copyInAux, List.all_cons, List.all_nil, srcOK, Bool.and_true, Bool.and_eq_true]
    refine ⟨⟨by simpa using hs, by simpa using hs⟩, ?_⟩
    apply ih
    intro w hw
    cases hw with
    | head => exact Nat.lt_succ_self _
    | tail _ h' => exact Nat.lt_succ_of_lt (hW w h')

/-! ### interior aliasing -/

theorem place_recv_ne (ρ : Placement) (hρ : recvInjective ρ) {f f' : Nat} (h : f ≠ f') :
    place ρ (.param 0 f) ≠ place ρ (.param 0 f') := by
  intro e
  apply h
  apply hρ
  simp only [place] at e
  injection e with h1 h2
  exact Prod.ext h1 h2

theorem interior_set_recv (ρ : Placement) (hρ : recvInjective ρ) (M M' : Mem V) (f0 : Nat) (v : V)
    (hl : ∀ k, M (.loc k) = M' (.loc k)) (hr : ∀ f, M (place ρ (.param 0 f)) = M' (.obj 0 f)) :
    (∀ k, (M.set (place ρ (.param 0 f0)) v) (.loc k) = (M'.set (.obj 0 f0) v) (.loc k)) ∧
    (∀ f, (M.set (place ρ (.param 0 f0)) v) (place ρ (.param 0 f)) = (M'.set (.obj 0 f0) v) (.obj 0 f)) := by
  constructor
  · intro k
    rw [Mem.set_other _ _ _ _ (by simp [place]), Mem.set_other _ _ _ _ (by simp)]
    exact hl k
  · intro f
    by_cases h : f = f0
    · subst h; simp
    · rw [Mem.set_other _ _ _ _ (place_recv_ne ρ hρ h), Mem.set_other _ _ _ _ (by simp [h])]
      exact hr f

theorem interior_set_loc (ρ : Placement) (M M' : Mem V) (k0 : Nat) (v : V)
    (hl : ∀ k, M (.loc k) = M' (.loc k)) :
    (∀ k, (M.set (.loc k0) v) (.loc k) = (M'.set (.loc k0) v) (.loc k)) ∧
    (∀ i f, (M.set (.loc k0) v) (place ρ (.param i f)) = M (place ρ (.param i f))) ∧
    (∀ i f, (M'.set (.loc k0) v) (.obj i f) = M' (.obj i f)) := by
  refine ⟨?_, ?_, ?_⟩
  · intro k
    by_cases h : k = k0
    · subst h; simp
    · rw [Mem.set_other _ _ _ _ (by simp [h]), Mem.set_other _ _ _ _ (by simp [h])]
      exact hl k
  · intro i f
    exact Mem.set_other _ _ _ _ (by simp [place])
  · intro i f
    exact Mem.set_other _ _ _ _ (by simp)

/-- after the first write to a receiver component only locals are read -/
theorem interior_phase2 (I : Nat → List V → V) (ρ : Placement) (hρ : recvInjective ρ) (b : Body) :
    ∀ (M M' : Mem V), copyInStrictAux true b = true →
      (∀ k, M (.loc k) = M' (.loc k)) → (∀ f, M (place ρ (.param 0 f)) = M' (.obj 0 f)) →
      ∀ f, runAt I ρ b M (place ρ (.param 0 f)) = run I id b M' (.obj 0 f) := by
  induction b with
  | nil => intro M M' _ _ hr f; exact hr f
  | cons p b ih =>
    intro M M' hc hl hr f
    simp only [copyInStrictAux, Bool.and_eq_true] at hc
    obtain ⟨hs, hrest⟩ := hc
    have hloc : p.srcs.all (fun s => !isParam s) = true := by simpa using hs
    have hv : (p.srcs.map fun s => M (place ρ s)) = (p.srcs.map fun s => M' (resolve id s)) := by
      apply List.map_congr_left
      intro s hmem
      have := List.all_eq_true.mp hloc s hmem
      cases s with
      | loc k => exact hl k
      | param i f => simp [isParam] at this
    have e1 : stepAt I ρ M p = M.set (place ρ p.dst) (I p.op (p.srcs.map fun s => M' (resolve id s))) := by
      unfold stepAt; rw [hv]
    have e2 : step I id M' p = M'.set (resolve id p.dst) (I p.op (p.srcs.map fun s => M' (resolve id s))) := rfl
    simp only [runAt, run, List.foldl_cons]
    cases hd : p.dst with
    | loc k0 =>
      rw [hd] at hrest
      obtain ⟨h1, h2, h3⟩ := interior_set_loc ρ M M' k0 (I p.op (p.srcs.map fun s => M' (resolve id s))) hl
      have := ih (stepAt I ρ M p) (step I id M' p) hrest
        (by intro k; rw [e1, e2, hd]; exact h1 k)
        (by intro g; rw [e1, e2, hd]
            exact (h2 0 g).trans ((hr g).trans (h3 0 g).symm)) f
      exact this
    | param i g0 =>
      cases i with
      | zero =>
        rw [hd] at hrest
        obtain ⟨h1, h2⟩ := interior_set_recv ρ hρ M M' g0 (I p.op (p.srcs.map fun s => M' (resolve id s))) hl hr
        have := ih (stepAt I ρ M p) (step I id M' p) hrest
          (by intro k; rw [e1, e2, hd]; exact h1 k)
          (by intro g; rw [e1, e2, hd]; exact h2 g) f
        exact this
      | succ j =>
        rw [hd] at hrest
        exact absurd hrest (by simp)

/-- before the first write to a receiver component every parameter component still holds its initial value -/
theorem interior_phase1 (I : Nat → List V → V) (ρ : Placement) (hρ : recvInjective ρ) (b : Body) :
    ∀ (M M' : Mem V), copyInStrictAux false b = true →
      (∀ k, M (.loc k) = M' (.loc k)) → (∀ i f, M (place ρ (.param i f)) = M' (.obj i f)) →
      ∀ f, runAt I ρ b M (place ρ (.param 0 f)) = run I id b M' (.obj 0 f) := by
  induction b with
  | nil => intro M M' _ _ hr f; exact hr 0 f
  | cons p b ih =>
    intro M M' hc hl hr f
    simp only [copyInStrictAux, Bool.and_eq_true] at hc
    obtain ⟨_, hrest⟩ := hc
    have hv : (p.srcs.map fun s => M (place ρ s)) = (p.srcs.map fun s => M' (resolve id s)) := by
      apply List.map_congr_left
      intro s _
      cases s with
      | loc k => exact hl k
      | param i f => exact hr i f
    have e1 : stepAt I ρ M p = M.set (place ρ p.dst) (I p.op (p.srcs.map fun s => M' (resolve id s))) := by
      unfold stepAt; rw [hv]
    have e2 : step I id M' p = M'.set (resolve id p.dst) (I p.op (p.srcs.map fun s => M' (resolve id s))) := rfl
    simp only [runAt, run, List.foldl_cons]
    cases hd : p.dst with
    | loc k0 =>
      rw [hd] at hrest
      obtain ⟨h1, h2, h3⟩ := interior_set_loc ρ M M' k0 (I p.op (p.srcs.map fun s => M' (resolve id s))) hl
      have := ih (stepAt I ρ M p) (step I id M' p) hrest
        (by intro k; rw [e1, e2, hd]; exact h1 k)
        (by intro i g; rw [e1, e2, hd]
            exact (h2 i g).trans ((hr i g).trans (h3 i g).symm)) f
      exact this
    | param i g0 =>
      cases i with
      | zero =>
        rw [hd] at hrest
        obtain ⟨h1, h2⟩ := interior_set_recv ρ hρ M M' g0 (I p.op (p.srcs.map fun s => M' (resolve id s))) hl (hr 0)
        have := interior_phase2 I ρ hρ b (stepAt I ρ M p) (step I id M' p) hrest
          (by intro k; rw [e1, e2, hd]; exact h1 k)
          (by intro g; rw [e1, e2, hd]; exact h2 g) f
        exact this
      | succ j =>
        rw [hd] at hrest
        exact absurd hrest (by simp)

/-! ### typed interior aliasing -/

structure SimM (low : Nat → Bool) (π : Pattern) (ρ : Placement) (W : List Nat) (M M' : Mem V) : Prop where
  loc : ∀ k, M (.loc k) = M' (.loc k)
  recv : ∀ f, M (.obj (π 0) f) = M' (.obj 0 f)
  big : ∀ i f, low (i + 1) = false → f ∉ W → M (.obj (π (i + 1)) f) = M' (.obj (i + 1) f)
  lowp : W = [] → ∀ i f, low i = true → M (place ρ (.param i f)) = M' (.obj i f)

theorem place_big {low : Nat → Bool} {π : Pattern} {ρ : Placement} (hm : mixedPlacement low π ρ) (i f : Nat)
    (h : low i = false) : place ρ (.param i f) = .obj (π i) f := by
  simp only [place, hm.2 i h f]

theorem SimM.read {low : Nat → Bool} {π : Pattern} {ρ : Placement} {W : List Nat} {M M' : Mem V}
    (hm : mixedPlacement low π ρ) (h : SimM low π ρ W M M') (s : Name) (hs : srcOKMixed low W s = true) :
    M (place ρ s) = M' (resolve id s) := by
  cases s with
  | loc k => exact h.loc k
  | param i f =>
    cases i with
    | zero => rw [place_big hm 0 f hm.1]; exact h.recv f
    | succ j =>
      cases hl : low (j + 1) with
      | true =>
        simp only [srcOKMixed, hl, if_true] at hs
        have hW : W = [] := List.isEmpty_iff.mp hs
        exact h.lowp hW (j + 1) f hl
      | false =>
        simp only [srcOKMixed, hl] at hs
        have hW : f ∉ W := by simpa using hs
        rw [place_big hm (j + 1) f hl]
        exact h.big j f hl hW

theorem SimM.step_loc {low : Nat → Bool} {π : Pattern} {ρ : Placement} {W : List Nat} {M M' : Mem V}
    (h : SimM low π ρ W M M') (k0 : Nat) (v : V) : SimM low π ρ W (M.set (.loc k0) v) (M'.set (.loc k0) v) where
  loc := by
    intro k
    by_cases e : k = k0
    · subst e; simp
    · rw [Mem.set_other _ _ _ _ (by simp [e]), Mem.set_other _ _ _ _ (by simp [e])]; exact h.loc k
  recv := by
    intro f
    rw [Mem.set_other _ _ _ _ (by simp), Mem.set_other _ _ _ _ (by simp)]; exact h.recv f
  big := by
    intro i f hl hW
    rw [Mem.set_other _ _ _ _ (by simp), Mem.set_other _ _ _ _ (by simp)]; exact h.big i f hl hW
  lowp := by
    intro hW i f hl
    rw [Mem.set_other _ _ _ _ (by simp [place]), Mem.set_other _ _ _ _ (by simp)]; exact h.lowp hW i f hl

theorem SimM.step_recv {low : Nat → Bool} {π : Pattern} {ρ : Placement} {W : List Nat} {M M' : Mem V}
    (h : SimM low π ρ W M M') (f0 : Nat) (v : V) :
    SimM low π ρ (f0 :: W) (M.set (.obj (π 0) f0) v) (M'.set (.obj 0 f0) v) where
  loc := by
    intro k
    rw [Mem.set_other _ _ _ _ (by simp), Mem.set_other _ _ _ _ (by simp)]; exact h.loc k
  recv := by
    intro f
    by_cases e : f = f0
    · subst e; simp
    · rw [Mem.set_other _ _ _ _ (by simp [e]), Mem.set_other _ _ _ _ (by simp [e])]; exact h.recv f
  big := by
    intro i f hl hW
    have e : f ≠ f0 := fun e => hW (by simp [e])
    have hW' : f ∉ W := fun m => hW (List.mem_cons_of_mem _ m)
    rw [Mem.set_other _ _ _ _ (by simp [e]), Mem.set_other _ _ _ _ (by simp [e])]; exact h.big i f hl hW'
  lowp := by
    intro hW
    exact absurd hW (by simp)

theorem simM_run (I : Nat → List V → V) (low : Nat → Bool) (π : Pattern) (ρ : Placement) (hm : mixedPlacement low π ρ)
    (b : Body) : ∀ (W : List Nat) (M M' : Mem V), copyInMixedAux low W b = true → SimM low π ρ W M M' →
      ∀ f, runAt I ρ b M (.obj (π 0) f) = run I id b M' (.obj 0 f) := by
  induction b with
  | nil => intro W M M' _ h f; exact h.recv f
  | cons p b ih =>
    intro W M M' hc h f
    simp only [copyInMixedAux, Bool.and_eq_true] at hc
    obtain ⟨hs, hrest⟩ := hc
    have hv : (p.srcs.map fun s => M (place ρ s)) = (p.srcs.map fun s => M' (resolve id s)) := by
      apply List.map_congr_left
      intro s hmem
      exact h.read hm s (List.all_eq_true.mp hs s hmem)
    have e1 : stepAt I ρ M p = M.set (place ρ p.dst) (I p.op (p.srcs.map fun s => M' (resolve id s))) := by
      unfold stepAt; rw [hv]
    have e2 : step I id M' p = M'.set (resolve id p.dst) (I p.op (p.srcs.map fun s => M' (resolve id s))) := rfl
    simp only [runAt, run, List.foldl_cons]
    cases hd : p.dst with
    | loc k0 =>
      rw [hd] at hrest
      refine ih W (stepAt I ρ M p) (step I id M' p) hrest ?_ f
      rw [e1, e2, hd]
      exact h.step_loc k0 _
    | param i g0 =>
      cases i with
      | zero =>
        rw [hd] at hrest
        refine ih (g0 :: W) (stepAt I ρ M p) (step I id M' p) hrest ?_ f
        rw [e1, e2, hd, place_big hm 0 g0 hm.1]
        exact h.step_recv g0 _
      | succ j =>
        rw [hd] at hrest
        exact absurd hrest (by simp)

theorem simM_init (low : Nat → Bool) (π : Pattern) (ρ : Placement) (hm : mixedPlacement low π ρ) (m : Mem V) :
    SimM low π ρ [] m (pullAt ρ m) where
  loc := fun _ => rfl
  recv := by intro f; show m (.obj (π 0) f) = m (place ρ (.param 0 f)); rw [place_big hm 0 f hm.1]
  big := by intro i f hl _; show m (.obj (π (i + 1)) f) = m (place ρ (.param (i + 1) f)); rw [place_big hm (i + 1) f hl]
  lowp := fun _ _ _ _ => rfl

end GV.Alias
