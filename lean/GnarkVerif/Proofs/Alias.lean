import GnarkVerif.Model.Alias
/-
Helper lemmas for C19: the simulation between the aliased run and the run on distinct objects.
-/
namespace GV.Alias
variable {V : Type}

@[simp] theorem Mem.set_same (m : Mem V) (c : Cell) (v : V) : m.set c v c = v := by simp [Mem.set]

theorem Mem.set_other (m : Mem V) (c c' : Cell) (v : V) (h : c' ≠ c) : m.set c v c' = m c' := by
  simp [Mem.set, h]

@[simp] theorem resolve_param (π : Pattern) (i f : Nat) : resolve π (.param i f) = .obj (π i) f := rfl
@[simp] theorem resolve_loc (π : Pattern) (k : Nat) : resolve π (.loc k) = .loc k := rfl

/-- simulation invariant: `M` is the aliased memory, `M'` the memory with distinct parameter objects, `W` the receiver
components written so far -/
structure Sim (π : Pattern) (W : List Nat) (M M' : Mem V) : Prop where
  loc : ∀ k, M (.loc k) = M' (.loc k)
  written : ∀ f, f ∈ W → M (.obj (π 0) f) = M' (.obj 0 f)
  fresh : ∀ f, f ∉ W → ∀ i, M (.obj (π i) f) = M' (.obj i f)

theorem sim_init (π : Pattern) (m : Mem V) : Sim π [] m (pull π m) :=
  ⟨fun _ => rfl, (fun _ h => nomatch h), fun _ _ _ => rfl⟩

/-- the receiver always corresponds, written or not -/
theorem Sim.recv {π : Pattern} {W : List Nat} {M M' : Mem V} (h : Sim π W M M') (f : Nat) :
    M (.obj (π 0) f) = M' (.obj 0 f) := by
  by_cases hf : f ∈ W
  · exact h.written f hf
  · exact h.fresh f hf 0

theorem Sim.read {π : Pattern} {W : List Nat} {M M' : Mem V} (h : Sim π W M M') (s : Name)
    (hs : srcOK W s = true) : M (resolve π s) = M' (resolve id s) := by
  cases s with
  | loc k => exact h.loc k
  | param i f =>
    cases i with
    | zero => exact h.recv f
    | succ j =>
      have hf : f ∉ W := by
        simpa [srcOK] using hs
      exact h.fresh f hf (j + 1)

theorem Sim.value {π : Pattern} {W : List Nat} {M M' : Mem V} (h : Sim π W M M') (I : Nat → List V → V)
    (p : Prim) (hs : p.srcs.all (srcOK W) = true) :
    I p.op (p.srcs.map fun s => M (resolve π s)) = I p.op (p.srcs.map fun s => M' (resolve id s)) := by
  congr 1
  apply List.map_congr_left
  intro s hmem
  exact h.read s (List.all_eq_true.mp hs s hmem)

theorem Sim.step_loc {π : Pattern} {W : List Nat} {M M' : Mem V} (h : Sim π W M M') (I : Nat → List V → V)
    (p : Prim) (k : Nat) (hd : p.dst = .loc k) (hs : p.srcs.all (srcOK W) = true) :
    Sim π W (step I π M p) (step I id M' p) := by
  have hv := h.value I p hs
  refine ⟨?_, ?_, ?_⟩
  · intro k'
    unfold step
    rw [hd, hv]
    simp only [resolve_loc]
    by_cases hk : k' = k
    · subst hk; simp
    · rw [Mem.set_other _ _ _ _ (by simpa using hk), Mem.set_other _ _ _ _ (by simpa using hk)]
      exact h.loc k'
  · intro f hf
    unfold step
    rw [hd]
    simp only [resolve_loc]
    rw [Mem.set_other _ _ _ _ (by simp), Mem.set_other _ _ _ _ (by simp)]
    exact h.written f hf
  · intro f hf i
    unfold step
    rw [hd]
    simp only [resolve_loc]
    rw [Mem.set_other _ _ _ _ (by simp), Mem.set_other _ _ _ _ (by simp)]
    exact h.fresh f hf i

theorem Sim.step_recv {π : Pattern} {W : List Nat} {M M' : Mem V} (h : Sim π W M M') (I : Nat → List V → V)
    (p : Prim) (g : Nat) (hd : p.dst = .param 0 g) (hs : p.srcs.all (srcOK W) = true) :
    Sim π (g :: W) (step I π M p) (step I id M' p) := by
  have hv := h.value I p hs
  refine ⟨?_, ?_, ?_⟩
  · intro k
    unfold step
    rw [hd]
    simp only [resolve_param]
    rw [Mem.set_other _ _ _ _ (by simp), Mem.set_other _ _ _ _ (by simp)]
    exact h.loc k
  · intro f hf
    unfold step
    rw [hd, hv]
    simp only [resolve_param, id_eq]
    by_cases hfg : f = g
    · subst hfg; simp
    · rw [Mem.set_other _ _ _ _ (by simpa using hfg), Mem.set_other _ _ _ _ (by simpa using hfg)]
      have hfW : f ∈ W := by
        cases hf with
        | head => exact absurd rfl hfg
        | tail _ h' => exact h'
      exact h.written f hfW
  · intro f hf i
    have hfg : f ≠ g := fun e => hf (e ▸ List.mem_cons_self)
    have hfW : f ∉ W := fun e => hf (List.mem_cons_of_mem _ e)
    unfold step
    rw [hd]
    simp only [resolve_param, id_eq]
    rw [Mem.set_other _ _ _ _ (by simp [hfg]), Mem.set_other _ _ _ _ (by simp [hfg])]
    exact h.fresh f hfW i

/-- a checked body keeps the two runs in simulation -/
theorem sim_run (I : Nat → List V → V) (π : Pattern) (b : Body) :
    ∀ (W : List Nat) (M M' : Mem V), copyInAux W b = true → Sim π W M M' →
      ∃ W', Sim π W' (run I π b M) (run I id b M') := by
  induction b with
  | nil => intro W M M' _ h; exact ⟨W, h⟩
  | cons p b ih =>
    intro W M M' hc h
    simp only [copyInAux, Bool.and_eq_true] at hc
    obtain ⟨hs, hrest⟩ := hc
    simp only [run, List.foldl_cons]
    cases hd : p.dst with
    | loc k =>
      rw [hd] at hrest
      exact ih W _ _ hrest (h.step_loc I p k hd hs)
    | param i g =>
      cases i with
      | zero =>
        rw [hd] at hrest
        exact ih (g :: W) _ _ hrest (h.step_recv I p g hd hs)
      | succ j =>
        rw [hd] at hrest
        exact absurd hrest (by simp)

/-- a checked body writes nothing outside the receiver's object and the locals -/
theorem run_frame (I : Nat → List V → V) (π : Pattern) (b : Body) :
    ∀ (W : List Nat) (M : Mem V), copyInAux W b = true →
      ∀ o f, o ≠ π 0 → run I π b M (.obj o f) = M (.obj o f) := by
  induction b with
  | nil => intro W M _ o f _; rfl
  | cons p b ih =>
    intro W M hc o f ho
    simp only [copyInAux, Bool.and_eq_true] at hc
    obtain ⟨_, hrest⟩ := hc
    simp only [run, List.foldl_cons]
    cases hd : p.dst with
    | loc k =>
      rw [hd] at hrest
      have := ih W (step I π M p) hrest o f ho
      simp only [run] at this
      rw [this]
      simp only [step, hd, resolve]
      exact Mem.set_other _ _ _ _ (by simp)
    | param i g =>
      cases i with
      | zero =>
        rw [hd] at hrest
        have := ih (g :: W) (step I π M p) hrest o f ho
        simp only [run] at this
        rw [this]
        simp only [step, hd, resolve]
        exact Mem.set_other _ _ _ _ (by simp [ho])
      | succ j =>
        rw [hd] at hrest
        exact absurd hrest (by simp)

/-- the coarse discipline implies the component-wise one -/
theorem strict_aux (b : Body) :
    ∀ (w : Bool) (W : List Nat), (w = false → W = []) → copyInStrictAux w b = true → copyInAux W b = true := by
  induction b with
  | nil => intro _ _ _ _; rfl
  | cons p b ih =>
    intro w W hw hc
    simp only [copyInStrictAux, Bool.and_eq_true] at hc
    obtain ⟨hs, hrest⟩ := hc
    have hsrc : p.srcs.all (srcOK W) = true := by
      rw [List.all_eq_true]
      intro s hmem
      cases w with
      | false =>
        rw [hw rfl]
        cases s with
        | loc k => rfl
        | param i f => cases i <;> simp [srcOK]
      | true =>
        have hloc : p.srcs.all (fun s => !isParam s) = true := by simpa using hs
        have := List.all_eq_true.mp hloc s hmem
        cases s with
        | loc k => rfl
        | param i f => simp [isParam] at this
    simp only [copyInAux, Bool.and_eq_true]
    refine ⟨hsrc, ?_⟩
    cases hd : p.dst with
    | loc k =>
      rw [hd] at hrest
      exact ih w W hw hrest
    | param i g =>
      cases i with
      | zero =>
        rw [hd] at hrest
        exact ih true (g :: W) (fun e => by cases e) hrest
      | succ j =>
        rw [hd] at hrest
        exact absurd hrest (by simp)

/-- the element-wise loop passes the check for every length -/
theorem vecFrom_ok (op : Nat) :
    ∀ (n s : Nat) (W : List Nat), (∀ w, w ∈ W → w < s) → copyInAux W (vecFrom op s n) = true := by
  intro n
  induction n with
  | zero => intro s W _; rfl
  | succ n ih =>
    intro s W hW
    have hs : s ∉ W := fun h => Nat.lt_irrefl _ (hW s h)
    simp only [vecFrom, copyInAux, List.all_cons, List.all_nil, srcOK, Bool.and_true, Bool.and_eq_true]
    refine ⟨⟨by simpa using hs, by simpa using hs⟩, ?_⟩
    apply ih
    intro w hw
    cases hw with
    | head => exact Nat.lt_succ_self _
    | tail _ h' => exact Nat.lt_succ_of_lt (hW w h')

end GV.Alias
