import GnarkVerif.Proofs.CurveGen
import Mathlib.Algebra.Module.Basic
import Mathlib.Tactic.Abel
import Mathlib.Tactic.Ring
/-
Generic part of `Props/C02_subgroup*` (fast subgroup tests, cofactor clearing).

* `phiPt b ω hω` : the GLV endomorphism `(x, y) ↦ (x·ω, y)`, `O ↦ O` of Mathlib's group `(sw 0 b).Point` (y² = x³ + b), for any
  ω with ω³ = 1; `JacPt.phi`: multiplying the X coordinate of a Jacobian representative by ω (what the translated `phi`
  does) yields a representative of `phiPt P`; `phiPt_add`: it is ADDITIVE (the chord and the tangent rule commute with
  x ↦ x·ω because ω³ = 1; proved, not assumed), hence `phiHom : Point →+ Point`.
* abstract additive-group lemmas used by the per-curve files: an eigenvalue relation on a generator extends to the cyclic
  group it generates; `n • P = 0` whenever `r • P = 0` and `r ∣ n`.
* `JacPt.Z_eq_zero_iff`: the `res.Z.IsZero()` exit of the BLS24 / BW6-633 tests decides `res = O`.
-/
set_option linter.unusedSectionVars false
set_option linter.unusedVariables false

open Lean Elab Tactic Meta in
/-- `gv_each_let x h : T => tac`: for every local definition `y := v` of the context (as left by `extract_lets`), oldest first:
rename it to `x`, elaborate the statement `T` (which may mention `x` and may contain holes `_`), prove it with `tac` (the holes
are filled by unification) and add it to the context as `h`. Used to walk the let-chain of a translated `mulBySeed` FORWARD
(one fact per Go temporary: "this temporary represents k • Q", k found by the step lemmas), so that shared temporaries are
treated once. -/
elab "gv_each_let " x:ident h:ident " : " ty:term " => " tac:tacticSeq : tactic => do
  let g ← getMainGoal
  let fvars ← g.withContext do
    let lctx ← getLCtx
    return lctx.foldl (init := #[]) fun acc d =>
      if d.isLet && !d.isImplementationDetail then acc.push d.fvarId else acc
  for fv in fvars do
    let g ← getMainGoal
    let g ← g.rename fv x.getId
    replaceMainGoal [g]
    let (tyE, pf) ← g.withContext do
      let tyE ← Tactic.elabTerm ty none (mayPostpone := true)
      let pf ← mkFreshExprMVar tyE (kind := .syntheticOpaque)
      let saved ← getGoals
      setGoals [pf.mvarId!]
      evalTactic tac
      let rem ← getUnsolvedGoals
      unless rem.isEmpty do throwError "gv_each_let: the step tactic left goals on {tyE}"
      setGoals saved
      return (← instantiateMVars tyE, ← instantiateMVars pf)
    let g2 ← g.assert h.getId tyE pf
    let (_, g3) ← g2.intro1P
    replaceMainGoal [g3]

namespace GV.Subgroup
open GV.Curve GV.C02 GV.CurveGen WeierstrassCurve

section curve
variable {F : Type} [Field F] [DecidableEq F]

theorem nonsingular_phi {b ω x y : F} (hω : ω ^ 3 = 1) (h : (sw 0 b).Nonsingular x y) :
    (sw 0 b).Nonsingular (x * ω) y := by
  rw [Affine.nonsingular_iff] at h ⊢
  obtain ⟨he, hn⟩ := h
  refine ⟨?_, ?_⟩
  · rw [sw_equation_iff] at he ⊢
    simp only [OnCurve] at he ⊢
    linear_combination he - x ^ 3 * hω
  · simp only [sw] at hn ⊢
    rcases hn with hn | hn
    · left
      intro h0
      apply hn
      linear_combination ω * h0 + 3 * x ^ 2 * hω
    · right; intro h; apply hn; linear_combination h

/-- the endomorphism (x, y) ↦ (x·ω, y) of y² = x³ + b (ω³ = 1) on Mathlib's point type -/
def phiPt (b ω : F) (hω : ω ^ 3 = 1) : (sw 0 b).Point → (sw 0 b).Point
  | .zero => 0
  | .some x y h => .some (x * ω) y (nonsingular_phi hω h)

@[simp] theorem phiPt_zero {b ω : F} (hω : ω ^ 3 = 1) : phiPt b ω hω 0 = 0 := rfl

theorem phiPt_some {b ω x y : F} (hω : ω ^ 3 = 1) (h : (sw 0 b).Nonsingular x y) :
    phiPt b ω hω (.some x y h) = .some (x * ω) y (nonsingular_phi hω h) := rfl

/-- what the translated `phi` does on a Jacobian triple (X ← X·thirdRootOne) is `phiPt` on the represented point -/
theorem JacPt.phi {b ω X Y Z : F} (hω : ω ^ 3 = 1) {P : (sw 0 b).Point} (hp : JacPt 0 b X Y Z P) :
    JacPt 0 b (X * ω) Y Z (phiPt b ω hω P) := by
  rcases hp with ⟨hz, rfl⟩ | ⟨x, y, h, ⟨hz, hX, hY⟩, rfl⟩
  · exact Or.inl ⟨hz, rfl⟩
  · exact Or.inr ⟨x * ω, y, nonsingular_phi hω h, ⟨hz, by rw [hX]; ring, hY⟩, rfl⟩

/-- a Jacobian representative has Z = 0 exactly when it represents O -/
theorem JacPt.Z_eq_zero_iff {a b X Y Z : F} {P : (sw a b).Point} (hp : JacPt a b X Y Z P) : Z = 0 ↔ P = 0 := by
  constructor
  · exact hp.of_Z_zero
  · intro h0
    rcases hp with ⟨hz, _⟩ | ⟨x, y, h, _, rfl⟩
    · exact hz
    · cases h0

theorem some_congr {W : WeierstrassCurve.Affine F} {x y x' y' : F} (h : W.Nonsingular x y) (h' : W.Nonsingular x' y')
    (hx : x = x') (hy : y = y') : Affine.Point.some x y h = Affine.Point.some x' y' h' := by
  subst hx hy; rfl

theorem tangent_phi {ω x y : F} (hω : ω ^ 3 = 1) :
    tangent 0 (x * ω) y = ((tangent 0 x y).1 * ω, (tangent 0 x y).2) := by
  simp only [tangent]
  have hl : (3 * (x * ω) ^ 2 + 0) / (2 * y) = (3 * x ^ 2 + 0) / (2 * y) * ω ^ 2 := by ring
  rw [hl]
  generalize (3 * x ^ 2 + 0) / (2 * y) = l
  refine Prod.ext ?_ ?_
  · simp only; linear_combination (l ^ 2 * ω) * hω
  · simp only; linear_combination (3 * l * x - l ^ 3 * (ω ^ 3 + 1)) * hω

theorem chord_phi {ω x1 y1 x2 y2 : F} (hω : ω ^ 3 = 1) :
    chord (x1 * ω) y1 (x2 * ω) y2 = ((chord x1 y1 x2 y2).1 * ω, (chord x1 y1 x2 y2).2) := by
  have hinv : ω⁻¹ = ω ^ 2 := inv_eq_of_mul_eq_one_right (by linear_combination hω)
  simp only [chord]
  have hl : (y2 - y1) / (x2 * ω - x1 * ω) = (y2 - y1) / (x2 - x1) * ω ^ 2 := by
    rw [← hinv, show x2 * ω - x1 * ω = (x2 - x1) * ω by ring]
    simp only [div_eq_mul_inv, mul_inv]
    ring
  rw [hl]
  generalize (y2 - y1) / (x2 - x1) = l
  refine Prod.ext ?_ ?_
  · simp only; linear_combination (l ^ 2 * ω) * hω
  · simp only; linear_combination (2 * l * x1 + l * x2 - l ^ 3 * (ω ^ 3 + 1)) * hω

/-- `phiPt` is additive: a polynomial identity from ω³ = 1 on the chord and the tangent rule -/
theorem phiPt_add {b ω : F} (hc : (2 : F) ≠ 0) (hω : ω ^ 3 = 1) (P Q : (sw 0 b).Point) :
    phiPt b ω hω (P + Q) = phiPt b ω hω P + phiPt b ω hω Q := by
  have hω0 : ω ≠ 0 := by rintro rfl; simp at hω
  rcases P with _ | ⟨x1, y1, h1⟩
  · change phiPt b ω hω (0 + Q) = 0 + phiPt b ω hω Q
    rw [zero_add, zero_add]
  rcases Q with _ | ⟨x2, y2, h2⟩
  · change phiPt b ω hω (_ + 0) = _ + 0
    rw [add_zero, add_zero]
  by_cases hx : x1 = x2
  · subst hx
    rcases same_x_cases (onCurve_of_nonsingular h1) (onCurve_of_nonsingular h2) with hy | hy
    · subst hy
      by_cases hy0 : y1 = 0
      · have hneg : y1 = -y1 := by rw [hy0, neg_zero]
        rw [C02_opposite_is_zero h1 h2 hneg]
        simp only [phiPt_some]
        rw [C02_opposite_is_zero (nonsingular_phi hω h1) (nonsingular_phi hω h2) hneg]
        rfl
      · obtain ⟨h3, e3⟩ := C02_tangent_is_group_double hc h1 hy0
        obtain ⟨h4, e4⟩ := C02_tangent_is_group_double hc (nonsingular_phi hω h1) hy0
        rw [show Affine.Point.some x1 y1 h2 = Affine.Point.some x1 y1 h1 from rfl, e3]
        simp only [phiPt_some]
        rw [e4]
        exact some_congr _ _ (by rw [tangent_phi hω]) (by rw [tangent_phi hω])
    · rw [C02_opposite_is_zero h1 h2 hy]
      simp only [phiPt_some]
      rw [C02_opposite_is_zero (nonsingular_phi hω h1) (nonsingular_phi hω h2) hy]
      rfl
  · have hx' : x1 * ω ≠ x2 * ω := fun h => hx (mul_right_cancel₀ hω0 h)
    obtain ⟨h3, e3⟩ := C02_chord_is_group_add h1 h2 hx
    obtain ⟨h4, e4⟩ := C02_chord_is_group_add (nonsingular_phi hω h1) (nonsingular_phi hω h2) hx'
    rw [e3]
    simp only [phiPt_some]
    rw [e4]
    exact some_congr _ _ (by rw [chord_phi hω]) (by rw [chord_phi hω])

/-- φ as a homomorphism of Mathlib's group of points -/
def phiHom (b ω : F) (hc : (2 : F) ≠ 0) (hω : ω ^ 3 = 1) : (sw 0 b).Point →+ (sw 0 b).Point where
  toFun := phiPt b ω hω
  map_zero' := rfl
  map_add' := phiPt_add hc hω

@[simp] theorem phiHom_apply {b ω : F} (hc : (2 : F) ≠ 0) (hω : ω ^ 3 = 1) (P : (sw 0 b).Point) :
    phiHom b ω hc hω P = phiPt b ω hω P := rfl

end curve

section group
variable {G : Type*} [AddCommGroup G]

/-- an eigenvalue relation on a generator holds on the whole cyclic group it generates -/
theorem eigen_on_cyclic (φ : G →+ G) {g : G} {lam : ℤ} (h : φ g = lam • g) (k : ℤ) : φ (k • g) = lam • (k • g) := by
  rw [map_zsmul, h, smul_comm]

/-- the order relation carries over: r • (k • g) = 0 -/
theorem torsion_on_cyclic {g : G} {r : ℤ} (h : r • g = 0) (k : ℤ) : r • (k • g) = 0 := by
  rw [smul_comm, h, smul_zero]

theorem zsmul_eq_zero_of_dvd {P : G} {r n : ℤ} (hr : r • P = 0) (h : r ∣ n) : n • P = 0 := by
  obtain ⟨c, rfl⟩ := h
  rw [mul_comm, mul_smul, hr, smul_zero]

end group
end GV.Subgroup
