import GnarkVerif.Model.FFT
import Mathlib.Tactic.Ring
import Mathlib.Tactic.Linarith
import Mathlib.Tactic.LinearCombination
import Mathlib.Algebra.BigOperators.Group.Finset.Basic
import Mathlib.Algebra.BigOperators.Intervals
import Mathlib.Algebra.BigOperators.Ring.Finset
/-
Helper lemmas for C10 (property theorems are in Props/C10.lean).
-/
namespace GV.FFT
open Finset
set_option linter.unusedSectionVars false

section Basic
variable {R : Type} [CommRing R]

theorem pw_eq (w : R) (n : Nat) : pw w n = w ^ n := by
  induction n with
  | zero => simp [pw]
  | succ n ih => simp [pw, ih, pow_succ]

@[simp] theorem iter_length (w x : R) (n : Nat) : (iter w x n).length = n := by
  induction n generalizing x with
  | zero => rfl
  | succ n ih => simp [iter, ih]

theorem iter_getElem (w x : R) (n i : Nat) (h : i < (iter w x n).length) :
    (iter w x n)[i] = x * w ^ i := by
  induction n generalizing x i with
  | zero => simp at h
  | succ n ih =>
    cases i with
    | zero => simp [iter]
    | succ i => simp only [iter, List.getElem_cons_succ]; rw [ih]; ring

@[simp] theorem powers_length (w : R) (n : Nat) : (powers w n).length = n := iter_length _ _ _

theorem powers_getElem (w : R) (n i : Nat) (h : i < (powers w n).length) : (powers w n)[i] = w ^ i := by
  have := iter_getElem w 1 n i (by simpa [powers] using h)
  simpa [powers] using this

end Basic

/-! ### bit reversal of indices -/

theorem bitrev_lt (m i : Nat) : bitrev m i < 2 ^ m := by
  induction m generalizing i with
  | zero => simp [bitrev]
  | succ m ih =>
    have := ih (i % 2^m)
    have h2 : (i / 2^m) % 2 < 2 := Nat.mod_lt _ (by decide)
    simp only [bitrev, pow_succ]; omega

theorem bitrev_low (m i : Nat) (h : i < 2^m) : bitrev (m+1) i = 2 * bitrev m i := by
  simp [bitrev, Nat.mod_eq_of_lt h, Nat.div_eq_of_lt h]

theorem bitrev_high (m i : Nat) (h : i < 2^m) : bitrev (m+1) (2^m + i) = 2 * bitrev m i + 1 := by
  have hp : 0 < 2^m := Nat.pow_pos (by decide)
  have h1 : (2^m + i) % 2^m = i := by rw [Nat.add_mod_left, Nat.mod_eq_of_lt h]
  have h2 : (2^m + i) / 2^m = 1 := by
    rw [Nat.add_div_left _ hp, Nat.div_eq_of_lt h]
  simp [bitrev, h1, h2]

/-- peeling the low bit instead of the high one -/
theorem bitrev_lowbit (m r b : Nat) (hr : r < 2^m) (hb : b < 2) :
    bitrev (m+1) (2*r + b) = b * 2^m + bitrev m r := by
  induction m generalizing r with
  | zero =>
    have : r = 0 := by simpa using hr
    subst this
    simp [bitrev, Nat.mod_eq_of_lt hb]
  | succ m ih =>
    have hp : 0 < 2^m := Nat.pow_pos (by decide)
    -- r = c * 2^m + r'
    have hr' : r % 2^m < 2^m := Nat.mod_lt _ hp
    have hc : r / 2^m < 2 := by
      rw [Nat.div_lt_iff_lt_mul hp]; rw [pow_succ] at hr; omega
    have hdecomp : r = 2^m * (r / 2^m) + r % 2^m := (Nat.div_add_mod r (2^m)).symm
    have e1 : (2*r + b) % 2^(m+1) = 2 * (r % 2^m) + b := by
      have : 2*r + b = (2 * (r % 2^m) + b) + 2^(m+1) * (r / 2^m) := by rw [pow_succ]; nlinarith
      rw [this, Nat.add_mul_mod_self_left, Nat.mod_eq_of_lt]
      rw [pow_succ]; omega
    have e2 : (2*r + b) / 2^(m+1) = r / 2^m := by
      have : 2*r + b = (2 * (r % 2^m) + b) + 2^(m+1) * (r / 2^m) := by rw [pow_succ]; nlinarith
      rw [this, Nat.add_mul_div_left _ _ (Nat.pow_pos (by decide)), Nat.div_eq_of_lt]
      · simp
      · rw [pow_succ]; omega
    rw [bitrev, e1, e2, ih _ hr']
    conv_rhs => rw [bitrev]
    rw [Nat.mod_eq_of_lt hc] 
    have : (r / 2^m) % 2 = r / 2^m := Nat.mod_eq_of_lt hc
    rw [pow_succ]; ring

theorem bitrev_invol (m i : Nat) (h : i < 2^m) : bitrev m (bitrev m i) = i := by
  induction m generalizing i with
  | zero => simp at h; simp [bitrev, h]
  | succ m ih =>
    have hp : 0 < 2^m := Nat.pow_pos (by decide)
    have hr' : i % 2^m < 2^m := Nat.mod_lt _ hp
    have hc : i / 2^m < 2 := by
      rw [Nat.div_lt_iff_lt_mul hp]; rw [pow_succ] at h; omega
    conv_lhs => arg 2; rw [bitrev]
    rw [Nat.mod_eq_of_lt hc, bitrev_lowbit _ _ _ (bitrev_lt _ _) hc, ih _ hr']
    have := Nat.div_add_mod i (2^m)
    rw [Nat.mul_comm]; exact this

/-! #### the table-driven index map and the streaming digest of op `bitrevbig` -/

/-- splitting the index: the high `a` bits and the low `b` bits are reversed separately and exchanged -/
theorem bitrev_split (a b hi lo : Nat) (hhi : hi < 2^a) (hlo : lo < 2^b) :
    bitrev (a+b) (hi * 2^b + lo) = bitrev b lo * 2^a + bitrev a hi := by
  induction b generalizing lo with
  | zero =>
    have : lo = 0 := by simpa using hlo
    subst this; simp [bitrev]
  | succ b ih =>
    have hr : lo / 2 < 2^b := by rw [pow_succ] at hlo; omega
    have hc : lo % 2 < 2 := Nat.mod_lt _ (by decide)
    have hlt : hi * 2^b + lo / 2 < 2^(a+b) := by
      have : (hi + 1) * 2^b ≤ 2^a * 2^b := Nat.mul_le_mul_right _ hhi
      rw [pow_add]; nlinarith
    have e2 : lo = 2 * (lo/2) + lo % 2 := (Nat.div_add_mod lo 2).symm
    have e : hi * 2^(b+1) + lo = 2 * (hi * 2^b + lo / 2) + lo % 2 := by
      rw [pow_succ]; nlinarith
    rw [show a + (b+1) = (a+b)+1 from rfl, e, bitrev_lowbit _ _ _ hlt hc, ih _ hr]
    conv_rhs => rw [e2, bitrev_lowbit _ _ _ hr hc]
    rw [pow_add]; ring

theorem bitrevTable_getD (a i : Nat) (h : i < 2^a) : (bitrevTable a).getD i 0 = bitrev a i := by
  simp [bitrevTable, Array.getD, h]

theorem bitrevSplit_eq (a b i : Nat) (h : i < 2^(a+b)) :
    bitrevSplit (2^a) (2^b) (bitrevTable a) (bitrevTable b) i = bitrev (a+b) i := by
  have hp : 0 < 2^b := Nat.pow_pos (by decide)
  have hlo : i % 2^b < 2^b := Nat.mod_lt _ hp
  have hhi : i / 2^b < 2^a := by
    rw [Nat.div_lt_iff_lt_mul hp, ← pow_add]; exact h
  have e : i = i / 2^b * 2^b + i % 2^b := by
    have := Nat.div_add_mod i (2^b); rw [Nat.mul_comm] at this; exact this.symm
  conv_rhs => rw [e, bitrev_split a b _ _ hhi hlo]
  simp [bitrevSplit, bitrevTable_getD _ _ hlo, bitrevTable_getD _ _ hhi]

theorem bitrevDigestLoop_spec (M q mult a b : Nat) : ∀ fuel i acc, i + fuel ≤ 2^(a+b) →
    bitrevDigestLoop M q mult (2^a) (2^b) (bitrevTable a) (bitrevTable b) fuel i acc =
      (List.range' i fuel).foldl (fun acc j => (acc + (j+1) * ((bitrev (a+b) j * mult + 1) % q)) % M) acc := by
  intro fuel
  induction fuel with
  | zero => intro i acc _; simp [bitrevDigestLoop]
  | succ n ih =>
    intro i acc h
    rw [bitrevDigestLoop, bitrevSplit_eq a b i (by omega), ih (i+1) _ (by omega), List.range'_succ, List.foldl_cons]

/-- the streaming digest is the digest of `bitReverse` index by index -/
theorem bitrevDigest_eq (q m mult : Nat) :
    bitrevDigest q m mult =
      (List.range (2^m)).foldl (fun acc i => (acc + (i+1) * ((bitrev m i * mult + 1) % q)) % (2^61-1)) 0 := by
  have hab : m - m/2 + m/2 = m := by omega
  unfold bitrevDigest
  simp only []
  rw [bitrevDigestLoop_spec _ _ _ _ _ _ _ _ (by rw [hab]; omega), hab, List.range_eq_range']
  apply List.foldl_ext
  intro acc j hj
  split
  · rename_i hc
    obtain ⟨h1, h2, h3⟩ := hc
    have hb := bitrev_lt m j
    have hm : 2^m ≤ 2^28 := Nat.pow_le_pow_right (by decide) h1
    have hx : bitrev m j * mult + 1 < q := by
      have : bitrev m j * mult < 2^28 * 2^16 := by
        calc bitrev m j * mult ≤ 2^28 * mult := Nat.mul_le_mul_right _ (by omega)
          _ < 2^28 * 2^16 := Nat.mul_lt_mul_of_pos_left h2 (by decide)
      omega
    rw [Nat.mod_zero, Nat.mod_eq_of_lt hx]
  · rfl



section
variable {R : Type} [CommRing R]

@[simp] theorem permute_length (f : Nat → Nat) (a : List R) : (permute f a).length = a.length := by
  simp [permute]

theorem permute_getElem (f : Nat → Nat) (a : List R) (i : Nat) (h : i < (permute f a).length) :
    (permute f a)[i] = a.getD (f i) 0 := by
  simp [permute, List.getD_eq_getElem?_getD]

theorem getD_of_lt (a : List R) (i : Nat) (h : i < a.length) : a.getD i 0 = a[i] := by
  simp [List.getD_eq_getElem?_getD, h]

/-- list sum over `range` as a Finset sum -/
theorem list_sum_range (f : Nat → R) (n : Nat) : ((List.range n).map f).sum = ∑ j ∈ range n, f j := by
  induction n with
  | zero => simp
  | succ n ih => simp [List.range_succ, Finset.sum_range_succ, ih]

theorem dftAt_eq (w : R) (a : List R) (k : Nat) :
    dftAt w a k = ∑ j ∈ range a.length, a.getD j 0 * w ^ (j * k) := by
  simp [dftAt, list_sum_range, pw_eq]

theorem evalAt_eq (a : List R) (x : R) :
    evalAt a x = ∑ j ∈ range a.length, a.getD j 0 * x ^ j := by
  simp [evalAt, list_sum_range, pw_eq]

@[simp] theorem dft_length (w : R) (a : List R) : (dft w a).length = a.length := by simp [dft]

theorem dft_getElem (w : R) (a : List R) (k : Nat) (h : k < (dft w a).length) :
    (dft w a)[k] = dftAt w a k := by simp [dft]

end

section
variable {R : Type} [CommRing R]

theorem dif_even (f : Nat → R) (h k : Nat) (w : R) (hw : w ^ (2 * h) = 1) :
    ∑ j ∈ range (h + h), f j * w ^ (j * (2 * k)) =
      ∑ j ∈ range h, (f j + f (h + j)) * (w * w) ^ (j * k) := by
  rw [Finset.sum_range_add, ← Finset.sum_add_distrib]
  refine Finset.sum_congr rfl (fun j _ => ?_)
  have e1 : (h + j) * (2 * k) = (2 * h) * k + j * (2 * k) := by ring
  have e2 : (w * w) ^ (j * k) = w ^ (j * (2 * k)) := by rw [← pow_two, ← pow_mul]; congr 1; ring
  have e4 : w ^ (2 * h * k) = 1 := by rw [pow_mul, hw, one_pow]
  rw [e1, pow_add, e4, one_mul, e2]; ring

theorem dif_odd (f : Nat → R) (h k : Nat) (w : R) (hw : w ^ h = -1) :
    ∑ j ∈ range (h + h), f j * w ^ (j * (2 * k + 1)) =
      ∑ j ∈ range h, ((f j - f (h + j)) * w ^ j) * (w * w) ^ (j * k) := by
  rw [Finset.sum_range_add, ← Finset.sum_add_distrib]
  refine Finset.sum_congr rfl (fun j _ => ?_)
  have hw2 : w ^ (2 * h) = 1 := by rw [mul_comm, pow_mul, hw]; ring
  have e1 : (h + j) * (2 * k + 1) = (2 * h) * k + h + j * (2 * k + 1) := by ring
  have e2 : (w * w) ^ (j * k) = w ^ (j * (2 * k)) := by rw [← pow_two, ← pow_mul]; congr 1; ring
  have e3 : j * (2 * k + 1) = j * (2 * k) + j := by ring
  have e4 : w ^ (2 * h * k) = 1 := by rw [pow_mul, hw2, one_pow]
  rw [e1, pow_add, pow_add, e4, one_mul, hw, e2, e3, pow_add]; ring

end

section
variable {R : Type} [CommRing R]

/-- `w` is a primitive `2^m`-th root of unity in the sense needed over an arbitrary commutative ring:
    `w^(2^(m-1)) = -1` (hence `w^(2^m) = 1`); nothing is needed for `m = 0`. -/
def PrimRoot (w : R) : Nat → Prop
  | 0 => True
  | k+1 => w ^ (2^k) = -1

theorem PrimRoot.sq {w : R} {m : Nat} (h : PrimRoot w (m+1)) : PrimRoot (w*w) m := by
  cases m with
  | zero => trivial
  | succ k =>
    show (w*w) ^ (2^k) = -1
    have : w ^ (2^(k+1)) = -1 := h
    rw [← pow_two, ← pow_mul, ← pow_succ']; exact this

theorem PrimRoot.pow_one {w : R} {m : Nat} (h : PrimRoot w (m+1)) : w ^ (2 * 2^m) = 1 := by
  have : w ^ (2^m) = -1 := h
  rw [mul_comm, pow_mul, this]; ring

theorem getD_sum_halves (a : List R) (h j : Nat) (ha : a.length = h + h) (hj : j < h) :
    (List.zipWith (· + ·) (a.take h) (a.drop h)).getD j 0 = a.getD j 0 + a.getD (h + j) 0 := by
  rw [getD_of_lt _ _ (by simp; omega), getD_of_lt _ _ (by omega), getD_of_lt _ _ (by omega)]
  simp

theorem getD_diff_halves (a : List R) (w : R) (h j : Nat) (ha : a.length = h + h) (hj : j < h) :
    (List.zipWith (· * ·) (List.zipWith (· - ·) (a.take h) (a.drop h)) (powers w h)).getD j 0
      = (a.getD j 0 - a.getD (h + j) 0) * w ^ j := by
  rw [getD_of_lt _ _ (by simp; omega), getD_of_lt _ _ (by omega), getD_of_lt _ _ (by omega)]
  simp [powers_getElem]

theorem bitReverse_getElem (m : Nat) (a : List R) (i : Nat) (h : i < (bitReverse m a).length) :
    (bitReverse m a)[i] = a.getD (bitrev m i) 0 := permute_getElem _ _ _ h

@[simp] theorem bitReverse_length (m : Nat) (a : List R) : (bitReverse m a).length = a.length := by
  simp [bitReverse]

theorem difCore_length (m : Nat) (w : R) (a : List R) (ha : a.length = 2^m) :
    (difCore m w a).length = 2^m := by
  induction m generalizing w a with
  | zero => simpa [difCore] using ha
  | succ m ih =>
    have hp : 0 < 2^m := Nat.pow_pos (by decide)
    rw [pow_succ] at ha
    simp only [difCore, List.length_append]
    rw [ih _ _ (by simp; omega), ih _ _ (by simp; omega), pow_succ]; omega

/-- the DIF recursion computes the DFT, output in bit-reversed order — every size `2^m` -/
theorem difCore_eq_dft (m : Nat) (w : R) (hw : PrimRoot w m) (a : List R) (ha : a.length = 2^m) :
    difCore m w a = bitReverse m (dft w a) := by
  induction m generalizing w a with
  | zero =>
    obtain ⟨x, rfl⟩ := List.length_eq_one_iff.mp (by simpa using ha)
    simp [difCore, bitReverse, permute, dft, dftAt, bitrev, pw]
  | succ m ih =>
    have ha' : a.length = 2^m + 2^m := by rw [ha, pow_succ]; ring
    have hp : 0 < 2^m := Nat.pow_pos (by decide)
    simp only [difCore]
    rw [ih _ hw.sq _ (by simp; omega), ih _ hw.sq _ (by simp; omega)]
    apply List.ext_getElem
    · simp; omega
    · intro i h1 h2
      rw [bitReverse_getElem]
      by_cases hi : i < 2^m
      · rw [List.getElem_append_left (by simpa using (by omega))]
        rw [bitReverse_getElem, bitrev_low _ _ hi]
        have hb := bitrev_lt m i
        rw [getD_of_lt _ _ (by simp; omega), getD_of_lt _ _ (by simp; omega), dft_getElem, dft_getElem,
          dftAt_eq, dftAt_eq]
        have hl : (List.zipWith (· + ·) (a.take (2^m)) (a.drop (2^m))).length = 2^m := by simp; omega
        rw [hl, ha', dif_even _ _ _ _ hw.pow_one]
        exact (Finset.sum_congr rfl (fun j hj => by
          rw [getD_sum_halves _ _ _ ha' (Finset.mem_range.mp hj)])).symm
      · have hi2 : i - 2^m < 2^m := by simp at h2; omega
        rw [List.getElem_append_right (by simpa using (by omega))]
        rw [bitReverse_getElem]
        simp only [bitReverse_length, dft_length, List.length_zipWith, List.length_take, List.length_drop]
        have e : min (2^m) a.length = 2^m := by omega
        have e' : min (2^m) (a.length - 2^m) = 2^m := by omega
        have hb := bitrev_lt m (i - 2^m)
        have hi3 : i = 2^m + (i - 2^m) := by omega
        rw [e, e']
        conv_rhs => rw [hi3, bitrev_high _ _ hi2]
        rw [getD_of_lt _ _ (by simp; omega), getD_of_lt _ _ (by simp; omega), dft_getElem, dft_getElem,
          dftAt_eq, dftAt_eq]
        have hl : (List.zipWith (· * ·) (List.zipWith (· - ·) (a.take (2^m)) (a.drop (2^m))) (powers w (2^m))).length = 2^m := by
          simp; omega
        rw [hl, ha', dif_odd _ _ _ _ hw]
        exact (Finset.sum_congr rfl (fun j hj => by
          rw [getD_diff_halves _ _ _ _ ha' (Finset.mem_range.mp hj)])).symm
end

section
variable {R : Type} [CommRing R]

theorem sum_even_odd (g : Nat → R) (h : Nat) :
    ∑ j ∈ range (h + h), g j = ∑ j ∈ range h, g (2 * j) + ∑ j ∈ range h, g (2 * j + 1) := by
  induction h with
  | zero => simp
  | succ h ih =>
    have : h + 1 + (h + 1) = h + h + 1 + 1 := by ring
    rw [this, Finset.sum_range_succ, Finset.sum_range_succ, ih, Finset.sum_range_succ, Finset.sum_range_succ]
    have e : h + h = 2 * h := by ring
    rw [e]; ring

theorem dit_split (f : Nat → R) (h k : Nat) (w : R) :
    ∑ j ∈ range (h + h), f j * w ^ (j * k) =
      ∑ j ∈ range h, f (2 * j) * (w * w) ^ (j * k)
        + (∑ j ∈ range h, f (2 * j + 1) * (w * w) ^ (j * k)) * w ^ k := by
  rw [sum_even_odd, Finset.sum_mul]
  congr 1
  · refine Finset.sum_congr rfl (fun j _ => ?_)
    rw [← pow_two, ← pow_mul, mul_assoc]
  · refine Finset.sum_congr rfl (fun j _ => ?_)
    rw [← pow_two, ← pow_mul, mul_assoc, ← pow_add]; congr 2; ring

theorem dit_split_high (f : Nat → R) (h k : Nat) (w : R) (hw : w ^ h = -1) :
    ∑ j ∈ range (h + h), f j * w ^ (j * (h + k)) =
      ∑ j ∈ range h, f (2 * j) * (w * w) ^ (j * k)
        - (∑ j ∈ range h, f (2 * j + 1) * (w * w) ^ (j * k)) * w ^ k := by
  rw [dit_split]
  have hw2 : (w * w) ^ h = 1 := by rw [mul_pow, hw]; ring
  have e : ∀ j, (w * w) ^ (j * (h + k)) = (w * w) ^ (j * k) := by
    intro j
    rw [mul_add, pow_add, mul_comm j h, pow_mul, hw2, one_pow, one_mul]
  simp only [e]
  rw [pow_add, hw]; ring

/-- entries of even / odd index -/
def evenPart (a : List R) : List R := (List.range (a.length / 2)).map (fun j => a.getD (2 * j) 0)
def oddPart (a : List R) : List R := (List.range (a.length / 2)).map (fun j => a.getD (2 * j + 1) 0)

theorem take_bitReverse (m : Nat) (a : List R) (ha : a.length = 2^(m+1)) :
    (bitReverse (m+1) a).take (2^m) = bitReverse m (evenPart a) := by
  have hp : 0 < 2^m := Nat.pow_pos (by decide)
  have ha' : a.length = 2^m + 2^m := by rw [ha, pow_succ]; ring
  have hl : a.length / 2 = 2^m := by omega
  apply List.ext_getElem
  · simp [evenPart]; omega
  · intro i h1 h2
    have hi : i < 2^m := by simp at h1; omega
    rw [List.getElem_take, bitReverse_getElem, bitReverse_getElem, bitrev_low _ _ hi]
    have hb := bitrev_lt m i
    rw [getD_of_lt (evenPart a) _ (by simp [evenPart]; omega)]
    simp [evenPart]

theorem drop_bitReverse (m : Nat) (a : List R) (ha : a.length = 2^(m+1)) :
    (bitReverse (m+1) a).drop (2^m) = bitReverse m (oddPart a) := by
  have hp : 0 < 2^m := Nat.pow_pos (by decide)
  have ha' : a.length = 2^m + 2^m := by rw [ha, pow_succ]; ring
  have hl : a.length / 2 = 2^m := by omega
  apply List.ext_getElem
  · simp [oddPart]; omega
  · intro i h1 h2
    have hi : i < 2^m := by simp [oddPart] at h2; omega
    rw [List.getElem_drop, bitReverse_getElem, bitReverse_getElem, bitrev_high _ _ hi]
    have hb := bitrev_lt m i
    rw [getD_of_lt (oddPart a) _ (by simp [oddPart]; omega)]
    simp [oddPart]

theorem ditCore_length (m : Nat) (w : R) (a : List R) (ha : a.length = 2^m) :
    (ditCore m w a).length = 2^m := by
  induction m generalizing w a with
  | zero => simpa [ditCore] using ha
  | succ m ih =>
    have hp : 0 < 2^m := Nat.pow_pos (by decide)
    rw [pow_succ] at ha
    simp only [ditCore, bfDIT, List.length_append, List.length_zipWith, powers_length]
    rw [ih _ _ (by simp; omega), ih _ _ (by simp; omega), pow_succ]; omega

/-- the DIT recursion on a bit-reversed input computes the DFT in natural order — every size `2^m` -/
theorem ditCore_eq_dft (m : Nat) (w : R) (hw : PrimRoot w m) (a : List R) (ha : a.length = 2^m) :
    ditCore m w (bitReverse m a) = dft w a := by
  induction m generalizing w a with
  | zero =>
    obtain ⟨x, rfl⟩ := List.length_eq_one_iff.mp (by simpa using ha)
    simp [ditCore, bitReverse, permute, dft, dftAt, bitrev, pw]
  | succ m ih =>
    have ha' : a.length = 2^m + 2^m := by rw [ha, pow_succ]; ring
    have hp : 0 < 2^m := Nat.pow_pos (by decide)
    have hl : a.length / 2 = 2^m := by omega
    have hle : (evenPart a).length = 2^m := by simp [evenPart, hl]
    have hlo : (oddPart a).length = 2^m := by simp [oddPart, hl]
    simp only [ditCore]
    rw [take_bitReverse _ _ ha, drop_bitReverse _ _ ha, ih _ hw.sq _ hle, ih _ hw.sq _ hlo]
    have hge : ∀ j, j < 2^m → (evenPart a).getD j 0 = a.getD (2*j) 0 := by
      intro j hj; rw [getD_of_lt _ _ (by omega)]; simp [evenPart]
    have hgo : ∀ j, j < 2^m → (oddPart a).getD j 0 = a.getD (2*j+1) 0 := by
      intro j hj; rw [getD_of_lt _ _ (by omega)]; simp [oddPart]
    apply List.ext_getElem
    · simp [bfDIT, hle, hlo, ha']
    · intro i h1 h2
      rw [dft_getElem, dftAt_eq, ha']
      simp only [bfDIT]
      by_cases hi : i < 2^m
      · rw [List.getElem_append_left (by simp [hle, hlo]; omega)]
        simp only [List.getElem_zipWith, dft_getElem, powers_getElem, dftAt_eq, hle, hlo]
        rw [dit_split]
        congr 1
        · exact (Finset.sum_congr rfl (fun j hj => by rw [hge _ (Finset.mem_range.mp hj)]))
        · congr 1
          exact (Finset.sum_congr rfl (fun j hj => by rw [hgo _ (Finset.mem_range.mp hj)]))
      · have hi2 : i - 2^m < 2^m := by simp at h2; omega
        have hi3 : i = 2^m + (i - 2^m) := by omega
        rw [List.getElem_append_right (by simp [hle, hlo]; omega)]
        simp only [List.getElem_zipWith, dft_getElem, powers_getElem, dftAt_eq, hle, hlo,
          List.length_zipWith, dft_length, powers_length, Nat.min_self]
        conv_rhs => rw [hi3]
        rw [dit_split_high _ _ _ _ hw]
        congr 1
        · exact (Finset.sum_congr rfl (fun j hj => by rw [hge _ (Finset.mem_range.mp hj)]))
        · congr 1
          exact (Finset.sum_congr rfl (fun j hj => by rw [hgo _ (Finset.mem_range.mp hj)]))
end

section
variable {R : Type} [CommRing R]

/-! ### `getD` toolkit (avoids dependent index proofs) -/

theorem ext_getD {a b : List R} (h : a.length = b.length)
    (h' : ∀ i, i < a.length → a.getD i 0 = b.getD i 0) : a = b := by
  apply List.ext_getElem h
  intro i h1 h2
  have := h' i h1
  rwa [getD_of_lt _ _ h1, getD_of_lt _ _ h2] at this

theorem getD_take (a : List R) (h i : Nat) (hi : i < h) : (a.take h).getD i 0 = a.getD i 0 := by
  simp [List.getD_eq_getElem?_getD, hi]

theorem getD_drop (a : List R) (h i : Nat) : (a.drop h).getD i 0 = a.getD (h + i) 0 := by
  simp [List.getD_eq_getElem?_getD]

theorem getD_zipWith (f : R → R → R) (a b : List R) (i : Nat) (ha : i < a.length) (hb : i < b.length) :
    (List.zipWith f a b).getD i 0 = f (a.getD i 0) (b.getD i 0) := by
  rw [getD_of_lt _ _ (by simp; omega), getD_of_lt _ _ ha, getD_of_lt _ _ hb]; simp

theorem getD_map (f : R → R) (a : List R) (i : Nat) (ha : i < a.length) :
    (a.map f).getD i 0 = f (a.getD i 0) := by
  rw [getD_of_lt _ _ (by simpa using ha), getD_of_lt _ _ ha]; simp

theorem getD_append_left (a b : List R) (i : Nat) (h : i < a.length) :
    (a ++ b).getD i 0 = a.getD i 0 := by
  simp [List.getD_eq_getElem?_getD, List.getElem?_append_left h]

theorem getD_append_right (a b : List R) (i : Nat) :
    (a ++ b).getD (a.length + i) 0 = b.getD i 0 := by
  simp [List.getD_eq_getElem?_getD, List.getElem?_append_right]

theorem getD_powers (w : R) (n i : Nat) (h : i < n) : (powers w n).getD i 0 = w ^ i := by
  rw [getD_of_lt _ _ (by simpa using h), powers_getElem]

theorem getD_bitReverse (m : Nat) (a : List R) (i : Nat) (h : i < a.length) :
    (bitReverse m a).getD i 0 = a.getD (bitrev m i) 0 := by
  rw [getD_of_lt _ _ (by simpa using h), bitReverse_getElem]

theorem bfDIT_length (t lo hi : List R) (h : Nat) (hl : lo.length = h) (hh : hi.length = h)
    (ht : h ≤ t.length) : (bfDIT t lo hi).length = h + h := by
  simp [bfDIT, hl, hh]; omega

theorem getD_bfDIT_lo (t lo hi : List R) (h i : Nat) (hl : lo.length = h) (hh : hi.length = h)
    (ht : h ≤ t.length) (hi' : i < h) :
    (bfDIT t lo hi).getD i 0 = lo.getD i 0 + hi.getD i 0 * t.getD i 0 := by
  simp only [bfDIT]
  rw [getD_append_left _ _ _ (by simp; omega), getD_zipWith _ _ _ _ (by omega) (by simp; omega),
    getD_zipWith _ _ _ _ (by omega) (by omega)]

theorem getD_bfDIT_hi (t lo hi : List R) (h i : Nat) (hl : lo.length = h) (hh : hi.length = h)
    (ht : h ≤ t.length) (hi' : i < h) :
    (bfDIT t lo hi).getD (h + i) 0 = lo.getD i 0 - hi.getD i 0 * t.getD i 0 := by
  simp only [bfDIT]
  have : (List.zipWith (· + ·) lo (List.zipWith (· * ·) hi t)).length = h := by simp; omega
  rw [← this, getD_append_right, getD_zipWith _ _ _ _ (by omega) (by simp; omega),
    getD_zipWith _ _ _ _ (by omega) (by omega)]

/-- `BitReverse` is an involution -/
theorem bitReverse_bitReverse (m : Nat) (a : List R) (ha : a.length = 2^m) :
    bitReverse m (bitReverse m a) = a := by
  apply ext_getD (by simp)
  intro i h1
  have hb := bitrev_lt m i
  simp at h1
  rw [getD_bitReverse _ _ _ (by simpa using h1), getD_bitReverse _ _ _ (by omega), bitrev_invol _ _ (by omega)]

theorem pow_mul_pow_eq_one {w w' : R} (h : w * w' = 1) (i : Nat) : w ^ i * w' ^ i = 1 := by
  rw [← mul_pow, h, one_pow]

/-- DIT with the inverse root undoes DIF up to the factor `2^m`; only `w·w' = 1` is needed -/
theorem ditCore_difCore (m : Nat) (w w' : R) (hww : w * w' = 1) (a : List R) (ha : a.length = 2^m) :
    ditCore m w' (difCore m w a) = a.map (fun x => (2:R)^m * x) := by
  induction m generalizing w w' a with
  | zero => simp [ditCore, difCore]
  | succ m ih =>
    have ha' : a.length = 2^m + 2^m := by rw [ha, pow_succ]; ring
    have hp : 0 < 2^m := Nat.pow_pos (by decide)
    have hww2 : (w * w) * (w' * w') = 1 := by
      have : (w * w) * (w' * w') = (w * w') * (w * w') := by ring
      rw [this, hww, one_mul]
    simp only [ditCore, difCore]
    have hlu : (List.zipWith (· + ·) (a.take (2^m)) (a.drop (2^m))).length = 2^m := by simp; omega
    have hlv : (List.zipWith (· * ·) (List.zipWith (· - ·) (a.take (2^m)) (a.drop (2^m))) (powers w (2^m))).length = 2^m := by
      simp; omega
    rw [List.take_left' (difCore_length _ _ _ hlu), List.drop_left' (difCore_length _ _ _ hlu),
      ih _ _ hww2 _ hlu, ih _ _ hww2 _ hlv]
    have hL := bfDIT_length (powers w' (2^m))
      ((List.zipWith (· + ·) (a.take (2^m)) (a.drop (2^m))).map (fun x => (2:R)^m * x))
      ((List.zipWith (· * ·) (List.zipWith (· - ·) (a.take (2^m)) (a.drop (2^m))) (powers w (2^m))).map
        (fun x => (2:R)^m * x)) (2^m) (by simpa using hlu) (by simpa using hlv) (by simp)
    apply ext_getD (by rw [hL]; simp [ha'])
    intro i h1
    rw [hL] at h1
    rw [getD_map _ _ _ (by omega)]
    by_cases hi : i < 2^m
    · rw [getD_bfDIT_lo _ _ _ (2^m) i (by simpa using hlu) (by simpa using hlv) (by simp) hi,
        getD_map _ _ _ (by omega), getD_map _ _ _ (by omega), getD_zipWith _ _ _ _ (by simp; omega) (by simp; omega),
        getD_zipWith _ _ _ _ (by simp; omega) (by simpa using hi), getD_zipWith _ _ _ _ (by simp; omega) (by simp; omega),
        getD_take _ _ _ hi, getD_drop, getD_powers _ _ _ hi, getD_powers _ _ _ hi]
      have := pow_mul_pow_eq_one hww i
      linear_combination ((2:R)^m * (a.getD i 0 - a.getD (2^m + i) 0)) * this
    · have hi2 : i - 2^m < 2^m := by omega
      have hi3 : i = 2^m + (i - 2^m) := by omega
      rw [hi3, getD_bfDIT_hi _ _ _ (2^m) _ (by simpa using hlu) (by simpa using hlv) (by simp) hi2,
        getD_map _ _ _ (by omega), getD_map _ _ _ (by omega), getD_zipWith _ _ _ _ (by simp; omega) (by simp; omega),
        getD_zipWith _ _ _ _ (by simp; omega) (by simp; omega), getD_zipWith _ _ _ _ (by simp; omega) (by simp; omega),
        getD_take _ _ _ hi2, getD_drop, getD_powers _ _ _ hi2, getD_powers _ _ _ hi2]
      have := pow_mul_pow_eq_one hww (i - 2^m)
      linear_combination (-(2:R)^m * (a.getD (i - 2^m) 0 - a.getD (2^m + (i - 2^m)) 0)) * this
end

section
variable {R : Type} [CommRing R]

/-- only the first `|x|` entries of the twiddle row are used -/
theorem zipWith_take_right (f : R → R → R) (x t : List R) :
    List.zipWith f x t = List.zipWith f x (t.take x.length) := by
  induction x generalizing t with
  | nil => simp
  | cons a x ih =>
    cases t with
    | nil => simp
    | cons b t => simp [ih t]

/-- the first `h` entries of row `r` are `1, u, u², …` -/
def RowOK (r : List R) (u : R) (h : Nat) : Prop := r.take h = powers u h

theorem zipWith_row (f : R → R → R) (x r : List R) (u : R) (h : Nat) (hx : x.length = h) (hr : RowOK r u h) :
    List.zipWith f x r = List.zipWith f x (powers u h) := by
  rw [zipWith_take_right, hx, hr]

theorem mapBlocks_length (f : List R → List R) (sz : Nat) (hf : ∀ b, b.length = sz → (f b).length = sz)
    (c : Nat) (a : List R) (ha : a.length = c * sz) : (mapBlocks f sz c a).length = c * sz := by
  induction c generalizing a with
  | zero => simp [mapBlocks]
  | succ c ih =>
    have e : (c + 1) * sz = sz + c * sz := by ring
    simp only [mapBlocks, List.length_append]
    rw [hf _ (by simp; rw [ha, e]; omega), ih _ (by simp; rw [ha, e]; omega), e]

theorem mapBlocks_one (f : List R → List R) (sz : Nat) (a : List R) (ha : a.length = sz) :
    mapBlocks f sz 1 a = f a := by
  simp [mapBlocks, ← ha]

theorem mapBlocks_id (f : List R → List R) (hf : ∀ b, f b = b) (sz c : Nat) (a : List R)
    (ha : a.length = c * sz) : mapBlocks f sz c a = a := by
  induction c generalizing a with
  | zero => simp at ha; simp [mapBlocks, ha]
  | succ c ih =>
    have e : (c + 1) * sz = sz + c * sz := by ring
    simp only [mapBlocks, hf]
    rw [ih _ (by simp; rw [ha, e]; omega), List.take_append_drop]

/-- two levels of blocks: a stage on blocks of size `2s` followed by `g` on blocks of size `s` -/
theorem mapBlocks_fuse (g f bf : List R → List R) (s : Nat)
    (hbf : ∀ b, b.length = s + s → (bf b).length = s + s)
    (hfg : ∀ b, b.length = s + s → f b = g ((bf b).take s) ++ g ((bf b).drop s))
    (c : Nat) (a : List R) (ha : a.length = c * (s + s)) :
    mapBlocks g s (2 * c) (mapBlocks bf (s + s) c a) = mapBlocks f (s + s) c a := by
  induction c generalizing a with
  | zero => simp [mapBlocks]
  | succ c ih =>
    have e : (c + 1) * (s + s) = (s + s) + c * (s + s) := by ring
    have hb : (a.take (s + s)).length = s + s := by simp; rw [ha, e]; omega
    have hd : (a.drop (s + s)).length = c * (s + s) := by simp; rw [ha, e]; omega
    have e2 : 2 * (c + 1) = 2 * c + 1 + 1 := by ring
    rw [e2]
    simp only [mapBlocks]
    have hX := hbf _ hb
    -- split bf b = X ++ Y
    obtain ⟨X, Y, hXY, hXl, hYl⟩ : ∃ X Y, bf (a.take (s+s)) = X ++ Y ∧ X.length = s ∧ Y.length = s :=
      ⟨(bf (a.take (s+s))).take s, (bf (a.take (s+s))).drop s, by simp, by simp; omega, by simp; omega⟩
    rw [hfg _ hb, hXY, List.append_assoc]
    simp only [List.take_left' hXl, List.drop_left' hXl, List.take_left' hYl, List.drop_left' hYl, ih _ hd,
      List.append_assoc]

theorem bfDIF_length (t lo hi : List R) (h : Nat) (hl : lo.length = h) (hh : hi.length = h)
    (ht : h ≤ t.length) : (bfDIF t lo hi).length = h + h := by
  simp [bfDIF, hl, hh]; omega

theorem RowOK.le_length {r : List R} {u : R} {h : Nat} (hr : RowOK r u h) : h ≤ r.length := by
  have := congrArg List.length hr
  simp at this; omega

/-- the unrolled DIF kernel (stage after stage over all blocks) is the depth-first recursion -/
theorem kerDIF_eq (k : Nat) (rows : List (List R)) (u : R)
    (hrows : ∀ j, j < k → RowOK (rows.getD j []) (u ^ (2^j)) (2^(k-1-j)))
    (c : Nat) (a : List R) (ha : a.length = c * 2^k) :
    kerDIF rows k c a = mapBlocks (difCore k u) (2^k) c a := by
  induction k generalizing rows u c a with
  | zero =>
    simp only [kerDIF]
    exact (mapBlocks_id _ (fun b => rfl) _ _ _ ha).symm
  | succ k ih =>
    have e : 2^(k+1) = 2^k + 2^k := by rw [pow_succ]; ring
    have hr0 : RowOK (rows.headD []) u (2^k) := by
      have := hrows 0 (by omega)
      simpa [List.getD_eq_getElem?_getD, List.headD_eq_head?_getD, List.head?_eq_getElem?] using this
    have hbfl : ∀ b : List R, b.length = 2^k + 2^k →
        (bfDIF (rows.headD []) (b.take (2^k)) (b.drop (2^k))).length = 2^k + 2^k := fun b hb =>
      bfDIF_length _ _ _ _ (by simp; omega) (by simp; omega) hr0.le_length
    simp only [kerDIF, stageDIF]
    rw [ih rows.tail (u * u) ?_ (2 * c) _ ?_]
    · rw [e]
      apply mapBlocks_fuse _ _ _ _ hbfl _ _ _ (by rw [← e]; exact ha)
      intro b hb
      have h1 : (List.zipWith (· + ·) (b.take (2^k)) (b.drop (2^k))).length = 2^k := by simp; omega
      simp only [difCore, bfDIF]
      rw [List.take_left' h1, List.drop_left' h1,
        zipWith_row _ _ _ _ _ (by simp; omega) hr0]
    · intro j hj
      have := hrows (j + 1) (by omega)
      have e1 : k + 1 - 1 - (j + 1) = k - 1 - j := by omega
      have e2 : (u * u) ^ (2^j) = u ^ (2^(j+1)) := by rw [← pow_two, ← pow_mul, ← pow_succ']
      rw [e1] at this
      rw [e2]
      simpa [List.getD_eq_getElem?_getD] using this
    · rw [e]
      have := mapBlocks_length _ (2^k + 2^k) hbfl c a (by rw [← e]; exact ha)
      rw [this]; ring
end

section
variable {R : Type} [CommRing R]

theorem mapBlocks_fuse_dit (g f bf : List R → List R) (s : Nat)
    (hg : ∀ b, b.length = s → (g b).length = s)
    (hfg : ∀ b, b.length = s + s → f b = bf (g (b.take s) ++ g (b.drop s)))
    (c : Nat) (a : List R) (ha : a.length = c * (s + s)) :
    mapBlocks bf (s + s) c (mapBlocks g s (2 * c) a) = mapBlocks f (s + s) c a := by
  induction c generalizing a with
  | zero => simp [mapBlocks]
  | succ c ih =>
    have e : (c + 1) * (s + s) = (s + s) + c * (s + s) := by ring
    have hb : (a.take (s + s)).length = s + s := by simp; rw [ha, e]; omega
    have hd : (a.drop (s + s)).length = c * (s + s) := by simp; rw [ha, e]; omega
    have e2 : 2 * (c + 1) = 2 * c + 1 + 1 := by ring
    rw [e2]
    simp only [mapBlocks]
    have h1 : (g (a.take s)).length = s := hg _ (by simp; rw [ha, e]; omega)
    have h2 : (g ((a.drop s).take s)).length = s := hg _ (by simp; rw [ha, e]; omega)
    have h12 : (g (a.take s) ++ g ((a.drop s).take s)).length = s + s := by simp [h1, h2]
    rw [← List.append_assoc, List.take_left' h12, List.drop_left' h12, hfg _ hb, List.take_take,
      List.drop_take, List.drop_drop, ih _ hd]
    simp

theorem kerDIT_eq (k : Nat) (rows : List (List R)) (u : R)
    (hrows : ∀ j, j < k → RowOK (rows.getD j []) (u ^ (2^j)) (2^(k-1-j)))
    (c : Nat) (a : List R) (ha : a.length = c * 2^k) :
    kerDIT rows k c a = mapBlocks (ditCore k u) (2^k) c a := by
  induction k generalizing rows u c a with
  | zero =>
    simp only [kerDIT]
    exact (mapBlocks_id _ (fun b => rfl) _ _ _ ha).symm
  | succ k ih =>
    have e : 2^(k+1) = 2^k + 2^k := by rw [pow_succ]; ring
    have hr0 : RowOK (rows.headD []) u (2^k) := by
      have := hrows 0 (by omega)
      simpa [List.getD_eq_getElem?_getD, List.headD_eq_head?_getD, List.head?_eq_getElem?] using this
    simp only [kerDIT, stageDIT]
    rw [ih rows.tail (u * u) ?_ (2 * c) _ ?_]
    · rw [e]
      apply mapBlocks_fuse_dit _ _ _ _ (fun b hb => ditCore_length _ _ _ hb) _ _ _ (by rw [← e]; exact ha)
      intro b hb
      have h1 : (ditCore k (u*u) (b.take (2^k))).length = 2^k := ditCore_length _ _ _ (by simp; omega)
      have h2 : (ditCore k (u*u) (b.drop (2^k))).length = 2^k := ditCore_length _ _ _ (by simp; omega)
      simp only [ditCore]
      rw [List.take_left' h1, List.drop_left' h1]
      simp only [bfDIT]
      rw [zipWith_row _ _ _ _ _ h2 hr0]
    · intro j hj
      have := hrows (j + 1) (by omega)
      have e1 : k + 1 - 1 - (j + 1) = k - 1 - j := by omega
      have e2 : (u * u) ^ (2^j) = u ^ (2^(j+1)) := by rw [← pow_two, ← pow_mul, ← pow_succ']
      rw [e1] at this
      rw [e2]
      simpa [List.getD_eq_getElem?_getD] using this
    · rw [ha, e]; ring
end

section
variable {R : Type} [CommRing R]

/-- the stage tables hold the right powers for a sub-problem of size `2^m` entered at `stage`
    whose root is `u` (rows exist only from stage `tss` on) -/
def TwOK (tw : List (List R)) (tss stage m : Nat) (u : R) : Prop :=
  ∀ j, j < m → tss ≤ stage + j → RowOK (tw.getD (stage + j - tss) []) (u ^ (2^j)) (2^(m-1-j))

theorem TwOK.next {tw : List (List R)} {tss stage m : Nat} {u : R} (h : TwOK tw tss stage (m+1) u) :
    TwOK tw tss (stage+1) m (u*u) := by
  intro j hj hs
  have := h (j+1) (by omega) (by omega)
  have e1 : stage + (j + 1) - tss = stage + 1 + j - tss := by omega
  have e2 : m + 1 - 1 - (j + 1) = m - 1 - j := by omega
  have e3 : (u * u) ^ (2^j) = u ^ (2^(j+1)) := by rw [← pow_two, ← pow_mul, ← pow_succ']
  rw [e1, e2] at this
  rw [e3]; exact this

theorem TwOK.rowsOK {tw : List (List R)} {tss stage m : Nat} {u : R} (h : TwOK tw tss stage (m+1) u)
    (hs : tss ≤ stage) :
    ∀ j, j < m+1 → RowOK ((kerRows tw (stage - tss) (m+1)).getD j []) (u ^ (2^j)) (2^(m+1-1-j)) := by
  intro j hj
  by_cases hjm : j < m
  · have := h j hj (by omega)
    have e : stage + j - tss = stage - tss + j := by omega
    rw [e] at this
    simpa [kerRows, List.getD_eq_getElem?_getD, List.getElem?_append_left, hjm] using this
  · have : j = m := by omega
    subst this
    simp [kerRows, List.getD_eq_getElem?_getD, RowOK, powers, iter]

theorem difFFT_eq_difCore (kers : List Nat) (tw : List (List R)) (tss m : Nat) :
    ∀ (w u : R) (stage : Nat) (a : List R), a.length = 2^m → (stage < tss → w = u) →
      TwOK tw tss stage m u → difFFT kers tw tss m w stage a = difCore m u a := by
  induction m with
  | zero => intro w u stage a _ _ _; simp [difFFT, difCore]
  | succ m ih =>
    intro w u stage a ha hwu htw
    have ha' : a.length = 2^m + 2^m := by rw [ha, pow_succ]; ring
    have hp : 0 < 2^m := Nat.pow_pos (by decide)
    have hl1 : (List.zipWith (· + ·) (a.take (2^m)) (a.drop (2^m))).length = 2^m := by simp; omega
    unfold difFFT
    split
    · rename_i hk
      rw [kerDIF_eq (m+1) _ u (htw.rowsOK hk.1) 1 a (by simpa using ha), mapBlocks_one _ _ _ ha]
    · simp only []
      split
      · rename_i hs
        have := hwu hs; subst this
        rw [ih _ (w*w) _ _ hl1 (fun _ => rfl) htw.next, ih _ (w*w) _ _ (by simp; omega) (fun _ => rfl) htw.next]
        rfl
      · rename_i hs
        have hr : RowOK (tw.getD (stage - tss) []) u (2^m) := by
          have := htw 0 (by omega) (by omega)
          simpa using this
        rw [zipWith_row _ _ _ _ _ (by simp; omega) hr]
        rw [ih _ (u*u) _ _ hl1 (fun h => by omega) htw.next,
          ih _ (u*u) _ _ (by simp; omega) (fun h => by omega) htw.next]
        rfl

theorem ditFFT_eq_ditCore (kers : List Nat) (tw : List (List R)) (tss m : Nat) :
    ∀ (w u : R) (stage : Nat) (a : List R), a.length = 2^m → (stage < tss → w = u) →
      TwOK tw tss stage m u → ditFFT kers tw tss m w stage a = ditCore m u a := by
  induction m with
  | zero => intro w u stage a _ _ _; simp [ditFFT, ditCore]
  | succ m ih =>
    intro w u stage a ha hwu htw
    have ha' : a.length = 2^m + 2^m := by rw [ha, pow_succ]; ring
    have hp : 0 < 2^m := Nat.pow_pos (by decide)
    unfold ditFFT
    split
    · rename_i hk
      rw [kerDIT_eq (m+1) _ u (htw.rowsOK hk.1) 1 a (by simpa using ha), mapBlocks_one _ _ _ ha]
    · simp only []
      have hnext : ∀ b : List R, b.length = 2^m →
          ditFFT kers tw tss m (w*w) (stage+1) b = ditCore m (u*u) b := by
        intro b hb
        by_cases hs : stage < tss
        · have := hwu hs; subst this
          exact ih _ _ _ _ hb (fun _ => rfl) htw.next
        · exact ih _ _ _ _ hb (fun h => by omega) htw.next
      rw [hnext _ (by simp; omega), hnext _ (by simp; omega)]
      split
      · rename_i hs
        have := hwu hs; subst this
        rfl
      · rename_i hs
        have hr : RowOK (tw.getD (stage - tss) []) u (2^m) := by
          have := htw 0 (by omega) (by omega)
          simpa using this
        simp only [ditCore, bfDIT]
        rw [zipWith_row _ _ _ _ _ (ditCore_length _ _ _ (by simp; omega)) hr]
end

section
variable {R : Type} [CommRing R]

/-- DIF with the inverse root undoes DIT up to the factor `2^m` (any scalar `c` carried along) -/
theorem difCore_ditCore (m : Nat) (w w' : R) (hww : w * w' = 1) (c : R) (b : List R) (hb : b.length = 2^m) :
    difCore m w' ((ditCore m w b).map (fun x => c * x)) = b.map (fun x => c * (2:R)^m * x) := by
  induction m generalizing w w' b c with
  | zero => simp [ditCore, difCore]
  | succ m ih =>
    have hb' : b.length = 2^m + 2^m := by rw [hb, pow_succ]; ring
    have hp : 0 < 2^m := Nat.pow_pos (by decide)
    have hww2 : (w * w) * (w' * w') = 1 := by
      have : (w * w) * (w' * w') = (w * w') * (w * w') := by ring
      rw [this, hww, one_mul]
    have hL : (ditCore m (w*w) (b.take (2^m))).length = 2^m := ditCore_length _ _ _ (by simp; omega)
    have hH : (ditCore m (w*w) (b.drop (2^m))).length = 2^m := ditCore_length _ _ _ (by simp; omega)
    simp only [ditCore, difCore]
    set L := ditCore m (w*w) (b.take (2^m)) with hLdef
    set H := ditCore m (w*w) (b.drop (2^m)) with hHdef
    have hBF := bfDIT_length (powers w (2^m)) L H (2^m) hL hH (by simp)
    set D := (bfDIT (powers w (2^m)) L H).map (fun x => c * x) with hD
    have hDl : D.length = 2^m + 2^m := by simp [hD, hBF]
    have hDlo : ∀ i, i < 2^m → D.getD i 0 = c * (L.getD i 0 + H.getD i 0 * w^i) := by
      intro i hi
      rw [hD, getD_map _ _ _ (by omega), getD_bfDIT_lo _ _ _ (2^m) i hL hH (by simp) hi, getD_powers _ _ _ hi]
    have hDhi : ∀ i, i < 2^m → D.getD (2^m + i) 0 = c * (L.getD i 0 - H.getD i 0 * w^i) := by
      intro i hi
      rw [hD, getD_map _ _ _ (by omega), getD_bfDIT_hi _ _ _ (2^m) i hL hH (by simp) hi, getD_powers _ _ _ hi]
    have e1 : List.zipWith (· + ·) (D.take (2^m)) (D.drop (2^m)) = L.map (fun x => (2 * c) * x) := by
      apply ext_getD (by simp [hDl, hL])
      intro i hi
      have hi' : i < 2^m := by simp [hDl] at hi; omega
      rw [getD_zipWith _ _ _ _ (by simp; omega) (by simp; omega), getD_take _ _ _ hi', getD_drop,
        hDlo _ hi', hDhi _ hi', getD_map _ _ _ (by omega)]
      ring
    have e2 : List.zipWith (· * ·) (List.zipWith (· - ·) (D.take (2^m)) (D.drop (2^m))) (powers w' (2^m))
        = H.map (fun x => (2 * c) * x) := by
      apply ext_getD (by simp [hDl, hH])
      intro i hi
      have hi' : i < 2^m := by simp [hDl] at hi; omega
      rw [getD_zipWith _ _ _ _ (by simp; omega) (by simpa using hi'),
        getD_zipWith _ _ _ _ (by simp; omega) (by simp; omega), getD_take _ _ _ hi', getD_drop,
        hDlo _ hi', hDhi _ hi', getD_map _ _ _ (by omega), getD_powers _ _ _ hi']
      have := pow_mul_pow_eq_one hww i
      linear_combination (2 * c * H.getD i 0) * this
    rw [e1, e2, hLdef, hHdef, ih _ _ hww2 _ _ (by simp; omega), ih _ _ hww2 _ _ (by simp; omega), ← List.map_append,
      List.take_append_drop]
    apply List.map_congr_left
    intro x _
    ring
end

section
variable {R : Type} [CommRing R]

/-- `buildTwiddles`: row `i` starts with the powers of `w^(2^i)` -/
theorem buildTwiddles_row (w : R) (nb i : Nat) (hi : i < nb) :
    RowOK ((buildTwiddles w nb).getD i []) (w ^ (2^i)) (2^(nb-1-i)) := by
  have hnb : nb ≠ 0 := by omega
  have e : nb - i - 1 = nb - 1 - i := by omega
  simp only [buildTwiddles, hnb, if_false, RowOK]
  rw [List.getD_eq_getElem?_getD, List.getElem?_map, List.getElem?_range hi]
  simp only [Option.map_some, Option.getD_some, e]
  rw [← List.map_take, List.take_range]
  have : min (2^(nb-1-i)) (1 + 2^(nb-1-i)) = 2^(nb-1-i) := by omega
  rw [this]
  apply ext_getD (by simp)
  intro j hj
  simp at hj
  have hlt : j * 2^i < 1 + 2^(nb-1) := by
    have h1 : 2^(nb-1-i) * 2^i = 2^(nb-1) := by rw [← pow_add]; congr 1; omega
    have : j * 2^i < 2^(nb-1-i) * 2^i := Nat.mul_lt_mul_of_pos_right hj (Nat.pow_pos (by decide))
    omega
  rw [getD_powers _ _ _ hj, getD_of_lt _ _ (by simpa using hj)]
  simp only [List.getElem_map, List.getElem_range]
  have := getD_powers w (1 + 2^(nb-1)) (j * 2^i) hlt
  simp only [List.getD_eq_getElem?_getD] at this
  simp only [Array.getD_eq_getD_getElem?, List.getElem?_toArray, this]
  rw [← pow_mul, mul_comm]

theorem tables_ok (d : Domain R) (w : R) : TwOK (tables d w).1 (tables d w).2 0 d.m w := by
  intro j hj hs
  by_cases hp : d.precomp = true
  · simp only [tables, hp, if_true] at hs ⊢
    simpa using buildTwiddles_row w d.m j hj
  · by_cases hm : d.m - 3 > 0
    · simp only [tables, hp, hm, if_true, if_false, Bool.false_eq_true] at hs ⊢
      have := buildTwiddles_row (pw w (2^3)) (d.m - 3) (j - 3) (by omega)
      have e1 : d.m - 3 - 1 - (j - 3) = d.m - 1 - j := by omega
      have e2 : (pw w (2^3)) ^ (2^(j-3)) = w ^ (2^j) := by
        rw [pw_eq, ← pow_mul, ← pow_add]; congr 2; omega
      rw [e1, e2] at this
      simpa using this
    · simp only [tables, hp, hm, if_false, Bool.false_eq_true] at hs
      omega
end

section
variable {R : Type} [CommRing R]

/-- forward coset pre-scaling of the model, as a function of (decimation, coset) -/
def preScale (d : Domain R) (dif coset : Bool) (a : List R) : List R :=
  if coset then
    if dif then List.zipWith (· * ·) a (powers d.g a.length)
    else List.zipWith (· * ·) a (bitReverse d.m (powers d.g a.length))
  else a

theorem preScale_length (d : Domain R) (dif coset : Bool) (a : List R) :
    (preScale d dif coset a).length = a.length := by
  unfold preScale; split <;> [split; skip] <;> simp

/-- the table/kernel/stage machinery of `FFT` computes the plain recursion (for every kernel set and both
    precompute modes) -/
theorem FFT_eq_core (kers : List Nat) (d : Domain R) (dif coset : Bool) (a : List R) (ha : a.length = 2^d.m) :
    FFT kers d dif coset a =
      if dif then difCore d.m d.gen (preScale d dif coset a) else ditCore d.m d.gen (preScale d dif coset a) := by
  have hl := preScale_length d dif coset a
  cases dif
  · simp only [FFT, Bool.false_eq_true, if_false]
    exact ditFFT_eq_ditCore kers _ _ d.m d.gen d.gen 0 _ (by rw [← ha]; exact hl) (fun _ => rfl) (tables_ok d d.gen)
  · simp only [FFT, if_true]
    exact difFFT_eq_difCore kers _ _ d.m d.gen d.gen 0 _ (by rw [← ha]; exact hl) (fun _ => rfl) (tables_ok d d.gen)

/-- inverse post-scaling of the model -/
def postScale (d : Domain R) (dif coset : Bool) (a1 : List R) : List R :=
  if !coset then a1.map (· * d.cardInv)
  else if !dif then
    if d.precomp then List.zipWith (fun x t => x * t * d.cardInv) a1 (powers d.gInv a1.length)
    else List.zipWith (· * ·) a1 (iter d.gInv (1 * d.cardInv) a1.length)
  else
    List.zipWith (fun x t => x * t * d.cardInv) a1 (bitReverse d.m (powers d.gInv a1.length))

theorem FFTInverse_eq_core (kers : List Nat) (d : Domain R) (dif coset : Bool) (a : List R)
    (ha : a.length = 2^d.m) :
    FFTInverse kers d dif coset a =
      postScale d dif coset (if dif then difCore d.m d.genInv a else ditCore d.m d.genInv a) := by
  cases dif
  · simp only [FFTInverse, postScale, Bool.false_eq_true, if_false]
    rw [ditFFT_eq_ditCore kers _ _ d.m d.genInv d.genInv 0 _ ha (fun _ => rfl) (tables_ok d d.genInv),
      ditCore_length _ _ _ ha, ha]
    rfl
  · simp only [FFTInverse, postScale, if_true]
    rw [difFFT_eq_difCore kers _ _ d.m d.genInv d.genInv 0 _ ha (fun _ => rfl) (tables_ok d d.genInv),
      difCore_length _ _ _ ha, ha]
    rfl

/-- evaluations of `Σ a_j X^j` on the domain `ω^k` (or on the coset `g·ω^k`), natural order -/
def evals (d : Domain R) (coset : Bool) (a : List R) : List R :=
  (List.range a.length).map (fun k => evalAt a (if coset then d.g * d.gen ^ k else d.gen ^ k))

theorem dft_eq_evals (d : Domain R) (a : List R) : dft d.gen a = evals d false a := by
  simp only [dft, evals]
  apply List.map_congr_left
  intro k _
  rw [dftAt_eq, evalAt_eq]
  exact Finset.sum_congr rfl (fun j _ => by simp [mul_comm j k, pow_mul])

theorem dft_coset_eq_evals (d : Domain R) (a : List R) :
    dft d.gen (List.zipWith (· * ·) a (powers d.g a.length)) = evals d true a := by
  simp only [dft, evals, List.length_zipWith, powers_length, Nat.min_self]
  apply List.map_congr_left
  intro k _
  rw [dftAt_eq, evalAt_eq]
  simp only [List.length_zipWith, powers_length, Nat.min_self, if_true]
  refine Finset.sum_congr rfl (fun j hj => ?_)
  have hj' := Finset.mem_range.mp hj
  rw [getD_zipWith _ _ _ _ hj' (by simpa using hj'), getD_powers _ _ _ hj', mul_pow, mul_comm j k, pow_mul]
  ring

/-- bit-reversed coset table access = bit reversal of the naturally scaled vector -/
theorem zipWith_bitReverse (m : Nat) (a t : List R) (ha : a.length = 2^m) (ht : t.length = 2^m) :
    List.zipWith (· * ·) (bitReverse m a) (bitReverse m t) = bitReverse m (List.zipWith (· * ·) a t) := by
  apply ext_getD (by simp [ha, ht])
  intro i hi
  simp [ha, ht] at hi
  have hb := bitrev_lt m i
  rw [getD_zipWith _ _ _ _ (by simp; omega) (by simp; omega), getD_bitReverse _ _ _ (by omega),
    getD_bitReverse _ _ _ (by omega), getD_bitReverse _ _ _ (by simp; omega),
    getD_zipWith _ _ _ _ (by omega) (by omega)]

theorem getD_iter (w x : R) (n i : Nat) (h : i < n) : (iter w x n).getD i 0 = x * w ^ i := by
  rw [getD_of_lt _ _ (by simpa using h), iter_getElem]
end


section
variable {R : Type} [CommRing R]
theorem getD_map_range (f : Nat → R) (n k : Nat) (hk : k < n) : ((List.range n).map f).getD k 0 = f k := by
  rw [getD_of_lt _ _ (by simpa using hk)]; simp
end

section
variable {R : Type} [CommRing R]

/-- `ditCore_difCore` with a scalar carried along -/
theorem ditCore_difCore_smul (m : Nat) (w w' : R) (hww : w * w' = 1) (c : R) (a : List R) (ha : a.length = 2^m) :
    ditCore m w' ((difCore m w a).map (fun x => c * x)) = a.map (fun x => c * (2:R)^m * x) := by
  induction m generalizing w w' a with
  | zero => simp [ditCore, difCore]
  | succ m ih =>
    have ha' : a.length = 2^m + 2^m := by rw [ha, pow_succ]; ring
    have hp : 0 < 2^m := Nat.pow_pos (by decide)
    have hww2 : (w * w) * (w' * w') = 1 := by
      have : (w * w) * (w' * w') = (w * w') * (w * w') := by ring
      rw [this, hww, one_mul]
    simp only [ditCore, difCore, List.map_append]
    have hlu : (List.zipWith (· + ·) (a.take (2^m)) (a.drop (2^m))).length = 2^m := by simp; omega
    have hlv : (List.zipWith (· * ·) (List.zipWith (· - ·) (a.take (2^m)) (a.drop (2^m))) (powers w (2^m))).length = 2^m := by
      simp; omega
    have hX : ((difCore m (w*w) (List.zipWith (· + ·) (a.take (2^m)) (a.drop (2^m)))).map (fun x => c * x)).length
        = 2^m := by rw [List.length_map]; exact difCore_length _ _ _ hlu
    rw [List.take_left' hX, List.drop_left' hX, ih _ _ hww2 _ hlu, ih _ _ hww2 _ hlv]
    have hL := bfDIT_length (powers w' (2^m))
      ((List.zipWith (· + ·) (a.take (2^m)) (a.drop (2^m))).map (fun x => c * (2:R)^m * x))
      ((List.zipWith (· * ·) (List.zipWith (· - ·) (a.take (2^m)) (a.drop (2^m))) (powers w (2^m))).map
        (fun x => c * (2:R)^m * x)) (2^m) (by simpa using hlu) (by simpa using hlv) (by simp)
    apply ext_getD (by rw [hL]; simp [ha'])
    intro i h1
    rw [hL] at h1
    rw [getD_map _ _ _ (by omega)]
    by_cases hi : i < 2^m
    · rw [getD_bfDIT_lo _ _ _ (2^m) i (by simpa using hlu) (by simpa using hlv) (by simp) hi,
        getD_map _ _ _ (by omega), getD_map _ _ _ (by omega), getD_zipWith _ _ _ _ (by simp; omega) (by simp; omega),
        getD_zipWith _ _ _ _ (by simp; omega) (by simpa using hi), getD_zipWith _ _ _ _ (by simp; omega) (by simp; omega),
        getD_take _ _ _ hi, getD_drop, getD_powers _ _ _ hi, getD_powers _ _ _ hi]
      have := pow_mul_pow_eq_one hww i
      linear_combination (c * (2:R)^m * (a.getD i 0 - a.getD (2^m + i) 0)) * this
    · have hi2 : i - 2^m < 2^m := by omega
      have hi3 : i = 2^m + (i - 2^m) := by omega
      rw [hi3, getD_bfDIT_hi _ _ _ (2^m) _ (by simpa using hlu) (by simpa using hlv) (by simp) hi2,
        getD_map _ _ _ (by omega), getD_map _ _ _ (by omega), getD_zipWith _ _ _ _ (by simp; omega) (by simp; omega),
        getD_zipWith _ _ _ _ (by simp; omega) (by simp; omega), getD_zipWith _ _ _ _ (by simp; omega) (by simp; omega),
        getD_take _ _ _ hi2, getD_drop, getD_powers _ _ _ hi2, getD_powers _ _ _ hi2]
      have := pow_mul_pow_eq_one hww (i - 2^m)
      linear_combination (-(c * (2:R)^m) * (a.getD (i - 2^m) 0 - a.getD (2^m + (i - 2^m)) 0)) * this

/-- forward pre-scaling applied to an inverse post-scaled vector: the coset factors cancel, `cardInv` remains -/
theorem preScale_postScale (d : Domain R) (dif coset : Bool) (x : List R) (hx : x.length = 2^d.m)
    (hg : d.g * d.gInv = 1) :
    preScale d dif coset (postScale d (!dif) coset x) = x.map (fun y => d.cardInv * y) := by
  have hgi := fun i => pow_mul_pow_eq_one hg i
  cases coset
  · simp only [preScale, postScale, Bool.not_false, if_true, Bool.false_eq_true, if_false]
    apply List.map_congr_left; intro y _; ring
  · cases dif
    · -- forward DIT (bit-reversed table), inverse DIF (bit-reversed table)
      simp only [preScale, postScale, Bool.not_true, Bool.not_false, Bool.false_eq_true, if_false, if_true,
        List.length_zipWith, bitReverse_length, powers_length, hx, Nat.min_self]
      apply ext_getD (by simp [hx])
      intro i hi
      have hi' : i < 2^d.m := by simp [hx] at hi; omega
      have hb := bitrev_lt d.m i
      rw [getD_zipWith _ _ _ _ (by simp [hx]; omega) (by simpa using hi'),
        getD_zipWith _ _ _ _ (by omega) (by simpa using hi'), getD_map _ _ _ (by omega),
        getD_bitReverse _ _ _ (by simpa using hi'), getD_bitReverse _ _ _ (by simpa using hi'),
        getD_powers _ _ _ hb, getD_powers _ _ _ hb]
      linear_combination (x.getD i 0 * d.cardInv) * hgi (bitrev d.m i)
    · cases hpc : d.precomp
      · simp only [preScale, postScale, hpc, Bool.not_true, Bool.not_false, Bool.false_eq_true, if_false, if_true,
          List.length_zipWith, iter_length, hx, Nat.min_self]
        apply ext_getD (by simp [hx])
        intro i hi
        have hi' : i < 2^d.m := by simp [hx] at hi; omega
        rw [getD_zipWith _ _ _ _ (by simp [hx]; omega) (by simpa using hi'),
          getD_zipWith _ _ _ _ (by omega) (by simpa using hi'), getD_map _ _ _ (by omega),
          getD_iter _ _ _ _ hi', getD_powers _ _ _ hi']
        linear_combination (x.getD i 0 * d.cardInv) * hgi i
      · simp only [preScale, postScale, hpc, Bool.not_true, Bool.not_false, Bool.false_eq_true, if_false, if_true,
          List.length_zipWith, powers_length, hx, Nat.min_self]
        apply ext_getD (by simp [hx])
        intro i hi
        have hi' : i < 2^d.m := by simp [hx] at hi; omega
        rw [getD_zipWith _ _ _ _ (by simp [hx]; omega) (by simpa using hi'),
          getD_zipWith _ _ _ _ (by omega) (by simpa using hi'), getD_map _ _ _ (by omega),
          getD_powers _ _ _ hi', getD_powers _ _ _ hi']
        linear_combination (x.getD i 0 * d.cardInv) * hgi i
end


section
variable {R : Type} [CommRing R]
theorem postScale_length (d : Domain R) (dif coset : Bool) (x : List R) :
    (postScale d dif coset x).length = x.length := by
  cases dif <;> cases coset <;> cases hp : d.precomp <;> simp [postScale, hp]
end

end GV.FFT
