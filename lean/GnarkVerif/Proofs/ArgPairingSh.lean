import GnarkVerif.Proofs.ArgPairingPoly
/-
C17a helper lemmas, part 3: Lagrange interpolation, divisibility by vanishing polynomials, and the completeness of SHPLONK
`BatchOpen`/`BatchVerify` over an arbitrary field (the exponent model with the field's own dictionary).
-/
namespace GV.ArgPairing
open GV GV.Alg Polynomial

section sh
variable {K : Type} [Field K] [DecidableEq K]

theorem getD_getElem {β : Type} (l : List β) (d : β) (i : Nat) (h : i < l.length) : l.getD i d = l[i] := by
  simp [List.getD_eq_getElem?_getD, h]

theorem evalP_scaleP (c : K) (f : List K) (x : K) :
    evalP (ofField K) (scaleP (ofField K) c f) x = c * evalP (ofField K) f x := by
  simp [evalP_eq, toPoly_scaleP]

theorem npow_eq (x : K) (n : Nat) : npow (ofField K) x n = x ^ n := by
  induction n with
  | zero => simp [npow]
  | succ n ih => simp [npow, ih, pow_succ]

/-- value of the vanishing polynomial -/
theorem eval_vanishing (xs : List K) (x : K) :
    evalP (ofField K) (vanishing (ofField K) xs) x = (xs.map (fun a => x - a)).prod := by
  rw [evalP_eq, toPoly_vanishing, eval_list_prod, List.map_map]
  congr 1
  apply List.map_congr_left
  intro a _; simp

/-- `buildLagrangeFromDomain`: `Lᵢ(x_k) = δᵢₖ` on pairwise distinct nodes -/
theorem evalP_lagrange (xs : List K) (hn : xs.Nodup) (i k : Nat) (hi : i < xs.length) (hk : k < xs.length) :
    evalP (ofField K) (lagrange (ofField K) xs i) (xs.getD k 0) = if k = i then 1 else 0 := by
  unfold lagrange
  simp only [evalP_scaleP, ofField_inv, ofField_zero]
  rw [getD_getElem _ _ _ hi, getD_getElem _ _ _ hk]
  by_cases hki : k = i
  · subst hki
    rw [if_pos rfl]
    apply inv_mul_cancel₀
    rw [eval_vanishing]
    intro h0
    rw [List.prod_eq_zero_iff, List.mem_map] at h0
    obtain ⟨a, ha, e⟩ := h0
    rw [List.mem_eraseIdx_iff_getElem] at ha
    obtain ⟨j, hj, hne, hja⟩ := ha
    have : xs[j] = xs[k] := by rw [hja]; exact (sub_eq_zero.mp e).symm
    exact hne ((hn.getElem_inj_iff).mp this)
  · rw [if_neg hki]
    have : evalP (ofField K) (vanishing (ofField K) (xs.eraseIdx i)) xs[k] = 0 := by
      rw [eval_vanishing, List.prod_eq_zero_iff, List.mem_map]
      exact ⟨xs[k], List.mem_eraseIdx_iff_getElem.mpr ⟨k, hk, hki, rfl⟩, sub_self _⟩
    rw [this, mul_zero]

theorem evalP_sumP (g : Nat → List K) (n : Nat) (x : K) :
    evalP (ofField K) (sumP (ofField K) g n) x = ∑ i ∈ Finset.range n, evalP (ofField K) (g i) x := by
  simp only [evalP_eq, toPoly_sumP, eval_finsetSum]

/-- `interpolate`: the result takes the prescribed values on pairwise distinct nodes -/
theorem evalP_interpolate (xs ys : List K) (hn : xs.Nodup) (k : Nat) (hk : k < xs.length) :
    evalP (ofField K) (interpolate (ofField K) xs ys) (xs.getD k 0) = ys.getD k 0 := by
  unfold interpolate
  rw [evalP_sumP, Finset.sum_eq_single k]
  · rw [evalP_scaleP, evalP_lagrange xs hn k k hk hk, if_pos rfl, mul_one]; rfl
  · intro i hi hik
    rw [evalP_scaleP, evalP_lagrange xs hn i k (Finset.mem_range.mp hi) hk, if_neg (Ne.symm hik), mul_zero]
  · intro h; exact absurd (Finset.mem_range.mpr hk) h

/-- a polynomial vanishing on pairwise distinct points is divisible by their vanishing polynomial -/
theorem prod_dvd_of_roots (xs : List K) (hn : xs.Nodup) (p : K[X]) (hr : ∀ a ∈ xs, p.eval a = 0) :
    (xs.map (fun a => X - C a)).prod ∣ p := by
  by_cases hp : p = 0
  · rw [hp]; exact dvd_zero _
  have e : (xs.map (fun a => X - C a)).prod = ((xs : Multiset K).map (fun a => X - C a)).prod := by
    simp
  rw [e, Multiset.prod_X_sub_C_dvd_iff_le_roots hp, Multiset.le_iff_subset (Multiset.coe_nodup.mpr hn)]
  intro a ha
  rw [mem_roots hp]
  exact hr a (by simpa using ha)

theorem flatten_perm (points : List (List K)) (i : Nat) (hi : i < points.length) :
    points.flatten.Perm (points.getD i [] ++ (points.eraseIdx i).flatten) := by
  induction points generalizing i with
  | nil => simp at hi
  | cons p ps ih =>
    cases i with
    | zero => simp
    | succ i =>
      simp only [List.length_cons, Nat.add_lt_add_iff_right] at hi
      have := ih i hi
      simp only [List.flatten_cons, List.getD_cons_succ, List.eraseIdx_cons_succ]
      exact (this.append_left p).trans (List.perm_append_comm_assoc _ _ _)

/-- `Z_T = Z_{Sᵢ}·Z_{T∖Sᵢ}` -/
theorem vanishing_split (points : List (List K)) (i : Nat) (hi : i < points.length) :
    toPoly (vanishing (ofField K) points.flatten)
      = toPoly (vanishing (ofField K) (points.getD i [])) * toPoly (ztMinusSi (ofField K) points i) := by
  unfold ztMinusSi
  rw [toPoly_vanishing, toPoly_vanishing, toPoly_vanishing, ← List.prod_append, ← List.map_append]
  exact ((flatten_perm points i hi).map _).prod_eq

theorem dot_powers (τ : K) : ∀ (p : List K) (n : Nat) (acc : K), p.length ≤ n →
    dot (ofField K) (powersFrom (ofField K) τ n acc) p = acc * evalP (ofField K) p τ := by
  intro p
  induction p with
  | nil => intro n acc _; simp [dot_nil_right]
  | cons a p ih =>
    intro n acc hl
    cases n with
    | zero => simp at hl
    | succ n =>
      simp only [List.length_cons, Nat.add_le_add_iff_right] at hl
      simp only [powersFrom, dot_cons, ih n _ hl, evalP_cons, ofField_mul]
      ring

theorem dot_range (l : List K) : ∀ (n : Nat) (g : Nat → K), l.length = n →
    dot (ofField K) l ((List.range n).map g) = ∑ i ∈ Finset.range n, l.getD i 0 * g i := by
  induction l with
  | nil => intro n g hl; subst hl; simp [dot]
  | cons a l ih =>
    intro n g hl
    cases n with
    | zero => simp at hl
    | succ n =>
      simp only [List.length_cons, Nat.add_right_cancel_iff] at hl
      rw [List.range_succ_eq_map, List.map_cons, List.map_map, dot_cons, ih n _ hl, Finset.sum_range_succ']
      simp [add_comm]

theorem kzgCommit_some (srs p : List K) (W : K) (h : kzgCommit (ofField K) srs p = some W) :
    W = dot (ofField K) srs p ∧ p.length ≤ srs.length := by
  unfold kzgCommit at h
  split at h
  · exact absurd h (by simp)
  · rename_i hc
    simp only [Option.some.injEq] at h
    exact ⟨h.symm, by omega⟩

theorem shClaimed_getD (polys points : List (List K)) (i : Nat) (hi : i < polys.length) :
    (shClaimed (ofField K) polys points).getD i []
      = (points.getD i []).map (evalP (ofField K) (polys.getD i [])) := by
  simp [shClaimed, List.getD_eq_getElem?_getD, hi]

/-- the interpolant of the honest claimed values agrees with `fᵢ` on `Sᵢ` -/
theorem shRi_agree (polys points : List (List K)) (i : Nat) (hi : i < polys.length)
    (hn : (points.getD i []).Nodup) (a : K) (ha : a ∈ points.getD i []) :
    evalP (ofField K) (shRi (ofField K) points (shClaimed (ofField K) polys points) i) a
      = evalP (ofField K) (polys.getD i []) a := by
  obtain ⟨k, hk, rfl⟩ := List.getElem_of_mem ha
  unfold shRi
  rw [shClaimed_getD polys points i hi]
  have := evalP_interpolate (points.getD i []) ((points.getD i []).map (evalP (ofField K) (polys.getD i []))) hn k hk
  rw [getD_getElem _ _ _ hk] at this
  rw [this, getD_getElem _ _ _ (by simpa using hk)]
  simp

/-! ### SHPLONK: the prover's polynomials -/

theorem toPoly_shF (polys points claimed : List (List K)) (γ : K) :
    toPoly (shF (ofField K) polys points claimed γ)
      = ∑ i ∈ Finset.range polys.length, C (γ ^ i) *
          ((toPoly (polys.getD i []) - toPoly (shRi (ofField K) points claimed i))
            * toPoly (ztMinusSi (ofField K) points i)) := by
  unfold shF
  rw [toPoly_sumP]
  apply Finset.sum_congr rfl
  intro i _
  rw [toPoly_scaleP, toPoly_mulP, toPoly_subP, npow_eq]

/-- `Z_T` divides `f = Σ γⁱ Z_{T∖Sᵢ}(fᵢ − rᵢ)` when the points of every `Sᵢ` are pairwise distinct -/
theorem shF_dvd (polys points : List (List K)) (hlen : polys.length = points.length)
    (hnd : ∀ i < points.length, (points.getD i []).Nodup) (γ : K) :
    toPoly (vanishing (ofField K) points.flatten)
      ∣ toPoly (shF (ofField K) polys points (shClaimed (ofField K) polys points) γ) := by
  rw [toPoly_shF]
  apply Finset.dvd_sum
  intro i hi
  have hi' : i < polys.length := Finset.mem_range.mp hi
  rw [vanishing_split points i (by omega)]
  apply dvd_mul_of_dvd_right
  apply mul_dvd_mul_right
  rw [toPoly_vanishing]
  apply prod_dvd_of_roots _ (hnd i (by omega))
  intro a ha
  rw [eval_sub, ← evalP_eq, ← evalP_eq, shRi_agree polys points i hi' (hnd i (by omega)) a ha, sub_self]

/-- the first quotient is exact: `f = Z_T·w` -/
theorem shW_spec (polys points : List (List K)) (hlen : polys.length = points.length)
    (hnd : ∀ i < points.length, (points.getD i []).Nodup) (γ : K) :
    toPoly (shF (ofField K) polys points (shClaimed (ofField K) polys points) γ)
      = toPoly (vanishing (ofField K) points.flatten) * toPoly (shW (ofField K) polys points γ) := by
  have := divP_exact (padTo (ofField K) (shTotal polys points)
      (shF (ofField K) polys points (shClaimed (ofField K) polys points) γ)) (vanishing (ofField K) points.flatten)
    (getLast?_vanishing _) (by rw [length_vanishing, length_padTo]; unfold shTotal; omega)
    (by rw [toPoly_padTo]; exact shF_dvd polys points hlen hnd γ)
  rwa [toPoly_padTo] at this

theorem toPoly_shL (polys points claimed : List (List K)) (γ z : K) (w : List K) :
    toPoly (shL (ofField K) polys points claimed γ z w)
      = (∑ i ∈ Finset.range polys.length, C (shGz (ofField K) points γ z i) *
          (toPoly (polys.getD i []) - C (evalP (ofField K) (shRi (ofField K) points claimed i) z)))
        - C (evalP (ofField K) (vanishing (ofField K) points.flatten) z) * toPoly w := by
  unfold shL
  rw [toPoly_subP, toPoly_sumP, toPoly_scaleP]
  congr 1
  apply Finset.sum_congr rfl
  intro i _
  rw [toPoly_scaleP, toPoly_subP, toPoly_padTo]
  simp

/-- `L(z) = f(z) − Z_T(z)·w(z)` -/
theorem shL_eval_z (polys points claimed : List (List K)) (γ z : K) (w : List K) :
    (toPoly (shL (ofField K) polys points claimed γ z w)).eval z
      = (toPoly (shF (ofField K) polys points claimed γ)).eval z
        - (toPoly (vanishing (ofField K) points.flatten)).eval z * (toPoly w).eval z := by
  rw [toPoly_shL, toPoly_shF]
  simp only [eval_sub, eval_finsetSum, eval_mul, eval_C, shGz, evalP_eq, npow_eq, ofField_mul]
  congr 1
  apply Finset.sum_congr rfl
  intro i _
  ring

/-- the second quotient is exact: `L = (X − z)·w'` -/
theorem shWP_spec (polys points : List (List K)) (hlen : polys.length = points.length)
    (hnd : ∀ i < points.length, (points.getD i []).Nodup) (γ z : K) :
    toPoly (shL (ofField K) polys points (shClaimed (ofField K) polys points) γ z (shW (ofField K) polys points γ))
      = (X - C z) * toPoly (shWP (ofField K) polys points γ z) := by
  have hv : toPoly (vanishing (ofField K) [z]) = X - C z := by simp [toPoly_vanishing]
  have hroot : (X - C z) ∣ toPoly (shL (ofField K) polys points (shClaimed (ofField K) polys points) γ z
      (shW (ofField K) polys points γ)) := by
    rw [dvd_iff_isRoot, IsRoot, shL_eval_z, shW_spec polys points hlen hnd γ, eval_mul, sub_self]
  have := divP_exact (padTo (ofField K) (shTotal polys points)
      (shL (ofField K) polys points (shClaimed (ofField K) polys points) γ z (shW (ofField K) polys points γ)))
    (vanishing (ofField K) [z]) (getLast?_vanishing _)
    (by rw [length_vanishing, length_padTo]; unfold shTotal; simp; omega)
    (by rw [toPoly_padTo, hv]; exact hroot)
  rw [toPoly_padTo, hv] at this
  exact this

/-! ### SHPLONK: the verifier on the honest proof -/

/-- what the verifier folds, for commitments `Cᵢ = fᵢ(τ)`, `W = w(τ)`: `L(τ) + z·W'` -/
theorem shFolded_honest (τ : K) (polys points : List (List K)) (hlen : polys.length = points.length)
    (γ z : K) (w : List K) (WP : K) (digests : List K) (hdl : digests.length = polys.length)
    (hd : ∀ i < polys.length, digests.getD i 0 = evalP (ofField K) (polys.getD i []) τ) :
    shFolded (ofField K) 1 { W := evalP (ofField K) w τ, WPrime := WP, claimed := shClaimed (ofField K) polys points }
        digests points γ z
      = (toPoly (shL (ofField K) polys points (shClaimed (ofField K) polys points) γ z w)).eval τ + z * WP := by
  unfold shFolded
  simp only [ofField_add, ofField_sub, ofField_mul, mul_one]
  rw [dot_range digests points.length _ (by omega), sumN_eq, toPoly_shL, ← hlen]
  simp only [eval_sub, eval_finsetSum, eval_mul, eval_C, ← evalP_eq]
  have : ∑ i ∈ Finset.range polys.length, digests.getD i 0 * shGz (ofField K) points γ z i
      = ∑ i ∈ Finset.range polys.length, evalP (ofField K) (polys.getD i []) τ * shGz (ofField K) points γ z i := by
    apply Finset.sum_congr rfl
    intro i hi
    rw [hd i (Finset.mem_range.mp hi)]
  rw [this, ← Finset.sum_sub_distrib]
  congr 2
  congr 1
  funext x
  ring

theorem shOpen_some {α : Type} (F : FOps α) (srs : List α) (polys points : List (List α)) (γ z : α) (pr : ShProof α)
    (h : shOpen F srs polys points γ z = some pr) :
    polys.length = points.length ∧ polys.length ≠ 0 ∧
    ∃ W WP, kzgCommit F srs (shW F polys points γ) = some W ∧ kzgCommit F srs (shWP F polys points γ z) = some WP ∧
      pr = { W := W, WPrime := WP, claimed := shClaimed F polys points } := by
  unfold shOpen at h
  by_cases h1 : polys.length ≠ points.length
  · rw [if_pos h1] at h; cases h
  rw [if_neg h1] at h
  by_cases h2 : polys.length = 0
  · rw [if_pos h2] at h; cases h
  rw [if_neg h2] at h
  refine ⟨not_not.mp h1, h2, ?_⟩
  cases hW : kzgCommit F srs (shW F polys points γ) with
  | none => simp [hW] at h
  | some W =>
    cases hWP : kzgCommit F srs (shWP F polys points γ z) with
    | none => simp [hW, hWP] at h
    | some WP =>
      simp only [hW, hWP, Option.some.injEq] at h
      exact ⟨W, WP, rfl, rfl, h.symm⟩

/-- COMPLETENESS of SHPLONK over a field: with the SRS `(1, τ, …, τ^{N−1})`, commitments `Cᵢ = ⟨srs, fᵢ⟩`, pairwise
distinct points inside every `Sᵢ`, whenever `BatchOpen` returns a proof (i.e. the SRS is long enough), `BatchVerify`
accepts it — for all polynomials, all point sets (shared or not between polynomials), all challenges `γ, z`, all `τ`. -/
theorem sh_complete_field (τ : K) (N : Nat) (polys points : List (List K)) (γ z : K) (pr : ShProof K)
    (hnd : ∀ i < points.length, (points.getD i []).Nodup)
    (hsz : ∀ p ∈ polys, p.length ≤ N)
    (hopen : shOpen (ofField K) (powersFrom (ofField K) τ N 1) polys points γ z = some pr) :
    shVerify (ofField K) 1 1 τ pr (polys.map (fun p => dot (ofField K) (powersFrom (ofField K) τ N 1) p))
      points γ z = some true := by
  obtain ⟨hlen, _, W, WP, hW, hWP, rfl⟩ := shOpen_some _ _ _ _ _ _ _ hopen
  obtain ⟨eW, lW⟩ := kzgCommit_some _ _ _ hW
  obtain ⟨eWP, lWP⟩ := kzgCommit_some _ _ _ hWP
  rw [powersFrom_length] at lW lWP
  rw [dot_powers τ _ N 1 lW, one_mul] at eW
  rw [dot_powers τ _ N 1 lWP, one_mul] at eWP
  have hcl : (shClaimed (ofField K) polys points).length = polys.length := by simp [shClaimed]
  unfold shVerify
  rw [if_neg (by simp [hcl]), if_neg (by simp [hlen])]
  simp only [Option.some.injEq]
  rw [pairingCheck_iff]
  simp only [dot_cons, dot_nil_left, ofField_neg, mul_one, add_zero]
  rw [eW, shFolded_honest τ polys points hlen γ z _ WP _ (by simp) ?_, shWP_spec polys points hlen hnd γ z, eWP]
  · simp only [eval_mul, eval_sub, eval_X, eval_C, evalP_eq]; ring
  · intro i hi
    have hp : polys.getD i [] ∈ polys := by
      rw [getD_getElem _ _ _ hi]; exact List.getElem_mem hi
    rw [List.getD_eq_getElem?_getD, List.getElem?_map]
    simp only [List.getElem?_eq_getElem hi, Option.map_some, Option.getD_some]
    rw [dot_powers τ _ N 1 (hsz _ (by rw [getD_getElem _ _ _ hi] at hp; exact hp)), one_mul, getD_getElem _ _ _ hi]

/-- EXACT ACCEPTANCE of SHPLONK over a field, honest verifying key `(G1, G2, τ·G2)`: the folded quotient identity at the
challenge point `Σᵢ γⁱ Z_{T∖Sᵢ}(z)·(Cᵢ − rᵢ(z)) − Z_T(z)·W = (τ − z)·W'` -/
theorem shVerify_field_iff (τ : K) (pr : ShProof K) (digests : List K) (points : List (List K)) (γ z : K)
    (hl1 : digests.length = pr.claimed.length) (hl2 : digests.length = points.length) :
    shVerify (ofField K) 1 1 τ pr digests points γ z = some true ↔
      (∑ i ∈ Finset.range points.length, shGz (ofField K) points γ z i *
          (digests.getD i 0 - evalP (ofField K) (shRi (ofField K) points pr.claimed i) z))
        - evalP (ofField K) (vanishing (ofField K) points.flatten) z * pr.W = (τ - z) * pr.WPrime := by
  unfold shVerify
  rw [if_neg (by simp [hl1]), if_neg (by simp [hl2])]
  simp only [Option.some.injEq]
  rw [pairingCheck_iff]
  simp only [dot_cons, dot_nil_left, ofField_neg, mul_one, add_zero]
  unfold shFolded
  simp only [ofField_add, ofField_sub, ofField_mul, mul_one]
  rw [dot_range digests points.length _ hl2, sumN_eq]
  have e : ∑ i ∈ Finset.range points.length, shGz (ofField K) points γ z i *
          (digests.getD i 0 - evalP (ofField K) (shRi (ofField K) points pr.claimed i) z)
      = ∑ i ∈ Finset.range points.length, digests.getD i 0 * shGz (ofField K) points γ z i
        - ∑ i ∈ Finset.range points.length, shGz (ofField K) points γ z i *
            evalP (ofField K) (shRi (ofField K) points pr.claimed i) z := by
    rw [← Finset.sum_sub_distrib]
    apply Finset.sum_congr rfl
    intro i _; ring
  rw [e]
  constructor <;> intro hh <;> linear_combination -hh

end sh
end GV.ArgPairing
