import Lean
import Mathlib.Tactic.Linarith
import GnarkVerif.Model.Limb
/-
Tactics for the limb-level tie (C01_limb). A generated limb function is a `let`-chain of word operations
(`a * b / W`, `a * b % W`, `(a + b + c) % W`, `(a + b + c) / W`, `subD`, `subB`, …). The tactics turn the chain into
LINEAR facts over opaque variables

    a * b = W * hi + lo,  lo < W           (Mul64)
    a + b + c = W * co + s,  s < W         (Add64)
    a + W * bo = b + bi + d, d < W, bo ≤ 1 (Sub64)

and then eliminate the results the Go code discards (`drop_k`): a discarded carry/borrow is shown to be `< 1` by
`linarith` (this is where the no-carry conditions on the modulus are used), a discarded low word is shown to be `0`
by `omega` on the few facts defining it (this is the Montgomery identity `t + (t·qInvNeg mod W)·q₀ ≡ 0 (mod W)`).
What remains is closed by `linarith`.
-/
open Lean Meta Elab Tactic

namespace GV.Limb

/-- introduce every leading `let x := v` of the goal as an opaque `x` with a hypothesis `x_def : x = v` (names kept) -/
partial def introLetsEq (g : MVarId) : MetaM MVarId := do
  let t ← g.getType
  if t.isLet then
    let (x, g) ← g.intro1P
    let g ← g.withContext do
      let some val := (← x.getDecl).value? | throwError "intro_lets: no value"
      let eq ← mkEq (mkFVar x) val
      let g ← g.assert ((← x.getUserName).appendAfter "_def") eq (← mkEqRefl (mkFVar x))
      let (_, g) ← g.intro1P
      g.clearValue x
    introLetsEq g
  else return g

elab "intro_lets" : tactic => liftMetaTactic fun g => do return [← introLetsEq g]

theorem divmod_pair {x y e w : Nat} (hx : x = e / w) (hy : y = e % w) (hw : 0 < w) :
    e = w * x + y ∧ y < w := by
  subst hx; subst hy; exact ⟨(Nat.div_add_mod e w).symm, Nat.mod_lt _ hw⟩

theorem sub_pair {d bo w a b c : Nat} (hd : d = subD w a b c) (hb : bo = subB a b c)
    (ha : a < w) (hbc : b + c ≤ w) : a + w * bo = b + c + d ∧ d < w ∧ bo ≤ 1 := by
  subst hd; subst hb
  unfold subD subB
  by_cases h : a < b + c
  · simp only [if_pos h, Nat.mul_one]
    have e : (a + w - (b + c)) % w = a + w - (b + c) := Nat.mod_eq_of_lt (by omega)
    rw [e]; omega
  · simp only [if_neg h, Nat.mul_zero, Nat.add_zero]
    have e : (a - (b + c)) % w = a - (b + c) := Nat.mod_eq_of_lt (by omega)
    rw [e]; omega

theorem carry_le_one {x e w : Nat} (hx : x = e / w) (he : e < 2 * w) : x ≤ 1 := by
  subst hx
  have : e / w < 2 := Nat.div_lt_of_lt_mul (by omega)
  omega

theorem mod_lt_of_def {x e w : Nat} (hx : x = e % w) (hw : 0 < w) : x < w := hx ▸ Nat.mod_lt _ hw

theorem eq_zero_of_lt_one {x : Nat} (h : x < 1) : x = 0 := by omega
theorem eq_one_of_pos_lt_two {x : Nat} (h1 : 0 < x) (h2 : x < 2) : x = 1 := by omega

/-- is `t` of the form `x < lit` / `x ≤ lit` with `x` a free variable -/
def isSimpleBound (t : Expr) : Bool :=
  match t.getAppFnArgs with
  | (``LT.lt, #[_, _, a, b]) => a.isFVar && b.isRawNatLit || (a.isFVar && (b.nat?).isSome)
  | (``LE.le, #[_, _, a, b]) => a.isFVar && (b.nat?).isSome
  | _ => false

/-- clear every hypothesis (proposition) of the goal except those selected by `keep` -/
def clearPropsExcept (g : MVarId) (keep : LocalDecl → MetaM Bool) : MetaM MVarId := g.withContext do
  let mut toClear : Array FVarId := #[]
  for d in (← getLCtx) do
    if d.isImplementationDetail then continue
    if ← isProp d.type then
      unless ← keep d do toClear := toClear.push d.fvarId
  g.tryClearMany toClear

def runTac (g : MVarId) (stx : TSyntax `tactic) : TacticM Bool := do
  let s ← saveState
  try
    let gs ← Lean.Elab.Tactic.run g (evalTactic stx)
    if gs.isEmpty then return true
    s.restore; return false
  catch _ => s.restore; return false

/-- prove `prop` from the simple bounds of the context by omega -/
def proveFromBounds (g : MVarId) (prop : Expr) : TacticM (Option Expr) := g.withContext do
  let m ← mkFreshExprSyntheticOpaqueMVar prop
  let g' ← clearPropsExcept m.mvarId! (fun d => do return isSimpleBound (← instantiateMVars d.type))
  if ← runTac g' (← `(tactic| omega)) then return some (← instantiateMVars m) else return none

def assertHyp (g : MVarId) (nm : Name) (prf : Expr) : MetaM MVarId := g.withContext do
  let g1 ← g.assert nm (← inferType prf) prf
  let (_, g2) ← g1.intro1P
  return g2

/-- `x = e / w` & `y = e % w` ↦ `e = w * x + y`, `y < w`;  `d = subD w a b c` & `bo = subB a b c` ↦ linear facts;
remaining `x = e % w` get `x < w` -/
def pairFacts (g0 : MVarId) : TacticM MVarId := do
  let mut g := g0
  -- collect in context order
  let decls ← g.withContext do
    let mut ds : Array LocalDecl := #[]
    for d in (← getLCtx) do
      if d.isImplementationDetail then continue
      ds := ds.push d
    return ds
  let mut divs : Array (FVarId × Expr × Expr) := #[]
  let mut mods : Array (FVarId × Expr × Expr) := #[]
  let mut subDs : Array (FVarId × Array Expr) := #[]
  let mut subBs : Array (FVarId × Array Expr) := #[]
  for d in decls do
    let t ← instantiateMVars d.type
    let some (_, lhs, rhs) := t.eq? | continue
    if !lhs.isFVar then continue
    match rhs.getAppFnArgs with
    | (``HDiv.hDiv, #[_, _, _, _, e, w]) => if (w.nat?).isSome then divs := divs.push (d.fvarId, e, w)
    | (``HMod.hMod, #[_, _, _, _, e, w]) => if (w.nat?).isSome then mods := mods.push (d.fvarId, e, w)
    | (``GV.Limb.subD, args) => subDs := subDs.push (d.fvarId, args)
    | (``GV.Limb.subB, args) => subBs := subBs.push (d.fvarId, args)
    | _ => pure ()
  let mut toClear : Array FVarId := #[]
  let mut usedMods : Array FVarId := #[]
  -- process in program order: walk `decls` again so that side conditions find earlier facts
  for d in decls do
    if let some (hd, e, w) := divs.find? (·.1 == d.fvarId) then
      if let some (hm, _, _) := mods.find? (fun (h', e', w') => e == e' && w == w' && !usedMods.contains h') then
        g ← g.withContext do
          let hw ← mkDecideProof (← mkAppM ``LT.lt #[mkNatLit 0, w])
          let prf ← mkAppM ``divmod_pair #[mkFVar hd, mkFVar hm, hw]
          let g ← assertHyp g ((← hd.getUserName).appendAfter "_lin") (← mkAppM ``And.left #[prf])
          assertHyp g ((← hm.getUserName).appendAfter "_lt") (← mkAppM ``And.right #[prf])
        -- a discarded carry: record `x ≤ 1` when the operands are bounded
        if (← g.withContext hd.getUserName).toString.startsWith "drop_" then
          let two_w ← g.withContext (mkAppM ``HMul.hMul #[mkNatLit 2, w])
          if let some he ← proveFromBounds g (← g.withContext (mkAppM ``LT.lt #[e, two_w])) then
            g ← g.withContext do
              assertHyp g ((← hd.getUserName).appendAfter "_le") (← mkAppM ``carry_le_one #[mkFVar hd, he])
        toClear := toClear.push hd |>.push hm
        usedMods := usedMods.push hm
    if let some (hb, args) := subBs.find? (·.1 == d.fvarId) then
      if let some (hd, dargs) := subDs.find? (fun (h', as) => !toClear.contains h' && as.size == 4 && args.size == 3 && as[1]! == args[0]! && as[2]! == args[1]! && as[3]! == args[2]!) then
        let w := dargs[0]!
        let (a, b, c) := (args[0]!, args[1]!, args[2]!)
        let some ha ← proveFromBounds g (← g.withContext (mkAppM ``LT.lt #[a, w]))
          | throwError "limb: cannot bound the minuend {a} of a Sub64"
        let some hbc ← proveFromBounds g (← g.withContext do mkAppM ``LE.le #[← mkAppM ``HAdd.hAdd #[b, c], w])
          | throwError "limb: cannot bound the subtrahend {b} + {c} of a Sub64"
        g ← g.withContext do
          let prf ← mkAppM ``sub_pair #[mkFVar hd, mkFVar hb, ha, hbc]
          let g ← assertHyp g ((← hb.getUserName).appendAfter "_lin") (← mkAppM ``And.left #[prf])
          let r ← mkAppM ``And.right #[prf]
          let g ← assertHyp g ((← hd.getUserName).appendAfter "_lt") (← mkAppM ``And.left #[r])
          assertHyp g ((← hb.getUserName).appendAfter "_le") (← mkAppM ``And.right #[r])
        toClear := toClear.push hd |>.push hb
    if let some (hm, _, w) := mods.find? (·.1 == d.fvarId) then
      unless usedMods.contains hm do
        -- an unpaired `x = e % w` : may have been paired with a later div; check
        if (divs.find? (fun (_, e', w') => (mods.find? (·.1 == hm)).map (fun (_, e, w) => e == e' && w == w') == some true)).isNone then
          g ← g.withContext do
            let hw ← mkDecideProof (← mkAppM ``LT.lt #[mkNatLit 0, w])
            assertHyp g ((← hm.getUserName).appendAfter "_lt") (← mkAppM ``mod_lt_of_def #[mkFVar hm, hw])
  g.tryClearMany toClear

elab "pair_facts" : tactic => do
  let g ← getMainGoal
  let g' ← pairFacts g
  replaceMainGoal [g']

/-- variables occurring in `e` -/
def fvarsOf (e : Expr) : Array FVarId := (collectFVars {} e).fvarIds

/-- eliminate the discarded results `drop_k` -/
def resolveDrops (g0 : MVarId) : TacticM MVarId := do
  let mut g := g0
  let drops ← g.withContext do
    let mut ds : Array FVarId := #[]
    for d in (← getLCtx) do
      if d.isImplementationDetail then continue
      if d.userName.toString.startsWith "drop_" && d.type.isConstOf ``Nat then ds := ds.push d.fvarId
    return ds
  for x in drops do
    -- still present?
    unless (← g.withContext do return ((← getLCtx).find? x).isSome) do continue
    -- (1) a carry: `x < 1` by linarith
    let lt1 ← g.withContext do mkAppM ``LT.lt #[mkFVar x, mkNatLit 1]
    let m ← g.withContext (mkFreshExprSyntheticOpaqueMVar lt1)
    let mut prf? : Option Expr := none
    if ← runTac m.mvarId! (← `(tactic| linarith)) then
      prf? := some (← g.withContext (mkAppM ``eq_zero_of_lt_one #[← instantiateMVars m]))
    else
      -- (2) a low word: `x = 0` by omega on the slice of facts around x
      let slice ← g.withContext do
        let lctx ← getLCtx
        let mut keep : Array FVarId := #[]
        let mut vars : Array FVarId := #[x]
        for _round in [0:3] do
          for d in lctx do
            if d.isImplementationDetail then continue
            if keep.contains d.fvarId then continue
            unless (← isProp d.type) do continue
            let t ← instantiateMVars d.type
            if t.isAppOf ``ite then continue
            -- a fact mentions a variable of the slice "as defined": equations whose rhs mentions it, bounds on it
            let mentions := fvarsOf t
            let isEq := t.eq?.isSome
            let rhsVars := match t.eq? with
              | some (_, l, r) => if l.isFVar then fvarsOf l else fvarsOf r
              | none => mentions
            if rhsVars.any vars.contains && (isEq || isSimpleBound t) then
              keep := keep.push d.fvarId
          let mut nv := vars
          for h in keep do
            let t ← instantiateMVars (← h.getDecl).type
            if t.eq?.isSome then
              for v in fvarsOf t do
                unless nv.contains v do nv := nv.push v
          vars := nv
        return keep
      let eq0 ← g.withContext do mkEq (mkFVar x) (mkNatLit 0)
      let m2 ← g.withContext (mkFreshExprSyntheticOpaqueMVar eq0)
      let g2 ← clearPropsExcept m2.mvarId! (fun d => return slice.contains d.fvarId)
      if ← runTac g2 (← `(tactic| omega)) then
        prf? := some (← instantiateMVars m2)
      else
        -- (3) a carry/borrow that is necessarily set: `0 < x` and `x < 2` by linarith
        let pos ← g.withContext do mkAppM ``LT.lt #[mkNatLit 0, mkFVar x]
        let lt2 ← g.withContext do mkAppM ``LT.lt #[mkFVar x, mkNatLit 2]
        let m3 ← g.withContext (mkFreshExprSyntheticOpaqueMVar pos)
        if ← runTac m3.mvarId! (← `(tactic| linarith)) then
          let m4 ← g.withContext (mkFreshExprSyntheticOpaqueMVar lt2)
          if ← runTac m4.mvarId! (← `(tactic| linarith)) then
            prf? := some (← g.withContext (mkAppM ``eq_one_of_pos_lt_two #[← instantiateMVars m3, ← instantiateMVars m4]))
    if let some prf := prf? then
      g ← g.withContext do
        let g1 ← assertHyp g `hdrop prf
        g1.withContext do
          let some d := (← getLCtx).findFromUserName? `hdrop | throwError "limb: internal"
          subst g1 d.fvarId
  return g

elab "resolve_drops" : tactic => do
  let g ← getMainGoal
  let g' ← resolveDrops g
  replaceMainGoal [g']

/-- `exists_local "m_"` : use the (first) local natural-number variable whose name starts with the prefix as witness -/
elab "exists_local " pre:str : tactic => do
  let g ← getMainGoal
  let nm? ← g.withContext do
    for d in (← getLCtx) do
      if d.isImplementationDetail then continue
      if d.userName.toString.startsWith pre.getString && d.type.isConstOf ``Nat then return some d.userName
    return none
  match nm? with
  | some nm => evalTactic (← `(tactic| refine ⟨$(mkIdent nm), ?_⟩))
  | none => throwError "exists_local: no local variable with prefix {pre.getString}"

/-- `subst_ites [h, …]` : every hypothesis `x = if c then a else b` is simplified with the given facts about `c`
(and the usual `¬True`, `if True` … lemmas) and, when the `if` disappears, substituted -/
elab "subst_ites " "[" ts:Lean.Parser.Tactic.simpLemma,* "]" : tactic => do
  let g ← getMainGoal
  let names ← g.withContext do
    let mut ns : Array Name := #[]
    for d in (← getLCtx) do
      if d.isImplementationDetail then continue
      let t ← instantiateMVars d.type
      if let some (_, l, r) := t.eq? then
        if l.isFVar && r.isAppOf ``ite then ns := ns.push d.userName
    return ns
  for nm in names do
    let id := mkIdent nm
    if ts.getElems.isEmpty then
      evalTactic (← `(tactic| try simp only [ne_eq, not_true_eq_false, not_false_eq_true, one_ne_zero, false_or, or_false, true_or, or_true, if_true, if_false] at $id:ident))
    else
      evalTactic (← `(tactic| try simp only [$ts,*, ne_eq, not_true_eq_false, not_false_eq_true, one_ne_zero, false_or, or_false, true_or, or_true, if_true, if_false] at $id:ident))
    let g ← getMainGoal
    let still ← g.withContext do
      match (← getLCtx).findFromUserName? nm with
      | some d =>
        let t ← instantiateMVars d.type
        match t.eq? with
        | some (_, _, r) => return r.isAppOf ``ite
        | none => return true
      | none => return true
    unless still do evalTactic (← `(tactic| try subst $id:ident))

/-- close the goal with a hypothesis whose type is SYNTACTICALLY the goal (a cheap `assumption`) -/
elab "exact_hyp" : tactic => do
  let g ← getMainGoal
  g.withContext do
    let t ← instantiateMVars (← g.getType)
    for d in (← getLCtx) do
      if d.isImplementationDetail then continue
      if (← instantiateMVars d.type) == t then
        g.assign d.toExpr
        replaceMainGoal []
        return
    throwError "exact_hyp: no hypothesis matches the goal {t}"

/-- unfold-free entry point: goal `P (f args)` after `unfold f` -/
macro "limb_start" : tactic => `(tactic| (lift_lets; intro_lets; pair_facts))

end GV.Limb
