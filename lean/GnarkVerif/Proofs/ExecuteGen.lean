import GnarkVerif.Model.MSM
import GnarkVerif.Model.ForkJoin
import GnarkVerif.Gen.Imp.Execute
/-
Helper lemmas for C04_execgen: `Execute` of Gen/Imp/Execute.lean (REGENERATED from /repo/internal/parallel/execute.go by
tools/goslp mode "imp"; result = the ordered list of `(start, end)` pairs handed to `work`) equals the hand-written
`executeRanges` of Model/MSM.lean and of Model/ForkJoin.lean.
-/
namespace GV.ExecuteGen
open GV.GoImp GV.Gen.Imp.Parallel

/-- a model range as the pair of Go `int`s handed to `work` -/
def cast (p : Nat × Nat) : Int × Int := ((p.1 : Int), (p.2 : Int))

theorem loop1_eq (per : Nat) (fuel : Nat) (nb : Int) (i extra off : Nat) (work : List (Int × Int))
    (hnb : nb = (i : Int) + (fuel : Int)) :
    (Execute.loop1 nb (per : Int) fuel work (extra : Int) (off : Int) (i : Int)).1 =
      work ++ (MSM.execLoop per fuel i extra off).map cast := by
  induction fuel generalizing i extra off work with
  | zero => simp [Execute.loop1, MSM.execLoop]
  | succ fuel ih =>
    have hlt : (i : Int) < nb := by omega
    simp only [Execute.loop1, MSM.execLoop, hlt, decide_true, if_true]
    by_cases he : extra > 0
    · have he' : ((extra : Int) > 0) := by omega
      simp only [he, he', decide_true, if_true]
      have := ih (i + 1) (extra - 1) (off + 1) (work ++ [((i : Int) * per + off, (i : Int) * per + off + per + 1)]) (by omega)
      have e1 : ((extra - 1 : Nat) : Int) = (extra : Int) - 1 := by omega
      simp only [Int.natCast_add, Int.natCast_one, e1] at this
      rw [this]
      simp [cast, Int.natCast_add, Int.natCast_mul]
    · have he' : ¬ ((extra : Int) > 0) := by omega
      simp only [he, he', decide_false, if_false, Bool.false_eq_true]
      have := ih (i + 1) extra off (work ++ [((i : Int) * per + off, (i : Int) * per + off + per)]) (by omega)
      simp only [Int.natCast_add, Int.natCast_one] at this
      rw [this]
      simp [cast, Int.natCast_add, Int.natCast_mul]

/-- without `maxCpus` the number of tasks is `runtime.NumCPU()` -/
theorem execute_default (k n : Nat) (hk : 1 ≤ k) :
    Execute (k : Int) (n : Int) [] = (MSM.executeCore n k).map cast := by
  simp only [Execute, MSM.executeCore, len]
  by_cases h1 : k = 1
  · subst h1; simp [cast]
  · have h1' : ¬ ((k : Int) = 1) := by omega
    have hdiv : Int.tdiv (n : Int) (k : Int) = ((n / k : Nat) : Int) := (Int.ofNat_tdiv n k).symm
    have h01 : ¬ (Int.ofNat 0 = 1) := by decide
    simp only [h1, h1', h01, hdiv, List.length_nil, if_false, beq_iff_eq]
    by_cases hp : n / k < 1
    · have hp' : ((n / k : Nat) : Int) < 1 := by omega
      simp only [hp, hp', decide_true, if_true]
      have := loop1_eq 1 n (n : Int) 0 (n - n * 1) 0 [] (by simp)
      have e : ((n - n * 1 : Nat) : Int) = (n : Int) - (n : Int) * 1 := by omega
      simp only [Int.natCast_zero, Int.natCast_one, e] at this
      simpa using this
    · have hp' : ¬ ((n / k : Nat) : Int) < 1 := by omega
      simp only [hp, hp', decide_false, if_false, Bool.false_eq_true]
      have hle : k * (n / k) ≤ n := Nat.mul_div_le n k
      have := loop1_eq (n / k) k (k : Int) 0 (n - k * (n / k)) 0 [] (by simp)
      have e : ((n - k * (n / k) : Nat) : Int) = (n : Int) - (k : Int) * ((n / k : Nat) : Int) := by
        rw [Int.ofNat_sub hle]; simp
      simp only [Int.natCast_zero, e] at this
      simpa using this

/-- `maxCpus` is only looked at when exactly one value is given -/
theorem execute_ignores (numCPU n : Int) (maxCpus : List Int) (h : maxCpus.length ≠ 1) :
    Execute numCPU n maxCpus = Execute numCPU n [] := by
  have h' : ¬ (Int.ofNat maxCpus.length = 1) := by
    intro e; apply h; exact Int.ofNat.inj e
  have h01 : ¬ (Int.ofNat 0 = 1) := by decide
  simp only [Execute, len, h', h01, List.length_nil, beq_iff_eq, if_false]

/-- one value: the number of tasks is that value clamped to 1..512, `runtime.NumCPU()` is not used -/
theorem execute_clamp (numCPU n m : Int) :
    Execute numCPU n [m] = Execute (if m < 1 then 1 else if m > 512 then 512 else m) n [] := by
  have h11 : Int.ofNat 1 = 1 := rfl
  have h01 : ¬ (Int.ofNat 0 = 1) := by decide
  have hix : index [m] 0 = m := rfl
  simp only [Execute, len, List.length_cons, List.length_nil, h11, h01, hix, beq_iff_eq, if_true, if_false]
  by_cases h1 : m < 1
  · simp only [h1, decide_true, if_true]
  · by_cases h2 : m > 512
    · simp only [h1, h2, decide_true, decide_false, if_true, if_false, Bool.false_eq_true]
    · simp only [h1, h2, decide_false, if_false, Bool.false_eq_true]

theorem execute_one (numCPU : Int) (n : Nat) (m : Int) :
    Execute numCPU (n : Int) [m] = (MSM.executeRanges n m).map cast := by
  rw [execute_clamp]
  unfold MSM.executeRanges
  by_cases h1 : m < 1
  · simp only [h1, if_true]; exact execute_default 1 n (Nat.le_refl 1)
  · by_cases h2 : m > 512
    · simp only [h1, h2, if_true, if_false]; exact execute_default 512 n (by omega)
    · simp only [h1, h2, if_false]
      have e : m = ((m.toNat : Nat) : Int) := by omega
      have := execute_default m.toNat n (by omega)
      rw [← e] at this
      exact this

/-- the two hand models of the loop are the same function -/
theorem forkjoin_loop (per k i extra off : Nat) : ForkJoin.executeLoop per k i extra off = MSM.execLoop per k i extra off := by
  induction k generalizing i extra off with
  | zero => rfl
  | succ k ih => simp only [ForkJoin.executeLoop, MSM.execLoop, ih]

theorem forkjoin_ranges (n nb : Nat) : ForkJoin.executeRanges n nb = MSM.executeRanges n (nb : Int) := by
  unfold ForkJoin.executeRanges ForkJoin.executeRangesClamped ForkJoin.clampTasks MSM.executeRanges MSM.executeCore
  have e : ((nb : Int) < 1) = (nb < 1) := by simp; omega
  have e2 : ((nb : Int) > 512) = (nb > 512) := by simp; omega
  simp only [forkjoin_loop, e, e2, Int.toNat_natCast]

end GV.ExecuteGen
