/- Bridge between the GENERATED bw6-761 tower structures (Gen/Tower/Bw6_761.lean) and the generic spec
   (Proofs/Tower.lean): E3 = Fp[v]/(v³ = −4), E6 = E3[w]/(w² = v). -/
import GnarkVerif.Proofs.Tower
import GnarkVerif.Gen.Tower.Bw6_761Alias

namespace GV.Gen.Tower.bw6_761
open GV.Tower

variable {F : Type} [CommRing F]

/-- the cubic non-residue of Fp: −4 -/
def nr : F := -4
/-- Fp3 = Fp[v]/(v³ = nr) -/
abbrev Fp3 (F : Type) [CommRing F] := CubicExt F (nr : F)
/-- Fp6 = Fp3[w]/(w² = v) -/
abbrev Fp6 (F : Type) [CommRing F] := QuadExt (Fp3 F) CubicExt.gen

def E3.spec (x : E3 F) : Fp3 F := ⟨x.A0, x.A1, x.A2⟩
def E6.spec (x : E6 F) : Fp6 F := ⟨x.B0.spec, x.B1.spec⟩

@[simp, gv_proj] theorem E3.spec_b0 (x : E3 F) : x.spec.b0 = x.A0 := rfl
@[simp, gv_proj] theorem E3.spec_b1 (x : E3 F) : x.spec.b1 = x.A1 := rfl
@[simp, gv_proj] theorem E3.spec_b2 (x : E3 F) : x.spec.b2 = x.A2 := rfl
@[simp, gv_proj] theorem E6.spec_a0 (x : E6 F) : x.spec.a0 = x.B0.spec := rfl
@[simp, gv_proj] theorem E6.spec_a1 (x : E6 F) : x.spec.a1 = x.B1.spec := rfl
@[simp, gv_proj] theorem E3.spec_mk (a b c : F) : (E3.mk a b c).spec = ⟨a, b, c⟩ := rfl
@[simp, gv_proj] theorem E6.spec_mk (a b : E3 F) : (E6.mk a b).spec = ⟨a.spec, b.spec⟩ := rfl

theorem E3.spec_injective : Function.Injective (E3.spec (F := F)) := by
  intro x y h
  have h0 := congrArg CubicExt.b0 h
  have h1 := congrArg CubicExt.b1 h
  have h2 := congrArg CubicExt.b2 h
  ext <;> simpa using ‹_›
theorem E6.spec_injective : Function.Injective (E6.spec (F := F)) := by
  intro x y h
  have h0 := congrArg QuadExt.a0 h
  have h1 := congrArg QuadExt.a1 h
  simp only [E6.spec_a0, E6.spec_a1] at h0 h1
  exact E6.ext (E3.spec_injective h0) (E3.spec_injective h1)

end GV.Gen.Tower.bw6_761
