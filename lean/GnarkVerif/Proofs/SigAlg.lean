import Mathlib.Algebra.Group.Basic
import Mathlib.Algebra.Module.Basic
import Mathlib.Data.Int.ModEq
import Mathlib.Data.Int.GCD
import Mathlib.Data.Nat.Prime.Basic
import Mathlib.Tactic.Ring
import Mathlib.Tactic.Abel
import Mathlib.Tactic.Linarith
/-
C12 — group-level algebra of EdDSA and ECDSA over an arbitrary commutative group (helper lemmas).
-/
namespace GV.SigAlg

variable {G : Type*} [AddCommGroup G]

/-- scalars congruent modulo the order of a point act identically on it -/
theorem zsmul_congr (B : G) (n : ℕ) (hn : (n : ℤ) • B = 0) {x y : ℤ} (h : x ≡ y [ZMOD n]) : x • B = y • B := by
  obtain ⟨k, hk⟩ := (Int.modEq_iff_dvd.1 h)
  have : y = x + (n : ℤ) * k := by linarith
  rw [this, add_smul, mul_comm, mul_smul, hn, smul_zero, add_zero]

/-- a unit modulo a prime: `n` prime and `n ∤ s` give an inverse of `s` modulo `n` -/
theorem exists_inv_of_prime (n : ℕ) (hp : n.Prime) (s : ℤ) (hs : ¬ (n : ℤ) ∣ s) : ∃ sinv : ℤ, sinv * s ≡ 1 [ZMOD n] := by
  have h1 : ¬ n ∣ s.natAbs := fun h => hs (Int.natCast_dvd.2 h)
  have h2 : Nat.Coprime n s.natAbs := (Nat.Prime.coprime_iff_not_dvd hp).2 h1
  have h3 : Int.gcd s n = 1 := by
    rw [Int.gcd_comm]
    simpa [Int.gcd] using h2
  have h4 := Int.gcd_eq_gcd_ab s n
  rw [h3] at h4
  refine ⟨Int.gcdA s n, ?_⟩
  apply Int.modEq_iff_dvd.2
  refine ⟨Int.gcdB s n, ?_⟩
  push_cast at h4
  linarith

/-- the scalar identity behind ECDSA: `s ≡ k⁻¹(e + r·d)` gives `e·s⁻¹ + r·s⁻¹·d ≡ k (mod n)` -/
theorem ecdsa_scalar (n : ℕ) (d k e r s kinv sinv : ℤ) (hk : kinv * k ≡ 1 [ZMOD n])
    (hs : s ≡ kinv * (e + r * d) [ZMOD n]) (hsi : sinv * s ≡ 1 [ZMOD n]) :
    e * sinv + r * sinv * d ≡ k [ZMOD n] := by
  have h1 : k * s ≡ e + r * d [ZMOD n] := by
    have := hs.mul_left k
    have h2 : k * (kinv * (e + r * d)) = (kinv * k) * (e + r * d) := by ring
    rw [h2] at this
    have h3 := hk.mul_right (e + r * d)
    rw [one_mul] at h3
    exact this.trans h3
  have h4 : sinv * (k * s) ≡ sinv * (e + r * d) [ZMOD n] := h1.mul_left sinv
  have h5 : sinv * (k * s) = k * (sinv * s) := by ring
  rw [h5] at h4
  have h6 := hsi.mul_left k
  rw [mul_one] at h6
  have h7 : e * sinv + r * sinv * d = sinv * (e + r * d) := by ring
  rw [h7]
  exact h4.symm.trans h6

end GV.SigAlg
