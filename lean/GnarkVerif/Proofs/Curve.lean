import Mathlib.Tactic.FieldSimp
import Mathlib.Tactic.Ring
import Mathlib.Tactic.LinearCombination
import Mathlib.Algebra.Field.Basic
/-
C02 — point formulas of gnark-crypto, hand-transcribed statement by statement (the SLP translator will later
generate the same definitions; every def takes coordinates and returns coordinates so that the theorems can be
re-targeted by replacing the def), and their algebraic correctness in *scaled form*
   (X, Y, Z) represents (x, y)  :⇔  Z ≠ 0 ∧ X = x·Z² ∧ Y = y·Z³.
Source line ranges refer to /repo/ecc/bn254/g1.go unless another file is named; g2.go and the other curves contain the
same bodies over their coordinate field (checked by K on all 17 groups).
-/
namespace GV.Curve

variable {F : Type*} [Field F]

/-! ## specification: affine chord and tangent rules, affine unified Edwards law -/

/-- chord through (x1,y1), (x2,y2), x1 ≠ x2 -/
def chord (x1 y1 x2 y2 : F) : F × F :=
  let l := (y2 - y1) / (x2 - x1)
  let x3 := l ^ 2 - x1 - x2
  (x3, l * (x1 - x3) - y1)

/-- tangent at (x1,y1), y1 ≠ 0, on y² = x³ + a·x + b -/
def tangent (a x1 y1 : F) : F × F :=
  let l := (3 * x1 ^ 2 + a) / (2 * y1)
  let x3 := l ^ 2 - 2 * x1
  (x3, l * (x1 - x3) - y1)

/-- unified affine addition on a·x² + y² = 1 + d·x²y² -/
def teAdd (a d x1 y1 x2 y2 : F) : F × F :=
  ((x1 * y2 + y1 * x2) / (1 + d * x1 * x2 * y1 * y2), (y1 * y2 - a * x1 * x2) / (1 - d * x1 * x2 * y1 * y2))

def OnCurve (a b x y : F) : Prop := y ^ 2 = x ^ 3 + a * x + b
def TeOnCurve (a d x y : F) : Prop := a * x ^ 2 + y ^ 2 = 1 + d * x ^ 2 * y ^ 2

/-! ## representation relations -/

def JacRep (X Y Z x y : F) : Prop := Z ≠ 0 ∧ X = x * Z ^ 2 ∧ Y = y * Z ^ 3
/-- extended Jacobian with explicit scaling l: ZZ = l², ZZZ = l³ -/
def XyzzRep (l X Y ZZ ZZZ x y : F) : Prop := l ≠ 0 ∧ ZZ = l ^ 2 ∧ ZZZ = l ^ 3 ∧ X = x * l ^ 2 ∧ Y = y * l ^ 3
def ProjRep (X Y Z x y : F) : Prop := Z ≠ 0 ∧ X = x * Z ∧ Y = y * Z
def ExtRep (X Y Z T x y : F) : Prop := Z ≠ 0 ∧ X = x * Z ∧ Y = y * Z ∧ T = x * y * Z

/-! ## transcribed formulas: Jacobian -/

/-- G1Jac.AddAssign, dispatch quantities U1,U2,S1,S2 — g1.go:259-267 (p receiver, q argument) -/
def jacAddUS (pX pY pZ qX qY qZ : F) : F × F × F × F :=
  let Z1Z1 := qZ * qZ
  let Z2Z2 := pZ * pZ
  let U1 := qX * Z2Z2
  let U2 := pX * Z1Z1
  let S1 := qY * pZ * Z2Z2
  let S2 := pY * qZ * Z1Z1
  (U1, U2, S1, S2)

/-- G1Jac.AddAssign, general branch (add-2007-bl) — g1.go:259-294 -/
def jacAdd (pX pY pZ qX qY qZ : F) : F × F × F :=
  let Z1Z1 := qZ * qZ
  let Z2Z2 := pZ * pZ
  let U1 := qX * Z2Z2
  let U2 := pX * Z1Z1
  let S1 := qY * pZ * Z2Z2
  let S2 := pY * qZ * Z1Z1
  let H := U2 - U1
  let I := (2 * H) * (2 * H)
  let J := H * I
  let r := 2 * (S2 - S1)
  let V := U1 * I
  let X3 := r * r - J - V - V
  let Y3 := (V - X3) * r
  let S1' := 2 * (S1 * J)
  let Y3 := Y3 - S1'
  let Z3 := pZ + qZ
  let Z3 := (Z3 * Z3 - Z1Z1 - Z2Z2) * H
  (X3, Y3, Z3)

/-- G1Jac.DoubleAssign (dbl-2007-bl, a = 0) — g1.go:399-427 -/
def jacDouble (X Y Z : F) : F × F × F :=
  let XX := X * X
  let YY := Y * Y
  let YYYY := YY * YY
  let ZZ := Z * Z
  let S := X + YY
  let S := 2 * (S * S - XX - YYYY)
  let M := 2 * XX + XX
  let Z3 := Z + Y
  let Z3 := Z3 * Z3 - YY - ZZ
  let T := M * M
  let X3 := T
  let T := 2 * S
  let X3 := X3 - T
  let Y3 := (S - X3) * M
  let YYYY := 2 * (2 * (2 * YYYY))
  let Y3 := Y3 - YYYY
  (X3, Y3, Z3)

/-- stark-curve G1Jac.DoubleAssign (a = 1: M += ZZ²) — stark-curve/g1.go:299-329 -/
def jacDoubleStark (X Y Z : F) : F × F × F :=
  let XX := X * X
  let YY := Y * Y
  let YYYY := YY * YY
  let ZZ := Z * Z
  let S := X + YY
  let S := 2 * (S * S - XX - YYYY)
  let M := 2 * XX + XX
  let ZZZZ := ZZ * ZZ
  let M := M + ZZZZ
  let Z3 := Z + Y
  let Z3 := Z3 * Z3 - YY - ZZ
  let T := M * M
  let X3 := T
  let T := 2 * S
  let X3 := X3 - T
  let Y3 := (S - X3) * M
  let YYYY := 2 * (2 * (2 * YYYY))
  let Y3 := Y3 - YYYY
  (X3, Y3, Z3)

/-- G1Jac.DoubleMixed (mdbl-2007-bl, a = 0) — g1.go:310-335 -/
def jacDoubleMixed (x y : F) : F × F × F :=
  let XX := x * x
  let YY := y * y
  let YYYY := YY * YY
  let S := x + YY
  let S := 2 * (S * S - XX - YYYY)
  let M := 2 * XX + XX
  let T := M * M - S - S
  let X3 := T
  let Y3 := (S - T) * M
  let YYYY := 2 * (2 * (2 * YYYY))
  let Y3 := Y3 - YYYY
  let Z3 := 2 * y
  (X3, Y3, Z3)

/-- G1Jac.AddMixed dispatch quantities U2,S2 — g1.go:354-358 -/
def jacAddMixedUS (pZ ax ay : F) : F × F :=
  let Z1Z1 := pZ * pZ
  (ax * Z1Z1, ay * pZ * Z1Z1)

/-- G1Jac.AddMixed, general branch (madd-2007-bl) — g1.go:354-384 -/
def jacAddMixed (pX pY pZ ax ay : F) : F × F × F :=
  let Z1Z1 := pZ * pZ
  let U2 := ax * Z1Z1
  let S2 := ay * pZ * Z1Z1
  let H := U2 - pX
  let HH := H * H
  let I := 2 * (2 * HH)
  let J := H * I
  let r := 2 * (S2 - pY)
  let V := pX * I
  let X3 := r * r - J - V - V
  let J := 2 * (J * pY)
  let Y3 := (V - X3) * r
  let Y3 := Y3 - J
  let Z3 := pZ + H
  let Z3 := Z3 * Z3 - Z1Z1 - HH
  (X3, Y3, Z3)

/-- G1Affine.Add, general branch (mmadd-2007-bl), Jacobian intermediate — g1.go:94-110 -/
def affAddJac (ax ay bx by_ : F) : F × F × F :=
  let H := bx - ax
  let HH := H * H
  let I := 2 * (2 * HH)
  let J := H * I
  let r := by_ - ay
  let r := 2 * r
  let V := ax * I
  let X := r * r - J - V - V
  let Y := (V - X) * r
  let J := 2 * (ay * J)
  let Y := Y - J
  let Z := 2 * H
  (X, Y, Z)

/-- G1Affine.FromJacobian, branch Z ≠ 0 — g1.go:160-163 -/
def fromJacobian (X Y Z : F) : F × F :=
  let a := Z⁻¹
  let b := a * a
  (X * b, Y * b * a)

/-- G1Jac.Equal, branch Z1,Z2 ≠ 0 — g1.go:220-233 -/
def jacEqualTest (pX pY pZ qX qY qZ : F) : Prop :=
  let pZSquare := pZ * pZ
  let aZSquare := qZ * qZ
  pX * aZSquare = qX * pZSquare ∧ pY * aZSquare * qZ = qY * pZSquare * pZ

/-- G1Jac.IsOnCurve (a = 0; `b` multiplied in by MulBy3 / Mul / nothing depending on the curve) — g1.go:466-476 -/
def jacIsOnCurve (b X Y Z : F) : Prop :=
  let left := Y * Y
  let right := X * X * X
  let ZZ := Z * Z
  let tmp := ZZ * ZZ * ZZ
  let tmp := b * tmp
  left = right + tmp

/-- stark-curve G1Jac.IsOnCurve (a = 1) — stark-curve/g1.go:360-373 -/
def jacIsOnCurveStark (b X Y Z : F) : Prop :=
  let left := Y * Y
  let right := X * X * X
  let tmp := (Z * Z) * (Z * Z)
  let u := X * tmp
  let right := u + right
  let tmp := tmp * Z * Z * b
  left = right + tmp

/-! ## transcribed formulas: extended Jacobian (XYZZ) -/

/-- g1JacExtended.add dispatch quantities A, B — g1.go:809-814 -/
def xyzzAddAB (pX pY pZZ pZZZ qX qY qZZ qZZZ : F) : F × F :=
  let U2 := qX * pZZ
  let U1 := pX * qZZ
  let S2 := qY * pZZZ
  let S1 := pY * qZZZ
  (U2 - U1, S2 - S1)

/-- g1JacExtended.add, general branch (add-2008-s) — g1.go:809-846 -/
def xyzzAdd (pX pY pZZ pZZZ qX qY qZZ qZZZ : F) : F × F × F × F :=
  let U2 := qX * pZZ
  let U1 := pX * qZZ
  let S2 := qY * pZZZ
  let S1 := pY * qZZZ
  let P := U2 - U1
  let R := S2 - S1
  let PP := P * P
  let PPP := P * PP
  let Q := U1 * PP
  let V := S1 * PPP
  let X3 := R * R - PPP - Q - Q
  let Y3 := (Q - X3) * R - V
  let ZZ3 := pZZ * qZZ * PP
  let ZZZ3 := pZZZ * qZZZ * PPP
  (X3, Y3, ZZ3, ZZZ3)

/-- g1JacExtended.double (dbl-2008-s-1, a = 0) — g1.go:854-876 -/
def xyzzDouble (X Y ZZ ZZZ : F) : F × F × F × F :=
  let U := 2 * Y
  let V := U * U
  let W := U * V
  let S := X * V
  let XX := X * X
  let M := 2 * XX + XX
  let U := W * Y
  let X3 := M * M - S - S
  let Y3 := (S - X3) * M - U
  (X3, Y3, V * ZZ, W * ZZZ)

/-- stark-curve g1JacExtended.double (a = 1: M += ZZ²) — stark-curve/g1.go:650-674 -/
def xyzzDoubleStark (X Y ZZ ZZZ : F) : F × F × F × F :=
  let U := 2 * Y
  let V := U * U
  let W := U * V
  let S := X * V
  let XX := X * X
  let M := 2 * XX + XX
  let Z := ZZ * ZZ
  let M := M + Z
  let U := W * Y
  let X3 := M * M - S - S
  let Y3 := (S - X3) * M - U
  (X3, Y3, V * ZZ, W * ZZZ)

/-- g1JacExtended.addMixed dispatch quantities P, R — g1.go:899-903 -/
def xyzzAddMixedPR (pX pY pZZ pZZZ ax ay : F) : F × F :=
  (ax * pZZ - pX, ay * pZZZ - pY)

/-- g1JacExtended.addMixed, general branch (madd-2008-s) — g1.go:899-930 -/
def xyzzAddMixed (pX pY pZZ pZZZ ax ay : F) : F × F × F × F :=
  let P := ax * pZZ
  let P := P - pX
  let R := ay * pZZZ
  let R := R - pY
  let PP := P * P
  let PPP := P * PP
  let Q := pX * PP
  let RR := R * R
  let X3 := RR - PPP
  let Q2 := 2 * Q
  let X3' := X3 - Q2
  let Y3 := (Q - X3') * R
  let R' := pY * PPP
  (X3', Y3 - R', pZZ * PP, pZZZ * PPP)

/-- g1JacExtended.subMixed, general branch — g1.go:955-987 (R negated) -/
def xyzzSubMixed (pX pY pZZ pZZZ ax ay : F) : F × F × F × F :=
  let P := ax * pZZ
  let P := P - pX
  let R := ay * pZZZ
  let R := -R
  let R := R - pY
  let PP := P * P
  let PPP := P * PP
  let Q := pX * PP
  let RR := R * R
  let X3 := RR - PPP
  let Q2 := 2 * Q
  let X3' := X3 - Q2
  let Y3 := (Q - X3') * R
  let R' := pY * PPP
  (X3', Y3 - R', pZZ * PP, pZZZ * PPP)

/-- g1JacExtended.doubleMixed (a = 0) — g1.go:1021-1044 -/
def xyzzDoubleMixed (x y : F) : F × F × F × F :=
  let U := 2 * y
  let V := U * U
  let W := U * V
  let S := x * V
  let XX := x * x
  let M := 2 * XX + XX
  let S2 := 2 * S
  let L := W * y
  let X3 := M * M - S2
  let Y3 := (S - X3) * M - L
  (X3, Y3, V, W)

/-- g1JacExtended.doubleNegMixed (a = 0) — g1.go:992-1016 -/
def xyzzDoubleNegMixed (x y : F) : F × F × F × F :=
  let U := 2 * y
  let U := -U
  let V := U * U
  let W := U * V
  let S := x * V
  let XX := x * x
  let M := 2 * XX + XX
  let S2 := 2 * S
  let L := W * y
  let X3 := M * M - S2
  let Y3 := (S - X3) * M + L
  (X3, Y3, V, W)

/-- stark-curve g1JacExtended.doubleMixed (after the `fix:` commit 09230d9: M = 3x² + a, a = aCurveCoeff; before it the
square of the receiver's stale ZZ was added instead) — stark-curve/g1.go doubleMixed -/
def xyzzDoubleMixedStark (a x y : F) : F × F × F × F :=
  let U := 2 * y
  let V := U * U
  let W := U * V
  let S := x * V
  let XX := x * x
  let M := 2 * XX + XX
  let M := M + a
  let S2 := 2 * S
  let L := W * y
  let X3 := M * M - S2
  let Y3 := (S - X3) * M - L
  (X3, Y3, V, W)

/-- G1Affine.fromJacExtended, branch ZZ ≠ 0 — g1.go:767-768 -/
def xyzzToAffine (X Y ZZ ZZZ : F) : F × F := (ZZ⁻¹ * X, ZZZ⁻¹ * Y)

/-- G1Jac.fromJacExtended, branch ZZ ≠ 0 — g1.go:778-780 -/
def xyzzToJac (X Y ZZ ZZZ : F) : F × F × F := (ZZ * X * ZZ, ZZZ * Y * ZZZ, ZZZ)

/-- G1Jac.unsafeFromJacExtended — g1.go:786-788 -/
def xyzzToJacUnsafe (X Y ZZ ZZZ : F) : F × F × F := (ZZ * ZZ * X, ZZZ * ZZZ * Y, ZZZ)

/-! ## transcribed formulas: twisted Edwards (ecc/bn254/twistededwards/point.go; `mulByA` is multiplication by the
curve's `a` = -1, resp. -5 for bandersnatch; kept as the parameter `a`) -/

/-- PointAffine.Add — point.go:183-200 -/
def teAffAdd (a d x1 y1 x2 y2 : F) : F × F :=
  let xv := x1 * y2
  let yu := y1 * x2
  let resX := xv + yu
  let xu := x1 * x2
  let xu := a * xu
  let yv := y1 * y2
  let resY := yv - xu
  let dxyuv := xv * yu * d
  let denx := 1 + dxyuv
  let deny := 1 - dxyuv
  (resX / denx, resY / deny)

/-- PointAffine.Double — point.go:209-223 -/
def teAffDouble (a x y : F) : F × F :=
  let xx := x * x
  let yy := y * y
  let xy := x * y
  let xx := a * xx
  let denum := xx + yy
  let X := 2 * xy / denum
  let denum := -denum + 2
  (X, (yy - xx) / denum)

/-- PointProj.Add (add-2008-bbjlp) — point.go:386-406 -/
def teProjAdd (a d X1 Y1 Z1 X2 Y2 Z2 : F) : F × F × F :=
  let A := Z1 * Z2
  let B := A * A
  let C := X1 * X2
  let D := Y1 * Y2
  let E := d * C * D
  let F' := B - E
  let G := B + E
  let H := X1 + Y1
  let I := X2 + Y2
  let X3 := (H * I - C - D) * A * F'
  let C := a * C
  let C := -C
  let Y3 := (D + C) * A * G
  (X3, Y3, F' * G)

/-- PointProj.MixedAdd (madd-2008-bbjlp) — point.go:335-353 -/
def teProjMixedAdd (a d X1 Y1 Z1 x2 y2 : F) : F × F × F :=
  let B := Z1 * Z1
  let C := X1 * x2
  let D := Y1 * y2
  let E := d * C * D
  let F' := B - E
  let G := B + E
  let H := X1 + Y1
  let I := x2 + y2
  let X3 := (H * I - C - D) * Z1 * F'
  let C := a * C
  let Y3 := (D - C) * Z1 * G
  (X3, Y3, F' * G)

/-- PointProj.Double (dbl-2008-bbjlp) — point.go:362-376 -/
def teProjDouble (a X1 Y1 Z1 : F) : F × F × F :=
  let B := X1 + Y1
  let B := B * B
  let C := X1 * X1
  let D := Y1 * Y1
  let E := a * C
  let F' := E + D
  let H := Z1 * Z1
  let J := F' - H - H
  let X3 := (B - C - D) * J
  let Y3 := (E - D) * F'
  (X3, Y3, F' * J)

/-- PointExtended.Add (add-2008-hwcd), result (X,Y,Z,T) — point.go:498-517 -/
def teExtAdd (a d X1 Y1 Z1 T1 X2 Y2 Z2 T2 : F) : F × F × F × F :=
  let A := X1 * X2
  let B := Y1 * Y2
  let C := T1 * T2 * d
  let D := Z1 * Z2
  let tmp := X1 + Y1
  let E := (X2 + Y2) * tmp - A - B
  let F' := D - C
  let G := D + C
  let H := a * A
  let H := B - H
  (E * F', G * H, F' * G, E * H)

/-- PointExtended.MixedAdd, general branch (madd-2008-hwcd-2, the *dedicated* addition) — point.go:535-554 -/
def teExtMixedAdd (a X1 Y1 Z1 T1 x2 y2 : F) : F × F × F × F :=
  let A := X1 * x2
  let B := Y1 * y2
  let C := Z1 * x2 * y2
  let D := T1
  let E := D + C
  let tmp := X1 - Y1
  let F' := (x2 + y2) * tmp + B - A
  let G := a * A
  let G := G + B
  let H := D - C
  (E * F', G * H, F' * G, E * H)

/-- PointExtended.Double (dbl-2008-hwcd) — point.go:564-583 -/
def teExtDouble (a X1 Y1 Z1 : F) : F × F × F × F :=
  let A := X1 * X1
  let B := Y1 * Y1
  let C := 2 * (Z1 * Z1)
  let D := a * A
  let E := X1 + Y1
  let E := E * E - A - B
  let G := D + B
  let F' := G - C
  let H := D - B
  (E * F', G * H, F' * G, H * E)

/-- PointExtended.MixedDouble (mdbl-2008-hwcd; reads X1, Y1 only, i.e. assumes Z1 = 1) — point.go:593-613 -/
def teExtMixedDouble (a X1 Y1 : F) : F × F × F × F :=
  let A := X1 * X1
  let B := Y1 * Y1
  let D := a * A
  let E := X1 + Y1
  let E := E * E - A - B
  let G := D + B
  let H := D - B
  ((G - 2) * E, G * H, G * G - G - G, H * E)

/-! ## theorems: Jacobian -/

theorem fromJacobian_of_rep {X Y Z x y : F} (h : JacRep X Y Z x y) : fromJacobian X Y Z = (x, y) := by
  obtain ⟨hz, rfl, rfl⟩ := h
  simp only [fromJacobian, Prod.mk.injEq]
  constructor <;> field_simp

/-- cancellation helper: `(u - v) * c = 0`, `c ≠ 0` gives `v = u` -/
theorem eq_of_sub_mul_eq_zero {u v c : F} (hc : c ≠ 0) (h : (u - v) * c = 0) : v = u :=
  (sub_eq_zero.mp ((mul_eq_zero.mp h).resolve_right hc)).symm

/-- dispatch of AddAssign: `U1 = U2 ∧ S1 = S2` iff both operands are the same affine point -/
theorem jacAddUS_eq_iff {pX pY pZ qX qY qZ x1 y1 x2 y2 : F}
    (hp : JacRep pX pY pZ x1 y1) (hq : JacRep qX qY qZ x2 y2) :
    ((jacAddUS pX pY pZ qX qY qZ).1 = (jacAddUS pX pY pZ qX qY qZ).2.1 ∧
      (jacAddUS pX pY pZ qX qY qZ).2.2.1 = (jacAddUS pX pY pZ qX qY qZ).2.2.2) ↔ (x1 = x2 ∧ y1 = y2) := by
  obtain ⟨hz1, rfl, rfl⟩ := hp
  obtain ⟨hz2, rfl, rfl⟩ := hq
  simp only [jacAddUS]
  constructor
  · rintro ⟨h1, h2⟩
    constructor
    · exact eq_of_sub_mul_eq_zero (mul_ne_zero (pow_ne_zero 2 hz1) (pow_ne_zero 2 hz2)) (by linear_combination h1)
    · exact eq_of_sub_mul_eq_zero (mul_ne_zero (pow_ne_zero 3 hz1) (pow_ne_zero 3 hz2)) (by linear_combination h2)
  · rintro ⟨rfl, rfl⟩
    constructor <;> ring

/-- `U1 = U2` alone iff same abscissa -/
theorem jacAddUS_U_eq_iff {pX pY pZ qX qY qZ x1 y1 x2 y2 : F}
    (hp : JacRep pX pY pZ x1 y1) (hq : JacRep qX qY qZ x2 y2) :
    (jacAddUS pX pY pZ qX qY qZ).1 = (jacAddUS pX pY pZ qX qY qZ).2.1 ↔ x1 = x2 := by
  obtain ⟨hz1, rfl, rfl⟩ := hp
  obtain ⟨hz2, rfl, rfl⟩ := hq
  simp only [jacAddUS]
  constructor
  · intro h1
    exact eq_of_sub_mul_eq_zero (mul_ne_zero (pow_ne_zero 2 hz1) (pow_ne_zero 2 hz2)) (by linear_combination h1)
  · rintro rfl
    ring

/-- two curve points with the same abscissa are equal or opposite -/
theorem same_x_cases {a b x y1 y2 : F} (h1 : OnCurve a b x y1) (h2 : OnCurve a b x y2) : y1 = y2 ∨ y1 = -y2 := by
  have : (y1 - y2) * (y1 + y2) = 0 := by unfold OnCurve at h1 h2; linear_combination h1 - h2
  rcases mul_eq_zero.mp this with h | h
  · exact Or.inl (sub_eq_zero.mp h)
  · exact Or.inr (eq_neg_of_add_eq_zero_left h)

/-- AddAssign, general branch = chord rule. Z3 = 2·pZ·qZ·H with H = (x1-x2)·pZ²·qZ² is exhibited and non-zero. -/
theorem jacAdd_chord {pX pY pZ qX qY qZ x1 y1 x2 y2 : F} (h2 : (2 : F) ≠ 0)
    (hp : JacRep pX pY pZ x1 y1) (hq : JacRep qX qY qZ x2 y2) (hx : x1 ≠ x2) :
    (jacAdd pX pY pZ qX qY qZ).2.2 = 2 * pZ ^ 3 * qZ ^ 3 * (x1 - x2) ∧
    JacRep (jacAdd pX pY pZ qX qY qZ).1 (jacAdd pX pY pZ qX qY qZ).2.1 (jacAdd pX pY pZ qX qY qZ).2.2
      (chord x1 y1 x2 y2).1 (chord x1 y1 x2 y2).2 := by
  obtain ⟨hz1, rfl, rfl⟩ := hp
  obtain ⟨hz2, rfl, rfl⟩ := hq
  have hd : x2 - x1 ≠ 0 := sub_ne_zero.mpr (Ne.symm hx)
  have hd' : x1 - x2 ≠ 0 := sub_ne_zero.mpr hx
  have hZ : (jacAdd (x1 * pZ ^ 2) (y1 * pZ ^ 3) pZ (x2 * qZ ^ 2) (y2 * qZ ^ 3) qZ).2.2 = 2 * pZ ^ 3 * qZ ^ 3 * (x1 - x2) := by
    simp only [jacAdd]; ring
  refine ⟨hZ, ?_, ?_, ?_⟩
  · rw [hZ]
    exact mul_ne_zero (mul_ne_zero (mul_ne_zero h2 (pow_ne_zero 3 hz1)) (pow_ne_zero 3 hz2)) hd'
  · simp only [jacAdd, chord]
    field_simp
    ring
  · simp only [jacAdd, chord]
    field_simp
    ring

/-- AddAssign, general branch reached with the same abscissa but different ordinates (P = -Q on the curve):
    the result has Z3 = 0, i.e. is the point at infinity -/
theorem jacAdd_opposite {pX pY pZ qX qY qZ x y1 y2 : F}
    (hp : JacRep pX pY pZ x y1) (hq : JacRep qX qY qZ x y2) :
    (jacAdd pX pY pZ qX qY qZ).2.2 = 0 := by
  obtain ⟨_, rfl, rfl⟩ := hp
  obtain ⟨_, rfl, rfl⟩ := hq
  simp only [jacAdd]
  ring

/-- DoubleAssign (a = 0) = tangent rule, Z3 = 2·y·Z⁴ -/
theorem jacDouble_tangent {X Y Z x y : F} (h2 : (2 : F) ≠ 0) (hp : JacRep X Y Z x y) (hy : y ≠ 0) :
    (jacDouble X Y Z).2.2 = 2 * y * Z ^ 4 ∧
    JacRep (jacDouble X Y Z).1 (jacDouble X Y Z).2.1 (jacDouble X Y Z).2.2 (tangent 0 x y).1 (tangent 0 x y).2 := by
  obtain ⟨hz, rfl, rfl⟩ := hp
  have hZ : (jacDouble (x * Z ^ 2) (y * Z ^ 3) Z).2.2 = 2 * y * Z ^ 4 := by simp only [jacDouble]; ring
  refine ⟨hZ, ?_, ?_, ?_⟩
  · rw [hZ]; exact mul_ne_zero (mul_ne_zero h2 hy) (pow_ne_zero 4 hz)
  · simp only [jacDouble, tangent]
    field_simp
    ring
  · simp only [jacDouble, tangent]
    field_simp
    ring

/-- DoubleAssign on a 2-torsion point (y = 0) or on infinity (Z = 0) returns infinity (Z3 = 0) -/
theorem jacDouble_Z_zero {X Y Z : F} (h : Y = 0 ∨ Z = 0) : (jacDouble X Y Z).2.2 = 0 := by
  rcases h with rfl | rfl <;> simp only [jacDouble] <;> ring

/-- stark-curve DoubleAssign (a = 1) = tangent rule -/
theorem jacDoubleStark_tangent {X Y Z x y : F} (h2 : (2 : F) ≠ 0) (hp : JacRep X Y Z x y) (hy : y ≠ 0) :
    (jacDoubleStark X Y Z).2.2 = 2 * y * Z ^ 4 ∧
    JacRep (jacDoubleStark X Y Z).1 (jacDoubleStark X Y Z).2.1 (jacDoubleStark X Y Z).2.2
      (tangent 1 x y).1 (tangent 1 x y).2 := by
  obtain ⟨hz, rfl, rfl⟩ := hp
  have hZ : (jacDoubleStark (x * Z ^ 2) (y * Z ^ 3) Z).2.2 = 2 * y * Z ^ 4 := by simp only [jacDoubleStark]; ring
  refine ⟨hZ, ?_, ?_, ?_⟩
  · rw [hZ]; exact mul_ne_zero (mul_ne_zero h2 hy) (pow_ne_zero 4 hz)
  · simp only [jacDoubleStark, tangent]
    field_simp
    ring
  · simp only [jacDoubleStark, tangent]
    field_simp
    ring

theorem jacDoubleStark_Z_zero {X Y Z : F} (h : Y = 0 ∨ Z = 0) : (jacDoubleStark X Y Z).2.2 = 0 := by
  rcases h with rfl | rfl <;> simp only [jacDoubleStark] <;> ring

/-- DoubleMixed (a = 0) = tangent rule, Z3 = 2y; y = 0 gives Z3 = 0 -/
theorem jacDoubleMixed_tangent {x y : F} (h2 : (2 : F) ≠ 0) (hy : y ≠ 0) :
    JacRep (jacDoubleMixed x y).1 (jacDoubleMixed x y).2.1 (jacDoubleMixed x y).2.2 (tangent 0 x y).1 (tangent 0 x y).2 := by
  refine ⟨?_, ?_, ?_⟩
  · simp only [jacDoubleMixed]; exact mul_ne_zero h2 hy
  · simp only [jacDoubleMixed, tangent]
    field_simp
    ring
  · simp only [jacDoubleMixed, tangent]
    field_simp
    ring

theorem jacDoubleMixed_Z (x y : F) : (jacDoubleMixed x y).2.2 = 2 * y := rfl

/-- AddMixed dispatch: `U2 = p.X ∧ S2 = p.Y` iff same affine point -/
theorem jacAddMixedUS_eq_iff {pX pY pZ x1 y1 x2 y2 : F} (hp : JacRep pX pY pZ x1 y1) :
    ((jacAddMixedUS pZ x2 y2).1 = pX ∧ (jacAddMixedUS pZ x2 y2).2 = pY) ↔ (x1 = x2 ∧ y1 = y2) := by
  obtain ⟨hz1, rfl, rfl⟩ := hp
  simp only [jacAddMixedUS]
  constructor
  · rintro ⟨h1, h2⟩
    constructor
    · exact (eq_of_sub_mul_eq_zero (pow_ne_zero 2 hz1) (by linear_combination -h1)).symm
    · exact (eq_of_sub_mul_eq_zero (pow_ne_zero 3 hz1) (by linear_combination -h2)).symm
  · rintro ⟨rfl, rfl⟩
    constructor <;> ring

/-- AddMixed, general branch = chord rule, Z3 = 2·pZ³·(x2-x1) -/
theorem jacAddMixed_chord {pX pY pZ x1 y1 x2 y2 : F} (h2 : (2 : F) ≠ 0)
    (hp : JacRep pX pY pZ x1 y1) (hx : x1 ≠ x2) :
    (jacAddMixed pX pY pZ x2 y2).2.2 = 2 * pZ ^ 3 * (x2 - x1) ∧
    JacRep (jacAddMixed pX pY pZ x2 y2).1 (jacAddMixed pX pY pZ x2 y2).2.1 (jacAddMixed pX pY pZ x2 y2).2.2
      (chord x1 y1 x2 y2).1 (chord x1 y1 x2 y2).2 := by
  obtain ⟨hz1, rfl, rfl⟩ := hp
  have hd : x2 - x1 ≠ 0 := sub_ne_zero.mpr (Ne.symm hx)
  have hZ : (jacAddMixed (x1 * pZ ^ 2) (y1 * pZ ^ 3) pZ x2 y2).2.2 = 2 * pZ ^ 3 * (x2 - x1) := by
    simp only [jacAddMixed]; ring
  refine ⟨hZ, ?_, ?_, ?_⟩
  · rw [hZ]; exact mul_ne_zero (mul_ne_zero h2 (pow_ne_zero 3 hz1)) hd
  · simp only [jacAddMixed, chord]
    field_simp
    ring
  · simp only [jacAddMixed, chord]
    field_simp
    ring

theorem jacAddMixed_opposite {pX pY pZ x y1 y2 : F} (hp : JacRep pX pY pZ x y1) :
    (jacAddMixed pX pY pZ x y2).2.2 = 0 := by
  obtain ⟨_, rfl, rfl⟩ := hp
  simp only [jacAddMixed]
  ring

/-- G1Affine.Add, general branch: Jacobian intermediate represents the chord sum, hence FromJacobian returns it -/
theorem affAdd_chord {x1 y1 x2 y2 : F} (h2 : (2 : F) ≠ 0) (hx : x1 ≠ x2) :
    fromJacobian (affAddJac x1 y1 x2 y2).1 (affAddJac x1 y1 x2 y2).2.1 (affAddJac x1 y1 x2 y2).2.2 = chord x1 y1 x2 y2 := by
  have hd : x2 - x1 ≠ 0 := sub_ne_zero.mpr (Ne.symm hx)
  have hr : JacRep (affAddJac x1 y1 x2 y2).1 (affAddJac x1 y1 x2 y2).2.1 (affAddJac x1 y1 x2 y2).2.2
      (chord x1 y1 x2 y2).1 (chord x1 y1 x2 y2).2 := by
    refine ⟨?_, ?_, ?_⟩
    · simp only [affAddJac]; exact mul_ne_zero h2 hd
    · simp only [affAddJac, chord]
      field_simp
      ring
    · simp only [affAddJac, chord]
      field_simp
      ring
  exact fromJacobian_of_rep hr

/-- Equal on Jacobian representatives ↔ same affine point -/
theorem jacEqual_iff {pX pY pZ qX qY qZ x1 y1 x2 y2 : F}
    (hp : JacRep pX pY pZ x1 y1) (hq : JacRep qX qY qZ x2 y2) :
    jacEqualTest pX pY pZ qX qY qZ ↔ (x1 = x2 ∧ y1 = y2) := by
  obtain ⟨hz1, rfl, rfl⟩ := hp
  obtain ⟨hz2, rfl, rfl⟩ := hq
  simp only [jacEqualTest]
  constructor
  · rintro ⟨h1, h2⟩
    constructor
    · exact (eq_of_sub_mul_eq_zero (mul_ne_zero (pow_ne_zero 2 hz1) (pow_ne_zero 2 hz2)) (by linear_combination h1)).symm
    · exact (eq_of_sub_mul_eq_zero (mul_ne_zero (pow_ne_zero 3 hz1) (pow_ne_zero 3 hz2)) (by linear_combination h2)).symm
  · rintro ⟨rfl, rfl⟩
    constructor <;> ring

/-- IsOnCurve on a Jacobian representative ↔ affine equation (a = 0) -/
theorem jacIsOnCurve_iff {b X Y Z x y : F} (hp : JacRep X Y Z x y) : jacIsOnCurve b X Y Z ↔ OnCurve 0 b x y := by
  obtain ⟨hz, rfl, rfl⟩ := hp
  simp only [jacIsOnCurve, OnCurve]
  have h6 : Z ^ 6 ≠ 0 := pow_ne_zero 6 hz
  constructor
  · intro h
    have : (y ^ 2 - (x ^ 3 + 0 * x + b)) * Z ^ 6 = 0 := by linear_combination h
    exact sub_eq_zero.mp ((mul_eq_zero.mp this).resolve_right h6)
  · intro h
    linear_combination Z ^ 6 * h

/-- at Z = 0 the Jacobian predicate is the weighted-projective equation Y² = X³ -/
theorem jacIsOnCurve_Z_zero {b X Y : F} : jacIsOnCurve b X Y 0 ↔ Y * Y = X * X * X := by
  simp [jacIsOnCurve]

theorem jacIsOnCurveStark_iff {b X Y Z x y : F} (hp : JacRep X Y Z x y) : jacIsOnCurveStark b X Y Z ↔ OnCurve 1 b x y := by
  obtain ⟨hz, rfl, rfl⟩ := hp
  simp only [jacIsOnCurveStark, OnCurve]
  have h6 : Z ^ 6 ≠ 0 := pow_ne_zero 6 hz
  constructor
  · intro h
    have : (y ^ 2 - (x ^ 3 + 1 * x + b)) * Z ^ 6 = 0 := by linear_combination h
    exact sub_eq_zero.mp ((mul_eq_zero.mp this).resolve_right h6)
  · intro h
    linear_combination Z ^ 6 * h

/-! ## theorems: XYZZ -/

theorem xyzzRep_of_invariant {X Y ZZ ZZZ : F} (h1 : ZZ ≠ 0) (h2 : ZZZ ≠ 0) (h : ZZ ^ 3 = ZZZ ^ 2) :
    XyzzRep (ZZZ / ZZ) X Y ZZ ZZZ (X / ZZ) (Y / ZZZ) := by
  refine ⟨div_ne_zero h2 h1, ?_, ?_, ?_, ?_⟩
  · rw [div_pow, eq_div_iff (pow_ne_zero 2 h1)]; linear_combination h
  · rw [div_pow, eq_div_iff (pow_ne_zero 3 h1)]; linear_combination ZZZ * h
  · rw [div_pow, div_mul_div_comm, eq_div_iff (mul_ne_zero h1 (pow_ne_zero 2 h1))]; linear_combination X * h
  · rw [div_pow, div_mul_div_comm, eq_div_iff (mul_ne_zero h2 (pow_ne_zero 3 h1))]; linear_combination Y * ZZZ * h

theorem xyzzToAffine_of_rep {l X Y ZZ ZZZ x y : F} (h : XyzzRep l X Y ZZ ZZZ x y) : xyzzToAffine X Y ZZ ZZZ = (x, y) := by
  obtain ⟨hl, rfl, rfl, rfl, rfl⟩ := h
  simp only [xyzzToAffine, Prod.mk.injEq]
  constructor <;> field_simp

theorem xyzzToJac_of_rep {l X Y ZZ ZZZ x y : F} (h : XyzzRep l X Y ZZ ZZZ x y) :
    JacRep (xyzzToJac X Y ZZ ZZZ).1 (xyzzToJac X Y ZZ ZZZ).2.1 (xyzzToJac X Y ZZ ZZZ).2.2 x y ∧
    xyzzToJacUnsafe X Y ZZ ZZZ = xyzzToJac X Y ZZ ZZZ := by
  obtain ⟨hl, rfl, rfl, rfl, rfl⟩ := h
  refine ⟨⟨?_, ?_, ?_⟩, ?_⟩
  · simp only [xyzzToJac]; exact pow_ne_zero 3 hl
  · simp only [xyzzToJac]; ring
  · simp only [xyzzToJac]; ring
  · simp only [xyzzToJac, xyzzToJacUnsafe, Prod.mk.injEq]
    refine ⟨by ring, by ring, trivial⟩

/-- XYZZ add dispatch: A = 0 ∧ B = 0 iff same affine point; A = 0 iff same abscissa -/
theorem xyzzAddAB_iff {l1 l2 pX pY pZZ pZZZ qX qY qZZ qZZZ x1 y1 x2 y2 : F}
    (hp : XyzzRep l1 pX pY pZZ pZZZ x1 y1) (hq : XyzzRep l2 qX qY qZZ qZZZ x2 y2) :
    ((xyzzAddAB pX pY pZZ pZZZ qX qY qZZ qZZZ).1 = 0 ↔ x1 = x2) ∧
    ((xyzzAddAB pX pY pZZ pZZZ qX qY qZZ qZZZ).2 = 0 ↔ y1 = y2) := by
  obtain ⟨hl1, rfl, rfl, rfl, rfl⟩ := hp
  obtain ⟨hl2, rfl, rfl, rfl, rfl⟩ := hq
  simp only [xyzzAddAB]
  constructor
  · constructor
    · intro h
      exact (eq_of_sub_mul_eq_zero (mul_ne_zero (pow_ne_zero 2 hl1) (pow_ne_zero 2 hl2)) (by linear_combination -h)).symm
    · rintro rfl; ring
  · constructor
    · intro h
      exact (eq_of_sub_mul_eq_zero (mul_ne_zero (pow_ne_zero 3 hl1) (pow_ne_zero 3 hl2)) (by linear_combination -h)).symm
    · rintro rfl; ring

/-- XYZZ add, general branch = chord rule with scaling l3 = l1·l2·P, P = (x2-x1)·l1²·l2² -/
theorem xyzzAdd_chord {l1 l2 pX pY pZZ pZZZ qX qY qZZ qZZZ x1 y1 x2 y2 : F}
    (hp : XyzzRep l1 pX pY pZZ pZZZ x1 y1) (hq : XyzzRep l2 qX qY qZZ qZZZ x2 y2) (hx : x1 ≠ x2) :
    XyzzRep (l1 ^ 3 * l2 ^ 3 * (x2 - x1))
      (xyzzAdd pX pY pZZ pZZZ qX qY qZZ qZZZ).1 (xyzzAdd pX pY pZZ pZZZ qX qY qZZ qZZZ).2.1
      (xyzzAdd pX pY pZZ pZZZ qX qY qZZ qZZZ).2.2.1 (xyzzAdd pX pY pZZ pZZZ qX qY qZZ qZZZ).2.2.2
      (chord x1 y1 x2 y2).1 (chord x1 y1 x2 y2).2 := by
  obtain ⟨hl1, rfl, rfl, rfl, rfl⟩ := hp
  obtain ⟨hl2, rfl, rfl, rfl, rfl⟩ := hq
  have hd : x2 - x1 ≠ 0 := sub_ne_zero.mpr (Ne.symm hx)
  refine ⟨mul_ne_zero (mul_ne_zero (pow_ne_zero 3 hl1) (pow_ne_zero 3 hl2)) hd, ?_, ?_, ?_, ?_⟩
  · simp only [xyzzAdd]; ring
  · simp only [xyzzAdd]; ring
  · simp only [xyzzAdd, chord]
    field_simp
    ring
  · simp only [xyzzAdd, chord]
    field_simp
    ring

/-- XYZZ double (a = 0) = tangent rule with scaling l3 = 2·y·l⁴; y = 0 gives ZZ3 = 0 -/
theorem xyzzDouble_tangent {l X Y ZZ ZZZ x y : F} (h2 : (2 : F) ≠ 0) (hp : XyzzRep l X Y ZZ ZZZ x y) (hy : y ≠ 0) :
    XyzzRep (2 * y * l ^ 4) (xyzzDouble X Y ZZ ZZZ).1 (xyzzDouble X Y ZZ ZZZ).2.1 (xyzzDouble X Y ZZ ZZZ).2.2.1
      (xyzzDouble X Y ZZ ZZZ).2.2.2 (tangent 0 x y).1 (tangent 0 x y).2 := by
  obtain ⟨hl, rfl, rfl, rfl, rfl⟩ := hp
  refine ⟨mul_ne_zero (mul_ne_zero h2 hy) (pow_ne_zero 4 hl), ?_, ?_, ?_, ?_⟩
  · simp only [xyzzDouble]; ring
  · simp only [xyzzDouble]; ring
  · simp only [xyzzDouble, tangent]
    field_simp
    ring
  · simp only [xyzzDouble, tangent]
    field_simp
    ring

theorem xyzzDouble_ZZ_zero {X Y ZZ ZZZ : F} (h : Y = 0 ∨ ZZ = 0) : (xyzzDouble X Y ZZ ZZZ).2.2.1 = 0 := by
  rcases h with rfl | rfl <;> simp only [xyzzDouble] <;> ring

theorem xyzzDoubleStark_tangent {l X Y ZZ ZZZ x y : F} (h2 : (2 : F) ≠ 0) (hp : XyzzRep l X Y ZZ ZZZ x y) (hy : y ≠ 0) :
    XyzzRep (2 * y * l ^ 4) (xyzzDoubleStark X Y ZZ ZZZ).1 (xyzzDoubleStark X Y ZZ ZZZ).2.1
      (xyzzDoubleStark X Y ZZ ZZZ).2.2.1 (xyzzDoubleStark X Y ZZ ZZZ).2.2.2 (tangent 1 x y).1 (tangent 1 x y).2 := by
  obtain ⟨hl, rfl, rfl, rfl, rfl⟩ := hp
  refine ⟨mul_ne_zero (mul_ne_zero h2 hy) (pow_ne_zero 4 hl), ?_, ?_, ?_, ?_⟩
  · simp only [xyzzDoubleStark]; ring
  · simp only [xyzzDoubleStark]; ring
  · simp only [xyzzDoubleStark, tangent]
    field_simp
    ring
  · simp only [xyzzDoubleStark, tangent]
    field_simp
    ring

/-- XYZZ addMixed dispatch -/
theorem xyzzAddMixedPR_iff {l pX pY pZZ pZZZ x1 y1 x2 y2 : F} (hp : XyzzRep l pX pY pZZ pZZZ x1 y1) :
    ((xyzzAddMixedPR pX pY pZZ pZZZ x2 y2).1 = 0 ↔ x1 = x2) ∧ ((xyzzAddMixedPR pX pY pZZ pZZZ x2 y2).2 = 0 ↔ y1 = y2) := by
  obtain ⟨hl, rfl, rfl, rfl, rfl⟩ := hp
  simp only [xyzzAddMixedPR]
  constructor
  · constructor
    · intro h; exact (eq_of_sub_mul_eq_zero (pow_ne_zero 2 hl) (by linear_combination -h)).symm
    · rintro rfl; ring
  · constructor
    · intro h; exact (eq_of_sub_mul_eq_zero (pow_ne_zero 3 hl) (by linear_combination -h)).symm
    · rintro rfl; ring

/-- XYZZ addMixed, general branch = chord rule -/
theorem xyzzAddMixed_chord {l pX pY pZZ pZZZ x1 y1 x2 y2 : F} (hp : XyzzRep l pX pY pZZ pZZZ x1 y1) (hx : x1 ≠ x2) :
    XyzzRep (l ^ 3 * (x2 - x1))
      (xyzzAddMixed pX pY pZZ pZZZ x2 y2).1 (xyzzAddMixed pX pY pZZ pZZZ x2 y2).2.1
      (xyzzAddMixed pX pY pZZ pZZZ x2 y2).2.2.1 (xyzzAddMixed pX pY pZZ pZZZ x2 y2).2.2.2
      (chord x1 y1 x2 y2).1 (chord x1 y1 x2 y2).2 := by
  obtain ⟨hl, rfl, rfl, rfl, rfl⟩ := hp
  have hd : x2 - x1 ≠ 0 := sub_ne_zero.mpr (Ne.symm hx)
  refine ⟨mul_ne_zero (pow_ne_zero 3 hl) hd, ?_, ?_, ?_, ?_⟩
  · simp only [xyzzAddMixed]; ring
  · simp only [xyzzAddMixed]; ring
  · simp only [xyzzAddMixed, chord]
    field_simp
    ring
  · simp only [xyzzAddMixed, chord]
    field_simp
    ring

/-- subMixed is addMixed of the negated affine operand -/
theorem xyzzSubMixed_eq (pX pY pZZ pZZZ ax ay : F) :
    xyzzSubMixed pX pY pZZ pZZZ ax ay = xyzzAddMixed pX pY pZZ pZZZ ax (-ay) := by
  refine Prod.ext ?_ (Prod.ext ?_ (Prod.ext ?_ ?_)) <;> simp only [xyzzSubMixed, xyzzAddMixed] <;> ring

/-- doubleMixed (a = 0) = tangent rule; doubleNegMixed = doubleMixed of the negated point -/
theorem xyzzDoubleMixed_tangent {x y : F} (h2 : (2 : F) ≠ 0) (hy : y ≠ 0) :
    XyzzRep (2 * y) (xyzzDoubleMixed x y).1 (xyzzDoubleMixed x y).2.1 (xyzzDoubleMixed x y).2.2.1 (xyzzDoubleMixed x y).2.2.2
      (tangent 0 x y).1 (tangent 0 x y).2 := by
  refine ⟨mul_ne_zero h2 hy, ?_, ?_, ?_, ?_⟩
  · simp only [xyzzDoubleMixed]; ring
  · simp only [xyzzDoubleMixed]; ring
  · simp only [xyzzDoubleMixed, tangent]
    field_simp
    ring
  · simp only [xyzzDoubleMixed, tangent]
    field_simp
    ring

theorem xyzzDoubleNegMixed_eq (x y : F) : xyzzDoubleNegMixed x y = xyzzDoubleMixed x (-y) := by
  refine Prod.ext ?_ (Prod.ext ?_ (Prod.ext ?_ ?_)) <;> simp only [xyzzDoubleNegMixed, xyzzDoubleMixed] <;> ring

/-- stark-curve doubleMixed is the tangent rule of y² = x³ + a·x + b -/
theorem xyzzDoubleMixedStark_tangent {a x y : F} (h2 : (2 : F) ≠ 0) (hy : y ≠ 0) :
    XyzzRep (2 * y) (xyzzDoubleMixedStark a x y).1 (xyzzDoubleMixedStark a x y).2.1
      (xyzzDoubleMixedStark a x y).2.2.1 (xyzzDoubleMixedStark a x y).2.2.2
      (tangent a x y).1 (tangent a x y).2 := by
  refine ⟨mul_ne_zero h2 hy, ?_, ?_, ?_, ?_⟩
  · simp only [xyzzDoubleMixedStark]; ring
  · simp only [xyzzDoubleMixedStark]; ring
  · simp only [xyzzDoubleMixedStark, tangent]
    field_simp
    ring
  · simp only [xyzzDoubleMixedStark, tangent]
    field_simp
    ring

/-! ## theorems: twisted Edwards -/

theorem teAffAdd_eq (a d x1 y1 x2 y2 : F) : teAffAdd a d x1 y1 x2 y2 = teAdd a d x1 y1 x2 y2 := by
  simp only [teAffAdd, teAdd, Prod.mk.injEq]
  constructor <;> congr 1 <;> ring

/-- PointAffine.Double agrees with the unified law on curve points -/
theorem teAffDouble_eq {a d x y : F} (hc : TeOnCurve a d x y) :
    teAffDouble a x y = teAdd a d x y x y := by
  unfold TeOnCurve at hc
  have e1 : a * (x * x) + y * y = 1 + d * x * x * y * y := by linear_combination hc
  simp only [teAffDouble, teAdd, Prod.mk.injEq, e1]
  constructor <;> congr 1 <;> ring

/-- PointProj.Add = unified law (denominators non-zero) -/
theorem teProjAdd_correct {a d X1 Y1 Z1 X2 Y2 Z2 x1 y1 x2 y2 : F}
    (hp : ProjRep X1 Y1 Z1 x1 y1) (hq : ProjRep X2 Y2 Z2 x2 y2)
    (h1 : 1 + d * x1 * x2 * y1 * y2 ≠ 0) (h2 : 1 - d * x1 * x2 * y1 * y2 ≠ 0) :
    ProjRep (teProjAdd a d X1 Y1 Z1 X2 Y2 Z2).1 (teProjAdd a d X1 Y1 Z1 X2 Y2 Z2).2.1 (teProjAdd a d X1 Y1 Z1 X2 Y2 Z2).2.2
      (teAdd a d x1 y1 x2 y2).1 (teAdd a d x1 y1 x2 y2).2 := by
  obtain ⟨hz1, rfl, rfl⟩ := hp
  obtain ⟨hz2, rfl, rfl⟩ := hq
  have hZ : (teProjAdd a d (x1 * Z1) (y1 * Z1) Z1 (x2 * Z2) (y2 * Z2) Z2).2.2
      = (Z1 * Z2) ^ 4 * ((1 - d * x1 * x2 * y1 * y2) * (1 + d * x1 * x2 * y1 * y2)) := by
    simp only [teProjAdd]; ring
  refine ⟨?_, ?_, ?_⟩
  · rw [hZ]; exact mul_ne_zero (pow_ne_zero 4 (mul_ne_zero hz1 hz2)) (mul_ne_zero h2 h1)
  · simp only [teProjAdd, teAdd]
    rw [div_mul_eq_mul_div, eq_div_iff h1]
    ring
  · simp only [teProjAdd, teAdd]
    rw [div_mul_eq_mul_div, eq_div_iff h2]
    ring

/-- PointProj.MixedAdd = unified law -/
theorem teProjMixedAdd_correct {a d X1 Y1 Z1 x1 y1 x2 y2 : F}
    (hp : ProjRep X1 Y1 Z1 x1 y1)
    (h1 : 1 + d * x1 * x2 * y1 * y2 ≠ 0) (h2 : 1 - d * x1 * x2 * y1 * y2 ≠ 0) :
    ProjRep (teProjMixedAdd a d X1 Y1 Z1 x2 y2).1 (teProjMixedAdd a d X1 Y1 Z1 x2 y2).2.1 (teProjMixedAdd a d X1 Y1 Z1 x2 y2).2.2
      (teAdd a d x1 y1 x2 y2).1 (teAdd a d x1 y1 x2 y2).2 := by
  obtain ⟨hz1, rfl, rfl⟩ := hp
  have hZ : (teProjMixedAdd a d (x1 * Z1) (y1 * Z1) Z1 x2 y2).2.2
      = Z1 ^ 4 * ((1 - d * x1 * x2 * y1 * y2) * (1 + d * x1 * x2 * y1 * y2)) := by
    simp only [teProjMixedAdd]; ring
  refine ⟨?_, ?_, ?_⟩
  · rw [hZ]; exact mul_ne_zero (pow_ne_zero 4 hz1) (mul_ne_zero h2 h1)
  · simp only [teProjMixedAdd, teAdd]
    rw [div_mul_eq_mul_div, eq_div_iff h1]
    ring
  · simp only [teProjMixedAdd, teAdd]
    rw [div_mul_eq_mul_div, eq_div_iff h2]
    ring

/-- PointProj.Double = unified law on curve points -/
theorem teProjDouble_correct {a d X1 Y1 Z1 x y : F} (hp : ProjRep X1 Y1 Z1 x y) (hc : TeOnCurve a d x y)
    (h1 : 1 + d * x * x * y * y ≠ 0) (h2 : 1 - d * x * x * y * y ≠ 0) :
    ProjRep (teProjDouble a X1 Y1 Z1).1 (teProjDouble a X1 Y1 Z1).2.1 (teProjDouble a X1 Y1 Z1).2.2
      (teAdd a d x y x y).1 (teAdd a d x y x y).2 := by
  obtain ⟨hz1, rfl, rfl⟩ := hp
  unfold TeOnCurve at hc
  have hZ : (teProjDouble a (x * Z1) (y * Z1) Z1).2.2
      = Z1 ^ 4 * ((1 + d * x * x * y * y) * -(1 - d * x * x * y * y)) := by
    simp only [teProjDouble]
    linear_combination (Z1 ^ 4 * ((a * x ^ 2 + y ^ 2) + (1 + d * x ^ 2 * y ^ 2) - 2)) * hc
  refine ⟨?_, ?_, ?_⟩
  · rw [hZ]; exact mul_ne_zero (pow_ne_zero 4 hz1) (mul_ne_zero h1 (neg_ne_zero.mpr h2))
  · simp only [teProjDouble, teAdd]
    rw [div_mul_eq_mul_div, eq_div_iff h1]
    linear_combination (-(2 * x * y * Z1 ^ 2 * ((a * x ^ 2 + y ^ 2 - 2) * Z1 ^ 2))) * hc
  · simp only [teProjDouble, teAdd]
    rw [div_mul_eq_mul_div, eq_div_iff h2]
    linear_combination ((a * x ^ 2 - y ^ 2) * (a * x ^ 2 + y ^ 2) * Z1 ^ 4) * hc

/-- PointExtended.Add = unified law -/
theorem teExtAdd_correct {a d X1 Y1 Z1 T1 X2 Y2 Z2 T2 x1 y1 x2 y2 : F}
    (hp : ExtRep X1 Y1 Z1 T1 x1 y1) (hq : ExtRep X2 Y2 Z2 T2 x2 y2)
    (h1 : 1 + d * x1 * x2 * y1 * y2 ≠ 0) (h2 : 1 - d * x1 * x2 * y1 * y2 ≠ 0) :
    ExtRep (teExtAdd a d X1 Y1 Z1 T1 X2 Y2 Z2 T2).1 (teExtAdd a d X1 Y1 Z1 T1 X2 Y2 Z2 T2).2.1
      (teExtAdd a d X1 Y1 Z1 T1 X2 Y2 Z2 T2).2.2.1 (teExtAdd a d X1 Y1 Z1 T1 X2 Y2 Z2 T2).2.2.2
      (teAdd a d x1 y1 x2 y2).1 (teAdd a d x1 y1 x2 y2).2 := by
  obtain ⟨hz1, rfl, rfl, rfl⟩ := hp
  obtain ⟨hz2, rfl, rfl, rfl⟩ := hq
  have hZ : (teExtAdd a d (x1 * Z1) (y1 * Z1) Z1 (x1 * y1 * Z1) (x2 * Z2) (y2 * Z2) Z2 (x2 * y2 * Z2)).2.2.1
      = (Z1 * Z2) ^ 2 * ((1 - d * x1 * x2 * y1 * y2) * (1 + d * x1 * x2 * y1 * y2)) := by
    simp only [teExtAdd]; ring
  refine ⟨?_, ?_, ?_, ?_⟩
  · rw [hZ]; exact mul_ne_zero (pow_ne_zero 2 (mul_ne_zero hz1 hz2)) (mul_ne_zero h2 h1)
  · simp only [teExtAdd, teAdd]
    rw [div_mul_eq_mul_div, eq_div_iff h1]
    ring
  · simp only [teExtAdd, teAdd]
    rw [div_mul_eq_mul_div, eq_div_iff h2]
    ring
  · simp only [teExtAdd, teAdd]
    rw [div_mul_div_comm, div_mul_eq_mul_div, eq_div_iff (mul_ne_zero h1 h2)]
    ring

/-- PointExtended.Double = unified law on curve points (T is not read) -/
theorem teExtDouble_correct {a d X1 Y1 Z1 x y : F} (hp : ProjRep X1 Y1 Z1 x y) (hc : TeOnCurve a d x y)
    (h1 : 1 + d * x * x * y * y ≠ 0) (h2 : 1 - d * x * x * y * y ≠ 0) :
    ExtRep (teExtDouble a X1 Y1 Z1).1 (teExtDouble a X1 Y1 Z1).2.1 (teExtDouble a X1 Y1 Z1).2.2.1 (teExtDouble a X1 Y1 Z1).2.2.2
      (teAdd a d x y x y).1 (teAdd a d x y x y).2 := by
  obtain ⟨hz1, rfl, rfl⟩ := hp
  unfold TeOnCurve at hc
  have hZ : (teExtDouble a (x * Z1) (y * Z1) Z1).2.2.1
      = Z1 ^ 4 * ((1 + d * x * x * y * y) * -(1 - d * x * x * y * y)) := by
    simp only [teExtDouble]
    linear_combination (Z1 ^ 4 * ((a * x ^ 2 + y ^ 2) + (1 + d * x ^ 2 * y ^ 2) - 2)) * hc
  refine ⟨?_, ?_, ?_, ?_⟩
  · rw [hZ]; exact mul_ne_zero (pow_ne_zero 4 hz1) (mul_ne_zero h1 (neg_ne_zero.mpr h2))
  · simp only [teExtDouble, teAdd]
    rw [div_mul_eq_mul_div, eq_div_iff h1]
    linear_combination (-(2 * x * y * Z1 ^ 2 * ((a * x ^ 2 + y ^ 2 - 2) * Z1 ^ 2))) * hc
  · simp only [teExtDouble, teAdd]
    rw [div_mul_eq_mul_div, eq_div_iff h2]
    linear_combination ((a * x ^ 2 - y ^ 2) * (a * x ^ 2 + y ^ 2) * Z1 ^ 4) * hc
  · simp only [teExtDouble, teAdd]
    rw [div_mul_div_comm, div_mul_eq_mul_div, eq_div_iff (mul_ne_zero h1 h2)]
    linear_combination (2 * x * y * (a * x ^ 2 - y ^ 2) * Z1 ^ 4 * ((a * x ^ 2 + y ^ 2) + (1 + d * x ^ 2 * y ^ 2) - 2)) * hc

/-- PointExtended.MixedDouble is Double specialised to Z1 = 1 -/
theorem teExtMixedDouble_eq (a X1 Y1 : F) : teExtMixedDouble a X1 Y1 = teExtDouble a X1 Y1 1 := by
  refine Prod.ext ?_ (Prod.ext ?_ (Prod.ext ?_ ?_)) <;> simp only [teExtMixedDouble, teExtDouble] <;> ring

/-- … and differs from it as soon as Z1² ≠ 1: the Z-coordinates differ by 2·(1 - Z1²)·G with G = a·X1² + Y1² -/
theorem teExtMixedDouble_Z_defect (a X1 Y1 Z1 : F) :
    (teExtMixedDouble a X1 Y1).2.2.1 - (teExtDouble a X1 Y1 Z1).2.2.1 = 2 * (Z1 * Z1 - 1) * (a * (X1 * X1) + Y1 * Y1) := by
  simp only [teExtMixedDouble, teExtDouble]; ring

/-- the dedicated (non-unified) affine addition computed by madd-2008-hwcd-2 -/
def teDedicated (a x1 y1 x2 y2 : F) : F × F :=
  ((x1 * y1 + x2 * y2) / (y1 * y2 + a * x1 * x2), (x1 * y1 - x2 * y2) / (x1 * y2 - y1 * x2))

/-- on curve points with all four denominators non-zero the dedicated law is the unified law -/
theorem teDedicated_eq_teAdd {a d x1 y1 x2 y2 : F} (hc1 : TeOnCurve a d x1 y1) (hc2 : TeOnCurve a d x2 y2)
    (hG : y1 * y2 + a * x1 * x2 ≠ 0) (hF : x1 * y2 - y1 * x2 ≠ 0)
    (h1 : 1 + d * x1 * x2 * y1 * y2 ≠ 0) (h2 : 1 - d * x1 * x2 * y1 * y2 ≠ 0) :
    teDedicated a x1 y1 x2 y2 = teAdd a d x1 y1 x2 y2 := by
  unfold TeOnCurve at hc1 hc2
  simp only [teDedicated, teAdd, Prod.mk.injEq]
  constructor
  · rw [div_eq_div_iff hG h1]
    linear_combination (-(x1 * y1)) * hc2 - (x2 * y2) * hc1
  · rw [div_eq_div_iff hF h2]
    linear_combination (-(x1 * y1)) * hc2 + (x2 * y2) * hc1

/-- PointExtended.MixedAdd, general branch: computes the dedicated law, Z3 = Z1²·(x1y2 - y1x2)·(y1y2 + a·x1x2) -/
theorem teExtMixedAdd_dedicated {a X1 Y1 Z1 T1 x1 y1 x2 y2 : F} (hp : ExtRep X1 Y1 Z1 T1 x1 y1)
    (hG : y1 * y2 + a * x1 * x2 ≠ 0) (hF : x1 * y2 - y1 * x2 ≠ 0) :
    ExtRep (teExtMixedAdd a X1 Y1 Z1 T1 x2 y2).1 (teExtMixedAdd a X1 Y1 Z1 T1 x2 y2).2.1
      (teExtMixedAdd a X1 Y1 Z1 T1 x2 y2).2.2.1 (teExtMixedAdd a X1 Y1 Z1 T1 x2 y2).2.2.2
      (teDedicated a x1 y1 x2 y2).1 (teDedicated a x1 y1 x2 y2).2 := by
  obtain ⟨hz1, rfl, rfl, rfl⟩ := hp
  have hZ : (teExtMixedAdd a (x1 * Z1) (y1 * Z1) Z1 (x1 * y1 * Z1) x2 y2).2.2.1
      = Z1 ^ 2 * ((x1 * y2 - y1 * x2) * (y1 * y2 + a * x1 * x2)) := by
    simp only [teExtMixedAdd]; ring
  refine ⟨?_, ?_, ?_, ?_⟩
  · rw [hZ]; exact mul_ne_zero (pow_ne_zero 2 hz1) (mul_ne_zero hF hG)
  · simp only [teExtMixedAdd, teDedicated]
    rw [div_mul_eq_mul_div, eq_div_iff hG]
    ring
  · simp only [teExtMixedAdd, teDedicated]
    rw [div_mul_eq_mul_div, eq_div_iff hF]
    ring
  · simp only [teExtMixedAdd, teDedicated]
    rw [div_mul_div_comm, div_mul_eq_mul_div, eq_div_iff (mul_ne_zero hG hF)]
    ring

/-- the exceptional operands of the dedicated branch: whenever `x1·y2 = y1·x2` (e.g. Q = P + (0,-1), or
P = (0,1), Q = (0,-1)) or `y1·y2 + a·x1·x2 = 0` (Q = P + a point of order 4) the result has Z3 = 0, which
represents no point of a complete twisted Edwards curve -/
theorem teExtMixedAdd_exceptional {a X1 Y1 Z1 T1 x1 y1 x2 y2 : F} (hp : ExtRep X1 Y1 Z1 T1 x1 y1)
    (h : x1 * y2 - y1 * x2 = 0 ∨ y1 * y2 + a * x1 * x2 = 0) :
    (teExtMixedAdd a X1 Y1 Z1 T1 x2 y2).2.2.1 = 0 := by
  obtain ⟨_, rfl, rfl, rfl⟩ := hp
  have hZ : (teExtMixedAdd a (x1 * Z1) (y1 * Z1) Z1 (x1 * y1 * Z1) x2 y2).2.2.1
      = Z1 ^ 2 * ((x1 * y2 - y1 * x2) * (y1 * y2 + a * x1 * x2)) := by
    simp only [teExtMixedAdd]; ring
  rw [hZ]
  rcases h with h | h <;> rw [h] <;> ring

end GV.Curve
