import GnarkVerif.Proofs.C10Gen
/-
Helper definitions and lemmas for C10 (tie T, Props/C10_top*.lean): the TOP-LEVEL functions `(*Domain).FFT` / `(*Domain).FFTInverse`.

The defs that tools/goslp (slpffttop.go) regenerates from fft.go (Gen/FFT/<Pkg>Top.lean) are compared by the kernel (`kernel_rfl`) with
`goFFT` / `goFFTInverse` below: the functions `FFT` / `FFTInverse` of Model/FFT.lean written the way the Go code computes with
`nbTasks = 1` (so that no ring law is needed for the comparison):
  * the coset tables are INPUTS when the domain has precomputed tables (`domain.cosetTable`, `domain.cosetTableInv`, `domain.twiddles`,
    `domain.twiddlesInv`); without precompute the Go code builds them: `BuildExpTable(g, table)` = `[1, g^1, g^1·g, …]` (`expTable`),
    the running power `at.Exp(c, 0); at.Mul(&at, &c)` = `[c^0, c^0·c, …]`, `buildTwiddles(t, w^8, nbStages − 3)` (`goBuildTwiddles`);
  * `difFFT` / `ditFFT` are the Go-shaped recursions of Proofs/C10Gen.lean.
`goFFT = FFT`, `goFFTInverse = FFTInverse` is then proved ONCE, for every size, under the defining equations of the input tables.
-/
namespace GV.FFT
set_option linter.unusedSectionVars false
set_option linter.unusedVariables false

section Defs
variable {R : Type} [CommRing R]

/-- `BuildExpTable(w, table)` with `len(table) = n` as the Go code computes it: `table[0].SetOne()`, `table[1].Exp(w, 1)`,
    `table[i].Mul(&table[i-1], &w)` -/
def expTable (w : R) : Nat → List R
  | 0 => []
  | n+1 => 1 :: iter w (w ^ (1 : Nat)) n

/-- `buildTwiddles(t, w, nbStages)` as the Go code computes it (`BuildExpTable` for row 0, strided copies for the others) -/
def goBuildTwiddles (w : R) (nbStages : Nat) : List (List R) :=
  if nbStages = 0 then [] else
  let t0 := (expTable w (1 + 2^(nbStages-1))).toArray
  (List.range nbStages).map (fun i =>
    (List.range (1 + 2^(nbStages-i-1))).map (fun j => t0.getD (j * 2^i) 0))

/-- the table and `twiddlesStartStage` `FFT` / `FFTInverse` pass down for the root `w`: the table of the domain (`tw`) with
    precompute, else the table of `w^8` built on the spot (none for at most 8 points) -/
def goTables (pre : Bool) (m : Nat) (w : R) (tw : List (List R)) : List (List R) × Nat :=
  if pre then (tw, 0)
  else if m - 3 > 0 then (goBuildTwiddles (w ^ (8 : Nat)) (m - 3), 3)
  else ([], 3)

/-- `domain.FFT(a, decimation, opts…)` with `nbTasks = 1`, `len a = Cardinality = 2^m`; `ct` = `domain.cosetTable`, `tw` =
    `domain.twiddles` (only read with precompute), `gen` = `domain.Generator`, `g` = `domain.FrMultiplicativeGen` (only read without) -/
def goFFT (kers : List Nat) (pre dif coset : Bool) (m : Nat) (gen g : R) (ct : List R) (tw : List (List R))
    (a : List R) : List R :=
  let n := 2^m
  let a1 :=
    if coset then
      if dif then
        if pre then List.zipWith (· * ·) a ct else List.zipWith (· * ·) a (iter g (g ^ (0 : Nat)) n)
      else List.zipWith (· * ·) a (permute (bitrev m) (if pre then ct else expTable g n))
    else a
  let tt := goTables pre m gen tw
  if dif then goDifFFT kers tt.1 tt.2 m gen 0 a1 else goDitFFT kers tt.1 tt.2 m gen 0 a1

/-- `domain.FFTInverse(a, decimation, opts…)` with `nbTasks = 1`; `cti` = `domain.cosetTableInv`, `twi` = `domain.twiddlesInv`,
    `genInv` = `domain.GeneratorInv`, `gInv` = `domain.FrMultiplicativeGenInv`, `ci` = `domain.CardinalityInv` -/
def goFFTInverse (kers : List Nat) (pre dif coset : Bool) (m : Nat) (ci genInv gInv : R) (cti : List R)
    (twi : List (List R)) (a : List R) : List R :=
  let n := 2^m
  let tt := goTables pre m genInv twi
  let a1 := if dif then goDifFFT kers tt.1 tt.2 m genInv 0 a else goDitFFT kers tt.1 tt.2 m genInv 0 a
  if !coset then a1.map (· * ci)
  else if !dif then
    if pre then List.zipWith (fun x t => x * t * ci) a1 cti
    else List.zipWith (· * ·) a1 (iter gInv (gInv ^ (0 : Nat) * ci) n)
  else
    List.zipWith (fun x t => x * t * ci) a1 (permute (bitrev m) (if pre then cti else expTable gInv n))

end Defs

section Lemmas
variable {R : Type} [CommRing R]

theorem expTable_eq (w : R) (n : Nat) : expTable w n = powers w n := by
  cases n with
  | zero => rfl
  | succ n => simp [expTable, powers, iter]

theorem goBuildTwiddles_eq (w : R) (k : Nat) : goBuildTwiddles w k = buildTwiddles w k := by
  simp only [goBuildTwiddles, buildTwiddles, expTable_eq]

/-- the tables the Go code passes down are the tables of the model (`tw` as `buildTwiddles` builds it) -/
theorem goTables_eq (ci gen gi g gInv : R) (pre : Bool) (m : Nat) (w : R) (tw : List (List R))
    (htw : pre = true → tw = buildTwiddles w m) :
    goTables pre m w tw = tables (⟨m, ci, gen, gi, g, gInv, pre⟩ : Domain R) w := by
  cases pre with
  | true => simp [goTables, tables, htw rfl]
  | false => simp only [goTables, tables, goBuildTwiddles_eq, pw_eq, Bool.false_eq_true, if_false]

/-- **`goFFT` is the model's `FFT`** for every size, every kernel set and every option, when the input tables satisfy their
    defining equations (`cosetTable[i] = g^i`, `twiddles` as `buildTwiddles` builds them; nothing is required without precompute) -/
theorem goFFT_eq (kers : List Nat) (pre dif coset : Bool) (m : Nat) (ci gen gi g gInv : R) (ct : List R)
    (tw : List (List R)) (a : List R) (ha : a.length = 2^m)
    (hct : pre = true → coset = true → ct = powers g (2^m)) (htw : pre = true → tw = buildTwiddles gen m) :
    goFFT kers pre dif coset m gen g ct tw a = FFT kers ⟨m, ci, gen, gi, g, gInv, pre⟩ dif coset a := by
  have hsc : (if coset then
        if dif then
          if pre then List.zipWith (· * ·) a ct else List.zipWith (· * ·) a (iter g (g ^ (0 : Nat)) (2^m))
        else List.zipWith (· * ·) a (permute (bitrev m) (if pre then ct else expTable g (2^m)))
      else a) =
      (if coset then
        if dif then List.zipWith (· * ·) a (powers g a.length)
        else List.zipWith (· * ·) a (permute (bitrev m) (powers g a.length))
      else a) := by
    cases coset with
    | false => rfl
    | true =>
      cases pre with
      | true => simp [hct rfl rfl, ha]
      | false => simp [expTable_eq, powers, ha]
  have hd : (⟨m, ci, gen, gi, g, gInv, pre⟩ : Domain R).m = m := rfl
  have hh := (tables_ok (⟨m, ci, gen, gi, g, gInv, pre⟩ : Domain R) gen).heads
  unfold goFFT FFT
  simp only [hsc, goTables_eq ci gen gi g gInv pre m gen tw htw]
  cases dif with
  | true => simp only [if_true]; exact goDifFFT_eq _ _ _ _ _ _ _ hh
  | false => simp only [Bool.false_eq_true, if_false]; exact goDitFFT_eq _ _ _ _ _ _ _ hh

/-- **`goFFTInverse` is the model's `FFTInverse`** (`cosetTableInv[i] = gInv^i`, `twiddlesInv` as `buildTwiddles` builds them
    for `GeneratorInv`) -/
theorem goFFTInverse_eq (kers : List Nat) (pre dif coset : Bool) (m : Nat) (ci gen gi g gInv : R) (cti : List R)
    (twi : List (List R)) (a : List R) (ha : a.length = 2^m)
    (hct : pre = true → coset = true → cti = powers gInv (2^m)) (htw : pre = true → twi = buildTwiddles gi m) :
    goFFTInverse kers pre dif coset m ci gi gInv cti twi a
      = FFTInverse kers ⟨m, ci, gen, gi, g, gInv, pre⟩ dif coset a := by
  have hh := (tables_ok (⟨m, ci, gen, gi, g, gInv, pre⟩ : Domain R) gi).heads
  have hcore : (if dif then goDifFFT kers (tables (⟨m, ci, gen, gi, g, gInv, pre⟩ : Domain R) gi).1
          (tables (⟨m, ci, gen, gi, g, gInv, pre⟩ : Domain R) gi).2 m gi 0 a
        else goDitFFT kers (tables (⟨m, ci, gen, gi, g, gInv, pre⟩ : Domain R) gi).1
          (tables (⟨m, ci, gen, gi, g, gInv, pre⟩ : Domain R) gi).2 m gi 0 a) =
      (if dif then difFFT kers (tables (⟨m, ci, gen, gi, g, gInv, pre⟩ : Domain R) gi).1
          (tables (⟨m, ci, gen, gi, g, gInv, pre⟩ : Domain R) gi).2 m gi 0 a
        else ditFFT kers (tables (⟨m, ci, gen, gi, g, gInv, pre⟩ : Domain R) gi).1
          (tables (⟨m, ci, gen, gi, g, gInv, pre⟩ : Domain R) gi).2 m gi 0 a) := by
    cases dif with
    | true => simp only [if_true]; exact goDifFFT_eq _ _ _ _ _ _ _ hh
    | false => simp only [Bool.false_eq_true, if_false]; exact goDitFFT_eq _ _ _ _ _ _ _ hh
  unfold goFFTInverse FFTInverse
  simp only [goTables_eq ci gen gi g gInv pre m gi twi htw, hcore, ha]
  cases coset with
  | false => rfl
  | true =>
    cases pre with
    | true => simp [hct rfl rfl]
    | false => simp [expTable_eq]

end Lemmas
end GV.FFT
