import GnarkVerif.Proofs.XmdGen
import GnarkVerif.Gen.Imp.H2FAll
/-
Helper lemmas for C13_h2f_gen: `SetBigInt` / `Hash` of Gen/Imp/H2F_generic.lean (REGENERATED from /repo/ecc/bn254/fr/element.go by
tools/goslp mode "imp", target kind h2f, with the package constants `Bits` and `_modulus` as parameters; Gen/Imp/H2FAll.lean checks that
the translation of each of the 23 field packages is this text at its own constants) refine `hashToField` of Model/HashToField.lean.

Abstraction function: `val : F → Nat` (the integer an element value stands for); the hypotheses on the two field-level parameters are
`val zeroF = 0` (`z.SetZero()`) and `val (setBigIntF v) = v` for `0 ≤ v < q` (`z.setBigInt(v)`, the limb-level primitive, which "assumes
0 ⩽ v < q"); the loop invariant of `Hash` is `loop_eq`.
-/
namespace GV.H2FGen
open GV GV.GoImp GV.HashToField GV.Gen.Imp GV.Gen.Imp.H2F_generic GV.XmdGen

/-- how a Go result `([]Element, error)` of the translated `Hash`, read through `val`, corresponds to the model's `Except` -/
def outOfF : Except HashToField.Err (List Nat) → List Nat × GoImp.Err
  | .ok out => (out, GoImp.Err.nil)
  | .error .len => ([], GoImp.Err.sentinel "invalid lenInBytes")
  | .error .dst => ([], GoImp.Err.sentinel "invalid domain size (>255 bytes)")

theorem bigSetBytes_eq (b : B) : bigSetBytes b = ((beToNat b : Nat) : Int) := rfl

/-- the window `bytes[i·L : (i+1)·L]` read by `SetBytes` is the model's chunk i -/
theorem sliceOf_chunk (bytes : B) (i L : Nat) :
    sliceOf bytes ((i : Int) * (L : Int)) (((i : Int) + 1) * (L : Int)) = (bytes.drop (i * L)).take L := by
  have h1 : (i : Int) * (L : Int) = ((i * L : Nat) : Int) := by push_cast; ring
  have h2 : ((i : Int) + 1) * (L : Int) = (((i + 1) * L : Nat) : Int) := by push_cast; ring
  rw [h1, h2]
  simp only [sliceOf, Int.toNat_natCast]
  congr 1
  rw [Nat.succ_mul]; omega

/-- a negative length: the translated `ExpandMsgXmd` passes the `ell > 255` test (ell ≤ 0) and refuses an over-long tag; for a tag of at
most 255 bytes Go goes on to `make([]byte, lenInBytes)`, which panics -/
theorem xmd_neg_dst (W : B → Option B) (H : B → B) (msg dst : B) (n : Int) (hn : n < 0) (hd : 255 < dst.length) :
    HashUtils.ExpandMsgXmd W H 32 64 msg dst n = ([], GoImp.Err.sentinel "invalid domain size (>255 bytes)") := by
  have hell : ¬ (Int.tdiv (n + 32 - 1) 32 > 255) := by
    have : Int.tdiv (n + 32 - 1) 32 ≤ 0 := by
      by_cases h : 0 ≤ n + 32 - 1
      · rw [Int.tdiv_eq_ediv_of_nonneg h]; omega
      · have h' : 0 ≤ -(n + 32 - 1) := by omega
        have h2 := Int.tdiv_nonneg h' (by decide : (0 : Int) ≤ 32)
        rw [Int.neg_tdiv] at h2
        omega
    omega
  have hdl : GoImp.len dst > 255 := by show ((dst.length : Nat) : Int) > 255; omega
  simp only [HashUtils.ExpandMsgXmd, hell, hdl, decide_false, decide_true, if_true, if_false, Bool.false_eq_true]

section
variable {F : Type} [Inhabited F] (zeroF : F) (setBigIntF : Int → F) (val : F → Nat) (q : Nat)

/-- the receiver's old value is irrelevant (`z.SetZero()` comes first) -/
theorem setBigInt_indep (bits m : Int) (z z' : F) (v : Int) :
    SetBigInt bits m zeroF setBigIntF z v = SetBigInt bits m zeroF setBigIntF z' v := rfl

/-- the dispatch of `SetBigInt`: `v = q` ↦ zero, `0 ≤ v < q` ↦ `setBigInt v`, everything else ↦ `setBigInt (v mod q)` -/
theorem setBigInt_cases (bits m : Int) (z : F) (v : Int) :
    SetBigInt bits m zeroF setBigIntF z v =
      if v = m then zeroF else if 0 ≤ v ∧ v < m then setBigIntF v else setBigIntF (v % m) := by
  unfold SetBigInt bigCmp bigMod
  simp only
  by_cases h1 : v < m
  · have hne : v ≠ m := by omega
    by_cases h0 : v < 0
    · have : ¬ (0 ≤ v ∧ v < m) := by omega
      simp [h1, h0, hne]
    · have h0' : (0 : Int) ≠ v → 0 < v := by omega
      have : (0 ≤ v ∧ v < m) := by omega
      by_cases hz : v = 0
      · subst hz; simp [h1, hne]
      · simp [h1, h0, hne, this, hz]
  · by_cases h2 : v = m
    · simp [h2]
    · have : ¬ (0 ≤ v ∧ v < m) := by omega
      simp [h1, h2]

variable (hq : 0 < q) (hzero : val zeroF = 0) (hset : ∀ v : Int, 0 ≤ v → v < q → val (setBigIntF v) = v.toNat)
include hq hzero hset

/-- `SetBigInt v` represents `v mod q` for EVERY integer v (negative, = q, ≥ q included) -/
theorem setBigInt_val (bits : Int) (z : F) (v : Int) :
    val (SetBigInt bits (q : Int) zeroF setBigIntF z v) = (v % (q : Int)).toNat := by
  rw [setBigInt_cases]
  have hqi : (0 : Int) < (q : Int) := by omega
  by_cases h1 : v = (q : Int)
  · simp [h1, hzero]
  · by_cases h2 : 0 ≤ v ∧ v < (q : Int)
    · simp only [h1, h2, and_self, if_true, if_false]
      rw [hset v h2.1 h2.2, Int.emod_eq_of_lt h2.1 h2.2]
    · simp only [h1, h2, if_false]
      rw [hset _ (Int.emod_nonneg v (by omega)) (Int.emod_lt_of_pos v hqi)]

omit hq hzero hset in
/-- loop invariant of `Hash`: after the iterations k … k+f-1 the entries below k are untouched and entry i ≥ k holds
`SetBigInt(OS2IP(bytes[i·L:(i+1)·L]))` -/
theorem loop_eq (bits m : Int) (X : B → B → Int → B × GoImp.Err) (count L : Nat) (bytes : B) :
    ∀ (f k : Nat) (vv : Int) (res : List F), k + f = count → res.length = count →
      (Hash.loop1 bits m zeroF setBigIntF X (count : Int) (L : Int) bytes f vv res (k : Int)).2.1 =
        res.take k ++ (List.range' k f).map
          (fun i => SetBigInt bits m zeroF setBigIntF zeroF (((beToNat ((bytes.drop (i * L)).take L) : Nat) : Int))) := by
  intro f
  induction f with
  | zero =>
    intro k vv res hk hres
    simp [Hash.loop1, List.take_of_length_le (by omega : res.length ≤ k)]
  | succ f ih =>
    intro k vv res hk hres
    have hc : ((k : Int) < (count : Int)) := by omega
    have ecast : (k : Int) + 1 = ((k + 1 : Nat) : Int) := by omega
    simp only [Hash.loop1, hc, decide_true, if_true, sliceOf_chunk, bigSetBytes_eq, setAt, Int.toNat_natCast]
    rw [ecast, ih (k + 1) _ _ (by omega) (by simp [hres])]
    rw [List.range'_succ, List.map_cons, List.take_add_one, List.take_set_of_le (Nat.le_refl k)]
    simp [hres ▸ (by omega : k < count), List.append_assoc]
    rfl

/-- the translated `Hash`, read through `val`, is the model's `hashToField` — for every message, tag and count ≥ 0, every expander `X`
that behaves as the model's `expandMsgXmd` (such as the translated `ExpandMsgXmd`, C13xmdgen_eq), every `bits` with
`16 + (1 + (bits-1)/8) = lenPerElt q` -/
theorem hash_eq (bits : Int) (hL : 16 + (1 + Int.tdiv (bits - 1) 8) = ((lenPerElt q : Nat) : Int))
    (X : B → B → Int → B × GoImp.Err) (H : B → B)
    (hX : ∀ (msg dst : B) (n : Nat), X msg dst (n : Int) = outOf (expandMsgXmd H 32 64 msg dst n)) (msg dst : B) (count : Nat) :
    (((H2F_generic.Hash bits (q : Int) zeroF setBigIntF X msg dst (count : Int)).1.map val),
      (H2F_generic.Hash bits (q : Int) zeroF setBigIntF X msg dst (count : Int)).2) = outOfF (hashToField H q msg dst count) := by
  have hmul : (count : Int) * ((lenPerElt q : Nat) : Int) = ((count * lenPerElt q : Nat) : Int) := by push_cast; ring
  unfold H2F_generic.Hash hashToField
  simp only [hL, hmul, hX]
  cases hx : expandMsgXmd H 32 64 msg dst (count * lenPerElt q) with
  | error e => cases e <;> simp [outOf, outOfF]
  | ok bytes =>
    have hfuel : ((count : Int) - 0).toNat = count := by omega
    have hl := loop_eq zeroF setBigIntF bits (q : Int) X count (lenPerElt q) bytes count 0 0 (makeSlice (count : Int)) (by omega)
      (by simp [makeSlice])
    simp only [outOf, bne_self_eq_false, Bool.false_eq_true, if_false, hfuel, outOfF]
    rw [show (0 : Int) = ((0 : Nat) : Int) from rfl]
    rcases hloop : Hash.loop1 bits (q : Int) zeroF setBigIntF X (count : Int) ((lenPerElt q : Nat) : Int) bytes count 0
      (makeSlice (count : Int)) ((0 : Nat) : Int) with ⟨vv', res', i'⟩
    rw [hloop] at hl
    simp only [List.take_zero, List.nil_append] at hl
    subst hl
    simp only [List.map_map, chunks_eq, ← List.range_eq_range']
    congr 1
    apply List.map_congr_left
    intro i _
    simp only [Function.comp, setBigInt_val zeroF setBigIntF val q hq hzero hset]
    rw [← Int.natCast_mod, Int.toNat_natCast]

omit hq hzero hset in
/-- negative count with an over-long tag: the tag error (for a tag of at most 255 bytes Go panics inside ExpandMsgXmd) -/
theorem hash_neg_dst (bits m : Int) (L : Nat) (hL : 16 + (1 + Int.tdiv (bits - 1) 8) = (L : Int)) (hLpos : 0 < L)
    (W : B → Option B) (H : B → B) (msg dst : B) (count : Int) (hc : count < 0) (hd : 255 < dst.length) :
    H2F_generic.Hash bits m zeroF setBigIntF (HashUtils.ExpandMsgXmd W H 32 64) msg dst count =
      ([], GoImp.Err.sentinel "invalid domain size (>255 bytes)") := by
  have hneg : count * (L : Int) < 0 := Int.mul_neg_of_neg_of_pos hc (by omega)
  unfold H2F_generic.Hash
  simp only [hL, xmd_neg_dst W H msg dst _ hneg hd]
  rfl

end

end GV.H2FGen
