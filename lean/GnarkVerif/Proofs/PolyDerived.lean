import GnarkVerif.Proofs.Poly
import GnarkVerif.Proofs.ForkJoin
import Mathlib.RingTheory.RootsOfUnity.PrimitiveRoots
/-
C20 helper lemmas for the derived constructions: chunked loops over any tiling of the index range (the ranges of
`parallel.Execute`, Model/ForkJoin.lean), the chunked batch inversion of `BuildRatioCopyConstraint`, and the table of
`X^{n₀} − 1` on the coset of the big domain for every ratio `n₁/n₀ ≥ 1` (when it has a zero, when it has none).
-/
namespace GV.Poly
open GV.FFT GV.ForkJoin Finset
set_option linter.unusedSectionVars false

section Ring
variable {R : Type} [CommRing R]

theorem Tiles.bound {ranges : List (Nat × Nat)} {n : Nat} (h : Tiles ranges n) (r : Nat × Nat) (hr : r ∈ ranges)
    (hlt : r.1 < r.2) : r.2 ≤ n := by
  have : r.2 - 1 ∈ ranges.flatMap rangeIdx := by
    refine List.mem_flatMap.2 ⟨r, hr, ?_⟩
    simp only [rangeIdx, List.mem_range'_1]
    omega
  rw [h] at this
  have := List.mem_range.1 this
  omega

theorem slice_eq_map (l : List R) (r : Nat × Nat) (h : r.1 < r.2 → r.2 ≤ l.length) :
    slice l r = (rangeIdx r).map (fun i => l.getD i 0) := by
  apply List.ext_getElem?
  intro k
  simp only [slice, rangeIdx, List.getElem?_take, List.getElem?_drop, List.getElem?_map]
  by_cases hk : k < r.2 - r.1
  · have h1 : r.1 + k < l.length := by have := h (by omega); omega
    simp [hk, h1, List.getD_eq_getElem?_getD]
  · simp [hk]

theorem chunk_eq (inv : R → R) (cs ts : List R) (r : Nat × Nat) (hc : r.1 < r.2 → r.2 ≤ cs.length)
    (ht : r.1 < r.2 → r.2 ≤ ts.length) :
    List.zipWith (· * ·) (slice cs r) ((slice ts r).map inv)
      = (rangeIdx r).map (fun i => cs.getD i 0 * inv (ts.getD i 0)) := by
  rw [slice_eq_map cs r hc, slice_eq_map ts r ht, List.map_map, List.zipWith_map, List.zipWith_self]
  rfl

theorem zipWith_eq_map_range (f : R → R → R) (cs ts : List R) (h : ts.length = cs.length) :
    List.zipWith f cs ts = (List.range cs.length).map (fun i => f (cs.getD i 0) (ts.getD i 0)) := by
  apply List.ext_getElem?
  intro k
  simp only [List.getElem?_zipWith, List.getElem?_map]
  by_cases hk : k < cs.length
  · have hk' : k < ts.length := by omega
    simp [hk, hk', List.getD_eq_getElem?_getD]
  · have hk' : ¬ k < ts.length := by omega
    simp [hk, hk']

theorem chunkedDiv_eq (inv : R → R) (ranges : List (Nat × Nat)) (cs ts : List R) (hT : Tiles ranges cs.length)
    (hlen : ts.length = cs.length) :
    chunkedDiv (List.map inv) ranges cs ts = List.zipWith (fun c t => c * inv t) cs ts := by
  unfold chunkedDiv
  have e : ∀ r ∈ ranges, List.zipWith (· * ·) (slice cs r) (List.map inv (slice ts r))
      = (rangeIdx r).map (fun i => cs.getD i 0 * inv (ts.getD i 0)) := fun r hr =>
    chunk_eq inv cs ts r (Tiles.bound hT r hr) (fun h => hlen ▸ Tiles.bound hT r hr h)
  rw [List.flatMap_congr e, ← List.map_flatMap, hT, zipWith_eq_map_range _ cs ts hlen]


theorem chunked_map {α : Type} (f : Nat → α) (ranges : List (Nat × Nat)) (n : Nat) (hT : Tiles ranges n) :
    ranges.flatMap (fun r => (rangeIdx r).map f) = (List.range n).map f := by
  rw [← List.map_flatMap, hT]

theorem runProd_head (bs : List R) (acc : R) : ∃ rest, runProd acc bs = acc :: rest ∧ rest.length = bs.length := by
  cases bs with
  | nil => exact ⟨[], rfl, rfl⟩
  | cons b bs => exact ⟨runProd (acc * b) bs, rfl, by simp [runProd_length]⟩


theorem grandProductChunked_eq (inv : R → R) (h1 : inv 1 = 1) (ranges : List (Nat × Nat)) (ns ds : List R)
    (hT : Tiles ranges ns.length) (hlen : ds.length = ns.length) :
    grandProductChunked (List.map inv) ranges ns ds = grandProduct inv ns ds := by
  obtain ⟨cs, hc, hcl⟩ := runProd_head ns 1
  obtain ⟨ts, ht, htl⟩ := runProd_head ds 1
  unfold grandProductChunked grandProduct
  simp only [hc, ht, List.take_succ_cons, List.take_zero, List.drop_succ_cons, List.drop_zero, List.zipWith_cons_cons,
    h1, mul_one]
  rw [chunkedDiv_eq inv ranges cs ts (hcl ▸ hT) (by omega)]
  rfl

end Ring

section Fld
variable {F : Type} [Field F]

theorem xn_table_length (inv : F → F) (d0 d1 : Domain F) (hm : d0.m ≤ d1.m) :
    (xnMinusOneInv inv d0 d1).length = 2^(d1.m - d0.m) := by
  unfold xnMinusOneInv
  simp [Nat.pow_div hm (by decide : 0 < 2)]

theorem division_defined (d0 d1 : Domain F) (hm : d0.m ≤ d1.m) (hω : d1.gen ^ (2^d1.m) = 1)
    (hg : d1.g ^ (2^d1.m) ≠ 1) (i : Nat) : (d1.g * d1.gen ^ i) ^ (2^d0.m) ≠ 1 := by
  intro h
  apply hg
  have hN : 2^d0.m * 2^(d1.m - d0.m) = 2^d1.m := by rw [← pow_add]; congr 1; omega
  have := congrArg (fun x => x ^ (2^(d1.m - d0.m))) h
  simp only [one_pow, ← pow_mul, hN] at this
  rw [mul_pow, ← pow_mul, mul_comm i, pow_mul, hω, one_pow, mul_one] at this
  exact this

theorem division_undefined (d0 d1 : Domain F) (hd : Good d1) (hm : d0.m ≤ d1.m) (hg : d1.g ^ (2^d1.m) = 1) :
    ∃ i, i < 2^(d1.m - d0.m) ∧ (d1.g * d1.gen ^ i) ^ (2^d0.m) = 1 := by
  have hN : 2^d0.m * 2^(d1.m - d0.m) = 2^d1.m := by rw [← pow_add]; congr 1; omega
  rcases hk : d1.m with _ | k
  · have h0 : d0.m = 0 := by omega
    refine ⟨0, by simp, ?_⟩
    rw [hk] at hg
    simpa [h0] using hg
  · have hprim : d1.gen ^ (2^k) = -1 := by have := hd.prim; rw [hk] at this; exact this
    have h2 : (2 : F) ≠ 0 := by
      intro e
      have := hd.card
      rw [hk, e, zero_pow (by omega), zero_mul] at this
      exact zero_ne_one this
    have hne : ¬ d1.gen ^ (2^k) = 1 := by
      rw [hprim]
      intro e
      apply h2
      have : (1 : F) + 1 = 0 := by nth_rewrite 1 [← e]; ring
      rw [← this]; norm_num
    have hfin : d1.gen ^ (2^(k+1)) = 1 := by rw [pow_succ, pow_mul, hprim]; ring
    have : Fact (Nat.Prime 2) := ⟨Nat.prime_two⟩
    have hord := orderOf_eq_prime_pow hne hfin
    have hpr : IsPrimitiveRoot d1.gen (2^d1.m) := by rw [hk, ← hord]; exact IsPrimitiveRoot.orderOf _
    have hpt : IsPrimitiveRoot (d1.gen ^ (2^d0.m)) (2^(d1.m - d0.m)) :=
      IsPrimitiveRoot.pow (Nat.pow_pos (by decide)) hpr hN.symm
    have hx : ((d1.g ^ (2^d0.m))⁻¹) ^ (2^(d1.m - d0.m)) = 1 := by
      rw [inv_pow, ← pow_mul, hN, hg, inv_one]
    have : NeZero (2^(d1.m - d0.m)) := ⟨(Nat.pow_pos (by decide)).ne'⟩
    obtain ⟨i, hi, hti⟩ := hpt.eq_pow_of_pow_eq_one hx
    refine ⟨i, by rw [← hk]; exact hi, ?_⟩
    have hg0 : d1.g ^ (2^d0.m) ≠ 0 := by
      intro e
      have : (d1.g ^ (2^d0.m)) ^ (2^(d1.m - d0.m)) = 1 := by rw [← pow_mul, hN, hg]
      rw [e, zero_pow (Nat.pow_pos (by decide)).ne'] at this
      exact zero_ne_one this
    rw [mul_pow, ← pow_mul, mul_comm i, pow_mul, hti, mul_inv_cancel₀ hg0]

end Fld
end GV.Poly
