import GnarkVerif.Proofs.MiMCDigestSim
import Mathlib.Data.ZMod.Basic
/-
The `encrypt` parameter of the generated digest methods instantiated over F = ZMod q: the ring-level specification proved of the
TRANSLATED `digest.encrypt` (Props/C14_gen_mimc_<pkg>: rounds `m ← (m + k + cᵢ)^d`, then `+ k`) is, read through `ZMod.val`, the
model's `encrypt` on canonical representatives.
-/
set_option linter.unusedSimpArgs false
namespace GV.MiMC.DigestGen
open GV.GoImp

variable {q : Nat} [NeZero q]

theorem val_pow' (x : ZMod q) (d : Nat) : (x ^ d).val = x.val ^ d % q := by
  conv_lhs => rw [← ZMod.natCast_zmod_val x, ← Nat.cast_pow, ZMod.val_natCast]

theorem val_round (P : Params) (hq : P.q = q) (k m c : ZMod q) :
    ((m + k + c) ^ P.d).val = roundSpec P k.val m.val c.val := by
  rw [val_pow', roundSpec, sboxSpec, hq, ZMod.val_add, ZMod.val_add]
  congr 2
  rw [Nat.add_mod, Nat.mod_mod, ← Nat.add_mod]

theorem val_rounds (P : Params) (hq : P.q = q) (k : ZMod q) (cs : List (ZMod q)) : ∀ m : ZMod q,
    (cs.foldl (fun m c => (m + k + c) ^ P.d) m).val = (cs.map ZMod.val).foldl (roundSpec P k.val) m.val := by
  induction cs with
  | nil => intro m; rfl
  | cons c cs ih =>
    intro m
    simp only [List.foldl_cons, List.map_cons]
    rw [ih, val_round P hq]

/-- the ring-level specification of `encrypt` is the model's `encrypt` on canonical representatives -/
theorem val_encryptSpec (P : Params) (hq : P.q = q) (cs : List (ZMod q)) (hc : P.consts = cs.map ZMod.val) (k m : ZMod q) :
    (cs.foldl (fun m c => (m + k + c) ^ P.d) m + k).val = MiMC.encrypt P k.val m.val := by
  rw [encrypt_eq_spec, encryptSpec, hc, ZMod.val_add, val_rounds P hq, hq]

/-- what is assumed of the parameters over `ZMod q` OTHER than `encrypt`: ring zero / addition, BlockSize, the byte codecs -/
structure RingParamsOK {BO : Type} (P : Params) (bo : BO) (X : Prims (ZMod q) BO) : Prop where
  size_pos : 0 < P.size
  blockSize : X.BS = (P.size : Int)
  zero : X.fZero = 0
  add : X.fAdd = (· + ·)
  dec_ok : ∀ blk, blk.length = P.size → decBlock P blk < P.q →
    (X.boElement bo blk).1.val = decBlock P blk ∧ (X.boElement bo blk).2 = Err.nil
  dec_err : ∀ blk, blk.length = P.size → ¬ decBlock P blk < P.q → (X.boElement bo blk).2 ≠ Err.nil
  bytes : ∀ x, X.fBytes x = encBE P.size x.val
  set_ok : ∀ z buf, buf.length = P.size → beToNat buf < P.q →
    (X.fSet z buf).1.val = beToNat buf ∧ (X.fSet z buf).2 = Err.nil
  set_err : ∀ z buf, ¬ (buf.length = P.size ∧ beToNat buf < P.q) → (X.fSet z buf).1 = z ∧ (X.fSet z buf).2 ≠ Err.nil

/-- over `ZMod q`, `ParamsOKF` reduces to `RingParamsOK` and the statement on `encrypt` -/
theorem paramsOKF_zmod {BO : Type} (P : Params) (hq : P.q = q) (bo : BO) (X : Prims (ZMod q) BO) (h : RingParamsOK P bo X)
    (henc : ∀ k m, (X.encrypt k m).val = MiMC.encrypt P k.val m.val) : ParamsOKF P ZMod.val bo X where
  size_pos := h.size_pos
  q_pos := by rw [hq]; exact Nat.pos_of_ne_zero (NeZero.ne q)
  blockSize := h.blockSize
  dflt := ZMod.val_zero
  val_lt x := by rw [hq]; exact ZMod.val_lt x
  zero := by rw [h.zero]; exact ZMod.val_zero
  add a b := by rw [h.add, hq]; exact ZMod.val_add a b
  enc := henc
  dec_ok := h.dec_ok
  dec_err := h.dec_err
  bytes := h.bytes
  set_ok := h.set_ok
  set_err := h.set_err

end GV.MiMC.DigestGen
