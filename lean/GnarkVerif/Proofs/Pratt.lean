import GnarkVerif.Proofs.Field
import Mathlib.NumberTheory.LucasPrimality
import Mathlib.GroupTheory.OrderOfElement
/-
Primality certificates (Pratt / Lucas–Pocklington, "N−1" certificates) with an executable, kernel-evaluable
checker and its soundness proof.  Used by `Props/C01_primes.lean` to discharge the `[Fact p.q.Prime]`
hypotheses of the C01 field theorems for the concrete moduli of `Gen/Fields.lean`.

A certificate is a flat chain of steps (a Pratt tree in topological order, shared sub-certificates are
written once).  One step certifies one number `n`:

    n, witness a, list of (p, e), s     with   F = ∏ pᵉ,   F ∣ n−1,   n < (F+1)²  (or n ≤ F³ and the s-test)

and the checker verifies
  * every listed `p` is a prime already certified by an earlier step, or a prime by trial division;
  * the prime powers are pairwise coprime (gcd), `e > 0`;
  * `a^(n−1) ≡ 1 (mod n)`;
  * `gcd(a^((n−1)/p) − 1, n) = 1` for every listed `p` (for a prime `n` this is the same as `≢ 1`).
With `F = n−1` (complete factorisation, the usual case) this is exactly the Lucas test / a Pratt certificate
(`Pratt.lucas_step`, `check_sound_lucas`, proved from Mathlib's `lucas_primality`); with only `F > √n` factored it is
Pocklington's criterion (`Pratt.pocklington`, proved here from the order of elements in `ZMod r`); with only
`F ≥ ∛n` factored the step carries one more number `s` and the checker also verifies the discriminant condition of
Brillhart–Lehmer–Selfridge (`Pratt.bls_cube`: `(n−1)/F = c₂F + c₁`, `c₁² − 4c₂` is not a perfect square).
-/
namespace GV.Pratt
open GV

/-! ## trial division -/

/-- `trialGo p fuel d`: no `m` with `d ≤ m`, `m·m ≤ p` divides `p` (fuel-recursive) -/
def trialGo (p : Nat) : Nat → Nat → Bool
  | 0, _ => false
  | fuel + 1, d => if p < d * d then true else if p % d = 0 then false else trialGo p fuel (d + 1)

/-- primality by trial division (meant for small `p`; `p` steps of fuel always suffice) -/
def trialPrime (p : Nat) : Bool := decide (2 ≤ p) && trialGo p p 2

theorem trialGo_sound (p : Nat) : ∀ (fuel d : Nat), trialGo p fuel d = true →
    (∀ m, 2 ≤ m → m < d → ¬ m ∣ p) → ∀ m, 2 ≤ m → m * m ≤ p → ¬ m ∣ p := by
  intro fuel
  induction fuel with
  | zero => intro d h; simp [trialGo] at h
  | succ k ih =>
    intro d h hd m hm hmm
    unfold trialGo at h
    by_cases h1 : p < d * d
    · by_cases hmd : m < d
      · exact hd m hm hmd
      · have : d * d ≤ m * m := Nat.mul_le_mul (by omega) (by omega)
        omega
    · rw [if_neg h1] at h
      by_cases h2 : p % d = 0
      · rw [if_pos h2] at h; exact absurd h (by simp)
      · rw [if_neg h2] at h
        refine ih (d + 1) h ?_ m hm hmm
        intro m' hm' hlt
        by_cases e : m' = d
        · subst e; exact fun hdv => h2 (Nat.mod_eq_zero_of_dvd hdv)
        · exact hd m' hm' (by omega)

theorem trialPrime_sound (p : Nat) (h : trialPrime p = true) : p.Prime := by
  unfold trialPrime at h
  rw [Bool.and_eq_true, decide_eq_true_eq] at h
  refine Nat.prime_def_le_sqrt.2 ⟨h.1, fun m hm hs => ?_⟩
  exact trialGo_sound p p 2 h.2 (fun m h2 hlt => by omega) m hm (Nat.le_sqrt.1 hs)

/-! ## the two criteria -/

/-- Lucas test with a complete factorisation (one node of a Pratt tree), via Mathlib's `lucas_primality` -/
theorem lucas_step (n a : Nat) (hn : 1 < n) (ha : a ^ (n - 1) % n = 1)
    (hd : ∀ q : ℕ, q.Prime → q ∣ n - 1 → a ^ ((n - 1) / q) % n ≠ 1) : n.Prime := by
  have h1 : (1 : Nat) % n = 1 := Nat.mod_eq_of_lt hn
  refine lucas_primality n (a : ZMod n) ?_ ?_
  · have : ((a ^ (n - 1) : ℕ) : ZMod n) = ((1 : ℕ) : ZMod n) :=
      (ZMod.natCast_eq_natCast_iff' _ _ _).2 (by rw [ha, h1])
    simpa using this
  · intro q hq hqd e
    have : ((a ^ ((n - 1) / q) : ℕ) : ZMod n) = ((1 : ℕ) : ZMod n) := by simpa using e
    have := (ZMod.natCast_eq_natCast_iff' _ _ _).1 this
    rw [h1] at this
    exact hd q hq hqd this

/-- the core of Pocklington's criterion: a prime divisor `r` of `n` is `≡ 1 (mod pᵉ)` -/
theorem pocklington_dvd (n a p e r : Nat) (hp : p.Prime) (he : 0 < e) (hpe : p ^ e ∣ n - 1)
    (hr : r.Prime) (hrn : r ∣ n) (hn : 1 < n)
    (ha : a ^ (n - 1) % n = 1)
    (hg : Nat.gcd (a ^ ((n - 1) / p) % n + (n - 1)) n = 1) : p ^ e ∣ r - 1 := by
  have : Fact r.Prime := ⟨hr⟩
  obtain ⟨k, hk⟩ := hpe
  obtain ⟨e', rfl⟩ : ∃ e', e = e' + 1 := ⟨e - 1, by omega⟩
  -- casts along r ∣ n
  have cast_mod : ∀ t : Nat, ((t % n : ℕ) : ZMod r) = (t : ZMod r) := fun t =>
    (ZMod.natCast_eq_natCast_iff _ _ _).2 ((Nat.mod_modEq t n).of_dvd hrn)
  have hn0 : ((n : ℕ) : ZMod r) = 0 := (ZMod.natCast_eq_zero_iff _ _).2 hrn
  set x : ZMod r := (a : ZMod r) with hx
  have hx1 : x ^ (n - 1) = 1 := by
    have := cast_mod (a ^ (n - 1))
    rw [ha] at this
    simpa [hx] using this.symm
  have hdiv : (n - 1) / p = p ^ e' * k := by
    rw [hk, pow_succ, Nat.mul_assoc, Nat.mul_comm p k, ← Nat.mul_assoc, Nat.mul_div_cancel _ hp.pos]
  have hx2 : x ^ ((n - 1) / p) ≠ 1 := by
    intro e1
    have hz : ((a ^ ((n - 1) / p) % n + (n - 1) : ℕ) : ZMod r) = 0 := by
      rw [Nat.cast_add, cast_mod, Nat.cast_pred (by omega), hn0]
      simp [← hx, e1]
    have hdvd : r ∣ a ^ ((n - 1) / p) % n + (n - 1) := (ZMod.natCast_eq_zero_iff _ _).1 hz
    have : r ∣ 1 := hg ▸ Nat.dvd_gcd hdvd hrn
    exact hr.one_lt.ne' (Nat.dvd_one.1 this)
  set y : ZMod r := x ^ k with hy
  have hy1 : y ^ p ^ (e' + 1) = 1 := by
    rw [hy, ← pow_mul, Nat.mul_comm, ← hk]; exact hx1
  have hy2 : ¬ y ^ p ^ e' = 1 := by
    rw [hy, ← pow_mul, Nat.mul_comm, ← hdiv]; exact hx2
  have hord : orderOf y = p ^ (e' + 1) := by
    have : Fact p.Prime := ⟨hp⟩
    exact orderOf_eq_prime_pow hy2 hy1
  have hy0 : y ≠ 0 := by
    intro e0
    rw [e0, zero_pow (pow_ne_zero _ hp.ne_zero)] at hy1
    exact zero_ne_one hy1
  rw [← hord]
  exact ZMod.orderOf_dvd_card_sub_one hy0

/-- product of the listed prime powers -/
def prodF : List (Nat × Nat) → Nat
  | [] => 1
  | pe :: t => pe.1 ^ pe.2 * prodF t

/-- every listed prime power is coprime to the product of the later ones -/
def copOK : List (Nat × Nat) → Bool
  | [] => true
  | pe :: t => (Nat.gcd (pe.1 ^ pe.2) (prodF t) == 1) && copOK t

theorem prodF_dvd (m : Nat) : ∀ fs : List (Nat × Nat), copOK fs = true →
    (∀ pe ∈ fs, pe.1 ^ pe.2 ∣ m) → prodF fs ∣ m := by
  intro fs
  induction fs with
  | nil => intro _ _; exact one_dvd _
  | cons pe t ih =>
    intro hc h
    simp only [copOK, Bool.and_eq_true, beq_iff_eq] at hc
    exact Nat.Coprime.mul_dvd_of_dvd_of_dvd hc.1 (h pe (by simp))
      (ih hc.2 (fun q hq => h q (by simp [hq])))

theorem dvd_prodF : ∀ (fs : List (Nat × Nat)) (pe : Nat × Nat), pe ∈ fs → pe.1 ^ pe.2 ∣ prodF fs := by
  intro fs
  induction fs with
  | nil => intro pe h; simp at h
  | cons q t ih =>
    intro pe h
    rcases List.mem_cons.1 h with rfl | h
    · exact Dvd.intro _ rfl
    · exact Dvd.dvd.mul_left (ih pe h) _

/-- a prime dividing the product of the listed prime powers is one of the listed primes -/
theorem prime_dvd_prodF (q : Nat) (hq : q.Prime) : ∀ fs : List (Nat × Nat),
    (∀ pe ∈ fs, pe.1.Prime) → q ∣ prodF fs → ∃ pe ∈ fs, pe.1 = q := by
  intro fs
  induction fs with
  | nil => intro _ h; exact absurd (Nat.dvd_one.1 h) hq.one_lt.ne'
  | cons pe t ih =>
    intro hp h
    rcases (Nat.Prime.dvd_mul hq).1 h with h | h
    · have := (Nat.prime_dvd_prime_iff_eq hq (hp pe (by simp))).1 (hq.dvd_of_dvd_pow h)
      exact ⟨pe, by simp, this.symm⟩
    · obtain ⟨r, hr, e⟩ := ih (fun r hr => hp r (by simp [hr])) h
      exact ⟨r, by simp [hr], e⟩

/-- under the Pocklington conditions the least prime factor of `n` is `≡ 1 (mod F)` -/
theorem minFac_cong (n a : Nat) (fs : List (Nat × Nat)) (hn : 1 < n)
    (hF : prodF fs ∣ n - 1) (hc : copOK fs = true) (ha : a ^ (n - 1) % n = 1)
    (h : ∀ pe ∈ fs, pe.1.Prime ∧ 0 < pe.2 ∧
      Nat.gcd (a ^ ((n - 1) / pe.1) % n + (n - 1)) n = 1) : prodF fs ∣ Nat.minFac n - 1 := by
  have hr : (Nat.minFac n).Prime := Nat.minFac_prime (by omega)
  have hrn : Nat.minFac n ∣ n := Nat.minFac_dvd n
  refine prodF_dvd _ fs hc (fun pe hpe => ?_)
  obtain ⟨h1, h2, h3⟩ := h pe hpe
  exact pocklington_dvd n a pe.1 pe.2 _ h1 h2 ((dvd_prodF fs pe hpe).trans hF) hr hrn hn ha h3

/-- **Pocklington's criterion** (with one witness): `F = ∏ pᵉ ∣ n−1`, `n < (F+1)²`, `a^(n−1) ≡ 1`,
`gcd(a^((n−1)/p) − 1, n) = 1` for every listed prime `p`  ⟹  `n` is prime. -/
theorem pocklington (n a : Nat) (fs : List (Nat × Nat)) (hn : 1 < n)
    (hF : prodF fs ∣ n - 1) (hsz : n < (prodF fs + 1) * (prodF fs + 1)) (hc : copOK fs = true)
    (ha : a ^ (n - 1) % n = 1)
    (h : ∀ pe ∈ fs, pe.1.Prime ∧ 0 < pe.2 ∧
      Nat.gcd (a ^ ((n - 1) / pe.1) % n + (n - 1)) n = 1) : n.Prime := by
  by_contra hnp
  have hr : (Nat.minFac n).Prime := Nat.minFac_prime (by omega)
  have hsq : Nat.minFac n ^ 2 ≤ n := Nat.minFac_sq_le_self (by omega) hnp
  have hdv : prodF fs ∣ Nat.minFac n - 1 := minFac_cong n a fs hn hF hc ha h
  have hle : prodF fs ≤ Nat.minFac n - 1 := Nat.le_of_dvd (by have := hr.two_le; omega) hdv
  have h2 := hr.two_le
  have : (prodF fs + 1) * (prodF fs + 1) ≤ Nat.minFac n ^ 2 := by
    rw [sq]; exact Nat.mul_le_mul (by omega) (by omega)
  omega

/-- the discriminant test of the Brillhart–Lehmer–Selfridge refinement: with `(n−1)/F = c₂·F + c₁` (digits in
base `F`), `c₁² − 4c₂` is negative or lies strictly between the consecutive squares `s²` and `(s+1)²` -/
def blsOK (n F s : Nat) : Bool :=
  decide ((n - 1) / F % F * ((n - 1) / F % F) < 4 * ((n - 1) / F / F)) ||
  (decide (s * s < (n - 1) / F % F * ((n - 1) / F % F) - 4 * ((n - 1) / F / F)) &&
   decide ((n - 1) / F % F * ((n - 1) / F % F) - 4 * ((n - 1) / F / F) < (s + 1) * (s + 1)))

/-- arithmetic core: `n = p·v ≤ F³` with `p ≡ v ≡ 1 (mod F)`, `p, v > 1` forces `n = (aF+1)(bF+1)` with
`c₁ = a+b`, `c₂ = ab`, so `c₁² − 4c₂ = (a−b)²` is a perfect square -/
theorem bls_arith (n F p v s : Nat) (hpv : n = p * v) (hp : F ∣ p - 1) (hp2 : 2 ≤ p) (hv2 : 2 ≤ v)
    (hnF : F ∣ n - 1) (hcube : n ≤ F * F * F) (hD : blsOK n F s = true) : False := by
  obtain ⟨a, ha⟩ := hp
  have hpe : p = F * a + 1 := by omega
  have hF0 : 0 < F := by
    rcases Nat.eq_zero_or_pos F with h0 | h0
    · subst h0; simp at ha; omega
    · exact h0
  have ha1 : 1 ≤ a := by
    rcases Nat.eq_zero_or_pos a with h0 | h0
    · subst h0; simp at ha; omega
    · exact h0
  have hn1 : n - 1 = F * (a * v) + (v - 1) := by
    have : n = F * (a * v) + v := by rw [hpv, hpe]; ring
    omega
  have hvd : F ∣ v - 1 := by
    rw [hn1] at hnF
    exact (Nat.dvd_add_right (Dvd.intro _ rfl)).1 hnF
  obtain ⟨b, hb⟩ := hvd
  have hve : v = F * b + 1 := by omega
  have hb1 : 1 ≤ b := by
    rcases Nat.eq_zero_or_pos b with h0 | h0
    · subst h0; simp at hb; omega
    · exact h0
  have hn : n = a * b * F * F + (a + b) * F + 1 := by rw [hpv, hpe, hve]; ring
  have hR : (n - 1) / F = (a + b) + a * b * F := by
    have : n - 1 = F * ((a + b) + a * b * F) := by rw [hn]; simp; ring
    rw [this, Nat.mul_div_cancel_left _ hF0]
  have hab : a * b < F := by
    by_contra hge
    have hge := Nat.le_of_not_lt hge
    have h1 : F * F * F ≤ a * b * F * F := by
      have := Nat.mul_le_mul_right (F * F) hge
      calc F * F * F = F * (F * F) := by ring
        _ ≤ a * b * (F * F) := this
        _ = a * b * F * F := by ring
    omega
  have hab1 : a + b ≤ a * b + 1 := by
    obtain ⟨a', rfl⟩ : ∃ a', a = a' + 1 := ⟨a - 1, by omega⟩
    obtain ⟨b', rfl⟩ : ∃ b', b = b' + 1 := ⟨b - 1, by omega⟩
    have : (a' + 1) * (b' + 1) = a' * b' + a' + b' + 1 := by ring
    omega
  have hlt : a + b < F := by
    by_contra hge
    have hge := Nat.le_of_not_lt hge
    have e1 : a + b = F := by omega
    have e2 : a * b = F - 1 := by omega
    obtain ⟨G, rfl⟩ : ∃ G, F = G + 1 := ⟨F - 1, by omega⟩
    have e3 : a * b = G := by omega
    have : n = (G + 1) * (G + 1) * (G + 1) + 1 := by rw [hn, e1, e3]; ring
    omega
  have hc1 : (n - 1) / F % F = a + b := by
    rw [hR, Nat.add_mul_mod_self_right, Nat.mod_eq_of_lt hlt]
  have hc2 : (n - 1) / F / F = a * b := by
    rw [hR, Nat.add_mul_div_right _ _ hF0, Nat.div_eq_of_lt hlt, Nat.zero_add]
  unfold blsOK at hD
  rw [hc1, hc2] at hD
  simp only [Bool.or_eq_true, Bool.and_eq_true, decide_eq_true_eq] at hD
  obtain ⟨d, hd⟩ : ∃ d, (a + b) * (a + b) = 4 * (a * b) + d * d := by
    rcases Nat.le_total a b with hle | hle
    · obtain ⟨d, rfl⟩ := Nat.exists_eq_add_of_le hle
      exact ⟨d, by ring⟩
    · obtain ⟨d, rfl⟩ := Nat.exists_eq_add_of_le hle
      exact ⟨d, by ring⟩
  rcases hD with hD | ⟨hD1, hD2⟩
  · omega
  · have e : (a + b) * (a + b) - 4 * (a * b) = d * d := by omega
    rw [e] at hD1 hD2
    have h1 := Nat.mul_self_lt_mul_self_iff.1 hD1
    have h2 := Nat.mul_self_lt_mul_self_iff.1 hD2
    omega

/-- **Brillhart–Lehmer–Selfridge refinement** (cube-root bound): the Pocklington conditions for
`F = ∏ pᵉ ∣ n−1` with only `n ≤ F³`, plus the discriminant test `blsOK`, imply that `n` is prime. -/
theorem bls_cube (n a s : Nat) (fs : List (Nat × Nat)) (hn : 1 < n)
    (hF : prodF fs ∣ n - 1) (hcube : n ≤ prodF fs * prodF fs * prodF fs) (hD : blsOK n (prodF fs) s = true)
    (hc : copOK fs = true) (ha : a ^ (n - 1) % n = 1)
    (h : ∀ pe ∈ fs, pe.1.Prime ∧ 0 < pe.2 ∧
      Nat.gcd (a ^ ((n - 1) / pe.1) % n + (n - 1)) n = 1) : n.Prime := by
  by_contra hnp
  have hr : (Nat.minFac n).Prime := Nat.minFac_prime (by omega)
  have hrn : Nat.minFac n ∣ n := Nat.minFac_dvd n
  have hdv : prodF fs ∣ Nat.minFac n - 1 := minFac_cong n a fs hn hF hc ha h
  have hpv : n = Nat.minFac n * (n / Nat.minFac n) := (Nat.mul_div_cancel' hrn).symm
  have hv0 : n / Nat.minFac n ≠ 0 := fun e => by rw [e, Nat.mul_zero] at hpv; omega
  have hv1 : n / Nat.minFac n ≠ 1 := fun e => by
    rw [e, Nat.mul_one] at hpv
    exact hnp (by rw [hpv]; exact hr)
  have hv2 : 2 ≤ n / Nat.minFac n := (Nat.two_le_iff _).2 ⟨hv0, hv1⟩
  exact bls_arith n (prodF fs) (Nat.minFac n) (n / Nat.minFac n) s hpv hdv hr.two_le hv2 hF hcube hD

/-! ## certificates and the checker -/

/-- one node: the number, the witness, the (partial) factorisation of `n − 1` as `(prime, exponent)` -/
structure Step where
  n : Nat
  a : Nat
  fs : List (Nat × Nat)
  /-- only for steps with `√n > F ≥ ∛n`: `⌊√(c₁² − 4c₂)⌋`, see `blsOK`; `0` otherwise -/
  s : Nat

/-- already certified by an earlier step, or prime by trial division -/
def knownPrime (acc : List Nat) (p : Nat) : Bool := acc.contains p || trialPrime p

def stepOK (acc : List Nat) (s : Step) : Bool :=
  decide (1 < s.n) && decide ((s.n - 1) % prodF s.fs = 0) &&
  (decide (s.n < (prodF s.fs + 1) * (prodF s.fs + 1)) ||
    (decide (s.n ≤ prodF s.fs * prodF s.fs * prodF s.fs) && blsOK s.n (prodF s.fs) s.s)) && copOK s.fs &&
  (powMod s.a (s.n - 1) s.n == 1) &&
  s.fs.all (fun pe => knownPrime acc pe.1 && decide (0 < pe.2) &&
    (Nat.gcd (powMod s.a ((s.n - 1) / pe.1) s.n + (s.n - 1)) s.n == 1))

/-- check the steps in order; the result is the list of certified numbers -/
def run : List Nat → List Step → Option (List Nat)
  | acc, [] => some acc
  | acc, s :: ss => if stepOK acc s then run (s.n :: acc) ss else none

/-- a Pratt certificate for `n`: a chain of steps, `n` is certified by one of them (or by trial division) -/
structure PrattCert where
  n : Nat
  steps : List Step

/-- the executable checker -/
def check (c : PrattCert) : Bool :=
  match run [] c.steps with
  | some acc => knownPrime acc c.n
  | none => false

/-- every step uses the complete factorisation of `n − 1` (a Pratt certificate in the strict sense) -/
def PrattCert.complete (c : PrattCert) : Bool := c.steps.all (fun s => prodF s.fs == s.n - 1)

theorem knownPrime_sound (acc : List Nat) (hacc : ∀ m ∈ acc, m.Prime) (p : Nat)
    (h : knownPrime acc p = true) : p.Prime := by
  unfold knownPrime at h
  rw [Bool.or_eq_true] at h
  rcases h with h | h
  · exact hacc p (List.contains_iff_mem.1 h)
  · exact trialPrime_sound p h

theorem stepOK_sound (acc : List Nat) (hacc : ∀ m ∈ acc, m.Prime) (s : Step)
    (h : stepOK acc s = true) : s.n.Prime := by
  unfold stepOK at h
  simp only [Bool.and_eq_true, Bool.or_eq_true, decide_eq_true_eq, beq_iff_eq, List.all_eq_true] at h
  obtain ⟨⟨⟨⟨⟨hn, hF⟩, hsz⟩, hc⟩, ha⟩, hfs⟩ := h
  rw [GV.Field.powMod_eq _ _ _ hn] at ha
  have hall : ∀ pe ∈ s.fs, pe.1.Prime ∧ 0 < pe.2 ∧
      Nat.gcd (s.a ^ ((s.n - 1) / pe.1) % s.n + (s.n - 1)) s.n = 1 := by
    intro pe hpe
    obtain ⟨⟨h1, h2⟩, h3⟩ := hfs pe hpe
    rw [GV.Field.powMod_eq _ _ _ hn] at h3
    exact ⟨knownPrime_sound acc hacc _ h1, h2, h3⟩
  rcases hsz with hsz | ⟨hcube, hD⟩
  · exact pocklington s.n s.a s.fs hn (Nat.dvd_of_mod_eq_zero hF) hsz hc ha hall
  · exact bls_cube s.n s.a s.s s.fs hn (Nat.dvd_of_mod_eq_zero hF) hcube hD hc ha hall

theorem run_sound : ∀ (steps : List Step) (acc : List Nat), (∀ m ∈ acc, m.Prime) →
    ∀ res, run acc steps = some res → ∀ m ∈ res, m.Prime := by
  intro steps
  induction steps with
  | nil => intro acc hacc res h; simp only [run, Option.some.injEq] at h; subst h; exact hacc
  | cons s ss ih =>
    intro acc hacc res h
    unfold run at h
    by_cases hs : stepOK acc s = true
    · rw [if_pos hs] at h
      refine ih (s.n :: acc) ?_ res h
      intro m hm
      rcases List.mem_cons.1 hm with rfl | hm
      · exact stepOK_sound acc hacc s hs
      · exact hacc m hm
    · rw [if_neg hs] at h; exact absurd h (by simp)

/-- **soundness of the checker** -/
theorem check_sound (c : PrattCert) (h : check c = true) : c.n.Prime := by
  unfold check at h
  cases hr : run [] c.steps with
  | none => rw [hr] at h; exact absurd h (by simp)
  | some acc =>
    rw [hr] at h
    exact knownPrime_sound acc (run_sound c.steps [] (by simp) acc hr) c.n h

/-- the form used by the generated theorems: the certificate is for `q` and it checks -/
theorem prime_of_cert (q : Nat) (c : PrattCert) (h : (decide (c.n = q) && check c) = true) : q.Prime := by
  rw [Bool.and_eq_true, decide_eq_true_eq] at h
  exact h.1 ▸ check_sound c h.2

/-! ## the strict (complete-factorisation) case is literally the Lucas test -/

/-- a step with `F = n − 1` that passes `stepOK` satisfies the hypotheses of Mathlib's `lucas_primality` -/
theorem stepOK_lucas (acc : List Nat) (hacc : ∀ m ∈ acc, m.Prime) (s : Step)
    (hfull : prodF s.fs = s.n - 1) (h : stepOK acc s = true) :
    s.a ^ (s.n - 1) % s.n = 1 ∧ ∀ q : ℕ, q.Prime → q ∣ s.n - 1 → s.a ^ ((s.n - 1) / q) % s.n ≠ 1 := by
  unfold stepOK at h
  simp only [Bool.and_eq_true, Bool.or_eq_true, decide_eq_true_eq, beq_iff_eq, List.all_eq_true] at h
  obtain ⟨⟨⟨⟨⟨hn, _⟩, _⟩, _⟩, ha⟩, hfs⟩ := h
  rw [GV.Field.powMod_eq _ _ _ hn] at ha
  refine ⟨ha, fun q hq hqd e => ?_⟩
  rw [← hfull] at hqd
  obtain ⟨pe, hpe, rfl⟩ := prime_dvd_prodF q hq s.fs
    (fun pe hpe => knownPrime_sound acc hacc _ (hfs pe hpe).1.1) hqd
  have h3 := (hfs pe hpe).2
  rw [GV.Field.powMod_eq _ _ _ hn, e] at h3
  have : 1 + (s.n - 1) = s.n := by omega
  rw [this, Nat.gcd_self] at h3
  omega

/-- one node of a Pratt tree, proved through `lucas_primality` -/
theorem stepOK_sound_lucas (acc : List Nat) (hacc : ∀ m ∈ acc, m.Prime) (s : Step)
    (hfull : prodF s.fs = s.n - 1) (h : stepOK acc s = true) : s.n.Prime := by
  have hn : 1 < s.n := by
    unfold stepOK at h
    simp only [Bool.and_eq_true, decide_eq_true_eq] at h
    exact h.1.1.1.1.1
  obtain ⟨ha, hd⟩ := stepOK_lucas acc hacc s hfull h
  exact lucas_step s.n s.a hn ha hd

theorem run_sound_lucas : ∀ (steps : List Step) (acc : List Nat), (∀ m ∈ acc, m.Prime) →
    (∀ s ∈ steps, prodF s.fs = s.n - 1) →
    ∀ res, run acc steps = some res → ∀ m ∈ res, m.Prime := by
  intro steps
  induction steps with
  | nil => intro acc hacc _ res h; simp only [run, Option.some.injEq] at h; subst h; exact hacc
  | cons s ss ih =>
    intro acc hacc hfull res h
    unfold run at h
    by_cases hs : stepOK acc s = true
    · rw [if_pos hs] at h
      refine ih (s.n :: acc) ?_ (fun t ht => hfull t (by simp [ht])) res h
      intro m hm
      rcases List.mem_cons.1 hm with rfl | hm
      · exact stepOK_sound_lucas acc hacc s (hfull s (by simp)) hs
      · exact hacc m hm
    · rw [if_neg hs] at h; exact absurd h (by simp)

/-- soundness for Pratt certificates in the strict sense (`c.complete`), using only Mathlib's
`lucas_primality` (no Pocklington) -/
theorem check_sound_lucas (c : PrattCert) (hc : c.complete = true) (h : check c = true) : c.n.Prime := by
  unfold check at h
  have hfull : ∀ s ∈ c.steps, prodF s.fs = s.n - 1 := by
    intro s hs
    unfold PrattCert.complete at hc
    rw [List.all_eq_true] at hc
    exact beq_iff_eq.1 (hc s hs)
  cases hr : run [] c.steps with
  | none => rw [hr] at h; exact absurd h (by simp)
  | some acc =>
    rw [hr] at h
    exact knownPrime_sound acc (run_sound_lucas c.steps [] (by simp) hfull acc hr) c.n h

/-! ## non-vacuity / sanity of the checker -/

/-- a complete (Pratt) certificate: 97 − 1 = 2⁵·3, witness 5 -/
example : check ⟨97, [⟨97, 5, [(2, 5), (3, 1)], 0⟩]⟩ = true := by decide +kernel
example : Nat.Prime 97 := check_sound_lucas ⟨97, [⟨97, 5, [(2, 5), (3, 1)], 0⟩]⟩ (by decide +kernel) (by decide +kernel)
/-- a chain: 1000000007 − 1 = 2 · 500000003, 500000003 − 1 = 2 · 41 · 41 · 148721, 148721 − 1 = 2⁴·5·11·13² -/
example : check ⟨1000000007, [⟨148721, 6, [(2, 4), (5, 1), (11, 1), (13, 2)], 0⟩,
    ⟨500000003, 2, [(2, 1), (41, 2), (148721, 1)], 0⟩, ⟨1000000007, 5, [(2, 1), (500000003, 1)], 0⟩]⟩ = true := by
  decide +kernel
/-- a Pocklington step: 2³¹ − 1, the factor 331 of n − 1 is not listed, F = 2·3²·7·11·31·151 > √n -/
example : check ⟨2147483647, [⟨2147483647, 7, [(2, 1), (3, 2), (7, 1), (11, 1), (31, 1), (151, 1)], 0⟩]⟩ = true := by
  decide +kernel
/-- rejected: a composite number -/
example : check ⟨1729 * 65537, [⟨1729 * 65537, 2, [(2, 6)], 0⟩]⟩ = false := by decide +kernel
/-- rejected: a listed "prime" that is neither certified earlier nor prime by trial division (13 − 1 = 4·3) -/
example : check ⟨13, [⟨13, 2, [(4, 1), (3, 1)], 0⟩]⟩ = false := by decide +kernel
/-- trial division has no size limit (it is the certificate generator that keeps it below 2¹⁶) -/
example : check ⟨1000000007, [⟨1000000007, 5, [(2, 1), (500000003, 1)], 0⟩]⟩ = true := by decide +kernel
/-- a Brillhart–Lehmer–Selfridge step: F = 2·3²·7·11 = 1386 with ∛n ≤ F < √n, (n−1)/F = 1117·F + 1249,
1249² − 4·1117 = 1555533 lies between 1247² and 1248² -/
example : check ⟨2147483647, [⟨2147483647, 7, [(2, 1), (3, 2), (7, 1), (11, 1)], 1247⟩]⟩ = true := by decide +kernel
/-- rejected: the same with a wrong square-root witness, and a factored part below ∛n -/
example : check ⟨2147483647, [⟨2147483647, 7, [(2, 1), (3, 2), (7, 1), (11, 1)], 0⟩]⟩ = false := by decide +kernel
example : check ⟨2147483647, [⟨2147483647, 7, [(2, 1), (3, 2), (7, 1)], 0⟩]⟩ = false := by decide +kernel
/-- the discriminant test does reject composites that pass everything else: 1009 · 2017 = (7·144+1)(14·144+1), F = 144 -/
example : blsOK (1009 * 2017) 144 7 = false ∧ (1009 * 2017 - 1) % 144 = 0 ∧ 1009 * 2017 ≤ 144 * 144 * 144 := by
  decide +kernel
example : trialPrime 65521 = true ∧ trialPrime 65535 = false ∧ trialPrime 1 = false ∧ trialPrime 2 = true := by
  decide +kernel

end GV.Pratt
