import GnarkVerif.Model.Conv
import Mathlib.Tactic.Ring
import Mathlib.Tactic.Linarith
/-
Helper lemmas for C08: base-256 digit lists, the strict / lenient decoders, the vector codec.
-/
namespace GV.Conv

/-! ### digits -/

@[simp] theorem natToLE_length (len n : Nat) : (natToLE len n).length = len := by
  induction len generalizing n with
  | zero => rfl
  | succ k ih => simp [natToLE, ih]

@[simp] theorem natToBE_length (len n : Nat) : (natToBE len n).length = len := by
  simp [natToBE]

theorem u8_toNat_ofNat_mod (n : Nat) : (UInt8.ofNat (n % 256)).toNat = n % 256 := by
  have h := @UInt8.toNat_ofNat' (n % 256)
  omega

theorem leToNat_natToLE (len n : Nat) : leToNat (natToLE len n) = n % 256 ^ len := by
  induction len generalizing n with
  | zero => simp [natToLE, leToNat, Nat.mod_one]
  | succ k ih =>
    simp only [natToLE, leToNat, ih, u8_toNat_ofNat_mod]
    rw [pow_succ, Nat.mul_comm (256 ^ k) 256, Nat.mod_mul]

theorem leToNat_lt (bs : List UInt8) : leToNat bs < 256 ^ bs.length := by
  induction bs with
  | nil => simp [leToNat]
  | cons b bs ih =>
    simp only [leToNat, List.length_cons, pow_succ]
    have hb := b.toNat_lt
    omega

theorem natToLE_leToNat (bs : List UInt8) : natToLE bs.length (leToNat bs) = bs := by
  induction bs with
  | nil => rfl
  | cons b bs ih =>
    simp only [List.length_cons, natToLE, leToNat]
    have hb := b.toNat_lt
    have h1 : (b.toNat + 256 * leToNat bs) % 256 = b.toNat := by omega
    have h2 : (b.toNat + 256 * leToNat bs) / 256 = leToNat bs := by omega
    rw [h1, h2, ih]
    simp

theorem leToNat_append (a b : List UInt8) : leToNat (a ++ b) = leToNat a + 256 ^ a.length * leToNat b := by
  induction a with
  | nil => simp [leToNat]
  | cons x a ih =>
    simp only [List.cons_append, leToNat, ih, List.length_cons, pow_succ]
    ring

theorem beToNat_natToBE (len n : Nat) : beToNat (natToBE len n) = n % 256 ^ len := by
  simp [beToNat, natToBE, leToNat_natToLE]

theorem beToNat_lt (bs : List UInt8) : beToNat bs < 256 ^ bs.length := by
  have := leToNat_lt bs.reverse
  simpa [beToNat] using this

theorem natToBE_beToNat (bs : List UInt8) : natToBE bs.length (beToNat bs) = bs := by
  have := natToLE_leToNat bs.reverse
  simp only [List.length_reverse] at this
  simp [natToBE, beToNat, this]

theorem beToNat_append (a b : List UInt8) : beToNat (a ++ b) = beToNat a * 256 ^ b.length + beToNat b := by
  simp only [beToNat, List.reverse_append, leToNat_append, List.length_reverse]
  ring

/-- leading zero bytes do not change the big-endian value (the lenient setter ignores padding) -/
theorem beToNat_replicate_zero (k : Nat) (b : List UInt8) : beToNat (List.replicate k 0 ++ b) = beToNat b := by
  induction k with
  | zero => simp
  | succ k ih =>
    rw [List.replicate_succ, List.cons_append, ← List.singleton_append, beToNat_append, ih]
    simp [beToNat, leToNat]

/-- a byte string is determined by its length and its big-endian value -/
theorem beToNat_inj {a b : List UInt8} (hl : a.length = b.length) (h : beToNat a = beToNat b) : a = b := by
  rw [← natToBE_beToNat a, ← natToBE_beToNat b, hl, h]

theorem leToNat_inj {a b : List UInt8} (hl : a.length = b.length) (h : leToNat a = leToNat b) : a = b := by
  rw [← natToLE_leToNat a, ← natToLE_leToNat b, hl, h]

/-! ### agreement with the fold / range based versions of Model/Util -/

theorem util_beToNat_eq (bs : List UInt8) : GV.beToNat bs = beToNat bs := by
  suffices h : ∀ acc, bs.foldl (fun a b => a * 256 + b.toNat) acc = acc * 256 ^ bs.length + beToNat bs by
    simpa [GV.beToNat] using h 0
  induction bs with
  | nil => intro acc; simp [beToNat, leToNat]
  | cons b bs ih =>
    intro acc
    have hc : beToNat (b :: bs) = b.toNat * 256 ^ bs.length + beToNat bs := by
      rw [← List.singleton_append, beToNat_append]; simp [beToNat, leToNat]
    rw [List.foldl_cons, ih, hc, List.length_cons, pow_succ]
    ring

theorem natToLE_eq_range (len n : Nat) :
    natToLE len n = (List.range len).map (fun i => UInt8.ofNat ((n / 256 ^ i) % 256)) := by
  induction len generalizing n with
  | zero => rfl
  | succ k ih =>
    rw [List.range_succ_eq_map, List.map_cons, List.map_map, natToLE, ih]
    congr 1
    · simp
    · apply List.map_congr_left
      intro i _
      simp only [Function.comp, pow_succ, Nat.div_div_eq_div_mul, Nat.mul_comm]

theorem util_natToLE_eq (len n : Nat) : GV.natToLE len n = natToLE len n := by
  rw [natToLE_eq_range]; rfl

theorem util_natToBE_eq (len n : Nat) : GV.natToBE len n = natToBE len n := by
  rw [natToBE, natToLE_eq_range, GV.natToBE, List.map_reverse]

/-! ### strict decoders -/

theorem elementBE_eq (q : Nat) (b : List UInt8) :
    elementBE q b = if beToNat b < q then .ok (beToNat b) else .error .invalid := rfl

theorem elementLE_eq (q : Nat) (b : List UInt8) :
    elementLE q b = if leToNat b < q then .ok (leToNat b) else .error .invalid := rfl

theorem elementBE_ok_iff (q : Nat) (b : List UInt8) (v : Nat) :
    elementBE q b = .ok v ↔ v < q ∧ beToNat b = v := by
  rw [elementBE_eq]
  by_cases h : beToNat b < q
  · rw [if_pos h]
    constructor
    · intro e; cases e; exact ⟨h, rfl⟩
    · rintro ⟨_, rfl⟩; rfl
  · rw [if_neg h]
    constructor
    · intro e; cases e
    · rintro ⟨h1, rfl⟩; exact absurd h1 h

theorem elementLE_ok_iff (q : Nat) (b : List UInt8) (v : Nat) :
    elementLE q b = .ok v ↔ v < q ∧ leToNat b = v := by
  rw [elementLE_eq]
  by_cases h : leToNat b < q
  · rw [if_pos h]
    constructor
    · intro e; cases e; exact ⟨h, rfl⟩
    · rintro ⟨_, rfl⟩; rfl
  · rw [if_neg h]
    constructor
    · intro e; cases e
    · rintro ⟨h1, rfl⟩; exact absurd h1 h

/-! ### lenient setters -/

theorem setBigInt_cast (q : Nat) (hq : 0 < q) (v : Int) : ((setBigInt q v : Nat) : Int) = v % (q : Int) := by
  have hq' : (0 : Int) < q := by exact_mod_cast hq
  unfold setBigInt
  split
  · rename_i h; rw [h]; simp
  · split
    · rename_i h1 h2
      obtain ⟨hle, h0⟩ := h2
      have hlt : v < q := lt_of_le_of_ne hle h1
      rw [Int.toNat_of_nonneg h0, Int.emod_eq_of_lt h0 hlt]
    · rw [Int.toNat_of_nonneg (Int.emod_nonneg _ (ne_of_gt hq'))]

theorem setBigInt_lt (q : Nat) (hq : 0 < q) (v : Int) : setBigInt q v < q := by
  have h := setBigInt_cast q hq v
  have h2 := Int.emod_lt_of_pos v (show (0 : Int) < q by exact_mod_cast hq)
  rw [← h] at h2
  exact_mod_cast h2

theorem setBigInt_natCast (q : Nat) (hq : 0 < q) (n : Nat) : setBigInt q (n : Int) = n % q := by
  have h := setBigInt_cast q hq n
  exact_mod_cast h

theorem setBytes_eq (q nb : Nat) (hq : 0 < q) (b : List UInt8) : setBytes q nb b = beToNat b % q := by
  by_cases h : beToNat b < q
  · simp only [setBytes, elementBE_eq, if_pos h, setBigInt_natCast q hq]
    split
    · exact (Nat.mod_eq_of_lt h).symm
    · rfl
  · simp only [setBytes, elementBE_eq, if_neg h, setBigInt_natCast q hq]
    split <;> rfl

theorem neg_natCast_emod (q : Nat) (hq : 0 < q) (n : Nat) :
    (-(n : Int)) % (q : Int) = if n % q = 0 then 0 else ((q - n % q : Nat) : Int) := by
  have hn : (n : Int) = q * ((n / q : Nat) : Int) + ((n % q : Nat) : Int) := by
    exact_mod_cast (Nat.div_add_mod n q).symm
  have hr : n % q < q := Nat.mod_lt _ hq
  split
  · rename_i h0
    rw [h0] at hn
    have : -(n : Int) = (q : Int) * (-((n / q : Nat) : Int)) := by rw [hn]; push_cast; ring
    rw [this, Int.mul_emod_right]
  · rename_i h0
    have hc : ((q - n % q : Nat) : Int) = (q : Int) - ((n % q : Nat) : Int) := by
      rw [Nat.cast_sub (le_of_lt hr)]
    have : -(n : Int) = ((q - n % q : Nat) : Int) + (q : Int) * (-((n / q : Nat) : Int) - 1) := by
      rw [hc]; rw [hn]; push_cast; ring
    rw [this, Int.add_mul_emod_self_left]
    apply Int.emod_eq_of_lt
    · exact_mod_cast Nat.zero_le _
    · have : q - n % q < q := by omega
      exact_mod_cast this

theorem setInt64_cast (q : Nat) (hq : 0 < q) (v : Int) : ((setInt64 q v : Nat) : Int) = v % (q : Int) := by
  unfold setInt64 setUint64
  by_cases hv : v < 0
  · have hvn : v = -((v.natAbs : Nat) : Int) := by omega
    simp only [if_pos hv]
    conv_rhs => rw [hvn]
    rw [neg_natCast_emod q hq]
    split <;> simp
  · have hvn : v = ((v.natAbs : Nat) : Int) := by omega
    simp only [if_neg hv]
    conv_rhs => rw [hvn]
    exact_mod_cast rfl

/-! ### vector codec -/

/-- the entry loop on a well-framed payload: every chunk has `nb` bytes -/
theorem readElems_chunks (q nb : Nat) (rest : List UInt8) (cs : List (List UInt8))
    (hcs : ∀ c ∈ cs, c.length = nb) :
    readElems q nb cs.length (cs.flatten ++ rest) =
      if ∀ c ∈ cs, beToNat c < q then .ok (cs.map beToNat) else .error .invalid := by
  induction cs with
  | nil => simp [readElems]
  | cons c cs ih =>
    have hc : c.length = nb := hcs c (by simp)
    have ih' := ih (fun c' h => hcs c' (by simp [h]))
    have hlen : ¬ (c ++ (cs.flatten ++ rest)).length < nb := by simp [hc]
    simp only [List.length_cons, readElems, List.flatten_cons, List.append_assoc, if_neg hlen,
      List.take_left' hc, List.drop_left' hc, ih', elementBE_eq]
    by_cases h1 : beToNat c < q
    · by_cases h2 : ∀ c ∈ cs, beToNat c < q
      · have h3 : ∀ c' ∈ c :: cs, beToNat c' < q := by
          intro c' hc'; rcases List.mem_cons.mp hc' with rfl | h
          · exact h1
          · exact h2 c' h
        simp only [if_pos h1, if_pos h2, if_pos h3, List.map_cons]
      · have h3 : ¬ ∀ c' ∈ c :: cs, beToNat c' < q := fun h => h2 (fun c' hc' => h c' (List.mem_cons_of_mem _ hc'))
        simp only [if_pos h1, if_neg h2, if_neg h3]
    · have h3 : ¬ ∀ c' ∈ c :: cs, beToNat c' < q := fun h => h1 (h c (List.mem_cons_self ..))
      simp only [if_neg h1, if_neg h3]

theorem pow_256_4 : (256 : Nat) ^ 4 = 2 ^ 32 := by norm_num

theorem readFrom_framed (q nb : Nat) (rest : List UInt8) (cs : List (List UInt8))
    (hcs : ∀ c ∈ cs, c.length = nb) (hlen : cs.length < 2 ^ 32) :
    readFrom q nb (natToBE 4 cs.length ++ (cs.flatten ++ rest)) =
      if ∀ c ∈ cs, beToNat c < q then .ok (cs.map beToNat, 4 + cs.length * nb) else .error .invalid := by
  have h4 : (natToBE 4 cs.length).length = 4 := natToBE_length _ _
  have hl : ¬ (natToBE 4 cs.length ++ (cs.flatten ++ rest)).length < 4 := by simp
  have e1 : (natToBE 4 cs.length ++ (cs.flatten ++ rest)).take 4 = natToBE 4 cs.length := List.take_left' h4
  have e2 : (natToBE 4 cs.length ++ (cs.flatten ++ rest)).drop 4 = cs.flatten ++ rest := List.drop_left' h4
  have e3 : beToNat (natToBE 4 cs.length) = cs.length := by
    rw [beToNat_natToBE, pow_256_4]; exact Nat.mod_eq_of_lt hlen
  simp only [readFrom, if_neg hl, e1, e2, e3, readElems_chunks q nb rest cs hcs]
  by_cases h : ∀ c ∈ cs, beToNat c < q
  · simp only [if_pos h]
  · simp only [if_neg h]

theorem chunks_length (nb k : Nat) (bs : List UInt8) : (chunks nb k bs).length = k := by
  induction k generalizing bs with
  | zero => rfl
  | succ k ih => simp [chunks, ih]

/-- the entry loop succeeds exactly when the payload is long enough and every chunk is below `q` -/
theorem readElems_ok_iff (q nb k : Nat) (bs : List UInt8) (xs : List Nat) :
    readElems q nb k bs = .ok xs ↔
      k * nb ≤ bs.length ∧ (∀ x ∈ (chunks nb k bs).map beToNat, x < q) ∧ xs = (chunks nb k bs).map beToNat := by
  induction k generalizing bs xs with
  | zero => simp [readElems, chunks, eq_comm]
  | succ k ih =>
    simp only [readElems, chunks, List.map_cons, List.forall_mem_cons]
    by_cases hlt : bs.length < nb
    · rw [if_pos hlt]
      constructor
      · intro e; cases e
      · rintro ⟨h, _⟩; rw [Nat.succ_mul] at h; omega
    · rw [if_neg hlt, elementBE_eq]
      have hd : (bs.drop nb).length = bs.length - nb := List.length_drop
      have hk : (k + 1) * nb ≤ bs.length ↔ k * nb ≤ (bs.drop nb).length := by
        rw [hd, Nat.succ_mul]; omega
      by_cases hv : beToNat (bs.take nb) < q
      · rw [if_pos hv]
        cases hrec : readElems q nb k (bs.drop nb) with
        | error e =>
          constructor
          · intro e; cases e
          · rintro ⟨h1, ⟨_, h2⟩, _⟩
            have := (ih (bs.drop nb) _).mpr ⟨hk.mp h1, h2, rfl⟩
            rw [hrec] at this; cases this
        | ok ys =>
          obtain ⟨i1, i2, i3⟩ := (ih (bs.drop nb) ys).mp hrec
          constructor
          · intro e; cases e
            exact ⟨hk.mpr i1, ⟨hv, i2⟩, by rw [i3]⟩
          · rintro ⟨_, _, h3⟩; rw [h3, i3]
      · rw [if_neg hv]
        constructor
        · intro e; cases e
        · rintro ⟨_, ⟨h, _⟩, _⟩; exact absurd h hv

theorem readFrom_ok_iff_async (q nb : Nat) (bs : List UInt8) (r : List Nat × Nat) :
    readFrom q nb bs = .ok r ↔ asyncReadFrom q nb bs = .ok r := by
  obtain ⟨xs, n⟩ := r
  simp only [readFrom, asyncReadFrom]
  by_cases h4 : bs.length < 4
  · simp [h4]
  · simp only [if_neg h4]
    cases hrec : readElems q nb (beToNat (bs.take 4)) (bs.drop 4) with
    | error e =>
      have hno : ¬ ∃ ys, readElems q nb (beToNat (bs.take 4)) (bs.drop 4) = .ok ys := by
        rintro ⟨ys, h⟩; rw [hrec] at h; cases h
      constructor
      · intro e; cases e
      · intro h
        exfalso; apply hno
        by_cases hs : (bs.drop 4).length < beToNat (bs.take 4) * nb
        · rw [if_pos hs] at h; cases h
        · rw [if_neg hs] at h
          by_cases ha : ((chunks nb (beToNat (bs.take 4)) (bs.drop 4)).map beToNat).all (· < q) = true
          · refine ⟨_, (readElems_ok_iff q nb _ _ _).mpr ⟨Nat.le_of_not_lt hs, ?_, rfl⟩⟩
            simpa [List.all_eq_true] using ha
          · rw [if_neg ha] at h; cases h
    | ok ys =>
      obtain ⟨i1, i2, i3⟩ := (readElems_ok_iff q nb _ _ _).mp hrec
      have hs : ¬ (bs.drop 4).length < beToNat (bs.take 4) * nb := Nat.not_lt.mpr i1
      have ha : ((chunks nb (beToNat (bs.take 4)) (bs.drop 4)).map beToNat).all (· < q) = true := by
        simpa [List.all_eq_true] using i2
      simp only [if_neg hs, if_pos ha, i3]

/-! ### text -/

/-- value of a little-endian digit list -/
def ofDigitsLE (b : Nat) : List Nat → Nat
  | [] => 0
  | d :: ds => d + b * ofDigitsLE b ds

theorem ofDigitsLE_digitsLE (b : Nat) (hb : 2 ≤ b) :
    ∀ fuel n, n < fuel → ofDigitsLE b (digitsLE b fuel n) = n := by
  intro fuel
  induction fuel with
  | zero => intro n h; omega
  | succ f ih =>
    intro n hn
    simp only [digitsLE]
    split
    · simp [ofDigitsLE]
    · rename_i hnb
      have hdiv : n / b < f := by
        have : n / b < n := Nat.div_lt_self (by omega) (by omega)
        omega
      simp only [ofDigitsLE, ih _ hdiv]
      exact Nat.mod_add_div n b

theorem digitsLE_lt (b : Nat) (hb : 0 < b) : ∀ fuel n, ∀ d ∈ digitsLE b fuel n, d < b := by
  intro fuel
  induction fuel with
  | zero => intro n d h; simp [digitsLE] at h
  | succ f ih =>
    intro n d h
    simp only [digitsLE] at h
    split at h
    · simp at h; omega
    · rcases List.mem_cons.mp h with rfl | h'
      · exact Nat.mod_lt _ hb
      · exact ih _ _ h'

/-- most significant digit: it exists, and it is not 0 for a positive number -/
theorem digitsLE_msd (b : Nat) (hb : 2 ≤ b) :
    ∀ fuel n, n < fuel → ∃ d ds, digitsLE b fuel n = ds ++ [d] ∧ (0 < n → d ≠ 0) := by
  intro fuel
  induction fuel with
  | zero => intro n h; omega
  | succ f ih =>
    intro n hn
    simp only [digitsLE]
    split
    · exact ⟨n, [], rfl, by omega⟩
    · rename_i hnb
      have hpos : 0 < n / b := Nat.div_pos (by omega) (by omega)
      have hdiv : n / b < f := by
        have : n / b < n := Nat.div_lt_self (by omega) (by omega)
        omega
      obtain ⟨d, ds, e, hd⟩ := ih _ hdiv
      exact ⟨d, n % b :: ds, by rw [e]; rfl, fun _ => hd hpos⟩

theorem foldl_reverse_digits (b : Nat) (ds : List Nat) :
    ds.reverse.foldl (fun a d => a * b + d) 0 = ofDigitsLE b ds := by
  induction ds with
  | nil => rfl
  | cons d ds ih =>
    rw [List.reverse_cons, List.foldl_append, ih]
    simp only [List.foldl_cons, List.foldl_nil, ofDigitsLE]
    ring

theorem digitChar_facts : ∀ d, d < 36 →
    digitChar d ≠ '_' ∧ digitChar d ≠ '-' ∧ digitChar d ≠ '+' ∧ digitChar d ≠ '"' ∧
      digitVal (digitChar d) = d ∧ (digitChar d = '0' → d = 0) := by
  decide +kernel

theorem scanDigits_digits (b : Nat) (hb : b ≤ 36) (ds : List Nat) (hds : ∀ d ∈ ds, d < b) (st : ScanSt) :
    scanDigits b (ds.map digitChar) st = some
      { acc := ds.foldl (fun a d => a * b + d) st.acc, count := st.count + ds.length,
        prevDigit := if ds = [] then st.prevDigit else true,
        prevUnd := if ds = [] then st.prevUnd else false,
        invalSep := st.invalSep } := by
  induction ds generalizing st with
  | nil => simp [scanDigits]
  | cons d ds ih =>
    have hd : d < b := hds d (by simp)
    obtain ⟨h1, _, _, _, h5, _⟩ := digitChar_facts d (by omega)
    simp only [List.map_cons, scanDigits, if_neg h1, h5, if_pos hd]
    rw [ih (fun d' h => hds d' (by simp [h]))]
    simp; omega

/-- the digit string of `n` in base `b` (no prefix, no sign) is scanned back to `n` -/
theorem scan_natText (b : Nat) (hb2 : 2 ≤ b) (hb : b ≤ 36) (n : Nat) (p : Bool) :
    ∃ st, scanDigits b (natText b n) (scanInit p) = some st ∧
      st.acc = n ∧ st.count ≠ 0 ∧ st.prevUnd = false ∧ st.invalSep = false := by
  have hlt : ∀ d ∈ (digitsLE b (n + 1) n).reverse, d < b := by
    intro d hd; exact digitsLE_lt b (by omega) _ _ d (List.mem_reverse.mp hd)
  obtain ⟨d, ds, e, _⟩ := digitsLE_msd b hb2 (n + 1) n (by omega)
  have hne : (digitsLE b (n + 1) n).reverse ≠ [] := by rw [e]; simp
  refine ⟨_, scanDigits_digits b hb _ hlt (scanInit p), ?_, ?_, ?_, rfl⟩
  · show List.foldl _ 0 _ = n
    rw [foldl_reverse_digits, ofDigitsLE_digitsLE b hb2 _ _ (by omega)]
  · show 0 + _ ≠ 0
    have : 0 < (digitsLE b (n + 1) n).reverse.length := List.length_pos_iff.mpr hne
    omega
  · show (if _ then _ else _) = false
    rw [if_neg hne]

/-- shape of a decimal digit string: a single `'0'`, or a first character that is a non-zero digit -/
theorem natText_head (b : Nat) (hb2 : 2 ≤ b) (hb : b ≤ 36) (n : Nat) :
    ∃ c tl, natText b n = c :: tl ∧ c ≠ '-' ∧ c ≠ '+' ∧ c ≠ '"' ∧ (c = '0' → n = 0 ∧ tl = []) := by
  obtain ⟨d, ds, e, hd⟩ := digitsLE_msd b hb2 (n + 1) n (by omega)
  have hdlt : d < b := digitsLE_lt b (by omega) (n + 1) n d (by rw [e]; simp)
  obtain ⟨_, h2, h3, h4, _, h6⟩ := digitChar_facts d (by omega)
  refine ⟨digitChar d, ds.reverse.map digitChar, ?_, h2, h3, h4, ?_⟩
  · simp [natText, e]
  · intro h0
    have hd0 : d = 0 := h6 h0
    have hn0 : n = 0 := by
      by_contra hne
      exact hd (by omega) hd0
    refine ⟨hn0, ?_⟩
    subst hn0
    have : digitsLE b 1 0 = [0] := by simp [digitsLE]
    rw [this] at e
    have : ds = [] := by
      cases ds with
      | nil => rfl
      | cons x xs => simp at e
    simp [this]

theorem natText_no_quote (b : Nat) (hb2 : 2 ≤ b) (hb : b ≤ 36) (n : Nat) : ∀ c ∈ natText b n, c ≠ '"' := by
  intro c hc
  simp only [natText, List.mem_map, List.mem_reverse] at hc
  obtain ⟨d, hd, rfl⟩ := hc
  exact (digitChar_facts d (by have := digitsLE_lt b (by omega) _ _ d hd; omega)).2.2.2.1

/-- decimal literal without sign -/
theorem parseNatLit_natText10 (n : Nat) : parseNatLit (natText 10 n) = some n := by
  obtain ⟨c, tl, e, _, _, _, h0⟩ := natText_head 10 (by omega) (by omega) n
  obtain ⟨st, hs, ha, hc, hu, hi⟩ := scan_natText 10 (by omega) (by omega) n false
  by_cases hc0 : c = '0'
  · obtain ⟨hn, htl⟩ := h0 hc0
    subst hn; rw [e, hc0, htl]; decide +kernel
  · have hcfg : litConfig (natText 10 n) = (10, natText 10 n, false) := by
      rw [e]; cases tl with
      | nil => rfl
      | cons c2 tl2 => simp [litConfig, hc0]
    simp only [parseNatLit, hcfg, hs, hi, hu, hc, ha]
    simp

/-- prefixed literal: `0b…`, `0o…`, `0x…` (either case of the prefix letter) -/
theorem parseNatLit_prefixed (b : Nat) (c : Char) (n : Nat)
    (h : (b = 2 ∧ (c = 'b' ∨ c = 'B')) ∨ (b = 8 ∧ (c = 'o' ∨ c = 'O')) ∨ (b = 16 ∧ (c = 'x' ∨ c = 'X'))) :
    parseNatLit ('0' :: c :: natText b n) = some n := by
  have hb2 : 2 ≤ b := by omega
  have hb : b ≤ 36 := by omega
  obtain ⟨st, hs, ha, hc, hu, hi⟩ := scan_natText b hb2 hb n true
  have hcfg : litConfig ('0' :: c :: natText b n) = (b, natText b n, true) := by
    rcases h with ⟨rfl, rfl | rfl⟩ | ⟨rfl, rfl | rfl⟩ | ⟨rfl, rfl | rfl⟩ <;> simp [litConfig]
  simp only [parseNatLit, hcfg, hs, hi, hu, hc, ha]
  simp

/-! ### limbs -/

/-- value of a little-endian list of `w`-bit limbs -/
def ofLimbs (w : Nat) : List Nat → Nat
  | [] => 0
  | l :: ls => l + 2 ^ w * ofLimbs w ls

theorem bits_succ (w n v : Nat) : bits w (n + 1) v = (v % 2 ^ w) :: bits w n (v / 2 ^ w) := by
  simp only [bits, List.range_succ_eq_map, List.map_cons, List.map_map]
  congr 1
  · simp
  · apply List.map_congr_left
    intro i _
    simp only [Function.comp, Nat.mul_succ, pow_add, Nat.div_div_eq_div_mul, Nat.mul_comm]

theorem ofLimbs_bits (w n v : Nat) : ofLimbs w (bits w n v) = v % 2 ^ (w * n) := by
  induction n generalizing v with
  | zero => simp [bits, ofLimbs, Nat.mod_one]
  | succ k ih =>
    rw [bits_succ, ofLimbs, ih, Nat.mul_succ, pow_add, Nat.mul_comm (2 ^ (w * k)) (2 ^ w), Nat.mod_mul]

theorem bits_length (w n v : Nat) : (bits w n v).length = n := by simp [bits]

theorem bits_lt (w n v : Nat) : ∀ l ∈ bits w n v, l < 2 ^ w := by
  intro l hl
  simp only [bits, List.mem_map] at hl
  obtain ⟨i, _, rfl⟩ := hl
  exact Nat.mod_lt _ (by positivity)

/-! ### vector codec: the accepted inputs -/

theorem chunks_spec (nb : Nat) : ∀ k (bs : List UInt8), k * nb ≤ bs.length →
    (chunks nb k bs).flatten ++ bs.drop (k * nb) = bs ∧ ∀ c ∈ chunks nb k bs, c.length = nb := by
  intro k
  induction k with
  | zero => intro bs _; simp [chunks]
  | succ k ih =>
    intro bs h
    rw [Nat.succ_mul] at h
    have hd : (bs.drop nb).length = bs.length - nb := List.length_drop
    obtain ⟨i1, i2⟩ := ih (bs.drop nb) (by omega)
    constructor
    · have e : bs.drop ((k + 1) * nb) = (bs.drop nb).drop (k * nb) := by
        rw [List.drop_drop, Nat.succ_mul]; congr 1; omega
      simp only [chunks, List.flatten_cons, List.append_assoc]
      rw [e, i1, List.take_append_drop]
    · intro c hc
      simp only [chunks, List.mem_cons] at hc
      rcases hc with rfl | hc
      · rw [List.length_take]; omega
      · exact i2 c hc

theorem readFrom_writeTo (q nb : Nat) (hq : q ≤ 256 ^ nb) (v : List Nat) (hv : ∀ x ∈ v, x < q)
    (hlen : v.length < 2 ^ 32) (rest : List UInt8) :
    readFrom q nb (writeTo nb v ++ rest) = .ok (v, 4 + v.length * nb) := by
  have hcs : ∀ c ∈ v.map (natToBE nb), c.length = nb := by
    intro c hc; obtain ⟨x, _, rfl⟩ := List.mem_map.mp hc; simp
  have h := readFrom_framed q nb rest (v.map (natToBE nb)) hcs (by simpa using hlen)
  have hall : ∀ c ∈ v.map (natToBE nb), beToNat c < q := by
    intro c hc; obtain ⟨x, hx, rfl⟩ := List.mem_map.mp hc
    rw [beToNat_natToBE, Nat.mod_eq_of_lt (lt_of_lt_of_le (hv x hx) hq)]; exact hv x hx
  rw [if_pos hall] at h
  have hmap : (v.map (natToBE nb)).map beToNat = v := by
    rw [List.map_map]; conv_rhs => rw [← List.map_id v]
    apply List.map_congr_left; intro x hx
    simp only [Function.comp, id, beToNat_natToBE]
    exact Nat.mod_eq_of_lt (lt_of_lt_of_le (hv x hx) hq)
  rw [hmap, List.length_map] at h
  rw [writeTo, List.append_assoc, List.flatMap_def]
  exact h

theorem readFrom_ok_shape (q nb : Nat) (bs : List UInt8) (xs : List Nat) (n : Nat)
    (h : readFrom q nb bs = .ok (xs, n)) :
    (∀ x ∈ xs, x < q) ∧ xs.length < 2 ^ 32 ∧ n = 4 + xs.length * nb ∧ ∃ rest, bs = writeTo nb xs ++ rest := by
  simp only [readFrom] at h
  by_cases h4 : bs.length < 4
  · rw [if_pos h4] at h; cases h
  · rw [if_neg h4] at h
    cases hrec : readElems q nb (beToNat (bs.take 4)) (bs.drop 4) with
    | error e => simp only [hrec] at h; cases h
    | ok ys =>
      simp only [hrec, Except.ok.injEq, Prod.mk.injEq] at h
      obtain ⟨hx, hn⟩ := h
      subst hx
      obtain ⟨i1, i2, i3⟩ := (readElems_ok_iff q nb _ _ _).mp hrec
      have ht : (bs.take 4).length = 4 := by rw [List.length_take]; omega
      have hlen : ys.length = beToNat (bs.take 4) := by rw [i3, List.length_map, chunks_length]
      have hlt : beToNat (bs.take 4) < 2 ^ 32 := by
        have := beToNat_lt (bs.take 4); rw [ht, pow_256_4] at this; exact this
      obtain ⟨c1, c2⟩ := chunks_spec nb _ (bs.drop 4) i1
      refine ⟨by rw [i3]; exact i2, by omega, by rw [hlen]; exact hn.symm, (bs.drop 4).drop (beToNat (bs.take 4) * nb), ?_⟩
      have e1 : natToBE 4 ys.length = bs.take 4 := by
        rw [hlen]; have := natToBE_beToNat (bs.take 4); rwa [ht] at this
      have e2 : ys.flatMap (toBytesBE nb) = (chunks nb (beToNat (bs.take 4)) (bs.drop 4)).flatten := by
        rw [i3, List.flatMap_def, List.map_map]
        congr 1
        conv_rhs => rw [← List.map_id (chunks nb _ _)]
        apply List.map_congr_left
        intro c hc
        simp only [Function.comp, toBytesBE, id]
        have := natToBE_beToNat c; rwa [c2 c hc] at this
      rw [writeTo, e1, e2, List.append_assoc, c1, List.take_append_drop]

/-! ### signed literals, JSON framing -/

theorem parseIntLit_unsigned (s : List Char) (c : Char) (tl : List Char) (e : s = c :: tl)
    (hm : c ≠ '-') (hp : c ≠ '+') : parseIntLit s = (parseNatLit s).map Int.ofNat := by
  subst e; simp only [parseIntLit, if_neg hm, if_neg hp]

theorem parseIntLit_minus (r : List Char) : parseIntLit ('-' :: r) = (parseNatLit r).map (fun n => -(Int.ofNat n)) := by
  simp [parseIntLit]

theorem setBigInt_neg_sub (q v : Nat) (hv0 : 0 < v) (hv : v < q) : setBigInt q (-((q - v : Nat) : Int)) = v := by
  have hq : 0 < q := by omega
  have hcast := setBigInt_cast q hq (-((q - v : Nat) : Int))
  have h2 : (-((q - v : Nat) : Int)) % (q : Int) = (v : Int) := by
    rw [Nat.cast_sub (le_of_lt hv)]
    have : -((q : Int) - (v : Int)) = (v : Int) + (q : Int) * (-1) := by ring
    rw [this, Int.add_mul_emod_self_left]
    exact Int.emod_eq_of_lt (by exact_mod_cast Nat.zero_le v) (by exact_mod_cast hv)
  rw [h2] at hcast
  exact_mod_cast hcast

theorem text_shape (q v b : Nat) (hb2 : 2 ≤ b) (hb : b ≤ 36) :
    (∃ c tl, text q v b = c :: tl ∧ c ≠ '"') ∧ ∀ c ∈ text q v b, c ≠ '"' := by
  simp only [text]
  split
  · refine ⟨⟨'-', _, rfl, by decide⟩, ?_⟩
    intro c hc
    rcases List.mem_cons.mp hc with rfl | h
    · decide
    · exact natText_no_quote 10 (by omega) (by omega) _ c h
  · obtain ⟨c, tl, e, _, _, h3, _⟩ := natText_head b hb2 hb v
    exact ⟨⟨c, tl, e, h3⟩, natText_no_quote b hb2 hb v⟩

theorem unmarshal_strip (q nbits : Nat) (s : List Char) (hne : ∃ c tl, s = c :: tl ∧ c ≠ '"')
    (hnq : ∀ c ∈ s, c ≠ '"') :
    (s.length ≤ nbits * 3 → unmarshalJSON q nbits s = setString q s) ∧
    (s.length + 2 ≤ nbits * 3 → unmarshalJSON q nbits ('"' :: s ++ ['"']) = setString q s) := by
  obtain ⟨c, tl, e, hc⟩ := hne
  constructor
  · intro hl
    have hg : ¬ s.length > nbits * 3 := by omega
    have hlast : ¬ s.getLast? = some '"' := by
      intro h
      obtain ⟨ys, e'⟩ := List.getLast?_eq_some_iff.mp h
      exact hnq '"' (by rw [e']; simp) rfl
    subst e
    simp only [unmarshalJSON, if_neg hg, if_neg hc, if_neg hlast]
  · intro hl
    have hg : ¬ ('"' :: s ++ ['"']).length > nbits * 3 := by simp; omega
    simp only [unmarshalJSON, if_neg hg]
    simp

/-! ### limb ⇄ byte wiring of `BigEndian.Element` / `LittleEndian.Element` (generic in the number of words) -/

/-- the limbs (least significant first) the big-endian decoder loads: word `i` is read from the `i`-th chunk from the END -/
def limbsOfBE (wb n : Nat) (b : List UInt8) : List Nat := ((chunks wb n b).map beToNat).reverse
/-- the little-endian decoder: word `i` is read little-endian from the `i`-th chunk -/
def limbsOfLE (wb n : Nat) (b : List UInt8) : List Nat := (chunks wb n b).map leToNat

theorem ofLimbs_append_single (w : Nat) (a : List Nat) (x : Nat) :
    ofLimbs w (a ++ [x]) = ofLimbs w a + 2 ^ (w * a.length) * x := by
  induction a with
  | nil => simp [ofLimbs]
  | cons y a ih =>
    simp only [List.cons_append, ofLimbs, ih, List.length_cons, Nat.mul_succ, pow_add]
    ring

theorem pow256_eq (k : Nat) : (256 : Nat) ^ k = 2 ^ (8 * k) := by
  rw [show (256 : Nat) = 2 ^ 8 by norm_num, ← pow_mul]

theorem ofLimbs_limbsOfBE (wb : Nat) : ∀ n (b : List UInt8), b.length = n * wb →
    ofLimbs (8 * wb) (limbsOfBE wb n b) = beToNat b := by
  intro n
  induction n with
  | zero =>
    intro b h
    have : b = [] := List.length_eq_zero_iff.mp (by simpa using h)
    subst this; rfl
  | succ k ih =>
    intro b h
    rw [Nat.succ_mul] at h
    have hd : (b.drop wb).length = k * wb := by rw [List.length_drop]; omega
    have hb : beToNat b = beToNat (b.take wb) * 256 ^ (k * wb) + beToNat (b.drop wb) := by
      conv_lhs => rw [← List.take_append_drop wb b]
      rw [beToNat_append, hd]
    have ih' := ih (b.drop wb) hd
    simp only [limbsOfBE] at ih'
    simp only [limbsOfBE, chunks, List.map_cons, List.reverse_cons]
    rw [ofLimbs_append_single, List.length_reverse, List.length_map, chunks_length, ih', hb, pow256_eq]
    have : 8 * wb * k = 8 * (k * wb) := by ring
    rw [this]; ring

theorem ofLimbs_limbsOfLE (wb : Nat) : ∀ n (b : List UInt8), b.length = n * wb →
    ofLimbs (8 * wb) (limbsOfLE wb n b) = leToNat b := by
  intro n
  induction n with
  | zero =>
    intro b h
    have : b = [] := List.length_eq_zero_iff.mp (by simpa using h)
    subst this; rfl
  | succ k ih =>
    intro b h
    rw [Nat.succ_mul] at h
    have hd : (b.drop wb).length = k * wb := by rw [List.length_drop]; omega
    have ht : (b.take wb).length = wb := by rw [List.length_take]; omega
    have hb : leToNat b = leToNat (b.take wb) + 256 ^ wb * leToNat (b.drop wb) := by
      conv_lhs => rw [← List.take_append_drop wb b]
      rw [leToNat_append, ht]
    have ih' := ih (b.drop wb) hd
    simp only [limbsOfLE] at ih'
    simp only [limbsOfLE, chunks, List.map_cons, ofLimbs]
    rw [ih', hb, pow256_eq]

end GV.Conv
