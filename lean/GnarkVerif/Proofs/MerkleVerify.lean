import GnarkVerif.Proofs.MerkleAcc
/-
Helper lemmas for C16, part A.2: `VerifyProof` of accumulator/merkletree/verify.go against RFC 6962.
The Go loop is first shown equal to a recursion (`c12` + `wrapL`) that follows the shape of `mth`.
-/
namespace GV.Merkle
set_option linter.unusedSectionVars false

section Verify
variable {A D : Type} [Inhabited D] (hl : A → D) (hn : D → D → D)

/-- the last loop of `VerifyProof`: every remaining element is a left sibling -/
def wrapL (c : D) (R : List D) : D := R.foldl (fun s q => hn q s) c

/-- `h` steps of the first loop inside a complete aligned block (direction = bit `j` of `i`) -/
def climb : Nat → Nat → D → List D → Option (D × List D)
  | 0, _, s, sibs => some (s, sibs)
  | j+1, i, s, sibs =>
    match climb j i s sibs with
    | some (s', p :: rem) => some (if i % 2^(j+1) < 2^j then hn s' p else hn p s', rem)
    | _ => none

/-- the first loop and the "stableEnd" step of `VerifyProof`, as a recursion on the shape of `mth` -/
def c12 : Nat → Nat → Nat → D → List D → Option (D × List D)
  | 0, _, _, s, sibs => some (s, sibs)
  | h+1, n, i, s, sibs =>
    if n ≤ 2^h then c12 h n i s sibs
    else if i < 2^h then
      match climb hn h i s sibs with
      | some (s', p :: rem) => some (hn s' p, rem)
      | _ => none
    else if n = 2^(h+1) then
      match c12 h (2^h) (i - 2^h) s sibs with
      | some (c, p :: rem) => some (hn p c, rem)
      | _ => none
    else c12 h (n - 2^h) (i - 2^h) s sibs

def vs (h n i : Nat) (s : D) (sibs : List D) : Option D := (c12 hn h n i s sibs).map (fun r => wrapL hn r.1 r.2)

/-- what `VerifyProof` does after its first loop -/
def vtail (n : Nat) (r : D × Nat × List D) : Option D :=
  if r.2.1 ≠ n - 1 then
    match r.2.2 with
    | [] => none
    | p :: rem' => some (wrapL hn (hn r.1 p) rem')
  else some (wrapL hn r.1 r.2.2)

theorem verifySum_eq (lf : A) (sibs : List D) (i n : Nat) (hi : i < n) :
    verifySum hl hn (some lf) sibs i n = (verifyLoop hn i n n 1 (hl lf) i sibs).bind (vtail hn n) := by
  unfold verifySum
  rw [if_neg (by omega)]
  simp only
  cases verifyLoop hn i n n 1 (hl lf) i sibs with
  | none => rfl
  | some r =>
    obtain ⟨sum, se, rem⟩ := r
    simp only [Option.bind_some, vtail, wrapL]
    split <;> rfl

/-! ### arithmetic of aligned blocks -/

theorem block_nest (i H : Nat) : (i / 2^H) * 2^H + 2^H ≤ (i / 2^(H+1)) * 2^(H+1) + 2^(H+1) := by
  have hp := two_pow_pos H
  have h1 : i / 2^(H+1) = i / 2^H / 2 := by rw [pow_succ, Nat.div_div_eq_div_mul]
  have h2 : i / 2^H ≤ 2 * (i / 2^H / 2) + 1 := by omega
  rw [h1, pow_succ]
  calc i / 2^H * 2^H + 2^H = (i / 2^H + 1) * 2^H := by ring
    _ ≤ (2 * (i / 2^H / 2) + 2) * 2^H := Nat.mul_le_mul_right _ (by omega)
    _ = i / 2^H / 2 * (2^H * 2) + 2^H * 2 := by ring

theorem sub_block_start (i m : Nat) : i - (i / m) * m = i % m := by
  rw [Nat.mod_def, Nat.mul_comm]

theorem verifyLoop_break (i n fuel height : Nat) (s : D) (se : Nat) (rem : List D)
    (h : fuel = 0 ∨ n ≤ (i / 2^height) * 2^height + 2^height - 1) :
    verifyLoop hn i n fuel height s se rem = some (s, se, rem) := by
  cases fuel with
  | zero => rfl
  | succ f =>
    rcases h with h | h
    · omega
    · simp only [verifyLoop]
      rw [if_pos (by omega)]

/-- while the aligned block of height `H` around `i` is inside `[0,n)`, the loop climbs -/
theorem verifyLoop_climb (i n : Nat) (s : D) (sibs : List D) : ∀ (H fuel : Nat),
    (i / 2^H) * 2^H + 2^H ≤ n → H ≤ fuel →
    verifyLoop hn i n fuel 1 s i sibs =
      match climb hn H i s sibs with
      | none => none
      | some (s', rem) => verifyLoop hn i n (fuel - H) (H+1) s' ((i / 2^H) * 2^H + 2^H - 1) rem := by
  intro H
  induction H with
  | zero => intro fuel _ _; simp [climb]
  | succ H ih =>
    intro fuel hc hf
    have hc' := Nat.le_trans (block_nest i H) hc
    rw [ih fuel hc' (by omega)]
    simp only [climb]
    cases hcl : climb hn H i s sibs with
    | none => rfl
    | some r =>
      obtain ⟨s', rem⟩ := r
      obtain ⟨f, hf'⟩ : ∃ f, fuel - H = f + 1 := ⟨fuel - H - 1, by omega⟩
      have hf2 : fuel - (H+1) = f := by omega
      rw [hf', hf2]
      simp only [verifyLoop]
      have hp := two_pow_pos (H+1)
      rw [if_neg (by omega)]
      cases rem with
      | nil => rfl
      | cons p rem' =>
        simp only [sub_block_start, Nat.add_sub_cancel]

theorem climb_shift (h : Nat) : ∀ (j a : Nat) (s : D) (sibs : List D), j ≤ h →
    climb hn j (a + 2^h) s sibs = climb hn j a s sibs
  | 0, _, _, _, _ => rfl
  | j+1, a, s, sibs, hj => by
    simp only [climb]
    rw [climb_shift h j a s sibs (by omega)]
    have : (a + 2^h) % 2^(j+1) = a % 2^(j+1) := by
      obtain ⟨e, rfl⟩ := Nat.exists_eq_add_of_le hj
      rw [pow_add, Nat.add_mul_mod_self_left]
    rw [this]

theorem climb_sub (h j : Nat) (s : D) (sibs : List D) (hj : 2^h ≤ j) :
    climb hn h j s sibs = climb hn h (j - 2^h) s sibs := by
  conv_lhs => rw [← Nat.sub_add_cancel hj]
  exact climb_shift hn h h _ s sibs (le_refl h)

theorem c12_full : ∀ (h j : Nat) (s : D) (sibs : List D), j < 2^h → c12 hn h (2^h) j s sibs = climb hn h j s sibs
  | 0, _, _, _, _ => rfl
  | h+1, j, s, sibs, hj => by
    have hp := two_pow_pos h
    have hmod : j % 2^(h+1) = j := Nat.mod_eq_of_lt hj
    simp only [c12, climb]
    rw [if_neg (by rw [pow_succ]; omega), hmod]
    by_cases hlt : j < 2^h
    · rw [if_pos hlt]
      simp only [hlt, if_true]
    · rw [if_neg hlt]
      simp only [if_true]
      rw [c12_full h (j - 2^h) s sibs (by rw [pow_succ] at hj; omega),
        climb_sub hn h j s sibs (by omega)]
      simp only [hlt, if_false]

theorem go_full (h i fuel : Nat) (s : D) (sibs : List D) (hi : i < 2^h) (hf : h ≤ fuel) :
    (verifyLoop hn i (2^h) fuel 1 s i sibs).bind (vtail hn (2^h)) =
      (climb hn h i s sibs).map (fun r => wrapL hn r.1 r.2) := by
  have hp := two_pow_pos h
  have hd : i / 2^h = 0 := Nat.div_eq_of_lt hi
  have hd' : i / 2^(h+1) = 0 := Nat.div_eq_of_lt (by rw [pow_succ]; omega)
  rw [verifyLoop_climb hn i (2^h) s sibs h fuel (by rw [hd]; omega) hf]
  cases climb hn h i s sibs with
  | none => rfl
  | some r =>
    obtain ⟨s', rem⟩ := r
    simp only
    rw [verifyLoop_break hn i (2^h) _ (h+1) s' _ rem (Or.inr (by rw [hd', pow_succ]; omega))]
    simp only [Option.bind_some, Option.map_some, vtail, hd]
    rw [if_neg (by omega)]

theorem start_shift (h height x : Nat) (hh : height ≤ h) :
    (x + 2^h) / 2^height * 2^height = x / 2^height * 2^height + 2^h := by
  obtain ⟨e, rfl⟩ := Nat.exists_eq_add_of_le hh
  rw [pow_add, Nat.add_mul_div_left _ _ (two_pow_pos height)]
  ring

theorem verifyLoop_shift (h i n : Nat) (hk : 2^h ≤ i) (hin : i < n) (hn2 : n < 2^(h+1)) :
    ∀ (fuel height : Nat) (s : D) (se : Nat) (rem : List D), height ≤ h+1 →
    verifyLoop hn i n fuel height s (se + 2^h) rem =
      (verifyLoop hn (i - 2^h) (n - 2^h) fuel height s se rem).map (fun r => (r.1, r.2.1 + 2^h, r.2.2)) := by
  intro fuel
  induction fuel with
  | zero => intro height s se rem _; rfl
  | succ f ih =>
    intro height s se rem hh
    have hp := two_pow_pos h
    by_cases htop : height = h+1
    · subst htop
      have hd : i / 2^(h+1) = 0 := Nat.div_eq_of_lt (by omega)
      have hd' : (i - 2^h) / 2^(h+1) = 0 := Nat.div_eq_of_lt (by omega)
      rw [verifyLoop_break hn i n _ (h+1) s _ rem (Or.inr (by rw [hd]; omega)),
        verifyLoop_break hn (i - 2^h) (n - 2^h) _ (h+1) s _ rem (Or.inr (by rw [hd']; rw [pow_succ] at *; omega))]
      rfl
    · have hle : height ≤ h := by omega
      have hst := start_shift h height (i - 2^h) hle
      rw [Nat.sub_add_cancel hk] at hst
      have hm := two_pow_pos height
      have hle' : (i - 2^h) / 2^height * 2^height ≤ i - 2^h := Nat.div_mul_le_self _ _
      simp only [verifyLoop]
      rw [hst]
      by_cases hbr : (i - 2^h) / 2^height * 2^height + 2^height - 1 ≥ n - 2^h
      · rw [if_pos hbr, if_pos (by omega)]; rfl
      · rw [if_neg hbr, if_neg (by omega)]
        cases rem with
        | nil => rfl
        | cons p rem' =>
          simp only
          have e1 : (i - 2^h) / 2^height * 2^height + 2^h + 2^height - 1
              = ((i - 2^h) / 2^height * 2^height + 2^height - 1) + 2^h := by omega
          have e2 : i - ((i - 2^h) / 2^height * 2^height + 2^h) = i - 2^h - (i - 2^h) / 2^height * 2^height := by omega
          rw [e1, e2]
          exact ih (height+1) _ _ rem' (by omega)

theorem vtail_shift (n k : Nat) (hk : k < n) (r : Option (D × Nat × List D)) :
    (r.map (fun r => (r.1, r.2.1 + k, r.2.2))).bind (vtail hn n) = r.bind (vtail hn (n - k)) := by
  cases r with
  | none => rfl
  | some r =>
    obtain ⟨s, se, rem⟩ := r
    simp only [Option.map_some, Option.bind_some, vtail]
    by_cases hc : se ≠ n - k - 1
    · rw [if_pos hc, if_pos (by omega)]
    · rw [if_neg hc, if_neg (by omega)]

/-- the Go loop computes the structured recursion -/
theorem bridge : ∀ (h n i fuel : Nat) (s : D) (sibs : List D), 0 < n → n ≤ 2^h → i < n → h ≤ fuel →
    (verifyLoop hn i n fuel 1 s i sibs).bind (vtail hn n) = vs hn h n i s sibs := by
  intro h
  induction h with
  | zero =>
    intro n i fuel s sibs h0 hn1 hi _
    have : n = 1 := by simp at hn1; omega
    subst this
    have : i = 0 := by omega
    subst this
    rw [verifyLoop_break hn 0 1 fuel 1 s 0 sibs (Or.inr (by simp))]
    simp [vtail, vs, c12]
  | succ h ih =>
    intro n i fuel s sibs h0 hn1 hi hf
    have hp := two_pow_pos h
    by_cases hle : n ≤ 2^h
    · rw [ih n i fuel s sibs h0 hle hi (by omega)]
      simp [vs, c12, hle]
    · by_cases hfull : n = 2^(h+1)
      · subst hfull
        rw [go_full hn (h+1) i fuel s sibs hi hf]
        simp only [vs, c12_full hn (h+1) i s sibs hi]
      · have hn2 : n < 2^(h+1) := by omega
        by_cases hlt : i < 2^h
        · have hd : i / 2^h = 0 := Nat.div_eq_of_lt hlt
          have hd' : i / 2^(h+1) = 0 := Nat.div_eq_of_lt (by omega)
          rw [verifyLoop_climb hn i n s sibs h fuel (by rw [hd]; omega) (by omega)]
          simp only [vs, c12, hle, hlt, if_false, if_true]
          cases climb hn h i s sibs with
          | none => rfl
          | some r =>
            obtain ⟨s', rem⟩ := r
            simp only
            rw [verifyLoop_break hn i n _ (h+1) s' _ rem (Or.inr (by rw [hd']; omega))]
            simp only [Option.bind_some, vtail, hd]
            rw [if_pos (by omega)]
            cases rem <;> rfl
        · have hk : 2^h ≤ i := by omega
          have hsh := verifyLoop_shift hn h i n hk hi hn2 fuel 1 s (i - 2^h) sibs (by omega)
          rw [Nat.sub_add_cancel hk] at hsh
          rw [hsh, vtail_shift hn n (2^h) (by omega), ih (n - 2^h) (i - 2^h) fuel s sibs (by omega) (by rw [pow_succ] at hn2; omega) (by omega) (by omega)]
          simp [vs, c12, hle, hlt, hfull]

theorem verifySum_eq_vs (lf : A) (sibs : List D) (i n : Nat) (hi : i < n) :
    verifySum hl hn (some lf) sibs i n = vs hn n n i (hl lf) sibs := by
  rw [verifySum_eq hl hn lf sibs i n hi]
  exact bridge hn n n i n (hl lf) sibs (by omega) (Nat.le_of_lt Nat.lt_two_pow_self) hi (le_refl n)

end Verify
end GV.Merkle
