/- Bridge between the GENERATED goldilocks extension structures (Gen/Tower/Goldilocks.lean) and the generic spec
   (Proofs/Tower.lean): E2 = Fr[u]/(u² = 7). -/
import GnarkVerif.Proofs.Tower
import GnarkVerif.Gen.Tower.GoldilocksAlias

namespace GV.Gen.Tower.goldilocks
open GV.Tower

variable {F : Type} [CommRing F]

/-- the quadratic non-residue of the base field -/
def nr : F := 7
/-- E2 = Fr[u]/(u² = nr) -/
abbrev Fr2 (F : Type) [CommRing F] := QuadExt F (nr : F)

def E2.spec (x : E2 F) : Fr2 F := ⟨x.A0, x.A1⟩

@[simp, gv_proj] theorem E2.spec_a0 (x : E2 F) : x.spec.a0 = x.A0 := rfl
@[simp, gv_proj] theorem E2.spec_a1 (x : E2 F) : x.spec.a1 = x.A1 := rfl
@[simp, gv_proj] theorem E2.spec_mk (a b : F) : (E2.mk a b).spec = ⟨a, b⟩ := rfl

theorem E2.spec_injective : Function.Injective (E2.spec (F := F)) := by
  intro x y h
  have h0 := congrArg QuadExt.a0 h
  have h1 := congrArg QuadExt.a1 h
  ext <;> simpa using ‹_›
end GV.Gen.Tower.goldilocks
