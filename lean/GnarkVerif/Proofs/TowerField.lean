/- R[u]/(u² − β) is a field when R is a field and the norm form a0² − β·a1² is anisotropic (β is not a square).
   The inverse is the one the Go code computes (`E2.Inverse`: conj x / N(x), with 0⁻¹ = 0), so that the specs of
   C06 (`E2.Inverse_spec … = Fp2.inv x.spec`) are statements about `⁻¹` of this field. Used by the G2 part of C02. -/
import GnarkVerif.Proofs.Tower

namespace GV.Tower
namespace QuadExt
variable {R : Type}

/-- β is a non-square of R: `norm x = 0 → x = 0` -/
class NonSquare [CommRing R] (β : R) : Prop where
  norm_eq_zero : ∀ x : QuadExt R β, norm x = 0 → x = 0

instance [DecidableEq R] {β : R} : DecidableEq (QuadExt R β) := fun x y =>
  decidable_of_iff (x.a0 = y.a0 ∧ x.a1 = y.a1) (by constructor <;> intro h; exact QuadExt.ext h.1 h.2; exact ⟨by rw [h], by rw [h]⟩)

theorem invWith_zero [Field R] {β : R} : invWith (·⁻¹) (0 : QuadExt R β) = 0 := by
  ext <;> simp [invWith, norm]

instance instField [Field R] {β : R} [NonSquare β] : Field (QuadExt R β) where
  __ := (inferInstance : CommRing (QuadExt R β))
  inv := invWith (·⁻¹)
  exists_pair_ne := ⟨0, 1, fun h => by have := congrArg QuadExt.a0 h; simp at this⟩
  mul_inv_cancel x hx := mul_invWith _ x (mul_inv_cancel₀ (fun h => hx (NonSquare.norm_eq_zero x h)))
  inv_zero := invWith_zero
  nnqsmul := _
  nnqsmul_def := fun _ _ => rfl
  qsmul := _
  qsmul_def := fun _ _ => rfl

theorem inv_def [Field R] {β : R} [NonSquare β] (x : QuadExt R β) : x⁻¹ = invWith (·⁻¹) x := rfl

end QuadExt
end GV.Tower
