import GnarkVerif.Gen.Imp.MulWAll
import GnarkVerif.Gen.Imp.TEMulAll
import GnarkVerif.Proofs.ScalarMul
/-
Helper lemmas for C03_loop_gen: the translated scalar-multiplication loops (Gen/Imp/MulW_*.lean) against the hand model
`Model/ScalarMul.lean`, over an ABSTRACT dictionary of operations (no group axioms are needed for the refinement itself).
-/
namespace GV.ScalarMulGen
open GV.GoImp GV.ScalarMul GV.Gen.Imp

/-! ### vocabulary of `Model/GoImpGrp.lean` against the model's -/

theorem natDigitsBE_eq (B : Nat) : ∀ n, natDigitsBE B n = digitsBE B n := by
  intro n
  induction n using Nat.strong_induction_on with
  | _ n ih =>
    rw [natDigitsBE, digitsBE]
    by_cases h : n = 0 ∨ B < 2
    · simp [h]
    · simp only [h, dite_false]
      have h1 : n ≠ 0 := fun e => h (Or.inl e)
      have h2 : 2 ≤ B := Nat.le_of_not_lt (fun e => h (Or.inr e))
      rw [ih _ (Nat.div_lt_self (Nat.pos_of_ne_zero h1) h2)]

theorem digitsBE_lt (B : Nat) : ∀ n, ∀ d ∈ digitsBE B n, d < B := by
  intro n
  induction n using Nat.strong_induction_on with
  | _ n ih =>
    rw [digitsBE]
    by_cases h : n = 0 ∨ B < 2
    · simp [h]
    · simp only [h, dite_false]
      have h1 : n ≠ 0 := fun e => h (Or.inl e)
      have h2 : 2 ≤ B := Nat.le_of_not_lt (fun e => h (Or.inr e))
      intro d hd
      rcases List.mem_append.1 hd with hd | hd
      · exact ih _ (Nat.div_lt_self (Nat.pos_of_ne_zero h1) h2) d hd
      · rw [List.mem_singleton] at hd; subst hd; exact Nat.mod_lt _ (by omega)

theorem shrByte_toNat (x : UInt8) (n : Int) : (shrByte x n).toNat = x.toNat >>> n.toNat := by
  unfold shrByte
  rw [UInt8.toNat_ofNat']
  apply Nat.mod_eq_of_lt
  exact lt_of_le_of_lt (Nat.shiftRight_le _ _) x.toNat_lt

/-- a range-by-index loop whose body only reads `b[i]` is a fold over `b` -/
theorem range_index_fold {α β : Type} [Inhabited α] (loop : List Nat → β → β) (step : β → α → β) (b : List α)
    (hnil : ∀ r, loop [] r = r)
    (hcons : ∀ i rest r, loop (i :: rest) r = loop rest (step r (index b (Int.ofNat i)))) :
    ∀ r, loop (List.range b.length) r = b.foldl step r := by
  have key : ∀ (suf pre : List α) (r : β), b = pre ++ suf →
      loop (List.range' pre.length suf.length) r = suf.foldl step r := by
    intro suf
    induction suf with
    | nil => intro pre r _; simp [hnil]
    | cons x suf ih =>
      intro pre r hb
      rw [List.length_cons, List.range'_succ, hcons]
      have hx : index b (Int.ofNat pre.length) = x := by
        subst hb
        simp [index]
      rw [hx, List.foldl_cons]
      have := ih (pre ++ [x]) (step r x) (by rw [hb]; simp)
      simpa using this
  intro r
  have := key b [] r (by simp)
  simpa [List.range_eq_range'] using this

theorem foldl_congr_mem {α β : Type} (f g : β → α → β) : ∀ (l : List α) (r : β), (∀ r, ∀ d ∈ l, f r d = g r d) →
    l.foldl f r = l.foldl g r := by
  intro l
  induction l with
  | nil => intro r _; rfl
  | cons x l ih =>
    intro r h
    rw [List.foldl_cons, List.foldl_cons, h r x (by simp)]
    exact ih _ (fun r d hd => h r d (by simp [hd]))

theorem bigSign_neg (s : Int) : (bigSign s == -1) = decide (s < 0) := by
  unfold bigSign
  by_cases h : s < 0
  · simp [h, Int.sign_eq_neg_one_of_neg h]
  · have : ¬ s.sign = -1 := fun e => h (Int.sign_eq_neg_one_iff_neg.1 e)
    simp [h, this]

/-! ### `mulWindowed` -/

section MulW
open GV.Gen.Imp.MulW_bn254_G1
variable {G : Type} (add : G → G → G) (dbl : G → G) (neg : G → G) (zero uninit : G)

/-- the window digit `c` selects the same table entry in the translated text (`ops[c-1]`, byte arithmetic) and in the model -/
theorem sel_eq (o0 o1 o2 r : G) (c : UInt8) (h3 : c.toNat ≤ 3) :
    (if c != (0 : UInt8) then add r (arrGet [o0, o1, o2] ((c - (1 : UInt8)).toNat) uninit) else r) =
    (if c.toNat = 0 then r else add r (sel3 o0 o1 o2 (c.toNat - 1))) := by
  have hc : c = 0 ∨ c = 1 ∨ c = 2 ∨ c = 3 := by
    have h := c.toNat_lt
    generalize hn : c.toNat = n at h3
    have : c = UInt8.ofNat n := by rw [← hn]; simp
    interval_cases n <;> simp [this]
  rcases hc with rfl | rfl | rfl | rfl <;> rfl

/-- one window of the translated inner loop = `mulWindowedStep` of the model -/
theorem step_eq (hdbl : ∀ x, dbl x = add x x) (o0 o1 o2 res : G) (w : UInt8) (j : Nat) (hj : j < 4) :
    (let r := dbl (dbl res)
     let c := shrByte (w &&& UInt8.ofNat (0xc0 >>> (2 * j))) (6 - 2 * (j : Int))
     if c != (0 : UInt8) then add r (arrGet [o0, o1, o2] ((c - (1 : UInt8)).toNat) uninit) else r) =
    mulWindowedStep ⟨add, neg, zero⟩ o0 o1 o2 w.toNat res j := by
  have hcn : (shrByte (w &&& UInt8.ofNat (0xc0 >>> (2 * j))) (6 - 2 * (j : Int))).toNat =
      (w.toNat &&& (0xc0 >>> (2 * j))) >>> (6 - 2 * j) := by
    rw [shrByte_toNat, UInt8.toNat_and, UInt8.toNat_ofNat']
    have h1 : (0xc0 >>> (2 * j)) % 256 = 0xc0 >>> (2 * j) :=
      Nat.mod_eq_of_lt (lt_of_le_of_lt (Nat.shiftRight_le _ _) (by norm_num))
    have h2 : (6 - 2 * (j : Int)).toNat = 6 - 2 * j := by omega
    rw [h1, h2]
  have h3 : (shrByte (w &&& UInt8.ofNat (0xc0 >>> (2 * j))) (6 - 2 * (j : Int))).toNat ≤ 3 := by
    rw [hcn, Nat.shiftRight_and_distrib]
    refine le_trans Nat.and_le_right ?_
    interval_cases j <;> decide
  simp only [sel_eq add uninit o0 o1 o2 _ _ h3, hcn, mulWindowedStep, GOps.dbl, hdbl]

/-- body of the translated inner loop (one 2-bit window) -/
def gstep (ops : List G) (w : UInt8) (res : G) (mask : UInt8) (j : Int) : G :=
  let r := dbl (dbl res)
  let c := shrByte (w &&& mask) (6 - 2 * j)
  if c != (0 : UInt8) then add r (arrGet ops ((c - (1 : UInt8)).toNat) uninit) else r

theorem loop2_succ (ops : List G) (w : UInt8) (n : Nat) (res : G) (mask : UInt8) (j : Int) :
    mulWindowed.loop2 add dbl neg zero uninit ops w (n + 1) res mask j =
    if decide (j < 4) then mulWindowed.loop2 add dbl neg zero uninit ops w n (gstep add dbl uninit ops w res mask j) (shrByte mask 2) (j + 1)
    else (res, mask, j) := by
  rw [mulWindowed.loop2]; rfl

theorem gstep_eq (hdbl : ∀ x, dbl x = add x x) (o0 o1 o2 res : G) (w m : UInt8) (jI : Int) (j : Nat) (hj : j < 4)
    (hm : m = UInt8.ofNat (0xc0 >>> (2 * j))) (hjI : jI = (j : Int)) :
    gstep add dbl uninit [o0, o1, o2] w res m jI = mulWindowedStep ⟨add, neg, zero⟩ o0 o1 o2 w.toNat res j := by
  subst hm hjI
  exact step_eq add dbl neg zero uninit hdbl o0 o1 o2 res w j hj

theorem loop2_gen (hdbl : ∀ x, dbl x = add x x) (o0 o1 o2 : G) (w : UInt8) : ∀ (k j : Nat), j + k = 4 → ∀ res : G,
    (mulWindowed.loop2 add dbl neg zero uninit [o0, o1, o2] w k res (UInt8.ofNat (0xc0 >>> (2 * j))) (j : Int)).1 =
    (List.range' j k).foldl (mulWindowedStep ⟨add, neg, zero⟩ o0 o1 o2 w.toNat) res := by
  intro k
  induction k with
  | zero => intro j _ res; rw [mulWindowed.loop2]; rfl
  | succ k ih =>
    intro j hjk res
    have hj : j < 4 := by omega
    have hc : decide ((j : Int) < 4) = true := by simp; omega
    have hm : shrByte (UInt8.ofNat (0xc0 >>> (2 * j))) 2 = UInt8.ofNat (0xc0 >>> (2 * (j + 1))) := by
      interval_cases j <;> decide
    have hi : (j : Int) + 1 = ((j + 1 : Nat) : Int) := by push_cast; rfl
    rw [loop2_succ, hc, if_pos rfl, gstep_eq add dbl neg zero uninit hdbl o0 o1 o2 res w _ _ j hj rfl rfl, hm, hi,
      ih (j + 1) (by omega), List.range'_succ, List.foldl_cons]

/-- the four windows of one byte: the translated inner loop = `mulWindowedByte` of the model -/
theorem loop2_eq (hdbl : ∀ x, dbl x = add x x) (o0 o1 o2 res : G) (w : UInt8) :
    (mulWindowed.loop2 add dbl neg zero uninit [o0, o1, o2] w (4 - (0 : Int)).toNat res (byteOfInt 0xc0) 0).1 =
    mulWindowedByte ⟨add, neg, zero⟩ o0 o1 o2 res w.toNat := by
  have e : (4 - (0 : Int)).toNat = 4 := rfl
  have m : byteOfInt 0xc0 = UInt8.ofNat (0xc0 >>> (2 * 0)) := by decide
  rw [e, m]
  have := loop2_gen add dbl neg zero uninit hdbl o0 o1 o2 w 4 0 rfl res
  simpa [mulWindowedByte, List.range_eq_range'] using this

/-- the byte loop of the translated text = fold of `mulWindowedByte` over the bytes -/
theorem loop1_eq (hdbl : ∀ x, dbl x = add x x) (o0 o1 o2 : G) (b : Bytes) (res : G) :
    mulWindowed.loop1 add dbl neg zero uninit [o0, o1, o2] b (List.range b.length) res =
    b.foldl (fun r w => mulWindowedByte ⟨add, neg, zero⟩ o0 o1 o2 r w.toNat) res := by
  apply range_index_fold (mulWindowed.loop1 add dbl neg zero uninit [o0, o1, o2] b)
  · intro r; rw [mulWindowed.loop1]
  · intro i rest r
    rw [mulWindowed.loop1, ← loop2_eq add dbl neg zero uninit hdbl]

/-- REFINEMENT: the translated `mulWindowed` equals the hand model on every dictionary of operations whose `dbl` is `add x x`,
for every integer scalar, whatever the receiver and the Go zero value held -/
theorem mulWindowed_eq_model (hdbl : ∀ x, dbl x = add x x) (p q : G) (s : Int) :
    MulW_bn254_G1.mulWindowed add dbl neg zero uninit p q s = ScalarMul.mulWindowed ⟨add, neg, zero⟩ s q := by
  unfold MulW_bn254_G1.mulWindowed ScalarMul.mulWindowed
  simp only [bigSign_neg, arrSet, arrGet, List.replicate, List.set, List.getD_cons_zero]
  by_cases hs : s < 0
  · simp only [hs, decide_true, if_true, signPt, List.set, List.getD_cons_zero, List.getD_cons_succ, GOps.dbl]
    rw [loop1_eq add dbl neg zero uninit hdbl, bigBytes, List.foldl_map, natDigitsBE_eq, hdbl]
    apply foldl_congr_mem
    intro r d hd
    have := digitsBE_lt 256 _ d hd
    rw [UInt8.toNat_ofNat', Nat.mod_eq_of_lt this]
  · simp only [hs, decide_false, if_false, signPt, List.set, List.getD_cons_zero, List.getD_cons_succ, GOps.dbl,
      Bool.false_eq_true]
    rw [loop1_eq add dbl neg zero uninit hdbl, bigBytes, List.foldl_map, natDigitsBE_eq, hdbl]
    apply foldl_congr_mem
    intro r d hd
    have := digitsBE_lt 256 _ d hd
    rw [UInt8.toNat_ofNat', Nat.mod_eq_of_lt this]

end MulW

/-! ### twisted Edwards `scalarMulWindowed` -/

section TE
open GV.Gen.Imp.TEMul_bn254_Proj
variable {G : Type} (add : G → G → G) (dbl : G → G) (neg : G → G) (zero uninit : G)

/-- the 64 bits of one word, most significant first: the translated inner loop = `teStep` folded over `k, k+1, …, 63` -/
theorem te_loop2_gen (hdbl : ∀ x, dbl x = add x x) (p : G) (w : Nat) : ∀ (n k : Nat), k + n = 64 → ∀ res : G,
    (scalarMulWindowed.loop2 add dbl neg zero uninit p 64 w n res (k : Int)).1 =
    (List.range' k n).foldl (teStep ⟨add, neg, zero⟩ p w) res := by
  intro n
  induction n with
  | zero => intro k _ res; rw [scalarMulWindowed.loop2]; rfl
  | succ n ih =>
    intro k hkn res
    have hc : decide ((k : Int) < 64) = true := by simp; omega
    have hs : ((64 : Int) - 1 - (k : Int)).toNat = 63 - k := by omega
    have hi : (k : Int) + 1 = ((k + 1 : Nat) : Int) := by push_cast; rfl
    rw [scalarMulWindowed.loop2]
    simp only [hc, if_true, shr64, hs, hi]
    rw [ih (k + 1) (by omega), List.range'_succ, List.foldl_cons]
    congr 1
    simp only [teStep, GOps.dbl, hdbl]
    by_cases hb : (w >>> (63 - k)) &&& 1 = 1
    · simp [hb]
    · simp [hb]

theorem te_loop2_eq (hdbl : ∀ x, dbl x = add x x) (p : G) (w : Nat) (res : G) :
    (scalarMulWindowed.loop2 add dbl neg zero uninit p 64 w ((64 : Int) - 0).toNat res 0).1 = teWord ⟨add, neg, zero⟩ p res w := by
  have e : ((64 : Int) - 0).toNat = 64 := rfl
  rw [e]
  have := te_loop2_gen add dbl neg zero uninit hdbl p w 64 0 rfl res
  simpa [teWord, List.range_eq_range'] using this

/-- the word loop, from the top word down: words `n-1, …, 0` of the little-endian list -/
theorem te_loop1_gen (hdbl : ∀ x, dbl x = add x x) (p : G) (ws : List Nat) : ∀ (n : Nat), n ≤ ws.length → ∀ res : G,
    (scalarMulWindowed.loop1 add dbl neg zero uninit p 64 ws n res ((n : Int) - 1)).1 =
    ((ws.take n).reverse).foldl (teWord ⟨add, neg, zero⟩ p) res := by
  intro n
  induction n with
  | zero => intro _ res; rw [scalarMulWindowed.loop1]; rfl
  | succ n ih =>
    intro hn res
    have hc : decide ((n : Int) ≥ 0) = true := by simp
    have hi : ((n + 1 : Nat) : Int) - 1 = (n : Int) := by omega
    have hx : index ws (n : Int) = ws[n] := by
      simp [index, List.getD_eq_getElem?_getD, List.getElem?_eq_getElem (show n < ws.length by omega)]
    rw [scalarMulWindowed.loop1]
    simp only [hi, hc, if_true, hx]
    rw [te_loop2_eq add dbl neg zero uninit hdbl p ws[n] res]
    rw [List.take_succ, List.getElem?_eq_getElem (show n < ws.length by omega)]
    simp only [Option.toList_some, List.reverse_append, List.reverse_cons, List.reverse_nil, List.nil_append, List.cons_append,
      List.foldl_cons]
    exact ih (by omega) _

/-- REFINEMENT: the translated twisted-Edwards `scalarMulWindowed` equals `teScalarMul` of the hand model -/
theorem te_eq_model (hdbl : ∀ x, dbl x = add x x) (p p1 : G) (s : Int) :
    TEMul_bn254_Proj.scalarMulWindowed add dbl neg zero uninit p p1 s = teScalarMul ⟨add, neg, zero⟩ s p1 := by
  unfold TEMul_bn254_Proj.scalarMulWindowed teScalarMul
  simp only [bigSign_neg]
  have key : ∀ (q : G) (t : Int), t.natAbs = s.natAbs →
      (scalarMulWindowed.loop1 add dbl neg zero uninit q 64 (bigWords t) (len (bigWords t) - 1 + 1 - 0).toNat zero
        (len (bigWords t) - 1)).1 = (digitsBE (2 ^ 64) s.natAbs).foldl (teWord ⟨add, neg, zero⟩ q) zero := by
    intro q t ht
    have hl : (len (bigWords t) - 1 + 1 - 0).toNat = (bigWords t).length := by simp [len]
    have hl2 : len (bigWords t) - 1 = (((bigWords t).length : Nat) : Int) - 1 := by simp [len]
    rw [hl, hl2, te_loop1_gen add dbl neg zero uninit hdbl q (bigWords t) _ (le_refl _), List.take_length, bigWords,
      List.reverse_reverse, natDigitsBE_eq, ht]
  by_cases hs : s < 0
  · simp only [hs, decide_true, if_true, signPt]
    exact key (neg p1) (-s) (by simp)
  · simp only [hs, decide_false, if_false, signPt, Bool.false_eq_true]
    exact key p1 s rfl

end TE

end GV.ScalarMulGen
