import GnarkVerif.Model.Sig
import GnarkVerif.Model.VerifierRes
import Mathlib.Tactic.SplitIfs
import Mathlib.Tactic.Ring

import Mathlib.Tactic.NormNum.Basic
import Mathlib.Tactic.Linarith
/-
C12 tie T, generic part. The generated ECDSA verifier (`Gen/Verifier/Ecdsa_<curve>.lean`, tools/goslp/slpgroup.go + slpsig.go) has
the same text on the 10 curves up to the byte size of a scalar and the group order. The TEMPLATES below are that text with
`sz` and `n` as parameters; `Props/C12_gen_<curve>.lean` proves `generated = template sz n` by `rfl` on every run (a changed
Go statement breaks it), and everything else is proved here ONCE about the templates:
* `ecdsaVerifyHashT_model` / `ecdsaVerifyNoHashT_model`: run with the hand model's dictionary (`EG`: affine points with the model's
  group law and the scalar multiplication `sm`; `EF`: the field dictionary `fpE p`; Jacobian coordinates (x, y, 1) / (0, 0, 0);
  `modInverse = invE`, `isOnCurve` = the model's curve equation) the template IS `ECParams.verifyPK` (key validation: not the infinity, on the curve; then
  `ECParams.verify`) — on every input;
* `ecdsaVerifyNoHashT_abstract`: over any group, exactly which conjunction makes it return `(true, nil)`.
-/
namespace GV.SigGen
open GV GV.Alg GV.Sig GV.Gen.Verifier

/-- TEMPLATE of the generated `Signature_SetBytes` (sizes and the order as parameters; `C12gen_*_shape : generated = template` is `rfl`) -/
def sigSetBytesT (sz : Nat) (n : Int) (sig_R : List UInt8) (sig_S : List UInt8) (buf : List UInt8) : Int × Res × List UInt8 × List UInt8 :=
  if ((Int.ofNat buf.length) != ((2 * sz : Nat) : Int)) then
    ((0 : Int), (Res.err "errWrongSize"), sig_R, sig_S)
  else
    let bufBigInt_v1 : Int := Int.ofNat (GV.beToNat (buf.take sz))
    if ((cmpInt bufBigInt_v1 (0 : Int)) == (0 : Int)) then
      ((0 : Int), (Res.err "errZero"), sig_R, sig_S)
    else
      if ((cmpInt bufBigInt_v1 n) != (-1 : Int)) then
        ((0 : Int), (Res.err "errRBiggerThanRMod"), sig_R, sig_S)
      else
        let bufBigInt_v2 : Int := Int.ofNat (GV.beToNat ((buf.drop sz).take sz))
        if ((cmpInt bufBigInt_v2 (0 : Int)) == (0 : Int)) then
          ((0 : Int), (Res.err "errZero"), sig_R, sig_S)
        else
          if ((cmpInt bufBigInt_v2 n) != (-1 : Int)) then
            ((0 : Int), (Res.err "errSBiggerThanRMod"), sig_R, sig_S)
          else
            let sig_R_v1 : List UInt8 := copyBytes sig_R (buf.take sz)
            let sig_S_v1 : List UInt8 := copyBytes sig_S ((buf.drop sz).take sz)
            (((2 * sz : Nat) : Int), Res.ok, sig_R_v1, sig_S_v1)

/-- TEMPLATE of the generated `PublicKey_Verify_hash` -/
def ecdsaVerifyHashT {G Fp : Type} [Add G] [Sub G] [Neg G] [Zero G] [SMul Int G] [Add Fp] [Sub Fp] [Mul Fp] [Inv Fp] [Zero Fp] [BEq Fp] (sz : Nat) (n : Int)
    (isInfinity : G → Bool) (isOnCurve : G → Bool) (modInverse : Int → Int → Int) (hashWriteOk : List UInt8 → Bool) (hashSum : List (List UInt8) → List UInt8) (hashToInt : List UInt8 → Int) (g1Gen : G) (jacZ : G → Fp) (jacX : G → Fp) (fpToInt : Fp → Int) (publicKey_A : G) (sigBin : List UInt8) (message : List UInt8) : Bool × Res :=
  if isInfinity publicKey_A then
    (false, (Res.err "invalid public key: point at infinity"))
  else
    if (!isOnCurve publicKey_A) then
      (false, (Res.err "invalid public key: point not on curve"))
    else
      let r_v1 := sigSetBytesT sz n (List.replicate sz (0 : UInt8)) (List.replicate sz (0 : UInt8)) sigBin
      let sig_R_v1 : List UInt8 := r_v1.2.2.1
      let sig_S_v1 : List UInt8 := r_v1.2.2.2
      if (r_v1.2.1 != Res.ok) then
        (false, r_v1.2.1)
      else
        let r_v2 : Int := Int.ofNat (GV.beToNat sig_R_v1)
        let s_v1 : Int := Int.ofNat (GV.beToNat sig_S_v1)
        let new_v1 : Int := modInverse s_v1 n
        let dataToHash_v1 : List UInt8 := (List.replicate message.length (0 : UInt8))
        let dataToHash_v2 : List UInt8 := copyBytes dataToHash_v1 message
        if (!hashWriteOk dataToHash_v2) then
          (false, (if (!hashWriteOk dataToHash_v2) then (Res.err "hash.Write") else Res.ok))
        else
          let digest_v1 : List UInt8 := hashSum [dataToHash_v2]
          let hramBin_v1 : List UInt8 := digest_v1
          let hashToInt_v1 : Int := hashToInt hramBin_v1
          let new_v2 : Int := hashToInt_v1 * new_v1
          let u1_v1 : Int := new_v2 % n
          let new_v3 : Int := r_v2 * new_v1
          let u2_v1 : Int := new_v3 % n
          let U_v1 : G := u1_v1 • g1Gen + u2_v1 • publicKey_A
          let U_Z_v1 : Fp := jacZ U_v1 * jacZ U_v1
          let U_Z_v2 : Fp := U_Z_v1⁻¹
          let U_Z_v3 : Fp := U_Z_v2 * jacX U_v1
          let z_v1 : Int := fpToInt U_Z_v3
          let z_v2 : Int := z_v1 % n
          (((cmpInt z_v2 r_v2) == (0 : Int)), Res.ok)

/-- TEMPLATE of the generated `PublicKey_Verify_nohash` -/
def ecdsaVerifyNoHashT {G Fp : Type} [Add G] [Sub G] [Neg G] [Zero G] [SMul Int G] [Add Fp] [Sub Fp] [Mul Fp] [Inv Fp] [Zero Fp] [BEq Fp] (sz : Nat) (n : Int)
    (isInfinity : G → Bool) (isOnCurve : G → Bool) (modInverse : Int → Int → Int) (hashToInt : List UInt8 → Int) (g1Gen : G) (jacZ : G → Fp) (jacX : G → Fp) (fpToInt : Fp → Int) (publicKey_A : G) (sigBin : List UInt8) (message : List UInt8) : Bool × Res :=
  if isInfinity publicKey_A then
    (false, (Res.err "invalid public key: point at infinity"))
  else
    if (!isOnCurve publicKey_A) then
      (false, (Res.err "invalid public key: point not on curve"))
    else
      let r_v1 := sigSetBytesT sz n (List.replicate sz (0 : UInt8)) (List.replicate sz (0 : UInt8)) sigBin
      let sig_R_v1 : List UInt8 := r_v1.2.2.1
      let sig_S_v1 : List UInt8 := r_v1.2.2.2
      if (r_v1.2.1 != Res.ok) then
        (false, r_v1.2.1)
      else
        let r_v2 : Int := Int.ofNat (GV.beToNat sig_R_v1)
        let s_v1 : Int := Int.ofNat (GV.beToNat sig_S_v1)
        let new_v1 : Int := modInverse s_v1 n
        let hashToInt_v1 : Int := hashToInt message
        let new_v2 : Int := hashToInt_v1 * new_v1
        let u1_v1 : Int := new_v2 % n
        let new_v3 : Int := r_v2 * new_v1
        let u2_v1 : Int := new_v3 % n
        let U_v1 : G := u1_v1 • g1Gen + u2_v1 • publicKey_A
        let U_Z_v1 : Fp := jacZ U_v1 * jacZ U_v1
        let U_Z_v2 : Fp := U_Z_v1⁻¹
        let U_Z_v3 : Fp := U_Z_v2 * jacX U_v1
        let z_v1 : Int := fpToInt U_Z_v3
        let z_v2 : Int := z_v1 % n
        (((cmpInt z_v2 r_v2) == (0 : Int)), Res.ok)

/-! ### comparison primitives -/

theorem cmpInt_eq_zero (a b : Int) : (cmpInt a b == (0 : Int)) = decide (a = b) := by
  unfold cmpInt; split_ifs with h1 h2 <;> simp <;> omega

theorem cmpInt_ne_neg_one (a b : Int) : (cmpInt a b != (-1 : Int)) = decide (¬ a < b) := by
  unfold cmpInt; split_ifs with h1 h2 <;> simp <;> omega

theorem copyBytes_eq (dst src : List UInt8) (h : dst.length = src.length) : copyBytes dst src = src := by
  unfold copyBytes; rw [h, List.take_length, ← h, List.drop_length, List.append_nil]

/-! ### the model's dictionary -/

/-- a point of the model's curve, with the model's group law and the scalar multiplication `sm` -/
structure EG (P : ECParams) (sm : Int → Pt Nat → Pt Nat) where
  p : Pt Nat

/-- an element of the base field dictionary `fpE p` -/
structure EF (p : Nat) where
  v : Nat

section dict
variable {P : ECParams} {sm : Int → Pt Nat → Pt Nat} {p : Nat}
instance : Add (EG P sm) := ⟨fun a b => ⟨P.E.add a.p b.p⟩⟩
instance : Neg (EG P sm) := ⟨fun a => ⟨P.E.neg a.p⟩⟩
instance : Sub (EG P sm) := ⟨fun a b => ⟨P.E.add a.p (P.E.neg b.p)⟩⟩
instance : Zero (EG P sm) := ⟨⟨none⟩⟩
instance : SMul Int (EG P sm) := ⟨fun k a => ⟨sm k a.p⟩⟩
instance : Add (EF p) := ⟨fun a b => ⟨(fpE p).add a.v b.v⟩⟩
instance : Sub (EF p) := ⟨fun a b => ⟨(fpE p).sub a.v b.v⟩⟩
instance : Mul (EF p) := ⟨fun a b => ⟨(fpE p).mul a.v b.v⟩⟩
instance : Inv (EF p) := ⟨fun a => ⟨(fpE p).inv a.v⟩⟩
instance : Zero (EF p) := ⟨⟨0⟩⟩
instance : BEq (EF p) := ⟨fun a b => (fpE p).beq a.v b.v⟩
end dict

/-- Jacobian coordinates of the model's affine points: (x, y, 1), infinity = (0, 0, 0) -/
def jacX {P sm} (U : EG P sm) : EF P.p := ⟨match U.p with | none => 0 | some (x, _) => x⟩
def jacZ {P sm} (U : EG P sm) : EF P.p := ⟨match U.p with | none => 0 | some _ => 1⟩
def fpToInt {p} (a : EF p) : Int := Int.ofNat a.v
def isInf {P sm} (U : EG P sm) : Bool := U.p.isNone
/-- `IsOnCurve` of the model: the curve equation `y² = x³ + ax + b` of `P.E` -/
def isOnC {P sm} (U : EG P sm) : Bool := P.E.onCurve U.p
/-- `big.Int.ModInverse` of the model -/
def modInv (a m : Int) : Int := Int.ofNat (invE m.toNat a.toNat)

/-- a hash object given by its two observable functions -/
def mkHash (wok : Bytes → Bool) (hsum : List Bytes → Bytes) : HashFn :=
  fun ws => if ws.all wok then .ok (hsum ws) else .error .write

def errName : Err → String
  | .wrongSize => "errWrongSize" | .zero => "errZero" | .rBig => "errRBiggerThanRMod" | .sBig => "errSBiggerThanRMod"
  | .hash => "hash.Write" | .pkInfinity => "invalid public key: point at infinity"
  | .notOnCurve => "invalid public key: point not on curve" | e => e.str

/-- (bool, error) of a model verdict -/
def toRes : Except Err Bool → Bool × Res
  | .ok b => (b, Res.ok)
  | .error e => (false, Res.err (errName e))

theorem invE_one (p : Nat) (hp : 1 < p) : invE p 1 = 1 := by
  have h1 : 1 % p = 1 := Nat.mod_eq_of_lt hp
  have h2 : ¬ (1 % p = 0) := by omega
  unfold invE
  rw [if_neg h2, h1]
  have : (1 : Int) % (p : Int) = 1 := Int.emod_eq_of_lt (by omega) (by omega)
  simp [xgcd, Nat.mod_one, this]

theorem ofNat_bne (a b : Nat) : (Int.ofNat a != ((b : Nat) : Int)) = decide (a ≠ b) := by
  by_cases h : a = b <;> simp [h]

theorem natCast_bne (a b : Nat) : (((a : Nat) : Int) != ((b : Nat) : Int)) = decide (a ≠ b) := by
  by_cases h : a = b <;> simp [h]

theorem sigSetBytesT_spec (P : ECParams) (r0 s0 buf : Bytes) (hr : r0.length = P.frBytes) (hs : s0.length = P.frBytes) :
    sigSetBytesT P.frBytes (P.n : Int) r0 s0 buf =
      match P.sigParse buf with
      | .error e => ((0 : Int), Res.err (errName e), r0, s0)
      | .ok (k, _, _) => ((k : Int), Res.ok, buf.take P.frBytes, buf.drop P.frBytes) := by
  unfold sigSetBytesT ECParams.sigParse
  simp only [cmpInt_eq_zero, cmpInt_ne_neg_one, ofNat_bne]
  by_cases hl : buf.length = 2 * P.frBytes
  · have e1 : (buf.drop P.frBytes).take P.frBytes = buf.drop P.frBytes := by
      apply List.take_of_length_le; simp [hl]; omega
    have l1 : (buf.take P.frBytes).length = P.frBytes := by simp [hl]; omega
    have l2 : (buf.drop P.frBytes).length = P.frBytes := by simp [hl]; omega
    rw [e1]
    simp only [hl, ne_eq, not_true_eq_false, decide_false, Bool.false_eq_true, if_false]
    by_cases h1 : beToNat (buf.take P.frBytes) = 0
    · simp [h1, errName]
    · by_cases h2 : beToNat (buf.take P.frBytes) < P.n
      · by_cases h3 : beToNat (buf.drop P.frBytes) = 0
        · simp [h1, h2, h3, errName]
        · by_cases h4 : beToNat (buf.drop P.frBytes) < P.n
          · simp [h1, h2, h3, h4, copyBytes_eq, hr, hs, l1, l2]
          · simp [h1, h2, h3, h4, errName]
      · simp [h1, h2, errName]
  · simp [hl, errName]

theorem sigParse_ok (P : ECParams) (buf : Bytes) (k r s : Nat) (h : P.sigParse buf = .ok (k, r, s)) :
    r = beToNat (buf.take P.frBytes) ∧ s = beToNat (buf.drop P.frBytes) ∧ P.inRange r = true ∧ P.inRange s = true := by
  unfold ECParams.sigParse at h
  simp only [] at h
  split_ifs at h with h1 h2 h3 h4 h5
  simp only [Except.ok.injEq, Prod.mk.injEq] at h
  obtain ⟨-, rfl, rfl⟩ := h
  simp [ECParams.inRange]
  omega

theorem modInv_cast (s n : Nat) : modInv (Int.ofNat s) (n : Int) = Int.ofNat (invE n s) := by
  simp [modInv]

theorem scal_cast (e i n : Nat) : (Int.ofNat e * Int.ofNat i) % (n : Int) = Int.ofNat (e * i % n) := by
  simp only [Int.ofNat_eq_natCast]; norm_cast

theorem xcoord {P : ECParams} {sm} (hp : 1 < P.p) (U : EG P sm) :
    fpToInt ((jacZ U * jacZ U)⁻¹ * jacX U) = Int.ofNat (match U.p with | none => 0 | some (x, _) => x % P.p) := by
  obtain ⟨u⟩ := U
  cases u with
  | none =>
    show Int.ofNat (((fpE P.p).inv ((fpE P.p).mul 0 0) * 0) % P.p) = Int.ofNat 0
    rw [Nat.mul_zero, Nat.zero_mod]
  | some xy =>
    obtain ⟨x, y⟩ := xy
    show Int.ofNat ((fpE P.p).mul ((fpE P.p).inv ((fpE P.p).mul 1 1)) x) = Int.ofNat (x % P.p)
    have h1 : (fpE P.p).mul 1 1 = 1 := by simp [fpE, fp, Nat.mod_eq_of_lt hp]
    rw [h1]
    show Int.ofNat ((invE P.p 1 * x) % P.p) = _
    rw [invE_one P.p hp, Nat.one_mul]

theorem final_cmp (a n r : Nat) : (cmpInt (Int.ofNat a % (n : Int)) (Int.ofNat r) == (0 : Int)) = (a % n == r) := by
  rw [cmpInt_eq_zero]
  simp only [Int.ofNat_eq_natCast]
  by_cases h : a % n = r
  · have h2 : ((a : Int) % (n : Int)) = (r : Int) := by exact_mod_cast h
    simp [h, h2]
  · have h2 : ¬ ((a : Int) % (n : Int)) = (r : Int) := by intro h'; apply h; exact_mod_cast h'
    simp [h, h2]

theorem ecdsaVerifyNoHashT_model (P : ECParams) (sm : Int → Pt Nat → Pt Nat) (hp : 1 < P.p) (Q : Pt Nat) (sig msg : Bytes)
    (hred : ∀ e r s x y, P.verifyPoint sm Q e r s = some (x, y) → x < P.p) :
    ecdsaVerifyNoHashT (G := EG P sm) (Fp := EF P.p) P.frBytes (P.n : Int) isInf isOnC modInv (fun b => Int.ofNat (P.hashToInt b)) ⟨P.G⟩
        jacZ jacX fpToInt ⟨Q⟩ sig msg
      = toRes (P.verifyPK sm none Q sig msg) := by
  unfold ecdsaVerifyNoHashT ECParams.verifyPK
  by_cases hq : Q.isNone = true
  · simp [isInf, hq, toRes, errName]
  by_cases hc : P.E.onCurve Q = true
  swap
  · simp [isInf, isOnC, hq, hc, toRes, errName]
  · simp only [isInf, isOnC, hq, hc, Bool.not_true, Bool.false_eq_true, if_false]
    rw [sigSetBytesT_spec P _ _ sig (by simp) (by simp)]
    unfold ECParams.verify
    cases hsp : P.sigParse sig with
    | error e => simp [toRes]
    | ok v =>
      obtain ⟨k, r, s⟩ := v
      obtain ⟨hr, hs, ir, is⟩ := sigParse_ok P sig k r s hsp
      simp only [bne_self_eq_false, Bool.false_eq_true, if_false, ECParams.msgInt, toRes, ← hr, ← hs, modInv_cast, scal_cast]
      have hU : (Int.ofNat (P.hashToInt msg * invE P.n s % P.n) • (⟨P.G⟩ : EG P sm) + Int.ofNat (r * invE P.n s % P.n) • (⟨Q⟩ : EG P sm))
          = ⟨P.verifyPoint sm Q (P.hashToInt msg) r s⟩ := rfl
      rw [hU, xcoord hp, final_cmp]
      simp only [ECParams.verifyCore, ir, is, Bool.true_and, ECParams.equation]
      congr 1
      cases hv : P.verifyPoint sm Q (P.hashToInt msg) r s with
      | none => simp [ECParams.xModN]
      | some xy =>
        obtain ⟨x, y⟩ := xy
        simp [ECParams.xModN, Nat.mod_eq_of_lt (hred _ _ _ _ _ hv)]

theorem ecdsaVerifyHashT_model (P : ECParams) (sm : Int → Pt Nat → Pt Nat) (hp : 1 < P.p) (wok : Bytes → Bool) (hsum : List Bytes → Bytes)
    (Q : Pt Nat) (sig msg : Bytes) (hred : ∀ e r s x y, P.verifyPoint sm Q e r s = some (x, y) → x < P.p) :
    ecdsaVerifyHashT (G := EG P sm) (Fp := EF P.p) P.frBytes (P.n : Int) isInf isOnC modInv wok hsum (fun b => Int.ofNat (P.hashToInt b)) ⟨P.G⟩
        jacZ jacX fpToInt ⟨Q⟩ sig msg
      = toRes (P.verifyPK sm (some (mkHash wok hsum)) Q sig msg) := by
  unfold ecdsaVerifyHashT ECParams.verifyPK
  by_cases hq : Q.isNone = true
  · simp [isInf, hq, toRes, errName]
  by_cases hc : P.E.onCurve Q = true
  swap
  · simp [isInf, isOnC, hq, hc, toRes, errName]
  · simp only [isInf, isOnC, hq, hc, Bool.not_true, Bool.false_eq_true, if_false]
    rw [sigSetBytesT_spec P _ _ sig (by simp) (by simp)]
    unfold ECParams.verify
    cases hsp : P.sigParse sig with
    | error e => simp [toRes]
    | ok v =>
      obtain ⟨k, r, s⟩ := v
      obtain ⟨hr, hs, ir, is⟩ := sigParse_ok P sig k r s hsp
      have hc : copyBytes (List.replicate msg.length (0 : UInt8)) msg = msg := copyBytes_eq _ _ (by simp)
      simp only [bne_self_eq_false, Bool.false_eq_true, if_false, hc]
      by_cases hw : wok msg = true
      · have hm : P.msgInt (some (mkHash wok hsum)) msg = .ok (P.hashToInt (hsum [msg])) := by
          simp [ECParams.msgInt, mkHash, hw, liftH, Except.map]
        simp only [hw, Bool.not_true, Bool.false_eq_true, if_false, hm, toRes, ← hr, ← hs, modInv_cast, scal_cast]
        have hU : (Int.ofNat (P.hashToInt (hsum [msg]) * invE P.n s % P.n) • (⟨P.G⟩ : EG P sm) + Int.ofNat (r * invE P.n s % P.n) • (⟨Q⟩ : EG P sm))
            = ⟨P.verifyPoint sm Q (P.hashToInt (hsum [msg])) r s⟩ := rfl
        rw [hU, xcoord hp, final_cmp]
        simp only [ECParams.verifyCore, ir, is, Bool.true_and, ECParams.equation]
        congr 1
        cases hv : P.verifyPoint sm Q (P.hashToInt (hsum [msg])) r s with
        | none => simp [ECParams.xModN]
        | some xy =>
          obtain ⟨x, y⟩ := xy
          simp [ECParams.xModN, Nat.mod_eq_of_lt (hred _ _ _ _ _ hv)]
      · have hm : P.msgInt (some (mkHash wok hsum)) msg = .error .hash := by
          simp [ECParams.msgInt, mkHash, hw, liftH, Except.map]
        simp [hw, hm, toRes, errName]

/-- ABSTRACT LEVEL (no model): over ANY types with the operations, the template (hence the Go text) returns `(true, nil)` exactly when
the key is not the point at infinity and satisfies `isOnCurve`, the signature has `2·sz` bytes, both halves `r, s` (big-endian) are in `[1, n−1]`, and
`fpToInt((Z²)⁻¹·X) mod n = r` for the Jacobian coordinates of `U = [e·s⁻¹ mod n]G + [r·s⁻¹ mod n]Q`, `e = hashToInt msg`,
`s⁻¹ = modInverse s n`. There is NO separate test `U ≠ O` in the code (it is implied when `(Z²)⁻¹·X` of the infinity is 0 ≠ r). -/
theorem ecdsaVerifyNoHashT_abstract {G Fp : Type} [Add G] [Sub G] [Neg G] [Zero G] [SMul Int G] [Add Fp] [Sub Fp] [Mul Fp] [Inv Fp] [Zero Fp] [BEq Fp]
    (sz : Nat) (n : Int) (isInfinity : G → Bool) (isOnCurve : G → Bool) (modInverse : Int → Int → Int) (hashToInt : List UInt8 → Int) (g : G)
    (jacZ jacX : G → Fp) (fpToInt : Fp → Int) (Q : G) (sig msg : List UInt8)
    (r s : Nat) (hr : r = beToNat (sig.take sz)) (hs : s = beToNat ((sig.drop sz).take sz))
    (U : G) (hU : U = (hashToInt msg * modInverse (s : Int) n % n) • g + ((r : Int) * modInverse (s : Int) n % n) • Q) :
    ecdsaVerifyNoHashT sz n isInfinity isOnCurve modInverse hashToInt g jacZ jacX fpToInt Q sig msg = (true, Res.ok) ↔
      (isInfinity Q = false ∧ isOnCurve Q = true ∧ sig.length = 2 * sz ∧ r ≠ 0 ∧ (r : Int) < n ∧ s ≠ 0 ∧ (s : Int) < n ∧
        fpToInt ((jacZ U * jacZ U)⁻¹ * jacX U) % n = (r : Int)) := by
  subst hr hs hU
  have key : ∀ (res : Int × Res × List UInt8 × List UInt8),
      sigSetBytesT sz n (List.replicate sz (0 : UInt8)) (List.replicate sz (0 : UInt8)) sig = res → res.2.1 ≠ Res.ok →
      ecdsaVerifyNoHashT sz n isInfinity isOnCurve modInverse hashToInt g jacZ jacX fpToInt Q sig msg ≠ (true, Res.ok) := by
    intro res h1 h2
    unfold ecdsaVerifyNoHashT
    rw [h1]
    by_cases hq : isInfinity Q = true
    · simp [hq]
    · by_cases hc : isOnCurve Q = true
      · simp [hq, hc, h2]
      · simp [hq, hc]
  have unf : ∀ r0 s0, sigSetBytesT sz n r0 s0 sig =
      if sig.length ≠ 2 * sz then ((0 : Int), (Res.err "errWrongSize"), r0, s0) else
      if beToNat (sig.take sz) = 0 then ((0 : Int), (Res.err "errZero"), r0, s0) else
      if ¬ ((beToNat (sig.take sz) : Nat) : Int) < n then ((0 : Int), (Res.err "errRBiggerThanRMod"), r0, s0) else
      if beToNat ((sig.drop sz).take sz) = 0 then ((0 : Int), (Res.err "errZero"), r0, s0) else
      if ¬ ((beToNat ((sig.drop sz).take sz) : Nat) : Int) < n then ((0 : Int), (Res.err "errSBiggerThanRMod"), r0, s0) else
      (((2 * sz : Nat) : Int), Res.ok, copyBytes r0 (sig.take sz), copyBytes s0 ((sig.drop sz).take sz)) := by
    intro r0 s0
    unfold sigSetBytesT
    simp only [cmpInt_eq_zero, cmpInt_ne_neg_one, Int.ofNat_eq_natCast, natCast_bne, decide_eq_true_eq, Int.natCast_eq_zero]
  by_cases hq : isInfinity Q = true
  · unfold ecdsaVerifyNoHashT; simp [hq]
  by_cases hc : isOnCurve Q = true
  swap
  · unfold ecdsaVerifyNoHashT; simp [hq, hc]
  by_cases hl : sig.length = 2 * sz
  swap
  · have := key _ (unf _ _) (by simp [hl])
    simp [this, hl]
  have l1 : (sig.take sz).length = sz := by simp [hl]; omega
  have l2 : ((sig.drop sz).take sz).length = sz := by simp [hl]; omega
  have c1 : copyBytes (List.replicate sz (0 : UInt8)) (sig.take sz) = sig.take sz := copyBytes_eq _ _ (by simp [l1])
  have c2 : copyBytes (List.replicate sz (0 : UInt8)) ((sig.drop sz).take sz) = (sig.drop sz).take sz := copyBytes_eq _ _ (by simp [l2])
  by_cases h1 : beToNat (sig.take sz) = 0
  · have := key _ (unf _ _) (by rw [if_neg (by simpa using hl), if_pos h1]; simp)
    simp [this, h1]
  by_cases h2 : ((beToNat (sig.take sz) : Nat) : Int) < n
  swap
  · have := key _ (unf _ _) (by rw [if_neg (by simpa using hl), if_neg h1, if_pos h2]; simp)
    simp [this, h2]
  by_cases h3 : beToNat ((sig.drop sz).take sz) = 0
  · have := key _ (unf _ _) (by rw [if_neg (by simpa using hl), if_neg h1, if_neg (by simpa using h2), if_pos h3]; simp)
    simp [this, h3]
  by_cases h4 : ((beToNat ((sig.drop sz).take sz) : Nat) : Int) < n
  swap
  · have := key _ (unf _ _) (by rw [if_neg (by simpa using hl), if_neg h1, if_neg (by simpa using h2), if_neg h3, if_pos h4]; simp)
    simp [this, h4]
  have hsb : sigSetBytesT sz n (List.replicate sz (0 : UInt8)) (List.replicate sz (0 : UInt8)) sig
      = (((2 * sz : Nat) : Int), Res.ok, sig.take sz, (sig.drop sz).take sz) := by
    rw [unf, if_neg (by simpa using hl), if_neg h1, if_neg (by simpa using h2), if_neg h3, if_neg (by simpa using h4), c1, c2]
  unfold ecdsaVerifyNoHashT
  rw [hsb]
  simp only [cmpInt_eq_zero]
  simp [hq, hc, hl, h1, h2, h3, h4]

end GV.SigGen
