import GnarkVerif.Proofs.PermGen
/-
Curve-independent part of C17 tie T for `plookup.VerifyLookupVector` (Gen/Verifier/Plookup_<curve>.lean, tools/goslp/slpgperm.go); same scheme as
Proofs/PermGen.lean: `plkRef` is the reference program (the generated text with the two `kzg.BatchVerifySinglePoint` calls abstracted to functions of
the evaluation point), each package's generated def is proved equal to it by `rfl` (Props/C17_gen_plk_<curve>.lean).
ABSTRACTION as in PermGen.lean; `proof.size` (a Go uint64) is the Int `(n : Int)` of the model's `n : Nat`, hypothesis `n < 2^63`.
-/
set_option linter.unusedVariables false
set_option linter.unusedSectionVars false
namespace GV.VerifierGen
open GV GV.Alg GV.KZG GV.Gen.Verifier GV.ArgPairing

/-- the four challenges as the transcript derives them (bytes): β from (t, f, h1, h2), γ from nothing new, α from z, ν from h -/
def plkChallenges {G : Type} (rawBytesG : G → List UInt8) (fsC : String → List (List UInt8) → List (List UInt8) → List UInt8)
    (t f h1 h2 z h : G) : List UInt8 × List UInt8 × List UInt8 × List UInt8 :=
  let b := fsC "beta" [rawBytesG t, rawBytesG f, rawBytesG h1, rawBytesG h2] []
  let c := fsC "gamma" [] [b]
  let a := fsC "alpha" [rawBytesG z] [b, c]
  (b, c, a, fsC "nu" [rawBytesG h] [b, c, a])

/-- the quotient identity of `VerifyLookupVector` at ν as the Go text computes it -/
def plkIdent {S : Type} [Add S] [Sub S] [Mul S] [One S] [Inv S] [BEq S] (expS : S → Int → S) (size : Int) (g : S)
    (c0 c1 c2 c3 c4 c5 s0 s1 s2 s3 β γ α ν : S) : Bool :=
  let g' := expS g (wrap64 (u64sub size (1 : Int)))
  let v := 1 + β
  let w := v * γ
  let lhs := (ν - g') * c3 * v * (γ + c4) * (β * s2 + c2 + w)
  let rhs := (ν - g') * s3 * (β * s0 + c0 + w) * (β * s1 + c1 + w)
  let l0 := expS ν (wrap64 size) - 1
  let ln := l0 * (ν - g')⁻¹
  ((((c0 - s1) * ln * α + ln * (c3 - 1)) * α + (c3 - 1) * (l0 * (ν - 1)⁻¹)) * α + (lhs - rhs)) == c5 * (expS ν (wrap64 size) - 1)

/-- the reference program of `plookup.VerifyLookupVector` -/
def plkRef {G S : Type} [Add S] [Sub S] [Mul S] [One S] [Inv S] [BEq S]
    (rawBytesG : G → List UInt8) (fsC : String → List (List UInt8) → List (List UInt8) → List UInt8) (frB : List UInt8 → S)
    (expS : S → Int → S) (size : Int) (g : S) (h1 h2 t z f h : G) (c0 c1 c2 c3 c4 c5 s0 s1 s2 s3 : S) (batch shift : S → Res) : Res :=
  let ch := plkChallenges rawBytesG fsC t f h1 h2 z h
  let ν := frB ch.2.2.2
  if (batch ν != Res.ok) then batch ν else
  if (shift (ν * g) != Res.ok) then shift (ν * g) else
  if (u64and size (u64sub size (1 : Int)) != (0 : Int)) then Res.err "ErrGenerator" else
  if (expS g (wrap64 (u64quo size (2 : Int))) == 1) then Res.err "ErrGenerator" else
  if (!(expS g (wrap64 (u64quo size (2 : Int))) * expS g (wrap64 (u64quo size (2 : Int))) == 1)) then Res.err "ErrGenerator" else
  if (!(plkIdent expS size g c0 c1 c2 c3 c4 c5 s0 s1 s2 s3 (frB ch.1) (frB ch.2.1) (frB ch.2.2.1) ν)) then Res.err "ErrPlookupVerification"
  else Res.ok

section abstract
variable {G S : Type} [Add S] [Sub S] [Mul S] [One S] [Inv S] [BEq S]
  (rawG : G → List UInt8) (fsC fsC' : String → List (List UInt8) → List (List UInt8) → List UInt8) (frB : List UInt8 → S)
  (expS : S → Int → S) (size : Int) (g : S) (h1 h2 t z f h : G) (c0 c1 c2 c3 c4 c5 s0 s1 s2 s3 : S) (batch shift : S → Res)

/-- ABSTRACT FORM over any types: nil iff both batched KZG verifications return nil (at ν resp. ν·g), `size & (size-1) = 0`, `g^(size/2) ≠ 1`,
`(g^(size/2))² = 1` and the field identity holds at ν -/
theorem plkRef_ok_iff :
    plkRef rawG fsC frB expS size g h1 h2 t z f h c0 c1 c2 c3 c4 c5 s0 s1 s2 s3 batch shift = Res.ok ↔
      (let ch := plkChallenges rawG fsC t f h1 h2 z h
       let ν := frB ch.2.2.2
       batch ν = Res.ok ∧ shift (ν * g) = Res.ok ∧ u64and size (u64sub size 1) = 0 ∧
       (expS g (wrap64 (u64quo size 2)) == 1) = false ∧
       (expS g (wrap64 (u64quo size 2)) * expS g (wrap64 (u64quo size 2)) == 1) = true ∧
       plkIdent expS size g c0 c1 c2 c3 c4 c5 s0 s1 s2 s3 (frB ch.1) (frB ch.2.1) (frB ch.2.2.1) ν = true) := by
  simp only [plkRef]
  split_ifs <;> simp_all

/-- BINDING: the def depends on the transcript only through the four calls of `plkChallenges` -/
theorem plkRef_binding (hc : plkChallenges rawG fsC' t f h1 h2 z h = plkChallenges rawG fsC t f h1 h2 z h) :
    plkRef rawG fsC' frB expS size g h1 h2 t z f h c0 c1 c2 c3 c4 c5 s0 s1 s2 s3 batch shift
      = plkRef rawG fsC frB expS size g h1 h2 t z f h c0 c1 c2 c3 c4 c5 s0 s1 s2 s3 batch shift := by
  simp only [plkRef, hc]

end abstract

theorem u64_size_test (n : ℕ) (hn : n < 2 ^ 63) :
    (u64and (n : Int) (u64sub (n : Int) (1 : Int)) != (0 : Int)) = !sizeOk n := by
  rcases Nat.eq_zero_or_pos n with rfl | hp
  · decide
  · have e1 : u64sub (n : Int) 1 = ((n - 1 : ℕ) : Int) := by unfold u64sub; omega
    have b1 : bits64 (n : Int) = n := by unfold bits64; omega
    have b2 : bits64 ((n - 1 : ℕ) : Int) = n - 1 := by unfold bits64; omega
    unfold u64and sizeOk
    rw [e1, b1, b2]
    simp only [Int.ofNat_eq_natCast]
    generalize n &&& (n - 1) = m
    cases m with
    | zero => rfl
    | succ k => simp; omega

theorem u64_half (n : ℕ) (hn : n < 2 ^ 63) : wrap64 (u64quo (n : Int) (2 : Int)) = ((n / 2 : ℕ) : Int) := by
  have : Int.tdiv (n : Int) 2 = ((n / 2 : ℕ) : Int) := by
    rw [Int.tdiv_eq_ediv_of_nonneg (by omega)]; rfl
  unfold u64quo wrap64
  rw [this]; omega

theorem u64_pred (n : ℕ) (hn : n < 2 ^ 63) (hp : 0 < n) : wrap64 (u64sub (n : Int) (1 : Int)) = ((n - 1 : ℕ) : Int) := by
  unfold u64sub wrap64; omega

theorem wrap64_nat (n : ℕ) (hn : n < 2 ^ 63) : wrap64 (n : Int) = (n : Int) := by
  unfold wrap64; omega

section ex
variable (q : ℕ) [Fact q.Prime] (h2 : 2 < q)
include h2

/-- the quotient identity of the Go text in the exponent model = `plkIdentity` of the model (size ≥ 1) -/
theorem plk_identity_ex (n : ℕ) (hn : n < 2 ^ 63) (hp : 0 < n) (g c0 c1 c2 c3 c4 c5 s0 s1 s2 s3 β γ α ν : Ex q) :
    plkIdent (expEx q) (n : Int) g c0 c1 c2 c3 c4 c5 s0 s1 s2 s3 β γ α ν
      = plkIdentity (fp q) n g.v [c0.v, c1.v, c2.v, c3.v, c4.v, c5.v] [s0.v, s1.v, s2.v, s3.v] β.v γ.v α.v ν.v := by
  have hq : NeZero q := ⟨(Fact.out : q.Prime).ne_zero⟩
  unfold plkIdent
  rw [u64_pred n hn hp, wrap64_nat n hn]
  show (fp q).beq _ _ = _
  unfold plkIdentity
  rw [fp_beq_decide, fp_beq_decide]
  congr 1
  simp only [expEx, Int.toNat_natCast, add_v, sub_v, mul_v, inv_v, one_v, cast_addm, cast_subm, cast_mulm, cast_fp_add, cast_fp_mul,
    cast_fp_sub, cast_fp_inv q h2, cast_fp_one, cast_one_mod, cast_npow q h2, List.getD_cons_zero, List.getD_cons_succ]

omit h2 in
theorem genCheck_zero (x : ℕ) : genCheck (fp q) 0 x = false := by
  simp [genCheck, npow, fp]

/-- EXPONENT MODEL: the reference program accepts iff `Model.ArgPairing.plkVerify` does — every input with `0 ≤ size < 2^63` -/
theorem plkRef_ex (rawG : Ex q → List UInt8) (fsC : String → List (List UInt8) → List (List UInt8) → List UInt8)
    (frB : List UInt8 → Ex q) (n : ℕ) (hn : n < 2 ^ 63) (g h1 h2' t z f h c0 c1 c2 c3 c4 c5 s0 s1 s2 s3 : Ex q) (batch shift : Ex q → Res) :
    plkRef rawG fsC frB (expEx q) (n : Int) g h1 h2' t z f h c0 c1 c2 c3 c4 c5 s0 s1 s2 s3 batch shift = Res.ok ↔
      plkVerify (fp q) n g.v [c0.v, c1.v, c2.v, c3.v, c4.v, c5.v] [s0.v, s1.v, s2.v, s3.v]
        (frB (plkChallenges rawG fsC t f h1 h2' z h).1).v (frB (plkChallenges rawG fsC t f h1 h2' z h).2.1).v
        (frB (plkChallenges rawG fsC t f h1 h2' z h).2.2.1).v (frB (plkChallenges rawG fsC t f h1 h2' z h).2.2.2).v
        (decide (batch (frB (plkChallenges rawG fsC t f h1 h2' z h).2.2.2) = Res.ok))
        (decide (shift (frB (plkChallenges rawG fsC t f h1 h2' z h).2.2.2 * g) = Res.ok)) = true := by
  rw [plkRef_ok_iff]
  have hs := u64_size_test n hn
  have hsz : u64and (n : Int) (u64sub (n : Int) 1) = 0 ↔ sizeOk n = true := by
    cases hk : sizeOk n <;> simp [hk] at hs ⊢ <;> simpa using hs
  have hg := perm_gen_ex q h2 n g
  simp only [u64_half n hn, hsz]
  unfold plkVerify
  rw [← hg]
  simp only [Bool.and_eq_true, decide_eq_true_eq, Bool.not_eq_true', and_assoc]
  rcases Nat.eq_zero_or_pos n with rfl | hp
  · have hz := genCheck_zero q g.v
    rw [← hg] at hz
    simp only [Bool.and_eq_false_iff, Bool.not_eq_false'] at hz
    constructor
    · rintro ⟨_, _, _, a, b, _⟩; rcases hz with hz | hz <;> simp_all
    · rintro ⟨_, _, _, a, b, _⟩; rcases hz with hz | hz <;> simp_all
  · rw [plk_identity_ex q h2 n hn hp]

end ex
end GV.VerifierGen
