import GnarkVerif.Proofs.Field
import GnarkVerif.Proofs.LimbTac
/-
Generic lemmas for the limb-level tie (C01_limb): they connect the LINEAR facts proved about the generated limb
code (`r·W = t + x·yᵢ + m·q`, `m < W`) with the value-level model `GV.Field` (`ciosStep`, `montRaw`, `mul`, …).
-/
namespace GV.Limb
open GV.Field

variable (p : Params)

/-- value of little-endian 64-bit limbs -/
abbrev val (ls : List Nat) : Nat := limbsVal 64 ls

/-- A word `m < W` with `W ∣ t₁ + m·q` is THE Montgomery factor `t₁·qInvNeg mod W`. -/
theorem mont_factor_unique (h : p.OK) (t1 m r : Nat) (hm : m < p.W) (e : r * p.W = t1 + m * p.q) :
    m = (t1 % p.W) * p.qInvNeg % p.W := by
  have hW := p.W_pos
  have A : t1 + m * p.q ≡ 0 [MOD p.W] := by
    rw [← e]; exact (Nat.modEq_zero_iff_dvd).2 (Nat.dvd_mul_left _ _)
  have c : p.q * p.qInvNeg ≡ p.W - 1 [MOD p.W] := by
    unfold Nat.ModEq; rw [h.qinv, Nat.mod_eq_of_lt (by omega)]
  have B : t1 * p.qInvNeg + m * (p.W - 1) ≡ 0 [MOD p.W] := by
    have := A.mul_right p.qInvNeg
    rw [Nat.zero_mul, Nat.add_mul, Nat.mul_assoc] at this
    exact ((Nat.ModEq.refl _).add (c.mul_left m)).symm.trans this
  have C : t1 * p.qInvNeg + m * p.W ≡ m [MOD p.W] := by
    have := B.add_right m
    rw [Nat.zero_add] at this
    have e2 : t1 * p.qInvNeg + m * (p.W - 1) + m = t1 * p.qInvNeg + m * p.W := by
      obtain ⟨k, hk⟩ : ∃ k, p.W = k + 1 := ⟨p.W - 1, by omega⟩
      rw [hk, Nat.add_sub_cancel]; ring
    rwa [e2] at this
  have D : t1 * p.qInvNeg ≡ m [MOD p.W] := by
    have z : m * p.W ≡ 0 [MOD p.W] := (Nat.modEq_zero_iff_dvd).2 (Nat.dvd_mul_left _ _)
    have := ((Nat.ModEq.refl (t1 * p.qInvNeg)).add z).symm.trans C
    simpa using this
  have E : (t1 % p.W) * p.qInvNeg % p.W ≡ t1 * p.qInvNeg [MOD p.W] :=
    (Nat.mod_modEq _ _).trans ((Nat.mod_modEq _ _).mul_right _)
  have F := E.trans D
  unfold Nat.ModEq at F
  rw [Nat.mod_mod, Nat.mod_eq_of_lt hm] at F
  exact F.symm

/-- the linear fact proved about one round of the limb code identifies it with the model's CIOS step -/
theorem ciosStep_of_lin (h : p.OK) (x t yi r m : Nat) (hm : m < p.W)
    (e : r * p.W = t + x * yi + m * p.q) : r = ciosStep p x t yi := by
  have hm' := mont_factor_unique p h (t + x * yi) m r hm e
  have e2 := ciosStep_mul_W p h x t yi
  rw [← hm', ← e] at e2
  exact (Nat.eq_of_mul_eq_mul_right p.W_pos e2).symm

/-- words of a little-endian limb list -/
theorem word_limbsVal (ys : List Nat) (hy : ∀ y ∈ ys, y < p.W) (i : Nat) :
    word p (limbsVal p.w ys) i = ys.getD i 0 := by
  have hW := p.W_pos
  induction ys generalizing i with
  | nil => simp [limbsVal, word]
  | cons l ls ih =>
    have hl : l < p.W := hy l (List.mem_cons_self)
    have hls : ∀ y ∈ ls, y < p.W := fun y hy' => hy y (List.mem_cons_of_mem _ hy')
    have e : limbsVal p.w (l :: ls) = l + p.W * limbsVal p.w ls := rfl
    cases i with
    | zero =>
      simp only [word, e, Nat.pow_zero, Nat.div_one, List.getD_cons_zero]
      rw [Nat.add_mul_mod_self_left, Nat.mod_eq_of_lt hl]
    | succ i =>
      have := ih hls i
      simp only [word, List.getD_cons_succ] at this ⊢
      rw [← this, e, Nat.pow_succ, Nat.mul_comm (p.W ^ i), ← Nat.div_div_eq_div_mul,
        Nat.add_mul_div_left _ _ hW, Nat.div_eq_of_lt hl, Nat.zero_add]

/-- the word-serial Montgomery product over an explicit limb list of the second operand -/
theorem montIter_limbs (x : Nat) (ys : List Nat) (hy : ∀ y ∈ ys, y < p.W) (k : Nat) (hk : k ≤ ys.length) :
    montIter p x (limbsVal p.w ys) k = (ys.take k).foldl (ciosStep p x) 0 := by
  induction k with
  | zero => simp [montIter]
  | succ k ih =>
    have hk' : k < ys.length := hk
    rw [montIter_succ, ih (Nat.le_of_lt hk'), word_limbsVal p ys hy, List.take_succ,
      List.foldl_append]
    simp [List.getD_eq_getElem?_getD, List.getElem?_eq_getElem hk']

theorem montRaw_limbs (x : Nat) (ys : List Nat) (hy : ∀ y ∈ ys, y < p.W) (hn : ys.length = p.n) :
    montRaw p x (limbsVal p.w ys) = ys.foldl (ciosStep p x) 0 := by
  rw [montRaw_eq, montIter_limbs p x ys hy p.n (by omega), ← hn, List.take_length]

/-- a CIOS step only depends on `t + x·yᵢ` -/
theorem ciosStep_zero_word (x t : Nat) : ciosStep p x t 0 = ciosStep p 0 t 0 := by
  simp [ciosStep]

theorem ciosStep_first_one (x : Nat) : ciosStep p x 0 1 = ciosStep p 0 x 0 := by
  simp [ciosStep]

/-- Montgomery multiplication is commutative on canonical operands -/
theorem mul_comm' (h : p.OK) (x y : Nat) (hx : x < p.q) (hy : y < p.q) : mul p x y = mul p y x := by
  apply abs_inj p h _ _ (mul_lt p h x y hx (q_lt_R' p h hy)) (mul_lt p h y x hy (q_lt_R' p h hx))
  rw [abs_mul p h x y hx (q_lt_R' p h hy), abs_mul p h y x hy (q_lt_R' p h hx), _root_.mul_comm]

end GV.Limb
