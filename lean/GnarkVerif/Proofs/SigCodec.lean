import GnarkVerif.Proofs.Sig
import GnarkVerif.Proofs.Field
import Mathlib.Data.ZMod.Basic
import Mathlib.Algebra.Field.ZMod
import Mathlib.Tactic.LinearCombination
/-
C12 — the twisted-Edwards point codec: `decompress (compress X) = X` for every reduced point of the curve,
for any square-root routine satisfying `SqrtSpec` (C01 proves it for `sqrtRegular`).
-/
namespace GV.Sig
open GV GV.Alg

/-- what decompression needs from the square-root routine of the field -/
structure SqrtSpec (sq : Nat → Option Nat) (q : Nat) : Prop where
  lt : ∀ u r, sq u = some r → r < q
  sound : ∀ u r, sq u = some r → r * r % q = u % q
  complete : ∀ u x, x * x % q = u % q → ∃ r, sq u = some r

theorem sqrtRegular_congr (p p' : Field.Params) (h : p.q = p'.q) (a : Nat) :
    Field.sqrtRegular p a = Field.sqrtRegular p' a := by
  unfold Field.sqrtRegular
  simp only [h]

/-- the driver's square root satisfies the specification (C01: `sqrt_sound`, `sqrt_some_of_square_TS`) -/
theorem sqrtF_spec (p : Field.Params) [Fact p.q.Prime] (h : p.OK)
    (hnr : powMod (Field.sqrtRegular.findNR p.q 1000 2) ((p.q - 1) / 2) p.q = p.q - 1) :
    SqrtSpec (sqrtF p.q) p.q := by
  have hq : 0 < p.q := by have := h.q_gt; omega
  have hc : ∀ a, Field.sqrtRegular { q := p.q, w := 64, n := 1, qInvNeg := 0 } a = Field.sqrtRegular p a :=
    fun a => sqrtRegular_congr _ _ rfl a
  refine ⟨?_, ?_, ?_⟩
  · intro u r hr
    unfold sqrtF at hr; rw [hc] at hr
    cases hs : Field.sqrtRegular p u with
    | none => rw [hs] at hr; simp at hr
    | some r0 =>
      rw [hs] at hr; simp at hr; subst hr; exact Nat.mod_lt _ hq
  · intro u r hr
    unfold sqrtF at hr; rw [hc] at hr
    cases hs : Field.sqrtRegular p u with
    | none => rw [hs] at hr; simp at hr
    | some r0 =>
      rw [hs] at hr; simp at hr; subst hr
      have := Field.sqrt_sound p h u r0 hs
      rw [← Nat.mul_mod]; exact this
  · intro u x hx
    obtain ⟨r, hr⟩ := Field.sqrt_some_of_square_TS p h hnr u ⟨x, hx⟩
    exact ⟨r % p.q, by unfold sqrtF; rw [hc, hr]; rfl⟩

section casts
variable {q : ℕ}

theorem cast_mulmod (a b : ℕ) : ((a * b % q : ℕ) : ZMod q) = (a : ZMod q) * (b : ZMod q) := by
  rw [ZMod.natCast_mod]; push_cast; rfl

theorem cast_addmod (a b : ℕ) : (((a + b) % q : ℕ) : ZMod q) = (a : ZMod q) + (b : ZMod q) := by
  rw [ZMod.natCast_mod]; push_cast; rfl

theorem cast_submod (a b : ℕ) (hq : 0 < q) : (((a + q - b % q) % q : ℕ) : ZMod q) = (a : ZMod q) - (b : ZMod q) := by
  have hb : b % q < q := Nat.mod_lt b hq
  rw [ZMod.natCast_mod, Nat.cast_sub (by omega)]
  push_cast
  rw [ZMod.natCast_mod, ZMod.natCast_self]
  ring

end casts

/-- on the curve, the ratio `(1−y²)/(a−d·y²)` is `x²` -/
theorem ratio_eq_sq (P : EdParams) (hp : P.q.Prime) (x y : ℕ) (hon : P.onCurve (x, y) = true)
    (had : (P.a : ZMod P.q) ≠ (P.d : ZMod P.q)) :
    P.ratio y % P.q = x * x % P.q := by
  have : Fact P.q.Prime := ⟨hp⟩
  have hq0 : 0 < P.q := hp.pos
  apply (ZMod.natCast_eq_natCast_iff' _ _ _).1
  -- the curve equation in ZMod q
  have hcurve : (P.a : ZMod P.q) * ((x : ZMod P.q) * x) + (y : ZMod P.q) * y
      = 1 + (P.d : ZMod P.q) * (((x : ZMod P.q) * x) * ((y : ZMod P.q) * y)) := by
    have h := hon
    unfold EdParams.onCurve EdParams.E TECurve.onCurve at h
    simp only [beq_iff_eq] at h
    have h2 := congrArg (Nat.cast : ℕ → ZMod P.q) h
    change (((P.a * (x * x % P.q) % P.q + y * y % P.q) % P.q : ℕ) : ZMod P.q)
      = (((1 + P.d * ((x * x % P.q) * (y * y % P.q) % P.q) % P.q) % P.q : ℕ) : ZMod P.q) at h2
    rw [cast_addmod, cast_addmod, cast_mulmod, cast_mulmod, cast_mulmod, cast_mulmod, cast_mulmod] at h2
    rw [cast_mulmod] at h2
    simpa using h2
  -- the model's ratio in ZMod q
  set den : ℕ := (fpE P.q).sub P.a ((fpE P.q).mul P.d ((fpE P.q).mul y y)) with hden
  have hdenc : (den : ZMod P.q) = (P.a : ZMod P.q) - (P.d : ZMod P.q) * ((y : ZMod P.q) * y) := by
    rw [hden]
    change (((P.a + P.q - (P.d * (y * y % P.q) % P.q) % P.q) % P.q : ℕ) : ZMod P.q) = _
    rw [cast_submod _ _ hq0, cast_mulmod, cast_mulmod]
  have hratio : ((P.ratio y : ℕ) : ZMod P.q)
      = (1 - (y : ZMod P.q) * y) * ((invE P.q den : ℕ) : ZMod P.q) := by
    unfold EdParams.ratio
    change ((((1 + P.q - (y * y % P.q) % P.q) % P.q) * (invE P.q den) % P.q : ℕ) : ZMod P.q) = _
    rw [cast_mulmod, cast_submod _ _ hq0, cast_mulmod]
    simp
  rw [hratio]
  have hx2 : ((x : ZMod P.q) * x) * (den : ZMod P.q) = 1 - (y : ZMod P.q) * y := by
    rw [hdenc]; linear_combination hcurve
  by_cases hd0 : (den : ZMod P.q) = 0
  · exfalso
    have h1 : (y : ZMod P.q) * y = 1 := by
      rw [hd0, mul_zero] at hx2
      linear_combination hx2
    apply had
    rw [hd0, h1, mul_one] at hdenc
    linear_combination -hdenc
  · have hdq : den % P.q ≠ 0 := by
      intro h0
      apply hd0
      rw [← ZMod.natCast_mod, h0]; simp
    have hinv := (invE_spec P.q den hp hdq).1
    have hinvc : ((invE P.q den : ℕ) : ZMod P.q) * (den : ZMod P.q) = 1 := by
      have := congrArg (Nat.cast : ℕ → ZMod P.q) hinv
      rw [cast_mulmod] at this
      simpa using this
    push_cast
    linear_combination (-((invE P.q den : ℕ) : ZMod P.q)) * hx2 + ((x : ZMod P.q) * x) * hinvc

/-- square roots modulo a prime are unique up to sign -/
theorem sq_mod_prime (q r x : ℕ) (hp : q.Prime) (hr : r < q) (hx : x < q) (h : r * r % q = x * x % q) :
    r = x ∨ (x ≠ 0 ∧ r = q - x) := by
  have : Fact q.Prime := ⟨hp⟩
  have hc : ((r : ZMod q)) ^ 2 = ((x : ZMod q)) ^ 2 := by
    have := (ZMod.natCast_eq_natCast_iff' (r * r) (x * x) q).2 h
    push_cast at this
    rw [pow_two, pow_two]; exact this
  rcases sq_eq_sq_iff_eq_or_eq_neg.1 hc with h1 | h1
  · left
    have := (ZMod.natCast_eq_natCast_iff' r x q).1 h1
    rwa [Nat.mod_eq_of_lt hr, Nat.mod_eq_of_lt hx] at this
  · by_cases hx0 : x = 0
    · left
      subst hx0
      have h2 : (r : ZMod q) = ((0 : ℕ) : ZMod q) := by simpa using h1
      have := (ZMod.natCast_eq_natCast_iff' r 0 q).1 h2
      rw [Nat.mod_eq_of_lt hr] at this
      simpa using this
    · right
      refine ⟨hx0, ?_⟩
      have h2 : ((r + x : ℕ) : ZMod q) = ((0 : ℕ) : ZMod q) := by
        push_cast; rw [h1]; ring
      have := (ZMod.natCast_eq_natCast_iff' (r + x) 0 q).1 h2
      simp only [Nat.zero_mod] at this
      have hdvd : q ∣ r + x := Nat.dvd_of_mod_eq_zero this
      obtain ⟨c, hc⟩ := hdvd
      have : c = 1 := by
        rcases c with _ | _ | c
        · omega
        · rfl
        · exfalso; nlinarith
      subst this
      omega

/-- `PointAffine.SetBytes ∘ PointAffine.Bytes` is the identity on the reduced points of the curve (trailing bytes ignored) -/
theorem decompress_compress (P : EdParams) (sq : Nat → Option Nat) (X : Nat × Nat) (rest : Bytes)
    (hp : P.q.Prime) (hodd : P.q % 2 = 1) (hsz : 0 < P.size) (hfit : P.q ≤ 2 ^ (8 * P.size - 1))
    (hs : SqrtSpec sq P.q) (had : (P.a : ZMod P.q) ≠ (P.d : ZMod P.q))
    (hx : X.1 < P.q) (hy : X.2 < P.q) (hon : P.onCurve X = true) :
    P.decompress sq (P.compress X ++ rest) = X ∧
      P.yRaw (P.compress X ++ rest) = X.2 ∧ P.signBit (P.compress X ++ rest) = lexLargest P.q X.1 := by
  obtain ⟨x, y⟩ := X
  simp only at hx hy
  set K := 2 ^ (8 * P.size - 1) with hK
  have hKpos : 0 < K := by positivity
  set v := y + (if lexLargest P.q x then K else 0) with hv
  have hv2 : v < 2 * K := by
    rw [hv]; split_ifs <;> omega
  have hcl : (P.compress (x, y)).length = P.size := by
    unfold EdParams.compress; simp [natToBE_length]
  have htake : ((P.compress (x, y) ++ rest).take P.size).reverse = natToBE P.size v := by
    rw [List.take_left' hcl]
    unfold EdParams.compress
    simp only [List.reverse_reverse]
    rfl
  have hbe : beToNat (natToBE P.size v) = v :=
    beToNat_natToBE_of_lt _ _ (by rw [pow256_eq _ hsz]; exact hv2)
  have hyraw : P.yRaw (P.compress (x, y) ++ rest) = y := by
    unfold EdParams.yRaw
    rw [htake, hbe, hv]
    split_ifs
    · rw [Nat.add_mod_right, Nat.mod_eq_of_lt (by omega)]
    · rw [Nat.add_zero, Nat.mod_eq_of_lt (by omega)]
  have hsign : P.signBit (P.compress (x, y) ++ rest) = lexLargest P.q x := by
    unfold EdParams.signBit
    rw [htake, hbe, hv]
    cases hl : lexLargest P.q x
    · simp only [Bool.false_eq_true, if_false, Nat.add_zero]
      rw [Nat.div_eq_of_lt (by omega)]; rfl
    · simp only [if_true]
      rw [Nat.add_div_right _ hKpos, Nat.div_eq_of_lt (by omega)]; rfl
  refine ⟨?_, hyraw, hsign⟩
  unfold EdParams.decompress
  simp only []
  rw [hyraw, hsign, Nat.mod_eq_of_lt hy]
  -- the recomputed abscissa is ±x
  have hr := ratio_eq_sq P hp x y hon had
  obtain ⟨r, hsr⟩ := hs.complete (P.ratio y) x hr.symm
  have hrlt := hs.lt _ _ hsr
  have hrs := hs.sound _ _ hsr
  have hcx : P.computeX sq y = r := by
    unfold EdParams.computeX; rw [hsr]
  rw [hcx]
  rcases sq_mod_prime P.q r x hp hrlt hx (hrs.trans hr) with h1 | ⟨hx0, h1⟩
  · subst h1; simp
  · have hr0 : r ≠ 0 := by omega
    have hlr : lexLargest P.q r = !lexLargest P.q x := by
      subst h1
      unfold lexLargest
      by_cases h : x > (P.q - 1) / 2
      · simp [h]; omega
      · simp [h]; omega
    have hneg : (fpE P.q).neg r = x := by
      have : (fpE P.q).neg r = (P.q - r % P.q) % P.q := rfl
      rw [this, Nat.mod_eq_of_lt hrlt, Nat.mod_eq_of_lt (by omega)]
      omega
    rw [hlr]
    cases hl : lexLargest P.q x <;> simp [hneg]

end GV.Sig
