import GnarkVerif.Proofs.MerkleVerify
import GnarkVerif.Gen.Imp.MerkleVerify
/-
Helper lemmas for C16_gen: `VerifyProof` of Gen/Imp/MerkleVerify.lean (REGENERATED from /repo/accumulator/merkletree/verify.go by
tools/goslp mode "imp") equals `verifyProof` of Model/Merkle.lean.
-/
namespace GV.MerkleGen
open GV.GoImp GV.Merkle GV.Gen.Imp.MerkleVerify

theorem uintOfInt_nat (h : Nat) (hh : h < 2^64) : uintOfInt (h : Int) = h := by
  unfold uintOfInt
  have : ((h : Int) % 2^64) = (h : Int) := Int.emod_eq_of_lt (by omega) (by exact_mod_cast hh)
  rw [this]; simp

theorem shl_one (h : Nat) (hh : h < 64) : shl64 1 h = 2^h := by
  unfold shl64
  rw [Nat.one_mul]
  exact Nat.mod_eq_of_lt (Nat.pow_lt_pow_right (by omega) hh)

/-- more fuel than the height can grow does not change the model loop -/
theorem verifyLoop_fuel_succ {D : Type} [Inhabited D] (hn : D → D → D) (i n : Nat) : ∀ (f height : Nat) (s : D) (se : Nat) (rem : List D),
    n < 2^(height + f) → verifyLoop hn i n (f+1) height s se rem = verifyLoop hn i n f height s se rem := by
  intro f
  induction f with
  | zero =>
    intro height s se rem h
    rw [verifyLoop_break hn i n 1 height s se rem (Or.inr (by
      have : 0 < 2^height := Nat.two_pow_pos height
      simp at h; omega))]
    rfl
  | succ f ih =>
    intro height s se rem h
    simp only [verifyLoop]
    split
    · rfl
    · cases rem with
      | nil => rfl
      | cons p rem' =>
        simp only
        exact ih (height+1) _ _ _ (by rw [show height + 1 + f = height + (f + 1) by omega]; exact h)

theorem verifyLoop_fuel_ge {D : Type} [Inhabited D] (hn : D → D → D) (i n f g height : Nat) (s : D) (se : Nat) (rem : List D)
    (h : n < 2^(height + f)) (hg : f ≤ g) : verifyLoop hn i n g height s se rem = verifyLoop hn i n f height s se rem := by
  induction g with
  | zero => have : f = 0 := by omega
            subst this; rfl
  | succ g ih =>
    by_cases hfg : f = g + 1
    · subst hfg; rfl
    · rw [verifyLoop_fuel_succ hn i n g height s se rem
        (Nat.lt_of_lt_of_le h (Nat.pow_le_pow_right (by omega) (by omega)))]
      exact ih (by omega)

section
variable (hl : GoImp.Bytes → GoImp.Bytes) (hn : GoImp.Bytes → GoImp.Bytes → GoImp.Bytes) (hh : Hash) (ps : List GoImp.Bytes) (i n : Nat)

/-- the `for { … break }` loop of the generated code follows the model loop (same fuel on both sides), as long as the
number of leaves is below 2^63 (then every uint64 operation of the loop is exact) -/
theorem loop1_eq (hin : i < n) (hn63 : n < 2^63) :
    ∀ (f h : Nat) (s : GoImp.Bytes) (se : Nat), 1 ≤ h → 2^(h-1) ≤ n →
      match verifyLoop hn i n f h s se (ps.drop h) with
      | none => (VerifyProof.loop1 hl hn hh ps i n f (h : Int) s se).2 = some false
      | some (s', se', rem') =>
        ∃ h' : Nat, VerifyProof.loop1 hl hn hh ps i n f (h : Int) s se = (((h' : Int), s', se'), none) ∧ rem' = ps.drop h' := by
  intro f
  induction f with
  | zero => intro h s se _ _; exact ⟨h, rfl, rfl⟩
  | succ f ih =>
    intro h s se h1 hpow
    have hlt : h - 1 < 63 := (Nat.pow_lt_pow_iff_right (by omega)).mp (Nat.lt_of_le_of_lt hpow hn63)
    have hP : 2^h < 2^64 := Nat.pow_lt_pow_right (by omega) (by omega)
    have hP63 : 2^h ≤ 2^63 := Nat.pow_le_pow_right (by omega) (by omega)
    have hP1 : 0 < 2^h := Nat.two_pow_pos h
    have hstart : i / 2^h * 2^h ≤ i := Nat.div_mul_le_self i (2^h)
    have e1 : uintOfInt (h : Int) = h := uintOfInt_nat h (by omega)
    have e2 : shl64 1 h = 2^h := shl_one h (by omega)
    have e3 : uintOfInt ((h : Int) - 1) = h - 1 := by
      have : ((h : Int) - 1) = ((h - 1 : Nat) : Int) := by omega
      rw [this]; exact uintOfInt_nat _ (by omega)
    have e4 : shl64 1 (h - 1) = 2^(h-1) := shl_one (h-1) (by omega)
    have e5 : (i / 2^h * 2^h) % 2^64 = i / 2^h * 2^h := Nat.mod_eq_of_lt (by omega)
    have e6 : ((i / 2^h * 2^h + 2^h) % 2^64 + 2^64 - 1) % 2^64 = i / 2^h * 2^h + 2^h - 1 := by
      have hlt64 : i / 2^h * 2^h + 2^h < 2^64 := by omega
      rw [Nat.mod_eq_of_lt hlt64]; omega
    have e7 : (i + 2^64 - i / 2^h * 2^h) % 2^64 = i - i / 2^h * 2^h := by omega
    simp only [VerifyProof.loop1, verifyLoop, e1, e2, e3, e4, e5, e6, e7, if_true]
    by_cases hb : i / 2^h * 2^h + 2^h - 1 ≥ n
    · simp only [hb, decide_true, if_true]
      exact ⟨h, rfl, rfl⟩
    · simp only [hb, decide_false, if_false, Bool.false_eq_true]
      by_cases hlen : ps.length ≤ h
      · have hd : ps.drop h = [] := List.drop_eq_nil_of_le hlen
        have hlen' : len ps ≤ (h : Int) := by show ((ps.length : Nat) : Int) ≤ _; omega
        simp only [hd, hlen', decide_true, if_true]
      · have hlen2 : h < ps.length := by omega
        have hd : ps.drop h = ps[h] :: ps.drop (h+1) := List.drop_eq_getElem_cons hlen2
        have hlen' : ¬ (len ps ≤ (h : Int)) := by show ¬ (((ps.length : Nat) : Int) ≤ _); omega
        have hix : index ps (h : Int) = ps[h] := by simp [index, hlen2]
        simp only [hd, hlen', decide_false, if_false, Bool.false_eq_true, hix]
        have hpow' : 2^(h+1-1) ≤ n := by simp; omega
        have := ih (h+1) (if i - i / 2^h * 2^h < 2^(h-1) then hn s ps[h] else hn ps[h] s) (i / 2^h * 2^h + 2^h - 1) (by omega) hpow'
        have ecast : ((h + 1 : Nat) : Int) = (h : Int) + 1 := by omega
        rw [ecast] at this
        by_cases hc : i - i / 2^h * 2^h < 2^(h-1)
        · simp only [hc, if_true, decide_true] at this ⊢
          exact this
        · simp only [hc, if_false, decide_false, Bool.false_eq_true] at this ⊢
          exact this
/-- the last loop: every remaining element of the proof set is a left sibling -/
theorem loop2_eq : ∀ (f h : Nat) (s : GoImp.Bytes), f = ps.length - h →
    (VerifyProof.loop2 hl hn hh ps f (h : Int) s).2 = (ps.drop h).foldl (fun s q => hn q s) s := by
  intro f
  induction f with
  | zero =>
    intro h s hf
    rw [List.drop_eq_nil_of_le (by omega)]; rfl
  | succ f ih =>
    intro h s hf
    have hlen2 : h < ps.length := by omega
    have hd : ps.drop h = ps[h] :: ps.drop (h+1) := List.drop_eq_getElem_cons hlen2
    have hc : (h : Int) < len ps := by show (h : Int) < ((ps.length : Nat) : Int); omega
    have hix : index ps (h : Int) = ps[h] := by simp [index, hlen2]
    have ecast : (h : Int) + 1 = ((h + 1 : Nat) : Int) := by omega
    simp only [VerifyProof.loop2, hc, decide_true, if_true, hix, hd, List.foldl_cons, ecast]
    exact ih (h+1) _ (by omega)

/-- everything after the first loop -/
theorem cont1_eq (rt : GoImp.Bytes) (h : Nat) (s : GoImp.Bytes) :
    VerifyProof.cont1 hl hn hh (some rt) ps (h : Int) s = ((ps.drop h).foldl (fun s q => hn q s) s == rt) := by
  have hf : (len ps - (h : Int)).toNat = ps.length - h := by
    show (((ps.length : Nat) : Int) - (h : Int)).toNat = _; omega
  simp only [VerifyProof.cont1, hf, deref, Option.getD_some]
  rw [← loop2_eq hl hn hh ps (ps.length - h) h s rfl]

theorem verify_eq (rt : Option GoImp.Bytes) (fuel : Nat) (hn63 : n < 2^63) (hfuel : 64 ≤ fuel) :
    VerifyProof hl hn hh rt ps i n fuel = verifyProof hl hn rt ps.head? ps.tail i n := by
  cases rt with
  | none => simp [VerifyProof, verifyProof]
  | some r =>
    simp only [VerifyProof, verifyProof, Option.isNone_some, Bool.false_eq_true, if_false]
    by_cases hin : i ≥ n
    · simp [hin, verifySum]
    · simp only [hin, decide_false, if_false, Bool.false_eq_true]
      cases ps with
      | nil => simp [len, verifySum]
      | cons lf sibs =>
        have hl0 : ¬ (len (lf :: sibs) ≤ (0 : Int)) := by show ¬ ((((lf :: sibs).length : Nat) : Int) ≤ 0); simp
        have hix : index (lf :: sibs) (0 : Int) = lf := rfl
        simp only [hl0, decide_false, if_false, Bool.false_eq_true, hix, List.head?_cons, List.tail_cons]
        have hin' : i < n := by omega
        have h1 := loop1_eq hl hn hh (lf :: sibs) i n hin' hn63 fuel 1 (hl lf) i (Nat.le_refl 1) (by simp; omega)
        have hd1 : (lf :: sibs).drop 1 = sibs := rfl
        rw [hd1] at h1
        have hfu : verifyLoop hn i n n 1 (hl lf) i sibs = verifyLoop hn i n fuel 1 (hl lf) i sibs := by
          by_cases hnf : n ≤ fuel
          · exact (verifyLoop_fuel_ge hn i n n fuel 1 _ _ _ (by
              have := @Nat.lt_two_pow_self n; rw [Nat.pow_add]; omega) hnf).symm
          · exact verifyLoop_fuel_ge hn i n fuel n 1 _ _ _ (by
              have : 2^63 ≤ 2^(1 + fuel) := Nat.pow_le_pow_right (by omega) (by omega)
              omega) (by omega)
        rw [verifySum_eq hl hn lf sibs i n hin', hfu]
        have e01 : (0 : Int) + 1 = ((1 : Nat) : Int) := rfl
        rw [e01]
        have en1 : (n + 2^64 - 1) % 2^64 = n - 1 := by omega
        cases hv : verifyLoop hn i n fuel 1 (hl lf) i sibs with
        | none =>
          simp only [hv] at h1
          generalize VerifyProof.loop1 hl hn hh (lf :: sibs) i n fuel ((1 : Nat) : Int) (hl lf) i = R at h1
          obtain ⟨⟨a, b, c⟩, o⟩ := R
          simp only at h1; subst h1
          simp
        | some res =>
          obtain ⟨s', se', rem'⟩ := res
          simp only [hv] at h1
          obtain ⟨h', e, hrem⟩ := h1
          rw [e]
          simp only [Option.bind_some, vtail, en1, cont1_eq]
          by_cases hse : se' = n - 1
          · simp [hse, hrem, wrapL]
          · have hse' : (se' != n - 1) = true := by simpa using hse
            simp only [hse', if_true, hse, ne_eq, not_false_eq_true]
            by_cases hlen : (lf :: sibs).length ≤ h'
            · have hd : (lf :: sibs).drop h' = [] := List.drop_eq_nil_of_le hlen
              have hlen' : len (lf :: sibs) ≤ (h' : Int) := by show (((lf :: sibs).length : Nat) : Int) ≤ _; omega
              simp [hrem, hd, hlen']
            · have hlen2 : h' < (lf :: sibs).length := by omega
              have hd : (lf :: sibs).drop h' = (lf :: sibs)[h'] :: (lf :: sibs).drop (h'+1) := List.drop_eq_getElem_cons hlen2
              have hlen' : ¬ (len (lf :: sibs) ≤ (h' : Int)) := by show ¬ ((((lf :: sibs).length : Nat) : Int) ≤ _); omega
              have hix : index (lf :: sibs) (h' : Int) = (lf :: sibs)[h'] := by
                simp only [index, Int.toNat_natCast, List.getD_eq_getElem?_getD, List.getElem?_eq_getElem hlen2, Option.getD_some]
              have ecast : (h' : Int) + 1 = ((h' + 1 : Nat) : Int) := by omega
              simp only [hlen', decide_false, if_false, Bool.false_eq_true, hix, ecast, cont1_eq, hrem, hd, wrapL]
              simp
end

end GV.MerkleGen
