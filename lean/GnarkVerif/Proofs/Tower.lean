/- Generic extension-field algebra used as the SPEC of C06:
   `QuadExt R β` = R[u]/(u² = β) and `CubicExt R ξ` = R[v]/(v³ = ξ), with the SCHOOLBOOK product as the
   definition of multiplication, proved to be commutative rings once, for every commutative ring `R`.
   The towers of gnark-crypto are iterated instances (bn254: E2 = QuadExt Fp (-1), E6 = CubicExt E2 (9+u),
   E12 = QuadExt E6 v). -/
import Mathlib.Tactic.Ring
import Mathlib.Tactic.LinearCombination
import Mathlib.Tactic.FieldSimp
import Mathlib.Algebra.Field.Basic
import GnarkVerif.Proofs.AliasTac

namespace GV.Tower

/-! ## quadratic extension -/

@[ext] structure QuadExt (R : Type) (β : R) where
  a0 : R
  a1 : R

namespace QuadExt
variable {R : Type} [CommRing R] {β : R}

/-- schoolbook product modulo u² = β -/
protected def mul (x y : QuadExt R β) : QuadExt R β :=
  ⟨x.a0 * y.a0 + β * (x.a1 * y.a1), x.a0 * y.a1 + x.a1 * y.a0⟩

/- The operation instances are LOCAL to the construction of the `CommRing` instance: afterwards the only
   instance path is through `CommRing`, so `*` on a concrete tower type and `*` in a lemma about an abstract
   `[CommRing R]` are syntactically the same instance (no unfolding of nested towers during unification). -/
section build
local instance : Zero (QuadExt R β) := ⟨⟨0, 0⟩⟩
local instance : One (QuadExt R β) := ⟨⟨1, 0⟩⟩
local instance : Add (QuadExt R β) := ⟨fun x y => ⟨x.a0 + y.a0, x.a1 + y.a1⟩⟩
local instance : Neg (QuadExt R β) := ⟨fun x => ⟨-x.a0, -x.a1⟩⟩
local instance : Sub (QuadExt R β) := ⟨fun x y => ⟨x.a0 - y.a0, x.a1 - y.a1⟩⟩
local instance : Mul (QuadExt R β) := ⟨QuadExt.mul⟩

private theorem b_zero_a0 : (0 : QuadExt R β).a0 = 0 := rfl
private theorem b_zero_a1 : (0 : QuadExt R β).a1 = 0 := rfl
private theorem b_one_a0 : (1 : QuadExt R β).a0 = 1 := rfl
private theorem b_one_a1 : (1 : QuadExt R β).a1 = 0 := rfl
private theorem b_add_a0 (x y : QuadExt R β) : (x + y).a0 = x.a0 + y.a0 := rfl
private theorem b_add_a1 (x y : QuadExt R β) : (x + y).a1 = x.a1 + y.a1 := rfl
private theorem b_neg_a0 (x : QuadExt R β) : (-x).a0 = -x.a0 := rfl
private theorem b_neg_a1 (x : QuadExt R β) : (-x).a1 = -x.a1 := rfl
private theorem b_sub_a0 (x y : QuadExt R β) : (x - y).a0 = x.a0 - y.a0 := rfl
private theorem b_sub_a1 (x y : QuadExt R β) : (x - y).a1 = x.a1 - y.a1 := rfl
private theorem b_mul_a0 (x y : QuadExt R β) : (x * y).a0 = x.a0 * y.a0 + β * (x.a1 * y.a1) := rfl
private theorem b_mul_a1 (x y : QuadExt R β) : (x * y).a1 = x.a0 * y.a1 + x.a1 * y.a0 := rfl

instance : CommRing (QuadExt R β) where
  add_assoc := by intros; ext <;> simp only [b_add_a0, b_add_a1] <;> ring
  zero_add := by intros; ext <;> simp only [b_add_a0, b_add_a1, b_zero_a0, b_zero_a1] <;> ring
  add_zero := by intros; ext <;> simp only [b_add_a0, b_add_a1, b_zero_a0, b_zero_a1] <;> ring
  nsmul := nsmulRec
  zsmul := zsmulRec
  neg_add_cancel := by intros; ext <;> simp only [b_add_a0, b_add_a1, b_neg_a0, b_neg_a1, b_zero_a0, b_zero_a1] <;> ring
  add_comm := by intros; ext <;> simp only [b_add_a0, b_add_a1] <;> ring
  sub_eq_add_neg := by intros; ext <;> simp only [b_add_a0, b_add_a1, b_neg_a0, b_neg_a1, b_sub_a0, b_sub_a1] <;> ring
  left_distrib := by intros; ext <;> simp only [b_mul_a0, b_mul_a1, b_add_a0, b_add_a1] <;> ring
  right_distrib := by intros; ext <;> simp only [b_mul_a0, b_mul_a1, b_add_a0, b_add_a1] <;> ring
  zero_mul := by intros; ext <;> simp only [b_mul_a0, b_mul_a1, b_zero_a0, b_zero_a1] <;> ring
  mul_zero := by intros; ext <;> simp only [b_mul_a0, b_mul_a1, b_zero_a0, b_zero_a1] <;> ring
  mul_assoc := by intros; ext <;> simp only [b_mul_a0, b_mul_a1] <;> ring
  one_mul := by intros; ext <;> simp only [b_mul_a0, b_mul_a1, b_one_a0, b_one_a1] <;> ring
  mul_one := by intros; ext <;> simp only [b_mul_a0, b_mul_a1, b_one_a0, b_one_a1] <;> ring
  mul_comm := by intros; ext <;> simp only [b_mul_a0, b_mul_a1] <;> ring
end build

@[simp] theorem mk_zero_zero : (⟨0, 0⟩ : QuadExt R β) = 0 := rfl
@[simp] theorem mk_one_zero : (⟨1, 0⟩ : QuadExt R β) = 1 := rfl
@[simp, gv_proj] theorem zero_a0 : (0 : QuadExt R β).a0 = 0 := rfl
@[simp, gv_proj] theorem zero_a1 : (0 : QuadExt R β).a1 = 0 := rfl
@[simp, gv_proj] theorem one_a0 : (1 : QuadExt R β).a0 = 1 := rfl
@[simp, gv_proj] theorem one_a1 : (1 : QuadExt R β).a1 = 0 := rfl
@[simp, gv_proj] theorem add_a0 (x y : QuadExt R β) : (x + y).a0 = x.a0 + y.a0 := rfl
@[simp, gv_proj] theorem add_a1 (x y : QuadExt R β) : (x + y).a1 = x.a1 + y.a1 := rfl
@[simp, gv_proj] theorem neg_a0 (x : QuadExt R β) : (-x).a0 = -x.a0 := rfl
@[simp, gv_proj] theorem neg_a1 (x : QuadExt R β) : (-x).a1 = -x.a1 := rfl
@[simp, gv_proj] theorem sub_a0 (x y : QuadExt R β) : (x - y).a0 = x.a0 - y.a0 := rfl
@[simp, gv_proj] theorem sub_a1 (x y : QuadExt R β) : (x - y).a1 = x.a1 - y.a1 := rfl
@[simp, gv_proj] theorem mul_a0 (x y : QuadExt R β) : (x * y).a0 = x.a0 * y.a0 + β * (x.a1 * y.a1) := rfl
@[simp, gv_proj] theorem mul_a1 (x y : QuadExt R β) : (x * y).a1 = x.a0 * y.a1 + x.a1 * y.a0 := rfl

/-- embedding of the base ring -/
def ofBase (a : R) : QuadExt R β := ⟨a, 0⟩
/-- the adjoined root u -/
def gen : QuadExt R β := ⟨0, 1⟩
/-- conjugation u ↦ -u -/
def conj (x : QuadExt R β) : QuadExt R β := ⟨x.a0, -x.a1⟩
/-- norm to the base ring: x · conj x -/
def norm (x : QuadExt R β) : R := x.a0 * x.a0 - β * (x.a1 * x.a1)

@[simp, gv_proj] theorem ofBase_a0 (a : R) : (ofBase a : QuadExt R β).a0 = a := rfl
@[simp, gv_proj] theorem ofBase_a1 (a : R) : (ofBase a : QuadExt R β).a1 = 0 := rfl
@[simp, gv_proj] theorem gen_a0 : (gen : QuadExt R β).a0 = 0 := rfl
@[simp, gv_proj] theorem gen_a1 : (gen : QuadExt R β).a1 = 1 := rfl
@[simp, gv_proj] theorem conj_a0 (x : QuadExt R β) : (conj x).a0 = x.a0 := rfl
@[simp, gv_proj] theorem conj_a1 (x : QuadExt R β) : (conj x).a1 = -x.a1 := rfl

theorem gen_mul_gen : (gen * gen : QuadExt R β) = ofBase β := by ext <;> simp
theorem mul_conj (x : QuadExt R β) : x * conj x = ofBase (norm x) := by ext <;> simp [norm] <;> ring
theorem conj_mul (x y : QuadExt R β) : conj (x * y) = conj x * conj y := by ext <;> simp <;> ring
theorem conj_add (x y : QuadExt R β) : conj (x + y) = conj x + conj y := by ext <;> simp <;> ring
theorem ofBase_mul (a b : R) : (ofBase (a * b) : QuadExt R β) = ofBase a * ofBase b := by ext <;> simp
theorem ofBase_add (a b : R) : (ofBase (a + b) : QuadExt R β) = ofBase a + ofBase b := by ext <;> simp
theorem ofBase_one : (ofBase 1 : QuadExt R β) = 1 := rfl
theorem ofBase_zero : (ofBase 0 : QuadExt R β) = 0 := rfl
theorem decomp (x : QuadExt R β) : x = ofBase x.a0 + ofBase x.a1 * gen := by ext <;> simp
theorem norm_mul (x y : QuadExt R β) : norm (x * y) = norm x * norm y := by simp [norm]; ring

/-- inverse built from an inverse function `inv` of the base ring: conj x / N(x) -/
def invWith (inv : R → R) (x : QuadExt R β) : QuadExt R β := conj x * ofBase (inv (norm x))

theorem mul_invWith (inv : R → R) (x : QuadExt R β) (h : norm x * inv (norm x) = 1) :
    x * invWith inv x = 1 := by
  rw [invWith, ← mul_assoc, mul_conj, ← ofBase_mul, h, ofBase_one]

theorem natCast_a0 (n : ℕ) : ((n : QuadExt R β)).a0 = n := by
  induction n with
  | zero => simp
  | succ k ih => simp [ih]
theorem natCast_a1 (n : ℕ) : ((n : QuadExt R β)).a1 = 0 := by
  induction n with
  | zero => simp
  | succ k ih => simp [ih]
theorem ofNat_a0 (n : ℕ) [n.AtLeastTwo] : ((OfNat.ofNat n : QuadExt R β)).a0 = OfNat.ofNat n := by
  rw [← Nat.cast_ofNat (R := QuadExt R β), natCast_a0]; simp
theorem ofNat_a1 (n : ℕ) [n.AtLeastTwo] : ((OfNat.ofNat n : QuadExt R β)).a1 = 0 := by
  rw [← Nat.cast_ofNat (R := QuadExt R β), natCast_a1]

end QuadExt

/-! ## cubic extension -/

@[ext] structure CubicExt (R : Type) (ξ : R) where
  b0 : R
  b1 : R
  b2 : R

namespace CubicExt
variable {R : Type} [CommRing R] {ξ : R}

/-- schoolbook product modulo v³ = ξ -/
protected def mul (x y : CubicExt R ξ) : CubicExt R ξ :=
  ⟨x.b0 * y.b0 + ξ * (x.b1 * y.b2 + x.b2 * y.b1),
   x.b0 * y.b1 + x.b1 * y.b0 + ξ * (x.b2 * y.b2),
   x.b0 * y.b2 + x.b1 * y.b1 + x.b2 * y.b0⟩

section build
local instance : Zero (CubicExt R ξ) := ⟨⟨0, 0, 0⟩⟩
local instance : One (CubicExt R ξ) := ⟨⟨1, 0, 0⟩⟩
local instance : Add (CubicExt R ξ) := ⟨fun x y => ⟨x.b0 + y.b0, x.b1 + y.b1, x.b2 + y.b2⟩⟩
local instance : Neg (CubicExt R ξ) := ⟨fun x => ⟨-x.b0, -x.b1, -x.b2⟩⟩
local instance : Sub (CubicExt R ξ) := ⟨fun x y => ⟨x.b0 - y.b0, x.b1 - y.b1, x.b2 - y.b2⟩⟩
local instance : Mul (CubicExt R ξ) := ⟨CubicExt.mul⟩

private theorem c_zero_b0 : (0 : CubicExt R ξ).b0 = 0 := rfl
private theorem c_zero_b1 : (0 : CubicExt R ξ).b1 = 0 := rfl
private theorem c_zero_b2 : (0 : CubicExt R ξ).b2 = 0 := rfl
private theorem c_one_b0 : (1 : CubicExt R ξ).b0 = 1 := rfl
private theorem c_one_b1 : (1 : CubicExt R ξ).b1 = 0 := rfl
private theorem c_one_b2 : (1 : CubicExt R ξ).b2 = 0 := rfl
private theorem c_add_b0 (x y : CubicExt R ξ) : (x + y).b0 = x.b0 + y.b0 := rfl
private theorem c_add_b1 (x y : CubicExt R ξ) : (x + y).b1 = x.b1 + y.b1 := rfl
private theorem c_add_b2 (x y : CubicExt R ξ) : (x + y).b2 = x.b2 + y.b2 := rfl
private theorem c_neg_b0 (x : CubicExt R ξ) : (-x).b0 = -x.b0 := rfl
private theorem c_neg_b1 (x : CubicExt R ξ) : (-x).b1 = -x.b1 := rfl
private theorem c_neg_b2 (x : CubicExt R ξ) : (-x).b2 = -x.b2 := rfl
private theorem c_sub_b0 (x y : CubicExt R ξ) : (x - y).b0 = x.b0 - y.b0 := rfl
private theorem c_sub_b1 (x y : CubicExt R ξ) : (x - y).b1 = x.b1 - y.b1 := rfl
private theorem c_sub_b2 (x y : CubicExt R ξ) : (x - y).b2 = x.b2 - y.b2 := rfl
private theorem c_mul_b0 (x y : CubicExt R ξ) :
    (x * y).b0 = x.b0 * y.b0 + ξ * (x.b1 * y.b2 + x.b2 * y.b1) := rfl
private theorem c_mul_b1 (x y : CubicExt R ξ) :
    (x * y).b1 = x.b0 * y.b1 + x.b1 * y.b0 + ξ * (x.b2 * y.b2) := rfl
private theorem c_mul_b2 (x y : CubicExt R ξ) :
    (x * y).b2 = x.b0 * y.b2 + x.b1 * y.b1 + x.b2 * y.b0 := rfl

instance : CommRing (CubicExt R ξ) where
  add_assoc := by intros; ext <;> simp only [c_add_b0, c_add_b1, c_add_b2] <;> ring
  zero_add := by intros; ext <;> simp only [c_add_b0, c_add_b1, c_add_b2, c_zero_b0, c_zero_b1, c_zero_b2] <;> ring
  add_zero := by intros; ext <;> simp only [c_add_b0, c_add_b1, c_add_b2, c_zero_b0, c_zero_b1, c_zero_b2] <;> ring
  nsmul := nsmulRec
  zsmul := zsmulRec
  neg_add_cancel := by
    intros; ext <;> simp only [c_add_b0, c_add_b1, c_add_b2, c_neg_b0, c_neg_b1, c_neg_b2, c_zero_b0, c_zero_b1,
      c_zero_b2] <;> ring
  add_comm := by intros; ext <;> simp only [c_add_b0, c_add_b1, c_add_b2] <;> ring
  sub_eq_add_neg := by
    intros; ext <;> simp only [c_add_b0, c_add_b1, c_add_b2, c_neg_b0, c_neg_b1, c_neg_b2, c_sub_b0, c_sub_b1,
      c_sub_b2] <;> ring
  left_distrib := by intros; ext <;> simp only [c_mul_b0, c_mul_b1, c_mul_b2, c_add_b0, c_add_b1, c_add_b2] <;> ring
  right_distrib := by intros; ext <;> simp only [c_mul_b0, c_mul_b1, c_mul_b2, c_add_b0, c_add_b1, c_add_b2] <;> ring
  zero_mul := by intros; ext <;> simp only [c_mul_b0, c_mul_b1, c_mul_b2, c_zero_b0, c_zero_b1, c_zero_b2] <;> ring
  mul_zero := by intros; ext <;> simp only [c_mul_b0, c_mul_b1, c_mul_b2, c_zero_b0, c_zero_b1, c_zero_b2] <;> ring
  mul_assoc := by intros; ext <;> simp only [c_mul_b0, c_mul_b1, c_mul_b2] <;> ring
  one_mul := by intros; ext <;> simp only [c_mul_b0, c_mul_b1, c_mul_b2, c_one_b0, c_one_b1, c_one_b2] <;> ring
  mul_one := by intros; ext <;> simp only [c_mul_b0, c_mul_b1, c_mul_b2, c_one_b0, c_one_b1, c_one_b2] <;> ring
  mul_comm := by intros; ext <;> simp only [c_mul_b0, c_mul_b1, c_mul_b2] <;> ring
end build

@[simp] theorem mk_zero_zero : (⟨0, 0, 0⟩ : CubicExt R ξ) = 0 := rfl
@[simp] theorem mk_one_zero : (⟨1, 0, 0⟩ : CubicExt R ξ) = 1 := rfl
@[simp, gv_proj] theorem zero_b0 : (0 : CubicExt R ξ).b0 = 0 := rfl
@[simp, gv_proj] theorem zero_b1 : (0 : CubicExt R ξ).b1 = 0 := rfl
@[simp, gv_proj] theorem zero_b2 : (0 : CubicExt R ξ).b2 = 0 := rfl
@[simp, gv_proj] theorem one_b0 : (1 : CubicExt R ξ).b0 = 1 := rfl
@[simp, gv_proj] theorem one_b1 : (1 : CubicExt R ξ).b1 = 0 := rfl
@[simp, gv_proj] theorem one_b2 : (1 : CubicExt R ξ).b2 = 0 := rfl
@[simp, gv_proj] theorem add_b0 (x y : CubicExt R ξ) : (x + y).b0 = x.b0 + y.b0 := rfl
@[simp, gv_proj] theorem add_b1 (x y : CubicExt R ξ) : (x + y).b1 = x.b1 + y.b1 := rfl
@[simp, gv_proj] theorem add_b2 (x y : CubicExt R ξ) : (x + y).b2 = x.b2 + y.b2 := rfl
@[simp, gv_proj] theorem neg_b0 (x : CubicExt R ξ) : (-x).b0 = -x.b0 := rfl
@[simp, gv_proj] theorem neg_b1 (x : CubicExt R ξ) : (-x).b1 = -x.b1 := rfl
@[simp, gv_proj] theorem neg_b2 (x : CubicExt R ξ) : (-x).b2 = -x.b2 := rfl
@[simp, gv_proj] theorem sub_b0 (x y : CubicExt R ξ) : (x - y).b0 = x.b0 - y.b0 := rfl
@[simp, gv_proj] theorem sub_b1 (x y : CubicExt R ξ) : (x - y).b1 = x.b1 - y.b1 := rfl
@[simp, gv_proj] theorem sub_b2 (x y : CubicExt R ξ) : (x - y).b2 = x.b2 - y.b2 := rfl
@[simp, gv_proj] theorem mul_b0 (x y : CubicExt R ξ) :
    (x * y).b0 = x.b0 * y.b0 + ξ * (x.b1 * y.b2 + x.b2 * y.b1) := rfl
@[simp, gv_proj] theorem mul_b1 (x y : CubicExt R ξ) :
    (x * y).b1 = x.b0 * y.b1 + x.b1 * y.b0 + ξ * (x.b2 * y.b2) := rfl
@[simp, gv_proj] theorem mul_b2 (x y : CubicExt R ξ) :
    (x * y).b2 = x.b0 * y.b2 + x.b1 * y.b1 + x.b2 * y.b0 := rfl

def ofBase (a : R) : CubicExt R ξ := ⟨a, 0, 0⟩
def gen : CubicExt R ξ := ⟨0, 1, 0⟩
/-- adjugate: x · adj x = N(x) -/
def adj (x : CubicExt R ξ) : CubicExt R ξ :=
  ⟨x.b0 * x.b0 - ξ * (x.b1 * x.b2), ξ * (x.b2 * x.b2) - x.b0 * x.b1, x.b1 * x.b1 - x.b0 * x.b2⟩
/-- norm to the base ring (determinant of multiplication by x) -/
def norm (x : CubicExt R ξ) : R :=
  x.b0 * (adj x).b0 + ξ * (x.b2 * (adj x).b1 + x.b1 * (adj x).b2)

@[simp, gv_proj] theorem ofBase_b0 (a : R) : (ofBase a : CubicExt R ξ).b0 = a := rfl
@[simp, gv_proj] theorem ofBase_b1 (a : R) : (ofBase a : CubicExt R ξ).b1 = 0 := rfl
@[simp, gv_proj] theorem ofBase_b2 (a : R) : (ofBase a : CubicExt R ξ).b2 = 0 := rfl
@[simp, gv_proj] theorem gen_b0 : (gen : CubicExt R ξ).b0 = 0 := rfl
@[simp, gv_proj] theorem gen_b1 : (gen : CubicExt R ξ).b1 = 1 := rfl
@[simp, gv_proj] theorem gen_b2 : (gen : CubicExt R ξ).b2 = 0 := rfl

theorem gen_cube : (gen * gen * gen : CubicExt R ξ) = ofBase ξ := by ext <;> simp
theorem ofBase_mul (a b : R) : (ofBase (a * b) : CubicExt R ξ) = ofBase a * ofBase b := by ext <;> simp
theorem ofBase_add (a b : R) : (ofBase (a + b) : CubicExt R ξ) = ofBase a + ofBase b := by ext <;> simp
theorem ofBase_one : (ofBase 1 : CubicExt R ξ) = 1 := rfl
theorem decomp (x : CubicExt R ξ) : x = ofBase x.b0 + ofBase x.b1 * gen + ofBase x.b2 * (gen * gen) := by
  ext <;> simp

theorem mul_adj (x : CubicExt R ξ) : x * adj x = ofBase (norm x) := by
  ext <;> simp [norm, adj] <;> ring

/-- inverse built from an inverse function `inv` of the base ring: adj x / N(x) -/
def invWith (inv : R → R) (x : CubicExt R ξ) : CubicExt R ξ := adj x * ofBase (inv (norm x))

theorem mul_invWith (inv : R → R) (x : CubicExt R ξ) (h : norm x * inv (norm x) = 1) :
    x * invWith inv x = 1 := by
  rw [invWith, ← mul_assoc, mul_adj, ← ofBase_mul, h, ofBase_one]

theorem natCast_b0 (n : ℕ) : ((n : CubicExt R ξ)).b0 = n := by
  induction n with
  | zero => simp
  | succ k ih => simp [ih]
theorem natCast_b1 (n : ℕ) : ((n : CubicExt R ξ)).b1 = 0 := by
  induction n with
  | zero => simp
  | succ k ih => simp [ih]
theorem natCast_b2 (n : ℕ) : ((n : CubicExt R ξ)).b2 = 0 := by
  induction n with
  | zero => simp
  | succ k ih => simp [ih]

end CubicExt

end GV.Tower
