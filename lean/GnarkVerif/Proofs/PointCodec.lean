import GnarkVerif.Model.PointCodec
import Mathlib.Tactic.Ring
import Mathlib.Tactic.Linarith
import Mathlib.Tactic.IntervalCases
/-
C07 — helper lemmas: big-endian bytes, component lists, flag codes, frames.
-/
namespace GV.PointCodec
open GV GV.Alg
set_option linter.unusedSectionVars false

/-! ## big-endian bytes -/

theorem beToNat_snoc (l : List UInt8) (b : UInt8) : beToNat (l ++ [b]) = beToNat l * 256 + b.toNat := by
  unfold beToNat; rw [List.foldl_append]; rfl

@[simp] theorem beToNat_nil : beToNat [] = 0 := rfl

@[simp] theorem putBE_length (len n : Nat) : (putBE len n).length = len := by
  induction len generalizing n with
  | zero => rfl
  | succ k ih => simp [putBE, ih]

theorem beToNat_putBE (len n : Nat) : beToNat (putBE len n) = n % 256 ^ len := by
  induction len generalizing n with
  | zero => simp [putBE, Nat.mod_one]
  | succ k ih =>
    rw [putBE, beToNat_snoc, ih]
    have h : (UInt8.ofNat (n % 256)).toNat = n % 256 := by
      simp [UInt8.toNat_ofNat']
    rw [h, pow_succ, Nat.mul_comm (256 ^ k) 256, Nat.mod_mul]
    ring

theorem snoc_induction {P : List UInt8 → Prop} (nil : P []) (snoc : ∀ l b, P l → P (l ++ [b])) : ∀ l, P l := by
  intro l
  generalize hn : l.length = n
  induction n generalizing l with
  | zero => rw [List.length_eq_zero_iff.mp hn]; exact nil
  | succ k ih =>
    have hne : l ≠ [] := by intro h; rw [h] at hn; simp at hn
    rw [← List.dropLast_concat_getLast hne]
    apply snoc
    apply ih
    simp [hn]

theorem beToNat_lt (bs : List UInt8) : beToNat bs < 256 ^ bs.length := by
  induction bs using snoc_induction with
  | nil => simp
  | snoc l b ih =>
    rw [beToNat_snoc, List.length_append, List.length_singleton, pow_succ]
    have hb : b.toNat < 256 := UInt8.toNat_lt b
    nlinarith

theorem putBE_beToNat (bs : List UInt8) : putBE bs.length (beToNat bs) = bs := by
  induction bs using snoc_induction with
  | nil => rfl
  | snoc l b ih =>
    have hb : b.toNat < 256 := UInt8.toNat_lt b
    rw [beToNat_snoc, List.length_append, List.length_singleton, putBE]
    have h1 : (beToNat l * 256 + b.toNat) / 256 = beToNat l := by omega
    have h2 : (beToNat l * 256 + b.toNat) % 256 = b.toNat := by omega
    rw [h1, h2, ih]
    simp

theorem putBE_zero (len : Nat) : putBE len 0 = List.replicate len 0 := by
  induction len with
  | zero => rfl
  | succ k ih =>
    rw [putBE, Nat.zero_div, ih, List.replicate_succ']
    rfl

/-! ## component lists -/

@[simp] theorem readComps_length (fb n : Nat) (bs : List UInt8) : (readComps fb n bs).length = n := by
  induction n generalizing bs with
  | zero => rfl
  | succ k ih => simp [readComps, ih]

@[simp] theorem writeComps_length (fb : Nat) (xs : List Nat) : (writeComps fb xs).length = xs.length * fb := by
  induction xs with
  | nil => simp [writeComps]
  | cons x xs ih => simp [writeComps, ih]; ring

theorem readComps_lt (fb n : Nat) (bs : List UInt8) (h : n * fb ≤ bs.length) :
    ∀ v ∈ readComps fb n bs, v < 256 ^ fb := by
  induction n generalizing bs with
  | zero => simp [readComps]
  | succ k ih =>
    intro v hv
    have hfb : fb ≤ bs.length := by nlinarith
    simp only [readComps, List.mem_cons] at hv
    rcases hv with rfl | hv
    · have := beToNat_lt (bs.take fb)
      rwa [List.length_take, Nat.min_eq_left hfb] at this
    · apply ih (bs.drop fb) _ v hv
      rw [List.length_drop]
      have : (k + 1) * fb = k * fb + fb := by ring
      omega

theorem readComps_writeComps (fb : Nat) (xs : List Nat) (h : ∀ x ∈ xs, x < 256 ^ fb) (rest : List UInt8) :
    readComps fb xs.length (writeComps fb xs ++ rest) = xs := by
  induction xs with
  | nil => rfl
  | cons x xs ih =>
    have hx : x < 256 ^ fb := h x (by simp)
    simp only [List.length_cons, readComps, writeComps, List.append_assoc]
    have h1 : List.take fb (putBE fb x ++ (writeComps fb xs ++ rest)) = putBE fb x := by
      rw [List.take_append_of_le_length (by simp)]
      simp [List.take_of_length_le]
    have h2 : List.drop fb (putBE fb x ++ (writeComps fb xs ++ rest)) = writeComps fb xs ++ rest := by
      rw [List.drop_append_of_le_length (by simp)]
      simp [List.drop_of_length_le]
    rw [h1, h2, beToNat_putBE, Nat.mod_eq_of_lt hx, ih (fun y hy => h y (by simp [hy]))]

theorem writeComps_readComps (fb n : Nat) (bs : List UInt8) (h : n * fb ≤ bs.length) :
    writeComps fb (readComps fb n bs) = bs.take (n * fb) := by
  induction n generalizing bs with
  | zero => simp [readComps, writeComps]
  | succ k ih =>
    have hfb : fb ≤ bs.length := by nlinarith
    have hk : k * fb ≤ (bs.drop fb).length := by
      rw [List.length_drop]
      have : (k + 1) * fb = k * fb + fb := by ring
      omega
    simp only [readComps, writeComps]
    rw [ih _ hk]
    have h1 : putBE fb (beToNat (bs.take fb)) = bs.take fb := by
      have := putBE_beToNat (bs.take fb)
      rwa [List.length_take, Nat.min_eq_left hfb] at this
    rw [h1]
    have : (k + 1) * fb = fb + k * fb := by ring
    rw [this, List.take_add]

theorem writeComps_append (fb : Nat) (xs ys : List Nat) :
    writeComps fb (xs ++ ys) = writeComps fb xs ++ writeComps fb ys := by
  induction xs with
  | nil => rfl
  | cons x xs ih => simp [writeComps, ih]

theorem writeComps_zeros (fb n : Nat) : writeComps fb (List.replicate n 0) = List.replicate (n * fb) 0 := by
  induction n with
  | zero => simp [writeComps]
  | succ k ih =>
    rw [List.replicate_succ, writeComps, ih, putBE_zero, List.replicate_append_replicate]
    congr 1; ring

/-! ## flags -/

theorem classify_code (L : Layout) (fl : Flag) (h : L.classify (L.code fl) = fl) (hb : fl ≠ .bad) :
    L.code fl < 2 ^ L.k := by
  cases L <;> cases fl <;> simp_all [Layout.code, Layout.k, Layout.classify]

theorem code_classify (L : Layout) (f : Nat) (hf : f < 2 ^ L.k) (hb : L.classify f ≠ .bad) :
    L.code (L.classify f) = f := by
  cases L
  · simp [Layout.k] at hf; subst hf; rfl
  · simp [Layout.k] at hf
    interval_cases f <;> simp_all [Layout.code, Layout.classify]
  · simp [Layout.k] at hf
    interval_cases f <;> simp_all [Layout.code, Layout.classify]

/-! ## hypotheses on the coordinate field -/

variable {α : Type} [DecidableEq α]

/-- `x` is a canonical field element: its components are reduced and determine it -/
structure Codec.Valid (C : Codec α) (x : α) : Prop where
  len : (C.toComps x).length = C.c
  lt : ∀ v ∈ C.toComps x, v < C.p
  of_to : C.ofComps (C.toComps x) = x

/-- what the theorems assume about the coordinate field, its square root and its lexicographic order -/
structure Codec.OK (C : Codec α) : Prop where
  c_pos : 0 < C.c
  k_le : C.L.k ≤ 8 * C.fb
  p_le : C.p ≤ C.shift
  p_pos : 0 < C.p
  to_of : ∀ l : List Nat, l.length = C.c → (∀ v ∈ l, v < C.p) → C.toComps (C.ofComps l) = l
  zero_comps : C.toComps C.zero = List.replicate C.c 0
  of_zeros : C.ofComps (List.replicate C.c 0) = C.zero
  sqrt_sound : ∀ x y, C.Valid x → C.sqrt (C.rhs x) = some y → C.sq y = C.rhs x ∧ C.Valid y
  sqrt_complete : ∀ x, C.Valid x → C.sqrt (C.rhs x) = none → ∀ y, C.Valid y → C.sq y ≠ C.rhs x
  two_roots : ∀ y y', C.Valid y → C.Valid y' → C.sq y = C.sq y' → y' = y ∨ y' = C.neg y
  neg_valid : ∀ y, C.Valid y → C.Valid (C.neg y)
  sq_neg : ∀ y, C.sq (C.neg y) = C.sq y
  neg_zero : C.neg C.zero = C.zero
  lex_neg : ∀ y, C.Valid y → y ≠ C.zero → C.lex (C.neg y) = !C.lex y
  lex_zero : C.lex C.zero = false
  origin_off : C.sq C.zero ≠ C.rhs C.zero

namespace Codec
variable {C : Codec α}

theorem OK.shift_mul (h : C.OK) : C.shift * 2 ^ C.L.k = 256 ^ C.fb := by
  unfold Codec.shift
  rw [← pow_add, Nat.sub_add_cancel h.k_le, show (256 : Nat) = 2 ^ 8 by norm_num, ← pow_mul]

theorem OK.shift_pos (_h : C.OK) : 0 < C.shift := by unfold Codec.shift; positivity

theorem OK.p_lt (h : C.OK) {v : Nat} (hv : v < C.p) : v < 256 ^ C.fb := by
  have h1 := h.p_le
  have h2 := h.shift_mul
  have h3 : 1 ≤ 2 ^ C.L.k := Nat.one_le_two_pow
  nlinarith

/-- build → parse -/
theorem parseFrame_buildFrame (h : C.OK) (fl : Flag) (x0 : Nat) (tl ys : List Nat) (rest : List UInt8)
    (hlen : (x0 :: tl).length = C.c) (hx0 : x0 < C.shift) (htl : ∀ v ∈ tl, v < 256 ^ C.fb)
    (hcl : C.L.classify (C.L.code fl) = fl) (hb : fl ≠ .bad)
    (hys : if fl = .unc ∨ fl = .uncInf then ys.length = C.c ∧ ∀ v ∈ ys, v < 256 ^ C.fb else ys = []) :
    C.parseFrame (C.buildFrame fl (x0 :: tl) ys ++ rest) =
      .ok (fl, x0 :: tl, ys, if fl = .unc ∨ fl = .uncInf then 2 * C.nbC else C.nbC) := by
  have hcode := classify_code C.L fl hcl hb
  have hsm := h.shift_mul
  have hsp := h.shift_pos
  have hn0 : C.L.code fl * C.shift + x0 < 256 ^ C.fb := by
    rw [← hsm]
    have : C.L.code fl + 1 ≤ 2 ^ C.L.k := hcode
    nlinarith
  have hdiv : (C.L.code fl * C.shift + x0) / C.shift = C.L.code fl := by
    rw [Nat.mul_comm, Nat.mul_add_div hsp, Nat.div_eq_of_lt hx0, Nat.add_zero]
  have hmod : (C.L.code fl * C.shift + x0) % C.shift = x0 := by
    rw [Nat.mul_comm, Nat.mul_add_mod, Nat.mod_eq_of_lt hx0]
  have hall : ∀ v ∈ (C.L.code fl * C.shift + x0) :: tl, v < 256 ^ C.fb := by
    intro v hv
    rcases List.mem_cons.mp hv with rfl | hv
    · exact hn0
    · exact htl v hv
  have hlen' : ((C.L.code fl * C.shift + x0) :: tl).length = C.c := by simpa using hlen
  have hread : readComps C.fb C.c (C.buildFrame fl (x0 :: tl) ys ++ rest) = (C.L.code fl * C.shift + x0) :: tl := by
    unfold Codec.buildFrame
    rw [List.append_assoc, ← hlen']
    exact readComps_writeComps C.fb _ hall _
  have hlenb : (C.buildFrame fl (x0 :: tl) ys ++ rest).length = C.nbC + ys.length * C.fb + rest.length := by
    unfold Codec.buildFrame Codec.nbC
    simp only [List.length_append, writeComps_length, List.length_cons]
    rw [← hlen]; simp
  unfold Codec.parseFrame
  rw [hread]
  simp only [hdiv, hmod, hcl]
  rw [if_neg (by rw [hlenb]; omega)]
  by_cases hk : fl = .unc ∨ fl = .uncInf
  · rw [if_pos hk] at hys ⊢
    obtain ⟨hyl, hyb⟩ := hys
    have hdrop : List.drop C.nbC (C.buildFrame fl (x0 :: tl) ys ++ rest) = writeComps C.fb ys ++ rest := by
      unfold Codec.buildFrame
      rw [List.append_assoc, List.drop_append_of_le_length (by simp [Codec.nbC, ← hlen])]
      rw [List.drop_of_length_le (by simp [Codec.nbC, ← hlen])]
      rfl
    have hry : readComps C.fb C.c (writeComps C.fb ys ++ rest) = ys := by
      rw [← hyl]; exact readComps_writeComps C.fb ys hyb rest
    have hl2 : ¬ (C.buildFrame fl (x0 :: tl) ys ++ rest).length < 2 * C.nbC := by
      rw [hlenb, hyl]; unfold Codec.nbC; omega
    rcases hk with rfl | rfl
    · simp only [hl2, if_false, hdrop, hry]
    · simp only [hl2, if_false, hdrop, hry]
  · rw [if_neg hk] at hys ⊢
    subst hys
    cases fl <;> simp_all

/-- what a successfully parsed frame looks like -/
structure FrameOK (C : Codec α) (buf : List UInt8) (fl : Flag) (xs ys : List Nat) (n : Nat) : Prop where
  le : n ≤ buf.length
  not_bad : fl ≠ .bad
  code : C.L.classify (C.L.code fl) = fl
  xlen : xs.length = C.c
  x0 : ∃ x0 tl, xs = x0 :: tl ∧ x0 < C.shift
  take : buf.take n = C.buildFrame fl xs ys
  unc : (fl = .unc ∨ fl = .uncInf) → n = 2 * C.nbC ∧ ys.length = C.c
  comp : ¬ (fl = .unc ∨ fl = .uncInf) → n = C.nbC ∧ ys = []
  tl_lt : ∀ v ∈ xs.tail, v < 256 ^ C.fb
  ys_lt : ∀ v ∈ ys, v < 256 ^ C.fb

theorem parseFrame_ok (h : C.OK) (buf : List UInt8) (fl : Flag) (xs ys : List Nat) (n : Nat)
    (hp : C.parseFrame buf = .ok (fl, xs, ys, n)) : FrameOK C buf fl xs ys n := by
  unfold Codec.parseFrame at hp
  by_cases hlen : buf.length < C.nbC
  · simp [hlen] at hp
  rw [if_neg hlen] at hp
  have hlen' : C.c * C.fb ≤ buf.length := by unfold Codec.nbC at hlen; omega
  have hrl := readComps_length C.fb C.c buf
  have hrlt := readComps_lt C.fb C.c buf hlen'
  have hwr := writeComps_readComps C.fb C.c buf hlen'
  generalize hrc : readComps C.fb C.c buf = rc at hp hrl hrlt hwr
  cases rc with
  | nil => simp at hp
  | cons n0 tl =>
    simp only at hp
    have hsp := h.shift_pos
    have hsm := h.shift_mul
    have hn0 : n0 < 256 ^ C.fb := hrlt n0 (by simp)
    have hflag : n0 / C.shift < 2 ^ C.L.k := by
      rw [Nat.div_lt_iff_lt_mul hsp, Nat.mul_comm, hsm]; exact hn0
    have hmodlt : n0 % C.shift < C.shift := Nat.mod_lt _ hsp
    have hsplit : n0 / C.shift * C.shift + n0 % C.shift = n0 := Nat.div_add_mod' n0 C.shift
    -- the compressed-size prefix re-encodes from the flag and the masked first component
    have hpre : ∀ fl, C.L.classify (n0 / C.shift) = fl → fl ≠ .bad →
        writeComps C.fb ((C.L.code fl * C.shift + n0 % C.shift) :: tl) = buf.take C.nbC := by
      intro fl hfl hb
      have := code_classify C.L (n0 / C.shift) hflag (by rw [hfl]; exact hb)
      rw [hfl] at this
      rw [this, hsplit, hwr]; rfl
    have hcode : ∀ fl, C.L.classify (n0 / C.shift) = fl → fl ≠ .bad → C.L.classify (C.L.code fl) = fl := by
      intro fl hfl hb
      have := code_classify C.L (n0 / C.shift) hflag (by rw [hfl]; exact hb)
      rw [hfl] at this
      rw [this, hfl]
    have hxlen : ((n0 % C.shift) :: tl).length = C.c := by simpa using hrl
    have hnb : C.nbC ≤ buf.length := by omega
    -- uncompressed kinds
    have hunc : ∀ fl, (fl = .unc ∨ fl = .uncInf) → C.L.classify (n0 / C.shift) = fl →
        ¬ buf.length < 2 * C.nbC →
        FrameOK C buf fl ((n0 % C.shift) :: tl) (readComps C.fb C.c (buf.drop C.nbC)) (2 * C.nbC) := by
      intro fl hk hfl hl2
      have hb : fl ≠ .bad := by rcases hk with rfl | rfl <;> simp
      have hdl : C.c * C.fb ≤ (buf.drop C.nbC).length := by
        rw [List.length_drop]; unfold Codec.nbC at hl2 ⊢; omega
      refine ⟨by omega, hb, hcode fl hfl hb, hxlen, ⟨_, _, rfl, hmodlt⟩, ?_, fun _ => ⟨rfl, by simp⟩,
        fun hn => absurd hk hn, fun v hv => hrlt v (by simp at hv; simp [hv]),
        readComps_lt C.fb C.c _ hdl⟩
      simp only [Codec.buildFrame]
      rw [hpre fl hfl hb, writeComps_readComps C.fb C.c _ hdl]
      rw [show 2 * C.nbC = C.nbC + C.nbC by ring, List.take_add]; rfl
    have hcomp : ∀ fl, ¬ (fl = .unc ∨ fl = .uncInf) → fl ≠ .bad → C.L.classify (n0 / C.shift) = fl →
        FrameOK C buf fl ((n0 % C.shift) :: tl) [] C.nbC := by
      intro fl hk hb hfl
      refine ⟨hnb, hb, hcode fl hfl hb, hxlen, ⟨_, _, rfl, hmodlt⟩, ?_, fun hn => absurd hn hk, fun _ => ⟨rfl, rfl⟩,
        fun v hv => hrlt v (by simp at hv; simp [hv]), by simp⟩
      simp only [Codec.buildFrame]
      rw [hpre fl hfl hb]; simp [writeComps]
    generalize hcl : C.L.classify (n0 / C.shift) = cl at hp
    cases cl
    · -- unc
      by_cases hl2 : buf.length < 2 * C.nbC
      · simp [hl2] at hp
      · simp only [hl2, if_false] at hp
        injection hp with hp; injection hp with h1 hp; injection hp with h2 hp; injection hp with h3 h4
        subst h1 h2 h3 h4
        exact hunc _ (Or.inl rfl) hcl hl2
    · -- uncInf
      by_cases hl2 : buf.length < 2 * C.nbC
      · simp [hl2] at hp
      · simp only [hl2, if_false] at hp
        injection hp with hp; injection hp with h1 hp; injection hp with h2 hp; injection hp with h3 h4
        subst h1 h2 h3 h4
        exact hunc _ (Or.inr rfl) hcl hl2
    · injection hp with hp; injection hp with h1 hp; injection hp with h2 hp; injection hp with h3 h4
      subst h1 h2 h3 h4
      exact hcomp _ (by simp) (by simp) hcl
    · injection hp with hp; injection hp with h1 hp; injection hp with h2 hp; injection hp with h3 h4
      subst h1 h2 h3 h4
      exact hcomp _ (by simp) (by simp) hcl
    · injection hp with hp; injection hp with h1 hp; injection hp with h2 hp; injection hp with h3 h4
      subst h1 h2 h3 h4
      exact hcomp _ (by simp) (by simp) hcl
    · simp at hp

/-- a parsed frame depends only on the bytes it consumed -/
theorem parseFrame_local (h : C.OK) (buf : List UInt8) (fl : Flag) (xs ys : List Nat) (n : Nat)
    (hp : C.parseFrame buf = .ok (fl, xs, ys, n)) (rest : List UInt8) :
    C.parseFrame (buf.take n ++ rest) = .ok (fl, xs, ys, n) := by
  have hf := parseFrame_ok h buf fl xs ys n hp
  obtain ⟨x0, tl, rfl, hx0⟩ := hf.x0
  rw [hf.take]
  have := parseFrame_buildFrame h fl x0 tl ys rest hf.xlen hx0 (by simpa using hf.tl_lt) hf.code hf.not_bad
    (by
      by_cases hk : fl = .unc ∨ fl = .uncInf
      · rw [if_pos hk]; exact ⟨(hf.unc hk).2, hf.ys_lt⟩
      · rw [if_neg hk]; exact (hf.comp hk).2)
  rw [this]
  by_cases hk : fl = .unc ∨ fl = .uncInf
  · rw [if_pos hk, (hf.unc hk).1]
  · rw [if_neg hk, (hf.comp hk).1]

/-! ## the two validation phases -/

theorem allLt_iff (p : Nat) (l : List Nat) : allLt p l = true ↔ ∀ v ∈ l, v < p := by
  simp [allLt, List.all_eq_true]

theorem allZero_iff (l : List Nat) : allZero l = true ↔ l = List.replicate l.length 0 := by
  induction l with
  | nil => simp [allZero]
  | cons x xs ih =>
    simp only [allZero, List.all_cons, Bool.and_eq_true, beq_iff_eq, List.length_cons, List.replicate_succ,
      List.cons.injEq] at ih ⊢
    rw [ih]

theorem valid_ofComps (h : C.OK) (l : List Nat) (hl : l.length = C.c) (hlt : ∀ v ∈ l, v < C.p) :
    C.Valid (C.ofComps l) ∧ C.toComps (C.ofComps l) = l := by
  have ht := h.to_of l hl hlt
  exact ⟨⟨by rw [ht]; exact hl, by rw [ht]; exact hlt, by rw [ht]⟩, ht⟩

theorem valid_zero (h : C.OK) : C.Valid C.zero := by
  refine ⟨by rw [h.zero_comps]; simp, ?_, by rw [h.zero_comps, h.of_zeros]⟩
  intro v hv
  rw [h.zero_comps] at hv
  rw [List.eq_of_mem_replicate hv]
  exact h.p_pos

/-- `setBytes` succeeds exactly when the three stages do -/
theorem setBytes_ok_iff (sub : Bool) (buf : List UInt8) (P : Pt α) (n : Nat) :
    C.setBytes sub buf = .ok (P, n) ↔
      ∃ fl xs ys pd, C.parseFrame buf = .ok (fl, xs, ys, n) ∧ C.phase1 fl xs ys = .ok pd ∧ C.phase2 sub pd = .ok P := by
  unfold Codec.setBytes
  constructor
  · intro hs
    cases hpf : C.parseFrame buf with
    | error e => rw [hpf] at hs; simp at hs
    | ok fr =>
      obtain ⟨fl, xs, ys, n'⟩ := fr
      rw [hpf] at hs
      simp only at hs
      cases hp1 : C.phase1 fl xs ys with
      | error e => rw [hp1] at hs; simp at hs
      | ok pd =>
        rw [hp1] at hs
        simp only at hs
        cases hp2 : C.phase2 sub pd with
        | error e => rw [hp2] at hs; simp at hs
        | ok P' =>
          rw [hp2] at hs
          simp only at hs
          injection hs with hs
          injection hs with h1 h2
          subst h1 h2
          exact ⟨fl, xs, ys, pd, rfl, hp1, hp2⟩
  · rintro ⟨fl, xs, ys, pd, h1, h2, h3⟩
    rw [h1]; simp only; rw [h2]; simp only; rw [h3]

/-- a valid group element: infinity, or canonical coordinates on the curve (and in the subgroup when checked) -/
def Good (C : Codec α) (sub : Bool) : Pt α → Prop
  | none => True
  | some (x, y) => C.Valid x ∧ C.Valid y ∧ C.sq y = C.rhs x ∧ (sub = true → C.inSub (x, y) = true)

theorem zeros_eq (h : C.OK) : C.zeros = 0 :: List.replicate (C.c - 1) 0 := by
  unfold Codec.zeros
  have := h.c_pos
  rw [show C.c = (C.c - 1) + 1 by omega, List.replicate_succ]; simp

theorem valid_comps (h : C.OK) {x : α} (hx : C.Valid x) :
    ∃ x0 tl, C.toComps x = x0 :: tl ∧ (x0 :: tl).length = C.c ∧ x0 < C.shift ∧ (∀ v ∈ tl, v < 256 ^ C.fb) ∧
      (∀ v ∈ x0 :: tl, v < 256 ^ C.fb) := by
  have hl := hx.len
  have hc := h.c_pos
  cases hcx : C.toComps x with
  | nil => rw [hcx] at hl; simp at hl; omega
  | cons x0 tl =>
    have hlt := hx.lt
    rw [hcx] at hlt hl
    refine ⟨x0, tl, rfl, hl, lt_of_lt_of_le (hlt x0 (by simp)) h.p_le, ?_, ?_⟩
    · intro v hv; exact h.p_lt (hlt v (by simp [hv]))
    · intro v hv; exact h.p_lt (hlt v hv)

theorem not_origin (h : C.OK) {x y : α} (hc : C.sq y = C.rhs x) : ¬ (x = C.zero ∧ y = C.zero) := by
  rintro ⟨rfl, rfl⟩
  exact h.origin_off hc

theorem code_compressed (hL : C.L ≠ .raw) (fl : Flag) (hfl : fl = .small ∨ fl = .large ∨ fl = .cInf) :
    C.L.classify (C.L.code fl) = fl := by
  rcases hfl with rfl | rfl | rfl <;> cases hC : C.L <;> simp_all [Layout.code, Layout.classify]

theorem code_unc (L : Layout) : L.classify (L.code .unc) = .unc := by
  cases L <;> rfl

theorem code_rawInf (L : Layout) : L.classify (L.code L.rawInf) = L.rawInf := by
  cases L <;> rfl

/-! ### round trip -/

theorem roundtrip_inf_compressed (h : C.OK) (hL : C.L ≠ .raw) (sub : Bool) (rest : List UInt8) :
    C.setBytes sub (C.buildFrame .cInf C.zeros [] ++ rest) = .ok (none, C.nbC) := by
  rw [setBytes_ok_iff]
  refine ⟨.cInf, C.zeros, [], .done none, ?_, ?_, rfl⟩
  · rw [zeros_eq h]
    have := parseFrame_buildFrame h .cInf 0 (List.replicate (C.c - 1) 0) [] rest
      (by have := h.c_pos; simp; omega) h.shift_pos
      (by intro v hv; rw [List.eq_of_mem_replicate hv]; positivity)
      (code_compressed hL _ (by simp)) (by simp) (by simp)
    simpa using this
  · simp [Codec.phase1, Codec.zeros, allZero]

theorem roundtrip_compressed (h : C.OK) (hL : C.L ≠ .raw) (sub : Bool) (P : Pt α) (hP : C.Good sub P)
    (rest : List UInt8) : C.setBytes sub (C.encCompressed P ++ rest) = .ok (P, C.nbC) := by
  cases P with
  | none => exact roundtrip_inf_compressed h hL sub rest
  | some xy =>
    obtain ⟨x, y⟩ := xy
    obtain ⟨hx, hy, hc, hs⟩ := hP
    have hno := not_origin h hc
    simp only [Codec.encCompressed]
    rw [if_neg hno]
    obtain ⟨x0, tl, hcx, hlen, hx0, htl, _⟩ := valid_comps h hx
    rw [setBytes_ok_iff]
    set fl : Flag := if C.lex y then Flag.large else Flag.small with hfl
    have hflk : fl = .small ∨ fl = .large ∨ fl = .cInf := by
      rw [hfl]; split <;> simp
    have hnk : ¬ (fl = .unc ∨ fl = .uncInf) := by
      rw [hfl]; split <;> simp
    have hnb : fl ≠ .bad := by rw [hfl]; split <;> simp
    refine ⟨fl, C.toComps x, [], .comp x (C.lex y), ?_, ?_, ?_⟩
    · rw [hcx]
      have := parseFrame_buildFrame h fl x0 tl [] rest hlen hx0 htl (code_compressed hL fl hflk) hnb
        (by rw [if_neg hnk])
      rw [if_neg hnk] at this
      exact this
    · have hall : allLt C.p (C.toComps x) = true := (allLt_iff _ _).mpr hx.lt
      rw [hfl]
      by_cases hl : C.lex y = true
      · simp [hl, Codec.phase1, hall, hx.of_to]
      · have hl' : C.lex y = false := by simpa using hl
        simp [hl', Codec.phase1, hall, hx.of_to]
    · unfold Codec.phase2
      cases hsq : C.sqrt (C.rhs x) with
      | none => exact absurd hc (h.sqrt_complete x hx hsq y hy)
      | some y0 =>
        obtain ⟨hc0, hy0⟩ := h.sqrt_sound x y0 hx hsq
        simp only [hsq]
        -- the sign choice recovers y
        have hyy : (if C.lex y0 = C.lex y then y0 else C.neg y0) = y := by
          rcases h.two_roots y0 y hy0 hy (by rw [hc0, hc]) with rfl | hneg
          · simp
          · by_cases hz : y0 = C.zero
            · subst hz; rw [h.neg_zero] at hneg; subst hneg; simp
            · have := h.lex_neg y0 hy0 hz
              rw [← hneg] at this
              rw [this, hneg]
              cases C.lex y0 <;> simp
        rw [hyy]
        have hsub : (sub && !C.inSub (x, y)) = false := by
          cases sub
          · rfl
          · simp [hs rfl]
        simp [hsub, Codec.mkPt, hno]

theorem roundtrip_raw (h : C.OK) (sub : Bool) (P : Pt α) (hP : C.Good sub P) (rest : List UInt8) :
    C.setBytes sub (C.encRaw P ++ rest) = .ok (P, 2 * C.nbC) := by
  have hinf : C.setBytes sub (C.buildFrame C.L.rawInf C.zeros C.zeros ++ rest) = .ok (none, 2 * C.nbC) := by
    rw [setBytes_ok_iff]
    have hk : C.L.rawInf = .unc ∨ C.L.rawInf = .uncInf := by cases C.L <;> simp [Layout.rawInf]
    have hzl : C.zeros.length = C.c := by simp [Codec.zeros]
    have hzlt : ∀ v ∈ C.zeros, v < 256 ^ C.fb := by
      intro v hv; rw [List.eq_of_mem_replicate hv]; positivity
    have hpf : C.parseFrame (C.buildFrame C.L.rawInf C.zeros C.zeros ++ rest) =
        .ok (C.L.rawInf, C.zeros, C.zeros, 2 * C.nbC) := by
      have := parseFrame_buildFrame h C.L.rawInf 0 (List.replicate (C.c - 1) 0) C.zeros rest
        (by have := h.c_pos; simp; omega) h.shift_pos
        (by intro v hv; rw [List.eq_of_mem_replicate hv]; positivity)
        (code_rawInf C.L) (by cases C.L <;> simp [Layout.rawInf]) (by rw [if_pos hk]; exact ⟨hzl, hzlt⟩)
      rw [if_pos hk, ← zeros_eq h] at this
      exact this
    have hz0 : allZero C.zeros = true := by simp [Codec.zeros, allZero]
    have hzp : allLt C.p C.zeros = true := by
      rw [allLt_iff]; intro v hv; rw [List.eq_of_mem_replicate hv]; exact h.p_pos
    have hzp' : allLt C.p (List.replicate C.c 0) = true := hzp
    have hph : ∃ pd, C.phase1 C.L.rawInf C.zeros C.zeros = .ok pd ∧ C.phase2 sub pd = .ok none := by
      cases C.L with
      | three => exact ⟨.done none, by simp [Layout.rawInf, Codec.phase1, hz0], rfl⟩
      | two =>
        exact ⟨.unc C.zero C.zero, by simp [Layout.rawInf, Codec.phase1, hzp', Codec.zeros, h.of_zeros],
          by simp [Codec.phase2]⟩
      | raw =>
        exact ⟨.unc C.zero C.zero, by simp [Layout.rawInf, Codec.phase1, hzp', Codec.zeros, h.of_zeros],
          by simp [Codec.phase2]⟩
    obtain ⟨pd, hp1, hp2⟩ := hph
    exact ⟨_, _, _, pd, hpf, hp1, hp2⟩
  cases P with
  | none => exact hinf
  | some xy =>
    obtain ⟨x, y⟩ := xy
    obtain ⟨hx, hy, hc, hs⟩ := hP
    have hno := not_origin h hc
    simp only [Codec.encRaw]
    rw [if_neg hno]
    obtain ⟨x0, tl, hcx, hlen, hx0, htl, _⟩ := valid_comps h hx
    obtain ⟨_, _, hcy, _, _, _, hyall⟩ := valid_comps h hy
    rw [setBytes_ok_iff]
    refine ⟨.unc, C.toComps x, C.toComps y, .unc x y, ?_, ?_, ?_⟩
    · rw [hcx]
      have := parseFrame_buildFrame h .unc x0 tl (C.toComps y) rest hlen hx0 htl (code_unc C.L) (by simp)
        (by simp only [true_or, if_true]; exact ⟨hy.len, by rw [hcy]; exact hyall⟩)
      simpa using this
    · have hax : allLt C.p (C.toComps x) = true := (allLt_iff _ _).mpr hx.lt
      have hay : allLt C.p (C.toComps y) = true := (allLt_iff _ _).mpr hy.lt
      simp [Codec.phase1, hax, hay, hx.of_to, hy.of_to]
    · have hsub : (sub && !C.inSub (x, y)) = false := by
        cases sub
        · rfl
        · simp [hs rfl]
      simp [Codec.phase2, hno, hc, hsub]

/-! ### acceptance and canonicity -/

theorem phase1_ok (fl : Flag) (xs ys : List Nat) (pd : Pending α) (hp : C.phase1 fl xs ys = .ok pd) :
    (fl = .cInf ∧ allZero xs = true ∧ pd = .done none) ∨
    (fl = .uncInf ∧ allZero xs = true ∧ allZero ys = true ∧ pd = .done none) ∨
    (fl = .unc ∧ allLt C.p xs = true ∧ allLt C.p ys = true ∧ pd = .unc (C.ofComps xs) (C.ofComps ys)) ∨
    (fl = .small ∧ allLt C.p xs = true ∧ pd = .comp (C.ofComps xs) false) ∨
    (fl = .large ∧ allLt C.p xs = true ∧ pd = .comp (C.ofComps xs) true) := by
  cases fl <;> simp only [Codec.phase1] at hp
  · -- unc
    by_cases hc : (allLt C.p xs && allLt C.p ys) = true
    · rw [if_pos hc] at hp; injection hp with hp
      simp only [Bool.and_eq_true] at hc
      exact Or.inr (Or.inr (Or.inl ⟨rfl, hc.1, hc.2, hp.symm⟩))
    · rw [if_neg hc] at hp; cases hp
  · by_cases hc : (allZero xs && allZero ys) = true
    · rw [if_pos hc] at hp; injection hp with hp
      simp only [Bool.and_eq_true] at hc
      exact Or.inr (Or.inl ⟨rfl, hc.1, hc.2, hp.symm⟩)
    · rw [if_neg hc] at hp; cases hp
  · by_cases hc : allLt C.p xs = true
    · rw [if_pos hc] at hp; injection hp with hp
      exact Or.inr (Or.inr (Or.inr (Or.inl ⟨rfl, hc, hp.symm⟩)))
    · rw [if_neg hc] at hp; cases hp
  · by_cases hc : allLt C.p xs = true
    · rw [if_pos hc] at hp; injection hp with hp
      exact Or.inr (Or.inr (Or.inr (Or.inr ⟨rfl, hc, hp.symm⟩)))
    · rw [if_neg hc] at hp; cases hp
  · by_cases hc : allZero xs = true
    · rw [if_pos hc] at hp; injection hp with hp
      exact Or.inl ⟨rfl, hc, hp.symm⟩
    · rw [if_neg hc] at hp; cases hp
  · cases hp

theorem phase2_unc_ok (sub : Bool) (x y : α) (P : Pt α) (hp : C.phase2 sub (.unc x y) = .ok P) :
    (x = C.zero ∧ y = C.zero ∧ P = none) ∨
    (¬ (x = C.zero ∧ y = C.zero) ∧ C.sq y = C.rhs x ∧ (sub = true → C.inSub (x, y) = true) ∧ P = some (x, y)) := by
  simp only [Codec.phase2] at hp
  by_cases h0 : x = C.zero ∧ y = C.zero
  · rw [if_pos h0] at hp; injection hp with hp
    exact Or.inl ⟨h0.1, h0.2, hp.symm⟩
  · rw [if_neg h0] at hp
    by_cases hc : C.sq y ≠ C.rhs x
    · rw [if_pos hc] at hp; cases hp
    · rw [if_neg hc] at hp
      by_cases hs : (sub && !C.inSub (x, y)) = true
      · rw [if_pos hs] at hp; cases hp
      · rw [if_neg hs] at hp; injection hp with hp
        refine Or.inr ⟨h0, by simpa using hc, ?_, hp.symm⟩
        intro hsub; subst hsub
        simpa using hs

theorem phase2_comp_ok (sub : Bool) (x : α) (large : Bool) (P : Pt α)
    (hp : C.phase2 sub (.comp x large) = .ok P) :
    ∃ y0 y, C.sqrt (C.rhs x) = some y0 ∧ (y = y0 ∨ y = C.neg y0) ∧ (sub = true → C.inSub (x, y) = true) ∧
      C.lex y = large ∧ P = C.mkPt x y := by
  simp only [Codec.phase2] at hp
  cases hsq : C.sqrt (C.rhs x) with
  | none => rw [hsq] at hp; cases hp
  | some y0 =>
    rw [hsq] at hp
    simp only at hp
    refine ⟨y0, if C.lex y0 = large then y0 else C.neg y0, rfl, by split <;> simp, ?_⟩
    by_cases hs : (sub && !C.inSub (x, if C.lex y0 = large then y0 else C.neg y0)) = true
    · rw [if_pos hs] at hp; cases hp
    · rw [if_neg hs] at hp
      by_cases hl : C.lex (if C.lex y0 = large then y0 else C.neg y0) ≠ large
      · rw [if_pos hl] at hp; cases hp
      · rw [if_neg hl] at hp; injection hp with hp
        refine ⟨?_, by simpa using hl, hp.symm⟩
        intro hsub; subst hsub
        simpa using hs

theorem allZero_len {l : List Nat} {n : Nat} (hz : allZero l = true) (hl : l.length = n) : l = List.replicate n 0 := by
  rw [← hl]; exact (allZero_iff l).mp hz

/-- everything at once about an accepted string -/
theorem accepted (h : C.OK) (sub : Bool) (buf : List UInt8) (P : Pt α) (n : Nat)
    (hs : C.setBytes sub buf = .ok (P, n)) :
    C.Good sub P ∧ n ≤ buf.length ∧
    ((n = C.nbC ∧ buf.take n = C.encCompressed P) ∨ (n = 2 * C.nbC ∧ buf.take n = C.encRaw P) ∨
     (C.L = .three ∧ P = none ∧ n = 2 * C.nbC ∧ buf.take n = List.replicate n 0)) := by
  rw [setBytes_ok_iff] at hs
  obtain ⟨fl, xs, ys, pd, hpf, hp1, hp2⟩ := hs
  have hf := parseFrame_ok h buf fl xs ys n hpf
  refine ⟨?_, hf.le, ?_⟩ <;>
  rcases phase1_ok fl xs ys pd hp1 with ⟨rfl, hzx, rfl⟩ | ⟨rfl, hzx, hzy, rfl⟩ | ⟨rfl, hlx, hly, rfl⟩ |
    ⟨rfl, hlx, rfl⟩ | ⟨rfl, hlx, rfl⟩
  -- Good
  · simp only [Codec.phase2] at hp2; injection hp2 with hp2; subst hp2; trivial
  · simp only [Codec.phase2] at hp2; injection hp2 with hp2; subst hp2; trivial
  · obtain ⟨_, hyl⟩ := hf.unc (Or.inl rfl)
    obtain ⟨hvx, _⟩ := valid_ofComps h xs hf.xlen ((allLt_iff _ _).mp hlx)
    obtain ⟨hvy, _⟩ := valid_ofComps h ys hyl ((allLt_iff _ _).mp hly)
    rcases phase2_unc_ok sub _ _ P hp2 with ⟨_, _, rfl⟩ | ⟨_, hc, hsb, rfl⟩
    · trivial
    · exact ⟨hvx, hvy, hc, hsb⟩
  all_goals first
    | (-- compressed, Good
       obtain ⟨hvx, _⟩ := valid_ofComps h xs hf.xlen ((allLt_iff _ _).mp hlx)
       obtain ⟨y0, y, hsq, hyy, hsb, _, rfl⟩ := phase2_comp_ok sub _ _ P hp2
       obtain ⟨hc0, hvy0⟩ := h.sqrt_sound _ y0 hvx hsq
       have hvy : C.Valid y := by rcases hyy with rfl | rfl; exact hvy0; exact h.neg_valid _ hvy0
       have hcy : C.sq y = C.rhs (C.ofComps xs) := by
         rcases hyy with rfl | rfl; exact hc0; rw [h.sq_neg]; exact hc0
       unfold Codec.mkPt
       split
       · trivial
       · exact ⟨hvx, hvy, hcy, hsb⟩)
    | skip
  -- canonicity
  · -- compressed infinity
    simp only [Codec.phase2] at hp2; injection hp2 with hp2; subst hp2
    obtain ⟨hn, hys⟩ := hf.comp (by simp)
    subst hys
    refine Or.inl ⟨hn, ?_⟩
    rw [hf.take, allZero_len hzx hf.xlen]; rfl
  · -- uncompressed infinity flag
    simp only [Codec.phase2] at hp2; injection hp2 with hp2; subst hp2
    obtain ⟨hn, hyl⟩ := hf.unc (Or.inr rfl)
    refine Or.inr (Or.inl ⟨hn, ?_⟩)
    have hL : C.L.rawInf = .uncInf := by
      have := hf.code
      cases hC : C.L <;> simp_all [Layout.code, Layout.classify, Layout.rawInf]
    rw [hf.take, allZero_len hzx hf.xlen, allZero_len hzy hyl]
    simp [Codec.encRaw, hL, Codec.zeros]
  · -- uncompressed
    obtain ⟨hn, hyl⟩ := hf.unc (Or.inl rfl)
    obtain ⟨hvx, htx⟩ := valid_ofComps h xs hf.xlen ((allLt_iff _ _).mp hlx)
    obtain ⟨hvy, hty⟩ := valid_ofComps h ys hyl ((allLt_iff _ _).mp hly)
    rcases phase2_unc_ok sub _ _ P hp2 with ⟨hx0, hy0, rfl⟩ | ⟨hno, hc, hsb, rfl⟩
    · -- the all-zero string
      have hxs : xs = C.zeros := by rw [← htx, hx0, h.zero_comps]; rfl
      have hys : ys = C.zeros := by rw [← hty, hy0, h.zero_comps]; rfl
      by_cases h3 : C.L = .three
      · refine Or.inr (Or.inr ⟨h3, rfl, hn, ?_⟩)
        rw [hf.take, hxs, hys, zeros_eq h]
        simp only [Codec.buildFrame]
        have hc0 : C.L.code Flag.unc = 0 := by cases C.L <;> rfl
        rw [hc0, Nat.zero_mul, Nat.zero_add, ← List.replicate_succ, ← writeComps_append,
          List.replicate_append_replicate, writeComps_zeros, hn]
        have := h.c_pos
        congr 1
        unfold Codec.nbC
        rw [show C.c - 1 + 1 + (C.c - 1 + 1) = 2 * C.c by omega]; ring
      · refine Or.inr (Or.inl ⟨hn, ?_⟩)
        have hL : C.L.rawInf = .unc := by cases hC : C.L <;> simp_all [Layout.rawInf]
        rw [hf.take, hxs, hys]
        simp [Codec.encRaw, hL]
    · refine Or.inr (Or.inl ⟨hn, ?_⟩)
      rw [hf.take]
      simp only [Codec.encRaw]
      rw [if_neg hno, htx, hty]
  all_goals
    -- compressed
    obtain ⟨hn, hys⟩ := hf.comp (by simp)
    subst hys
    obtain ⟨hvx, htx⟩ := valid_ofComps h xs hf.xlen ((allLt_iff _ _).mp hlx)
    obtain ⟨y0, y, hsq, hyy, hsb, hlex, rfl⟩ := phase2_comp_ok sub _ _ P hp2
    obtain ⟨hc0, hvy0⟩ := h.sqrt_sound _ y0 hvx hsq
    have hcy : C.sq y = C.rhs (C.ofComps xs) := by
      rcases hyy with rfl | rfl; exact hc0; rw [h.sq_neg]; exact hc0
    have hno := not_origin h hcy
    refine Or.inl ⟨hn, ?_⟩
    rw [hf.take]
    unfold Codec.mkPt
    rw [if_neg hno]
    simp only [Codec.encCompressed]
    rw [if_neg hno, htx, hlex]
    simp

theorem accept (h : C.OK) (sub : Bool) (buf : List UInt8) (P : Pt α) (n : Nat)
    (hs : C.setBytes sub buf = .ok (P, n)) :
    C.Good sub P ∧ n ≤ buf.length ∧ (n = C.nbC ∨ n = 2 * C.nbC) := by
  obtain ⟨hg, hle, hc⟩ := accepted h sub buf P n hs
  refine ⟨hg, hle, ?_⟩
  rcases hc with ⟨hn, _⟩ | ⟨hn, _⟩ | ⟨_, _, hn, _⟩
  · exact Or.inl hn
  · exact Or.inr hn
  · exact Or.inr hn

theorem canonical (h : C.OK) (sub : Bool) (buf : List UInt8) (P : Pt α) (n : Nat)
    (hs : C.setBytes sub buf = .ok (P, n)) :
    (n = C.nbC ∧ buf.take n = C.encCompressed P) ∨ (n = 2 * C.nbC ∧ buf.take n = C.encRaw P) ∨
    (C.L = .three ∧ P = none ∧ n = 2 * C.nbC ∧ buf.take n = List.replicate n 0) :=
  (accepted h sub buf P n hs).2.2

end Codec

end GV.PointCodec
