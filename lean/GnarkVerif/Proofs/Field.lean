import GnarkVerif.Model.Field
import Mathlib.Data.ZMod.Basic
import Mathlib.Tactic.Ring
import Mathlib.Tactic.Linarith
import Mathlib.FieldTheory.Finite.Basic
import Mathlib.NumberTheory.LegendreSymbol.Basic
import Mathlib.Tactic.NormNum.Prime
import GnarkVerif.Gen.Fields
/-
Helper lemmas for C01 (property theorems are in Props/C01.lean).
-/
namespace GV.Field

/-- well-formed parameter sets: odd modulus `1 < q < R = 2^(w·n)`, `q·qInvNeg ≡ -1 (mod 2^w)` -/
structure Params.OK (p : Params) : Prop where
  q_gt : 1 < p.q
  q_odd : p.q % 2 = 1
  w_pos : 0 < p.w
  n_pos : 0 < p.n
  q_lt_R : p.q < p.R
  qinv : (p.q * p.qInvNeg) % p.W = p.W - 1
  qinv_lt : p.qInvNeg < p.W

theorem Params.W_pos (p : Params) : 0 < p.W := Nat.two_pow_pos _
theorem Params.R_pos (p : Params) : 0 < p.R := Nat.two_pow_pos _
theorem Params.R_eq (p : Params) : p.R = p.W ^ p.n := by
  simp [Params.R, Params.W, pow_mul]

variable (p : Params)

/-! ### 1. one CIOS iteration -/

theorem cios_exact (h : p.OK) (t1 : Nat) :
    (t1 + ((t1 % p.W) * p.qInvNeg % p.W) * p.q) % p.W = 0 := by
  have hW := p.W_pos
  have a : (t1 % p.W) * p.qInvNeg % p.W ≡ t1 * p.qInvNeg [MOD p.W] :=
    (Nat.mod_modEq _ _).trans ((Nat.mod_modEq _ _).mul_right _)
  have c : p.q * p.qInvNeg ≡ p.W - 1 [MOD p.W] := by
    unfold Nat.ModEq; rw [h.qinv, Nat.mod_eq_of_lt (by omega)]
  have h1 : ((t1 % p.W) * p.qInvNeg % p.W) * p.q ≡ t1 * (p.W - 1) [MOD p.W] :=
    calc _ ≡ t1 * p.qInvNeg * p.q [MOD p.W] := a.mul_right _
      _ = t1 * (p.q * p.qInvNeg) := by ring
      _ ≡ t1 * (p.W - 1) [MOD p.W] := c.mul_left _
  have h2 : t1 + t1 * (p.W - 1) = t1 * p.W := by
    obtain ⟨k, hk⟩ : ∃ k, p.W = k + 1 := ⟨p.W - 1, by omega⟩
    rw [hk, Nat.add_sub_cancel]; ring
  have h3 : t1 + ((t1 % p.W) * p.qInvNeg % p.W) * p.q ≡ t1 * p.W [MOD p.W] := by
    rw [← h2]; exact h1.add_left _
  rw [h3]; exact Nat.mul_mod_left _ _

theorem ciosStep_mul_W (h : p.OK) (x t yi : Nat) :
    ciosStep p x t yi * p.W
      = t + x * yi + ((t + x * yi) % p.W * p.qInvNeg % p.W) * p.q := by
  unfold ciosStep
  exact Nat.div_mul_cancel (Nat.dvd_of_mod_eq_zero (cios_exact p h _))

theorem ciosStep_lt (h : p.OK) (x t yi : Nat) (ht : t < 2 * p.q) (hx : x < p.q) (hy : yi < p.W) :
    ciosStep p x t yi < 2 * p.q := by
  have hW := p.W_pos
  unfold ciosStep
  apply Nat.div_lt_of_lt_mul
  have hm : (t + x * yi) % p.W * p.qInvNeg % p.W ≤ p.W - 1 := by
    have := Nat.mod_lt ((t + x * yi) % p.W * p.qInvNeg) hW; omega
  have h1 : x * yi ≤ (p.q - 1) * (p.W - 1) := Nat.mul_le_mul (by omega) (by omega)
  have h2 : (t + x * yi) % p.W * p.qInvNeg % p.W * p.q ≤ (p.W - 1) * p.q :=
    Nat.mul_le_mul_right _ hm
  obtain ⟨k, hk⟩ : ∃ k, p.W = k + 1 := ⟨p.W - 1, by omega⟩
  obtain ⟨j, hj⟩ : ∃ j, p.q = j + 1 := ⟨p.q - 1, by have := h.q_gt; omega⟩
  rw [hk, hj] at h1 h2 ⊢
  simp only [Nat.add_sub_cancel] at h1 h2
  rw [hj] at ht
  nlinarith

/-! ### 2. the word-serial Montgomery product -/

theorem word_lt (y i : Nat) : word p y i < p.W := Nat.mod_lt _ p.W_pos

/-- the CIOS accumulator after `i` words -/
def montIter (x y : Nat) (i : Nat) : Nat :=
  (List.range i).foldl (fun t i => ciosStep p x t (word p y i)) 0

theorem montIter_succ (x y i : Nat) :
    montIter p x y (i+1) = ciosStep p x (montIter p x y i) (word p y i) := by
  simp [montIter, List.range_succ, List.foldl_append]

theorem montRaw_eq (x y : Nat) : montRaw p x y = montIter p x y p.n := rfl

/-- CIOS loop invariant: after `i` words `t < 2q` and `t·W^i ≡ x·(y mod W^i) (mod q)` -/
theorem montIter_inv (h : p.OK) (x y : Nat) (hx : x < p.q) (i : Nat) :
    montIter p x y i < 2 * p.q ∧
      montIter p x y i * p.W ^ i ≡ x * (y % p.W ^ i) [MOD p.q] := by
  induction i with
  | zero =>
    have := h.q_gt
    simp [montIter, Nat.mod_one]; exact ⟨by omega, rfl⟩
  | succ i ih =>
    obtain ⟨ih1, ih2⟩ := ih
    rw [montIter_succ]
    refine ⟨ciosStep_lt p h _ _ _ ih1 hx (word_lt p y i), ?_⟩
    have e1 : ciosStep p x (montIter p x y i) (word p y i) * p.W ^ (i+1)
        = (montIter p x y i * p.W ^ i + x * (p.W ^ i * word p y i))
          + ((montIter p x y i + x * word p y i) % p.W * p.qInvNeg % p.W) * p.W ^ i * p.q := by
      rw [pow_succ, ← Nat.mul_assoc, Nat.mul_right_comm, ciosStep_mul_W p h]; ring
    have e2 : y % p.W ^ (i+1) = y % p.W ^ i + p.W ^ i * word p y i := Nat.mod_pow_succ
    rw [e1, e2, Nat.mul_add]
    have z : ((montIter p x y i + x * word p y i) % p.W * p.qInvNeg % p.W) * p.W ^ i * p.q
        ≡ 0 [MOD p.q] := (Nat.modEq_zero_iff_dvd).2 (Nat.dvd_mul_left _ _)
    exact (ih2.add_right _).add z

theorem montRaw_spec (h : p.OK) (x y : Nat) (hx : x < p.q) (hy : y < p.R) :
    montRaw p x y < 2 * p.q ∧ montRaw p x y * p.R ≡ x * y [MOD p.q] := by
  have := montIter_inv p h x y hx p.n
  rw [← p.R_eq, Nat.mod_eq_of_lt hy] at this
  exact this

theorem reduceOnce_lt (t : Nat) (ht : t < 2 * p.q) : reduceOnce p t < p.q := by
  unfold reduceOnce; split <;> omega

theorem reduceOnce_modEq (t : Nat) : reduceOnce p t ≡ t [MOD p.q] := by
  unfold reduceOnce; split
  · rename_i hge
    have : t = (t - p.q) + p.q := by omega
    conv_rhs => rw [this]
    exact (Nat.add_mod_right _ _).symm
  · rfl

theorem mul_spec (h : p.OK) (x y : Nat) (hx : x < p.q) (hy : y < p.R) :
    mul p x y < p.q ∧ mul p x y * p.R ≡ x * y [MOD p.q] := by
  obtain ⟨h1, h2⟩ := montRaw_spec p h x y hx hy
  exact ⟨reduceOnce_lt p _ h1, ((reduceOnce_modEq p _).mul_right _).trans h2⟩

/-! ### the abstraction `abs z = z·R⁻¹ (mod q)` -/

/-- abstract value of the Montgomery residue `z` -/
def abs (z : Nat) : ZMod p.q := (z : ZMod p.q) * ((p.R : ZMod p.q))⁻¹

theorem R_coprime (h : p.OK) : Nat.Coprime p.R p.q := by
  unfold Params.R
  apply Nat.Coprime.pow_left
  rw [Nat.coprime_two_left]
  exact Nat.odd_iff.2 h.q_odd

theorem R_mul_inv (h : p.OK) : (p.R : ZMod p.q) * ((p.R : ZMod p.q))⁻¹ = 1 :=
  ZMod.coe_mul_inv_eq_one _ (R_coprime p h)

theorem R_inv_mul (h : p.OK) : ((p.R : ZMod p.q))⁻¹ * (p.R : ZMod p.q) = 1 := by
  rw [mul_comm]; exact R_mul_inv p h

theorem abs_mul_R (h : p.OK) (z : Nat) : abs p z * (p.R : ZMod p.q) = z := by
  unfold abs; rw [mul_assoc, R_inv_mul p h, mul_one]

theorem abs_eq_iff (h : p.OK) (z : Nat) (a : ZMod p.q) :
    abs p z = a ↔ (z : ZMod p.q) = a * p.R := by
  constructor
  · intro e; rw [← e, abs_mul_R p h]
  · intro e; unfold abs; rw [e, mul_assoc, R_mul_inv p h, mul_one]

theorem cast_inj (a b : Nat) (ha : a < p.q) (hb : b < p.q) (e : (a : ZMod p.q) = b) : a = b := by
  rw [ZMod.natCast_eq_natCast_iff'] at e
  rwa [Nat.mod_eq_of_lt ha, Nat.mod_eq_of_lt hb] at e

/-- `abs` is injective on canonical values -/
theorem abs_inj (h : p.OK) (a b : Nat) (ha : a < p.q) (hb : b < p.q) (e : abs p a = abs p b) :
    a = b := by
  apply cast_inj p a b ha hb
  rw [← abs_mul_R p h a, ← abs_mul_R p h b, e]

theorem abs_zero : abs p 0 = 0 := by simp [abs]

theorem abs_eq_zero_iff (h : p.OK) (a : Nat) (ha : a < p.q) : abs p a = 0 ↔ a = 0 := by
  constructor
  · intro e; exact abs_inj p h a 0 ha (by have := h.q_gt; omega) (by rw [e, abs_zero])
  · rintro rfl; exact abs_zero p

theorem q_lt_R' (h : p.OK) {x : Nat} (hx : x < p.q) : x < p.R := Nat.lt_trans hx h.q_lt_R

theorem mul_lt (h : p.OK) (x y : Nat) (hx : x < p.q) (hy : y < p.R) : mul p x y < p.q :=
  (mul_spec p h x y hx hy).1

theorem mul_cast (h : p.OK) (x y : Nat) (hx : x < p.q) (hy : y < p.R) :
    (mul p x y : ZMod p.q) * (p.R : ZMod p.q) = (x : ZMod p.q) * y := by
  have := (ZMod.natCast_eq_natCast_iff _ _ _).2 (mul_spec p h x y hx hy).2
  push_cast at this; exact this

theorem abs_mul (h : p.OK) (x y : Nat) (hx : x < p.q) (hy : y < p.R) :
    abs p (mul p x y) = abs p x * abs p y := by
  rw [abs_eq_iff p h]
  have e : abs p x * abs p y * (p.R : ZMod p.q) * p.R = (x : ZMod p.q) * y := by
    rw [← abs_mul_R p h x, ← abs_mul_R p h y]; ring
  apply (IsUnit.mul_left_inj (a := (p.R : ZMod p.q)) ?_).1
  · rw [mul_cast p h x y hx hy, e]
  · exact IsUnit.of_mul_eq_one _ (R_mul_inv p h)

/-! ### 3. add / sub / neg / double / halve -/

theorem reduceOnce_cast (t : Nat) : (reduceOnce p t : ZMod p.q) = t :=
  (ZMod.natCast_eq_natCast_iff _ _ _).2 (reduceOnce_modEq p t)

theorem add_lt (x y : Nat) (hx : x < p.q) (hy : y < p.q) : add p x y < p.q :=
  reduceOnce_lt p _ (by omega)

theorem abs_add (x y : Nat) : abs p (add p x y) = abs p x + abs p y := by
  unfold abs add; rw [reduceOnce_cast]; push_cast; ring

theorem double_lt (x : Nat) (hx : x < p.q) : double p x < p.q :=
  reduceOnce_lt p _ (by omega)

theorem abs_double (x : Nat) : abs p (double p x) = 2 * abs p x := by
  unfold abs double; rw [reduceOnce_cast]; push_cast; ring

theorem sub_lt (x y : Nat) (hx : x < p.q) (hy : y < p.q) : sub p x y < p.q := by
  unfold sub; split <;> omega

theorem sub_cast (x y : Nat) (hy : y < p.q) : (sub p x y : ZMod p.q) = (x : ZMod p.q) - y := by
  unfold sub; split
  · rw [Nat.cast_sub (by omega)]; push_cast; rw [ZMod.natCast_self]; ring
  · rw [Nat.cast_sub (by omega)]

theorem abs_sub (x y : Nat) (hy : y < p.q) : abs p (sub p x y) = abs p x - abs p y := by
  unfold abs; rw [sub_cast p x y hy]; ring

theorem neg_lt (h : p.OK) (x : Nat) : neg p x < p.q := by
  have := h.q_gt
  unfold neg; split <;> omega

theorem neg_cast (x : Nat) (hx : x < p.q) : (neg p x : ZMod p.q) = - (x : ZMod p.q) := by
  unfold neg; split
  · subst x; simp
  · rw [Nat.cast_sub (by omega), ZMod.natCast_self]; ring

theorem abs_neg (x : Nat) (hx : x < p.q) : abs p (neg p x) = - abs p x := by
  unfold abs; rw [neg_cast p x hx]; ring

theorem halve_lt (x : Nat) (hx : x < p.q) : halve p x < p.q := by
  unfold halve; split <;> omega

theorem halve_cast (h : p.OK) (x : Nat) : (halve p x : ZMod p.q) * 2 = x := by
  have ho := h.q_odd
  unfold halve; split
  · have e : (x + p.q) / 2 * 2 = x + p.q := by omega
    have := congrArg (Nat.cast (R := ZMod p.q)) e
    push_cast at this; rw [this, ZMod.natCast_self, add_zero]
  · have e : x / 2 * 2 = x := by omega
    have := congrArg (Nat.cast (R := ZMod p.q)) e
    push_cast at this; exact this

theorem abs_halve (h : p.OK) (x : Nat) : abs p (halve p x) * 2 = abs p x := by
  unfold abs; rw [mul_right_comm, halve_cast p h]

/-! ### 4. one / toMont / fromMont -/

theorem one_lt (h : p.OK) : one p < p.q := Nat.mod_lt _ (by have := h.q_gt; omega)

theorem abs_one (h : p.OK) : abs p (one p) = 1 := by
  unfold abs one; rw [ZMod.natCast_mod, R_mul_inv p h]

theorem rSquare_lt (h : p.OK) : rSquare p < p.q := Nat.mod_lt _ (by have := h.q_gt; omega)

theorem one_lt_R (h : p.OK) : 1 < p.R := Nat.lt_trans h.q_gt h.q_lt_R

theorem fromMont_lt (h : p.OK) (z : Nat) (hz : z < p.q) : fromMont p z < p.q :=
  mul_lt p h z 1 hz (one_lt_R p h)

theorem fromMont_cast (h : p.OK) (z : Nat) (hz : z < p.q) : (fromMont p z : ZMod p.q) = abs p z := by
  symm; rw [abs_eq_iff p h]
  have := mul_cast p h z 1 hz (one_lt_R p h)
  rw [Nat.cast_one, mul_one] at this
  exact this.symm

theorem toMont_lt (h : p.OK) (v : Nat) (hv : v < p.q) : toMont p v < p.q :=
  mul_lt p h v _ hv (q_lt_R' p h (rSquare_lt p h))

theorem abs_toMont (h : p.OK) (v : Nat) (hv : v < p.q) : abs p (toMont p v) = v := by
  unfold toMont
  rw [abs_mul p h v _ hv (q_lt_R' p h (rSquare_lt p h))]
  have : abs p (rSquare p) = p.R := by
    rw [abs_eq_iff p h]; unfold rSquare; rw [ZMod.natCast_mod]; push_cast; rfl
  rw [this, abs_mul_R p h]

/-! ### 5. exponentiation -/

theorem square_lt (h : p.OK) (x : Nat) (hx : x < p.q) : square p x < p.q :=
  mul_lt p h x x hx (q_lt_R' p h hx)

theorem abs_square (h : p.OK) (x : Nat) (hx : x < p.q) : abs p (square p x) = abs p x ^ 2 := by
  unfold square; rw [abs_mul p h x x hx (q_lt_R' p h hx), sq]

theorem div_pow_bit (e i : Nat) :
    e / 2 ^ i = 2 * (e / 2 ^ (i+1)) + (if e.testBit i then 1 else 0) := by
  rw [Nat.testBit_eq_decide_div_mod_eq, pow_succ, ← Nat.div_div_eq_div_mul]
  by_cases hb : e / 2 ^ i % 2 = 1
  · simp only [hb, decide_true, if_true]; omega
  · simp only [hb, decide_false]; simp only [Bool.false_eq_true, if_false]; omega

/-- invariant of the square-and-multiply loop: `acc = x^(e / 2^i)` before processing bits `i-1 … 0` -/
theorem expLoop_spec (h : p.OK) (x e : Nat) (hx : x < p.q) :
    ∀ (i acc : Nat), acc < p.q → abs p acc = abs p x ^ (e / 2 ^ i) →
      expLoop p x e i acc < p.q ∧ abs p (expLoop p x e i acc) = abs p x ^ e := by
  intro i
  induction i with
  | zero => intro acc hacc ha; simpa [expLoop, hacc] using ha
  | succ i ih =>
    intro acc hacc ha
    simp only [expLoop]
    have hs := square_lt p h acc hacc
    apply ih
    · split
      · exact mul_lt p h _ _ hs (q_lt_R' p h hx)
      · exact hs
    · rw [div_pow_bit e i]
      split
      · rw [abs_mul p h _ _ hs (q_lt_R' p h hx), abs_square p h acc hacc, ha]
        ring
      · rw [abs_square p h acc hacc, ha, add_zero]; ring

theorem div_pow_log2 (e : Nat) (he : e ≠ 0) : e / 2 ^ e.log2 = 1 := by
  apply Nat.div_eq_of_lt_le
  · rw [one_mul]; exact Nat.log2_self_le he
  · have := @Nat.lt_log2_self e
    rw [pow_succ] at this; omega

theorem expNat_spec (h : p.OK) (x e : Nat) (hx : x < p.q) :
    expNat p x e < p.q ∧ abs p (expNat p x e) = abs p x ^ e := by
  unfold expNat; split
  · rename_i he; subst he
    exact ⟨one_lt p h, by rw [abs_one p h, pow_zero]⟩
  · rename_i he
    exact expLoop_spec p h x e hx _ x hx (by rw [div_pow_log2 e he, pow_one])

/-! ### 6. inverse, integer exponents, division (prime modulus) -/

theorem q_ge_three (h : p.OK) : 3 ≤ p.q := by
  have := h.q_gt; have := h.q_odd; omega

section prime
variable [hp : Fact p.q.Prime]

omit hp in
theorem inv_zero : inv p 0 = 0 := by simp [inv]

theorem inv_spec (h : p.OK) (x : Nat) (hx : x < p.q) :
    inv p x < p.q ∧ abs p (inv p x) = (abs p x)⁻¹ := by
  unfold inv; split
  · rename_i h0; subst h0
    exact ⟨by have := h.q_gt; omega, by rw [abs_zero, _root_.inv_zero]⟩
  · rename_i h0
    obtain ⟨h1, h2⟩ := expNat_spec p h x (p.q - 2) hx
    refine ⟨h1, ?_⟩
    rw [h2]
    have hne : abs p x ≠ 0 := fun e => h0 ((abs_eq_zero_iff p h x hx).1 e)
    apply eq_inv_of_mul_eq_one_left
    rw [← pow_succ]
    have : p.q - 2 + 1 = p.q - 1 := by have := q_ge_three p h; omega
    rw [this]
    exact ZMod.pow_card_sub_one_eq_one hne

theorem exp_spec (h : p.OK) (x : Nat) (hx : x < p.q) (k : ℤ) :
    exp p x k < p.q ∧ abs p (exp p x k) = abs p x ^ k := by
  unfold exp; split
  · rename_i hk; subst hk
    exact ⟨one_lt p h, by rw [abs_one p h, zpow_zero]⟩
  · split
    · rename_i hk
      obtain ⟨hi1, hi2⟩ := inv_spec p h x hx
      obtain ⟨h1, h2⟩ := expNat_spec p h (inv p x) k.natAbs hi1
      refine ⟨h1, ?_⟩
      have e : k = -((k.natAbs : ℕ) : ℤ) := by omega
      rw [h2, hi2]
      conv_rhs => rw [e]
      rw [zpow_neg, zpow_natCast, inv_pow]
    · rename_i hk0 hk
      obtain ⟨h1, h2⟩ := expNat_spec p h x k.natAbs hx
      refine ⟨h1, ?_⟩
      have e : k = ((k.natAbs : ℕ) : ℤ) := by omega
      rw [h2]
      conv_rhs => rw [e]
      rw [zpow_natCast]

theorem div_spec (h : p.OK) (x y : Nat) (hx : x < p.q) (hy : y < p.q) :
    div p x y < p.q ∧ abs p (div p x y) = abs p x / abs p y := by
  obtain ⟨h1, h2⟩ := inv_spec p h y hy
  unfold div
  exact ⟨mul_lt p h _ _ hx (q_lt_R' p h h1),
    by rw [abs_mul p h _ _ hx (q_lt_R' p h h1), h2, div_eq_mul_inv]⟩

/-! ### 7. batch inversion (Montgomery's trick, zeros skipped) -/

/-- the accumulator of the backward pass after a segment -/
def bwdAcc (as : List Nat) (c : Nat) : Nat :=
  as.foldl (fun acc a => if a = 0 then acc else mul p acc a) c

omit hp in
theorem batchBwd_append (l1 l2 r2 : List Nat) :
    ∀ (r1 : List Nat) (c : Nat), l1.length = r1.length →
      batchBwd p (l1 ++ l2) (r1 ++ r2) c
        = batchBwd p l1 r1 c ++ batchBwd p l2 r2 (bwdAcc p l1 c) := by
  induction l1 with
  | nil =>
    intro r1 c hl
    cases r1 with
    | nil => simp [batchBwd, bwdAcc]
    | cons _ _ => simp at hl
  | cons a l1 ih =>
    intro r1 c hl
    cases r1 with
    | nil => simp at hl
    | cons r r1 =>
      simp only [List.length_cons, Nat.add_right_cancel_iff] at hl
      by_cases ha : a = 0
      · simp [batchBwd, bwdAcc, ha, ih r1 c hl]
      · simp [batchBwd, bwdAcc, ha, ih r1 _ hl]

omit hp in
theorem batchFwd_cons_zero (as : List Nat) (acc : Nat) :
    batchFwd p (0 :: as) acc = (0 :: (batchFwd p as acc).1, (batchFwd p as acc).2) := by
  simp [batchFwd]

omit hp in
theorem batchFwd_cons_ne (a : Nat) (ha : a ≠ 0) (as : List Nat) (acc : Nat) :
    batchFwd p (a :: as) acc
      = (acc :: (batchFwd p as (mul p acc a)).1, (batchFwd p as (mul p acc a)).2) := by
  simp [batchFwd, ha]

omit hp in
theorem batchFwd_acc_lt (h : p.OK) (xs : List Nat) (hxs : ∀ x ∈ xs, x < p.q) :
    ∀ acc, acc < p.q → (batchFwd p xs acc).2 < p.q := by
  induction xs with
  | nil => intro acc hacc; simpa [batchFwd] using hacc
  | cons a as ih =>
    intro acc hacc
    have ha : a < p.q := hxs a (by simp)
    have has : ∀ x ∈ as, x < p.q := fun x hx => hxs x (by simp [hx])
    by_cases h0 : a = 0
    · subst h0; rw [batchFwd_cons_zero]; exact ih has acc hacc
    · rw [batchFwd_cons_ne p a h0]
      exact ih has _ (mul_lt p h _ _ hacc (q_lt_R' p h ha))

theorem batch_main (h : p.OK) (xs : List Nat) (hxs : ∀ x ∈ xs, x < p.q) :
    ∀ (acc c : Nat), acc < p.q → abs p acc ≠ 0 → c < p.q →
      abs p c = (abs p (batchFwd p xs acc).2)⁻¹ →
      (batchFwd p xs acc).1.length = xs.length ∧
      batchBwd p xs.reverse (batchFwd p xs acc).1.reverse c = (xs.map (inv p)).reverse ∧
      bwdAcc p xs.reverse c < p.q ∧ abs p (bwdAcc p xs.reverse c) = (abs p acc)⁻¹ := by
  induction xs with
  | nil =>
    intro acc c _ _ hc habs
    simp only [batchFwd] at habs
    simp [batchFwd, batchBwd, bwdAcc, hc, habs]
  | cons a as ih =>
    intro acc c hacc hne hc habs
    have ha : a < p.q := hxs a (by simp)
    have has : ∀ x ∈ as, x < p.q := fun x hx => hxs x (by simp [hx])
    by_cases h0 : a = 0
    · subst h0
      rw [batchFwd_cons_zero] at habs ⊢
      obtain ⟨i1, i2, i3, i4⟩ := ih has acc c hacc hne hc habs
      refine ⟨by simp [i1], ?_, ?_, ?_⟩
      · simp only [List.reverse_cons, List.map_cons]
        rw [batchBwd_append p _ _ _ _ _ (by simp [i1]), i2]
        simp [batchBwd, inv_zero]
      · simpa [bwdAcc, List.foldl_append] using i3
      · simpa [bwdAcc, List.foldl_append] using i4
    · rw [batchFwd_cons_ne p a h0] at habs ⊢
      have hm := mul_lt p h _ _ hacc (q_lt_R' p h ha)
      have hma := abs_mul p h _ _ hacc (q_lt_R' p h ha)
      have hane : abs p a ≠ 0 := fun e => h0 ((abs_eq_zero_iff p h a ha).1 e)
      have hmne : abs p (mul p acc a) ≠ 0 := by rw [hma]; exact mul_ne_zero hne hane
      obtain ⟨i1, i2, i3, i4⟩ := ih has (mul p acc a) c hm hmne hc habs
      have e5 : bwdAcc p (as.reverse ++ [a]) c = mul p (bwdAcc p as.reverse c) a := by
        simp [bwdAcc, List.foldl_append, h0]
      have hlast := abs_mul p h _ _ i3 (q_lt_R' p h ha)
      refine ⟨by simp [i1], ?_, ?_, ?_⟩
      · simp only [List.reverse_cons, List.map_cons]
        rw [batchBwd_append p _ _ _ _ _ (by simp [i1]), i2]
        simp only [batchBwd, h0, if_false, List.append_cancel_left_eq, List.cons.injEq, and_true]
        obtain ⟨j1, j2⟩ := inv_spec p h a ha
        apply abs_inj p h _ _ (mul_lt p h _ _ hacc (q_lt_R' p h i3)) j1
        rw [abs_mul p h _ _ hacc (q_lt_R' p h i3), i4, hma, j2]
        field_simp
      · simp only [List.reverse_cons]; rw [e5]
        exact mul_lt p h _ _ i3 (q_lt_R' p h ha)
      · simp only [List.reverse_cons]; rw [e5, hlast, i4, hma]
        field_simp

theorem batchInv_eq (h : p.OK) (xs : List Nat) (hxs : ∀ x ∈ xs, x < p.q) :
    batchInv p xs = xs.map (inv p) := by
  have hacc := batchFwd_acc_lt p h xs hxs (one p) (one_lt p h)
  obtain ⟨j1, j2⟩ := inv_spec p h _ hacc
  have := (batch_main p h xs hxs (one p) (inv p (batchFwd p xs (one p)).2) (one_lt p h)
    (by rw [abs_one p h]; exact one_ne_zero) j1 j2).2.1
  unfold batchInv
  simp only []
  rw [this, List.reverse_reverse]

/-! ### 8. Legendre symbol -/

omit hp in
theorem half_eq (h : p.OK) : (p.q - 1) / 2 = p.q / 2 := by
  have := h.q_odd; omega

theorem euler_test (h : p.OK) (x : Nat) (hx : x < p.q) (h0 : x ≠ 0) :
    expNat p x ((p.q - 1) / 2) = one p ↔ IsSquare (abs p x) := by
  obtain ⟨h1, h2⟩ := expNat_spec p h x ((p.q - 1) / 2) hx
  have hne : abs p x ≠ 0 := fun e => h0 ((abs_eq_zero_iff p h x hx).1 e)
  rw [ZMod.euler_criterion p.q hne, ← half_eq p h, ← h2]
  constructor
  · intro e; rw [e, abs_one p h]
  · intro e; exact abs_inj p h _ _ h1 (one_lt p h) (by rw [e, abs_one p h])

theorem legendre_cases (h : p.OK) (x : Nat) (hx : x < p.q) :
    (legendre p x = 0 ∧ x = 0) ∨
    (legendre p x = 1 ∧ x ≠ 0 ∧ IsSquare (abs p x)) ∨
    (legendre p x = -1 ∧ x ≠ 0 ∧ ¬ IsSquare (abs p x)) := by
  unfold legendre
  by_cases h0 : x = 0
  · left; simp [h0]
  · right
    have := euler_test p h x hx h0
    by_cases hs : expNat p x ((p.q - 1) / 2) = one p
    · left; exact ⟨by simp [h0, hs], h0, this.1 hs⟩
    · right; exact ⟨by simp [h0, hs], h0, fun e => hs (this.2 e)⟩

end prime

/-! ### 9. square roots on regular values -/

theorem powMod_go_spec (m : Nat) (hm : 1 < m) :
    ∀ (fuel b e acc : Nat), acc < m → e < 2 ^ fuel →
      powMod.go m fuel b e acc = acc * b ^ e % m := by
  intro fuel
  induction fuel with
  | zero =>
    intro b e acc hacc he
    have : e = 0 := by simpa using he
    subst this
    simp [powMod.go, Nat.mod_eq_of_lt hacc]
  | succ fuel ih =>
    intro b e acc hacc he
    unfold powMod.go
    by_cases h0 : e = 0
    · subst h0; simp [Nat.mod_eq_of_lt hacc]
    · simp only [h0, if_false]
      have hm0 : 0 < m := by omega
      rw [ih _ _ _ (by split; exact Nat.mod_lt _ hm0; exact hacc) (by rw [pow_succ] at he; omega)]
      have e1 : b ^ e = b ^ (e % 2) * (b * b) ^ (e / 2) := by
        rw [← pow_two, ← pow_mul, ← pow_add, Nat.mod_add_div]
      have e2 : (b * b % m) ^ (e / 2) ≡ (b * b) ^ (e / 2) [MOD m] := (Nat.mod_modEq _ _).pow _
      have e3 : (if e % 2 = 1 then acc * b % m else acc) ≡ acc * b ^ (e % 2) [MOD m] := by
        split
        · rename_i h1; rw [h1, pow_one]; exact Nat.mod_modEq _ _
        · have : e % 2 = 0 := by omega
          rw [this, pow_zero, Nat.mul_one]
      show _ ≡ _ [MOD m]
      rw [e1, ← Nat.mul_assoc]
      exact e3.mul e2

theorem powMod_eq (b e m : Nat) (hm : 1 < m) : powMod b e m = b ^ e % m := by
  unfold powMod
  rw [if_neg (by omega), powMod_go_spec m hm _ _ _ _ hm Nat.lt_log2_self, Nat.one_mul,
    ← Nat.pow_mod]

/-- `a` is a square modulo `q` (on regular values) -/
def IsSqMod (q a : Nat) : Prop := ∃ y, y * y % q = a % q

theorem euler_nat [Fact p.q.Prime] (h : p.OK) (a : Nat) (ha : a % p.q ≠ 0) :
    a ^ ((p.q - 1) / 2) % p.q = 1 ↔ IsSqMod p.q a := by
  have hq := h.q_gt
  have hne : (a : ZMod p.q) ≠ 0 := by
    rw [Ne, ZMod.natCast_eq_zero_iff]; exact fun d => ha (Nat.mod_eq_zero_of_dvd d)
  have e1 : a ^ ((p.q - 1) / 2) % p.q = 1 ↔ (a : ZMod p.q) ^ (p.q / 2) = 1 := by
    rw [half_eq p h]
    have := ZMod.natCast_eq_natCast_iff' (a ^ (p.q / 2)) 1 p.q
    rw [Nat.mod_eq_of_lt hq] at this
    rw [← this]; push_cast; rfl
  rw [e1, ← ZMod.euler_criterion p.q hne]
  constructor
  · rintro ⟨r, hr⟩
    refine ⟨r.val, ?_⟩
    rw [← ZMod.natCast_eq_natCast_iff']; push_cast
    rw [ZMod.natCast_zmod_val, hr]
  · rintro ⟨y, hy⟩
    refine ⟨(y : ZMod p.q), ?_⟩
    rw [← ZMod.natCast_eq_natCast_iff'] at hy; push_cast at hy; exact hy.symm

theorem sqrt_zero (a : Nat) (ha : a % p.q = 0) : sqrtRegular p a = some 0 := by
  simp [sqrtRegular, ha]

/-- `split` ends on an odd `s` once the fuel exceeds the bit length -/
theorem split_odd : ∀ (fuel s e : Nat), 0 < s → s < 2 ^ fuel →
    (sqrtRegular.split fuel s e).1 % 2 = 1 := by
  intro fuel
  induction fuel with
  | zero => intro s e h1 h2; simp at h2; omega
  | succ f ih =>
    intro s e h1 h2
    unfold sqrtRegular.split
    split
    · exact ih _ _ (by omega) (by rw [pow_succ] at h2; omega)
    · show s % 2 = 1; omega

/-- Tonelli–Shanks loop invariant `r² ≡ a·t`: whatever is returned is a root -/
theorem loop_sound (q a : Nat) : ∀ (fuel m c t r r' : Nat), r * r ≡ a * t [MOD q] →
    sqrtRegular.loop q fuel m c t r = some r' → r' * r' ≡ a [MOD q] := by
  intro fuel
  induction fuel with
  | zero => intro m c t r r' _ hl; simp [sqrtRegular.loop] at hl
  | succ f ih =>
    intro m c t r r' hinv hl
    unfold sqrtRegular.loop at hl
    by_cases ht : t = 1
    · subst ht; simp at hl; subst hl; simpa using hinv
    · simp only [ht, if_false] at hl
      split at hl
      · simp at hl
      · refine ih _ _ _ _ _ ?_ hl
        generalize powMod c (2 ^ (m - sqrtRegular.loop.ord q m 0 t - 1)) q = b
        have e1 : r * b % q * (r * b % q) ≡ (r * b) * (r * b) [MOD q] :=
          (Nat.mod_modEq _ _).mul (Nat.mod_modEq _ _)
        have e2 : a * (t * b * b % q) ≡ a * (t * b * b) [MOD q] := (Nat.mod_modEq _ _).mul_left _
        refine e1.trans (Nat.ModEq.trans ?_ e2.symm)
        have : r * b * (r * b) = r * r * (b * b) := by ring
        rw [this]
        have : a * (t * b * b) = a * t * (b * b) := by ring
        rw [this]
        exact hinv.mul_right _

theorem sqrt_sound (h : p.OK) (a r : Nat) (hs : sqrtRegular p a = some r) :
    r * r % p.q = a % p.q := by
  have hq := h.q_gt
  unfold sqrtRegular at hs
  simp only [] at hs
  split at hs
  · rename_i h0; simp at hs; subst hs; simp [h0]
  · split at hs
    · simp at hs
    · rename_i h0 he
      rw [powMod_eq _ _ _ hq, Decidable.not_not] at he
      split at hs
      · rename_i h4
        simp only [Option.some.injEq] at hs; subst hs
        rw [powMod_eq _ _ _ hq]
        show _ ≡ _ [MOD p.q]
        have e1 : a ^ ((p.q+1)/4) % p.q * (a ^ ((p.q+1)/4) % p.q)
            ≡ a ^ ((p.q+1)/4) * a ^ ((p.q+1)/4) [MOD p.q] :=
          (Nat.mod_modEq _ _).mul (Nat.mod_modEq _ _)
        refine e1.trans ?_
        have : a ^ ((p.q+1)/4) * a ^ ((p.q+1)/4) = a ^ ((p.q - 1)/2) * a := by
          rw [← pow_add, ← pow_succ]; congr 1; omega
        rw [this]
        have e2 : a ^ ((p.q - 1)/2) ≡ 1 [MOD p.q] := by
          unfold Nat.ModEq; rw [he, Nat.mod_eq_of_lt hq]
        simpa using e2.mul_right a
      · generalize hse : sqrtRegular.split (p.q.log2 + 1) (p.q - 1) 0 = se at hs
        obtain ⟨s, e⟩ := se
        simp only [] at hs
        have hodd : s % 2 = 1 := by
          have := split_odd (p.q.log2 + 1) (p.q - 1) 0 (by omega)
            (Nat.lt_of_le_of_lt (Nat.sub_le _ _) Nat.lt_log2_self)
          rw [hse] at this; exact this
        refine loop_sound p.q a _ _ _ _ _ r ?_ hs
        rw [powMod_eq _ _ _ hq, powMod_eq _ _ _ hq]
        have e1 : a ^ ((s+1)/2) % p.q * (a ^ ((s+1)/2) % p.q)
            ≡ a ^ ((s+1)/2) * a ^ ((s+1)/2) [MOD p.q] :=
          (Nat.mod_modEq _ _).mul (Nat.mod_modEq _ _)
        refine e1.trans ?_
        have : a ^ ((s+1)/2) * a ^ ((s+1)/2) = a * a ^ s := by
          rw [← pow_add, ← pow_succ']; congr 1; omega
        rw [this]
        exact ((Nat.mod_modEq _ _).mul_left _).symm

section prime
variable [hp : Fact p.q.Prime]

theorem sqrt_none_of_nonsquare (h : p.OK) (a : Nat) (hs : ¬ IsSqMod p.q a) :
    sqrtRegular p a = none := by
  have hq := h.q_gt
  have h0 : a % p.q ≠ 0 := fun e => hs ⟨0, by simp [e]⟩
  have he : powMod a ((p.q - 1) / 2) p.q ≠ 1 := by
    rw [powMod_eq _ _ _ hq]; exact fun e => hs ((euler_nat p h a h0).1 e)
  simp [sqrtRegular, h0, he]

theorem sqrt_some_of_square_3mod4 (h : p.OK) (h4 : p.q % 4 = 3) (a : Nat) (hs : IsSqMod p.q a) :
    ∃ r, sqrtRegular p a = some r := by
  have hq := h.q_gt
  by_cases h0 : a % p.q = 0
  · exact ⟨0, sqrt_zero p a h0⟩
  · have he : powMod a ((p.q - 1) / 2) p.q = 1 := by
      rw [powMod_eq _ _ _ hq]; exact (euler_nat p h a h0).2 hs
    exact ⟨powMod a ((p.q + 1) / 4) p.q, by simp [sqrtRegular, h0, he, h4]⟩

end prime

/-! Tonelli–Shanks completeness (given that `findNR` found a non-residue) -/

theorem split_inv : ∀ (fuel s e : Nat),
    (sqrtRegular.split fuel s e).1 * 2 ^ (sqrtRegular.split fuel s e).2 = s * 2 ^ e := by
  intro fuel
  induction fuel with
  | zero => intro s e; simp [sqrtRegular.split]
  | succ f ih =>
    intro s e
    unfold sqrtRegular.split
    split
    · rename_i hs
      rw [ih, pow_succ]
      have : s = s / 2 * 2 := by omega
      conv_rhs => rw [this]
      ring
    · rfl

section ts
variable (q : Nat) [hq : Fact q.Prime]

theorem ord_spec : ∀ (f i tt : Nat), tt < q →
    i ≤ sqrtRegular.loop.ord q f i tt ∧ sqrtRegular.loop.ord q f i tt ≤ i + f ∧
    (∀ j, i + j < sqrtRegular.loop.ord q f i tt → (tt : ZMod q) ^ (2 ^ j) ≠ 1) ∧
    (sqrtRegular.loop.ord q f i tt < i + f →
      (tt : ZMod q) ^ (2 ^ (sqrtRegular.loop.ord q f i tt - i)) = 1) := by
  have hq1 : 1 < q := hq.out.one_lt
  intro f
  induction f with
  | zero =>
    intro i tt _
    simp only [sqrtRegular.loop.ord]
    exact ⟨le_refl _, le_refl _, fun j hj => by omega, fun hj => by omega⟩
  | succ f ih =>
    intro i tt htt
    unfold sqrtRegular.loop.ord
    by_cases h1 : tt = 1
    · simp only [h1, if_true]
      exact ⟨le_refl _, by omega, fun j hj => by omega, fun _ => by simp⟩
    · simp only [h1, if_false]
      obtain ⟨a1, a2, a3, a4⟩ := ih (i+1) (tt * tt % q) (Nat.mod_lt _ (by omega))
      have hc : ((tt * tt % q : ℕ) : ZMod q) = (tt : ZMod q) ^ 2 := by
        rw [ZMod.natCast_mod]; push_cast; ring
      refine ⟨by omega, by omega, ?_, ?_⟩
      · intro j hj
        cases j with
        | zero =>
          intro e
          apply h1
          apply (ZMod.natCast_eq_natCast_iff' tt 1 q).1 ?_ |>.trans (Nat.mod_eq_of_lt hq1) |>.symm.trans ?_ |>.symm
          · simpa using e
          · exact Nat.mod_eq_of_lt htt
        | succ j =>
          have := a3 j (by omega)
          rw [hc, ← pow_mul, ← pow_succ'] at this
          exact this
      · intro hlt
        have := a4 (by omega)
        rw [hc, ← pow_mul, ← pow_succ'] at this
        have e : sqrtRegular.loop.ord q f (i + 1) (tt * tt % q) - (i + 1) + 1
            = sqrtRegular.loop.ord q f (i + 1) (tt * tt % q) - i := by omega
        rw [e] at this; exact this

theorem loop_complete : ∀ (fuel m c t r : Nat), m < fuel → 1 ≤ m → t < q →
    (c : ZMod q) ^ (2 ^ (m - 1)) = -1 → (t : ZMod q) ^ (2 ^ (m - 1)) = 1 →
    ∃ r', sqrtRegular.loop q fuel m c t r = some r' := by
  have hq1 : 1 < q := hq.out.one_lt
  intro fuel
  induction fuel with
  | zero => intro m c t r hm; omega
  | succ f ih =>
    intro m c t r hm hm1 ht hc htt
    unfold sqrtRegular.loop
    by_cases h1 : t = 1
    · exact ⟨r, by simp [h1]⟩
    · simp only [h1, if_false]
      obtain ⟨_, _, a3, a4⟩ := ord_spec q m 0 t ht
      generalize sqrtRegular.loop.ord q m 0 t = k at a3 a4 ⊢
      have hk : k ≤ m - 1 := by
        by_contra hlt
        exact a3 (m - 1) (by omega) htt
      have hk1 : t ^ (2 ^ k) = (1 : ZMod q) := by simpa using a4 (by omega)
      have hk0 : 1 ≤ k := by
        by_contra hlt
        have : k = 0 := by omega
        subst this
        apply h1
        have e : ((t : ℕ) : ZMod q) = ((1 : ℕ) : ZMod q) := by simpa using hk1
        have := (ZMod.natCast_eq_natCast_iff' t 1 q).1 e
        rwa [Nat.mod_eq_of_lt ht, Nat.mod_eq_of_lt hq1] at this
      have hu : (t : ZMod q) ^ (2 ^ (k - 1)) = -1 := by
        have hne := a3 (k - 1) (by omega)
        have hsq : (t : ZMod q) ^ (2 ^ (k - 1)) * (t : ZMod q) ^ (2 ^ (k - 1)) = 1 := by
          rw [← pow_add, ← two_mul, ← pow_succ']
          have : k - 1 + 1 = k := by omega
          rw [this, hk1]
        rcases mul_self_eq_one_iff.1 hsq with e | e
        · exact absurd e hne
        · exact e
      rw [if_neg (by omega)]
      have hq0 : 0 < q := by omega
      apply ih k _ _ _ (by omega) hk0 (Nat.mod_lt _ hq0)
      · -- new c
        rw [powMod_eq _ _ _ hq1, ZMod.natCast_mod]
        push_cast
        rw [ZMod.natCast_mod]; push_cast
        rw [← pow_add, ← two_mul, ← pow_succ', ← pow_mul, ← pow_add]
        have : m - k - 1 + 1 + (k - 1) = m - 1 := by omega
        rw [this, hc]
      · -- new t
        rw [powMod_eq _ _ _ hq1, ZMod.natCast_mod]
        push_cast
        rw [ZMod.natCast_mod]; push_cast
        rw [mul_assoc, mul_pow, hu, ← pow_add, ← two_mul, ← pow_succ', ← pow_mul, ← pow_add]
        have : m - k - 1 + 1 + (k - 1) = m - 1 := by omega
        rw [this, hc]; ring

end ts

theorem sqrt_some_of_square_TS [hp : Fact p.q.Prime] (h : p.OK)
    (hnr : powMod (sqrtRegular.findNR p.q 1000 2) ((p.q - 1) / 2) p.q = p.q - 1)
    (a : Nat) (hs : IsSqMod p.q a) : ∃ r, sqrtRegular p a = some r := by
  have hq := h.q_gt
  by_cases h0 : a % p.q = 0
  · exact ⟨0, sqrt_zero p a h0⟩
  have he : powMod a ((p.q - 1) / 2) p.q = 1 := by
    rw [powMod_eq _ _ _ hq]; exact (euler_nat p h a h0).2 hs
  by_cases h4 : p.q % 4 = 3
  · exact sqrt_some_of_square_3mod4 p h h4 a hs
  unfold sqrtRegular
  simp only [h0, he, h4, if_false, ne_eq, not_true_eq_false]
  have hinv := split_inv (p.q.log2 + 1) (p.q - 1) 0
  have hodd := split_odd (p.q.log2 + 1) (p.q - 1) 0 (by omega)
    (Nat.lt_of_le_of_lt (Nat.sub_le _ _) Nat.lt_log2_self)
  generalize sqrtRegular.split (p.q.log2 + 1) (p.q - 1) 0 = se at hinv hodd
  obtain ⟨s, e⟩ := se
  simp only [pow_zero, mul_one] at hinv hodd ⊢
  have he1 : 1 ≤ e := by
    by_contra hlt
    have : e = 0 := by omega
    subst this
    have := h.q_odd
    simp at hinv; omega
  have hhalf : s * 2 ^ (e - 1) = (p.q - 1) / 2 := by
    obtain ⟨e', rfl⟩ : ∃ e', e = e' + 1 := ⟨e - 1, by omega⟩
    rw [pow_succ, ← mul_assoc] at hinv
    simp only [Nat.add_sub_cancel]; omega
  rw [powMod_eq _ _ _ hq] at hnr he
  apply loop_complete p.q (e + 2) e _ _ _ (by omega) he1
  · rw [powMod_eq _ _ _ hq]; exact Nat.mod_lt _ (by omega)
  · rw [powMod_eq _ _ _ hq, ZMod.natCast_mod]; push_cast
    rw [← pow_mul, hhalf]
    have := congrArg (Nat.cast (R := ZMod p.q)) hnr
    rw [ZMod.natCast_mod, Nat.cast_sub (by omega), ZMod.natCast_self] at this
    push_cast at this; simpa using this
  · rw [powMod_eq _ _ _ hq, ZMod.natCast_mod]; push_cast
    rw [← pow_mul, hhalf]
    have := congrArg (Nat.cast (R := ZMod p.q)) he
    rw [ZMod.natCast_mod] at this
    push_cast at this; exact this

/-! ### 10. vector operations -/

theorem zipWith_spec (f : Nat → Nat → Nat) (g : ZMod p.q → ZMod p.q → ZMod p.q)
    (hf : ∀ x y, x < p.q → y < p.q → f x y < p.q ∧ abs p (f x y) = g (abs p x) (abs p y)) :
    ∀ (a b : List Nat), (∀ x ∈ a, x < p.q) → (∀ y ∈ b, y < p.q) →
      (∀ z ∈ List.zipWith f a b, z < p.q) ∧
      (List.zipWith f a b).map (abs p) = List.zipWith g (a.map (abs p)) (b.map (abs p)) := by
  intro a
  induction a with
  | nil => intro b _ _; simp
  | cons x a ih =>
    intro b ha hb
    cases b with
    | nil => simp
    | cons y b =>
      obtain ⟨i1, i2⟩ := ih b (fun z hz => ha z (by simp [hz])) (fun z hz => hb z (by simp [hz]))
      obtain ⟨f1, f2⟩ := hf x y (ha x (by simp)) (hb y (by simp))
      refine ⟨?_, by simp [f2, i2]⟩
      intro z hz
      simp only [List.zipWith_cons_cons, List.mem_cons] at hz
      rcases hz with rfl | hz
      · exact f1
      · exact i1 z hz

theorem foldl_add_spec (a : List Nat) (ha : ∀ x ∈ a, x < p.q) :
    ∀ acc, acc < p.q → a.foldl (add p) acc < p.q ∧
      abs p (a.foldl (add p) acc) = abs p acc + (a.map (abs p)).sum := by
  induction a with
  | nil => intro acc hacc; simpa using hacc
  | cons x a ih =>
    intro acc hacc
    obtain ⟨i1, i2⟩ := ih (fun z hz => ha z (by simp [hz])) _
      (add_lt p acc x hacc (ha x (by simp)))
    refine ⟨i1, ?_⟩
    simp only [List.foldl_cons, List.map_cons, List.sum_cons]
    rw [i2, abs_add, add_assoc]

/-! ### extra: round trips, regular value, small multiples -/

theorem fromMont_toMont (h : p.OK) (v : Nat) (hv : v < p.q) : fromMont p (toMont p v) = v := by
  have ht := toMont_lt p h v hv
  apply cast_inj p _ _ (fromMont_lt p h _ ht) hv
  rw [fromMont_cast p h _ ht, abs_toMont p h v hv]

theorem toMont_fromMont (h : p.OK) (z : Nat) (hz : z < p.q) : toMont p (fromMont p z) = z := by
  have hf := fromMont_lt p h z hz
  apply abs_inj p h _ _ (toMont_lt p h _ hf) hz
  rw [abs_toMont p h _ hf, fromMont_cast p h z hz]

theorem toRegular_eq (h : p.OK) (z : Nat) (hz : z < p.q) : toRegular p z = (abs p z).val := by
  unfold toRegular
  rw [← fromMont_cast p h z hz, ZMod.val_natCast_of_lt (fromMont_lt p h z hz)]

theorem mulBySmall_spec (h : p.OK) (c x : Nat) :
    mulBySmall p c x < p.q ∧ abs p (mulBySmall p c x) = (c : ZMod p.q) * abs p x := by
  refine ⟨Nat.mod_lt _ (by have := h.q_gt; omega), ?_⟩
  unfold abs mulBySmall; rw [ZMod.natCast_mod]; push_cast; ring

/-! ### executable check of `Params.OK`, instances -/

def Params.okb (p : Params) : Bool :=
  decide (1 < p.q) && decide (p.q % 2 = 1) && decide (0 < p.w) && decide (0 < p.n) &&
  decide (p.q < p.R) && decide ((p.q * p.qInvNeg) % p.W = p.W - 1) && decide (p.qInvNeg < p.W)

theorem Params.OK_of_okb (p : Params) (h : p.okb = true) : p.OK := by
  simp only [Params.okb, Bool.and_eq_true, decide_eq_true_eq] at h
  obtain ⟨⟨⟨⟨⟨⟨h1, h2⟩, h3⟩, h4⟩, h5⟩, h6⟩, h7⟩ := h
  exact ⟨h1, h2, h3, h4, h5, h6, h7⟩

/-- the parameter set of a generated constants block -/
def ofConsts (c : GV.Gen.FieldConsts) : Params := ⟨c.q, c.word, c.limbs, c.qInvNeg⟩

/-- little-endian limbs → Nat -/
def limbsVal (w : Nat) : List Nat → Nat
  | [] => 0
  | l :: ls => l + 2 ^ w * limbsVal w ls

/-- toy parameter sets for the non-vacuity examples: one word, `q ≡ 1 (mod 4)`; two words, `q ≡ 3 (mod 4)` -/
def p13 : Params := ⟨13, 4, 1, 11⟩
def p251 : Params := ⟨251, 4, 2, 13⟩
theorem ok13 : p13.OK := Params.OK_of_okb _ (by decide)
theorem ok251 : p251.OK := Params.OK_of_okb _ (by decide)
instance prime13 : Fact p13.q.Prime := ⟨by norm_num [p13]⟩
instance prime251 : Fact p251.q.Prime := ⟨by norm_num [p251]⟩

end GV.Field
