import GnarkVerif.Model.Bytes
import GnarkVerif.Proofs.Conv
import GnarkVerif.Proofs.Field
/-
Generic lemmas for C08_gen: slices of a byte array after `putSlice`, the words read from / written to the chunks of an
array are the limbs of its big- or little-endian value.
-/
namespace GV.Conv
open GV.Bytes

theorem slice_length (b : List UInt8) (i j : Nat) (h : j ≤ b.length) : (slice b i j).length = j - i := by
  unfold slice; rw [List.length_take, List.length_drop]; omega

/-- with the hypotheses the translator checks (`i ≤ j ≤ len`, exactly `j - i` bytes written) -/
theorem putSlice_eq (b : List UInt8) (i j : Nat) (w : List UInt8) (_hij : i ≤ j) (hj : j ≤ b.length) (hw : w.length = j - i) :
    putSlice b i j w = b.take i ++ w ++ b.drop j := by
  unfold putSlice
  have : (slice b i j).drop w.length = [] := by
    apply List.drop_eq_nil_of_le; rw [slice_length b i j hj]; omega
  rw [this, List.append_nil]

theorem length_putSlice (b : List UInt8) (i j : Nat) (w : List UInt8) (hij : i ≤ j) (hj : j ≤ b.length) (hw : w.length = j - i) :
    (putSlice b i j w).length = b.length := by
  rw [putSlice_eq b i j w hij hj hw]
  simp only [List.length_append, List.length_take, List.length_drop]
  omega

theorem slice_putSlice_same (b : List UInt8) (i j : Nat) (w : List UInt8) (hij : i ≤ j) (hj : j ≤ b.length) (hw : w.length = j - i) :
    slice (putSlice b i j w) i j = w := by
  rw [putSlice_eq b i j w hij hj hw]
  unfold slice
  have h1 : (b.take i).length = i := by rw [List.length_take]; omega
  rw [List.append_assoc, List.drop_left' h1, List.take_left' hw]

theorem slice_putSlice_disj (b : List UInt8) (i j i' j' : Nat) (w : List UInt8) (hij : i ≤ j) (hj : j ≤ b.length)
    (hw : w.length = j - i) (hd : j' ≤ i ∨ j ≤ i') :
    slice (putSlice b i j w) i' j' = slice b i' j' := by
  rw [putSlice_eq b i j w hij hj hw]
  unfold slice
  apply List.ext_getElem?
  intro k
  simp only [List.getElem?_take, List.getElem?_drop, List.getElem?_append, List.length_take, List.length_append]
  have hm : min i b.length = i := by omega
  rw [hm]
  by_cases hk : k < j' - i'
  · simp only [hk, if_true]
    rcases hd with hd | hd
    · rw [if_pos (by omega), if_pos (by omega), if_pos (by omega)]
    · rw [if_neg (by omega)]
      congr 1
      omega
  · simp [hk]

theorem beUint_slice (k : Nat) (b : List UInt8) (i j : Nat) (h : j - i ≤ k) : beUint k (slice b i j) = beToNat (slice b i j) := by
  unfold beUint slice; rw [List.take_take, Nat.min_eq_right h]

theorem leUint_slice (k : Nat) (b : List UInt8) (i j : Nat) (h : j - i ≤ k) : leUint k (slice b i j) = leToNat (slice b i j) := by
  unfold leUint slice; rw [List.take_take, Nat.min_eq_right h]

theorem toArray_eq (n : Nat) (e : List UInt8) (h : e.length = n) : toArray n e = e := by
  unfold toArray; exact List.take_of_length_le (by omega)

theorem limbsVal_eq_ofLimbs (w : Nat) (ls : List Nat) : GV.Field.limbsVal w ls = ofLimbs w ls := by
  induction ls with
  | nil => rfl
  | cons l ls ih => simp only [GV.Field.limbsVal, ofLimbs, ih]

theorem ofLimbs_single (w r : Nat) : ofLimbs w [r] = r := by
  show r + 2 ^ w * 0 = r
  omega

theorem chunks_take_length (wb : Nat) : ∀ n (b : List UInt8), ∀ c ∈ chunks wb n b, c.length ≤ wb := by
  intro n
  induction n with
  | zero => intro b c hc; simp [chunks] at hc
  | succ n ih =>
    intro b c hc
    simp only [chunks, List.mem_cons] at hc
    rcases hc with rfl | hc
    · rw [List.length_take]; omega
    · exact ih _ c hc

/-- every word loaded from a `wb`-byte chunk is a `8·wb`-bit word -/
theorem limbsOfBE_lt (wb n : Nat) (b : List UInt8) : ∀ l ∈ limbsOfBE wb n b, l < 256 ^ wb := by
  intro l hl
  simp only [limbsOfBE, List.mem_reverse, List.mem_map] at hl
  obtain ⟨c, hc, rfl⟩ := hl
  exact lt_of_lt_of_le (beToNat_lt c) (Nat.pow_le_pow_right (by omega) (chunks_take_length wb n b c hc))

theorem limbsOfLE_lt (wb n : Nat) (b : List UInt8) : ∀ l ∈ limbsOfLE wb n b, l < 256 ^ wb := by
  intro l hl
  simp only [limbsOfLE, List.mem_map] at hl
  obtain ⟨c, hc, rfl⟩ := hl
  exact lt_of_lt_of_le (leToNat_lt c) (Nat.pow_le_pow_right (by omega) (chunks_take_length wb n b c hc))

/-- an array whose `wb`-byte chunks, read big-endian from the END, are the words `ls` is the big-endian encoding of `Σ lsᵢ·2^(8·wb·i)` -/
theorem eq_natToBE_of_limbs (wb n : Nat) (B : List UInt8) (ls : List Nat) (hB : B.length = n * wb)
    (h : limbsOfBE wb n B = ls) : B = natToBE (n * wb) (ofLimbs (8 * wb) ls) := by
  rw [← h, ofLimbs_limbsOfBE wb n B hB, ← hB, natToBE_beToNat]

theorem eq_natToLE_of_limbs (wb n : Nat) (B : List UInt8) (ls : List Nat) (hB : B.length = n * wb)
    (h : limbsOfLE wb n B = ls) : B = natToLE (n * wb) (ofLimbs (8 * wb) ls) := by
  rw [← h, ofLimbs_limbsOfLE wb n B hB, ← hB, natToLE_leToNat]

theorem beToNat_natToBE_of_lt (k v : Nat) (h : v < 256 ^ k) : beToNat (natToBE k v) = v := by
  rw [beToNat_natToBE, Nat.mod_eq_of_lt h]

theorem leToNat_natToLE_of_lt (k v : Nat) (h : v < 256 ^ k) : leToNat (natToLE k v) = v := by
  rw [leToNat_natToLE, Nat.mod_eq_of_lt h]

end GV.Conv

namespace GV.Conv
open GV.Field

/-- `toMont v = v·R mod q` (used where the Go text computes the Montgomery form by a shift and a remainder: koalabear, babybear) -/
theorem toMont_eq_mulR (p : Params) (h : p.OK) (v : Nat) (hv : v < p.q) : toMont p v = (v * p.R) % p.q := by
  have hq : 0 < p.q := by omega
  apply abs_inj p h _ _ (toMont_lt p h v hv) (Nat.mod_lt _ hq)
  rw [abs_toMont p h v hv, eq_comm, abs_eq_iff p h, ZMod.natCast_mod]
  push_cast
  rfl

end GV.Conv
