import GnarkVerif.Proofs.MerkleAcc
/-
Helper lemmas for C16, part A.4: `PushSubTree` at an aligned position of a tree filled by `Push`.
-/
namespace GV.Merkle
set_option linter.unusedSectionVars false

section Sub
variable {A D : Type} [Inhabited D] (hl : A → D) (hn : D → D → D)

theorem le_of_two_pow_dvd (h H n : Nat) (hd : 2^h ∣ n) (h0 : 0 < n) (hlt : n < 2^(H+1)) : h ≤ H := by
  by_contra hc
  have : 2^(H+1) ∣ 2^h := Nat.pow_dvd_pow 2 (by omega)
  have := Nat.le_of_dvd h0 (Nat.dvd_trans this hd)
  omega

/-- at a position that is a multiple of `2^h` every sub-tree on the stack has height ≥ `h` -/
theorem blocks_ge_of_dvd (h : Nat) : ∀ (H : Nat) (X : List A), X.length < 2^H → 2^h ∣ X.length →
    ∀ e ∈ blocks hl hn H X, h ≤ e.1
  | 0, _, _, _ => by simp [blocks]
  | H+1, X, hX, hd => by
    have hp := two_pow_pos H
    intro e he
    unfold blocks at he
    split at he
    · exact blocks_ge_of_dvd h H X (by assumption) hd e he
    · have hH : h ≤ H := le_of_two_pow_dvd h H X.length hd (by omega) hX
      split at he
      · simp at he; rw [he]; exact hH
      · rcases List.mem_append.mp he with he | he
        · have l2 : (X.drop (2^H)).length = X.length - 2^H := by rw [List.length_drop]
          rw [pow_succ] at hX
          exact blocks_ge_of_dvd h H _ (by rw [l2]; omega)
            (by rw [l2]; exact Nat.dvd_sub hd (Nat.pow_dvd_pow 2 hH)) e he
        · simp at he; rw [he]; exact hH

theorem psibs_length_ge_of_dvd (h : Nat) : ∀ (H : Nat) (X : List A) (q : Nat), q < X.length → X.length < 2^H →
    2^h ∣ X.length → h ≤ (psibs hl hn H X q).length
  | 0, X, q, h0, h1, _ => by rw [pow_zero] at h1; omega
  | H+1, X, q, h0, h1, hd => by
    have hp := two_pow_pos H
    have hH : h ≤ H := le_of_two_pow_dvd h H X.length hd (by omega) h1
    rw [pow_succ] at h1
    unfold psibs
    split
    · exact psibs_length_ge_of_dvd h H X q h0 (by assumption) hd
    · split
      · rw [mpath_length_full hl hn H X q (by assumption)]; exact hH
      · have l1 : (X.take (2^H)).length = 2^H := by rw [List.length_take]; omega
        have l2 : (X.drop (2^H)).length = X.length - 2^H := by rw [List.length_drop]
        split
        · rw [mpath_length_full hl hn H _ q l1]; exact hH
        · exact psibs_length_ge_of_dvd h H (X.drop (2^H)) (q - 2^H) (by rw [l2]; omega) (by rw [l2]; omega)
            (by rw [l2]; exact Nat.dvd_sub hd (Nat.pow_dvd_pow 2 hH))

/-- pushing the `2^h` leaves `X` after the leaves `L1` (aligned, proof index outside `X`) = `PushSubTree` of `MTH X` -/
theorem pushAll_init_append_full (L1 X : List A) (h p : Nat) (pt : Bool) (hX : X.length = 2^h) (hd : 2^h ∣ L1.length)
    (hp : ¬ (L1.length ≤ p ∧ p < L1.length + 2^h)) :
    pushAll hl hn ⟨[], 0, p, none, [], pt⟩ (L1 ++ X) =
      pushSubTreeRaw hn (pushAll hl hn ⟨[], 0, p, none, [], pt⟩ L1) h (MTH hl hn X) := by
  have hlt : L1.length < 2^L1.length := Nat.lt_two_pow_self
  have hm : MTH hl hn X = mth hl hn h X :=
    mth_fuel hl hn X.length h X (Nat.le_of_lt Nat.lt_two_pow_self) (Nat.le_of_eq hX)
  rw [pushAll_append, pushAll_init, hm]
  refine pushAll_full_out hl hn h X _ _ p _ _ pt hX (blocks_ge_of_dvd hl hn h _ L1 hlt hd) hd hp ?_
  intro hs
  by_cases hpl : p < L1.length
  · simp only [hpl, if_true]
    exact psibs_length_ge_of_dvd hl hn h _ L1 p hpl hlt hd
  · simp [hpl] at hs

end Sub
end GV.Merkle
