import GnarkVerif.Proofs.MSM
/-
C04 — the limb / mask / shift selection of `partitionScalars` (incl. the window that straddles two limbs)
extracts exactly the bits `[chunk·c, chunk·c + c)` of the scalar.
-/
namespace GV.MSM

theorem limbOf_testBit (s i k : Nat) :
    (limbOf s i).testBit k = (decide (k < 64) && s.testBit (64 * i + k)) := by
  unfold limbOf
  rw [Nat.testBit_mod_two_pow, Nat.testBit_shiftRight]

/-- the boolean `multiWordSelect` of the selector -/
def selMulti (limbs c chunk : Nat) : Bool :=
  (64 % c != 0) && decide (chunk * c - chunk * c / 64 * 64 > 64 - c) && decide (chunk * c / 64 < limbs - 1)

theorem window_unfold (limbs c s chunk : Nat) :
    window limbs c s chunk =
      if selMulti limbs c chunk = true then
        ((limbOf s (chunk * c / 64) &&& (((1 <<< c) - 1) <<< (chunk * c - chunk * c / 64 * 64)) % 2^64)
            >>> (chunk * c - chunk * c / 64 * 64)) +
          ((limbOf s (chunk * c / 64 + 1) &&& ((1 <<< (chunk * c - chunk * c / 64 * 64 - (64 - c))) - 1))
            <<< (c - (chunk * c - chunk * c / 64 * 64 - (64 - c))))
      else
        (limbOf s (chunk * c / 64) &&& (((1 <<< c) - 1) <<< (chunk * c - chunk * c / 64 * 64)) % 2^64)
            >>> (chunk * c - chunk * c / 64 * 64) := by
  unfold window mkSelector selMulti
  dsimp only
  generalize ((64 % c != 0) && decide (chunk * c - chunk * c / 64 * 64 > 64 - c) &&
    decide (chunk * c / 64 < limbs - 1)) = M
  cases M <;> simp

theorem lowPart_testBit (w sh c i : Nat) :
    ((w &&& (((1 <<< c) - 1) <<< sh) % 2^64) >>> sh).testBit i =
      (decide (i < c) && decide (sh + i < 64) && w.testBit (sh + i)) := by
  rw [Nat.testBit_shiftRight, Nat.testBit_and, Nat.testBit_mod_two_pow, Nat.testBit_shiftLeft,
    Nat.one_shiftLeft, Nat.testBit_two_pow_sub_one]
  have e1 : sh + i - sh = i := by omega
  rw [e1]
  by_cases h1 : i < c <;> by_cases h2 : sh + i < 64 <;> simp [h1, h2]

theorem highPart_testBit (w nbH k i : Nat) :
    ((w &&& ((1 <<< nbH) - 1)) <<< k).testBit i =
      (decide (i ≥ k) && (w.testBit (i - k) && decide (i - k < nbH))) := by
  rw [Nat.testBit_shiftLeft, Nat.testBit_and, Nat.one_shiftLeft, Nat.testBit_two_pow_sub_one]

theorem testBit_high_false (s n k : Nat) (hs : s < 2^n) (hk : n ≤ k) : s.testBit k = false :=
  Nat.testBit_lt_two_pow (Nat.lt_of_lt_of_le hs (Nat.pow_le_pow_right (by decide) hk))

/-- **window selection**: for every window size 1 ≤ c ≤ 64, every limb count and every chunk inside the limbs -/
theorem window_eq (limbs c s chunk : Nat) (hc1 : 1 ≤ c) (hc : c ≤ 64) (hs : s < 2^(64 * limbs))
    (hch : chunk * c < 64 * limbs) : window limbs c s chunk = s / 2^(chunk * c) % 2^c := by
  rw [window_unfold]
  have hdvd : c ∣ chunk * c := ⟨chunk, Nat.mul_comm _ _⟩
  unfold selMulti
  generalize chunk * c = jc at *
  have hidx : jc = 64 * (jc / 64) + (jc - jc / 64 * 64) := by omega
  have hsh : jc - jc / 64 * 64 < 64 := by omega
  generalize jc / 64 = idx at *
  generalize jc - idx * 64 = sh at *
  apply Nat.eq_of_testBit_eq
  intro i
  rw [← Nat.shiftRight_eq_div_pow, Nat.testBit_mod_two_pow, Nat.testBit_shiftRight]
  have hpos : jc + i = 64 * idx + (sh + i) := by omega
  split
  · rename_i hm
    simp only [Bool.and_eq_true, decide_eq_true_eq, bne_iff_ne, ne_eq] at hm
    obtain ⟨⟨_, hgt⟩, hlt⟩ := hm
    -- the low part is below 2^(64-sh)
    have hk : c - (sh - (64 - c)) = 64 - sh := by omega
    rw [hk]
    have hlow : ((limbOf s idx &&& (((1 <<< c) - 1) <<< sh) % 2^64) >>> sh) < 2^(64 - sh) := by
      apply Nat.lt_pow_two_of_testBit
      intro j hj
      rw [lowPart_testBit]
      have : ¬ (sh + j < 64) := by omega
      simp [this]
    rw [Nat.add_comm, Nat.shiftLeft_add_eq_or_of_lt hlow, Nat.testBit_or, highPart_testBit, lowPart_testBit,
      limbOf_testBit, limbOf_testBit, hpos]
    by_cases h1 : i < c
    · by_cases h2 : sh + i < 64
      · have : ¬ (i ≥ 64 - sh) := by omega
        simp [h1, h2, this]
      · have h3 : i ≥ 64 - sh := by omega
        have h4 : i - (64 - sh) < sh - (64 - c) := by omega
        have h5 : i - (64 - sh) < 64 := by omega
        have h6 : 64 * (idx + 1) + (i - (64 - sh)) = 64 * idx + (sh + i) := by omega
        simp [h1, h2, h3, h4, h5, h6]
    · have h4 : ¬ (i - (64 - sh) < sh - (64 - c)) := by omega
      simp [h1, h4]
  · rename_i hm
    rw [lowPart_testBit, limbOf_testBit, hpos]
    by_cases h1 : i < c
    · by_cases h2 : sh + i < 64
      · simp [h1, h2]
      · -- the window would leave the limb: impossible, or the bits are above the scalar
        have hfalse : s.testBit (64 * idx + (sh + i)) = false := by
          simp only [Bool.and_eq_true, decide_eq_true_eq, bne_iff_ne, ne_eq, not_and, not_lt] at hm
          by_cases hd : 64 % c = 0
          · exfalso
            have h64 : c ∣ 64 := Nat.dvd_of_mod_eq_zero hd
            have hsh' : c ∣ sh := by
              have : sh = jc - 64 * idx := by omega
              rw [this]
              exact Nat.dvd_sub hdvd (Dvd.dvd.mul_right h64 idx)
            have h3 : c ∣ 64 - sh := Nat.dvd_sub h64 hsh'
            have h4 : c ≤ 64 - sh := Nat.le_of_dvd (by omega) h3
            omega
          · by_cases hg : sh > 64 - c
            · have := hm ⟨hd, hg⟩
              exact testBit_high_false s (64 * limbs) _ hs (by omega)
            · exfalso; omega
        simp [h1, h2, hfalse]
    · simp [h1]

end GV.MSM
