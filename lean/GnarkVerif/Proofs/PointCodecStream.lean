import GnarkVerif.Proofs.PointCodec
/-
C07 — helper lemmas for the stream level (`Decoder` / `Encoder` of Model/PointCodec.lean): byte counters, error
propagation through (nested) slices, items of a point slice are individually validated, round trips.
-/
namespace GV.PointCodec
open GV GV.Alg
set_option linter.unusedSectionVars false

variable {τ σ : Type}

/-! ## inversion of the combinators -/

theorem decMany_zero (item : List UInt8 → DR τ) (bs : List UInt8) : decMany item 0 bs = ⟨.ok [], 0⟩ := rfl

theorem decMany_succ_err (item : List UInt8 → DR τ) (k : Nat) (bs : List UInt8) (e : Err) (n : Nat)
    (h : item bs = ⟨.error e, n⟩) : decMany item (k + 1) bs = ⟨.error e, n⟩ := by
  rw [decMany, h]

theorem decMany_succ_ok_err (item : List UInt8 → DR τ) (k : Nat) (bs : List UInt8) (v : τ) (n : Nat) (e : Err) (m : Nat)
    (h : item bs = ⟨.ok v, n⟩) (h2 : decMany item k (bs.drop n) = ⟨.error e, m⟩) :
    decMany item (k + 1) bs = ⟨.error e, n + m⟩ := by
  rw [decMany, h]; simp only; rw [h2]

theorem decMany_succ_ok_ok (item : List UInt8 → DR τ) (k : Nat) (bs : List UInt8) (v : τ) (n : Nat) (vs : List τ) (m : Nat)
    (h : item bs = ⟨.ok v, n⟩) (h2 : decMany item k (bs.drop n) = ⟨.ok vs, m⟩) :
    decMany item (k + 1) bs = ⟨.ok (v :: vs), n + m⟩ := by
  rw [decMany, h]; simp only; rw [h2]

/-- case analysis of one more item -/
theorem decMany_succ_cases (item : List UInt8 → DR τ) (k : Nat) (bs : List UInt8) :
    (∃ e n, item bs = ⟨.error e, n⟩ ∧ decMany item (k + 1) bs = ⟨.error e, n⟩) ∨
    (∃ v n e m, item bs = ⟨.ok v, n⟩ ∧ decMany item k (bs.drop n) = ⟨.error e, m⟩ ∧
      decMany item (k + 1) bs = ⟨.error e, n + m⟩) ∨
    (∃ v n vs m, item bs = ⟨.ok v, n⟩ ∧ decMany item k (bs.drop n) = ⟨.ok vs, m⟩ ∧
      decMany item (k + 1) bs = ⟨.ok (v :: vs), n + m⟩) := by
  rcases hr : item bs with ⟨res, n⟩
  cases res with
  | error e => exact Or.inl ⟨e, n, rfl, decMany_succ_err item k bs e n hr⟩
  | ok v =>
    rcases hr2 : decMany item k (bs.drop n) with ⟨res2, m⟩
    cases res2 with
    | error e => exact Or.inr (Or.inl ⟨v, n, e, m, rfl, hr2, decMany_succ_ok_err item k bs v n e m hr hr2⟩)
    | ok vs => exact Or.inr (Or.inr ⟨v, n, vs, m, rfl, hr2, decMany_succ_ok_ok item k bs v n vs m hr hr2⟩)

theorem decMany_succ_ok (item : List UInt8 → DR τ) (k : Nat) (bs : List UInt8) (l : List τ) (t : Nat)
    (h : decMany item (k + 1) bs = ⟨.ok l, t⟩) :
    ∃ v n vs m, item bs = ⟨.ok v, n⟩ ∧ decMany item k (bs.drop n) = ⟨.ok vs, m⟩ ∧ l = v :: vs ∧ t = n + m := by
  rcases decMany_succ_cases item k bs with ⟨e, n, _, h2⟩ | ⟨v, n, e, m, _, _, h2⟩ | ⟨v, n, vs, m, h1, h2, h3⟩
  · rw [h2] at h; injection h with h; cases h
  · rw [h2] at h; injection h with h; cases h
  · rw [h3] at h; injection h with ha hb; injection ha with ha
    exact ⟨v, n, vs, m, h1, h2, ha.symm, hb.symm⟩

theorem decPrefixed_eq (item : List UInt8 → DR τ) (bs : List UInt8) (hl : 4 ≤ bs.length) :
    decPrefixed item bs =
      ⟨(decMany item (beToNat (bs.take 4)) (bs.drop 4)).res, 4 + (decMany item (beToNat (bs.take 4)) (bs.drop 4)).n⟩ := by
  unfold decPrefixed decUint
  rw [if_neg (by omega)]

theorem decPrefixed_short (item : List UInt8 → DR τ) (bs : List UInt8) (hl : bs.length < 4) :
    decPrefixed item bs = ⟨.error .short, bs.length⟩ := by
  unfold decPrefixed decUint
  rw [if_pos hl]

/-! ## byte counters never exceed the input -/

/-- a decoding step never reports more bytes than the stream holds -/
def Bounded (d : List UInt8 → DR τ) : Prop := ∀ bs, (d bs).n ≤ bs.length

theorem decUint_bounded (k : Nat) : Bounded (decUint k) := by
  intro bs; unfold decUint; split
  · exact Nat.le_refl _
  · simp only; omega

theorem decElem_bounded (q B : Nat) : Bounded (decElem q B) := by
  intro bs; unfold decElem; split
  · exact Nat.le_refl _
  · split <;> (try simp only) <;> omega

theorem decMany_bounded {item : List UInt8 → DR τ} (hi : Bounded item) (k : Nat) : Bounded (decMany item k) := by
  intro bs
  induction k generalizing bs with
  | zero => simp [decMany]
  | succ k ih =>
    have hb := hi bs
    rcases decMany_succ_cases item k bs with ⟨e, n, h1, h2⟩ | ⟨v, n, e, m, h1, h3, h2⟩ | ⟨v, n, vs, m, h1, h3, h2⟩
    · rw [h2]; rw [h1] at hb; exact hb
    · rw [h2]; rw [h1] at hb
      have := ih (bs.drop n); rw [h3, List.length_drop] at this
      simp only at hb this ⊢; omega
    · rw [h2]; rw [h1] at hb
      have := ih (bs.drop n); rw [h3, List.length_drop] at this
      simp only at hb this ⊢; omega

theorem decPrefixed_bounded {item : List UInt8 → DR τ} (hi : Bounded item) : Bounded (decPrefixed item) := by
  intro bs
  by_cases hl : bs.length < 4
  · rw [decPrefixed_short item bs hl]
  · rw [decPrefixed_eq item bs (by omega)]
    have := decMany_bounded hi (beToNat (bs.take 4)) (bs.drop 4)
    rw [List.length_drop] at this
    simp only; omega

/-! ## error propagation -/

/-- an item that fails after `i` good items fails the whole sequence, whatever `j` items were still expected,
with the item's error and the bytes consumed so far -/
theorem decMany_error_at (item : List UInt8 → DR τ) (i j : Nat) (bs : List UInt8) (vs : List τ) (n1 : Nat)
    (e : Err) (m : Nat) (h1 : decMany item i bs = ⟨.ok vs, n1⟩) (h2 : item (bs.drop n1) = ⟨.error e, m⟩) :
    decMany item (i + 1 + j) bs = ⟨.error e, n1 + m⟩ := by
  induction i generalizing bs vs n1 with
  | zero =>
    rw [decMany_zero] at h1
    injection h1 with _ hn; subst hn
    rw [List.drop_zero] at h2
    rw [show 0 + 1 + j = j + 1 by omega, Nat.zero_add]
    exact decMany_succ_err item j bs e m h2
  | succ i ih =>
    obtain ⟨v, n, vs', m', hv, hrest, _, hn⟩ := decMany_succ_ok item i bs vs n1 h1
    subst hn
    have h2' : item ((bs.drop n).drop m') = ⟨.error e, m⟩ := by rw [List.drop_drop]; exact h2
    have := ih (bs.drop n) vs' m' hrest h2'
    rw [show i + 1 + 1 + j = (i + 1 + j) + 1 by omega]
    rw [decMany_succ_ok_err item (i + 1 + j) bs v n e (m' + m) hv this, Nat.add_assoc]

/-- the same through a length prefix -/
theorem decPrefixed_error_at (item : List UInt8 → DR τ) (i j : Nat) (bs : List UInt8) (hl : 4 ≤ bs.length)
    (hlen : beToNat (bs.take 4) = i + 1 + j) (vs : List τ) (n1 : Nat) (e : Err) (m : Nat)
    (h1 : decMany item i (bs.drop 4) = ⟨.ok vs, n1⟩) (h2 : item (bs.drop (4 + n1)) = ⟨.error e, m⟩) :
    decPrefixed item bs = ⟨.error e, 4 + (n1 + m)⟩ := by
  rw [decPrefixed_eq item bs hl, hlen]
  rw [decMany_error_at item i j (bs.drop 4) vs n1 e m h1 (by rw [List.drop_drop]; exact h2)]

/-- a successful sequence splits at every index into successful parts -/
theorem decMany_ok_split (item : List UInt8 → DR τ) (i j : Nat) (bs : List UInt8) (l : List τ) (t : Nat)
    (h : decMany item (i + j) bs = ⟨.ok l, t⟩) :
    ∃ v1 n1 v2 n2, decMany item i bs = ⟨.ok v1, n1⟩ ∧ decMany item j (bs.drop n1) = ⟨.ok v2, n2⟩ ∧
      l = v1 ++ v2 ∧ t = n1 + n2 := by
  induction i generalizing bs l t with
  | zero =>
    rw [Nat.zero_add] at h
    exact ⟨[], 0, l, t, rfl, by simpa using h, by simp, by simp⟩
  | succ i ih =>
    rw [show i + 1 + j = (i + j) + 1 by omega] at h
    obtain ⟨v, n, vs, m, hv, hrest, hl, ht⟩ := decMany_succ_ok item (i + j) bs l t h
    obtain ⟨v1, n1, v2, n2, ha, hb, hc, hd⟩ := ih (bs.drop n) vs m hrest
    refine ⟨v :: v1, n + n1, v2, n2, decMany_succ_ok_ok item i bs v n v1 n1 hv ha, ?_, ?_, ?_⟩
    · rw [← List.drop_drop]; exact hb
    · rw [hl, hc]; rfl
    · omega

/-! ## what a successful sequence looks like: consecutive chunks, each accepted by the item decoder -/

/-- `R chunk v`: the item decoder accepts exactly `chunk` and yields `v` -/
def ItemRel (item : List UInt8 → DR τ) (R : List UInt8 → τ → Prop) : Prop :=
  ∀ bs v n, item bs = ⟨.ok v, n⟩ → n ≤ bs.length ∧ R (bs.take n) v

theorem decMany_chunks {item : List UInt8 → DR τ} {R : List UInt8 → τ → Prop} (hR : ItemRel item R)
    (k : Nat) (bs : List UInt8) (l : List τ) (t : Nat) (h : decMany item k bs = ⟨.ok l, t⟩) :
    t ≤ bs.length ∧ l.length = k ∧ ∃ chunks, bs.take t = chunks.flatten ∧ List.Forall₂ R chunks l := by
  induction k generalizing bs l t with
  | zero =>
    rw [decMany_zero] at h
    injection h with h1 h2; injection h1 with h1
    subst h1 h2
    exact ⟨Nat.zero_le _, rfl, [], by simp, List.Forall₂.nil⟩
  | succ k ih =>
    obtain ⟨v, n, vs, m, hv, hrest, hl, ht⟩ := decMany_succ_ok item k bs l t h
    obtain ⟨hn, hr⟩ := hR bs v n hv
    obtain ⟨hm, hlen, chunks, hc, hf⟩ := ih (bs.drop n) vs m hrest
    rw [List.length_drop] at hm
    subst hl ht
    refine ⟨by omega, by simp [hlen], bs.take n :: chunks, ?_, List.Forall₂.cons hr hf⟩
    rw [List.take_add, List.flatten_cons, hc]

theorem decPrefixed_chunks {item : List UInt8 → DR τ} {R : List UInt8 → τ → Prop} (hR : ItemRel item R)
    (bs : List UInt8) (l : List τ) (t : Nat) (h : decPrefixed item bs = ⟨.ok l, t⟩) :
    t ≤ bs.length ∧ ∃ chunks, bs.take t = putBE 4 l.length ++ chunks.flatten ∧ List.Forall₂ R chunks l := by
  by_cases hl : bs.length < 4
  · rw [decPrefixed_short item bs hl] at h; injection h with h; cases h
  · have hl4 : 4 ≤ bs.length := by omega
    rw [decPrefixed_eq item bs hl4] at h
    injection h with h1 h2
    rcases hd : decMany item (beToNat (bs.take 4)) (bs.drop 4) with ⟨res, m⟩
    rw [hd] at h1 h2
    simp only at h1 h2
    subst h1 h2
    obtain ⟨hm, hlen, chunks, hc, hf⟩ := decMany_chunks hR _ _ l m hd
    rw [List.length_drop] at hm
    refine ⟨by omega, chunks, ?_, hf⟩
    rw [List.take_add, hc, hlen]
    congr 1
    have := putBE_beToNat (bs.take 4)
    rw [List.length_take, Nat.min_eq_left hl4] at this
    exact this.symm

/-! ## round trip of the combinators -/

theorem decMany_roundtrip {item : List UInt8 → DR τ} (enc : σ → List UInt8) (R : σ → τ → Prop) (l : List σ)
    (hi : ∀ x ∈ l, ∀ rest, ∃ y, item (enc x ++ rest) = ⟨.ok y, (enc x).length⟩ ∧ R x y) (rest : List UInt8) :
    ∃ ys, decMany item l.length ((l.map enc).flatten ++ rest) = ⟨.ok ys, (l.map enc).flatten.length⟩ ∧
      List.Forall₂ R l ys := by
  induction l with
  | nil => exact ⟨[], rfl, List.Forall₂.nil⟩
  | cons x xs ih =>
    obtain ⟨ys, hys, hf⟩ := ih (fun y hy => hi y (by simp [hy]))
    obtain ⟨y, hy, hr⟩ := hi x (by simp) ((xs.map enc).flatten ++ rest)
    refine ⟨y :: ys, ?_, List.Forall₂.cons hr hf⟩
    simp only [List.map_cons, List.flatten_cons, List.length_cons, List.append_assoc, List.length_append]
    apply decMany_succ_ok_ok item xs.length _ y _ ys _ hy
    rw [List.drop_append_of_le_length (Nat.le_refl _), List.drop_of_length_le (Nat.le_refl _)]
    simpa using hys

theorem decPrefixed_roundtrip {item : List UInt8 → DR τ} (enc : σ → List UInt8) (R : σ → τ → Prop) (l : List σ)
    (hlen : l.length < 2 ^ 32)
    (hi : ∀ x ∈ l, ∀ rest, ∃ y, item (enc x ++ rest) = ⟨.ok y, (enc x).length⟩ ∧ R x y) (rest : List UInt8) :
    ∃ ys, decPrefixed item (encPrefixed enc l ++ rest) = ⟨.ok ys, (encPrefixed enc l).length⟩ ∧
      List.Forall₂ R l ys := by
  obtain ⟨ys, hys, hf⟩ := decMany_roundtrip enc R l hi rest
  refine ⟨ys, ?_, hf⟩
  unfold encPrefixed
  have h4 : (putBE 4 l.length).length = 4 := putBE_length 4 _
  have htake : List.take 4 (putBE 4 l.length ++ (l.map enc).flatten ++ rest) = putBE 4 l.length := by
    rw [List.append_assoc, List.take_append_of_le_length (by omega), List.take_of_length_le (by omega)]
  have hdrop : List.drop 4 (putBE 4 l.length ++ (l.map enc).flatten ++ rest) = (l.map enc).flatten ++ rest := by
    rw [List.append_assoc, List.drop_append_of_le_length (by omega), List.drop_of_length_le (by omega)]
    rfl
  rw [decPrefixed_eq _ _ (by simp [List.length_append, h4])]
  rw [htake, hdrop, beToNat_putBE, Nat.mod_eq_of_lt (by norm_num at hlen ⊢; exact hlen), hys]
  simp [List.length_append, h4]

/-- decoders that return exactly what the encoder was given -/
def Exact (item : List UInt8 → DR σ) (enc : σ → List UInt8) (ok : σ → Prop) : Prop :=
  ∀ x, ok x → ∀ rest, item (enc x ++ rest) = ⟨.ok x, (enc x).length⟩

theorem forall₂_eq {l ys : List σ} (h : List.Forall₂ (fun x y => y = x) l ys) : ys = l := by
  induction h with
  | nil => rfl
  | cons h1 _ ih => rw [h1, ih]

theorem decPrefixed_exact {item : List UInt8 → DR σ} {enc : σ → List UInt8} {ok : σ → Prop} (h : Exact item enc ok) :
    Exact (decPrefixed item) (encPrefixed enc) (fun l => l.length < 2 ^ 32 ∧ ∀ x ∈ l, ok x) := by
  intro l ⟨hlen, hall⟩ rest
  obtain ⟨ys, hys, hf⟩ := decPrefixed_roundtrip enc (fun x y => y = x) l hlen
    (fun x hx rest => ⟨x, h x (hall x hx) rest, rfl⟩) rest
  rw [hys, forall₂_eq hf]

theorem decUint_exact (k : Nat) : Exact (decUint k) (putBE k) (fun v => v < 256 ^ k) := by
  intro v hv rest
  unfold decUint
  rw [if_neg (by simp [List.length_append])]
  rw [List.take_append_of_le_length (by simp), List.take_of_length_le (by simp), beToNat_putBE,
    Nat.mod_eq_of_lt hv, putBE_length]

theorem decElem_exact (q B : Nat) (hq : q ≤ 256 ^ B) : Exact (decElem q B) (putBE B) (fun v => v < q) := by
  intro v hv rest
  unfold decElem
  rw [if_neg (by simp [List.length_append])]
  rw [List.take_append_of_le_length (by simp), List.take_of_length_le (by simp), beToNat_putBE,
    Nat.mod_eq_of_lt (lt_of_lt_of_le hv hq), if_pos hv, putBE_length]

/-- a decoded field element / integer re-encodes to the bytes consumed -/
theorem decElem_rel (q B : Nat) : ItemRel (decElem q B) (fun chunk v => chunk = putBE B v ∧ v < q) := by
  intro bs v n h
  unfold decElem at h
  by_cases hl : bs.length < B
  · rw [if_pos hl] at h; injection h with h; cases h
  · rw [if_neg hl] at h
    by_cases hq : beToNat (bs.take B) < q
    · rw [if_pos hq] at h; injection h with h1 h2; injection h1 with h1
      subst h1 h2
      refine ⟨by omega, ?_, hq⟩
      have := putBE_beToNat (bs.take B)
      rw [List.length_take, Nat.min_eq_left (by omega)] at this
      exact this.symm
    · rw [if_neg hq] at h; injection h with h; cases h

theorem decUint_rel (k : Nat) : ItemRel (decUint k) (fun chunk v => chunk = putBE k v ∧ v < 256 ^ k) := by
  intro bs v n h
  unfold decUint at h
  by_cases hl : bs.length < k
  · rw [if_pos hl] at h; injection h with h; cases h
  · rw [if_neg hl] at h
    injection h with h1 h2; injection h1 with h1
    subst h1 h2
    have hlt := beToNat_lt (bs.take k)
    have := putBE_beToNat (bs.take k)
    rw [List.length_take, Nat.min_eq_left (by omega)] at this hlt
    exact ⟨by omega, this.symm, hlt⟩

/-- canonicity lifts through a length prefix: the consumed bytes are the encoding of the decoded list -/
theorem decPrefixed_rel {item : List UInt8 → DR σ} {enc : σ → List UInt8} {ok : σ → Prop}
    (h : ItemRel item (fun chunk v => chunk = enc v ∧ ok v)) :
    ItemRel (decPrefixed item) (fun chunk l => chunk = encPrefixed enc l ∧ (l.length < 2 ^ 32 ∧ ∀ x ∈ l, ok x)) := by
  intro bs l n hd
  obtain ⟨hn, chunks, htake, hf⟩ := decPrefixed_chunks h bs l n hd
  refine ⟨hn, ?_, ?_, ?_⟩
  · rw [htake]; unfold encPrefixed
    congr 1
    clear htake hd
    induction hf with
    | nil => rfl
    | cons h1 _ ih => simp [h1.1, ih]
  · -- the length was read from four bytes
    by_cases hl : bs.length < 4
    · rw [decPrefixed_short item bs hl] at hd; injection hd with hd; cases hd
    · rw [decPrefixed_eq item bs (by omega)] at hd
      injection hd with h1 _
      rcases hdm : decMany item (beToNat (bs.take 4)) (bs.drop 4) with ⟨res, m⟩
      rw [hdm] at h1; simp only at h1; subst h1
      obtain ⟨_, hlen, _⟩ := decMany_chunks h _ _ l m hdm
      rw [hlen]
      have := beToNat_lt (bs.take 4)
      rw [List.length_take, Nat.min_eq_left (by omega)] at this
      norm_num at this ⊢; exact this
  · intro x hx
    clear htake hd
    induction hf with
    | nil => cases hx
    | cons h1 _ ih =>
      rcases List.mem_cons.mp hx with rfl | hx
      · exact h1.2
      · exact ih hx

/-! ## points in streams -/

variable {α : Type} [DecidableEq α] {C : Codec α}

namespace Codec

theorem nbC_le_of_frame (h : C.OK) {buf : List UInt8} {fl : Flag} {xs ys : List Nat} {n : Nat}
    (hf : FrameOK C buf fl xs ys n) : C.nbC ≤ n := by
  by_cases hk : fl = .unc ∨ fl = .uncInf
  · rw [(hf.unc hk).1]; omega
  · rw [(hf.comp hk).1]

theorem decPointP1_ok_iff (h : C.OK) (bs : List UInt8) (pd : Pending α) (n : Nat) :
    C.decPointP1 bs = ⟨.ok pd, n⟩ ↔
      ∃ fl xs ys, C.parseFrame bs = .ok (fl, xs, ys, n) ∧ C.phase1 fl xs ys = .ok pd := by
  constructor
  · intro hd
    unfold Codec.decPointP1 at hd
    by_cases hl : bs.length < C.nbC
    · rw [if_pos hl] at hd; injection hd with hd; cases hd
    · rw [if_neg hl] at hd
      cases hpf : C.parseFrame bs with
      | error e =>
        rw [hpf] at hd
        cases e <;> (simp only at hd; injection hd with hd; cases hd)
      | ok fr =>
        obtain ⟨fl, xs, ys, n'⟩ := fr
        rw [hpf] at hd
        simp only at hd
        injection hd with h1 h2
        subst h2
        exact ⟨fl, xs, ys, rfl, h1⟩
  · rintro ⟨fl, xs, ys, hpf, hp1⟩
    have hf := parseFrame_ok h bs fl xs ys n hpf
    have := nbC_le_of_frame h hf
    have := hf.le
    unfold Codec.decPointP1
    rw [if_neg (by omega), hpf]
    simp only
    rw [hp1]

/-- `Decode(*G?Affine)` and `SetBytes` agree on what they accept, on the point and on the bytes consumed -/
theorem decPoint_ok_iff (h : C.OK) (sub : Bool) (bs : List UInt8) (P : Pt α) (n : Nat) :
    C.decPoint sub bs = ⟨.ok P, n⟩ ↔ C.setBytes sub bs = .ok (P, n) := by
  rw [setBytes_ok_iff]
  constructor
  · intro hd
    unfold Codec.decPoint at hd
    rcases hp : C.decPointP1 bs with ⟨res, m⟩
    rw [hp] at hd
    cases res with
    | error e => simp only at hd; injection hd with hd; cases hd
    | ok pd =>
      simp only at hd
      injection hd with h1 h2
      subst h2
      obtain ⟨fl, xs, ys, hpf, hp1⟩ := (decPointP1_ok_iff h bs pd m).mp hp
      exact ⟨fl, xs, ys, pd, hpf, hp1, h1⟩
  · rintro ⟨fl, xs, ys, pd, hpf, hp1, hp2⟩
    have := (decPointP1_ok_iff h bs pd n).mpr ⟨fl, xs, ys, hpf, hp1⟩
    unfold Codec.decPoint
    rw [this]
    simp only
    rw [hp2]

theorem decPointP1_bounded (h : C.OK) : Bounded C.decPointP1 := by
  intro bs
  unfold Codec.decPointP1
  by_cases hl : bs.length < C.nbC
  · rw [if_pos hl]
  · rw [if_neg hl]
    cases hpf : C.parseFrame bs with
    | error e => cases e <;> simp only <;> omega
    | ok fr =>
      obtain ⟨fl, xs, ys, n⟩ := fr
      exact (parseFrame_ok h bs fl xs ys n hpf).le

theorem decPoint_n (sub : Bool) (bs : List UInt8) : (C.decPoint sub bs).n = (C.decPointP1 bs).n := by
  unfold Codec.decPoint
  rcases C.decPointP1 bs with ⟨res, m⟩
  cases res <;> rfl

theorem decPoints_n (sub : Bool) (bs : List UInt8) :
    (C.decPoints sub bs).n = (decPrefixed C.decPointP1 bs).n := by
  unfold Codec.decPoints
  rcases decPrefixed C.decPointP1 bs with ⟨res, m⟩
  cases res <;> rfl

/-- the frame-level acceptance relation of one item of a point slice -/
def P1Rel (C : Codec α) (chunk : List UInt8) (pd : Pending α) : Prop :=
  ∃ fl xs ys, C.parseFrame chunk = .ok (fl, xs, ys, chunk.length) ∧ C.phase1 fl xs ys = .ok pd

theorem decPointP1_rel (h : C.OK) : ItemRel C.decPointP1 (P1Rel C) := by
  intro bs pd n hd
  obtain ⟨fl, xs, ys, hpf, hp1⟩ := (decPointP1_ok_iff h bs pd n).mp hd
  have hle := (parseFrame_ok h bs fl xs ys n hpf).le
  refine ⟨hle, fl, xs, ys, ?_, hp1⟩
  have := parseFrame_local h bs fl xs ys n hpf []
  rw [List.append_nil] at this
  rw [List.length_take, Nat.min_eq_left hle]
  exact this

theorem finish_ok_iff (sub : Bool) (pds : List (Pending α)) (l : List (Pt α)) :
    C.finish sub pds = .ok l ↔ List.Forall₂ (fun pd P => C.phase2 sub pd = .ok P) pds l := by
  induction pds generalizing l with
  | nil =>
    constructor
    · intro h; simp only [Codec.finish] at h; injection h with h; subst h; exact List.Forall₂.nil
    · intro h; cases h; rfl
  | cons pd rest ih =>
    constructor
    · intro h
      simp only [Codec.finish] at h
      cases hp : C.phase2 sub pd with
      | error e => rw [hp] at h; cases h
      | ok P =>
        cases hf : C.finish sub rest with
        | error e => rw [hp, hf] at h; cases h
        | ok l' =>
          rw [hp, hf] at h
          injection h with h; subst h
          exact List.Forall₂.cons hp ((ih l').mp hf)
    · intro h
      cases h with
      | cons h1 h2 =>
        simp only [Codec.finish]
        rw [h1, (ih _).mpr h2]

/-- any item failing the second phase fails the slice -/
theorem finish_error (sub : Bool) (pds : List (Pending α)) (pd : Pending α) (e : Err) (hm : pd ∈ pds)
    (he : C.phase2 sub pd = .error e) : C.finish sub pds = .error .batch := by
  induction pds with
  | nil => cases hm
  | cons hd rest ih =>
    simp only [Codec.finish]
    rcases List.mem_cons.mp hm with rfl | hm
    · rw [he]
    · rw [ih hm]
      cases C.phase2 sub hd <;> rfl

theorem forall₂_length {A B : Type} {R : A → B → Prop} {la : List A} {lb : List B}
    (h : List.Forall₂ R la lb) : la.length = lb.length := by
  induction h with
  | nil => rfl
  | cons _ _ ih => simp [ih]

theorem forall₂_comp {A B D : Type} {R : A → B → Prop} {S : B → D → Prop} {T : A → D → Prop}
    (hRS : ∀ a b d, R a b → S b d → T a d) {la : List A} {lb : List B} {ld : List D}
    (h1 : List.Forall₂ R la lb) (h2 : List.Forall₂ S lb ld) : List.Forall₂ T la ld := by
  induction h1 generalizing ld with
  | nil => cases h2; exact List.Forall₂.nil
  | cons hr _ ih =>
    cases h2 with
    | cons hs h2' => exact List.Forall₂.cons (hRS _ _ _ hr hs) (ih h2')

/-- `Decode(*[]G?Affine)` succeeds only if the stream is a length prefix followed by chunks that `SetBytes`
accepts one by one (each chunk entirely), yielding the returned points: no item escapes validation -/
theorem decPoints_items (h : C.OK) (sub : Bool) (bs : List UInt8) (l : List (Pt α)) (n : Nat)
    (hd : C.decPoints sub bs = ⟨.ok l, n⟩) :
    n ≤ bs.length ∧ ∃ chunks, bs.take n = putBE 4 l.length ++ chunks.flatten ∧
      List.Forall₂ (fun chunk P => C.setBytes sub chunk = .ok (P, chunk.length)) chunks l := by
  unfold Codec.decPoints at hd
  rcases hp : decPrefixed C.decPointP1 bs with ⟨res, m⟩
  rw [hp] at hd
  cases res with
  | error e => simp only at hd; injection hd with hd; cases hd
  | ok pds =>
    simp only at hd
    injection hd with h1 h2
    subst h2
    obtain ⟨hm, chunks, htake, hf⟩ := decPrefixed_chunks (decPointP1_rel h) bs pds m hp
    have hf2 := (finish_ok_iff sub pds l).mp h1
    refine ⟨hm, chunks, ?_, ?_⟩
    · rw [htake, forall₂_length hf2]
    · refine forall₂_comp ?_ hf hf2
      rintro chunk pd P ⟨fl, xs, ys, hpf, hp1⟩ hp2
      exact (setBytes_ok_iff sub chunk P chunk.length).mpr ⟨fl, xs, ys, pd, hpf, hp1, hp2⟩

/-- an item that fails the sequential phase at index `i` fails the slice with its error -/
theorem decPoints_error_phase1 (sub : Bool) (i j : Nat) (bs : List UInt8) (hl : 4 ≤ bs.length)
    (hlen : beToNat (bs.take 4) = i + 1 + j) (pds : List (Pending α)) (n1 : Nat) (e : Err) (m : Nat)
    (h1 : decMany C.decPointP1 i (bs.drop 4) = ⟨.ok pds, n1⟩) (h2 : C.decPointP1 (bs.drop (4 + n1)) = ⟨.error e, m⟩) :
    C.decPoints sub bs = ⟨.error e, 4 + (n1 + m)⟩ := by
  unfold Codec.decPoints
  rw [decPrefixed_error_at C.decPointP1 i j bs hl hlen pds n1 e m h1 h2]

/-- an item that fails the validation phase (square root, sign, curve equation, subgroup) fails the slice -/
theorem decPoints_error_phase2 (sub : Bool) (bs : List UInt8) (pds : List (Pending α)) (n : Nat)
    (pd : Pending α) (e : Err) (h1 : decPrefixed C.decPointP1 bs = ⟨.ok pds, n⟩) (hm : pd ∈ pds)
    (he : C.phase2 sub pd = .error e) : C.decPoints sub bs = ⟨.error .batch, n⟩ := by
  unfold Codec.decPoints
  rw [h1]
  simp only
  rw [finish_error sub pds pd e hm he]

end Codec


/-! ## points written by the encoder -/

namespace Codec

theorem buildFrame_length (fl : Flag) (xs ys : List Nat) (hx : xs ≠ []) :
    (C.buildFrame fl xs ys).length = (xs.length + ys.length) * C.fb := by
  cases xs with
  | nil => exact absurd rfl hx
  | cons x0 tl =>
    simp only [Codec.buildFrame, List.length_append, writeComps_length, List.length_cons]
    ring

theorem zeros_ne (h : C.OK) : C.zeros ≠ [] := by
  rw [zeros_eq h]; simp

theorem zeros_length : C.zeros.length = C.c := by simp [Codec.zeros]

theorem encPt_length (h : C.OK) (raw sub : Bool) (P : Pt α) (hP : C.Good sub P) :
    (encPt C raw P).length = if raw then 2 * C.nbC else C.nbC := by
  have hz := zeros_ne h
  have hzl : C.zeros.length = C.c := zeros_length
  unfold encPt
  cases raw
  · simp only [Bool.false_eq_true, if_false]
    cases P with
    | none => simp only [Codec.encCompressed]; rw [buildFrame_length _ _ _ hz, hzl]; simp [Codec.nbC]
    | some xy =>
      obtain ⟨x, y⟩ := xy
      obtain ⟨hx, _, _, _⟩ := hP
      simp only [Codec.encCompressed]
      split
      · rw [buildFrame_length _ _ _ hz, hzl]; simp [Codec.nbC]
      · have hne : C.toComps x ≠ [] := by
          intro h0; have := hx.len; rw [h0] at this; have := h.c_pos; simp at *; omega
        rw [buildFrame_length _ _ _ hne, hx.len]; simp [Codec.nbC]
  · simp only [if_true]
    cases P with
    | none => simp only [Codec.encRaw]; rw [buildFrame_length _ _ _ hz, hzl]; unfold Codec.nbC; ring
    | some xy =>
      obtain ⟨x, y⟩ := xy
      obtain ⟨hx, hy, _, _⟩ := hP
      simp only [Codec.encRaw]
      split
      · rw [buildFrame_length _ _ _ hz, hzl]; unfold Codec.nbC; ring
      · have hne : C.toComps x ≠ [] := by
          intro h0; have := hx.len; rw [h0] at this; have := h.c_pos; simp at *; omega
        rw [buildFrame_length _ _ _ hne, hx.len, hy.len]; unfold Codec.nbC; ring

/-- `SetBytes` of what the encoder writes for a valid point, in either mode -/
theorem setBytes_encPt (h : C.OK) (raw : Bool) (hL : raw = false → C.L ≠ .raw) (sub : Bool) (P : Pt α)
    (hP : C.Good sub P) (rest : List UInt8) :
    C.setBytes sub (encPt C raw P ++ rest) = .ok (P, (encPt C raw P).length) := by
  rw [encPt_length h raw sub P hP]
  unfold encPt
  cases raw
  · simp only [Bool.false_eq_true, if_false]
    exact roundtrip_compressed h (hL rfl) sub P hP rest
  · simp only [if_true]
    exact roundtrip_raw h sub P hP rest

theorem decPoint_encPt (h : C.OK) (raw : Bool) (hL : raw = false → C.L ≠ .raw) (sub : Bool) (P : Pt α)
    (hP : C.Good sub P) (rest : List UInt8) :
    C.decPoint sub (encPt C raw P ++ rest) = ⟨.ok P, (encPt C raw P).length⟩ :=
  (decPoint_ok_iff h sub _ P _).mpr (setBytes_encPt h raw hL sub P hP rest)

theorem forall₂_flip {A B : Type} {R : A → B → Prop} {la : List A} {lb : List B}
    (h : List.Forall₂ R la lb) : List.Forall₂ (fun b a => R a b) lb la := by
  induction h with
  | nil => exact List.Forall₂.nil
  | cons h1 _ ih => exact List.Forall₂.cons h1 ih

theorem decPoints_encPts (h : C.OK) (raw : Bool) (hL : raw = false → C.L ≠ .raw) (sub : Bool) (l : List (Pt α))
    (hlen : l.length < 2 ^ 32) (hl : ∀ P ∈ l, C.Good sub P) (rest : List UInt8) :
    C.decPoints sub (encPrefixed (encPt C raw) l ++ rest) = ⟨.ok l, (encPrefixed (encPt C raw) l).length⟩ := by
  obtain ⟨pds, hp, hf⟩ := decPrefixed_roundtrip (item := C.decPointP1) (encPt C raw)
    (fun P pd => C.phase2 sub pd = .ok P) l hlen
    (by
      intro P hP rest
      have hs := setBytes_encPt h raw hL sub P (hl P hP) rest
      rw [setBytes_ok_iff] at hs
      obtain ⟨fl, xs, ys, pd, hpf, hp1, hp2⟩ := hs
      exact ⟨pd, (decPointP1_ok_iff h _ pd _).mpr ⟨fl, xs, ys, hpf, hp1⟩, hp2⟩) rest
  unfold Codec.decPoints
  rw [hp]
  simp only
  rw [(finish_ok_iff sub pds l).mpr (forall₂_flip hf)]

end Codec

/-! ## values -/

variable {β : Type} [DecidableEq β]

def Val.ty : Val α β → Ty
  | .u k _ => .u k | .fr _ => .fr | .fp _ => .fp | .g1 _ => .g1 | .g2 _ => .g2 | .g1s _ => .g1s | .g2s _ => .g2s
  | .frs _ => .frs | .fps _ => .fps | .frss _ => .frss | .frsss _ => .frsss | .u64s _ => .u64s | .u64ss _ => .u64ss

structure EnvOK (E : Env α β) : Prop where
  c1 : E.C1.OK
  c2 : E.C2.OK
  fr : E.frQ ≤ 256 ^ E.frB
  fp : E.fpQ ≤ 256 ^ E.fpB

/-- a value the encoder can be given: reduced scalars, valid points, lengths that fit the `uint32` prefix -/
def ValOK (E : Env α β) (sub : Bool) : Val α β → Prop
  | .u k v => v < 256 ^ k
  | .fr v => v < E.frQ
  | .fp v => v < E.fpQ
  | .g1 P => E.C1.Good sub P
  | .g2 P => E.C2.Good sub P
  | .g1s l => l.length < 2 ^ 32 ∧ ∀ P ∈ l, E.C1.Good sub P
  | .g2s l => l.length < 2 ^ 32 ∧ ∀ P ∈ l, E.C2.Good sub P
  | .frs l => l.length < 2 ^ 32 ∧ ∀ v ∈ l, v < E.frQ
  | .fps l => l.length < 2 ^ 32 ∧ ∀ v ∈ l, v < E.fpQ
  | .frss l => l.length < 2 ^ 32 ∧ ∀ v ∈ l, v.length < 2 ^ 32 ∧ ∀ w ∈ v, w < E.frQ
  | .frsss l => l.length < 2 ^ 32 ∧ ∀ u ∈ l, u.length < 2 ^ 32 ∧ ∀ v ∈ u, v.length < 2 ^ 32 ∧ ∀ w ∈ v, w < E.frQ
  | .u64s l => l.length < 2 ^ 32 ∧ ∀ v ∈ l, v < 256 ^ 8
  | .u64ss l => l.length < 2 ^ 32 ∧ ∀ v ∈ l, v.length < 2 ^ 32 ∧ ∀ w ∈ v, w < 256 ^ 8

theorem DR.map_ok (f : σ → τ) (v : σ) (n : Nat) : (DR.map f ⟨.ok v, n⟩) = ⟨.ok (f v), n⟩ := rfl
theorem DR.map_n (f : σ → τ) (r : DR σ) : (r.map f).n = r.n := rfl

theorem decodeVal_roundtrip (E : Env α β) (hE : EnvOK E) (raw sub : Bool)
    (hL : raw = false → E.C1.L ≠ .raw ∧ E.C2.L ≠ .raw) (v : Val α β) (hv : ValOK E sub v) (rest : List UInt8) :
    decodeVal E sub v.ty (encodeVal E raw v ++ rest) = ⟨.ok v, (encodeVal E raw v).length⟩ := by
  have hfr := decElem_exact E.frQ E.frB hE.fr
  have hfp := decElem_exact E.fpQ E.fpB hE.fp
  cases v with
  | u k x => simp only [Val.ty, decodeVal, encodeVal]; rw [decUint_exact k x hv rest]; rfl
  | fr x => simp only [Val.ty, decodeVal, encodeVal]; rw [hfr x hv rest]; rfl
  | fp x => simp only [Val.ty, decodeVal, encodeVal]; rw [hfp x hv rest]; rfl
  | g1 P =>
    simp only [Val.ty, decodeVal, encodeVal]
    rw [Codec.decPoint_encPt hE.c1 raw (fun hr => (hL hr).1) sub P hv rest]; rfl
  | g2 P =>
    simp only [Val.ty, decodeVal, encodeVal]
    rw [Codec.decPoint_encPt hE.c2 raw (fun hr => (hL hr).2) sub P hv rest]; rfl
  | g1s l =>
    simp only [Val.ty, decodeVal, encodeVal]
    rw [Codec.decPoints_encPts hE.c1 raw (fun hr => (hL hr).1) sub l hv.1 hv.2 rest]; rfl
  | g2s l =>
    simp only [Val.ty, decodeVal, encodeVal]
    rw [Codec.decPoints_encPts hE.c2 raw (fun hr => (hL hr).2) sub l hv.1 hv.2 rest]; rfl
  | frs l => simp only [Val.ty, decodeVal, encodeVal]; rw [decPrefixed_exact hfr l hv rest]; rfl
  | fps l => simp only [Val.ty, decodeVal, encodeVal]; rw [decPrefixed_exact hfp l hv rest]; rfl
  | frss l =>
    simp only [Val.ty, decodeVal, encodeVal]; rw [decPrefixed_exact (decPrefixed_exact hfr) l hv rest]; rfl
  | frsss l =>
    simp only [Val.ty, decodeVal, encodeVal]
    rw [decPrefixed_exact (decPrefixed_exact (decPrefixed_exact hfr)) l hv rest]; rfl
  | u64s l => simp only [Val.ty, decodeVal, encodeVal]; rw [decPrefixed_exact (decUint_exact 8) l hv rest]; rfl
  | u64ss l =>
    simp only [Val.ty, decodeVal, encodeVal]
    rw [decPrefixed_exact (decPrefixed_exact (decUint_exact 8)) l hv rest]; rfl

theorem decodeSeq_roundtrip (E : Env α β) (hE : EnvOK E) (raw sub : Bool)
    (hL : raw = false → E.C1.L ≠ .raw ∧ E.C2.L ≠ .raw) (vs : List (Val α β)) (hv : ∀ v ∈ vs, ValOK E sub v)
    (rest : List UInt8) :
    decodeSeq E sub (vs.map Val.ty) (encodeSeq E raw vs ++ rest) = (vs, none, (encodeSeq E raw vs).length) := by
  induction vs with
  | nil => simp [decodeSeq, encodeSeq]
  | cons v vs ih =>
    have h1 := decodeVal_roundtrip E hE raw sub hL v (hv v (by simp)) (encodeSeq E raw vs ++ rest)
    have h2 := ih (fun w hw => hv w (by simp [hw]))
    simp only [List.map_cons, decodeSeq, encodeSeq, List.flatten_cons, List.append_assoc] at h1 h2 ⊢
    rw [h1]
    simp only
    rw [List.drop_append_of_le_length (Nat.le_refl _), List.drop_of_length_le (Nat.le_refl _), List.nil_append, h2]
    simp [List.length_append]

theorem decodeVal_bounded (E : Env α β) (hE : EnvOK E) (sub : Bool) (t : Ty) : Bounded (decodeVal E sub t) := by
  have hfr := decElem_bounded E.frQ E.frB
  have hfp := decElem_bounded E.fpQ E.fpB
  have hp1 := Codec.decPointP1_bounded hE.c1
  have hp2 := Codec.decPointP1_bounded hE.c2
  intro bs
  cases t <;> simp only [decodeVal, DR.map_n]
  · exact decUint_bounded _ bs
  · exact hfr bs
  · exact hfp bs
  · rw [Codec.decPoint_n]; exact hp1 bs
  · rw [Codec.decPoint_n]; exact hp2 bs
  · rw [Codec.decPoints_n]; exact decPrefixed_bounded hp1 bs
  · rw [Codec.decPoints_n]; exact decPrefixed_bounded hp2 bs
  · exact decPrefixed_bounded hfr bs
  · exact decPrefixed_bounded hfp bs
  · exact decPrefixed_bounded (decPrefixed_bounded hfr) bs
  · exact decPrefixed_bounded (decPrefixed_bounded (decPrefixed_bounded hfr)) bs
  · exact decPrefixed_bounded (decUint_bounded 8) bs
  · exact decPrefixed_bounded (decPrefixed_bounded (decUint_bounded 8)) bs

theorem decodeSeq_bounded (E : Env α β) (hE : EnvOK E) (sub : Bool) (ts : List Ty) (bs : List UInt8) :
    (decodeSeq E sub ts bs).2.2 ≤ bs.length := by
  induction ts generalizing bs with
  | nil => simp [decodeSeq]
  | cons t ts ih =>
    have hb := decodeVal_bounded E hE sub t bs
    rcases hd : decodeVal E sub t bs with ⟨res, n⟩
    rw [hd] at hb
    cases res with
    | error e => simp only [decodeSeq, hd]; exact hb
    | ok v =>
      have := ih (bs.drop n)
      rw [List.length_drop] at this
      rcases hr : decodeSeq E sub ts (bs.drop n) with ⟨vs, e, m⟩
      rw [hr] at this
      simp only [decodeSeq, hd, hr]
      simp only at hb this ⊢
      omega

/-- the byte counter is compositional: after any prefix of the `Decode` calls it is the number of bytes those calls
consumed, the remaining calls see exactly the rest of the stream, and an error stops the sequence -/
theorem decodeSeq_append (E : Env α β) (sub : Bool) (ts1 ts2 : List Ty) (bs : List UInt8) :
    decodeSeq E sub (ts1 ++ ts2) bs =
      match decodeSeq E sub ts1 bs with
      | (vs1, some e, n1) => (vs1, some e, n1)
      | (vs1, none, n1) =>
        ((vs1 ++ (decodeSeq E sub ts2 (bs.drop n1)).1), (decodeSeq E sub ts2 (bs.drop n1)).2.1,
          n1 + (decodeSeq E sub ts2 (bs.drop n1)).2.2) := by
  induction ts1 generalizing bs with
  | nil => simp [decodeSeq]
  | cons t ts ih =>
    rcases hd : decodeVal E sub t bs with ⟨res, n⟩
    cases res with
    | error e => simp only [List.cons_append, decodeSeq, hd]
    | ok v =>
      simp only [List.cons_append, decodeSeq, hd]
      rw [ih (bs.drop n)]
      rcases decodeSeq E sub ts (bs.drop n) with ⟨vs1, eo, n1⟩
      cases eo with
      | some e => rfl
      | none => simp only [List.drop_drop, List.cons_append, Nat.add_assoc]

theorem encodeSeq_append (E : Env α β) (raw : Bool) (vs ws : List (Val α β)) :
    encodeSeq E raw (vs ++ ws) = encodeSeq E raw vs ++ encodeSeq E raw ws := by
  simp [encodeSeq]

end GV.PointCodec
