/- Bridge between the GENERATED bls24-317 tower structures (Gen/Tower/Bls24_317.lean) and the generic spec
   (Proofs/Tower.lean): E2 = Fp[u]/(u² = −1), E4 = E2[v]/(v² = 1+u), E12 = E4[w]/(w³ = v), E24 = E12[i]/(i² = w). -/
import GnarkVerif.Proofs.Tower
import GnarkVerif.Gen.Tower.Bls24_317Alias

namespace GV.Gen.Tower.bls24_317
open GV.Tower

variable {F : Type} [CommRing F]

/-- Fp2 = Fp[u]/(u² = −1) -/
abbrev Fp2 (F : Type) [CommRing F] := QuadExt F (-1 : F)
/-- the quadratic non-residue of Fp2 used for Fp4: ξ = 1 + u -/
def xi : Fp2 F := ⟨1, 1⟩
/-- Fp4 = Fp2[v]/(v² = ξ) -/
abbrev Fp4 (F : Type) [CommRing F] := QuadExt (Fp2 F) xi
/-- Fp12 = Fp4[w]/(w³ = v) -/
abbrev Fp12 (F : Type) [CommRing F] := CubicExt (Fp4 F) QuadExt.gen
/-- Fp24 = Fp12[i]/(i² = w) -/
abbrev Fp24 (F : Type) [CommRing F] := QuadExt (Fp12 F) CubicExt.gen

@[simp, gv_proj] theorem xi_a0 : (xi : Fp2 F).a0 = 1 := rfl
@[simp, gv_proj] theorem xi_a1 : (xi : Fp2 F).a1 = 1 := rfl

/-- forget the Go field names -/
def E2.spec (x : E2 F) : Fp2 F := ⟨x.A0, x.A1⟩
def E4.spec (x : E4 F) : Fp4 F := ⟨x.B0.spec, x.B1.spec⟩
def E12.spec (x : E12 F) : Fp12 F := ⟨x.C0.spec, x.C1.spec, x.C2.spec⟩
def E24.spec (x : E24 F) : Fp24 F := ⟨x.D0.spec, x.D1.spec⟩

@[simp, gv_proj] theorem E2.spec_a0 (x : E2 F) : x.spec.a0 = x.A0 := rfl
@[simp, gv_proj] theorem E2.spec_a1 (x : E2 F) : x.spec.a1 = x.A1 := rfl
@[simp, gv_proj] theorem E4.spec_a0 (x : E4 F) : x.spec.a0 = x.B0.spec := rfl
@[simp, gv_proj] theorem E4.spec_a1 (x : E4 F) : x.spec.a1 = x.B1.spec := rfl
@[simp, gv_proj] theorem E12.spec_b0 (x : E12 F) : x.spec.b0 = x.C0.spec := rfl
@[simp, gv_proj] theorem E12.spec_b1 (x : E12 F) : x.spec.b1 = x.C1.spec := rfl
@[simp, gv_proj] theorem E12.spec_b2 (x : E12 F) : x.spec.b2 = x.C2.spec := rfl
@[simp, gv_proj] theorem E24.spec_a0 (x : E24 F) : x.spec.a0 = x.D0.spec := rfl
@[simp, gv_proj] theorem E24.spec_a1 (x : E24 F) : x.spec.a1 = x.D1.spec := rfl
@[simp, gv_proj] theorem E2.spec_mk (a b : F) : (E2.mk a b).spec = ⟨a, b⟩ := rfl
@[simp, gv_proj] theorem E4.spec_mk (a b : E2 F) : (E4.mk a b).spec = ⟨a.spec, b.spec⟩ := rfl
@[simp, gv_proj] theorem E12.spec_mk (a b c : E4 F) : (E12.mk a b c).spec = ⟨a.spec, b.spec, c.spec⟩ := rfl
@[simp, gv_proj] theorem E24.spec_mk (a b : E12 F) : (E24.mk a b).spec = ⟨a.spec, b.spec⟩ := rfl

theorem E2.spec_injective : Function.Injective (E2.spec (F := F)) := by
  intro x y h
  have h0 := congrArg QuadExt.a0 h
  have h1 := congrArg QuadExt.a1 h
  ext <;> simpa using ‹_›
theorem E4.spec_injective : Function.Injective (E4.spec (F := F)) := by
  intro x y h
  have h0 := congrArg QuadExt.a0 h
  have h1 := congrArg QuadExt.a1 h
  simp only [E4.spec_a0, E4.spec_a1] at h0 h1
  exact E4.ext (E2.spec_injective h0) (E2.spec_injective h1)
theorem E12.spec_injective : Function.Injective (E12.spec (F := F)) := by
  intro x y h
  have h0 := congrArg CubicExt.b0 h
  have h1 := congrArg CubicExt.b1 h
  have h2 := congrArg CubicExt.b2 h
  simp only [E12.spec_b0, E12.spec_b1, E12.spec_b2] at h0 h1 h2
  exact E12.ext (E4.spec_injective h0) (E4.spec_injective h1) (E4.spec_injective h2)
theorem E24.spec_injective : Function.Injective (E24.spec (F := F)) := by
  intro x y h
  have h0 := congrArg QuadExt.a0 h
  have h1 := congrArg QuadExt.a1 h
  simp only [E24.spec_a0, E24.spec_a1] at h0 h1
  exact E24.ext (E12.spec_injective h0) (E12.spec_injective h1)

end GV.Gen.Tower.bls24_317
