import GnarkVerif.Model.Chain
import Mathlib.Algebra.Group.Basic
import Mathlib.Algebra.Group.Defs
/-
The generic theorem about the deep-embedded addition chains of `Model/Chain.lean`, proved ONCE for every chain:
whatever relation "t holds x^e" (`Full`) / "t holds the compressed form of x^e" (`Comp`) is preserved by the operations,
is established by the whole chain between the argument and the result, with the exponent that `sym` computes.
Instances: monoids (`x ^ n`), groups (`x ^ z`), additive groups (`z • P`).
-/
namespace GV.Chain

theorem getD_set {α : Type} (l : List α) (d i : Nat) (v x : α) :
    (l.set d v).getD i x = if i = d ∧ d < l.length then v else l.getD i x := by
  induction l generalizing d i with
  | nil => simp
  | cons a l ih =>
    cases d with
    | zero =>
      cases i with
      | zero => simp
      | succ i => simp
    | succ d =>
      cases i with
      | zero => simp
      | succ i =>
        have := ih d i
        simp only [List.set_cons_succ, List.getD_cons_succ, List.length_cons, Nat.add_lt_add_iff_right,
          Nat.add_right_cancel_iff] at this ⊢
        exact this

theorem getD_replicate {α : Type} (n i : Nat) (x : α) : (List.replicate n x).getD i x = x := by
  induction n generalizing i with
  | zero => simp
  | succ n ih =>
    cases i with
    | zero => simp [List.replicate_succ]
    | succ i => simpa [List.replicate_succ] using ih i

variable {T E : Type}

/-- what a symbolic register says about a concrete one -/
def Rel (Full Comp : T → E → Prop) (t : T) : SReg E → Prop
  | none => True
  | some (false, e) => Full t e
  | some (true, e) => Comp t e

/-- the operations `o` on `T` realise the exponent arithmetic `D` through the relations `Full` / `Comp` -/
structure Sim (D : Dom E) (o : Ops T) (Full Comp : T → E → Prop) : Prop where
  weaken : ∀ t e, Full t e → Comp t e
  mul : ∀ a b e f, Full a e → Full b f → Full (o.mul a b) (D.add e f)
  sq : ∀ a e, Full a e → Full (o.sq a) (D.dbl e)
  invF : ∀ ng, D.neg = some ng → ∀ a e, Full a e → Full (o.inv a) (ng e)
  invC : ∀ ng, D.neg = some ng → ∀ a e, Comp a e → Comp (o.inv a) (ng e)
  sqc : ∀ a e, Comp a e → Comp (o.sqc a) (D.dbl e)
  dec : ∀ a e, Comp a e → Full (o.dec a) e

section
variable {D : Dom E} {o : Ops T} {Full Comp : T → E → Prop} (S : Sim D o Full Comp)
include S

theorem Sim.iter_sq (n : Nat) : ∀ a e, Full a e → Full (iter o.sq n a) (iter D.dbl n e) := by
  induction n with
  | zero => intro a e h; exact h
  | succ n ih => intro a e h; exact ih _ _ (S.sq a e h)

theorem Sim.iter_sqc (n : Nat) : ∀ a e, Comp a e → Comp (iter o.sqc n a) (iter D.dbl n e) := by
  induction n with
  | zero => intro a e h; exact h
  | succ n ih => intro a e h; exact ih _ _ (S.sqc a e h)

/-- register-file invariant: register `i` holds what the symbolic register `i` says -/
def Inv (Full Comp : T → E → Prop) (x : T) (rf : List T) (srf : List (SReg E)) : Prop :=
  rf.length = srf.length ∧ ∀ i, Rel Full Comp (rf.getD i x) (srf.getD i none)

omit S in
theorem Rel.comp_of {t : T} {c : Bool} {e : E} (hw : ∀ t e, Full t e → Comp t e)
    (h : Rel Full Comp t (some (c, e))) : Comp t e := by
  cases c with
  | false => exact hw _ _ h
  | true => exact h

theorem Sim.step_val (x : T) (rf : List T) (srf : List (SReg E)) (hI : Inv Full Comp x rf srf)
    (s : Step) (v : Bool × E) (hv : s.sval D srf = some v) :
    Rel Full Comp (s.val o x rf) (some v) := by
  obtain ⟨_, hR⟩ := hI
  cases s with
  | mul d a b =>
    simp only [Step.sval] at hv
    have ha := hR a; have hb := hR b
    split at hv
    · rename_i e f hea heb
      rw [hea] at ha; rw [heb] at hb
      cases hv
      exact S.mul _ _ _ _ ha hb
    · cases hv
  | sq d a n =>
    simp only [Step.sval] at hv
    have ha := hR a
    split at hv
    · rename_i e hea
      rw [hea] at ha
      cases hv
      exact S.iter_sq n _ _ ha
    · cases hv
  | inv d a =>
    simp only [Step.sval] at hv
    have ha := hR a
    split at hv
    · rename_i ng c e hng hea
      rw [hea] at ha
      cases hv
      cases c with
      | false => exact S.invF ng hng _ _ ha
      | true => exact S.invC ng hng _ _ ha
    · cases hv
  | set d a =>
    simp only [Step.sval] at hv
    have ha := hR a
    rw [hv] at ha
    exact ha
  | sqc d a n =>
    simp only [Step.sval] at hv
    have ha := hR a
    split at hv
    · rename_i c e hea
      rw [hea] at ha
      cases hv
      exact S.iter_sqc n _ _ (Rel.comp_of S.weaken ha)
    · cases hv
  | dec d a =>
    simp only [Step.sval] at hv
    have ha := hR a
    split at hv
    · rename_i c e hea
      rw [hea] at ha
      cases hv
      exact S.dec _ _ (Rel.comp_of S.weaken ha)
    · cases hv

theorem Sim.run_inv (x : T) (ss : List Step) : ∀ (rf : List T) (srf srf' : List (SReg E)),
    Inv Full Comp x rf srf → srun D ss srf = some srf' → Inv Full Comp x (run o x ss rf) srf' := by
  induction ss with
  | nil => intro rf srf srf' hI h; simp only [srun] at h; cases h; exact hI
  | cons s ss ih =>
    intro rf srf srf' hI h
    simp only [srun] at h
    split at h
    · rename_i hd
      split at h
      · rename_i v hv
        refine ih _ _ _ ?_ h
        have hval := S.step_val x rf srf hI s v hv
        obtain ⟨hl, hR⟩ := hI
        refine ⟨by simp [step, hl], fun i => ?_⟩
        simp only [step]
        rw [getD_set, getD_set]
        by_cases hi : i = s.dst
        · subst hi
          simp only [true_and, hd, hl, if_true]
          exact hval
        · simp only [hi, false_and, if_false]
          exact hR i
      · cases h
    · cases h

/-- MAIN THEOREM: when `sym D c = some k` (a closed computation on the chain data) and the argument holds `x^1`,
the result of running the chain holds `x^k` -/
theorem Sim.eval_spec (c : Chain) (k : E) (hk : sym D c = some k) (x : T) (hx : Full x D.one) :
    Full (eval o c x) k := by
  simp only [sym] at hk
  split at hk
  · rename_i hn
    split at hk
    · rename_i srf hs
      have hI : Inv Full Comp x (List.replicate c.nregs x) (sinit D c.nregs) := by
        refine ⟨by simp [sinit]; omega, fun i => ?_⟩
        rw [getD_replicate]
        cases i with
        | zero => simpa [sinit, Rel] using hx
        | succ i =>
          have : (sinit D c.nregs).getD (i + 1) none = none := by
            simp only [sinit, List.getD_cons_succ]; exact getD_replicate _ _ _
          rw [this]; trivial
      have hF := (S.run_inv x c.steps _ _ _ hI hs).2 c.out
      split at hk
      · rename_i e he
        cases hk
        rw [he] at hF
        exact hF
      · cases hk
    · cases hk
  · cases hk

end

/-! ## instances -/

section monoid
variable {M : Type} [Monoid M]

/-- the operations of a monoid (no inverse; the compressed operations are the plain ones) -/
def monoidOps (M : Type) [Monoid M] : Ops M :=
  { mul := (· * ·), sq := fun a => a * a, inv := id, sqc := fun a => a * a, dec := id }

theorem monoid_sim (x : M) : Sim natDom (monoidOps M) (fun t e => t = x ^ e) (fun t e => t = x ^ e) where
  weaken := fun _ _ h => h
  mul := by intro a b e f ha hb; subst ha; subst hb; exact (pow_add x e f).symm
  sq := by intro a e ha; subst ha; show x ^ e * x ^ e = x ^ (2 * e); rw [Nat.two_mul, pow_add]
  invF := by intro ng h; cases h
  invC := by intro ng h; cases h
  sqc := by intro a e ha; subst ha; show x ^ e * x ^ e = x ^ (2 * e); rw [Nat.two_mul, pow_add]
  dec := fun _ _ h => h

/-- in every monoid a chain of products and squarings computes `x ^ n`, `n` the exponent reading of the chain -/
theorem eval_monoid (c : Chain) (n : Nat) (hn : expoNat c = some n) (x : M) :
    eval (monoidOps M) c x = x ^ n :=
  (monoid_sim x).eval_spec c n hn x (pow_one x).symm

end monoid

section group
variable {G : Type} [Group G]

/-- operations on a group given as functions; `groupOps G` takes the group's own -/
def groupOps (G : Type) [Group G] : Ops G :=
  { mul := (· * ·), sq := fun a => a * a, inv := fun a => a⁻¹, sqc := fun a => a * a, dec := id }

theorem group_sim (o : Ops G) (x : G)
    (hmul : ∀ a b, o.mul a b = a * b) (hsq : ∀ a, o.sq a = a * a) (hinv : ∀ a, o.inv a = a⁻¹)
    (hsqc : ∀ a, o.sqc a = a * a) (hdec : ∀ a, o.dec a = a) :
    Sim intDom o (fun t e => t = x ^ e) (fun t e => t = x ^ e) where
  weaken := fun _ _ h => h
  mul := by intro a b e f ha hb; subst ha; subst hb; rw [hmul]; exact (zpow_add x e f).symm
  sq := by intro a e ha; subst ha; rw [hsq]; show x ^ e * x ^ e = x ^ (2 * e); rw [Int.two_mul, zpow_add]
  invF := by intro ng h a e ha; cases h; subst ha; rw [hinv]; exact (zpow_neg x e).symm
  invC := by intro ng h a e ha; cases h; subst ha; rw [hinv]; exact (zpow_neg x e).symm
  sqc := by intro a e ha; subst ha; rw [hsqc]; show x ^ e * x ^ e = x ^ (2 * e); rw [Int.two_mul, zpow_add]
  dec := by intro a e ha; rw [hdec]; exact ha

/-- in every group a chain computes `x ^ z`, `z ∈ ℤ` the exponent reading of the chain -/
theorem eval_group (c : Chain) (z : Int) (hz : expoInt c = some z) (x : G) :
    eval (groupOps G) c x = x ^ z :=
  (group_sim (groupOps G) x (fun _ _ => rfl) (fun _ => rfl) (fun _ => rfl) (fun _ => rfl) (fun _ => rfl)).eval_spec
    c z hz x (zpow_one x).symm

end group

end GV.Chain
