/- Bridge between the GENERATED babybear extension structures (Gen/Tower/Babybear.lean) and the generic spec
   (Proofs/Tower.lean): E2 = Fr[u]/(u² = 11), E4 = E2[v]/(v² = u). -/
import GnarkVerif.Proofs.Tower
import GnarkVerif.Gen.Tower.BabybearAlias

namespace GV.Gen.Tower.babybear
open GV.Tower

variable {F : Type} [CommRing F]

/-- the quadratic non-residue of the base field -/
def nr : F := 11
/-- E2 = Fr[u]/(u² = nr) -/
abbrev Fr2 (F : Type) [CommRing F] := QuadExt F (nr : F)
/-- E4 = E2[v]/(v² = u) -/
abbrev Fr4 (F : Type) [CommRing F] := QuadExt (Fr2 F) QuadExt.gen

def E2.spec (x : E2 F) : Fr2 F := ⟨x.A0, x.A1⟩
def E4.spec (x : E4 F) : Fr4 F := ⟨x.B0.spec, x.B1.spec⟩

@[simp, gv_proj] theorem E2.spec_a0 (x : E2 F) : x.spec.a0 = x.A0 := rfl
@[simp, gv_proj] theorem E2.spec_a1 (x : E2 F) : x.spec.a1 = x.A1 := rfl
@[simp, gv_proj] theorem E4.spec_a0 (x : E4 F) : x.spec.a0 = x.B0.spec := rfl
@[simp, gv_proj] theorem E4.spec_a1 (x : E4 F) : x.spec.a1 = x.B1.spec := rfl
@[simp, gv_proj] theorem E2.spec_mk (a b : F) : (E2.mk a b).spec = ⟨a, b⟩ := rfl
@[simp, gv_proj] theorem E4.spec_mk (a b : E2 F) : (E4.mk a b).spec = ⟨a.spec, b.spec⟩ := rfl

theorem E2.spec_injective : Function.Injective (E2.spec (F := F)) := by
  intro x y h
  have h0 := congrArg QuadExt.a0 h
  have h1 := congrArg QuadExt.a1 h
  ext <;> simpa using ‹_›
theorem E4.spec_injective : Function.Injective (E4.spec (F := F)) := by
  intro x y h
  have h0 := congrArg QuadExt.a0 h
  have h1 := congrArg QuadExt.a1 h
  simp only [E4.spec_a0, E4.spec_a1] at h0 h1
  exact E4.ext (E2.spec_injective h0) (E2.spec_injective h1)

end GV.Gen.Tower.babybear
