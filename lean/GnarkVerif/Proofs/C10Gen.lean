import GnarkVerif.Proofs.FFT
/-
Helper definitions and lemmas for C10 (tie T, Props/C10_gen*.lean).

The defs that tools/goslp regenerates from fft.go (Gen/FFT/<Pkg>.lean) are straight-line code over fixed sizes. They are
compared by `rfl` with the `go*` functions below, which are the functions of Model/FFT.lean written the way the Go code
computes (so that no ring law is needed for the comparison):
  * `innerDI{F,T}WithTwiddlesGeneric` does the butterfly at index 0 WITHOUT multiplying by `twiddles[0]` (`mulTail`);
  * the last stage of an unrolled kernel is a plain `Butterfly` (the model multiplies by the row `[1]`);
  * `innerDI{F,T}WithoutTwiddles` multiplies index `i ≥ 1` by `w·w·…·w` built by `at.Mul(&at, &w)` starting from `at = w`
    (`otf`; the model uses `powers w h = [1, 1·w, 1·w·w, …]`).
`go… = model` is then proved ONCE, for every size, under the hypothesis that the rows of the twiddle table start with 1
(which the table `buildTwiddles` builds does); together with Proofs/FFT.lean this gives DFT correctness of the generated defs.
-/
open Lean Elab Tactic Meta in
/-- `kernel_rfl` closes `a = b` with `Eq.refl a` and leaves the definitional-equality check to the KERNEL when the theorem is
added to the environment (the same division of labour as `decide +kernel`; no axiom, nothing is trusted: if the two sides are
not definitionally equal the kernel rejects the declaration). `rfl` would run the elaborator's much slower unifier first:
for the 256-point kernels (about 1000 butterflies per side) that does not finish, the kernel needs 2 s. -/
elab "kernel_rfl" : tactic => do
  let g ← getMainGoal
  let t ← instantiateMVars (← g.getType)
  let some (α, lhs, _) := t.eq? | throwError "kernel_rfl: the goal is not an equation"
  let u ← getLevel α
  g.assign (mkApp2 (mkConst ``Eq.refl [u]) α lhs)

namespace GV.FFT
set_option linter.unusedSectionVars false
set_option linter.unusedVariables false

section Defs
variable {R : Type} [Add R] [Sub R] [Mul R] [Zero R] [One R]

/-- `ofFn n f = [f 0, …, f (n-1)]`: the elements of a generated long array (a function of the index) -/
def ofFn (n : Nat) (f : Nat → R) : List R := (List.range n).map f

/-- multiply all entries but the first: `v1 := a[1+m : 2m]; v2 := twiddles[1:m]; v1.Mul(v1, v2)` -/
def mulTail : List R → List R → List R
  | d :: ds, _ :: ts => d :: List.zipWith (· * ·) ds ts
  | ds, _ => ds

/-- `innerDIFWithTwiddlesGeneric(lo ++ hi, t, 0, m, m)` -/
def goDIF (t lo hi : List R) : List R :=
  List.zipWith (· + ·) lo hi ++ mulTail (List.zipWith (· - ·) lo hi) t

/-- `innerDITWithTwiddlesGeneric(lo ++ hi, t, 0, m, m)` -/
def goDIT (t lo hi : List R) : List R :=
  let x := mulTail hi t
  List.zipWith (· + ·) lo x ++ List.zipWith (· - ·) lo x

/-- the multipliers of `innerDI{F,T}WithoutTwiddles(a, w, w, 0, h, h)`: entry 0 is not used, entry `i ≥ 1` is
    `w·w·…·w` as `at.Mul(&at, &w)` builds it -/
def otf (w : R) (h : Nat) : List R := w :: iter w w (h - 1)

def goStageDIF (t : List R) (k c : Nat) (a : List R) : List R :=
  mapBlocks (fun b => goDIF t (b.take (2^k)) (b.drop (2^k))) (2^(k+1)) c a

def goStageDIT (t : List R) (k c : Nat) (a : List R) : List R :=
  mapBlocks (fun b => goDIT t (b.take (2^k)) (b.drop (2^k))) (2^(k+1)) c a

/-- `kerDIFNP_<2^k>generic` (same recursion as `kerDIF`) -/
def goKerDIF (rows : List (List R)) : Nat → Nat → List R → List R
  | 0, _, a => a
  | k+1, c, a => goKerDIF rows.tail k (2*c) (goStageDIF (rows.headD []) k c a)

/-- `kerDITNP_<2^k>generic` -/
def goKerDIT (rows : List (List R)) : Nat → Nat → List R → List R
  | 0, _, a => a
  | k+1, c, a => goStageDIT (rows.headD []) k c (goKerDIT rows.tail k (2*c) a)

/-- `difFFT` with `nbTasks = 1` (same recursion as `Model.difFFT`) -/
def goDifFFT (kers : List Nat) (tw : List (List R)) (tss : Nat) : Nat → R → Nat → List R → List R
  | 0, _, _, a => a
  | m+1, w, stage, a =>
    if tss ≤ stage ∧ kers.contains (m+1) then
      goKerDIF (kerRows tw (stage - tss) (m+1)) (m+1) 1 a
    else
      let h := 2^m
      let lo := a.take h
      let hi := a.drop h
      if stage < tss then
        goDifFFT kers tw tss m (w*w) (stage+1) (List.zipWith (· + ·) lo hi) ++
          goDifFFT kers tw tss m (w*w) (stage+1) (mulTail (List.zipWith (· - ·) lo hi) (otf w h))
      else
        let t := tw.getD (stage - tss) []
        goDifFFT kers tw tss m w (stage+1) (List.zipWith (· + ·) lo hi) ++
          goDifFFT kers tw tss m w (stage+1) (mulTail (List.zipWith (· - ·) lo hi) t)

/-- `ditFFT` with `nbTasks = 1` -/
def goDitFFT (kers : List Nat) (tw : List (List R)) (tss : Nat) : Nat → R → Nat → List R → List R
  | 0, _, _, a => a
  | m+1, w, stage, a =>
    if tss ≤ stage ∧ kers.contains (m+1) then
      goKerDIT (kerRows tw (stage - tss) (m+1)) (m+1) 1 a
    else
      let h := 2^m
      let lo := goDitFFT kers tw tss m (w*w) (stage+1) (a.take h)
      let hi := goDitFFT kers tw tss m (w*w) (stage+1) (a.drop h)
      if stage < tss then goDIT (otf w h) lo hi
      else goDIT (tw.getD (stage - tss) []) lo hi

end Defs

section Lemmas
variable {R : Type} [CommRing R]

theorem mulTail_eq (d t : List R) (ht : t.head? = some 1) : mulTail d t = List.zipWith (· * ·) d t := by
  cases t with
  | nil => simp at ht
  | cons x ts =>
    simp only [List.head?_cons, Option.some.injEq] at ht
    subst ht
    cases d with
    | nil => simp [mulTail]
    | cons y ds => simp [mulTail]

theorem goDIF_eq (t : List R) (ht : t.head? = some 1) : goDIF t = bfDIF t := by
  funext lo hi; simp only [goDIF, bfDIF, mulTail_eq _ _ ht]

theorem goDIT_eq (t : List R) (ht : t.head? = some 1) : goDIT t = bfDIT t := by
  funext lo hi; simp only [goDIT, bfDIT, mulTail_eq _ _ ht]

theorem iter_one_mul (w : R) (n : Nat) : iter w (1 * w) n = iter w w n := by rw [one_mul]

/-- the on-the-fly multipliers are the powers of `w` (up to the entry that is not used) -/
theorem mulTail_otf (d : List R) (w : R) (h : Nat) (hh : 0 < h) :
    mulTail d (otf w h) = List.zipWith (· * ·) d (powers w h) := by
  obtain ⟨n, rfl⟩ : ∃ n, h = n + 1 := ⟨h - 1, by omega⟩
  cases d with
  | nil => simp [mulTail]
  | cons y ds => simp [mulTail, otf, powers, iter]

theorem goStageDIF_eq (t : List R) (ht : t.head? = some 1) : goStageDIF t = stageDIF t := by
  funext k c a; simp only [goStageDIF, stageDIF, goDIF_eq t ht]

theorem goStageDIT_eq (t : List R) (ht : t.head? = some 1) : goStageDIT t = stageDIT t := by
  funext k c a; simp only [goStageDIT, stageDIT, goDIT_eq t ht]

theorem goKerDIF_eq (k : Nat) (rows : List (List R)) (hrows : ∀ j, j < k → (rows.getD j []).head? = some 1)
    (c : Nat) (a : List R) : goKerDIF rows k c a = kerDIF rows k c a := by
  induction k generalizing rows c a with
  | zero => rfl
  | succ k ih =>
    have h0 : (rows.headD []).head? = some 1 := by
      have := hrows 0 (by omega)
      simpa [List.getD_eq_getElem?_getD, List.headD_eq_head?_getD, List.head?_eq_getElem?] using this
    simp only [goKerDIF, kerDIF, goStageDIF_eq _ h0]
    apply ih
    intro j hj
    have := hrows (j+1) (by omega)
    simpa [List.getD_eq_getElem?_getD] using this

theorem goKerDIT_eq (k : Nat) (rows : List (List R)) (hrows : ∀ j, j < k → (rows.getD j []).head? = some 1)
    (c : Nat) (a : List R) : goKerDIT rows k c a = kerDIT rows k c a := by
  induction k generalizing rows c a with
  | zero => rfl
  | succ k ih =>
    have h0 : (rows.headD []).head? = some 1 := by
      have := hrows 0 (by omega)
      simpa [List.getD_eq_getElem?_getD, List.headD_eq_head?_getD, List.head?_eq_getElem?] using this
    simp only [goKerDIT, kerDIT, goStageDIT_eq _ h0]
    congr 1
    apply ih
    intro j hj
    have := hrows (j+1) (by omega)
    simpa [List.getD_eq_getElem?_getD] using this

/-- the rows the table has for a sub-problem of size `2^m` entered at `stage` start with 1 -/
def HeadsOK (tw : List (List R)) (tss stage m : Nat) : Prop :=
  ∀ j, j < m → tss ≤ stage + j → ((tw.getD (stage + j - tss) []).head? = some 1)

theorem HeadsOK.next {tw : List (List R)} {tss stage m : Nat} (h : HeadsOK tw tss stage (m+1)) :
    HeadsOK tw tss (stage+1) m := by
  intro j hj hs
  have := h (j+1) (by omega) (by omega)
  have e1 : stage + (j + 1) - tss = stage + 1 + j - tss := by omega
  rw [e1] at this; exact this

theorem HeadsOK.rows {tw : List (List R)} {tss stage m : Nat} (h : HeadsOK tw tss stage (m+1)) (hs : tss ≤ stage) :
    ∀ j, j < m+1 → ((kerRows tw (stage - tss) (m+1)).getD j []).head? = some 1 := by
  intro j hj
  by_cases hjm : j < m
  · have := h j hj (by omega)
    have e : stage + j - tss = stage - tss + j := by omega
    rw [e] at this
    simpa [kerRows, List.getD_eq_getElem?_getD, List.getElem?_append_left, hjm] using this
  · have : j = m := by omega
    subst this
    simp [kerRows, List.getD_eq_getElem?_getD]

theorem TwOK.heads {tw : List (List R)} {tss stage m : Nat} {u : R} (h : TwOK tw tss stage m u) :
    HeadsOK tw tss stage m := by
  intro j hj hs
  have hr := h j hj hs
  have hp : 0 < 2^(m-1-j) := Nat.pow_pos (by decide)
  obtain ⟨n, hn⟩ : ∃ n, 2^(m-1-j) = n + 1 := ⟨2^(m-1-j) - 1, by omega⟩
  unfold RowOK at hr
  rw [hn] at hr
  cases hrow : tw.getD (stage + j - tss) [] with
  | nil => rw [hrow] at hr; simp [powers, iter] at hr
  | cons x xs =>
    rw [hrow] at hr
    simp only [List.take_succ_cons, powers, iter, List.cons.injEq] at hr
    simp [hr.1]

theorem goDifFFT_eq (kers : List Nat) (tw : List (List R)) (tss m : Nat) :
    ∀ (w : R) (stage : Nat) (a : List R), HeadsOK tw tss stage m →
      goDifFFT kers tw tss m w stage a = difFFT kers tw tss m w stage a := by
  induction m with
  | zero => intro w stage a _; rfl
  | succ m ih =>
    intro w stage a hh
    have hp : 0 < 2^m := Nat.pow_pos (by decide)
    unfold goDifFFT difFFT
    split
    · rename_i hk
      exact goKerDIF_eq _ _ (hh.rows hk.1) _ _
    · simp only []
      split
      · rw [ih _ _ _ hh.next, ih _ _ _ hh.next, mulTail_otf _ _ _ hp]
      · rename_i hs
        have h0 := hh 0 (by omega) (by omega)
        simp only [Nat.add_zero] at h0
        rw [ih _ _ _ hh.next, ih _ _ _ hh.next, mulTail_eq _ _ h0]

theorem goDIT_otf (w : R) (h : Nat) (hh : 0 < h) (lo hi : List R) :
    goDIT (otf w h) lo hi = bfDIT (powers w h) lo hi := by
  simp only [goDIT, bfDIT, mulTail_otf _ _ _ hh]

theorem goDitFFT_eq (kers : List Nat) (tw : List (List R)) (tss m : Nat) :
    ∀ (w : R) (stage : Nat) (a : List R), HeadsOK tw tss stage m →
      goDitFFT kers tw tss m w stage a = ditFFT kers tw tss m w stage a := by
  induction m with
  | zero => intro w stage a _; rfl
  | succ m ih =>
    intro w stage a hh
    have hp : 0 < 2^m := Nat.pow_pos (by decide)
    unfold goDitFFT ditFFT
    split
    · rename_i hk
      exact goKerDIT_eq _ _ (hh.rows hk.1) _ _
    · simp only []
      rw [ih _ _ _ hh.next, ih _ _ _ hh.next]
      split
      · exact goDIT_otf _ _ hp _ _
      · rename_i hs
        have h0 := hh 0 (by omega) (by omega)
        simp only [Nat.add_zero] at h0
        rw [goDIT_eq _ h0]

/-! ### DFT correctness of the Go-shaped functions -/

/-- `difFFT` as the Go code computes it returns the DFT in bit-reversed order — every size, any table whose rows hold
    the powers of the root -/
theorem goDifFFT_eq_dft (kers : List Nat) (tw : List (List R)) (tss m : Nat) (w : R) (a : List R)
    (ha : a.length = 2^m) (htw : TwOK tw tss 0 m w) (hw : PrimRoot w m) :
    goDifFFT kers tw tss m w 0 a = bitReverse m (dft w a) := by
  rw [goDifFFT_eq _ _ _ _ _ _ _ htw.heads, difFFT_eq_difCore kers tw tss m w w 0 a ha (fun _ => rfl) htw,
    difCore_eq_dft m w hw a ha]

/-- `ditFFT` as the Go code computes it, on a bit-reversed input, returns the DFT in natural order -/
theorem goDitFFT_eq_dft (kers : List Nat) (tw : List (List R)) (tss m : Nat) (w : R) (a : List R)
    (ha : a.length = 2^m) (htw : TwOK tw tss 0 m w) (hw : PrimRoot w m) :
    goDitFFT kers tw tss m w 0 (bitReverse m a) = dft w a := by
  rw [goDitFFT_eq _ _ _ _ _ _ _ htw.heads,
    ditFFT_eq_ditCore kers tw tss m w w 0 _ (by simpa using ha) (fun _ => rfl) htw, ditCore_eq_dft m w hw a ha]

/-- the unrolled DIF kernel of size `2^k`, entered with the table rows of the root `u`, is the bit-reversed DFT -/
theorem goKerDIF_eq_dft (k : Nat) (rows : List (List R)) (u : R)
    (hrows : ∀ j, j < k → RowOK (rows.getD j []) (u ^ (2^j)) (2^(k-1-j)))
    (hheads : ∀ j, j < k → (rows.getD j []).head? = some 1)
    (a : List R) (ha : a.length = 2^k) (hu : PrimRoot u k) :
    goKerDIF rows k 1 a = bitReverse k (dft u a) := by
  rw [goKerDIF_eq k rows hheads, kerDIF_eq k rows u hrows 1 a (by simpa using ha), mapBlocks_one _ _ _ ha,
    difCore_eq_dft k u hu a ha]

theorem goKerDIT_eq_dft (k : Nat) (rows : List (List R)) (u : R)
    (hrows : ∀ j, j < k → RowOK (rows.getD j []) (u ^ (2^j)) (2^(k-1-j)))
    (hheads : ∀ j, j < k → (rows.getD j []).head? = some 1)
    (a : List R) (ha : a.length = 2^k) (hu : PrimRoot u k) :
    goKerDIT rows k 1 (bitReverse k a) = dft u a := by
  rw [goKerDIT_eq k rows hheads, kerDIT_eq k rows u hrows 1 _ (by simpa using ha),
    mapBlocks_one _ _ _ (by simpa using ha), ditCore_eq_dft k u hu a ha]

theorem goDitFFT_eq_dft' (kers : List Nat) (tw : List (List R)) (tss m : Nat) (w : R) (a : List R)
    (ha : a.length = 2^m) (htw : TwOK tw tss 0 m w) (hw : PrimRoot w m) :
    goDitFFT kers tw tss m w 0 a = dft w (bitReverse m a) := by
  have := goDitFFT_eq_dft kers tw tss m w (bitReverse m a) (by simpa using ha) htw hw
  rwa [bitReverse_bitReverse m a ha] at this

/-- kernel of size `2^(k+1)` entered at row 0 of a table that holds the powers of `w` -/
theorem goKerDIF_tw_dft (tw : List (List R)) (k : Nat) (w : R) (htw : TwOK tw 0 0 (k+1) w) (a : List R)
    (ha : a.length = 2^(k+1)) (hw : PrimRoot w (k+1)) :
    goKerDIF (kerRows tw 0 (k+1)) (k+1) 1 a = bitReverse (k+1) (dft w a) :=
  goKerDIF_eq_dft (k+1) _ w (by simpa using htw.rowsOK (Nat.le_refl 0)) (by simpa using htw.heads.rows (Nat.le_refl 0))
    a ha hw

theorem goKerDIT_tw_dft (tw : List (List R)) (k : Nat) (w : R) (htw : TwOK tw 0 0 (k+1) w) (a : List R)
    (ha : a.length = 2^(k+1)) (hw : PrimRoot w (k+1)) :
    goKerDIT (kerRows tw 0 (k+1)) (k+1) 1 a = dft w (bitReverse (k+1) a) := by
  have := goKerDIT_eq_dft (k+1) _ w (by simpa using htw.rowsOK (Nat.le_refl 0))
    (by simpa using htw.heads.rows (Nat.le_refl 0)) (bitReverse (k+1) a) (by simpa using ha) hw
  rwa [bitReverse_bitReverse (k+1) a ha] at this

@[simp] theorem ofFn_length (n : Nat) (f : Nat → R) : (ofFn n f).length = n := by simp [ofFn]

/-- the tables `Domain.FFT` passes down (`buildTwiddles` of the generator, or of its 8th power from stage 3 on) -/
theorem goDifFFT_tables (kers : List Nat) (d : Domain R) (a : List R) (ha : a.length = 2^d.m) :
    goDifFFT kers (tables d d.gen).1 (tables d d.gen).2 d.m d.gen 0 a = FFT kers d true false a := by
  rw [goDifFFT_eq _ _ _ _ _ _ _ (tables_ok d d.gen).heads]
  simp [FFT]

theorem goDitFFT_tables (kers : List Nat) (d : Domain R) (a : List R) (ha : a.length = 2^d.m) :
    goDitFFT kers (tables d d.gen).1 (tables d d.gen).2 d.m d.gen 0 a = FFT kers d false false a := by
  rw [goDitFFT_eq _ _ _ _ _ _ _ (tables_ok d d.gen).heads]
  simp [FFT]

/-- `TwOK` of the table of a domain with precomputed twiddles -/
theorem twOK_build (w : R) (m : Nat) : TwOK (buildTwiddles w m) 0 0 m w := by
  intro j hj _
  simpa using buildTwiddles_row w m j hj

/-- `TwOK` of the table built on the fly by `Domain.FFT` for a domain without precomputed twiddles -/
theorem twOK_build3 (w : R) (m : Nat) : TwOK (buildTwiddles (pw w (2^3)) (m - 3)) 3 0 m w := by
  have := tables_ok (⟨m, 0, w, 0, 0, 0, false⟩ : Domain R) w
  by_cases hm : m - 3 > 0
  · simpa [tables, hm] using this
  · intro j hj hs; omega

end Lemmas
end GV.FFT
