import GnarkVerif.Proofs.Poseidon2
/-
Homomorphism transfer for the Poseidon2 model: every function built from an `ROps` dictionary commutes with a map
that respects `zero`, `add`, `mul`. Instantiated with `Nat.cast : ℕ → ZMod q` it shows that the executable model
(`natOps q`, arithmetic mod q on `Nat`) is the image-preserving counterpart of the algebraic permutation over `ZMod q`,
to which the matrix-form theorems apply.
-/
namespace GV.Poseidon2

structure IsHom {α β : Type} (F : ROps α) (G : ROps β) (φ : α → β) : Prop where
  zero : φ F.zero = G.zero
  add : ∀ a b, φ (F.add a b) = G.add (φ a) (φ b)
  mul : ∀ a b, φ (F.mul a b) = G.mul (φ a) (φ b)

def Inst.map {α β : Type} (φ : α → β) (I : Inst α) : Inst β :=
  { t := I.t, sb := I.sb, m4k := I.m4k, diag := I.diag.map φ, rf := I.rf, rp := I.rp, keys := I.keys.map (·.map φ) }

def map4 {α β : Type} (φ : α → β) (c : α × α × α × α) : β × β × β × β := (φ c.1, φ c.2.1, φ c.2.2.1, φ c.2.2.2)

theorem list4_induction {α : Type} {P : List α → Prop}
    (h4 : ∀ a b c d rest, P rest → P (a :: b :: c :: d :: rest))
    (hshort : ∀ l : List α, l.length < 4 → P l) : ∀ l, P l := by
  intro l
  induction hn : l.length using Nat.strong_induction_on generalizing l with
  | _ n ih =>
    match l, hn with
    | a :: b :: c :: d :: rest, hn => exact h4 a b c d rest (ih rest.length (by simp at hn; omega) rest rfl)
    | [], _ => exact hshort _ (by simp)
    | [_], _ => exact hshort _ (by simp)
    | [_, _], _ => exact hshort _ (by simp)
    | [_, _, _], _ => exact hshort _ (by simp)

section short
variable {α : Type} (F : ROps α)

theorem m4All_short (k : M4Kind) (l : List α) (h : l.length < 4) : m4All F k l = l := by
  match l, h with
  | [], _ => rfl
  | [_], _ => rfl
  | [_, _], _ => rfl
  | [_, _, _], _ => rfl
  | _ :: _ :: _ :: _ :: _, h => simp at h; omega

theorem colSums_short (acc : α × α × α × α) (l : List α) (h : l.length < 4) : colSums F acc l = acc := by
  match l, h with
  | [], _ => rfl
  | [_], _ => rfl
  | [_, _], _ => rfl
  | [_, _, _], _ => rfl
  | _ :: _ :: _ :: _ :: _, h => simp at h; omega

theorem addCols_short (s : α × α × α × α) (l : List α) (h : l.length < 4) : addCols F s l = l := by
  match l, h with
  | [], _ => rfl
  | [_], _ => rfl
  | [_, _], _ => rfl
  | [_, _, _], _ => rfl
  | _ :: _ :: _ :: _ :: _, h => simp at h; omega

end short

section hom
variable {α β : Type} {F : ROps α} {G : ROps β} {φ : α → β} (H : IsHom F G φ)
include H

theorem hom_dbl (a : α) : φ (dbl F a) = dbl G (φ a) := by simp [dbl, H.add]

theorem hom_foldl (xs : List α) (a : α) : φ (xs.foldl F.add a) = (xs.map φ).foldl G.add (φ a) := by
  induction xs generalizing a with
  | nil => rfl
  | cons x xs ih => simp [List.foldl_cons, ih, H.add]

theorem hom_sum1 (xs : List α) : φ (sum1 F xs) = sum1 G (xs.map φ) := by
  cases xs with
  | nil => simp [sum1, H.zero]
  | cons x xs => simp [sum1, hom_foldl H]

theorem hom_sbox (k : SBox) (x : α) : φ (sbox F k x) = sbox G k (φ x) := by
  cases k <;> simp [sbox, H.mul]

theorem hom_m4 (k : M4Kind) (a b c d : α) : map4 φ (m4 F k a b c d) = m4 G k (φ a) (φ b) (φ c) (φ d) := by
  cases k <;> simp [m4, map4, H.add, hom_dbl H]

theorem hom_m4All (k : M4Kind) (xs : List α) : (m4All F k xs).map φ = m4All G k (xs.map φ) := by
  induction xs using list4_induction with
  | h4 a b c d rest ih =>
    simp only [m4All, List.map_cons, ih, ← hom_m4 H k a b c d, map4]
  | hshort l hl => rw [m4All_short F k l hl, m4All_short G k _ (by simpa using hl)]

theorem hom_colSums (xs : List α) : ∀ acc, map4 φ (colSums F acc xs) = colSums G (map4 φ acc) (xs.map φ) := by
  induction xs using list4_induction with
  | h4 a b c d rest ih =>
    intro acc
    simp only [colSums, List.map_cons, ih]
    simp [map4, H.add]
  | hshort l hl =>
    intro acc
    rw [colSums_short F acc l hl, colSums_short G _ _ (by simpa using hl)]

theorem hom_addCols (s : α × α × α × α) (xs : List α) :
    (addCols F s xs).map φ = addCols G (map4 φ s) (xs.map φ) := by
  induction xs using list4_induction with
  | h4 a b c d rest ih => simp only [addCols, List.map_cons, ih]; simp [map4, H.add]
  | hshort l hl => rw [addCols_short F s l hl, addCols_short G _ _ (by simpa using hl)]

theorem hom_ext4 (k : M4Kind) (xs : List α) : (ext4 F k xs).map φ = ext4 G k (xs.map φ) := by
  simp only [ext4, hom_addCols H, hom_colSums H, hom_m4All H]
  simp [map4, H.zero]

theorem hom_ext23 (xs : List α) : (ext23 F xs).map φ = ext23 G (xs.map φ) := by
  simp only [ext23, List.map_map, ← hom_sum1 H]
  apply List.map_congr_left
  intro x _
  simp [H.add]

theorem hom_int23 (xs : List α) : (int23 F xs).map φ = int23 G (xs.map φ) := by
  match xs with
  | [] => rfl
  | [_] => rfl
  | [x0, x1] => simp [int23, H.add, hom_dbl H]
  | [x0, x1, x2] => simp [int23, H.add, hom_dbl H]
  | _ :: _ :: _ :: _ :: _ => simp [int23]

theorem hom_intDiag (μ xs : List α) : (intDiag F μ xs).map φ = intDiag G (μ.map φ) (xs.map φ) := by
  simp only [intDiag, List.map_zipWith, List.zipWith_map, ← hom_sum1 H]
  congr 1
  funext x m
  simp [H.add, H.mul]

theorem hom_addRK (ks xs : List α) : (addRK F ks xs).map φ = addRK G (ks.map φ) (xs.map φ) := by
  induction ks generalizing xs with
  | nil => cases xs <;> simp [addRK]
  | cons k ks ih =>
    cases xs with
    | nil => simp [addRK]
    | cons x xs => simp [addRK, ih, H.add]

theorem hom_extL (I : Inst α) (xs : List α) : (extL F I xs).map φ = extL G (I.map φ) (xs.map φ) := by
  by_cases h : I.t % 4 = 0 <;> simp [extL, Inst.map, h, hom_ext4 H, hom_ext23 H]

theorem hom_intL (I : Inst α) (xs : List α) : (intL F I xs).map φ = intL G (I.map φ) (xs.map φ) := by
  by_cases h : I.t % 4 = 0 <;> simp [intL, Inst.map, h, hom_intDiag H, hom_int23 H]

theorem hom_fullRound (I : Inst α) (x ks : List α) :
    (fullRound F I x ks).map φ = fullRound G (I.map φ) (x.map φ) (ks.map φ) := by
  simp only [fullRound, hom_extL H, List.map_map, ← hom_addRK H]
  congr 1
  apply List.map_congr_left
  intro y _
  simp [hom_sbox H, Inst.map]

theorem hom_partialRound (I : Inst α) (x ks : List α) :
    (partialRound F I x ks).map φ = partialRound G (I.map φ) (x.map φ) (ks.map φ) := by
  simp only [partialRound, hom_intL H, ← hom_addRK H]
  congr 1
  cases addRK F ks x with
  | nil => rfl
  | cons y ys => simp [hom_sbox H, Inst.map]

omit H in
theorem hom_foldl_rounds (I : Inst α) (rnd : Inst α → List α → List α → List α) (rnd' : Inst β → List β → List β → List β)
    (hr : ∀ x ks, (rnd I x ks).map φ = rnd' (I.map φ) (x.map φ) (ks.map φ)) (keys : List (List α)) (x : List α) :
    (keys.foldl (rnd I) x).map φ = (keys.map (·.map φ)).foldl (rnd' (I.map φ)) (x.map φ) := by
  induction keys generalizing x with
  | nil => rfl
  | cons k ks ih => simp only [List.foldl_cons, List.map_cons, ih, hr]

/-- the whole permutation commutes with a homomorphism of the arithmetic -/
theorem hom_permute (I : Inst α) (x : List α) : (permute F I x).map φ = permute G (I.map φ) (x.map φ) := by
  simp only [permute]
  rw [hom_foldl_rounds I (fullRound F) (fullRound G) (hom_fullRound H I),
    hom_foldl_rounds I (partialRound F) (partialRound G) (hom_partialRound H I),
    hom_foldl_rounds I (fullRound F) (fullRound G) (hom_fullRound H I), hom_extL H]
  simp [Inst.map, List.map_take, List.map_drop]

end hom

/-- arithmetic mod q on `Nat` maps homomorphically onto the ring `ZMod q` -/
theorem natCast_isHom (q : ℕ) : IsHom (natOps q) (ringOps (ZMod q)) (Nat.cast : ℕ → ZMod q) where
  zero := by simp [natOps]
  add a b := by simp [natOps, ZMod.natCast_mod]
  mul a b := by simp [natOps, ZMod.natCast_mod]

end GV.Poseidon2
