import GnarkVerif.Props.C02
import Mathlib.Tactic.SplitIfs
/-
Generic part of `Props/C02_gen*`: TOTAL point operations (every dispatch branch of the Go methods, infinity included)
assembled from the branch formulas of `Proofs/Curve.lean`, and their correctness against Mathlib's group of points
`(sw a b).Point`, proved once for every field of characteristic ≠ 2.

The per-package files `Props/C02_gen_<pkg>.lean` prove `generated def = total operation` (unfolding + `ring`) for the
defs that tools/goslp regenerates from g1.go / g2.go on every run, and restate the theorems below about the generated
defs only.

Encodings (as in the Go code): Jacobian infinity Z = 0; affine infinity (0,0) (not on a curve with a = 0, b ≠ 0);
extended Jacobian infinity ZZ = 0.
-/
set_option linter.unusedSectionVars false
namespace GV.CurveGen
open GV.Curve GV.C02 WeierstrassCurve

variable {F : Type} [Field F] [DecidableEq F]

/-! ## representation predicates (specification side) -/

/-- Jacobian coordinates (X,Y,Z) represent the group element P -/
def JacPt (a b X Y Z : F) (P : (sw a b).Point) : Prop :=
  (Z = 0 ∧ P = 0) ∨ ∃ x y, ∃ h : (sw a b).Nonsingular x y, JacRep X Y Z x y ∧ P = Affine.Point.some x y h

/-- affine coordinates (x,y), with (0,0) for infinity, represent the group element P -/
def AffPt (a b x y : F) (P : (sw a b).Point) : Prop :=
  (x = 0 ∧ y = 0 ∧ P = 0) ∨ (¬(x = 0 ∧ y = 0) ∧ ∃ h : (sw a b).Nonsingular x y, P = Affine.Point.some x y h)

/-- extended Jacobian coordinates (X,Y,ZZ,ZZZ) represent the group element P -/
def XyzzPt (a b X Y ZZ ZZZ : F) (P : (sw a b).Point) : Prop :=
  (ZZ = 0 ∧ P = 0) ∨ ∃ l x y, ∃ h : (sw a b).Nonsingular x y, XyzzRep l X Y ZZ ZZZ x y ∧ P = Affine.Point.some x y h

theorem JacPt.zero {a b X Y : F} : JacPt a b X Y 0 (0 : (sw a b).Point) := Or.inl ⟨rfl, rfl⟩

theorem JacPt.of_Z_zero {a b X Y Z : F} {P : (sw a b).Point} (h : JacPt a b X Y Z P) (hz : Z = 0) : P = 0 := by
  rcases h with ⟨_, h⟩ | ⟨x, y, _, ⟨hz', _⟩, _⟩
  · exact h
  · exact absurd hz hz'

theorem JacPt.of_Z_ne {a b X Y Z : F} {P : (sw a b).Point} (h : JacPt a b X Y Z P) (hz : Z ≠ 0) :
    ∃ x y, ∃ h : (sw a b).Nonsingular x y, JacRep X Y Z x y ∧ P = Affine.Point.some x y h := by
  rcases h with ⟨hz', _⟩ | h
  · exact absurd hz' hz
  · exact h

theorem onCurve_of_nonsingular {a b x y : F} (h : (sw a b).Nonsingular x y) : OnCurve a b x y :=
  (sw_equation_iff a b x y).mp h.1

/-- (0,0) is not on y² = x³ + b for b ≠ 0 -/
theorem not_zero_zero {b x y : F} (hb : b ≠ 0) (h : (sw 0 b).Nonsingular x y) : ¬(x = 0 ∧ y = 0) := by
  rintro ⟨rfl, rfl⟩
  have := onCurve_of_nonsingular h
  simp [OnCurve] at this
  exact hb this.symm

/-! ## Jacobian coordinates -/

/-- `G1Jac.DoubleAssign` on every input: P + P, including 2-torsion and infinity -/
theorem jacDouble_total {b X Y Z : F} {P : (sw 0 b).Point} (hc : (2 : F) ≠ 0) (hp : JacPt 0 b X Y Z P) :
    JacPt 0 b (jacDouble X Y Z).1 (jacDouble X Y Z).2.1 (jacDouble X Y Z).2.2 (P + P) := by
  by_cases hz : Z = 0
  · have := hp.of_Z_zero hz
    subst this
    exact Or.inl ⟨jacDouble_Z_zero (Or.inr hz), by simp⟩
  · obtain ⟨x, y, h, hr, rfl⟩ := hp.of_Z_ne hz
    by_cases hy : y = 0
    · refine Or.inl ⟨jacDouble_Z_zero (Or.inl ?_), C02_opposite_is_zero h h (by simp [hy])⟩
      rw [hr.2.2, hy, zero_mul]
    · obtain ⟨x3, y3, h3, hadd, hrep⟩ := C02_jacDouble_group_law hc h hr hy
      exact Or.inr ⟨x3, y3, h3, hrep, hadd⟩

/-- `G1Jac.DoubleMixed` on every affine input -/
theorem jacDoubleMixed_total {b x y : F} {P : (sw 0 b).Point} (hc : (2 : F) ≠ 0) (hp : AffPt 0 b x y P) :
    JacPt 0 b (jacDoubleMixed x y).1 (jacDoubleMixed x y).2.1 (jacDoubleMixed x y).2.2 (P + P) := by
  rcases hp with ⟨rfl, rfl, rfl⟩ | ⟨_, h, rfl⟩
  · exact Or.inl ⟨by simp [jacDoubleMixed], by simp⟩
  · by_cases hy : y = 0
    · exact Or.inl ⟨by rw [jacDoubleMixed_Z, hy, mul_zero], C02_opposite_is_zero h h (by simp [hy])⟩
    · obtain ⟨x3, y3, h3, hadd, hrep⟩ := C02_jacDoubleMixed_group_law hc h hy
      exact Or.inr ⟨x3, y3, h3, hrep, hadd⟩

/-- `G1Jac.AddAssign` with all its dispatch branches (p receiver, q argument); `d` = what the equal-point branch
returns (the curve-specific doubling of p) -/
def jacAddTW (d : F × F × F) (pX pY pZ qX qY qZ : F) : F × F × F :=
  if pZ = 0 then (qX, qY, qZ)
  else if qZ = 0 then (pX, pY, pZ)
  else if (jacAddUS pX pY pZ qX qY qZ).1 = (jacAddUS pX pY pZ qX qY qZ).2.1 ∧
      (jacAddUS pX pY pZ qX qY qZ).2.2.1 = (jacAddUS pX pY pZ qX qY qZ).2.2.2 then d
  else jacAdd pX pY pZ qX qY qZ

theorem jacAddTW_correct {a b pX pY pZ qX qY qZ : F} {d : F × F × F} {P Q : (sw a b).Point} (hc : (2 : F) ≠ 0)
    (hp : JacPt a b pX pY pZ P) (hq : JacPt a b qX qY qZ Q) (hd : JacPt a b d.1 d.2.1 d.2.2 (P + P)) :
    JacPt a b (jacAddTW d pX pY pZ qX qY qZ).1 (jacAddTW d pX pY pZ qX qY qZ).2.1 (jacAddTW d pX pY pZ qX qY qZ).2.2
      (P + Q) := by
  unfold jacAddTW
  split_ifs with h1 h2 h3
  · rw [hp.of_Z_zero h1, zero_add]; exact hq
  · rw [hq.of_Z_zero h2, add_zero]; exact hp
  · obtain ⟨x1, y1, hn1, hr1, rfl⟩ := hp.of_Z_ne h1
    obtain ⟨x2, y2, hn2, hr2, rfl⟩ := hq.of_Z_ne h2
    obtain ⟨rfl, rfl⟩ := (jacAddUS_eq_iff hr1 hr2).mp h3
    exact hd
  · obtain ⟨x1, y1, hn1, hr1, rfl⟩ := hp.of_Z_ne h1
    obtain ⟨x2, y2, hn2, hr2, rfl⟩ := hq.of_Z_ne h2
    have hne : ¬(x1 = x2 ∧ y1 = y2) := fun h => h3 ((jacAddUS_eq_iff hr1 hr2).mpr h)
    by_cases hx : x1 = x2
    · subst hx
      have hy : y1 = -y2 := by
        rcases same_x_cases (onCurve_of_nonsingular hn1) (onCurve_of_nonsingular hn2) with h | h
        · exact absurd ⟨rfl, h⟩ hne
        · exact h
      exact Or.inl ⟨jacAdd_opposite hr1 hr2, C02_opposite_is_zero hn1 hn2 hy⟩
    · obtain ⟨x3, y3, h3', hadd, hrep, _⟩ := C02_jacAdd_group_law hc hn1 hn2 hr1 hr2 hx
      exact Or.inr ⟨x3, y3, h3', hrep, hadd⟩

/-- a = 0 curves: the equal-point branch is `DoubleAssign` -/
def jacAddT (pX pY pZ qX qY qZ : F) : F × F × F := jacAddTW (jacDouble pX pY pZ) pX pY pZ qX qY qZ

theorem jacAddT_correct {a b pX pY pZ qX qY qZ : F} {P Q : (sw a b).Point} (ha : a = 0) (hc : (2 : F) ≠ 0)
    (hp : JacPt a b pX pY pZ P) (hq : JacPt a b qX qY qZ Q) :
    JacPt a b (jacAddT pX pY pZ qX qY qZ).1 (jacAddT pX pY pZ qX qY qZ).2.1 (jacAddT pX pY pZ qX qY qZ).2.2 (P + Q) := by
  subst ha
  exact jacAddTW_correct hc hp hq (jacDouble_total hc hp)

/-- `G1Jac.AddMixed` with all its dispatch branches; `d` = what the equal-point branch returns -/
def jacAddMixedTW (d : F × F × F) (pX pY pZ ax ay : F) : F × F × F :=
  if ax = 0 ∧ ay = 0 then (pX, pY, pZ)
  else if pZ = 0 then (ax, ay, 1)
  else if (jacAddMixedUS pZ ax ay).1 = pX ∧ (jacAddMixedUS pZ ax ay).2 = pY then d
  else jacAddMixed pX pY pZ ax ay

theorem jacAddMixedTW_correct {a b pX pY pZ ax ay : F} {d : F × F × F} {P Q : (sw a b).Point} (hc : (2 : F) ≠ 0)
    (hp : JacPt a b pX pY pZ P) (hq : AffPt a b ax ay Q) (hd : P = Q → JacPt a b d.1 d.2.1 d.2.2 (P + Q)) :
    JacPt a b (jacAddMixedTW d pX pY pZ ax ay).1 (jacAddMixedTW d pX pY pZ ax ay).2.1 (jacAddMixedTW d pX pY pZ ax ay).2.2
      (P + Q) := by
  unfold jacAddMixedTW
  split_ifs with h1 h2 h3
  · rcases hq with ⟨_, _, rfl⟩ | ⟨hn, _⟩
    · rw [add_zero]; exact hp
    · exact absurd h1 hn
  · rcases hq with ⟨hx, hy, _⟩ | ⟨_, hn2, rfl⟩
    · exact absurd ⟨hx, hy⟩ h1
    · rw [hp.of_Z_zero h2, zero_add]
      exact Or.inr ⟨ax, ay, hn2, ⟨one_ne_zero, by ring, by ring⟩, rfl⟩
  · rcases hq with ⟨hx, hy, _⟩ | ⟨hnz, hn2, rfl⟩
    · exact absurd ⟨hx, hy⟩ h1
    · obtain ⟨x1, y1, hn1, hr1, rfl⟩ := hp.of_Z_ne h2
      obtain ⟨rfl, rfl⟩ := (jacAddMixedUS_eq_iff hr1).mp h3
      exact hd rfl
  · rcases hq with ⟨hx, hy, _⟩ | ⟨hnz, hn2, rfl⟩
    · exact absurd ⟨hx, hy⟩ h1
    · obtain ⟨x1, y1, hn1, hr1, rfl⟩ := hp.of_Z_ne h2
      have hne : ¬(x1 = ax ∧ y1 = ay) := fun h => h3 ((jacAddMixedUS_eq_iff hr1).mpr h)
      by_cases hx : x1 = ax
      · subst hx
        have hy : y1 = -ay := by
          rcases same_x_cases (onCurve_of_nonsingular hn1) (onCurve_of_nonsingular hn2) with h | h
          · exact absurd ⟨rfl, h⟩ hne
          · exact h
        exact Or.inl ⟨jacAddMixed_opposite hr1, C02_opposite_is_zero hn1 hn2 hy⟩
      · obtain ⟨x3, y3, h3', hadd, hrep⟩ := C02_jacAddMixed_group_law hc hn1 hn2 hr1 hx
        exact Or.inr ⟨x3, y3, h3', hrep, hadd⟩

/-- a = 0 curves: the equal-point branch is `DoubleMixed(a)` -/
def jacAddMixedT (pX pY pZ ax ay : F) : F × F × F := jacAddMixedTW (jacDoubleMixed ax ay) pX pY pZ ax ay

theorem jacAddMixedT_correct {a b pX pY pZ ax ay : F} {P Q : (sw a b).Point} (ha : a = 0) (hc : (2 : F) ≠ 0)
    (hp : JacPt a b pX pY pZ P) (hq : AffPt a b ax ay Q) :
    JacPt a b (jacAddMixedT pX pY pZ ax ay).1 (jacAddMixedT pX pY pZ ax ay).2.1 (jacAddMixedT pX pY pZ ax ay).2.2
      (P + Q) := by
  subst ha
  exact jacAddMixedTW_correct hc hp hq (fun h => h.symm ▸ jacDoubleMixed_total hc hq)

/-! ### negation, subtraction, conversions, tests -/

theorem neg_some_sw {a b x y : F} (h : (sw a b).Nonsingular x y) :
    ∃ h' : (sw a b).Nonsingular x (-y), -(Affine.Point.some x y h) = Affine.Point.some x (-y) h' := by
  have hn : (sw a b).Nonsingular x ((sw a b).negY x y) := (Affine.nonsingular_neg ..).mpr h
  have e : (sw a b).negY x y = -y := sw_negY a b x y
  refine ⟨e ▸ hn, ?_⟩
  rw [Affine.Point.neg_some, Affine.Point.some.injEq]
  exact ⟨rfl, e⟩

/-- `G1Jac.Neg`: (X, -Y, Z) -/
theorem JacPt.neg {a b X Y Z : F} {P : (sw a b).Point} (hp : JacPt a b X Y Z P) : JacPt a b X (-Y) Z (-P) := by
  rcases hp with ⟨hz, rfl⟩ | ⟨x, y, h, ⟨hz, hX, hY⟩, rfl⟩
  · exact Or.inl ⟨hz, neg_zero⟩
  · obtain ⟨h', e⟩ := neg_some_sw h
    exact Or.inr ⟨x, -y, h', ⟨hz, hX, by rw [hY]; ring⟩, e⟩

/-- `G1Affine.Neg`: (x, -y) -/
theorem AffPt.neg {a b x y : F} {P : (sw a b).Point} (hp : AffPt a b x y P) : AffPt a b x (-y) (-P) := by
  rcases hp with ⟨rfl, rfl, rfl⟩ | ⟨hn, h, rfl⟩
  · exact Or.inl ⟨rfl, neg_zero, neg_zero⟩
  · obtain ⟨h', e⟩ := neg_some_sw h
    exact Or.inr ⟨fun ⟨hx, hy⟩ => hn ⟨hx, neg_eq_zero.mp hy⟩, h', e⟩

theorem AffPt.eq_zero_iff {a b x y : F} {P : (sw a b).Point} (hp : AffPt a b x y P) : P = 0 ↔ (x = 0 ∧ y = 0) := by
  rcases hp with ⟨rfl, rfl, rfl⟩ | ⟨hn, h, rfl⟩
  · simp
  · constructor
    · intro h0; cases h0
    · intro h0; exact absurd h0 hn

/-- `G1Affine.Equal` -/
theorem AffPt.eq_iff {a b x1 y1 x2 y2 : F} {P Q : (sw a b).Point} (hp : AffPt a b x1 y1 P) (hq : AffPt a b x2 y2 Q) :
    (x1 = x2 ∧ y1 = y2) ↔ P = Q := by
  rcases hp with ⟨rfl, rfl, rfl⟩ | ⟨hn1, h1, rfl⟩ <;> rcases hq with ⟨rfl, rfl, rfl⟩ | ⟨hn2, h2, rfl⟩
  · simp
  · constructor
    · rintro ⟨rfl, rfl⟩; exact absurd ⟨rfl, rfl⟩ hn2
    · intro h; cases h
  · constructor
    · rintro ⟨rfl, rfl⟩; exact absurd ⟨rfl, rfl⟩ hn1
    · intro h; cases h
  · constructor
    · rintro ⟨rfl, rfl⟩; rfl
    · intro h; cases h; exact ⟨rfl, rfl⟩

/-- `G1Jac.FromAffine`: infinity ↦ (1,1,0), (x,y) ↦ (x,y,1) -/
def jacFromAffineT (x y : F) : F × F × F := if x = 0 ∧ y = 0 then (1, 1, 0) else (x, y, 1)

theorem jacFromAffineT_correct {a b x y : F} {P : (sw a b).Point} (hp : AffPt a b x y P) :
    JacPt a b (jacFromAffineT x y).1 (jacFromAffineT x y).2.1 (jacFromAffineT x y).2.2 P := by
  unfold jacFromAffineT
  rcases hp with ⟨rfl, rfl, rfl⟩ | ⟨hn, h, rfl⟩
  · simp only [and_self, if_true]; exact Or.inl ⟨rfl, rfl⟩
  · rw [if_neg hn]; exact Or.inr ⟨x, y, h, ⟨one_ne_zero, by ring, by ring⟩, rfl⟩

/-- `G1Affine.FromJacobian` with its Z = 0 branch -/
def fromJacobianT (X Y Z : F) : F × F := if Z = 0 then (0, 0) else fromJacobian X Y Z

theorem onCurve_zero_zero {a b : F} (h : (sw a b).Nonsingular 0 0) : b = 0 := by
  have := onCurve_of_nonsingular h
  simp [OnCurve] at this
  exact this.symm

theorem fromJacobianT_correct {a b X Y Z : F} {P : (sw a b).Point} (hb : b ≠ 0) (hp : JacPt a b X Y Z P) :
    AffPt a b (fromJacobianT X Y Z).1 (fromJacobianT X Y Z).2 P := by
  unfold fromJacobianT
  rcases hp with ⟨rfl, rfl⟩ | ⟨x, y, h, hr, rfl⟩
  · simp only [if_true]; exact Or.inl ⟨rfl, rfl, rfl⟩
  · rw [if_neg hr.1, fromJacobian_of_rep hr]
    refine Or.inr ⟨?_, h, rfl⟩
    rintro ⟨rfl, rfl⟩
    exact hb (onCurve_zero_zero h)

/-- `G1Jac.Equal` with its infinity branches -/
def jacEqualT (pX pY pZ qX qY qZ : F) : Prop :=
  if pZ = 0 then qZ = 0 else if qZ = 0 then False else jacEqualTest pX pY pZ qX qY qZ

theorem jacEqualT_iff {a b pX pY pZ qX qY qZ : F} {P Q : (sw a b).Point}
    (hp : JacPt a b pX pY pZ P) (hq : JacPt a b qX qY qZ Q) : jacEqualT pX pY pZ qX qY qZ ↔ P = Q := by
  unfold jacEqualT
  split_ifs with h1 h2
  · rw [hp.of_Z_zero h1]
    constructor
    · intro h; rw [hq.of_Z_zero h]
    · intro h
      by_contra hz
      obtain ⟨x, y, hn, _, e⟩ := hq.of_Z_ne hz
      rw [e] at h; cases h
  · rw [hq.of_Z_zero h2]
    obtain ⟨x, y, hn, _, e⟩ := hp.of_Z_ne h1
    rw [e]
    constructor
    · exact False.elim
    · intro h; cases h
  · obtain ⟨x1, y1, hn1, hr1, rfl⟩ := hp.of_Z_ne h1
    obtain ⟨x2, y2, hn2, hr2, rfl⟩ := hq.of_Z_ne h2
    rw [jacEqual_iff hr1 hr2]
    constructor
    · rintro ⟨rfl, rfl⟩; rfl
    · intro h; cases h; exact ⟨rfl, rfl⟩

/-- `G1Jac.IsOnCurve` (a = 0): on a representative of an affine pair it is the curve equation; on Z = 0 it is Y² = X³ -/
theorem jacIsOnCurve_total {b X Y Z : F} :
    (Z = 0 → (jacIsOnCurve b X Y Z ↔ Y * Y = X * X * X)) ∧
    (∀ x y, JacRep X Y Z x y → (jacIsOnCurve b X Y Z ↔ (sw 0 b).Equation x y)) :=
  ⟨fun hz => by subst hz; exact jacIsOnCurve_Z_zero, fun _ _ hr => C02_jacIsOnCurve_exact hr⟩

/-! ## affine coordinates -/

/-- `G1Affine.Double`: DoubleMixed followed by FromJacobian -/
def affDoubleT (x y : F) : F × F :=
  fromJacobianT (jacDoubleMixed x y).1 (jacDoubleMixed x y).2.1 (jacDoubleMixed x y).2.2

theorem affDoubleT_correct {b x y : F} {P : (sw 0 b).Point} (hc : (2 : F) ≠ 0) (hb : b ≠ 0) (hp : AffPt 0 b x y P) :
    AffPt 0 b (affDoubleT x y).1 (affDoubleT x y).2 (P + P) :=
  fromJacobianT_correct hb (jacDoubleMixed_total hc hp)

/-- `G1Affine.Add` with all its dispatch branches -/
def affAddT (ax ay bx by_ : F) : F × F :=
  if ax = 0 ∧ ay = 0 then (bx, by_)
  else if bx = 0 ∧ by_ = 0 then (ax, ay)
  else if ax = bx then (if ay = by_ then affDoubleT ax ay else (0, 0))
  else fromJacobianT (affAddJac ax ay bx by_).1 (affAddJac ax ay bx by_).2.1 (affAddJac ax ay bx by_).2.2

theorem affAddT_correct {a b ax ay bx by_ : F} {P Q : (sw a b).Point} (ha : a = 0) (hc : (2 : F) ≠ 0) (hb : b ≠ 0)
    (hp : AffPt a b ax ay P) (hq : AffPt a b bx by_ Q) :
    AffPt a b (affAddT ax ay bx by_).1 (affAddT ax ay bx by_).2 (P + Q) := by
  subst ha
  unfold affAddT
  split_ifs with h1 h2 h3 h4
  · rw [(hp.eq_zero_iff).mpr h1, zero_add]; exact hq
  · rw [(hq.eq_zero_iff).mpr h2, add_zero]; exact hp
  · subst h3; subst h4
    rcases hp with ⟨hx, hy, _⟩ | ⟨_, hn1, rfl⟩
    · exact absurd ⟨hx, hy⟩ h1
    rcases hq with ⟨hx, hy, _⟩ | ⟨_, hn2, rfl⟩
    · exact absurd ⟨hx, hy⟩ h2
    exact affDoubleT_correct hc hb (Or.inr ⟨h1, hn1, rfl⟩)
  · subst h3
    rcases hp with ⟨hx, hy, _⟩ | ⟨_, hn1, rfl⟩
    · exact absurd ⟨hx, hy⟩ h1
    rcases hq with ⟨hx, hy, _⟩ | ⟨_, hn2, rfl⟩
    · exact absurd ⟨hx, hy⟩ h2
    have hy : ay = -by_ := by
      rcases same_x_cases (onCurve_of_nonsingular hn1) (onCurve_of_nonsingular hn2) with h | h
      · exact absurd h h4
      · exact h
    exact Or.inl ⟨rfl, rfl, C02_opposite_is_zero hn1 hn2 hy⟩
  · rcases hp with ⟨hx, hy, _⟩ | ⟨_, hn1, rfl⟩
    · exact absurd ⟨hx, hy⟩ h1
    rcases hq with ⟨hx, hy, _⟩ | ⟨_, hn2, rfl⟩
    · exact absurd ⟨hx, hy⟩ h2
    have hd : bx - ax ≠ 0 := sub_ne_zero.mpr (Ne.symm h3)
    have hz : (affAddJac ax ay bx by_).2.2 ≠ 0 := by simp only [affAddJac]; exact mul_ne_zero hc hd
    obtain ⟨hn3, hadd⟩ := C02_affAdd_group_law hc hn1 hn2 h3
    unfold fromJacobianT
    rw [if_neg hz]
    refine Or.inr ⟨?_, hn3, hadd⟩
    intro h0
    rw [h0.1, h0.2] at hn3
    exact hb (onCurve_zero_zero hn3)

/-! ## extended Jacobian (XYZZ) coordinates -/

theorem XyzzPt.of_ZZ_zero {a b X Y ZZ ZZZ : F} {P : (sw a b).Point} (h : XyzzPt a b X Y ZZ ZZZ P) (hz : ZZ = 0) : P = 0 := by
  rcases h with ⟨_, h⟩ | ⟨l, x, y, _, ⟨hl, hZZ, _⟩, _⟩
  · exact h
  · exact absurd (hZZ ▸ hz) (pow_ne_zero 2 hl)

theorem XyzzPt.of_ZZ_ne {a b X Y ZZ ZZZ : F} {P : (sw a b).Point} (h : XyzzPt a b X Y ZZ ZZZ P) (hz : ZZ ≠ 0) :
    ∃ l x y, ∃ h : (sw a b).Nonsingular x y, XyzzRep l X Y ZZ ZZZ x y ∧ P = Affine.Point.some x y h := by
  rcases h with ⟨hz', _⟩ | h
  · exact absurd hz' hz
  · exact h

/-- `g1JacExtended.double` on every input -/
theorem xyzzDouble_total {b X Y ZZ ZZZ : F} {P : (sw 0 b).Point} (hc : (2 : F) ≠ 0) (hp : XyzzPt 0 b X Y ZZ ZZZ P) :
    XyzzPt 0 b (xyzzDouble X Y ZZ ZZZ).1 (xyzzDouble X Y ZZ ZZZ).2.1 (xyzzDouble X Y ZZ ZZZ).2.2.1
      (xyzzDouble X Y ZZ ZZZ).2.2.2 (P + P) := by
  by_cases hz : ZZ = 0
  · rw [hp.of_ZZ_zero hz]
    exact Or.inl ⟨xyzzDouble_ZZ_zero (Or.inr hz), by simp⟩
  · obtain ⟨l, x, y, h, hr, rfl⟩ := hp.of_ZZ_ne hz
    by_cases hy : y = 0
    · refine Or.inl ⟨xyzzDouble_ZZ_zero (Or.inl ?_), C02_opposite_is_zero h h (by simp [hy])⟩
      rw [hr.2.2.2.2, hy, zero_mul]
    · obtain ⟨x3, y3, l3, h3, hadd, hrep⟩ := C02_xyzzDouble_group_law hc h hr hy
      exact Or.inr ⟨l3, x3, y3, h3, hrep, hadd⟩

/-- `g1JacExtended.doubleMixed` on every affine input -/
theorem xyzzDoubleMixed_total {b x y : F} {P : (sw 0 b).Point} (hc : (2 : F) ≠ 0) (hp : AffPt 0 b x y P) :
    XyzzPt 0 b (xyzzDoubleMixed x y).1 (xyzzDoubleMixed x y).2.1 (xyzzDoubleMixed x y).2.2.1
      (xyzzDoubleMixed x y).2.2.2 (P + P) := by
  have hZ : y = 0 → (xyzzDoubleMixed x y).2.2.1 = 0 := by rintro rfl; simp only [xyzzDoubleMixed]; ring
  rcases hp with ⟨rfl, rfl, rfl⟩ | ⟨_, h, rfl⟩
  · exact Or.inl ⟨hZ rfl, by simp⟩
  · by_cases hy : y = 0
    · exact Or.inl ⟨hZ hy, C02_opposite_is_zero h h (by simp [hy])⟩
    · obtain ⟨x3, y3, l3, h3, hadd, hrep⟩ := C02_xyzzDoubleMixed_group_law hc h hy
      exact Or.inr ⟨l3, x3, y3, h3, hrep, hadd⟩

/-- `g1JacExtended.add` with all its dispatch branches; `d` = what the equal-point branch returns (the doubling of q) -/
def xyzzAddTW (d : F × F × F × F) (pX pY pZZ pZZZ qX qY qZZ qZZZ : F) : F × F × F × F :=
  if qZZ = 0 then (pX, pY, pZZ, pZZZ)
  else if pZZ = 0 then (qX, qY, qZZ, qZZZ)
  else if (xyzzAddAB pX pY pZZ pZZZ qX qY qZZ qZZZ).1 = 0 then
    (if (xyzzAddAB pX pY pZZ pZZZ qX qY qZZ qZZZ).2 = 0 then d else (pX, pY, 0, 0))
  else xyzzAdd pX pY pZZ pZZZ qX qY qZZ qZZZ

theorem xyzzAddTW_correct {a b pX pY pZZ pZZZ qX qY qZZ qZZZ : F} {d : F × F × F × F} {P Q : (sw a b).Point}
    (hp : XyzzPt a b pX pY pZZ pZZZ P) (hq : XyzzPt a b qX qY qZZ qZZZ Q)
    (hd : P = Q → XyzzPt a b d.1 d.2.1 d.2.2.1 d.2.2.2 (P + Q)) :
    XyzzPt a b (xyzzAddTW d pX pY pZZ pZZZ qX qY qZZ qZZZ).1 (xyzzAddTW d pX pY pZZ pZZZ qX qY qZZ qZZZ).2.1
      (xyzzAddTW d pX pY pZZ pZZZ qX qY qZZ qZZZ).2.2.1 (xyzzAddTW d pX pY pZZ pZZZ qX qY qZZ qZZZ).2.2.2 (P + Q) := by
  unfold xyzzAddTW
  split_ifs with h1 h2 h3 h4
  · rw [hq.of_ZZ_zero h1, add_zero]; exact hp
  · rw [hp.of_ZZ_zero h2, zero_add]; exact hq
  · obtain ⟨l1, x1, y1, hn1, hr1, rfl⟩ := hp.of_ZZ_ne h2
    obtain ⟨l2, x2, y2, hn2, hr2, rfl⟩ := hq.of_ZZ_ne h1
    obtain rfl := (xyzzAddAB_iff hr1 hr2).1.mp h3
    obtain rfl := (xyzzAddAB_iff hr1 hr2).2.mp h4
    exact hd rfl
  · obtain ⟨l1, x1, y1, hn1, hr1, rfl⟩ := hp.of_ZZ_ne h2
    obtain ⟨l2, x2, y2, hn2, hr2, rfl⟩ := hq.of_ZZ_ne h1
    obtain rfl := (xyzzAddAB_iff hr1 hr2).1.mp h3
    have hy : y1 = -y2 := by
      rcases same_x_cases (onCurve_of_nonsingular hn1) (onCurve_of_nonsingular hn2) with h | h
      · exact absurd ((xyzzAddAB_iff hr1 hr2).2.mpr h) h4
      · exact h
    exact Or.inl ⟨rfl, C02_opposite_is_zero hn1 hn2 hy⟩
  · obtain ⟨l1, x1, y1, hn1, hr1, rfl⟩ := hp.of_ZZ_ne h2
    obtain ⟨l2, x2, y2, hn2, hr2, rfl⟩ := hq.of_ZZ_ne h1
    have hx : x1 ≠ x2 := fun h => h3 ((xyzzAddAB_iff hr1 hr2).1.mpr h)
    obtain ⟨x3, y3, l3, h3', hadd, hrep⟩ := C02_xyzzAdd_group_law hn1 hn2 hr1 hr2 hx
    exact Or.inr ⟨l3, x3, y3, h3', hrep, hadd⟩

/-- a = 0 curves: the equal-point branch is `double(q)` -/
def xyzzAddT (pX pY pZZ pZZZ qX qY qZZ qZZZ : F) : F × F × F × F :=
  xyzzAddTW (xyzzDouble qX qY qZZ qZZZ) pX pY pZZ pZZZ qX qY qZZ qZZZ

theorem xyzzAddT_correct {a b pX pY pZZ pZZZ qX qY qZZ qZZZ : F} {P Q : (sw a b).Point} (ha : a = 0) (hc : (2 : F) ≠ 0)
    (hp : XyzzPt a b pX pY pZZ pZZZ P) (hq : XyzzPt a b qX qY qZZ qZZZ Q) :
    XyzzPt a b (xyzzAddT pX pY pZZ pZZZ qX qY qZZ qZZZ).1 (xyzzAddT pX pY pZZ pZZZ qX qY qZZ qZZZ).2.1
      (xyzzAddT pX pY pZZ pZZZ qX qY qZZ qZZZ).2.2.1 (xyzzAddT pX pY pZZ pZZZ qX qY qZZ qZZZ).2.2.2 (P + Q) := by
  subst ha
  exact xyzzAddTW_correct hp hq (fun h => h.symm ▸ xyzzDouble_total hc hq)

/-- `g1JacExtended.addMixed` with all its dispatch branches; `d` = what the equal-point branch returns -/
def xyzzAddMixedTW (d : F × F × F × F) (pX pY pZZ pZZZ ax ay : F) : F × F × F × F :=
  if ax = 0 ∧ ay = 0 then (pX, pY, pZZ, pZZZ)
  else if pZZ = 0 then (ax, ay, 1, 1)
  else if (xyzzAddMixedPR pX pY pZZ pZZZ ax ay).1 = 0 then
    (if (xyzzAddMixedPR pX pY pZZ pZZZ ax ay).2 = 0 then d else (pX, pY, 0, 0))
  else xyzzAddMixed pX pY pZZ pZZZ ax ay

theorem xyzzAddMixedTW_correct {a b pX pY pZZ pZZZ ax ay : F} {d : F × F × F × F} {P Q : (sw a b).Point}
    (hp : XyzzPt a b pX pY pZZ pZZZ P) (hq : AffPt a b ax ay Q)
    (hd : P = Q → XyzzPt a b d.1 d.2.1 d.2.2.1 d.2.2.2 (P + Q)) :
    XyzzPt a b (xyzzAddMixedTW d pX pY pZZ pZZZ ax ay).1 (xyzzAddMixedTW d pX pY pZZ pZZZ ax ay).2.1
      (xyzzAddMixedTW d pX pY pZZ pZZZ ax ay).2.2.1 (xyzzAddMixedTW d pX pY pZZ pZZZ ax ay).2.2.2 (P + Q) := by
  unfold xyzzAddMixedTW
  split_ifs with h1 h2 h3 h4
  · rw [(hq.eq_zero_iff).mpr h1, add_zero]; exact hp
  · rcases hq with ⟨hx, hy, _⟩ | ⟨_, hn2, rfl⟩
    · exact absurd ⟨hx, hy⟩ h1
    · rw [hp.of_ZZ_zero h2, zero_add]
      exact Or.inr ⟨1, ax, ay, hn2, ⟨one_ne_zero, by ring, by ring, by ring, by ring⟩, rfl⟩
  · rcases hq with ⟨hx, hy, _⟩ | ⟨hnz, hn2, rfl⟩
    · exact absurd ⟨hx, hy⟩ h1
    obtain ⟨l1, x1, y1, hn1, hr1, rfl⟩ := hp.of_ZZ_ne h2
    obtain rfl := (xyzzAddMixedPR_iff hr1).1.mp h3
    obtain rfl := (xyzzAddMixedPR_iff hr1).2.mp h4
    exact hd rfl
  · rcases hq with ⟨hx, hy, _⟩ | ⟨hnz, hn2, rfl⟩
    · exact absurd ⟨hx, hy⟩ h1
    obtain ⟨l1, x1, y1, hn1, hr1, rfl⟩ := hp.of_ZZ_ne h2
    obtain rfl := (xyzzAddMixedPR_iff hr1).1.mp h3
    have hy : y1 = -ay := by
      rcases same_x_cases (onCurve_of_nonsingular hn1) (onCurve_of_nonsingular hn2) with h | h
      · exact absurd ((xyzzAddMixedPR_iff hr1).2.mpr h) h4
      · exact h
    exact Or.inl ⟨rfl, C02_opposite_is_zero hn1 hn2 hy⟩
  · rcases hq with ⟨hx, hy, _⟩ | ⟨hnz, hn2, rfl⟩
    · exact absurd ⟨hx, hy⟩ h1
    obtain ⟨l1, x1, y1, hn1, hr1, rfl⟩ := hp.of_ZZ_ne h2
    have hx : x1 ≠ ax := fun h => h3 ((xyzzAddMixedPR_iff hr1).1.mpr h)
    obtain ⟨x3, y3, l3, h3', hadd, hrep⟩ := C02_xyzzAddMixed_group_law hn1 hn2 hr1 hx
    exact Or.inr ⟨l3, x3, y3, h3', hrep, hadd⟩

/-- a = 0 curves: the equal-point branch is `doubleMixed(a)` -/
def xyzzAddMixedT (pX pY pZZ pZZZ ax ay : F) : F × F × F × F :=
  xyzzAddMixedTW (xyzzDoubleMixed ax ay) pX pY pZZ pZZZ ax ay

theorem xyzzAddMixedT_correct {a b pX pY pZZ pZZZ ax ay : F} {P Q : (sw a b).Point} (ha : a = 0) (hc : (2 : F) ≠ 0)
    (hp : XyzzPt a b pX pY pZZ pZZZ P) (hq : AffPt a b ax ay Q) :
    XyzzPt a b (xyzzAddMixedT pX pY pZZ pZZZ ax ay).1 (xyzzAddMixedT pX pY pZZ pZZZ ax ay).2.1
      (xyzzAddMixedT pX pY pZZ pZZZ ax ay).2.2.1 (xyzzAddMixedT pX pY pZZ pZZZ ax ay).2.2.2 (P + Q) := by
  subst ha
  exact xyzzAddMixedTW_correct hp hq (fun h => h.symm ▸ xyzzDoubleMixed_total hc hq)

/-- `g1JacExtended.subMixed` with all its dispatch branches -/
def xyzzSubMixedT (pX pY pZZ pZZZ ax ay : F) : F × F × F × F :=
  if ax = 0 ∧ ay = 0 then (pX, pY, pZZ, pZZZ)
  else if pZZ = 0 then (ax, -ay, 1, 1)
  else if ax * pZZ - pX = 0 then
    (if -(ay * pZZZ) - pY = 0 then xyzzDoubleNegMixed ax ay else (pX, pY, 0, 0))
  else xyzzSubMixed pX pY pZZ pZZZ ax ay

theorem xyzzSubMixedT_eq (pX pY pZZ pZZZ ax ay : F) :
    xyzzSubMixedT pX pY pZZ pZZZ ax ay = xyzzAddMixedT pX pY pZZ pZZZ ax (-ay) := by
  have e1 : (ax = 0 ∧ ay = 0) ↔ (ax = 0 ∧ -ay = 0) := by rw [neg_eq_zero]
  have e2 : -(ay * pZZZ) - pY = -ay * pZZZ - pY := by ring
  unfold xyzzSubMixedT xyzzAddMixedT xyzzAddMixedTW
  simp only [xyzzAddMixedPR, e1, e2, xyzzSubMixed_eq, xyzzDoubleNegMixed_eq]
  split_ifs <;> first | rfl | simp_all

theorem xyzzSubMixedT_correct {a b pX pY pZZ pZZZ ax ay : F} {P Q : (sw a b).Point} (ha : a = 0) (hc : (2 : F) ≠ 0)
    (hp : XyzzPt a b pX pY pZZ pZZZ P) (hq : AffPt a b ax ay Q) :
    XyzzPt a b (xyzzSubMixedT pX pY pZZ pZZZ ax ay).1 (xyzzSubMixedT pX pY pZZ pZZZ ax ay).2.1
      (xyzzSubMixedT pX pY pZZ pZZZ ax ay).2.2.1 (xyzzSubMixedT pX pY pZZ pZZZ ax ay).2.2.2 (P - Q) := by
  rw [xyzzSubMixedT_eq, sub_eq_add_neg]
  exact xyzzAddMixedT_correct ha hc hp hq.neg

/-- `g1JacExtended.doubleNegMixed`: -(Q + Q) -/
theorem xyzzDoubleNegMixed_total {b x y : F} {P : (sw 0 b).Point} (hc : (2 : F) ≠ 0) (hp : AffPt 0 b x y P) :
    XyzzPt 0 b (xyzzDoubleNegMixed x y).1 (xyzzDoubleNegMixed x y).2.1 (xyzzDoubleNegMixed x y).2.2.1
      (xyzzDoubleNegMixed x y).2.2.2 (-P + -P) := by
  rw [xyzzDoubleNegMixed_eq]
  exact xyzzDoubleMixed_total hc hp.neg

/-- `G1Affine.fromJacExtended` -/
def xyzzToAffineT (X Y ZZ ZZZ : F) : F × F := if ZZ = 0 then (0, 0) else xyzzToAffine X Y ZZ ZZZ

theorem xyzzToAffineT_correct {a b X Y ZZ ZZZ : F} {P : (sw a b).Point} (hb : b ≠ 0) (hp : XyzzPt a b X Y ZZ ZZZ P) :
    AffPt a b (xyzzToAffineT X Y ZZ ZZZ).1 (xyzzToAffineT X Y ZZ ZZZ).2 P := by
  unfold xyzzToAffineT
  by_cases hz : ZZ = 0
  · rw [if_pos hz, hp.of_ZZ_zero hz]; exact Or.inl ⟨rfl, rfl, rfl⟩
  · obtain ⟨l, x, y, h, hr, rfl⟩ := hp.of_ZZ_ne hz
    rw [if_neg hz, xyzzToAffine_of_rep hr]
    refine Or.inr ⟨?_, h, rfl⟩
    rintro ⟨rfl, rfl⟩
    exact hb (onCurve_zero_zero h)

/-- `G1Jac.fromJacExtended` (`inf` = the package variable g1Infinity) -/
def xyzzToJacT (X Y ZZ ZZZ iX iY iZ : F) : F × F × F := if ZZ = 0 then (iX, iY, iZ) else xyzzToJac X Y ZZ ZZZ

theorem xyzzToJacT_correct {a b X Y ZZ ZZZ iX iY iZ : F} {P : (sw a b).Point} (hi : iZ = 0)
    (hp : XyzzPt a b X Y ZZ ZZZ P) :
    JacPt a b (xyzzToJacT X Y ZZ ZZZ iX iY iZ).1 (xyzzToJacT X Y ZZ ZZZ iX iY iZ).2.1
      (xyzzToJacT X Y ZZ ZZZ iX iY iZ).2.2 P := by
  unfold xyzzToJacT
  by_cases hz : ZZ = 0
  · rw [if_pos hz, hp.of_ZZ_zero hz]; exact Or.inl ⟨hi, rfl⟩
  · obtain ⟨l, x, y, h, hr, rfl⟩ := hp.of_ZZ_ne hz
    rw [if_neg hz]
    exact Or.inr ⟨x, y, h, (C02_xyzz_conversions hr).2.1, rfl⟩

end GV.CurveGen

/-! ## tactic for the per-package bridge lemmas `generated def = total operation` -/

/-- unfold the generated def and the hand formulas, split every `if`, compare the components with `ring` -/
syntax "gv_bridge " "[" Lean.Parser.Tactic.simpLemma,* "]" : tactic
macro_rules
  | `(tactic| gv_bridge [$ds,*]) =>
    `(tactic| (simp only [$ds,*, decide_eq_true_eq, Bool.and_eq_true, Bool.not_eq_true', decide_eq_false_iff_not] <;>
               first
               | rfl
               | (split_ifs <;> (try simp only [*, and_self, if_true, if_false, not_true_eq_false, not_false_eq_true]) <;>
                   first | rfl | (ext <;> dsimp only <;> ring1) | (congr 2 <;> ring1) | (congr 3 <;> ring1) | (exfalso; simp_all))
               | (ext <;> dsimp only <;> ring1)))

/-! ## stark-curve (a = 1) doublings -/
namespace GV.CurveGen
open GV.Curve GV.C02 WeierstrassCurve
variable {F : Type} [Field F] [DecidableEq F]

theorem jacDoubleStark_total {b X Y Z : F} {P : (sw 1 b).Point} (hc : (2 : F) ≠ 0) (hp : JacPt 1 b X Y Z P) :
    JacPt 1 b (jacDoubleStark X Y Z).1 (jacDoubleStark X Y Z).2.1 (jacDoubleStark X Y Z).2.2 (P + P) := by
  by_cases hz : Z = 0
  · rw [hp.of_Z_zero hz]
    exact Or.inl ⟨jacDoubleStark_Z_zero (Or.inr hz), by simp⟩
  · obtain ⟨x, y, h, hr, rfl⟩ := hp.of_Z_ne hz
    by_cases hy : y = 0
    · refine Or.inl ⟨jacDoubleStark_Z_zero (Or.inl ?_), C02_opposite_is_zero h h (by simp [hy])⟩
      rw [hr.2.2, hy, zero_mul]
    · obtain ⟨x3, y3, h3, hadd, hrep⟩ := C02_jacDoubleStark_group_law hc h hr hy
      exact Or.inr ⟨x3, y3, h3, hrep, hadd⟩

theorem xyzzDoubleStark_ZZ_zero {X Y ZZ ZZZ : F} (h : Y = 0 ∨ ZZ = 0) : (xyzzDoubleStark X Y ZZ ZZZ).2.2.1 = 0 := by
  rcases h with rfl | rfl <;> simp only [xyzzDoubleStark] <;> ring

theorem xyzzDoubleStark_total {b X Y ZZ ZZZ : F} {P : (sw 1 b).Point} (hc : (2 : F) ≠ 0)
    (hp : XyzzPt 1 b X Y ZZ ZZZ P) :
    XyzzPt 1 b (xyzzDoubleStark X Y ZZ ZZZ).1 (xyzzDoubleStark X Y ZZ ZZZ).2.1 (xyzzDoubleStark X Y ZZ ZZZ).2.2.1
      (xyzzDoubleStark X Y ZZ ZZZ).2.2.2 (P + P) := by
  by_cases hz : ZZ = 0
  · rw [hp.of_ZZ_zero hz]
    exact Or.inl ⟨xyzzDoubleStark_ZZ_zero (Or.inr hz), by simp⟩
  · obtain ⟨l, x, y, h, hr, rfl⟩ := hp.of_ZZ_ne hz
    by_cases hy : y = 0
    · refine Or.inl ⟨xyzzDoubleStark_ZZ_zero (Or.inl ?_), C02_opposite_is_zero h h (by simp [hy])⟩
      rw [hr.2.2.2.2, hy, zero_mul]
    · obtain ⟨h3, hadd⟩ := C02_tangent_is_group_double hc h hy
      exact Or.inr ⟨_, _, _, h3, xyzzDoubleStark_tangent hc hr hy, hadd⟩

/-- stark-curve `g1JacExtended.doubleMixed` on every affine input (a = aCurveCoeff) -/
theorem xyzzDoubleMixedStark_total {a b x y : F} {P : (sw a b).Point} (hc : (2 : F) ≠ 0) (hp : AffPt a b x y P) :
    XyzzPt a b (xyzzDoubleMixedStark a x y).1 (xyzzDoubleMixedStark a x y).2.1 (xyzzDoubleMixedStark a x y).2.2.1
      (xyzzDoubleMixedStark a x y).2.2.2 (P + P) := by
  have hZ : y = 0 → (xyzzDoubleMixedStark a x y).2.2.1 = 0 := by rintro rfl; simp only [xyzzDoubleMixedStark]; ring
  rcases hp with ⟨rfl, rfl, rfl⟩ | ⟨_, h, rfl⟩
  · exact Or.inl ⟨hZ rfl, by simp⟩
  · by_cases hy : y = 0
    · exact Or.inl ⟨hZ hy, C02_opposite_is_zero h h (by simp [hy])⟩
    · obtain ⟨x3, y3, l3, h3, hadd, hrep⟩ := C02_starkDoubleMixed_group_law hc h hy
      exact Or.inr ⟨l3, x3, y3, h3, hrep, hadd⟩

end GV.CurveGen
