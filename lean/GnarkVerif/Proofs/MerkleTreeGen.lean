import GnarkVerif.Proofs.MerkleVerifyGen
import GnarkVerif.Gen.Imp.MerkleTree
import GnarkVerif.Props.C16
/-
Helper lemmas for C16_tree_gen: the tree BUILDER of Gen/Imp/MerkleTree.lean (REGENERATED from /repo/accumulator/merkletree/tree.go by
tools/goslp mode "imp": `New`, `joinSubTrees`, `joinAllSubTrees`, `Root`, `Push`, `Prove`, `SetIndex`, `PushSubTree`) refines
`Tree` / `push` / `root` / `prove` / `setIndex` / `pushSubTree` of Model/Merkle.lean.
-/
namespace GV.MerkleTreeGen
open GV.GoImp GV.Merkle GV.Gen.Imp.MerkleTree GV.MerkleGen

abbrev B := GoImp.Bytes
abbrev GTree := GV.Gen.Imp.MerkleTree.Tree

/-- abstraction of the linked list of sub-trees (head = smallest sub-tree first) -/
def absStack (l : List subTree) : List (Nat × B) := l.map (fun n => (n.height.toNat, n.sum))

/-- the list of sub-tree nodes with the given (non-negative) heights -/
def conc (st : List (Nat × B)) : List subTree := st.map (fun e => ({ height := (e.1 : Int), sum := e.2 } : subTree))

/-- abstraction function: generated `Tree` ↦ `Model.Merkle.Tree` (`proofSet = leaf :: siblings`; the hasher and the flag `cachedTree`,
which the invariant fixes to false, are dropped) -/
def abs (g : GTree) : Merkle.Tree B B :=
  { stack := absStack g.head, cur := g.currentIndex, pidx := g.proofIndex, pleaf := g.proofSet.head?, sibs := g.proofSet.tail,
    proofTree := g.proofTree }

/-- invariant: `cachedTree` is never set, every height is non-negative, the proof set is empty as long as the proof index has not
been reached and in an empty tree -/
def Inv (g : GTree) : Prop :=
  g.cachedTree = false ∧ (∀ n ∈ g.head, 0 ≤ n.height) ∧ (g.currentIndex ≤ g.proofIndex → g.proofSet = []) ∧
    (g.head = [] → g.proofSet = [])

theorem absStack_conc (st : List (Nat × B)) : absStack (conc st) = st := by
  induction st with
  | nil => rfl
  | cons e st ih => simp only [absStack, conc, List.map_cons, List.map_map] at ih ⊢; simp [ih]

theorem conc_absStack (l : List subTree) (h : ∀ n ∈ l, 0 ≤ n.height) : conc (absStack l) = l := by
  induction l with
  | nil => rfl
  | cons n l ih =>
    have h0 := h n (by simp)
    have ih' := ih (fun m hm => h m (by simp [hm]))
    simp only [absStack, conc, List.map_cons] at ih' ⊢
    rw [ih']
    congr 1
    cases n with
    | mk hh ss => simp only [subTree.mk.injEq, and_true]; exact Int.toNat_of_nonneg h0

theorem conc_nonneg (st : List (Nat × B)) : ∀ n ∈ conc st, 0 ≤ n.height := by
  intro n hn
  simp only [conc, List.mem_map] at hn
  obtain ⟨e, _, rfl⟩ := hn
  exact Int.natCast_nonneg _

theorem conc_eq_nil (st : List (Nat × B)) : conc st = [] ↔ st = [] := by simp [conc]

variable (hl : B → B) (hn : B → B → B)

/-- `joinAllSubTrees`' loop on a tree whose list is `hd :: rest`: the model's `joinAll` -/
theorem joinLoop_eq : ∀ (rest : List (Nat × B)) (fuel : Nat) (t : GTree) (hd : Nat × B),
    t.head = conc (hd :: rest) → (∀ e ∈ rest, e.1 < 64) → t.currentIndex < 2^64 → rest.length ≤ fuel →
    joinAllSubTrees.loop1 hl hn fuel t =
      { t with head := conc (joinAll hn t.proofIndex t.currentIndex t.proofSet.head?.isSome hd rest t.proofSet.tail).1,
               proofSet := t.proofSet.take 1 ++ (joinAll hn t.proofIndex t.currentIndex t.proofSet.head?.isSome hd rest t.proofSet.tail).2 } := by
  intro rest
  induction rest with
  | nil =>
    intro fuel t hd hh _ _ _
    have e : t.proofSet.take 1 ++ t.proofSet.tail = t.proofSet := by cases t.proofSet <;> simp
    cases fuel with
    | zero => cases t; simp_all [joinAllSubTrees.loop1, joinAll]
    | succ f => cases t; simp_all [joinAllSubTrees.loop1, joinAll, conc]
  | cons nx rest ih =>
    intro fuel t hd hh hb hc hf
    cases fuel with
    | zero => simp at hf
    | succ f =>
      have hnx : nx.1 < 64 := hb nx (by simp)
      have hf' : rest.length ≤ f := by simpa using hf
      have hb' : ∀ e ∈ rest, e.1 < 64 := fun e he => hb e (by simp [he])
      obtain ⟨hdh, hds⟩ := hd
      obtain ⟨nxh, nxs⟩ := nx
      cases t with
      | mk head hash cur pidx ps pt ct =>
      simp only at hh hc hnx
      subst hh
      unfold joinAllSubTrees.loop1
      simp only [conc, List.map_cons, List.tail_cons, List.isEmpty_cons, Bool.not_false, Bool.true_and, nodeOf, List.headD_cons,
        joinAll, joinSubTrees]
      by_cases heq : hdh = nxh
      · subst heq
        simp only [beq_self_eq_true, if_true]
        have e1 : uintOfInt (hdh : Int) = hdh := uintOfInt_nat hdh (by omega)
        have e2 : shl64 1 hdh = 2^hdh := shl_one hdh hnx
        have hmid : cur / 2^hdh * 2^hdh % 2^64 = cur / 2^hdh * 2^hdh :=
          Nat.mod_eq_of_lt (Nat.lt_of_le_of_lt (Nat.div_mul_le_self cur (2^hdh)) hc)
        rw [e1, e2, hmid]
        cases ps with
        | nil =>
          have hne : ((hdh : Int) == len ([] : List B) - 1) = false := by simp [len] <;> omega
          simp only [hne, Bool.false_eq_true, ↓reduceIte]
          rw [ih f _ (hdh+1, hn nxs hds) (by simp [conc]) hb' hc hf']
          simp [conc]
        | cons lf sibs =>
          by_cases hk : hdh = sibs.length
          · have hke : ((hdh : Int) == len (lf :: sibs) - 1) = true := by simp [len] <;> omega
            simp only [hke, ↓reduceIte]
            by_cases hp : pidx < cur / 2 ^ hdh * 2 ^ hdh
            · simp only [hp, decide_true, ↓reduceIte]
              rw [ih f _ (hdh+1, hn nxs hds) (by simp [conc]) hb' hc hf']
              simp [hk, conc]
            · simp only [hp, decide_false, Bool.false_eq_true, ↓reduceIte]
              rw [ih f _ (hdh+1, hn nxs hds) (by simp [conc]) hb' hc hf']
              simp [hk, conc]
          · have hke : ((hdh : Int) == len (lf :: sibs) - 1) = false := by simp [len] <;> omega
            simp only [hke, Bool.false_eq_true, ↓reduceIte]
            rw [ih f _ (hdh+1, hn nxs hds) (by simp [conc]) hb' hc hf']
            simp [hk, conc]
      · have : ((hdh : Int) == (nxh : Int)) = false := by simp; omega
        simp [this, heq]
        cases ps <;> simp

theorem joinAll_ne_nil {D : Type} (hn' : D → D → D) (p c : Nat) (b : Bool) : ∀ (rest : List (Nat × D)) (hd : Nat × D) (sibs : List D),
    (joinAll hn' p c b hd rest sibs).1 ≠ [] := by
  intro rest
  induction rest with
  | nil => intro hd sibs; simp [joinAll]
  | cons nx rest ih =>
    intro hd sibs
    unfold joinAll
    split
    · exact ih _ _
    · simp

/-- `joinAll` only appends to the siblings when the leaf is there -/
theorem joinAll_noleaf {D : Type} (hn' : D → D → D) (p c : Nat) : ∀ (rest : List (Nat × D)) (hd : Nat × D) (sibs : List D),
    (joinAll hn' p c false hd rest sibs).2 = sibs := by
  intro rest
  induction rest with
  | nil => intro hd sibs; simp [joinAll]
  | cons nx rest ih =>
    intro hd sibs
    unfold joinAll
    split
    · simp [ih]
    · rfl

/-- `Push` refines `push` -/
theorem push_eq (g : GTree) (data : B) (fuel : Nat) (hinv : Inv g) (hb : ∀ e ∈ (abs g).stack, e.1 < 64)
    (hc : g.currentIndex + 1 < 2^64) (hf : g.head.length ≤ fuel) :
    abs (Push hl hn g data fuel) = push hl hn (abs g) data ∧ Inv (Push hl hn g data fuel) ∧
      (Push hl hn g data fuel).hash = g.hash := by
  obtain ⟨hct, hnn, hps, _⟩ := hinv
  have hcc := conc_absStack g.head hnn
  cases g with
  | mk head hash cur pidx ps pt ct =>
  simp only at hct hnn hps hc hf hcc
  simp only [abs] at hb
  subst hct
  have hm : (cur + 1) % 2^64 = cur + 1 := Nat.mod_eq_of_lt hc
  have hc' : cur + 1 < 18446744073709551616 := by omega
  have hm' : (cur + 1) % 18446744073709551616 = cur + 1 := Nat.mod_eq_of_lt hc'
  unfold Push joinAllSubTrees
  simp only [Bool.false_eq_true, ↓reduceIte, nodeOf, List.headD_cons, List.tail_cons, hm]
  by_cases hcp : cur = pidx
  · subst hcp
    have hps' := hps (by omega)
    subst hps'
    simp only [beq_self_eq_true, ↓reduceIte, List.nil_append, Bool.false_eq_true, hm]
    rw [joinLoop_eq hl hn (absStack head) fuel _ (0, hl data) (by rw [show conc ((0, hl data) :: absStack head) = ({height := 0, sum := hl data} : subTree) :: conc (absStack head) from rfl, hcc]) hb (by simp; omega) (by simpa [absStack] using hf)]
    simp only [abs, push, absStack_conc]
    refine ⟨?_, ⟨?_, conc_nonneg _, ?_, ?_⟩, ?_⟩
    · simp [hm', hc']
    · simp
    · simp [hm']
    · simp only [conc_eq_nil]; intro h; exact absurd h (joinAll_ne_nil hn _ _ _ _ _ _)
    · simp
  · have hne : (cur == pidx) = false := by simp [hcp]
    simp only [hne, Bool.false_eq_true, ↓reduceIte, hm]
    rw [joinLoop_eq hl hn (absStack head) fuel _ (0, hl data) (by rw [show conc ((0, hl data) :: absStack head) = ({height := 0, sum := hl data} : subTree) :: conc (absStack head) from rfl, hcc]) hb (by simp; omega) (by simpa [absStack] using hf)]
    simp only [abs, push, absStack_conc]
    refine ⟨?_, ⟨?_, conc_nonneg _, ?_, ?_⟩, ?_⟩
    · cases ps <;> simp [hcp, hm', joinAll_noleaf]
    · simp
    · simp only [hm]
      intro hle
      have hps' := hps (by omega)
      subst hps'
      simp [joinAll_noleaf]
    · intro h0
      have := joinAll_ne_nil hn pidx cur ps.head?.isSome (absStack head) (0, hl data) ps.tail
      simp [conc] at h0
      exact absurd h0 this
    · simp

/-- the loop of `Root` -/
theorem rootLoop_eq (t : GTree) : ∀ (rest : List (Nat × B)) (fuel : Nat) (c : Nat × B), rest.length ≤ fuel →
    ∃ k : Nat, Root.loop1 hl hn t fuel (conc (c :: rest)) = conc [(k, rootFold hn c.2 rest)] := by
  intro rest
  induction rest with
  | nil =>
    intro fuel c _
    refine ⟨c.1, ?_⟩
    cases fuel <;> simp [Root.loop1, conc, rootFold]
  | cons nx rest ih =>
    intro fuel c hf
    cases fuel with
    | zero => simp at hf
    | succ f =>
      obtain ⟨k, hk⟩ := ih f (nx.1 + 1, hn nx.2 c.2) (by simpa using hf)
      refine ⟨k, ?_⟩
      unfold Root.loop1
      simp only [conc, List.map_cons, List.tail_cons, List.isEmpty_cons, Bool.not_false, ↓reduceIte, joinSubTrees, nodeOf,
        List.headD_cons]
      simp only [conc, List.map_cons, Nat.cast_add, Nat.cast_one] at hk
      rw [hk]
      simp [rootFold]

/-- `Root` refines `root` -/
theorem root_eq (g : GTree) (fuel : Nat) (hnn : ∀ n ∈ g.head, 0 ≤ n.height) (hf : g.head.length ≤ fuel) :
    Root hl hn g fuel = root hn (abs g) := by
  have hcc := conc_absStack g.head hnn
  unfold Root root abs
  cases hh : g.head with
  | nil => simp [absStack]
  | cons n l =>
    rw [hh] at hcc hf
    simp only [List.isEmpty_cons, Bool.false_eq_true, ↓reduceIte, absStack, List.map_cons]
    obtain ⟨k, hk⟩ := rootLoop_eq hl hn g (absStack l) fuel (n.height.toNat, n.sum) (by simp [absStack] at hf ⊢; omega)
    rw [show conc ((n.height.toNat, n.sum) :: absStack l) = n :: l from hcc] at hk
    rw [hk]
    simp [conc, nodeOf, absStack]

/-- first loop of `Prove` -/
theorem proveLoop1_eq (t : GTree) (lf : B) (sibs : List B) : ∀ (rest : List (Nat × B)) (fuel : Nat) (c : Nat × B), rest.length ≤ fuel →
    ∃ k : Nat, Prove.loop1 hl hn t (lf :: sibs) fuel (conc (c :: rest)) =
      conc ((k, (proveMerge hn sibs.length c.2 rest).1) :: (proveMerge hn sibs.length c.2 rest).2) := by
  intro rest
  induction rest with
  | nil =>
    intro fuel c _
    refine ⟨c.1, ?_⟩
    cases fuel <;> simp [Prove.loop1, conc, proveMerge]
  | cons nx rest ih =>
    intro fuel c hf
    cases fuel with
    | zero => simp at hf
    | succ f =>
      unfold Prove.loop1
      simp only [conc, List.map_cons, List.tail_cons, List.isEmpty_cons, Bool.not_false, Bool.true_and, nodeOf, List.headD_cons,
        joinSubTrees, proveMerge, len, List.length_cons]
      by_cases hlt : nx.1 < sibs.length
      · have : decide ((nx.1 : Int) < Int.ofNat (sibs.length + 1) - 1) = true := by simp; omega
        obtain ⟨k, hk⟩ := ih f (nx.1 + 1, hn nx.2 c.2) (by simpa using hf)
        refine ⟨k, ?_⟩
        simp only [this, ↓reduceIte, hlt]
        simp only [conc, List.map_cons, Nat.cast_add, Nat.cast_one] at hk
        rw [hk]
      · have : decide ((nx.1 : Int) < Int.ofNat (sibs.length + 1) - 1) = false := by simp; omega
        refine ⟨c.1, ?_⟩
        simp [this, hlt]

/-- last loop of `Prove` -/
theorem proveLoop2_eq : ∀ (l : List (Nat × B)) (fuel : Nat) (ps : List B), l.length ≤ fuel →
    Prove.loop2 hl hn fuel ps (conc l) = (ps ++ l.map (·.2), []) := by
  intro l
  induction l with
  | nil => intro fuel ps _; cases fuel <;> simp [Prove.loop2, conc]
  | cons e l ih =>
    intro fuel ps hf
    cases fuel with
    | zero => simp at hf
    | succ f =>
      unfold Prove.loop2
      simp only [conc, List.map_cons, List.isEmpty_cons, Bool.not_false, ↓reduceIte, nodeOf, List.headD_cons, List.tail_cons]
      have := ih f (ps ++ [e.2]) (by simpa using hf)
      simp only [conc] at this
      rw [this]
      simp

theorem proveMerge_length {D : Type} (hn' : D → D → D) (k : Nat) : ∀ (rest : List (Nat × D)) (c : D),
    (proveMerge hn' k c rest).2.length ≤ rest.length := by
  intro rest
  induction rest with
  | nil => intro c; simp [proveMerge]
  | cons nx rest ih =>
    intro c
    unfold proveMerge
    split
    · have := ih (hn' nx.2 c); simp; omega
    · simp

/-- `copy(make([]T, len(src)), src)` is `src` -/
theorem copy_replicate_self {α : Type} (d : α) (l : List α) : copy (List.replicate (len l).toNat d) l = l := by
  simp [copy, len]

theorem set_getD_self {α : Type} (d : α) : ∀ (l : List α) (i : Nat), l.set i (l.getD i d) = l := by
  intro l
  induction l with
  | nil => intro i; simp
  | cons a l ih =>
    intro i
    cases i with
    | zero => rfl
    | succ i =>
      show a :: l.set i (l.getD i d) = a :: l
      rw [ih i]

/-- the copying loop at the end of `Prove` (`proofSet[i] = append(proofSet[i][:0:0], proofSet[i]...)`) does not change the value -/
theorem proveLoop3_id : ∀ (idx : List Nat) (l : List B), Prove.loop3 hl hn idx l = l := by
  intro idx
  induction idx with
  | nil => intro l; rfl
  | cons i idx ih =>
    intro l
    unfold Prove.loop3
    simp only [setAt, index, Int.toNat_natCast, Int.ofNat_eq_natCast]
    rw [set_getD_self, ih]

/-- what `Prove` returns, as a function of the model's answer: the proof set is `leaf :: siblings`, nil when the model has no leaf -/
def proveOut (r : Option B × Option B × List B × Nat × Nat) : Option B × Option (List B) × Nat × Nat :=
  (r.1, (match r.2.1 with | none => none | some lf => some (lf :: r.2.2.1)), r.2.2.2.1, r.2.2.2.2)

/-- `Prove` refines `prove` (for a tree on which `Prove` does not panic, i.e. `proofTree`; the generated def does not depend on it) -/
theorem prove_eq (g : GTree) (f1 f2 f3 f4 : Nat) (hinv : Inv g)
    (h1 : g.head.length ≤ f1) (h2 : g.head.length ≤ f2) (h3 : g.head.length ≤ f3) (h4 : g.head.length ≤ f4) :
    Prove hl hn g f1 f2 f3 f4 = proveOut (prove hn (abs g)) := by
  obtain ⟨_, hnn, _, hemp⟩ := hinv
  have hcc := conc_absStack g.head hnn
  have hr1 := root_eq hl hn g f1 hnn h1
  have hr4 := root_eq hl hn g f4 hnn h4
  unfold Prove
  simp only [hr1, hr4, copy_replicate_self, proveLoop3_id]
  cases hh : g.head with
  | nil =>
    have : (abs g).stack = [] := by simp [abs, hh, absStack]
    have e4 : (abs g).pidx = g.proofIndex := rfl
    have e5 : (abs g).cur = g.currentIndex := rfl
    simp [prove, this, proveOut, e4, e5]
  | cons n l =>
    rw [hh] at hcc h2 h3
    cases hps : g.proofSet with
    | nil =>
      have e1 : (abs g).stack = (n.height.toNat, n.sum) :: absStack l := by simp [abs, hh, absStack]
      have e2 : (abs g).pleaf = none := by simp [abs, hps]
      have e4 : (abs g).pidx = g.proofIndex := rfl
      have e5 : (abs g).cur = g.currentIndex := rfl
      simp [prove, e1, e2, proveOut, e4, e5, len]
    | cons lf sibs =>
      have e1 : (abs g).stack = (n.height.toNat, n.sum) :: absStack l := by simp [abs, hh, absStack]
      have e2 : (abs g).pleaf = some lf := by simp [abs, hps]
      have e3 : (abs g).sibs = sibs := by simp [abs, hps]
      have e4 : (abs g).pidx = g.proofIndex := rfl
      have e5 : (abs g).cur = g.currentIndex := rfl
      simp only [List.isEmpty_cons, len, List.length_cons, Bool.false_or, prove, e1, e2, e3, e4, e5, proveOut, finish]
      have hne : (Int.ofNat (sibs.length + 1) == 0) = false := by simp; omega
      simp only [hne, Bool.false_eq_true, ↓reduceIte]
      obtain ⟨k, hk⟩ := proveLoop1_eq hl hn g lf sibs (absStack l) f2 (n.height.toNat, n.sum) (by simp [absStack] at h2 ⊢; omega)
      rw [show conc ((n.height.toNat, n.sum) :: absStack l) = n :: l from hcc] at hk
      rw [hk]
      have hlen : (proveMerge hn sibs.length n.sum (absStack l)).2.length ≤ f3 := by
        have := proveMerge_length hn sibs.length (absStack l) n.sum
        simp [absStack] at this h3 ⊢; omega
      cases hm : (proveMerge hn sibs.length n.sum (absStack l)).2 with
      | nil =>
        have := proveLoop2_eq hl hn [] f3 (lf :: sibs) (by simp)
        simp only [conc, List.map_nil] at this
        simp [hm, conc, this]
      | cons nx rest2 =>
        rw [hm] at hlen
        by_cases hkk : nx.1 = sibs.length
        · have hd : ((nx.1 : Int) == Int.ofNat (sibs.length + 1) - 1) = true := by simp; omega
          have := proveLoop2_eq hl hn rest2 f3 (lf :: (sibs ++ [(proveMerge hn sibs.length n.sum (absStack l)).1])) (by simp at hlen; omega)
          simp only [conc] at this
          simp [hm, conc, nodeOf, hd, hkk]
          rw [this]
          simp
        · have hd : ((nx.1 : Int) == Int.ofNat (sibs.length + 1) - 1) = false := by simp; omega
          have := proveLoop2_eq hl hn (nx :: rest2) f3 (lf :: sibs) (by simpa using hlen)
          simp only [conc, List.map_cons] at this
          simp [hm, conc, nodeOf, hd, this, hkk]

/-- `New` is the empty model tree and satisfies the invariant -/
theorem new_eq (h : Hash) : abs (New hl hn h) = ({} : Merkle.Tree B B) ∧ Inv (New hl hn h) ∧ (New hl hn h).hash = h := by
  refine ⟨rfl, ⟨rfl, ?_, ?_, ?_⟩, rfl⟩ <;> simp [New]

/-- `SetIndex` refines `setIndex`: accepted exactly on an empty tree, the tree untouched when refused -/
theorem setIndex_eq (g : GTree) (i : Nat) (hinv : Inv g) :
    (match setIndex (abs g) i with
     | some t' => (SetIndex hl hn g i).2 = Err.nil ∧ abs (SetIndex hl hn g i).1 = t'
     | none => SetIndex hl hn g i = (g, Err.sentinel "cannot call SetIndex on Tree if Tree has not been reset")) ∧
    Inv (SetIndex hl hn g i).1 := by
  obtain ⟨hct, hnn, hps, hemp⟩ := hinv
  unfold SetIndex setIndex
  cases hh : g.head with
  | nil =>
    have : (abs g).stack = [] := by simp [abs, hh, absStack]
    have hp := hemp hh
    simp only [this, List.isEmpty_nil, Bool.not_true, Bool.false_eq_true, ↓reduceIte, abs, hh, absStack, List.map_nil, hp,
      List.head?_nil, List.tail_nil, and_self, true_and]
    exact ⟨hct, by simp [hh], by simp [hp], by simp [hp]⟩
  | cons n l =>
    have : (abs g).stack = (n.height.toNat, n.sum) :: absStack l := by simp [abs, hh, absStack]
    simp only [this, List.isEmpty_cons, Bool.not_false, ↓reduceIte, Bool.false_eq_true, true_and]
    exact ⟨hct, hnn, hps, hemp⟩

/-- `PushSubTree` refines `pushSubTree`: both refusals (tree untouched) and the accepted case -/
theorem pushSubTree_eq (g : GTree) (h : Nat) (s : B) (fuel : Nat) (hinv : Inv g) (hb : ∀ e ∈ (abs g).stack, e.1 < 64)
    (hh : h < 64) (hc : g.currentIndex + 2^h < 2^64) (hf : g.head.length ≤ fuel) :
    match pushSubTree hn (abs g) h s with
    | .ok t' => (PushSubTree hl hn g (h : Int) s fuel).2 = Err.nil ∧ abs (PushSubTree hl hn g (h : Int) s fuel).1 = t' ∧
        Inv (PushSubTree hl hn g (h : Int) s fuel).1 ∧ (PushSubTree hl hn g (h : Int) s fuel).1.hash = g.hash
    | .error .containsProofIndex =>
        PushSubTree hl hn g (h : Int) s fuel = (g, Err.sentinel "the cached tree shouldn't contain the element to prove")
    | .error .tooLarge =>
        PushSubTree hl hn g (h : Int) s fuel =
          (g, Err.sentinel "can't add a subtree that is larger than the smallest subtree %v > %v") := by
  obtain ⟨hct, hnn, hps, hemp⟩ := hinv
  have hcc := conc_absStack g.head hnn
  have e1 : uintOfInt (h : Int) = h := uintOfInt_nat h (by omega)
  have e2 : shl64 1 h = 2^h := shl_one h hh
  have e3 : (g.currentIndex + 2^h) % 2^64 = g.currentIndex + 2^h := Nat.mod_eq_of_lt hc
  have hpos : 0 < 2^h := Nat.two_pow_pos h
  cases g with
  | mk head hash cur pidx ps pt ct =>
  simp only at hct hnn hps hemp hc hf hcc e3
  simp only [abs] at hb
  subst hct
  unfold PushSubTree joinAllSubTrees
  simp only [e1, e2, e3]
  by_cases hc1 : pt = true ∧ (cur = pidx ∨ cur < pidx ∧ pidx < cur + 2 ^ h)
  · have : (pt && (cur == pidx || decide (cur < pidx) && decide (pidx < cur + 2 ^ h))) = true := by
      obtain ⟨h1, h2 | ⟨h2, h3⟩⟩ := hc1 <;> simp [*]
    have hm : pushSubTree hn (abs ⟨head, hash, cur, pidx, ps, pt, false⟩) h s = .error .containsProofIndex := by
      simp [pushSubTree, abs, hc1]
    rw [hm]
    simp only [this, ↓reduceIte]
  · have : (pt && (cur == pidx || decide (cur < pidx) && decide (pidx < cur + 2 ^ h))) = false := by
      rw [Bool.eq_false_iff]; intro hx; apply hc1
      simpa only [Bool.and_eq_true, Bool.or_eq_true, beq_iff_eq, decide_eq_true_eq] using hx
    simp only [this, Bool.false_eq_true, ↓reduceIte]
    have hjoin := fun (hd : Nat × B) hhd => joinLoop_eq hl hn (absStack head) fuel
      ({ head := ({ height := (h : Int), sum := s } : subTree) :: head, hash := hash, currentIndex := cur, proofIndex := pidx,
         proofSet := ps, proofTree := pt, cachedTree := false } : GTree) hd hhd hb (by simp; omega) (by simpa [absStack] using hf)
    have hj := hjoin (h, s) (by rw [show conc ((h, s) :: absStack head) = ({ height := (h : Int), sum := s } : subTree) :: conc (absStack head) from rfl, hcc])
    have hinv' : ∀ r : List (Nat × B) × List B, r = joinAll hn pidx cur ps.head?.isSome (h, s) (absStack head) ps.tail →
        Inv ({ head := conc r.1, hash := hash, currentIndex := cur + 2^h, proofIndex := pidx, proofSet := ps.take 1 ++ r.2,
               proofTree := pt, cachedTree := false } : GTree) := by
      intro r hr
      refine ⟨rfl, conc_nonneg _, ?_, ?_⟩
      · intro hle
        have hp0 := hps (by simp at hle ⊢; omega)
        subst hp0
        simp [hr, joinAll_noleaf]
      · intro h0
        rw [hr] at h0
        exact absurd ((conc_eq_nil _).mp h0) (joinAll_ne_nil hn _ _ _ _ _ _)
    have habs : abs ⟨conc (joinAll hn pidx cur ps.head?.isSome (h, s) (absStack head) ps.tail).1, hash, cur + 2^h, pidx, ps.take 1 ++ (joinAll hn pidx cur ps.head?.isSome (h, s) (absStack head) ps.tail).2, pt, false⟩ =
        pushSubTreeRaw hn (abs ⟨head, hash, cur, pidx, ps, pt, false⟩) h s := by
      simp only [pushSubTreeRaw, abs, absStack_conc]
      cases ps <;> simp [joinAll_noleaf]
    cases hhd : head with
    | nil =>
      have hm : pushSubTree hn (abs ⟨head, hash, cur, pidx, ps, pt, false⟩) h s =
          .ok (pushSubTreeRaw hn (abs ⟨head, hash, cur, pidx, ps, pt, false⟩) h s) := by
        simp [pushSubTree, abs, hc1, hhd, absStack]
      rw [← hhd, hm]
      simp only [hhd, List.isEmpty_nil, Bool.not_true, Bool.false_and, Bool.false_eq_true, ↓reduceIte]
      rw [← hhd, hj]
      exact ⟨trivial, habs, hinv' _ rfl, rfl⟩
    | cons n l =>
      have hn0 : 0 ≤ n.height := hnn n (by simp [hhd])
      by_cases hgt : h > n.height.toNat
      · have hdec : decide ((h : Int) > n.height) = true := by simp; omega
        have hm : pushSubTree hn (abs ⟨head, hash, cur, pidx, ps, pt, false⟩) h s = .error .tooLarge := by
          simp [pushSubTree, abs, hc1, hhd, absStack, hgt]
        rw [← hhd, hm]
        simp only [hhd, List.isEmpty_cons, Bool.not_false, Bool.true_and, nodeOf, List.headD_cons, hdec, ↓reduceIte]
      · have hdec : decide ((h : Int) > n.height) = false := by simp; omega
        have hm : pushSubTree hn (abs ⟨head, hash, cur, pidx, ps, pt, false⟩) h s =
            .ok (pushSubTreeRaw hn (abs ⟨head, hash, cur, pidx, ps, pt, false⟩) h s) := by
          simp [pushSubTree, abs, hc1, hhd, absStack, hgt]
        rw [← hhd, hm]
        simp only [hhd, List.isEmpty_cons, Bool.not_false, Bool.true_and, nodeOf, List.headD_cons, hdec, Bool.false_eq_true, ↓reduceIte]
        rw [← hhd, hj]
        exact ⟨trivial, habs, hinv' _ rfl, rfl⟩

/-! ### histories -/

/-- which refusal of `PushSubTree` an error value is -/
def subErrOf (e : Err) : Option SubErr :=
  if e = Err.sentinel "the cached tree shouldn't contain the element to prove" then some .containsProofIndex
  else if e = Err.sentinel "can't add a subtree that is larger than the smallest subtree %v > %v" then some .tooLarge
  else none

/-- the result of `Prove` read as the model's tuple (inverse of `proveOut`) -/
def proveIn (r : Option B × Option (List B) × Nat × Nat) : Option B × Option B × List B × Nat × Nat :=
  (r.1, r.2.1.bind List.head?, (r.2.1.map List.tail).getD [], r.2.2.1, r.2.2.2)

theorem proveIn_proveOut (t : Merkle.Tree B B) : proveIn (proveOut (prove hn t)) = prove hn t := by
  unfold prove
  split <;> simp [proveIn, proveOut]

/-- one call of a history executed by the GENERATED code (every loop with fuel `F`): the tree it leaves and what the caller sees -/
def gstep (F : Nat) (g : GTree) : HOp B → GTree × Option (Obs B B)
  | .push x => (Push hl hn g x F, none)
  | .sub h X =>
    let r := PushSubTree hl hn g (h : Int) (MTH hl hn X) F
    (r.1, (subErrOf r.2).map Obs.refused)
  | .root => (g, some (.root (Root hl hn g F)))
  | .prove => (g, some (.prove (proveIn (Prove hl hn g F F F F))))

/-- a history executed by the generated code -/
def grun (F : Nat) (g : GTree) : List (HOp B) → GTree × List (Obs B B)
  | [] => (g, [])
  | op :: ops =>
    let r := gstep hl hn F g op
    let r' := grun F r.1 ops
    (r'.1, r.2.toList ++ r'.2)

/-- bound under which one call is exact (no uint64 wrap-around, no shift count ≥ 64) -/
def BndOp (t : Merkle.Tree B B) : HOp B → Prop
  | .push _ => t.cur + 1 < 2^64
  | .sub h _ => h < 64 ∧ t.cur + 2^h < 2^64
  | _ => True

/-- the bounds hold along the model's run of the history; `F` bounds the number of sub-trees -/
def BndRun (F : Nat) : Merkle.Tree B B → List (HOp B) → Prop
  | _, [] => True
  | t, op :: ops => (∀ e ∈ t.stack, e.1 < 64) ∧ t.stack.length ≤ F ∧ BndOp t op ∧ BndRun F (hstep hl hn t op).1 ops

theorem gstep_eq (F : Nat) (g : GTree) (op : HOp B) (hinv : Inv g) (hb : ∀ e ∈ (abs g).stack, e.1 < 64)
    (hF : (abs g).stack.length ≤ F) (hop : BndOp (abs g) op) :
    (gstep hl hn F g op).2 = (hstep hl hn (abs g) op).2 ∧ abs (gstep hl hn F g op).1 = (hstep hl hn (abs g) op).1 ∧
      Inv (gstep hl hn F g op).1 := by
  have hF' : g.head.length ≤ F := by simpa [abs, absStack] using hF
  cases op with
  | push x =>
    obtain ⟨h1, h2, _⟩ := push_eq hl hn g x F hinv hb hop hF'
    exact ⟨rfl, h1, h2⟩
  | sub h X =>
    have := pushSubTree_eq hl hn g h (MTH hl hn X) F hinv hb hop.1 hop.2 hF'
    simp only [gstep, hstep]
    cases hm : pushSubTree hn (abs g) h (MTH hl hn X) with
    | ok t' =>
      rw [hm] at this
      obtain ⟨h1, h2, h3, _⟩ := this
      simp only [h1, h2]
      exact ⟨rfl, trivial, h3⟩
    | error e =>
      rw [hm] at this
      cases e with
      | containsProofIndex => simp only at this; rw [this]; exact ⟨rfl, rfl, hinv⟩
      | tooLarge => simp only at this; rw [this]; exact ⟨rfl, rfl, hinv⟩
  | root =>
    simp only [gstep, hstep, root_eq hl hn g F hinv.2.1 hF']
    exact ⟨trivial, trivial, hinv⟩
  | prove =>
    simp only [gstep, hstep, prove_eq hl hn g F F F F hinv hF' hF' hF' hF', proveIn_proveOut]
    exact ⟨trivial, trivial, hinv⟩

/-- the generated code run on any history under the bounds: same observations (every refusal included) and a final tree that
abstracts to the model's final tree -/
theorem grun_eq (F : Nat) : ∀ (ops : List (HOp B)) (g : GTree), Inv g → BndRun hl hn F (abs g) ops →
    (grun hl hn F g ops).2 = (hrun hl hn (abs g) ops).2 ∧ abs (grun hl hn F g ops).1 = (hrun hl hn (abs g) ops).1 ∧
      Inv (grun hl hn F g ops).1
  | [], g, hinv, _ => ⟨rfl, rfl, hinv⟩
  | op :: ops, g, hinv, hb => by
    obtain ⟨hb1, hb2, hb3, hb4⟩ := hb
    obtain ⟨h1, h2, h3⟩ := gstep_eq hl hn F g op hinv hb1 hb2 hb3
    rw [← h2] at hb4
    obtain ⟨i1, i2, i3⟩ := grun_eq F ops (gstep hl hn F g op).1 h3 hb4
    simp only [grun, hrun]
    rw [h2] at i1 i2
    exact ⟨by rw [h1, i1], i2, i3⟩

/-! ### the bounds for trees built from the empty tree: fewer than 2^63 leaves -/

theorem blocks_pow_le {A D : Type} [Inhabited D] (hl' : A → D) (hn' : D → D → D) : ∀ (h : Nat) (X : List A),
    ∀ e ∈ blocks hl' hn' h X, 2^e.1 ≤ X.length
  | 0, _ => by simp [blocks]
  | h+1, X => by
    intro e he
    unfold blocks at he
    split at he
    · exact blocks_pow_le hl' hn' h X e he
    · split at he
      · simp at he; rw [he]; simp; omega
      · rcases List.mem_append.mp he with he | he
        · have := blocks_pow_le hl' hn' h _ e he
          rw [List.length_drop] at this
          exact Nat.le_trans this (Nat.sub_le _ _)
        · simp at he; rw [he]; simp; omega

theorem blocks_length_le {A D : Type} [Inhabited D] (hl' : A → D) (hn' : D → D → D) : ∀ (h : Nat) (X : List A) (k : Nat),
    X.length < 2^h → X.length < 2^k → (blocks hl' hn' h X).length ≤ k
  | 0, _, _, _, _ => by simp [blocks]
  | h+1, X, k, h1, h2 => by
    unfold blocks
    split
    · exact blocks_length_le hl' hn' h X k (by assumption) h2
    · have hk : h < k := by
        by_contra hc
        have : 2^k ≤ 2^h := Nat.pow_le_pow_right (by omega) (by omega)
        omega
      split
      · simp; omega
      · have := blocks_length_le hl' hn' h (X.drop (2^h)) h (by simp [pow_succ] at h1 ⊢; omega) (by simp [pow_succ] at h1 ⊢; omega)
        simp; omega

/-- the model tree after `SetIndex(p)` (or none) -/
abbrev init0 (p : Nat) (pt : Bool) : Merkle.Tree B B := ⟨[], 0, p, none, [], pt⟩

theorem bnd_init (p : Nat) (pt : Bool) (L : List B) (hL : L.length < 2^63) :
    (∀ e ∈ (pushAll hl hn (init0 p pt) L).stack, e.1 < 64) ∧ (pushAll hl hn (init0 p pt) L).stack.length ≤ 63 ∧
      (pushAll hl hn (init0 p pt) L).cur = L.length := by
  rw [show init0 p pt = (⟨[], 0, p, none, [], pt⟩ : Merkle.Tree B B) from rfl, pushAll_init]
  refine ⟨?_, ?_, rfl⟩
  · intro e he
    have h1 := blocks_pow_le hl hn L.length L e he
    have h2 : 2^e.1 < 2^63 := Nat.lt_of_le_of_lt h1 hL
    have := (Nat.pow_lt_pow_iff_right (by omega : 1 < 2)).mp h2
    omega
  · exact blocks_length_le hl hn L.length L 63 Nat.lt_two_pow_self hL

/-- the bounds hold along every well-formed history that commits fewer than 2^63 leaves in total -/
theorem bndRun_init (p : Nat) (pt : Bool) (F : Nat) (hF : 63 ≤ F) : ∀ (ops : List (HOp B)) (L : List B),
    hwf (A := B) p L.length ops → (L ++ hleaves ops).length < 2^63 →
    BndRun hl hn F (pushAll hl hn (init0 p pt) L) ops
  | [], _, _, _ => trivial
  | .push x :: ops, L, hw, hlen => by
    simp only [hleaves, List.length_append, List.length_cons] at hlen
    obtain ⟨b1, b2, b3⟩ := bnd_init hl hn p pt L (by omega)
    refine ⟨b1, by omega, ?_, ?_⟩
    · show (pushAll hl hn (init0 p pt) L).cur + 1 < 2^64
      rw [b3]; omega
    · have hs : push hl hn (pushAll hl hn (init0 p pt) L) x = pushAll hl hn (init0 p pt) (L ++ [x]) := by
        rw [pushAll_append]; rfl
      simp only [hstep, hs]
      exact bndRun_init p pt F hF ops (L ++ [x]) (by simpa [hwf] using hw) (by simp [List.length_append]; omega)
  | .sub h X :: ops, L, hw, hlen => by
    obtain ⟨hX, hd, hp, hw'⟩ := hw
    simp only [hleaves, List.length_append] at hlen
    obtain ⟨b1, b2, b3⟩ := bnd_init hl hn p pt L (by omega)
    have h63 : h < 63 := by
      have : 2^h < 2^63 := by omega
      exact (Nat.pow_lt_pow_iff_right (by omega : 1 < 2)).mp this
    refine ⟨b1, by omega, ⟨by omega, ?_⟩, ?_⟩
    · rw [b3]; omega
    · simp only [hstep, init0, C16_pushSubTree_refines hl hn L X h p pt hX hd hp]
      exact bndRun_init p pt F hF ops (L ++ X) (by rw [List.length_append, hX]; exact hw')
        (by simp only [List.length_append] at hlen ⊢; omega)
  | .root :: ops, L, hw, hlen => by
    simp only [hleaves] at hlen
    obtain ⟨b1, b2, _⟩ := bnd_init hl hn p pt L (by simp only [List.length_append] at hlen; omega)
    exact ⟨b1, by omega, trivial, bndRun_init p pt F hF ops L hw hlen⟩
  | .prove :: ops, L, hw, hlen => by
    simp only [hleaves] at hlen
    obtain ⟨b1, b2, _⟩ := bnd_init hl hn p pt L (by simp only [List.length_append] at hlen; omega)
    exact ⟨b1, by omega, trivial, bndRun_init p pt F hF ops L hw hlen⟩

/-! ### `ReadAll` (readers.go): a reader that is a finite byte stream -/

theorem makeBytes_length (seg : Int) : (makeBytes seg).length = seg.toNat := by simp [makeBytes]

theorem rf_nil (seg : Int) (hs : 0 < seg) :
    GV.Gen.Imp.MerkleTree.readFull [] (makeBytes seg) = ([], makeBytes seg, 0, Err.sentinel "io.EOF") := by
  have : (makeBytes seg).length ≠ 0 := by rw [makeBytes_length]; omega
  simp [GV.Gen.Imp.MerkleTree.readFull, this]

theorem rf_short (seg : Int) (r : B) (h0 : r ≠ []) (hlt : r.length < seg.toNat) :
    GV.Gen.Imp.MerkleTree.readFull r (makeBytes seg) = ([], r ++ (makeBytes seg).drop r.length, len r, Err.sentinel "io.ErrUnexpectedEOF") := by
  have h1 : (makeBytes seg).length ≠ 0 := by rw [makeBytes_length]; omega
  have h2 : r.length ≠ 0 := by simpa using h0
  have h3 : r.length < (makeBytes seg).length := by rw [makeBytes_length]; exact hlt
  simp [GV.Gen.Imp.MerkleTree.readFull, h1, h2, h3]

theorem rf_full (seg : Int) (hs : 0 < seg) (r : B) (hge : seg.toNat ≤ r.length) :
    GV.Gen.Imp.MerkleTree.readFull r (makeBytes seg) = (r.drop seg.toNat, r.take seg.toNat, len (makeBytes seg), Err.nil) := by
  have h1 : (makeBytes seg).length ≠ 0 := by rw [makeBytes_length]; omega
  have h2 : r.length ≠ 0 := by omega
  have h3 : ¬ r.length < (makeBytes seg).length := by rw [makeBytes_length]; omega
  unfold GV.Gen.Imp.MerkleTree.readFull
  rw [if_neg h1, if_neg h2, if_neg h3, makeBytes_length]

theorem chunks_fuel (s : Nat) (hs : 0 < s) : ∀ (f1 f2 : Nat) (bs : List UInt8), bs.length ≤ f1 → bs.length ≤ f2 →
    chunks s f1 bs = chunks s f2 bs := by
  intro f1
  induction f1 with
  | zero =>
    intro f2 bs h1 _
    have : bs = [] := by simpa using h1
    subst this
    cases f2 <;> simp [chunks]
  | succ f1 ih =>
    intro f2 bs h1 h2
    cases f2 with
    | zero =>
      have : bs = [] := by simpa using h2
      subst this
      simp [chunks]
    | succ f2 =>
      simp only [chunks]
      cases bs with
      | nil => simp
      | cons b bs' =>
        simp only [List.isEmpty_cons, Bool.false_eq_true, ↓reduceIte]
        rw [ih f2 _ (by simp at h1 ⊢; omega) (by simp at h2 ⊢; omega)]

/-- one `Push` on the tree of the leaves `L` -/
theorem push_init (p : Nat) (pt : Bool) (F : Nat) (hF : 63 ≤ F) (g : GTree) (L : List B) (d : B) (hinv : Inv g)
    (hg : abs g = pushAll hl hn (init0 p pt) L) (hlen : L.length + 1 < 2^63) :
    Inv (Push hl hn g d F) ∧ abs (Push hl hn g d F) = pushAll hl hn (init0 p pt) (L ++ [d]) := by
  obtain ⟨b1, b2, b3⟩ := bnd_init hl hn p pt L (by omega)
  rw [← hg] at b1 b2 b3
  have hc : g.currentIndex + 1 < 2^64 := by
    have : g.currentIndex = L.length := b3
    omega
  have hf : g.head.length ≤ F := by simp [abs, absStack] at b2; omega
  obtain ⟨h1, h2, _⟩ := push_eq hl hn g d F hinv b1 hc hf
  refine ⟨h2, ?_⟩
  rw [h1, hg, pushAll_append]; rfl

/-- the loop of `ReadAll`: pushes the segments `chunks seg fuel r` -/
theorem readLoop_eq (p : Nat) (pt : Bool) (F2 F3 : Nat) (h2 : 63 ≤ F2) (h3 : 63 ≤ F3) (seg : Int) (hs : 0 < seg) :
    ∀ (fuel : Nat) (g : GTree) (r : B) (L : List B), Inv g → abs g = pushAll hl hn (init0 p pt) L → L.length + fuel < 2^63 →
    ∃ g' r', ReadAll.loop1 hl hn F2 F3 seg fuel g r = ((g', r'), none) ∧ Inv g' ∧
      abs g' = pushAll hl hn (init0 p pt) (L ++ chunks seg.toNat fuel r) := by
  intro fuel
  induction fuel with
  | zero => intro g r L hinv hg _; exact ⟨g, r, rfl, hinv, by simp [chunks, hg]⟩
  | succ f ih =>
    intro g r L hinv hg hlen
    unfold ReadAll.loop1
    simp only [↓reduceIte, chunks]
    cases hr : r with
    | nil =>
      rw [rf_nil seg hs]
      exact ⟨g, [], by simp, hinv, by simp [hg]⟩
    | cons b r' =>
      rw [← hr]
      have hne : r ≠ [] := by rw [hr]; simp
      have hemp : r.isEmpty = false := by rw [hr]; rfl
      by_cases hlt : r.length < seg.toNat
      · rw [rf_short seg r hne hlt]
        have e1 : (Err.sentinel "io.ErrUnexpectedEOF" == Err.sentinel "io.EOF") = false := by decide
        have e2 : (Err.sentinel "io.ErrUnexpectedEOF" == Err.sentinel "io.ErrUnexpectedEOF") = true := by decide
        have e3 : List.take (len r).toNat (r ++ (makeBytes seg).drop r.length) = r.take seg.toNat := by
          simp [len, List.take_of_length_le (Nat.le_of_lt hlt)]
        have e4 : r.drop seg.toNat = [] := List.drop_of_length_le (Nat.le_of_lt hlt)
        simp only [e1, e2, Bool.false_eq_true, ↓reduceIte, e3, hemp]
        obtain ⟨i1, i2⟩ := push_init hl hn p pt F2 h2 g L (r.take seg.toNat) hinv hg (by omega)
        obtain ⟨g', r'', k1, k2, k3⟩ := ih (Push hl hn g (r.take seg.toNat) F2) [] (L ++ [r.take seg.toNat]) i1 i2
          (by simp; omega)
        refine ⟨g', r'', k1, k2, ?_⟩
        rw [k3, e4]; simp
      · rw [rf_full seg hs r (by omega)]
        have e1 : (Err.nil == Err.sentinel "io.EOF") = false := by decide
        have e2 : (Err.nil == Err.sentinel "io.ErrUnexpectedEOF") = false := by decide
        have e3 : (Err.nil != Err.nil) = false := by decide
        simp only [e1, e2, e3, Bool.false_eq_true, ↓reduceIte, hemp]
        obtain ⟨i1, i2⟩ := push_init hl hn p pt F3 h3 g L (r.take seg.toNat) hinv hg (by omega)
        obtain ⟨g', r'', k1, k2, k3⟩ := ih (Push hl hn g (r.take seg.toNat) F3) (r.drop seg.toNat) (L ++ [r.take seg.toNat]) i1 i2
          (by simp; omega)
        refine ⟨g', r'', k1, k2, ?_⟩
        rw [k3]; simp

/-- `ReadAll(r, seg)` on the tree of the leaves `L`, for a reader that is the byte stream `r`, `seg > 0`: no error, and the tree is
the model's `readAll` (the stream cut into segments of `seg` bytes, the last one shorter, pushed one by one) -/
theorem readAll_eq (p : Nat) (pt : Bool) (F2 F3 : Nat) (h2 : 63 ≤ F2) (h3 : 63 ≤ F3) (seg : Int) (hs : 0 < seg) (fuel : Nat)
    (g : GTree) (r : B) (L : List B) (hinv : Inv g) (hg : abs g = pushAll hl hn (init0 p pt) L) (hf : r.length ≤ fuel)
    (hlen : L.length + fuel < 2^63) :
    (ReadAll hl hn g r seg fuel F2 F3).2 = Err.nil ∧ Inv (ReadAll hl hn g r seg fuel F2 F3).1 ∧
      abs (ReadAll hl hn g r seg fuel F2 F3).1 = readAll hl hn (abs g) r seg.toNat := by
  obtain ⟨g', r', k1, k2, k3⟩ := readLoop_eq hl hn p pt F2 F3 h2 h3 seg hs fuel g r L hinv hg hlen
  unfold ReadAll
  rw [k1]
  refine ⟨rfl, k2, ?_⟩
  simp only [k3, readAll, hg]
  rw [← pushAll_append, chunks_fuel seg.toNat (by omega) fuel r.length r hf (Nat.le_refl _)]
