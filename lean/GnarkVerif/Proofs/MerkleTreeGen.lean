import GnarkVerif.Proofs.MerkleVerifyGen
import GnarkVerif.Gen.Imp.MerkleTree
/-
Helper lemmas for C16_tree_gen: the tree BUILDER of Gen/Imp/MerkleTree.lean (REGENERATED from /repo/accumulator/merkletree/tree.go by
tools/goslp mode "imp": `New`, `joinSubTrees`, `joinAllSubTrees`, `Root`, `Push`, `Prove`, `SetIndex`, `PushSubTree`) refines
`Tree` / `push` / `root` / `prove` / `setIndex` / `pushSubTree` of Model/Merkle.lean.
-/
namespace GV.MerkleTreeGen
open GV.GoImp GV.Merkle GV.Gen.Imp.MerkleTree GV.MerkleGen

abbrev B := GoImp.Bytes
abbrev GTree := GV.Gen.Imp.MerkleTree.Tree

/-- abstraction of the linked list of sub-trees (head = smallest sub-tree first) -/
def absStack (l : List subTree) : List (Nat × B) := l.map (fun n => (n.height.toNat, n.sum))

/-- the list of sub-tree nodes with the given (non-negative) heights -/
def conc (st : List (Nat × B)) : List subTree := st.map (fun e => ({ height := (e.1 : Int), sum := e.2 } : subTree))

/-- abstraction function: generated `Tree` ↦ `Model.Merkle.Tree` (`proofSet = leaf :: siblings`; the hasher and the flag `cachedTree`,
which the invariant fixes to false, are dropped) -/
def abs (g : GTree) : Merkle.Tree B B :=
  { stack := absStack g.head, cur := g.currentIndex, pidx := g.proofIndex, pleaf := g.proofSet.head?, sibs := g.proofSet.tail,
    proofTree := g.proofTree }

/-- invariant: `cachedTree` is never set, every height is non-negative, the proof set is empty as long as the proof index has not
been reached and in an empty tree -/
def Inv (g : GTree) : Prop :=
  g.cachedTree = false ∧ (∀ n ∈ g.head, 0 ≤ n.height) ∧ (g.currentIndex ≤ g.proofIndex → g.proofSet = []) ∧
    (g.head = [] → g.proofSet = [])

theorem absStack_conc (st : List (Nat × B)) : absStack (conc st) = st := by
  induction st with
  | nil => rfl
  | cons e st ih => simp only [absStack, conc, List.map_cons, List.map_map] at ih ⊢; simp [ih]

theorem conc_absStack (l : List subTree) (h : ∀ n ∈ l, 0 ≤ n.height) : conc (absStack l) = l := by
  induction l with
  | nil => rfl
  | cons n l ih =>
    have h0 := h n (by simp)
    have ih' := ih (fun m hm => h m (by simp [hm]))
    simp only [absStack, conc, List.map_cons] at ih' ⊢
    rw [ih']
    congr 1
    cases n with
    | mk hh ss => simp only [subTree.mk.injEq, and_true]; exact Int.toNat_of_nonneg h0

theorem conc_nonneg (st : List (Nat × B)) : ∀ n ∈ conc st, 0 ≤ n.height := by
  intro n hn
  simp only [conc, List.mem_map] at hn
  obtain ⟨e, _, rfl⟩ := hn
  exact Int.natCast_nonneg _

theorem conc_eq_nil (st : List (Nat × B)) : conc st = [] ↔ st = [] := by simp [conc]

variable (hl : B → B) (hn : B → B → B)

/-- `joinAllSubTrees`' loop on a tree whose list is `hd :: rest`: the model's `joinAll` -/
theorem joinLoop_eq : ∀ (rest : List (Nat × B)) (fuel : Nat) (t : GTree) (hd : Nat × B),
    t.head = conc (hd :: rest) → (∀ e ∈ rest, e.1 < 64) → t.currentIndex < 2^64 → rest.length ≤ fuel →
    joinAllSubTrees.loop1 hl hn fuel t =
      { t with head := conc (joinAll hn t.proofIndex t.currentIndex t.proofSet.head?.isSome hd rest t.proofSet.tail).1,
               proofSet := t.proofSet.take 1 ++ (joinAll hn t.proofIndex t.currentIndex t.proofSet.head?.isSome hd rest t.proofSet.tail).2 } := by
  intro rest
  induction rest with
  | nil =>
    intro fuel t hd hh _ _ _
    have e : t.proofSet.take 1 ++ t.proofSet.tail = t.proofSet := by cases t.proofSet <;> simp
    cases fuel with
    | zero => cases t; simp_all [joinAllSubTrees.loop1, joinAll]
    | succ f => cases t; simp_all [joinAllSubTrees.loop1, joinAll, conc]
  | cons nx rest ih =>
    intro fuel t hd hh hb hc hf
    cases fuel with
    | zero => simp at hf
    | succ f =>
      have hnx : nx.1 < 64 := hb nx (by simp)
      have hf' : rest.length ≤ f := by simpa using hf
      have hb' : ∀ e ∈ rest, e.1 < 64 := fun e he => hb e (by simp [he])
      obtain ⟨hdh, hds⟩ := hd
      obtain ⟨nxh, nxs⟩ := nx
      cases t with
      | mk head hash cur pidx ps pt ct =>
      simp only at hh hc hnx
      subst hh
      unfold joinAllSubTrees.loop1
      simp only [conc, List.map_cons, List.tail_cons, List.isEmpty_cons, Bool.not_false, Bool.true_and, nodeOf, List.headD_cons,
        joinAll, joinSubTrees]
      by_cases heq : hdh = nxh
      · subst heq
        simp only [beq_self_eq_true, if_true]
        have e1 : uintOfInt (hdh : Int) = hdh := uintOfInt_nat hdh (by omega)
        have e2 : shl64 1 hdh = 2^hdh := shl_one hdh hnx
        have hmid : cur / 2^hdh * 2^hdh % 2^64 = cur / 2^hdh * 2^hdh :=
          Nat.mod_eq_of_lt (Nat.lt_of_le_of_lt (Nat.div_mul_le_self cur (2^hdh)) hc)
        rw [e1, e2, hmid]
        cases ps with
        | nil =>
          have hne : ((hdh : Int) == len ([] : List B) - 1) = false := by simp [len] <;> omega
          simp only [hne, Bool.false_eq_true, ↓reduceIte]
          rw [ih f _ (hdh+1, hn nxs hds) (by simp [conc]) hb' hc hf']
          simp [conc]
        | cons lf sibs =>
          by_cases hk : hdh = sibs.length
          · have hke : ((hdh : Int) == len (lf :: sibs) - 1) = true := by simp [len] <;> omega
            simp only [hke, ↓reduceIte]
            by_cases hp : pidx < cur / 2 ^ hdh * 2 ^ hdh
            · simp only [hp, decide_true, ↓reduceIte]
              rw [ih f _ (hdh+1, hn nxs hds) (by simp [conc]) hb' hc hf']
              simp [hk, conc]
            · simp only [hp, decide_false, Bool.false_eq_true, ↓reduceIte]
              rw [ih f _ (hdh+1, hn nxs hds) (by simp [conc]) hb' hc hf']
              simp [hk, conc]
          · have hke : ((hdh : Int) == len (lf :: sibs) - 1) = false := by simp [len] <;> omega
            simp only [hke, Bool.false_eq_true, ↓reduceIte]
            rw [ih f _ (hdh+1, hn nxs hds) (by simp [conc]) hb' hc hf']
            simp [hk, conc]
      · have : ((hdh : Int) == (nxh : Int)) = false := by simp; omega
        simp [this, heq]
        cases ps <;> simp

theorem joinAll_ne_nil {D : Type} (hn' : D → D → D) (p c : Nat) (b : Bool) : ∀ (rest : List (Nat × D)) (hd : Nat × D) (sibs : List D),
    (joinAll hn' p c b hd rest sibs).1 ≠ [] := by
  intro rest
  induction rest with
  | nil => intro hd sibs; simp [joinAll]
  | cons nx rest ih =>
    intro hd sibs
    unfold joinAll
    split
    · exact ih _ _
    · simp

/-- `joinAll` only appends to the siblings when the leaf is there -/
theorem joinAll_noleaf {D : Type} (hn' : D → D → D) (p c : Nat) : ∀ (rest : List (Nat × D)) (hd : Nat × D) (sibs : List D),
    (joinAll hn' p c false hd rest sibs).2 = sibs := by
  intro rest
  induction rest with
  | nil => intro hd sibs; simp [joinAll]
  | cons nx rest ih =>
    intro hd sibs
    unfold joinAll
    split
    · simp [ih]
    · rfl

/-- `Push` refines `push` -/
theorem push_eq (g : GTree) (data : B) (fuel : Nat) (hinv : Inv g) (hb : ∀ e ∈ (abs g).stack, e.1 < 64)
    (hc : g.currentIndex + 1 < 2^64) (hf : g.head.length ≤ fuel) :
    abs (Push hl hn g data fuel) = push hl hn (abs g) data ∧ Inv (Push hl hn g data fuel) ∧
      (Push hl hn g data fuel).hash = g.hash := by
  obtain ⟨hct, hnn, hps, _⟩ := hinv
  have hcc := conc_absStack g.head hnn
  cases g with
  | mk head hash cur pidx ps pt ct =>
  simp only at hct hnn hps hc hf hcc
  simp only [abs] at hb
  subst hct
  have hm : (cur + 1) % 2^64 = cur + 1 := Nat.mod_eq_of_lt hc
  have hc' : cur + 1 < 18446744073709551616 := by omega
  have hm' : (cur + 1) % 18446744073709551616 = cur + 1 := Nat.mod_eq_of_lt hc'
  unfold Push joinAllSubTrees
  simp only [Bool.false_eq_true, ↓reduceIte, nodeOf, List.headD_cons, List.tail_cons, hm]
  by_cases hcp : cur = pidx
  · subst hcp
    have hps' := hps (by omega)
    subst hps'
    simp only [beq_self_eq_true, ↓reduceIte, List.nil_append, Bool.false_eq_true, hm]
    rw [joinLoop_eq hl hn (absStack head) fuel _ (0, hl data) (by rw [show conc ((0, hl data) :: absStack head) = ({height := 0, sum := hl data} : subTree) :: conc (absStack head) from rfl, hcc]) hb (by simp; omega) (by simpa [absStack] using hf)]
    simp only [abs, push, absStack_conc]
    refine ⟨?_, ⟨?_, conc_nonneg _, ?_, ?_⟩, ?_⟩
    · simp [hm', hc']
    · simp
    · simp [hm']
    · simp only [conc_eq_nil]; intro h; exact absurd h (joinAll_ne_nil hn _ _ _ _ _ _)
    · simp
  · have hne : (cur == pidx) = false := by simp [hcp]
    simp only [hne, Bool.false_eq_true, ↓reduceIte, hm]
    rw [joinLoop_eq hl hn (absStack head) fuel _ (0, hl data) (by rw [show conc ((0, hl data) :: absStack head) = ({height := 0, sum := hl data} : subTree) :: conc (absStack head) from rfl, hcc]) hb (by simp; omega) (by simpa [absStack] using hf)]
    simp only [abs, push, absStack_conc]
    refine ⟨?_, ⟨?_, conc_nonneg _, ?_, ?_⟩, ?_⟩
    · cases ps <;> simp [hcp, hm', joinAll_noleaf]
    · simp
    · simp only [hm]
      intro hle
      have hps' := hps (by omega)
      subst hps'
      simp [joinAll_noleaf]
    · intro h0
      have := joinAll_ne_nil hn pidx cur ps.head?.isSome (absStack head) (0, hl data) ps.tail
      simp [conc] at h0
      exact absurd h0 this
    · simp

/-- the loop of `Root` -/
theorem rootLoop_eq (t : GTree) : ∀ (rest : List (Nat × B)) (fuel : Nat) (c : Nat × B), rest.length ≤ fuel →
    ∃ k : Nat, Root.loop1 hl hn t fuel (conc (c :: rest)) = conc [(k, rootFold hn c.2 rest)] := by
  intro rest
  induction rest with
  | nil =>
    intro fuel c _
    refine ⟨c.1, ?_⟩
    cases fuel <;> simp [Root.loop1, conc, rootFold]
  | cons nx rest ih =>
    intro fuel c hf
    cases fuel with
    | zero => simp at hf
    | succ f =>
      obtain ⟨k, hk⟩ := ih f (nx.1 + 1, hn nx.2 c.2) (by simpa using hf)
      refine ⟨k, ?_⟩
      unfold Root.loop1
      simp only [conc, List.map_cons, List.tail_cons, List.isEmpty_cons, Bool.not_false, ↓reduceIte, joinSubTrees, nodeOf,
        List.headD_cons]
      simp only [conc, List.map_cons, Nat.cast_add, Nat.cast_one] at hk
      rw [hk]
      simp [rootFold]

/-- `Root` refines `root` -/
theorem root_eq (g : GTree) (fuel : Nat) (hnn : ∀ n ∈ g.head, 0 ≤ n.height) (hf : g.head.length ≤ fuel) :
    Root hl hn g fuel = root hn (abs g) := by
  have hcc := conc_absStack g.head hnn
  unfold Root root abs
  cases hh : g.head with
  | nil => simp [absStack]
  | cons n l =>
    rw [hh] at hcc hf
    simp only [List.isEmpty_cons, Bool.false_eq_true, ↓reduceIte, absStack, List.map_cons]
    obtain ⟨k, hk⟩ := rootLoop_eq hl hn g (absStack l) fuel (n.height.toNat, n.sum) (by simp [absStack] at hf ⊢; omega)
    rw [show conc ((n.height.toNat, n.sum) :: absStack l) = n :: l from hcc] at hk
    rw [hk]
    simp [conc, nodeOf, absStack]

/-- first loop of `Prove` -/
theorem proveLoop1_eq (t : GTree) (lf : B) (sibs : List B) : ∀ (rest : List (Nat × B)) (fuel : Nat) (c : Nat × B), rest.length ≤ fuel →
    ∃ k : Nat, Prove.loop1 hl hn t (lf :: sibs) fuel (conc (c :: rest)) =
      conc ((k, (proveMerge hn sibs.length c.2 rest).1) :: (proveMerge hn sibs.length c.2 rest).2) := by
  intro rest
  induction rest with
  | nil =>
    intro fuel c _
    refine ⟨c.1, ?_⟩
    cases fuel <;> simp [Prove.loop1, conc, proveMerge]
  | cons nx rest ih =>
    intro fuel c hf
    cases fuel with
    | zero => simp at hf
    | succ f =>
      unfold Prove.loop1
      simp only [conc, List.map_cons, List.tail_cons, List.isEmpty_cons, Bool.not_false, Bool.true_and, nodeOf, List.headD_cons,
        joinSubTrees, proveMerge, len, List.length_cons]
      by_cases hlt : nx.1 < sibs.length
      · have : decide ((nx.1 : Int) < Int.ofNat (sibs.length + 1) - 1) = true := by simp; omega
        obtain ⟨k, hk⟩ := ih f (nx.1 + 1, hn nx.2 c.2) (by simpa using hf)
        refine ⟨k, ?_⟩
        simp only [this, ↓reduceIte, hlt]
        simp only [conc, List.map_cons, Nat.cast_add, Nat.cast_one] at hk
        rw [hk]
      · have : decide ((nx.1 : Int) < Int.ofNat (sibs.length + 1) - 1) = false := by simp; omega
        refine ⟨c.1, ?_⟩
        simp [this, hlt]

/-- last loop of `Prove` -/
theorem proveLoop2_eq : ∀ (l : List (Nat × B)) (fuel : Nat) (ps : List B), l.length ≤ fuel →
    Prove.loop2 hl hn fuel ps (conc l) = (ps ++ l.map (·.2), []) := by
  intro l
  induction l with
  | nil => intro fuel ps _; cases fuel <;> simp [Prove.loop2, conc]
  | cons e l ih =>
    intro fuel ps hf
    cases fuel with
    | zero => simp at hf
    | succ f =>
      unfold Prove.loop2
      simp only [conc, List.map_cons, List.isEmpty_cons, Bool.not_false, ↓reduceIte, nodeOf, List.headD_cons, List.tail_cons]
      have := ih f (ps ++ [e.2]) (by simpa using hf)
      simp only [conc] at this
      rw [this]
      simp
