import GnarkVerif.Gen.Imp.JointAll
import GnarkVerif.Gen.Imp.GlvAll
import GnarkVerif.Proofs.ScalarMulGen
/-
Helper lemmas for C03_loop_gen, part 2: the translated Straus–Shamir loops (`JointScalarMultiplication`, `mulGLV`; Gen/Imp/Joint_*.lean,
Gen/Imp/Glv_*.lean) against `shamirStep` / `shamirWord` / `table15` of the hand model, over an abstract dictionary of operations.
-/
namespace GV.ScalarMulGen
open GV.GoImp GV.ScalarMul GV.Gen.Imp

section Shamir
variable {G : Type} (add : G → G → G) (dbl : G → G) (neg : G → G) (zero uninit : G)

/-- body of the translated inner loop: one joint 2-bit window of the words `w1 w2` -/
def gsh (table : List G) (w1 w2 : Nat) (res : G) (mask : Nat) (j : Int) : G :=
  let res := dbl (dbl res)
  let b1 := shr64 (w1 &&& mask) (62 - (2 * j))
  let b2 := shr64 (w2 &&& mask) (62 - (2 * j))
  if (b1 ||| b2) != 0 then
    let s_1 := (shl64 b2 2) ||| b1
    add res (arrGet table ((s_1 + 2^64 - 1) % 2^64) uninit)
  else res

/-- one joint window: translated text = `shamirStep` of the model (table lookup `table[s-1]` in uint64 arithmetic included) -/
theorem gsh_eq (hdbl : ∀ x, dbl x = add x x) (t0 t3 res : G) (w1 w2 j : Nat) (hj : j < 32) :
    gsh add dbl uninit (table15 ⟨add, neg, zero⟩ t0 t3) w1 w2 res ((3 <<< 62) >>> (2 * j)) (j : Int) =
    shamirStep ⟨add, neg, zero⟩ (table15 ⟨add, neg, zero⟩ t0 t3) w1 w2 res j := by
  have hs : ((62 : Int) - 2 * (j : Int)).toNat = 62 - 2 * j := by omega
  unfold gsh shamirStep
  simp only [shr64, hs, word_mask j hj, win_eq]
  have h1 : (w1 / 2 ^ (62 - 2 * j)) % 4 < 4 := Nat.mod_lt _ (by norm_num)
  have h2 : (w2 / 2 ^ (62 - 2 * j)) % 4 < 4 := Nat.mod_lt _ (by norm_num)
  generalize (w1 / 2 ^ (62 - 2 * j)) % 4 = b1 at h1
  generalize (w2 / 2 ^ (62 - 2 * j)) % 4 = b2 at h2
  interval_cases b1 <;> interval_cases b2 <;> simp [shl64, arrGet, table15, GOps.dbl, hdbl]

/-- generic inner loop: any function obeying the unfolding equations of the translated `for j := 0; j < 32; j++` loop -/
theorem sh_loop_gen (hdbl : ∀ x, dbl x = add x x) (t0 t3 : G) (w1 w2 : Nat) (L : Nat → G → Nat → Int → G × Nat × Int)
    (h0 : ∀ res m j, L 0 res m j = (res, m, j))
    (hs : ∀ n res m j, L (n + 1) res m j =
      if decide (j < 32) then L n (gsh add dbl uninit (table15 ⟨add, neg, zero⟩ t0 t3) w1 w2 res m j) (shr64 m 2) (j + 1) else (res, m, j)) :
    ∀ (n j : Nat), j + n = 32 → ∀ res : G, (L n res ((3 <<< 62) >>> (2 * j)) (j : Int)).1 =
      (List.range' j n).foldl (shamirStep ⟨add, neg, zero⟩ (table15 ⟨add, neg, zero⟩ t0 t3) w1 w2) res := by
  intro n
  induction n with
  | zero => intro j _ res; rw [h0]; rfl
  | succ n ih =>
    intro j hjn res
    have hj : j < 32 := by omega
    have hc : decide ((j : Int) < 32) = true := by simp; omega
    have hm : shr64 ((3 <<< 62) >>> (2 * j)) 2 = (3 <<< 62) >>> (2 * (j + 1)) := by
      simp only [shr64]; rw [← Nat.shiftRight_add]; rfl
    have hi : (j : Int) + 1 = ((j + 1 : Nat) : Int) := by push_cast; rfl
    rw [hs, hc, if_pos rfl, gsh_eq add dbl neg zero uninit hdbl t0 t3 res w1 w2 j hj, hm, hi, ih (j + 1) (by omega),
      List.range'_succ, List.foldl_cons]

theorem sh_word (hdbl : ∀ x, dbl x = add x x) (t0 t3 : G) (w1 w2 : Nat) (L : Nat → G → Nat → Int → G × Nat × Int)
    (h0 : ∀ res m j, L 0 res m j = (res, m, j))
    (hs : ∀ n res m j, L (n + 1) res m j =
      if decide (j < 32) then L n (gsh add dbl uninit (table15 ⟨add, neg, zero⟩ t0 t3) w1 w2 res m j) (shr64 m 2) (j + 1) else (res, m, j))
    (res : G) :
    (L ((32 : Int) - 0).toNat res (shl64 (uintOfInt 3) 62) 0).1 =
      shamirWord ⟨add, neg, zero⟩ (table15 ⟨add, neg, zero⟩ t0 t3) w1 w2 res := by
  have e : ((32 : Int) - 0).toNat = 32 := rfl
  have m : shl64 (uintOfInt 3) 62 = (3 <<< 62) >>> (2 * 0) := by decide
  rw [e, m]
  have := sh_loop_gen add dbl neg zero uninit hdbl t0 t3 w1 w2 L h0 hs 32 0 rfl res
  simpa [shamirWord, List.range_eq_range'] using this

/-- generic outer loop `for i := hi; i >= 0; i--` -/
theorem sh_outer_gen (L1 : Nat → G → Int → G × Int) (wordI : Int → G → G)
    (h0 : ∀ res i, L1 0 res i = (res, i))
    (hs : ∀ n res i, L1 (n + 1) res i = if decide (i ≥ 0) then L1 n (wordI i res) (i - 1) else (res, i)) :
    ∀ (n : Nat) (res : G), (L1 n res ((n : Int) - 1)).1 = (List.range n).reverse.foldl (fun (r : G) (k : Nat) => wordI (k : Int) r) res := by
  intro n
  induction n with
  | zero => intro res; rw [h0]; rfl
  | succ n ih =>
    intro res
    have hi : ((n + 1 : Nat) : Int) - 1 = (n : Int) := by omega
    have hc : decide ((n : Int) ≥ 0) = true := by simp
    rw [hs, hi, hc, if_pos rfl, ih, List.range_succ, List.reverse_append]
    rfl

section Inst
variable {A : Type} (fromAffine : A → G) (phi : G → G) (split : Int → Int × Int) (limbs : Int) (frBits : Int → List Nat)
  (elBitLen : List Nat → Int)

/-- `JointScalarMultiplication`: the 32 joint windows of word `i` of the two reduced scalars -/
theorem joint_word (hdbl : ∀ x, dbl x = add x x) (t0 t3 res : G) (s : List (List Nat)) (i : Int) :
    (Joint_bn254_G1.JointScalarMultiplication.loop2 add dbl neg zero uninit fromAffine phi split limbs frBits elBitLen
      (table15 ⟨add, neg, zero⟩ t0 t3) s i ((32 : Int) - 0).toNat res (shl64 (uintOfInt 3) 62) 0).1 =
    shamirWord ⟨add, neg, zero⟩ (table15 ⟨add, neg, zero⟩ t0 t3)
      (arrGet (arrGet s 0 (List.replicate limbs.toNat 0)) i.toNat 0) (arrGet (arrGet s 1 (List.replicate limbs.toNat 0)) i.toNat 0) res := by
  apply sh_word add dbl neg zero uninit hdbl t0 t3 _ _
    (Joint_bn254_G1.JointScalarMultiplication.loop2 add dbl neg zero uninit fromAffine phi split limbs frBits elBitLen
      (table15 ⟨add, neg, zero⟩ t0 t3) s i)
  · intro res m j; rw [Joint_bn254_G1.JointScalarMultiplication.loop2]
  · intro n res m j; rw [Joint_bn254_G1.JointScalarMultiplication.loop2]; rfl

/-- `JointScalarMultiplication`: the word loop from word `n-1` down to word 0 -/
theorem joint_loop (hdbl : ∀ x, dbl x = add x x) (t0 t3 : G) (s : List (List Nat)) (n : Nat) (res : G) :
    (Joint_bn254_G1.JointScalarMultiplication.loop1 add dbl neg zero uninit fromAffine phi split limbs frBits elBitLen
      (table15 ⟨add, neg, zero⟩ t0 t3) s n res ((n : Int) - 1)).1 =
    (List.range n).reverse.foldl (fun (r : G) (k : Nat) => shamirWord ⟨add, neg, zero⟩ (table15 ⟨add, neg, zero⟩ t0 t3)
      (arrGet (arrGet s 0 (List.replicate limbs.toNat 0)) k 0) (arrGet (arrGet s 1 (List.replicate limbs.toNat 0)) k 0) r) res := by
  have := sh_outer_gen
    (Joint_bn254_G1.JointScalarMultiplication.loop1 add dbl neg zero uninit fromAffine phi split limbs frBits elBitLen
      (table15 ⟨add, neg, zero⟩ t0 t3) s)
    (fun i r => shamirWord ⟨add, neg, zero⟩ (table15 ⟨add, neg, zero⟩ t0 t3)
      (arrGet (arrGet s 0 (List.replicate limbs.toNat 0)) i.toNat 0) (arrGet (arrGet s 1 (List.replicate limbs.toNat 0)) i.toNat 0) r)
    (by intro res i; rw [Joint_bn254_G1.JointScalarMultiplication.loop1])
    (by
      intro n res i
      rw [Joint_bn254_G1.JointScalarMultiplication.loop1, ← joint_word add dbl neg zero uninit fromAffine phi split limbs frBits elBitLen hdbl])
    n res
  simpa using this

/-- `mulGLV`: the 32 joint windows of word `i` of the two sub-scalars -/
theorem glv_word (hdbl : ∀ x, dbl x = add x x) (t0 t3 res : G) (k1 k2 : List Nat) (i : Int) :
    (Glv_bn254_G1.mulGLV.loop2 add dbl neg zero uninit fromAffine phi split limbs frBits elBitLen
      (table15 ⟨add, neg, zero⟩ t0 t3) k1 k2 i ((32 : Int) - 0).toNat res (shl64 (uintOfInt 3) 62) 0).1 =
    shamirWord ⟨add, neg, zero⟩ (table15 ⟨add, neg, zero⟩ t0 t3) (arrGet k1 i.toNat 0) (arrGet k2 i.toNat 0) res := by
  apply sh_word add dbl neg zero uninit hdbl t0 t3 _ _
    (Glv_bn254_G1.mulGLV.loop2 add dbl neg zero uninit fromAffine phi split limbs frBits elBitLen (table15 ⟨add, neg, zero⟩ t0 t3) k1 k2 i)
  · intro res m j; rw [Glv_bn254_G1.mulGLV.loop2]
  · intro n res m j; rw [Glv_bn254_G1.mulGLV.loop2]; rfl

/-- `mulGLV`: the word loop from word `n-1` down to word 0 -/
theorem glv_loop (hdbl : ∀ x, dbl x = add x x) (t0 t3 : G) (k1 k2 : List Nat) (n : Nat) (res : G) :
    (Glv_bn254_G1.mulGLV.loop1 add dbl neg zero uninit fromAffine phi split limbs frBits elBitLen
      (table15 ⟨add, neg, zero⟩ t0 t3) k1 k2 n res ((n : Int) - 1)).1 =
    (List.range n).reverse.foldl (fun (r : G) (k : Nat) => shamirWord ⟨add, neg, zero⟩ (table15 ⟨add, neg, zero⟩ t0 t3)
      (arrGet k1 k 0) (arrGet k2 k 0) r) res := by
  have := sh_outer_gen
    (Glv_bn254_G1.mulGLV.loop1 add dbl neg zero uninit fromAffine phi split limbs frBits elBitLen (table15 ⟨add, neg, zero⟩ t0 t3) k1 k2)
    (fun i r => shamirWord ⟨add, neg, zero⟩ (table15 ⟨add, neg, zero⟩ t0 t3) (arrGet k1 i.toNat 0) (arrGet k2 i.toNat 0) r)
    (by intro res i; rw [Glv_bn254_G1.mulGLV.loop1])
    (by
      intro n res i
      rw [Glv_bn254_G1.mulGLV.loop1, ← glv_word add dbl neg zero uninit fromAffine phi split limbs frBits elBitLen hdbl])
    n res
  simpa using this

end Inst
end Shamir
end GV.ScalarMulGen
