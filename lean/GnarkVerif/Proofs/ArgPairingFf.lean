import GnarkVerif.Proofs.ArgPairingSh
/-
C17a helper lemmas, part 5: fflonk's `Fold` (interleaving `Σⱼ Xʲ·pⱼ(Xᵗ)`) over an arbitrary field.
-/
namespace GV.ArgPairing
open GV GV.Alg Polynomial

section ff
variable {K : Type} [Field K] [DecidableEq K]

theorem evalP_append (l1 l2 : List K) (y : K) :
    evalP (ofField K) (l1 ++ l2) y = evalP (ofField K) l1 y + y ^ l1.length * evalP (ofField K) l2 y := by
  simp [evalP_eq, toPoly_append]

theorem evalP_map_range (f : Nat → K) (m : Nat) (y : K) :
    evalP (ofField K) ((List.range m).map f) y = ∑ k ∈ Finset.range m, f k * y ^ k := by
  induction m with
  | zero => simp
  | succ m ih =>
    rw [List.range_succ, List.map_append, evalP_append, ih, Finset.sum_range_succ]
    simp [evalP_cons]; ring

/-- Horner value as a finite sum, for any bound `m ≥ len` -/
theorem evalP_eq_sum (l : List K) : ∀ (m : Nat), l.length ≤ m → ∀ y : K,
    evalP (ofField K) l y = ∑ q ∈ Finset.range m, l.getD q 0 * y ^ q := by
  induction l with
  | nil => intro m _ y; simp
  | cons a l ih =>
    intro m hm y
    cases m with
    | zero => simp at hm
    | succ m =>
      simp only [List.length_cons, Nat.add_le_add_iff_right] at hm
      rw [evalP_cons, ih m hm y, Finset.sum_range_succ', Finset.sum_mul]
      simp only [List.getD_cons_succ, List.getD_cons_zero, pow_zero, mul_one, pow_succ]
      congr 1
      apply Finset.sum_congr rfl
      intro q _; ring

theorem sum_range_mul (g : Nat → K) (n t : Nat) :
    ∑ k ∈ Finset.range (n * t), g k = ∑ q ∈ Finset.range n, ∑ j ∈ Finset.range t, g (j + q * t) := by
  induction n with
  | zero => simp
  | succ n ih =>
    rw [Nat.succ_mul, Finset.sum_range_add, ih, Finset.sum_range_succ]
    congr 1
    apply Finset.sum_congr rfl
    intro j _; rw [Nat.add_comm]

omit [Field K] [DecidableEq K] in
theorem le_maxLen (p : List (List K)) (l : List K) (hl : l ∈ p) : l.length ≤ maxLen p := by
  unfold maxLen
  have : ∀ (p : List (List K)) (m : Nat), m ≤ p.foldl (fun m l => max m l.length) m ∧
      ∀ l ∈ p, l.length ≤ p.foldl (fun m l => max m l.length) m := by
    intro p
    induction p with
    | nil => intro m; simp
    | cons a p ih =>
      intro m
      obtain ⟨h1, h2⟩ := ih (max m a.length)
      refine ⟨le_trans (le_max_left _ _) h1, ?_⟩
      intro l hl
      rcases List.mem_cons.mp hl with rfl | hl
      · exact le_trans (le_max_right _ _) h1
      · exact h2 l hl
  exact (this p 0).2 l hl

/-- fflonk `Fold`: the folded polynomial is `Σⱼ Xʲ·pⱼ(Xᵗ)`, `t = nextDiv (len p)` — evaluated at any point -/
theorem evalP_ffFold (nd : Nat → Nat) (p : List (List K)) (y : K) (ht : 0 < nd p.length) :
    evalP (ofField K) (ffFold (ofField K) nd p) y
      = ∑ j ∈ Finset.range (nd p.length), y ^ j * evalP (ofField K) (p.getD j []) (y ^ nd p.length) := by
  unfold ffFold
  simp only [ofField_zero]
  rw [evalP_map_range, sum_range_mul, Finset.sum_comm]
  apply Finset.sum_congr rfl
  intro j hj
  have hjt : j < nd p.length := Finset.mem_range.mp hj
  have hlen : (p.getD j []).length ≤ maxLen p := by
    by_cases hjp : j < p.length
    · rw [getD_getElem _ _ _ hjp]; exact le_maxLen p _ (List.getElem_mem hjp)
    · simp [List.getD_eq_getElem?_getD, List.getElem?_eq_none (Nat.le_of_not_lt hjp)]
  rw [evalP_eq_sum _ (maxLen p) hlen, Finset.mul_sum]
  apply Finset.sum_congr rfl
  intro q _
  rw [Nat.add_mul_mod_self_right, Nat.mod_eq_of_lt hjt, Nat.add_mul_div_right _ _ ht, Nat.div_eq_of_lt hjt,
    Nat.zero_add, pow_add, pow_mul']
  ring

/-- the fold-consistency check of fflonk `BatchVerify` holds for honest values: at the rotated point `x·ωˡ` with
`ωᵗ = 1`, the folded polynomial takes the value `Σⱼ (xωˡ)ʲ·pⱼ(xᵗ)` that the verifier recomputes from the outer claimed
values `pⱼ(xᵗ)` -/
theorem evalP_ffFold_rotated (nd : Nat → Nat) (p : List (List K)) (x ω : K) (l : Nat) (ht : 0 < nd p.length)
    (hω : ω ^ nd p.length = 1) :
    evalP (ofField K) (ffFold (ofField K) nd p) (x * ω ^ l)
      = ∑ j ∈ Finset.range (nd p.length), (x * ω ^ l) ^ j * evalP (ofField K) (p.getD j []) (x ^ nd p.length) := by
  rw [evalP_ffFold nd p _ ht]
  have : (x * ω ^ l) ^ nd p.length = x ^ nd p.length := by
    rw [mul_pow, ← pow_mul, mul_comm l, pow_mul, hω, one_pow, mul_one]
  rw [this]

end ff
end GV.ArgPairing
