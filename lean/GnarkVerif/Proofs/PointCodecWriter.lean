import GnarkVerif.Proofs.PointCodecStream
/-
C07 — `Encoder.Encode` on a writer that fails (Model/PointCodec.lean, `wWrite` / `wChunks` / `encodeTo` / `encodeSeqTo`):
an `Encode` that stops at the first failed `Write` behaves as ONE `Write` of the whole encoding, whatever the cut into
`Write` calls; on the writer that accepts exactly `k` bytes it reports an error iff `k` is less than the length of the
encoding and the bytes that reached the writer are the first `k` bytes of the encoding.
-/
namespace GV.PointCodec
open GV GV.Alg
set_option linter.unusedSectionVars false

/-! ## one `Write` -/

theorem wWrite_nil (w : Budgets) : wWrite w [] = ([], false, match w with | [] => [] | b :: bs => b :: bs) := by
  cases w with
  | nil => rfl
  | cons b bs => simp [wWrite]

theorem wWrite_cons_le (b : Nat) (bs : Budgets) (p : List UInt8) (h : p.length ≤ b) :
    wWrite (b :: bs) p = (p, false, (b - p.length) :: bs) := by simp [wWrite, h]

theorem wWrite_cons_gt (b : Nat) (bs : Budgets) (p : List UInt8) (h : ¬ p.length ≤ b) :
    wWrite (b :: bs) p = (p.take b, true, bs) := by simp [wWrite, h]

/-- the accepted bytes are a prefix of what was offered -/
theorem wWrite_prefix (w : Budgets) (p : List UInt8) : (wWrite w p).1 <+: p := by
  cases w with
  | nil => exact List.nil_prefix
  | cons b bs =>
    by_cases h : p.length ≤ b
    · rw [wWrite_cons_le b bs p h]; exact List.prefix_refl p
    · rw [wWrite_cons_gt b bs p h]; exact List.take_prefix b p

/-- no error: everything was accepted -/
theorem wWrite_ok (w : Budgets) (p : List UInt8) (h : (wWrite w p).2.1 = false) : (wWrite w p).1 = p := by
  cases w with
  | nil =>
    cases p with
    | nil => rfl
    | cons a t => simp [wWrite] at h
  | cons b bs =>
    by_cases hp : p.length ≤ b
    · rw [wWrite_cons_le b bs p hp]
    · rw [wWrite_cons_gt b bs p hp] at h; simp at h

/-- an error: strictly fewer bytes than offered were accepted -/
theorem wWrite_err (w : Budgets) (p : List UInt8) (h : (wWrite w p).2.1 = true) : (wWrite w p).1.length < p.length := by
  cases w with
  | nil =>
    cases p with
    | nil => simp [wWrite] at h
    | cons a t => simp [wWrite]
  | cons b bs =>
    by_cases hp : p.length ≤ b
    · rw [wWrite_cons_le b bs p hp] at h; simp at h
    · rw [wWrite_cons_gt b bs p hp]; simp only [List.length_take]; omega

/-! ## several `Write` calls, stopping at the first error = one `Write` of the concatenation -/

theorem wChunks_cons_err (w : Budgets) (p : List UInt8) (ps : List (List UInt8)) (o : List UInt8) (w' : Budgets)
    (h : wWrite w p = (o, true, w')) : wChunks w (p :: ps) = (o, true, w') := by
  simp only [wChunks, h]

theorem wChunks_cons_ok (w : Budgets) (p : List UInt8) (ps : List (List UInt8)) (o : List UInt8) (w' : Budgets)
    (h : wWrite w p = (o, false, w')) :
    wChunks w (p :: ps) = (o ++ (wChunks w' ps).1, (wChunks w' ps).2.1, (wChunks w' ps).2.2) := by
  simp only [wChunks, h]

theorem wChunks_eq_write (w : Budgets) (cs : List (List UInt8)) : wChunks w cs = wWrite w cs.flatten := by
  induction cs generalizing w with
  | nil =>
    cases w with
    | nil => rfl
    | cons b bs => simp [wChunks, wWrite]
  | cons p ps ih =>
    cases w with
    | nil =>
      cases p with
      | nil =>
        rw [wChunks_cons_ok [] [] ps [] [] rfl, ih]
        simp
      | cons a t =>
        rw [wChunks_cons_err [] (a :: t) ps [] [] rfl]
        simp [wWrite]
    | cons b bs =>
      by_cases hp : p.length ≤ b
      · have h1 : wWrite (b :: bs) p = (p, false, (b - p.length) :: bs) := by simp [wWrite, hp]
        rw [wChunks_cons_ok _ _ _ _ _ h1, ih]
        simp only [List.flatten_cons, wWrite, List.length_append]
        by_cases hr : ps.flatten.length ≤ b - p.length
        · have : p.length + ps.flatten.length ≤ b := by omega
          rw [if_pos hr, if_pos this]
          simp only [Prod.mk.injEq, List.cons.injEq, and_true, true_and]
          omega
        · have : ¬ p.length + ps.flatten.length ≤ b := by omega
          rw [if_neg hr, if_neg this]
          simp only [Prod.mk.injEq, and_true]
          rw [List.take_append]
          rw [List.take_of_length_le hp]
      · have h1 : wWrite (b :: bs) p = (p.take b, true, bs) := by simp [wWrite, hp]
        rw [wChunks_cons_err _ _ _ _ _ h1]
        simp only [List.flatten_cons, wWrite, List.length_append]
        have : ¬ p.length + ps.flatten.length ≤ b := by omega
        rw [if_neg this]
        simp only [Prod.mk.injEq, and_true]
        rw [List.take_append_of_le_length (by omega)]

/-! ## the `Write` calls of a value concatenate to its encoding -/

variable {τ : Type}

theorem chunksPrefixed_flatten (item : τ → List (List UInt8)) (enc : τ → List UInt8)
    (h : ∀ x, (item x).flatten = enc x) (l : List τ) :
    (chunksPrefixed item l).flatten = encPrefixed enc l := by
  unfold chunksPrefixed encPrefixed
  rw [List.flatten_cons]
  congr 1
  induction l with
  | nil => rfl
  | cons x xs ih => simp only [List.map_cons, List.flatten_cons, List.flatten_append, h, ih]

variable {α β : Type} [DecidableEq α] [DecidableEq β]

theorem single_flatten (f : τ → List UInt8) : ∀ x, ([f x] : List (List UInt8)).flatten = f x := by
  intro x; simp

theorem encodeChunks_flatten (E : Env α β) (raw : Bool) (v : Val α β) :
    (encodeChunks E raw v).flatten = encodeVal E raw v := by
  cases v with
  | u k v => simp [encodeChunks, encodeVal]
  | fr v => simp [encodeChunks, encodeVal]
  | fp v => simp [encodeChunks, encodeVal]
  | g1 P => simp [encodeChunks, encodeVal]
  | g2 P => simp [encodeChunks, encodeVal]
  | g1s l => exact chunksPrefixed_flatten _ _ (single_flatten _) l
  | g2s l => exact chunksPrefixed_flatten _ _ (single_flatten _) l
  | frs l => exact chunksPrefixed_flatten _ _ (single_flatten _) l
  | fps l => exact chunksPrefixed_flatten _ _ (single_flatten _) l
  | frss l => exact chunksPrefixed_flatten _ _ (chunksPrefixed_flatten _ _ (single_flatten _)) l
  | frsss l =>
    exact chunksPrefixed_flatten _ _ (chunksPrefixed_flatten _ _ (chunksPrefixed_flatten _ _ (single_flatten _))) l
  | u64s l => exact chunksPrefixed_flatten _ _ (single_flatten _) l
  | u64ss l => exact chunksPrefixed_flatten _ _ (chunksPrefixed_flatten _ _ (single_flatten _)) l

theorem encodeTo_eq_write (E : Env α β) (raw : Bool) (w : Budgets) (v : Val α β) :
    encodeTo E raw w v = wWrite w (encodeVal E raw v) := by
  unfold encodeTo
  rw [wChunks_eq_write, encodeChunks_flatten]

/-! ## a sequence of `Encode` calls on the writer that accepts exactly `k` bytes -/

/-- the bytes all the calls together pushed into the writer -/
def seqWritten (rs : List (List UInt8 × Bool)) : List UInt8 := (rs.map (·.1)).flatten
/-- no call reported an error -/
def seqClean (rs : List (List UInt8 × Bool)) : Bool := rs.all (fun r => !r.2)

theorem encodeSeqTo_exhausted (E : Env α β) (raw : Bool) (vs : List (Val α β)) :
    seqWritten (encodeSeqTo E raw [] vs) = [] := by
  induction vs with
  | nil => rfl
  | cons v vs ih =>
    simp only [encodeSeqTo, encodeTo_eq_write, wWrite, seqWritten, List.map_cons, List.flatten_cons, List.nil_append]
    exact ih

theorem encodeSeqTo_limit_written (E : Env α β) (raw : Bool) (k : Nat) (vs : List (Val α β)) :
    seqWritten (encodeSeqTo E raw [k] vs) = (encodeSeq E raw vs).take k := by
  induction vs generalizing k with
  | nil => simp [encodeSeqTo, seqWritten, encodeSeq]
  | cons v vs ih =>
    simp only [encodeSeqTo, encodeTo_eq_write, wWrite, seqWritten, List.map_cons, List.flatten_cons, encodeSeq]
    by_cases h : (encodeVal E raw v).length ≤ k
    · rw [if_pos h]
      have := ih (k - (encodeVal E raw v).length)
      simp only [seqWritten, encodeSeq] at this
      simp only [this]
      rw [List.take_append, List.take_of_length_le h]
    · rw [if_neg h]
      have := encodeSeqTo_exhausted E raw vs
      simp only [seqWritten] at this
      simp only [this, List.append_nil]
      rw [List.take_append_of_le_length (by omega)]

theorem encodeSeqTo_limit_clean (E : Env α β) (raw : Bool) (k : Nat) (vs : List (Val α β)) :
    seqClean (encodeSeqTo E raw [k] vs) = true ↔ (encodeSeq E raw vs).length ≤ k := by
  induction vs generalizing k with
  | nil => simp [encodeSeqTo, seqClean, encodeSeq]
  | cons v vs ih =>
    simp only [encodeSeqTo, encodeTo_eq_write, wWrite, seqClean, List.all_cons, encodeSeq, List.map_cons,
      List.flatten_cons, List.length_append, Bool.and_eq_true]
    by_cases h : (encodeVal E raw v).length ≤ k
    · rw [if_pos h]
      have := ih (k - (encodeVal E raw v).length)
      simp only [seqClean, encodeSeq] at this
      simp only [Bool.not_false, true_and]
      rw [this]; omega
    · rw [if_neg h]
      simp only [Bool.not_true, Bool.false_eq_true, false_and, false_iff]
      omega

end GV.PointCodec
