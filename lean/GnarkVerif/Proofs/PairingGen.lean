import GnarkVerif.Proofs.CurveGen
import Mathlib.GroupTheory.OrderOfElement
/-
Generic algebra behind the C05 step-refinement theorems (Props/C05_gen_*.lean), which are about the defs that tools/goslp
REGENERATES from ecc/<curve>/pairing.go on every run (Gen/Pairing/<Pkg>.lean).

PART A (any field K, instantiated at the twist coordinate field): closed forms of the Miller-loop step functions
  * `projDouble` / `projDoubleLine`     — `(*g2Proj).doubleStep`  (homogeneous projective doubling, eprint 2013/722 §4.3, a = 0)
  * `projAddMixed` / `projAddLine`      — `(*g2Proj).addMixedStep`, `lineCompute`
  * `affDoubleStep`, `affAddStep`, `affDoubleAndAddStep` — the affine steps of the fixed-Q variant (`PrecomputeLines`)
  and their meaning: the returned point represents the tangent / chord point (= Mathlib's `P + P`, `P + Q`), the projective
  line is `r0 · (1, −λ, λ·x − y)` where `(λ, λ·x − y)` is the affine line and `r0 ≠ 0` lies in the coordinate field.

PART B (any commutative group G): exponent bookkeeping for the final exponentiation. `CycInterp` interprets GT elements in G;
  an operation is a *power map* (`IsPowMap f k`: ι (f a) = ι a ^ k on the cyclotomic subgroup) or the product (`IsMul`).
  `Pow g x m` = "x is cyclotomic and ι x = g ^ m"; the lemmas `Pow.mul`, `Pow.map`, `Pow.iterate` let a straight-line program
  over such operations be evaluated to an integer exponent by `apply`.
-/
namespace GV.PairingGen
open GV.Curve GV.C02 GV.CurveGen WeierstrassCurve

/-! ## PART A — step formulas over a field -/
section steps
variable {K : Type} [Field K]

/-- `(*g2Proj).doubleStep`, point part (A … K are the Go variable names) -/
def projDouble (b X Y Z : K) : K × K × K :=
  let A := X * Y / 2
  let B := Y * Y
  let C := Z * Z
  let E := b * (C + C + C)
  let F := E + E + E
  let G := (B + F) / 2
  let H := (Y + Z) * (Y + Z) - (B + C)
  let EE := E * E
  ((B - F) * A, G * G - (EE + EE + EE), B * H)

/-- `(*g2Proj).doubleStep`, line part `(r0, r1, r2)` -/
def projDoubleLine (b X Y Z : K) : K × K × K :=
  let B := Y * Y
  let C := Z * Z
  let E := b * (C + C + C)
  let H := (Y + Z) * (Y + Z) - (B + C)
  let J := X * X
  (-H, J + J + J, E - B)

/-- `(*g2Proj).addMixedStep`, point part -/
def projAddMixed (X Y Z x2 y2 : K) : K × K × K :=
  let O := Y - y2 * Z
  let L := X - x2 * Z
  let C := O * O
  let D := L * L
  let E := L * D
  let F := Z * C
  let G := X * D
  let H := E + F - (G + G)
  (L * H, (G - H) * O - Y * E, E * Z)

/-- `(*g2Proj).addMixedStep` / `lineCompute`, line part `(r0, r1, r2)` -/
def projAddLine (X Y Z x2 y2 : K) : K × K × K :=
  let O := Y - y2 * Z
  let L := X - x2 * Z
  (L, -O, x2 * O - L * y2)

/-- the line through a point with slope `l`, in the normalised form `(R0, R1) = (l, l·x − y)` of `LineEvaluationAff`:
    it stands for `y' − R0·x' + R1`, i.e. `(y' − y) − l·(x' − x)` -/
def affLine (l x y : K) : K × K := (l, l * x - y)

/-- `(*G2Affine).doubleStep`: tangent point and tangent line -/
def affDoubleStep (x y : K) : (K × K) × (K × K) :=
  let l := (x * x + x * x + x * x) / (y + y)
  let xr := l * l - x - x
  ((xr, (x - xr) * l - y), affLine l x y)

/-- `(*G2Affine).addStep`: chord point and chord line -/
def affAddStep (x1 y1 x2 y2 : K) : (K × K) × (K × K) :=
  let l := (y2 - y1) / (x2 - x1)
  let xr := l * l - (x1 + x2)
  ((xr, (x1 - xr) * l - y1), affLine l x1 y1)

/-- `(*G2Affine).doubleAndAddStep`: `2P + Q` as `(P + Q) + P` without the ordinate of `P + Q`, and the two chord lines -/
def affDoubleAndAddStep (x1 y1 x2 y2 : K) : (K × K) × (K × K) × (K × K) :=
  let l1 := (y1 - y2) / (x1 - x2)
  let x3 := l1 * l1 - x1 - x2
  let l2 := -((y1 + y1) / (x3 - x1) + l1)
  let x4 := l2 * l2 - x1 - x3
  ((x4, l2 * (x1 - x4) - y1), affLine l1 x1 y1, affLine l2 x1 y1)

/-- the line `(R0, R1)` evaluated at `(x', y')` is the normalised tangent / chord `(y' − y) − l·(x' − x)` -/
theorem affLine_eval (l x y x' y' : K) : y' - (affLine l x y).1 * x' + (affLine l x y).2 = (y' - y) - l * (x' - x) := by
  simp only [affLine]; ring

/-! ### doubling -/

/-- the affine doubling step returns the tangent point of `Proofs/Curve.lean` (`tangent 0 x y`) -/
theorem affDoubleStep_point (x y : K) : (affDoubleStep x y).1 = tangent 0 x y := by
  simp only [affDoubleStep, tangent, Prod.mk.injEq]
  have h1 : (x * x + x * x + x * x) / (y + y) = (3 * x ^ 2 + 0) / (2 * y) := by congr 1 <;> ring
  rw [h1]
  constructor <;> ring

/-- the affine doubling line has the tangent slope `3x²/(2y)` -/
theorem affDoubleStep_line (x y : K) : (affDoubleStep x y).2 = affLine (3 * x ^ 2 / (2 * y)) x y := by
  simp only [affDoubleStep]
  congr 1
  congr 1 <;> ring

/-- homogeneous projective doubling: for every representative `(X:Y:Z)` of a curve point `(x, y)`, `y ≠ 0`, the result
    represents the tangent point, with `Z3 = 2·Y³·Z` -/
theorem projDouble_rep {b X Y Z x y : K} (hc : (2 : K) ≠ 0) (hp : ProjRep X Y Z x y) (hon : OnCurve 0 b x y) (hy : y ≠ 0) :
    ProjRep (projDouble b X Y Z).1 (projDouble b X Y Z).2.1 (projDouble b X Y Z).2.2 (tangent 0 x y).1 (tangent 0 x y).2 := by
  obtain ⟨hz, rfl, rfl⟩ := hp
  have hb : b = y ^ 2 - x ^ 3 := by simp only [OnCurve] at hon; linear_combination (-1 : K) * hon
  subst hb
  simp only [ProjRep, projDouble, tangent]
  refine ⟨?_, ?_, ?_⟩
  · have : y * Z * (y * Z) * ((y * Z + Z) * (y * Z + Z) - (y * Z * (y * Z) + Z * Z)) = 2 * y ^ 3 * Z ^ 4 := by ring
    rw [this]
    exact mul_ne_zero (mul_ne_zero hc (pow_ne_zero _ hy)) (pow_ne_zero _ hz)
  · field_simp
    ring
  · field_simp
    ring

/-- `Z3 = 2·Y³·Z`: the result is the point at infinity exactly for `Z = 0` (infinity) or `Y = 0` (2-torsion) -/
theorem projDouble_Z (b X Y Z : K) : (projDouble b X Y Z).2.2 = 2 * Y ^ 3 * Z := by
  simp only [projDouble]; ring

/-- homogeneous projective coordinates `(X:Y:Z)` represent the group element `P` (`Z = 0` for the point at infinity) -/
def ProjPt (a b X Y Z : K) [DecidableEq K] (P : (sw a b).Point) : Prop :=
  (Z = 0 ∧ P = 0) ∨ ∃ x y, ∃ h : (sw a b).Nonsingular x y, ProjRep X Y Z x y ∧ P = Affine.Point.some x y h

/-- TOTAL correctness of the doubling step in Mathlib's group of points: whatever `p` represents (infinity, a 2-torsion
    point, any other point), the result represents `P + P` -/
theorem projDouble_total [DecidableEq K] {b X Y Z : K} {P : (sw 0 b).Point} (hc : (2 : K) ≠ 0) (hp : ProjPt 0 b X Y Z P) :
    ProjPt 0 b (projDouble b X Y Z).1 (projDouble b X Y Z).2.1 (projDouble b X Y Z).2.2 (P + P) := by
  rcases hp with ⟨hz, rfl⟩ | ⟨x, y, h, hr, rfl⟩
  · exact Or.inl ⟨by rw [projDouble_Z, hz, mul_zero], by simp⟩
  · by_cases hy : y = 0
    · refine Or.inl ⟨?_, ?_⟩
      · rw [projDouble_Z, hr.2.2, hy]; ring
      · exact C02_opposite_is_zero h h (by rw [hy, neg_zero])
    · obtain ⟨h3, hadd⟩ := C02_tangent_is_group_double hc h hy
      exact Or.inr ⟨_, _, h3, projDouble_rep hc hr (onCurve_of_nonsingular h) hy, hadd⟩

/-- the projective tangent line is `r0 · (1, −R0, R1)` where `(R0, R1)` is the affine (fixed-Q) line and `r0 = −2·Y·Z ≠ 0`:
    `r0·y' + r1·x' + r2 = r0 · ((y' − y) − λ·(x' − x))` for all `(x', y')` -/
theorem projDoubleLine_affine {b X Y Z x y : K} (hc : (2 : K) ≠ 0) (hp : ProjRep X Y Z x y) (hon : OnCurve 0 b x y) (hy : y ≠ 0) :
    (projDoubleLine b X Y Z).1 = -(2 * Y * Z) ∧ (projDoubleLine b X Y Z).1 ≠ 0 ∧
    (projDoubleLine b X Y Z).2.1 = (projDoubleLine b X Y Z).1 * -(affDoubleStep x y).2.1 ∧
    (projDoubleLine b X Y Z).2.2 = (projDoubleLine b X Y Z).1 * (affDoubleStep x y).2.2 := by
  obtain ⟨hz, rfl, rfl⟩ := hp
  have hb : b = y ^ 2 - x ^ 3 := by simp only [OnCurve] at hon; linear_combination (-1 : K) * hon
  subst hb
  have h0 : (projDoubleLine (y ^ 2 - x ^ 3) (x * Z) (y * Z) Z).1 = -(2 * (y * Z) * Z) := by
    simp only [projDoubleLine]; ring
  have hyy : y + y ≠ 0 := by rw [← two_mul]; exact mul_ne_zero hc hy
  refine ⟨h0, ?_, ?_, ?_⟩
  · rw [h0]; exact neg_ne_zero.mpr (mul_ne_zero (mul_ne_zero hc (mul_ne_zero hy hz)) hz)
  · simp only [projDoubleLine, affDoubleStep, affLine, ← two_mul]
    field_simp
    ring
  · simp only [projDoubleLine, affDoubleStep, affLine, ← two_mul]
    field_simp
    ring

/-- the projective tangent line without division: `Z · ℓ(x', y') = −(2YZ·(Z·y' − Y) − 3X²·(Z·x' − X))` on the curve
    `Y²Z = X³ + b·Z³` — the right-hand side is the homogeneous tangent at `(X:Y:Z)` -/
theorem projDoubleLine_tangent {b X Y Z : K} (hon : Y ^ 2 * Z = X ^ 3 + b * Z ^ 3) (x' y' : K) :
    Z * ((projDoubleLine b X Y Z).1 * y' + (projDoubleLine b X Y Z).2.1 * x' + (projDoubleLine b X Y Z).2.2)
      = -(2 * Y * Z * (Z * y' - Y) - 3 * X ^ 2 * (Z * x' - X)) := by
  simp only [projDoubleLine]
  linear_combination (-3 : K) * hon

/-! ### mixed addition -/

/-- the affine addition step returns the chord point of `Proofs/Curve.lean` -/
theorem affAddStep_point (x1 y1 x2 y2 : K) : (affAddStep x1 y1 x2 y2).1 = chord x1 y1 x2 y2 := by
  simp only [affAddStep, chord, Prod.mk.injEq]
  constructor <;> ring

/-- mixed addition in homogeneous projective coordinates: for every representative of `(x1, y1)` and `x1 ≠ x2` the result
    represents the chord point, `Z3 = Z⁴·(x1 − x2)³` -/
theorem projAddMixed_rep {X Y Z x1 y1 x2 y2 : K} (hp : ProjRep X Y Z x1 y1) (hx : x1 ≠ x2) :
    ProjRep (projAddMixed X Y Z x2 y2).1 (projAddMixed X Y Z x2 y2).2.1 (projAddMixed X Y Z x2 y2).2.2
      (chord x1 y1 x2 y2).1 (chord x1 y1 x2 y2).2 := by
  obtain ⟨hz, rfl, rfl⟩ := hp
  have hd : x1 - x2 ≠ 0 := sub_ne_zero.mpr hx
  have hd' : x2 - x1 ≠ 0 := sub_ne_zero.mpr (Ne.symm hx)
  simp only [ProjRep, projAddMixed, chord]
  refine ⟨?_, ?_, ?_⟩
  · have : (x1 * Z - x2 * Z) * ((x1 * Z - x2 * Z) * (x1 * Z - x2 * Z)) * Z = Z ^ 4 * (x1 - x2) ^ 3 := by ring
    rw [this]
    exact mul_ne_zero (pow_ne_zero _ hz) (pow_ne_zero _ hd)
  · field_simp
    ring
  · field_simp
    ring

/-- the mixed-addition step in Mathlib's group of points (different abscissae) -/
theorem projAddMixed_group [DecidableEq K] {a b X Y Z x1 y1 x2 y2 : K} (h1 : (sw a b).Nonsingular x1 y1)
    (h2 : (sw a b).Nonsingular x2 y2) (hp : ProjRep X Y Z x1 y1) (hx : x1 ≠ x2) :
    ProjPt a b (projAddMixed X Y Z x2 y2).1 (projAddMixed X Y Z x2 y2).2.1 (projAddMixed X Y Z x2 y2).2.2
      (Affine.Point.some x1 y1 h1 + Affine.Point.some x2 y2 h2) := by
  obtain ⟨h3, hadd⟩ := C02_chord_is_group_add h1 h2 hx
  exact Or.inr ⟨_, _, h3, projAddMixed_rep hp hx, hadd⟩

/-- the projective chord line is `r0 · (1, −R0, R1)` where `(R0, R1)` is the affine (fixed-Q) chord line of `addStep`
    and `r0 = Z·(x1 − x2) ≠ 0` -/
theorem projAddLine_affine {X Y Z x1 y1 x2 y2 : K} (hp : ProjRep X Y Z x1 y1) (hx : x1 ≠ x2) :
    (projAddLine X Y Z x2 y2).1 = Z * (x1 - x2) ∧ (projAddLine X Y Z x2 y2).1 ≠ 0 ∧
    (projAddLine X Y Z x2 y2).2.1 = (projAddLine X Y Z x2 y2).1 * -(affAddStep x1 y1 x2 y2).2.1 ∧
    (projAddLine X Y Z x2 y2).2.2 = (projAddLine X Y Z x2 y2).1 * (affAddStep x1 y1 x2 y2).2.2 := by
  obtain ⟨hz, rfl, rfl⟩ := hp
  have hd : x1 - x2 ≠ 0 := sub_ne_zero.mpr hx
  have hd' : x2 - x1 ≠ 0 := sub_ne_zero.mpr (Ne.symm hx)
  have h0 : (projAddLine (x1 * Z) (y1 * Z) Z x2 y2).1 = Z * (x1 - x2) := by simp only [projAddLine]; ring
  refine ⟨h0, ?_, ?_, ?_⟩
  · rw [h0]; exact mul_ne_zero hz hd
  · simp only [projAddLine, affAddStep, affLine]
    field_simp
    ring
  · simp only [projAddLine, affAddStep, affLine]
    field_simp
    ring

/-- the projective chord line without division: `ℓ(x', y') = L·(y' − y2) − O·(x' − x2)` with `L = X − x2·Z`, `O = Y − y2·Z`
    (it vanishes at the affine point and, multiplied by `Z`, at `(X:Y:Z)`) -/
theorem projAddLine_chord (X Y Z x2 y2 x' y' : K) :
    (projAddLine X Y Z x2 y2).1 * y' + (projAddLine X Y Z x2 y2).2.1 * x' + (projAddLine X Y Z x2 y2).2.2
      = (X - x2 * Z) * (y' - y2) - (Y - y2 * Z) * (x' - x2) := by
  simp only [projAddLine]; ring

/-! ### double-and-add of the fixed-Q precomputation -/

/-- `doubleAndAddStep` = two chord steps `(P + Q) + P`: same point, same two lines (`x1 ≠ x2`, `x(P+Q) ≠ x1`) -/
theorem affDoubleAndAddStep_eq {x1 y1 x2 y2 : K} (hx : x1 ≠ x2) (hx3 : (chord x1 y1 x2 y2).1 ≠ x1) :
    (affDoubleAndAddStep x1 y1 x2 y2).1 = chord (chord x1 y1 x2 y2).1 (chord x1 y1 x2 y2).2 x1 y1 ∧
    (affDoubleAndAddStep x1 y1 x2 y2).2.1 = (affAddStep x1 y1 x2 y2).2 ∧
    (affDoubleAndAddStep x1 y1 x2 y2).2.2 = (affAddStep (chord x1 y1 x2 y2).1 (chord x1 y1 x2 y2).2 x1 y1).2 := by
  have hd : x1 - x2 ≠ 0 := sub_ne_zero.mpr hx
  have hd' : x2 - x1 ≠ 0 := sub_ne_zero.mpr (Ne.symm hx)
  have hl : (y1 - y2) / (x1 - x2) = (y2 - y1) / (x2 - x1) := by field_simp; ring
  have h3 : (chord x1 y1 x2 y2).1 = ((y2 - y1) / (x2 - x1)) ^ 2 - x1 - x2 := rfl
  have h3y : (chord x1 y1 x2 y2).2 = (y2 - y1) / (x2 - x1) * (x1 - (((y2 - y1) / (x2 - x1)) ^ 2 - x1 - x2)) - y1 := rfl
  generalize hx3e : (chord x1 y1 x2 y2).1 = x3 at hx3 h3 ⊢
  generalize (chord x1 y1 x2 y2).2 = y3 at h3y ⊢
  have he : x3 - x1 ≠ 0 := sub_ne_zero.mpr hx3
  have he' : x1 - x3 ≠ 0 := sub_ne_zero.mpr (Ne.symm hx3)
  have hx3' : ((y1 - y2) / (x1 - x2)) * ((y1 - y2) / (x1 - x2)) - x1 - x2 = x3 := by rw [hl, h3]; ring
  -- the second slope: −λ1 − 2y1/(x3 − x1) = (y1 − y3)/(x1 − x3)
  have hl2 : -((y1 + y1) / (x3 - x1) + (y1 - y2) / (x1 - x2)) = (y1 - y3) / (x1 - x3) := by
    rw [hl, h3y, ← h3]
    field_simp
    ring
  simp only [affDoubleAndAddStep, affAddStep, affLine, chord, hx3', hl2]
  refine ⟨?_, ?_, ?_⟩
  · rw [Prod.mk.injEq]
    constructor
    · ring
    · field_simp
      ring
  · rw [hl]
  · rw [Prod.mk.injEq]
    refine ⟨rfl, ?_⟩
    field_simp
    ring

end steps

/-! ## PART B — exponent bookkeeping in an abstract commutative group -/
section expo
variable {E G : Type} [CommGroup G]

/-- interpretation of GT elements in an abstract commutative group, and the predicate "in the cyclotomic subgroup" -/
structure CycInterp (E G : Type) where
  ι : E → G
  Cyc : E → Prop

namespace CycInterp
variable (I : CycInterp E G)

/-- `f` is the product on the cyclotomic subgroup -/
def IsMul (f : E → E → E) : Prop := ∀ a b, I.Cyc a → I.Cyc b → I.Cyc (f a b) ∧ I.ι (f a b) = I.ι a * I.ι b
/-- `f` is `x ↦ x^k` on the cyclotomic subgroup -/
def IsPowMap (f : E → E) (k : ℤ) : Prop := ∀ a, I.Cyc a → I.Cyc (f a) ∧ I.ι (f a) = I.ι a ^ k

/-- `x` is cyclotomic and its image is `g ^ m` -/
def Pow (g : G) (x : E) (m : ℤ) : Prop := I.Cyc x ∧ I.ι x = g ^ m

variable {I}

theorem Pow.base {x : E} (h : I.Cyc x) : I.Pow (I.ι x) x 1 := ⟨h, (zpow_one _).symm⟩

theorem Pow.mul {f : E → E → E} (hf : I.IsMul f) {g : G} {a b : E} {m n : ℤ} (ha : I.Pow g a m) (hb : I.Pow g b n) :
    I.Pow g (f a b) (m + n) := by
  obtain ⟨hc, he⟩ := hf a b ha.1 hb.1
  exact ⟨hc, by rw [he, ha.2, hb.2, zpow_add]⟩

theorem Pow.map {f : E → E} {k : ℤ} (hf : I.IsPowMap f k) {g : G} {a : E} {m : ℤ} (ha : I.Pow g a m) :
    I.Pow g (f a) (k * m) := by
  obtain ⟨hc, he⟩ := hf a ha.1
  exact ⟨hc, by rw [he, ha.2, ← zpow_mul, mul_comm]⟩

theorem Pow.cast {g : G} {a : E} {m n : ℤ} (ha : I.Pow g a m) (h : m = n) : I.Pow g a n := h ▸ ha

theorem IsPowMap.iterate {f : E → E} {k : ℤ} (hf : I.IsPowMap f k) (n : ℕ) : I.IsPowMap (fun a => Nat.repeat f n a) (k ^ n) := by
  induction n with
  | zero => intro a ha; exact ⟨ha, by simp [Nat.repeat]⟩
  | succ n ih =>
    intro a ha
    obtain ⟨hc, he⟩ := ih a ha
    obtain ⟨hc', he'⟩ := hf _ hc
    exact ⟨hc', by simp only [Nat.repeat]; rw [he', he, ← zpow_mul, pow_succ]⟩

/-- exponents only matter modulo a multiple of the order: `g ^ Φ = 1 → E ≡ E' (mod Φ) → g ^ E = g ^ E'` -/
theorem zpow_congr_of_pow_eq_one {g : G} {Φ : ℤ} (hg : g ^ Φ = 1) {a b : ℤ} (h : a % Φ = b % Φ) : g ^ a = g ^ b := by
  have key : ∀ c : ℤ, g ^ c = g ^ (c % Φ) := fun c => by
    conv_lhs => rw [← Int.emod_add_mul_ediv c Φ]
    rw [zpow_add, zpow_mul, hg, one_zpow, mul_one]
  rw [key a, key b, h]

end CycInterp
end expo

end GV.PairingGen
