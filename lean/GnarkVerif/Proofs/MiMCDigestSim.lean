import GnarkVerif.Proofs.MiMCDigestGen
/-
Simulation ("free theorem") for the generated digest methods of Gen/Imp/Mimc_bn254.lean: when the parameters over an arbitrary
element type F and the parameters over ℕ are related through a value map `val : F → ℕ` (`Sim`), every generated method over F,
mapped through `dmap val`, is the same method over ℕ.  Used by Props/C14_mimc_gen to state the refinement of Model/MiMC for an
abstract element type (and for F = ZMod q with the translated `encrypt` of Gen/Hash as the `encrypt` parameter).
-/
set_option linter.unusedSimpArgs false
set_option linter.unusedVariables false
namespace GV.MiMC.DigestGen
open GV.GoImp GV.Gen.Imp GV.Gen.Imp.Mimc_bn254

variable {F BO : Type} [Inhabited F]

/-- a generated hasher over F read through `val` -/
def dmap (val : F → Nat) (d : digest F BO) : digest Nat BO :=
  { h := val d.h, data := d.data.map val, byteOrder := d.byteOrder }

/-- the parameters over F and over ℕ correspond through `val` (errors of `SetBytesCanonical` only up to nil / non-nil: SetState
replaces them by its own message) -/
structure Sim (val : F → Nat) (X : Prims F BO) (XN : Prims Nat BO) : Prop where
  dflt : val default = 0
  zero : val X.fZero = XN.fZero
  add : ∀ a b, val (X.fAdd a b) = XN.fAdd (val a) (val b)
  enc : ∀ k m, val (X.encrypt k m) = XN.encrypt (val k) (val m)
  dec : ∀ bo blk, XN.boElement bo blk = (val (X.boElement bo blk).1, (X.boElement bo blk).2)
  bytes : ∀ x, X.fBytes x = XN.fBytes (val x)
  set : ∀ z buf, (XN.fSet (val z) buf).1 = val (X.fSet z buf).1 ∧
    ((XN.fSet (val z) buf).2 = Err.nil ↔ (X.fSet z buf).2 = Err.nil)
  hash : ∀ a b n, XN.frHash a b n = ((X.frHash a b n).1.map val, (X.frHash a b n).2)
  be : XN.frBE = X.frBE
  bs : XN.BS = X.BS

section
variable {val : F → Nat} {X : Prims F BO} {XN : Prims Nat BO} (hs : Sim val X XN)
include hs

theorem index_map (xs : List F) (i : Int) : index (xs.map val) i = val (index xs i) := by
  simp only [index, List.getD_eq_getElem?_getD, List.getElem?_map]
  cases xs[i.toNat]? with
  | none => simp [hs.dflt]
  | some x => simp

theorem sim_reset (d : digest F BO) :
    dmap val (Mimc_bn254.Reset X.fZero X.fAdd X.encrypt X.boElement X.fBytes X.fSet X.frHash X.frBE X.BS d) =
      Mimc_bn254.Reset XN.fZero XN.fAdd XN.encrypt XN.boElement XN.fBytes XN.fSet XN.frHash XN.frBE XN.BS (dmap val d) := by
  simp [Mimc_bn254.Reset, dmap, subslice, hs.zero]

theorem sim_checksum_loop (l : List Nat) : ∀ d : digest F BO,
    dmap val (checksum.loop1 X.fZero X.fAdd X.encrypt X.boElement X.fBytes X.fSet X.frHash X.frBE X.BS l d) =
      checksum.loop1 XN.fZero XN.fAdd XN.encrypt XN.boElement XN.fBytes XN.fSet XN.frHash XN.frBE XN.BS l (dmap val d) := by
  induction l with
  | nil => intro d; rfl
  | cons i l ih =>
    intro d
    simp only [checksum.loop1]
    rw [ih]
    congr 1
    simp [dmap, hs.add, hs.enc, index_map hs]

theorem sim_checksum (d : digest F BO) :
    (checksum XN.fZero XN.fAdd XN.encrypt XN.boElement XN.fBytes XN.fSet XN.frHash XN.frBE XN.BS (dmap val d)) =
      (dmap val (checksum X.fZero X.fAdd X.encrypt X.boElement X.fBytes X.fSet X.frHash X.frBE X.BS d).1,
        val (checksum X.fZero X.fAdd X.encrypt X.boElement X.fBytes X.fSet X.frHash X.frBE X.BS d).2) := by
  simp only [checksum]
  have : (dmap val d).data.length = d.data.length := by simp [dmap]
  rw [this, ← sim_checksum_loop hs]
  rfl

theorem sim_sum (d : digest F BO) (b : Bytes) :
    (Mimc_bn254.Sum XN.fZero XN.fAdd XN.encrypt XN.boElement XN.fBytes XN.fSet XN.frHash XN.frBE XN.BS (dmap val d) b) =
      (dmap val (Mimc_bn254.Sum X.fZero X.fAdd X.encrypt X.boElement X.fBytes X.fSet X.frHash X.frBE X.BS d b).1,
        (Mimc_bn254.Sum X.fZero X.fAdd X.encrypt X.boElement X.fBytes X.fSet X.frHash X.frBE X.BS d b).2) := by
  simp only [Mimc_bn254.Sum, sim_checksum hs]
  simp [dmap, hs.bytes]

theorem sim_state (d : digest F BO) :
    (Mimc_bn254.State XN.fZero XN.fAdd XN.encrypt XN.boElement XN.fBytes XN.fSet XN.frHash XN.frBE XN.BS (dmap val d)) =
      (dmap val (Mimc_bn254.State X.fZero X.fAdd X.encrypt X.boElement X.fBytes X.fSet X.frHash X.frBE X.BS d).1,
        (Mimc_bn254.State X.fZero X.fAdd X.encrypt X.boElement X.fBytes X.fSet X.frHash X.frBE X.BS d).2) := by
  simp only [Mimc_bn254.State, sim_sum hs]
  simp [dmap, hs.bytes]

theorem sim_write_loop (d : digest F BO) (p : Bytes) : ∀ (fuel : Nat) (elems : List F) (start : Int),
    Write.loop1 XN.fZero XN.fAdd XN.encrypt XN.boElement XN.fBytes XN.fSet XN.frHash XN.frBE XN.BS (dmap val d) p fuel
        (elems.map val) start =
      ((((Write.loop1 X.fZero X.fAdd X.encrypt X.boElement X.fBytes X.fSet X.frHash X.frBE X.BS d p fuel elems start).1.1).map val,
        (Write.loop1 X.fZero X.fAdd X.encrypt X.boElement X.fBytes X.fSet X.frHash X.frBE X.BS d p fuel elems start).1.2),
        (Write.loop1 X.fZero X.fAdd X.encrypt X.boElement X.fBytes X.fSet X.frHash X.frBE X.BS d p fuel elems start).2) := by
  rw [hs.bs]
  intro fuel
  induction fuel with
  | zero => intro elems start; rfl
  | succ fuel ih =>
    intro elems start
    simp only [Write.loop1]
    by_cases hc : decide (start < len p) = true
    · simp only [hc, if_true, hs.dec]
      have hbo : (dmap val d).byteOrder = d.byteOrder := rfl
      rw [hbo]
      by_cases he : ((X.boElement d.byteOrder (arrayPtr X.BS (subslice p start (start + X.BS)))).2 != Err.nil) = true
      · simp [he]
      · simp only [he, if_false, Bool.false_eq_true]
        have := ih (elems ++ [(X.boElement d.byteOrder (arrayPtr X.BS (subslice p start (start + X.BS)))).1]) (start + X.BS)
        simp only [List.map_append, List.map_cons, List.map_nil] at this
        rw [this]
    · simp [hc]

theorem sim_write (d : digest F BO) (p : Bytes) :
    (Mimc_bn254.Write XN.fZero XN.fAdd XN.encrypt XN.boElement XN.fBytes XN.fSet XN.frHash XN.frBE XN.BS (dmap val d) p) =
      (dmap val (Mimc_bn254.Write X.fZero X.fAdd X.encrypt X.boElement X.fBytes X.fSet X.frHash X.frBE X.BS d p).1,
        (Mimc_bn254.Write X.fZero X.fAdd X.encrypt X.boElement X.fBytes X.fSet X.frHash X.frBE X.BS d p).2) := by
  simp only [Mimc_bn254.Write, hs.bs]
  generalize (if (decide (len p > 0) && decide (len p < X.BS)) = true then
    copyAt (makeBytes X.BS) (len (makeBytes X.BS) - len p) (len (makeBytes X.BS)) p else p) = pp
  by_cases hm : ((len pp).tmod X.BS != 0) = true
  · simp only [hm, if_true]
  · simp only [hm, if_false, Bool.false_eq_true]
    have := sim_write_loop hs d pp ((len pp) - 0).toNat [] 0
    simp only [List.map_nil, hs.bs] at this
    rw [this]
    rcases Write.loop1 X.fZero X.fAdd X.encrypt X.boElement X.fBytes X.fSet X.frHash X.frBE X.BS d pp
      ((len pp) - 0).toNat [] 0 with ⟨⟨e, s⟩, _ | r⟩
    · simp [dmap]
    · simp [dmap]

theorem sim_setStateN (n : Int) (msg : String) (d : digest F BO) (st : Bytes) :
    SetStateN XN.fSet n msg (dmap val d) st =
      (dmap val (SetStateN X.fSet n msg d st).1, (SetStateN X.fSet n msg d st).2) := by
  obtain ⟨h1, h2⟩ := hs.set d.h st
  have hh : (dmap val d).h = val d.h := rfl
  rcases hx : X.fSet d.h st with ⟨z, e⟩
  rcases hn : XN.fSet (val d.h) st with ⟨zn, en⟩
  rw [hx, hn] at h1 h2
  simp only at h1 h2
  subst h1
  by_cases hl : ((len st) != n) = true
  · simp only [SetStateN, hl, if_true]
  · by_cases he : e = Err.nil
    · have : en = Err.nil := h2.mpr he
      subst he; subst this
      simp [SetStateN, hl, hh, hx, hn, dmap]
    · have hen : en ≠ Err.nil := fun h => he (h2.mp h)
      have b1 : (e != Err.nil) = true := by simpa using he
      have b2 : (en != Err.nil) = true := by simpa using hen
      simp [SetStateN, hl, hh, hx, hn, b1, b2, dmap]

theorem sim_writeString (d : digest F BO) (raw : Bytes) :
    Mimc_bn254.WriteString XN.fZero XN.fAdd XN.encrypt XN.boElement XN.fBytes XN.fSet XN.frHash XN.frBE XN.BS (dmap val d) raw =
      (dmap val (Mimc_bn254.WriteString X.fZero X.fAdd X.encrypt X.boElement X.fBytes X.fSet X.frHash X.frBE X.BS d raw).1,
        (Mimc_bn254.WriteString X.fZero X.fAdd X.encrypt X.boElement X.fBytes X.fSet X.frHash X.frBE X.BS d raw).2) := by
  rcases hx : X.frHash raw [115, 116, 114, 105, 110, 103, 58] 1 with ⟨xs, e⟩
  by_cases he : (e != Err.nil) = true
  · simp [Mimc_bn254.WriteString, hs.hash, hx, he]
  · simp [Mimc_bn254.WriteString, hs.hash, hx, he, dmap, index_map hs]

theorem sim_pkgSum (msg : Bytes) :
    Mimc_bn254.pkgSum XN.fZero XN.fAdd XN.encrypt XN.boElement XN.fBytes XN.fSet XN.frHash XN.frBE XN.BS msg =
      Mimc_bn254.pkgSum X.fZero X.fAdd X.encrypt X.boElement X.fBytes X.fSet X.frHash X.frBE X.BS msg := by
  have h0 : ({ h := XN.fZero, data := [], byteOrder := XN.frBE } : digest Nat BO) =
      dmap val ({ h := X.fZero, data := [], byteOrder := X.frBE } : digest F BO) := by
    simp [dmap, hs.zero, hs.be]
  rcases hw : Mimc_bn254.Write X.fZero X.fAdd X.encrypt X.boElement X.fBytes X.fSet X.frHash X.frBE X.BS
    { h := X.fZero, data := [], byteOrder := X.frBE } msg with ⟨d1, n1, e1⟩
  by_cases he : (e1 != Err.nil) = true
  · simp [Mimc_bn254.pkgSum, h0, sim_write hs, sim_checksum hs, hw, he]
  · simp [Mimc_bn254.pkgSum, h0, sim_write hs, sim_checksum hs, hw, he, hs.bytes]

/-- **simulation of one call** -/
theorem sim_gstep (n : Int) (msg : String) (d : digest F BO) (op : Op) :
    gstep (refMethods XN n msg) (dmap val d) op =
      (dmap val (gstep (refMethods X n msg) d op).1, (gstep (refMethods X n msg) d op).2) := by
  cases op with
  | write p => simp only [gstep, refMethods, sim_write hs]
  | sum b => simp only [gstep, refMethods, sim_sum hs]
  | reset => simp only [gstep, refMethods, sim_reset hs]
  | state => simp only [gstep, refMethods, sim_state hs]
  | setState st => simp only [gstep, refMethods, sim_setStateN hs]

/-- **simulation of every history** -/
theorem sim_grun (n : Int) (msg : String) (ops : List Op) : ∀ d : digest F BO,
    grun (refMethods XN n msg) (dmap val d) ops =
      (dmap val (grun (refMethods X n msg) d ops).1, (grun (refMethods X n msg) d ops).2) := by
  induction ops with
  | nil => intro d; rfl
  | cons op ops ih =>
    intro d
    simp only [grun, sim_gstep hs, ih]

end

/-! ### hypotheses at the level of the abstract element type, and the ℕ-level parameters they induce -/

/-- what is assumed of the parameters of the generated defs over an ABSTRACT element type F whose elements are read as reduced
residues through `val` (for F = the Montgomery-form `fr.Element`: `val` = the canonical representative) -/
structure ParamsOKF (P : Params) (val : F → Nat) (bo : BO) (X : Prims F BO) : Prop where
  size_pos : 0 < P.size
  q_pos : 0 < P.q
  blockSize : X.BS = (P.size : Int)
  dflt : val default = 0
  val_lt : ∀ x, val x < P.q
  zero : val X.fZero = 0
  add : ∀ a b, val (X.fAdd a b) = (val a + val b) % P.q
  enc : ∀ k m, val (X.encrypt k m) = MiMC.encrypt P (val k) (val m)
  dec_ok : ∀ blk, blk.length = P.size → decBlock P blk < P.q →
    val (X.boElement bo blk).1 = decBlock P blk ∧ (X.boElement bo blk).2 = Err.nil
  dec_err : ∀ blk, blk.length = P.size → ¬ decBlock P blk < P.q → (X.boElement bo blk).2 ≠ Err.nil
  bytes : ∀ x, X.fBytes x = encBE P.size (val x)
  set_ok : ∀ z buf, buf.length = P.size → beToNat buf < P.q →
    val (X.fSet z buf).1 = beToNat buf ∧ (X.fSet z buf).2 = Err.nil
  set_err : ∀ z buf, ¬ (buf.length = P.size ∧ beToNat buf < P.q) → (X.fSet z buf).1 = z ∧ (X.fSet z buf).2 ≠ Err.nil

/-- the ℕ-level parameters induced by F-level ones -/
def natPrims (P : Params) (val : F → Nat) (X : Prims F BO) : Prims Nat BO where
  fZero := 0
  fAdd a b := (a + b) % P.q
  encrypt := MiMC.encrypt P
  boElement bo blk := (val (X.boElement bo blk).1, (X.boElement bo blk).2)
  fBytes := encBE P.size
  fSet z buf := if buf.length = P.size ∧ beToNat buf < P.q then (beToNat buf, Err.nil)
    else (z, Err.sentinel "invalid fr.Element encoding")
  frHash a b n := ((X.frHash a b n).1.map val, (X.frHash a b n).2)
  frBE := X.frBE
  BS := X.BS

theorem natPrims_sim {P : Params} {val : F → Nat} {bo : BO} {X : Prims F BO} (h : ParamsOKF P val bo X) :
    Sim val X (natPrims P val X) where
  dflt := h.dflt
  zero := h.zero
  add := h.add
  enc := h.enc
  dec _ _ := rfl
  bytes := h.bytes
  set z buf := by
    by_cases hc : buf.length = P.size ∧ beToNat buf < P.q
    · obtain ⟨h1, h2⟩ := h.set_ok z buf hc.1 hc.2
      simp [natPrims, hc, h1, h2]
    · obtain ⟨h1, h2⟩ := h.set_err z buf hc
      simp [natPrims, hc, h1, h2]
  hash _ _ _ := rfl
  be := rfl
  bs := rfl

theorem natPrims_ok {P : Params} {val : F → Nat} {bo : BO} {X : Prims F BO} (h : ParamsOKF P val bo X) :
    OK P bo (natPrims P val X) where
  size_pos := h.size_pos
  q_pos := h.q_pos
  blockSize := h.blockSize
  zero := rfl
  add _ _ := rfl
  enc _ _ := rfl
  dec_ok blk hl hv := by
    obtain ⟨h1, h2⟩ := h.dec_ok blk hl hv
    simp [natPrims, h1, h2]
  dec_err blk hl hv := by simpa [natPrims] using h.dec_err blk hl hv
  bytes _ _ := rfl
  set_ok z buf hl hv := by simp [natPrims, hl, hv]
  set_err z buf hl hv := by simp [natPrims, hl, hv]

end GV.MiMC.DigestGen
