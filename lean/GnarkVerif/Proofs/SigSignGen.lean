import GnarkVerif.Proofs.SigGen
import GnarkVerif.Proofs.Sig
/-
C12 tie T, EdDSA signature codec, generic part. The generated `Signature.SetBytes` of the 8 eddsa packages
(`Gen/Verifier/EddsaSig_<curve>.lean`, tools/goslp/slpsign.go) has the same text up to the byte size of a field element, the modulus
of the field of definition and the number of iterations of the byte-reversal loop. The TEMPLATE below is that text with the size and
the modulus as parameters (the unrolled loop is `revFill`); `Props/C12_sign_gen.lean` proves `generated = template` by `rfl`, and
`edSigSetBytesT_spec` is proved here once: with ANY point type `G` whose decoder / on-curve test are related to the model's
(`φ (dec b) = P.decompress sq b`, `onC X = P.onCurve (φ X)`) the template answers exactly what `EdParams.sigParse` answers.
-/
set_option linter.unusedVariables false
namespace GV.SigSignGen
open GV GV.Sig GV.Gen.Verifier GV.SigGen

/-- the first `k` iterations of `for i := 0; i < n; i++ { dst[n-1-i] = buf[i] }` -/
def revFill : Nat → Nat → List UInt8 → List UInt8 → List UInt8
  | 0, _, dst, _ => dst
  | k + 1, n, dst, buf => (revFill k n dst buf).set (n - 1 - k) (buf.getD k (0 : UInt8))

/-- TEMPLATE of the generated eddsa `Signature_SetBytes` -/
def edSigSetBytesT {G Fp : Type} [Add G] [Sub G] [Neg G] [Zero G] [SMul Int G] [Add Fp] [Sub Fp] [Mul Fp] [Inv Fp] [Zero Fp] [BEq Fp] (sz : Nat) (frModulus : Int)
    (edA : Fp) (edD : Fp) (edCofactor : Fp) (edOrder : Int) (edBase : G) (pointSetBytes : List UInt8 → G) (pointSetBytesErr : List UInt8 → Res) (isOnCurve : G → Bool) (sig_R : G) (sig_S : List UInt8) (buf : List UInt8) : Int × Res × G × List UInt8 :=
  if ((Int.ofNat buf.length) != ((2 * sz : Nat) : Int)) then
    ((0 : Int), (Res.err "errWrongSize"), sig_R, sig_S)
  else
    let bufCopy_v33 : List UInt8 := revFill sz sz (List.replicate sz (0 : UInt8)) buf
    let bufCopy_v34 : List UInt8 := bufCopy_v33.set 0 (bufCopy_v33.getD 0 (0 : UInt8) &&& (127 : UInt8))
    let bufBigInt_v1 : Int := Int.ofNat (GV.beToNat bufCopy_v34)
    if ((cmpInt bufBigInt_v1 (0 : Int)) == (0 : Int)) then
      ((0 : Int), (Res.err "errZero"), sig_R, sig_S)
    else
      if ((cmpInt bufBigInt_v1 frModulus) != (-1 : Int)) then
        ((0 : Int), (Res.err "errRBiggerThanPMod"), sig_R, sig_S)
      else
        let bufBigInt_v2 : Int := Int.ofNat (GV.beToNat ((buf.drop sz).take sz))
        if ((cmpInt bufBigInt_v2 (0 : Int)) == (0 : Int)) then
          ((0 : Int), (Res.err "errZero"), sig_R, sig_S)
        else
          let cp_A_v1 : Fp := edA
          let cp_D_v1 : Fp := edD
          let cp_Cofactor_v1 : Fp := edCofactor
          let cp_Order_v1 : Int := edOrder
          let cp_Base_v1 : G := edBase
          if ((cmpInt bufBigInt_v2 cp_Order_v1) != (-1 : Int)) then
            ((0 : Int), (Res.err "errSBiggerThanRMod"), sig_R, sig_S)
          else
            let sig_R_v1 : G := pointSetBytes (buf.take sz)
            if ((pointSetBytesErr (buf.take sz)) != Res.ok) then
              ((0 : Int), (pointSetBytesErr (buf.take sz)), sig_R_v1, sig_S)
            else
              if (!isOnCurve sig_R_v1) then
                ((sz : Int), (Res.err "errNotOnCurve"), sig_R_v1, sig_S)
              else
                let sig_S_v1 : List UInt8 := copyBytes sig_S ((buf.drop sz).take sz)
                (((2 * sz : Nat) : Int), Res.ok, sig_R_v1, sig_S_v1)

/-! ### the byte-reversal loop -/

theorem revFill_length (k n : Nat) (dst buf : List UInt8) : (revFill k n dst buf).length = dst.length := by
  induction k with
  | zero => rfl
  | succ k ih => simp [revFill, ih]

theorem revFill_getElem? (k n : Nat) (dst buf : List UInt8) (hd : dst.length = n) (hk : k ≤ n) (hb : n ≤ buf.length) (j : Nat) :
    (revFill k n dst buf)[j]? = if j < n ∧ n - 1 - j < k then buf[n - 1 - j]? else dst[j]? := by
  induction k with
  | zero => simp [revFill]
  | succ k ih =>
    have ih' := ih (by omega)
    simp only [revFill, List.getElem?_set, revFill_length, hd]
    by_cases hj : n - 1 - k = j
    · have e : n - 1 - j = k := by omega
      have hk' : k < buf.length := by omega
      have c1 : n - 1 - k < n := by omega
      have c2 : j < n ∧ n - 1 - j < k + 1 := by omega
      simp only [hj, if_true, c2, e]
      have : j < n := c2.1
      simp [List.getD_eq_getElem?_getD, List.getElem?_eq_getElem hk']
    · rw [if_neg hj, ih']
      by_cases c : j < n ∧ n - 1 - j < k
      · have c2 : j < n ∧ n - 1 - j < k + 1 := by omega
        rw [if_pos c, if_pos c2]
      · have c2 : ¬ (j < n ∧ n - 1 - j < k + 1) := by omega
        rw [if_neg c, if_neg c2]

/-- the whole loop on a zeroed buffer: the first `n` bytes of `buf`, reversed -/
theorem revFill_full (n : Nat) (buf : List UInt8) (hb : n ≤ buf.length) :
    revFill n n (List.replicate n (0 : UInt8)) buf = (buf.take n).reverse := by
  apply List.ext_getElem?
  intro j
  rw [revFill_getElem? n n _ buf (by simp) (Nat.le_refl _) hb j]
  have hl : (buf.take n).length = n := by simp; omega
  by_cases hj : j < n
  · have c : j < n ∧ n - 1 - j < n := by omega
    rw [if_pos c, List.getElem?_reverse (by omega), hl, List.getElem?_take]
    simp; omega
  · have c : ¬ (j < n ∧ n - 1 - j < n) := by omega
    rw [if_neg c]
    rw [List.getElem?_eq_none (by simp; omega), List.getElem?_eq_none (by simp; omega)]

/-! ### clearing the top bit of the first (most significant) byte -/

theorem and127 (b : UInt8) : (b &&& (127 : UInt8)).toNat = b.toNat % 128 := by
  rw [UInt8.toNat_and]
  exact Nat.and_two_pow_sub_one_eq_mod b.toNat 7

theorem beToNat_unmask (L : List UInt8) (n : Nat) (hn : 0 < n) (hl : L.length = n) :
    GV.beToNat (L.set 0 (L.getD 0 (0 : UInt8) &&& (127 : UInt8))) = GV.beToNat L % 2 ^ (8 * n - 1) := by
  cases L with
  | nil => simp at hl; omega
  | cons b t =>
    simp only [List.set_cons_zero, List.getD_cons_zero]
    rw [beToNat_cons, beToNat_cons, and127]
    have ht : t.length = n - 1 := by simp at hl; omega
    have hr := beToNat_lt t
    have e : 2 ^ (8 * n - 1) = 128 * 256 ^ t.length := by
      have : 8 * n - 1 = 7 + 8 * t.length := by omega
      rw [this, pow_add, pow_mul]; norm_num
    rw [e]
    have hp : 0 < 256 ^ t.length := by positivity
    have hb := Nat.div_add_mod b.toNat 128
    have hm : b.toNat % 128 < 128 := Nat.mod_lt _ (by norm_num)
    have e2 : b.toNat * 256 ^ t.length + GV.beToNat t
        = (b.toNat % 128 * 256 ^ t.length + GV.beToNat t) + 128 * 256 ^ t.length * (b.toNat / 128) := by
      conv_lhs => rw [← hb]
      ring
    rw [e2, Nat.add_mul_mod_self_left]
    have h := Nat.mul_le_mul_right (256 ^ t.length) (show b.toNat % 128 + 1 ≤ 128 by omega)
    rw [Nat.add_mul, Nat.one_mul] at h
    exact (Nat.mod_eq_of_lt (by linarith)).symm

/-! ### the specification -/

/-- the Go error names of the eddsa codec -/
def edErrName : Err → String
  | .wrongSize => "errWrongSize" | .zero => "errZero" | .rBig => "errRBiggerThanPMod" | .sBig => "errSBiggerThanRMod"
  | .notOnCurve => "errNotOnCurve" | e => e.str

/-- what `Signature.SetBytes` answers according to the model's `sigParse`: (n, err, sig.R, sig.S). On `errNotOnCurve` the Go code
reports `sizeFr` bytes read and has already overwritten `sig.R`; when `sig.R.SetBytes` fails (no abscissa: `noSqrt`) its own error is
handed on (n = 0) and `sig.R` is whatever the failed call left; on every other error nothing was written. -/
def edSigExpected {G : Type} (P : EdParams) (sq : Nat → Option Nat) (dec : Bytes → G) (decErr : Bytes → Res) (R0 : G) (s0 buf : Bytes) : Int × Res × G × Bytes :=
  match P.sigParse sq buf with
  | .error .notOnCurve => ((P.size : Int), Res.err "errNotOnCurve", dec (buf.take P.size), s0)
  | .error .noSqrt => ((0 : Int), decErr (buf.take P.size), dec (buf.take P.size), s0)
  | .error e => ((0 : Int), Res.err (edErrName e), R0, s0)
  | .ok (k, _, _) => ((k : Nat), Res.ok, dec (buf.take P.size), buf.drop P.size)

theorem decompress_take (P : EdParams) (sq : Nat → Option Nat) (buf : Bytes) :
    P.decompress sq (buf.take P.size) = P.decompress sq buf := by
  simp [EdParams.decompress, EdParams.yRaw, EdParams.signBit, List.take_take]

theorem hasX_take (P : EdParams) (sq : Nat → Option Nat) (buf : Bytes) :
    P.hasX sq (buf.take P.size) = P.hasX sq buf := by
  simp [EdParams.hasX, EdParams.yRaw, List.take_take]

theorem edSigSetBytesT_spec {G Fp : Type} [Add G] [Sub G] [Neg G] [Zero G] [SMul Int G] [Add Fp] [Sub Fp] [Mul Fp] [Inv Fp] [Zero Fp] [BEq Fp]
    (P : EdParams) (hsz : 0 < P.size) (sq : Nat → Option Nat) (edA edD edCofactor : Fp) (edBase : G)
    (dec : Bytes → G) (decErr : Bytes → Res) (onC : G → Bool) (φ : G → Nat × Nat)
    (hdec : ∀ b, φ (dec b) = P.decompress sq b) (honC : ∀ X, onC X = P.onCurve (φ X))
    (herr : ∀ b : Bytes, b.length = P.size → (decErr b = Res.ok ↔ P.hasX sq b = true)) (R0 : G) (s0 buf : Bytes) (hs : s0.length = P.size) :
    edSigSetBytesT P.size (P.q : Int) edA edD edCofactor (P.order : Int) edBase dec decErr onC R0 s0 buf
      = edSigExpected P sq dec decErr R0 s0 buf := by
  unfold edSigSetBytesT edSigExpected EdParams.sigParse
  simp only [cmpInt_eq_zero, cmpInt_ne_neg_one, ofNat_bne]
  by_cases hl : buf.length = 2 * P.size
  · have e1 : (buf.drop P.size).take P.size = buf.drop P.size := by
      apply List.take_of_length_le; simp [hl]; omega
    have l1 : (buf.take P.size).length = P.size := by simp [hl]; omega
    have l2 : (buf.drop P.size).length = P.size := by simp [hl]; omega
    have hy : GV.beToNat ((revFill P.size P.size (List.replicate P.size (0 : UInt8)) buf).set 0
        ((revFill P.size P.size (List.replicate P.size (0 : UInt8)) buf).getD 0 (0 : UInt8) &&& (127 : UInt8))) = P.yRaw buf := by
      rw [revFill_full P.size buf (by omega), beToNat_unmask _ P.size hsz (by simp [l1])]
      rfl
    have hR : P.onCurve (P.decompress sq buf) = onC (dec (buf.take P.size)) := by
      rw [honC, hdec, decompress_take]
    rw [e1, hy]
    have hE := herr _ l1
    rw [hasX_take] at hE
    simp only [hl, ne_eq, not_true_eq_false, decide_false, Bool.false_eq_true, if_false]
    by_cases h1 : P.yRaw buf = 0
    · simp [h1, edErrName]
    · by_cases h2 : P.yRaw buf < P.q
      · by_cases h3 : beToNat (buf.drop P.size) = 0
        · simp [h1, h2, h3, edErrName]
        · by_cases h4 : beToNat (buf.drop P.size) < P.order
          · by_cases h6 : P.hasX sq buf = true
            · have h7 := hE.2 h6
              by_cases h5 : onC (dec (buf.take P.size)) = true
              · simp [h1, h2, h3, h4, h5, h6, h7, hR, copyBytes_eq, hs, l2]
              · simp [h1, h2, h3, h4, h5, h6, h7, hR]
            · have h7 : ¬ decErr (buf.take P.size) = Res.ok := fun c => h6 (hE.1 c)
              simp [h1, h2, h3, h4, h6, h7]
          · simp [h1, h2, h3, h4, edErrName]
      · simp [h1, h2, edErrName]
  · simp [hl, edErrName]

/-- what an accepted parse returns, in the model's terms -/
theorem edSigParse_ok (P : EdParams) (sq : Nat → Option Nat) (buf : Bytes) (k : Nat) (R : Nat × Nat) (s : Nat)
    (h : P.sigParse sq buf = .ok (k, R, s)) :
    buf.length = 2 * P.size ∧ k = 2 * P.size ∧ R = P.decompress sq buf ∧ s = beToNat ((buf.drop P.size).take P.size) ∧
      0 < P.yRaw buf ∧ P.yRaw buf < P.q ∧ 0 < s ∧ s < P.order ∧ P.onCurve R = true := by
  unfold EdParams.sigParse at h
  simp only [] at h
  split_ifs at h with h1 h2 h3 h4 h5 h7 h6
  simp only [Except.ok.injEq, Prod.mk.injEq] at h
  obtain ⟨rfl, rfl, rfl⟩ := h
  simp at h1 h6
  refine ⟨h1, rfl, rfl, rfl, by omega, by omega, by omega, by omega, h6⟩

/-- accepted signatures: the generated code returns exactly (2·size, nil), `sig.R` = the decoded point (the model's R under `φ`),
`sig.S` = the second half of the buffer (big-endian value = the model's s) -/
theorem edSigSetBytesT_ok {G Fp : Type} [Add G] [Sub G] [Neg G] [Zero G] [SMul Int G] [Add Fp] [Sub Fp] [Mul Fp] [Inv Fp] [Zero Fp] [BEq Fp]
    (P : EdParams) (hsz : 0 < P.size) (sq : Nat → Option Nat) (edA edD edCofactor : Fp) (edBase : G)
    (dec : Bytes → G) (decErr : Bytes → Res) (onC : G → Bool) (φ : G → Nat × Nat)
    (hdec : ∀ b, φ (dec b) = P.decompress sq b) (honC : ∀ X, onC X = P.onCurve (φ X))
    (herr : ∀ b : Bytes, b.length = P.size → (decErr b = Res.ok ↔ P.hasX sq b = true)) (R0 : G) (s0 buf : Bytes) (hs : s0.length = P.size)
    (k : Nat) (R : Nat × Nat) (s : Nat) (h : P.sigParse sq buf = .ok (k, R, s)) :
    edSigSetBytesT P.size (P.q : Int) edA edD edCofactor (P.order : Int) edBase dec decErr onC R0 s0 buf
        = (((2 * P.size : Nat) : Int), Res.ok, dec (buf.take P.size), buf.drop P.size) ∧
      buf.length = 2 * P.size ∧ k = 2 * P.size ∧ φ (dec (buf.take P.size)) = R ∧ beToNat (buf.drop P.size) = s ∧
      (buf.drop P.size).length = P.size := by
  obtain ⟨hl, hk, hR, hS, -⟩ := edSigParse_ok P sq buf k R s h
  have e1 : (buf.drop P.size).take P.size = buf.drop P.size := by
    apply List.take_of_length_le; simp [hl]; omega
  rw [edSigSetBytesT_spec P hsz sq edA edD edCofactor edBase dec decErr onC φ hdec honC herr R0 s0 buf hs]
  refine ⟨by simp [edSigExpected, h, hk], hl, hk, by rw [hdec, decompress_take, hR], by rw [hS, e1], by simp [hl]; omega⟩

/-- rejected signatures: the generated code returns the Go error the model names (never nil) -/
theorem edSigSetBytesT_err {G Fp : Type} [Add G] [Sub G] [Neg G] [Zero G] [SMul Int G] [Add Fp] [Sub Fp] [Mul Fp] [Inv Fp] [Zero Fp] [BEq Fp]
    (P : EdParams) (hsz : 0 < P.size) (sq : Nat → Option Nat) (edA edD edCofactor : Fp) (edBase : G)
    (dec : Bytes → G) (decErr : Bytes → Res) (onC : G → Bool) (φ : G → Nat × Nat)
    (hdec : ∀ b, φ (dec b) = P.decompress sq b) (honC : ∀ X, onC X = P.onCurve (φ X))
    (herr : ∀ b : Bytes, b.length = P.size → (decErr b = Res.ok ↔ P.hasX sq b = true)) (R0 : G) (s0 buf : Bytes) (hs : s0.length = P.size)
    (e : Err) (h : P.sigParse sq buf = .error e) :
    (e ≠ .noSqrt → (edSigSetBytesT P.size (P.q : Int) edA edD edCofactor (P.order : Int) edBase dec decErr onC R0 s0 buf).2.1 = Res.err (edErrName e)) ∧
    (edSigSetBytesT P.size (P.q : Int) edA edD edCofactor (P.order : Int) edBase dec decErr onC R0 s0 buf).2.1 ≠ Res.ok ∧
    (edSigSetBytesT P.size (P.q : Int) edA edD edCofactor (P.order : Int) edBase dec decErr onC R0 s0 buf).2.2.2 = s0 ∧
    (e ≠ .notOnCurve → e ≠ .noSqrt → edSigSetBytesT P.size (P.q : Int) edA edD edCofactor (P.order : Int) edBase dec decErr onC R0 s0 buf
        = ((0 : Int), Res.err (edErrName e), R0, s0)) := by
  rw [edSigSetBytesT_spec P hsz sq edA edD edCofactor edBase dec decErr onC φ hdec honC herr R0 s0 buf hs]
  have hns : e = .noSqrt → decErr (buf.take P.size) ≠ Res.ok := by
    intro he c
    subst he
    have hx : P.hasX sq buf = true := by
      have := (herr (buf.take P.size) (by
        have hl : buf.length = 2 * P.size := by
          by_contra hne
          unfold EdParams.sigParse at h; simp only [] at h; rw [if_pos hne] at h; simp at h
        simp [hl]; omega)).1 c
      rwa [hasX_take] at this
    unfold EdParams.sigParse at h
    simp only [] at h
    split_ifs at h <;> simp_all
  cases e <;> simp [edSigExpected, h, edErrName] <;> exact hns rfl

/-! ### the model's dictionary (also the witness that the hypotheses above are satisfiable) -/

/-- a point of the model's twisted Edwards curve with the model's addition and the scalar multiplication `sm` -/
structure EdG (P : EdParams) (sm : Nat → Nat × Nat → Nat × Nat) where
  p : Nat × Nat

section dict
variable {P : EdParams} {sm : Nat → Nat × Nat → Nat × Nat}
def EdG.neg (a : EdG P sm) : EdG P sm := ⟨((fpE P.q).neg a.p.1, a.p.2)⟩
instance : Add (EdG P sm) := ⟨fun a b => ⟨P.add a.p b.p⟩⟩
instance : Neg (EdG P sm) := ⟨EdG.neg⟩
instance : Sub (EdG P sm) := ⟨fun a b => ⟨P.add a.p b.neg.p⟩⟩
instance : Zero (EdG P sm) := ⟨⟨(0, 1)⟩⟩
instance : SMul Int (EdG P sm) := ⟨fun k a => ⟨sm k.toNat a.p⟩⟩
end dict

/-- the error of `PointAffine.SetBytes` on a buffer of at least `size` bytes, according to the model -/
def edDecErr (P : EdParams) (sq : Nat → Option Nat) (b : Bytes) : Res :=
  if P.hasX sq b = true then Res.ok else Res.err "invalid compressed coordinate: square root doesn't exist"

/-- generated `Signature.SetBytes` run with the model's dictionary = the model's `sigParse`, every input -/
theorem edSigSetBytesT_model (P : EdParams) (hsz : 0 < P.size) (sm : Nat → Nat × Nat → Nat × Nat) (sq : Nat → Option Nat)
    (edA edD edCofactor : EF P.q) (edBase R0 : EdG P sm) (s0 buf : Bytes) (hs : s0.length = P.size) :
    edSigSetBytesT (G := EdG P sm) (Fp := EF P.q) P.size (P.q : Int) edA edD edCofactor (P.order : Int) edBase
        (fun b => ⟨P.decompress sq b⟩) (edDecErr P sq) (fun X => P.onCurve X.p) R0 s0 buf
      = edSigExpected P sq (fun b => (⟨P.decompress sq b⟩ : EdG P sm)) (edDecErr P sq) R0 s0 buf :=
  edSigSetBytesT_spec P hsz sq edA edD edCofactor edBase _ _ _ (fun X => X.p) (fun _ => rfl) (fun _ => rfl)
    (fun b _ => by unfold edDecErr; split_ifs with c <;> simp [c]) R0 s0 buf hs

end GV.SigSignGen
