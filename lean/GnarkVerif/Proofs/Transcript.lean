import GnarkVerif.Model.Transcript
/-
Helper lemmas for C15 (property theorems are in Props/C15.lean).
-/
namespace GV.Transcript
variable (W : Bytes → Option Bytes) (H : Bytes → Bytes)

/-- the sequential specification, on the sequence of writes: `none` = some write of the chain is refused -/
def specValue (cs : List Chal) : Nat → Option Bytes
  | 0 => match cs[0]? with
    | some c => (absorb W (c.name :: c.bindings)).map H
    | none => none
  | i+1 => match cs[i+1]?, specValue cs i with
    | some c, some p => (absorb W (c.name :: p :: c.bindings)).map H
    | _, _ => none

/-- `specValue … j` only reads names and bindings at positions `≤ j` -/
theorem specValue_congr (cs cs' : List Chal) (j : Nat)
    (h : ∀ i, i ≤ j → (cs[i]?).map (fun c => (c.name, c.bindings)) = (cs'[i]?).map (fun c => (c.name, c.bindings))) :
    specValue W H cs j = specValue W H cs' j := by
  induction j with
  | zero =>
    have := h 0 (Nat.le_refl 0)
    simp only [specValue]
    cases h1 : cs[0]? <;> cases h2 : cs'[0]? <;> simp_all
  | succ j ih =>
    have := h (j+1) (Nat.le_refl _)
    have ih' := ih (fun i hi => h i (Nat.le_succ_of_le hi))
    simp only [specValue]
    rw [ih']
    cases h1 : cs[j+1]? <;> cases h2 : cs'[j+1]? <;> cases specValue W H cs' j <;> simp_all

theorem absorb_none_iff (ws : List Bytes) : absorb W ws = none ↔ ∃ w ∈ ws, W w = none := by
  induction ws with
  | nil => simp [absorb]
  | cons w ws ih =>
    simp only [absorb, List.mem_cons, exists_eq_or_imp]
    cases hw : W w with
    | none => simp
    | some a =>
      cases hr : absorb W ws with
      | none => simp [← ih, hr]
      | some r => simp [← ih, hr]

/-- a stream hash (`Write` never fails and absorbs its argument) sees the concatenation -/
theorem absorb_some (ws : List Bytes) : absorb some ws = some ws.flatten := by
  induction ws with
  | nil => rfl
  | cons w ws ih => simp [absorb, ih]

theorem find_some {cs : List Chal} {name : Bytes} {i : Nat} (h : find cs name = some i) :
    ∃ c, cs[i]? = some c ∧ c.name = name := by
  unfold find at h
  have := List.findIdx?_eq_some_iff_getElem.mp h
  obtain ⟨hlt, hp, _⟩ := this
  exact ⟨cs[i], by simp [hlt], by simpa using hp⟩

structure Inv (s : State) : Prop where
  prefix_ : ∃ k, k ≤ s.chals.length ∧
      (∀ i c, s.chals[i]? = some c → (c.value.isSome ↔ i < k)) ∧
      s.prev = (if k = 0 then none else some (k-1))
  values : ∀ i c v, s.chals[i]? = some c → c.value = some v → specValue W H s.chals i = some v

theorem inv_init (names : List Bytes) : Inv W H (init names) := by
  constructor
  · refine ⟨0, Nat.zero_le _, ?_, by simp [init]⟩
    intro i c h
    simp [init, List.getElem?_map] at h
    obtain ⟨n, _, rfl⟩ := h
    simp
  · intro i c v h hv
    simp [init, List.getElem?_map] at h
    obtain ⟨n, _, rfl⟩ := h
    simp at hv

theorem inv_bind (s : State) (name v : Bytes) (hs : Inv W H s) : Inv W H (step W H s (.bind name v)).1 := by
  simp only [step]
  split
  · exact hs
  · rename_i i hf
    split
    · exact hs
    · rename_i c hc
      split
      · exact hs
      · rename_i hnone
        have hnone' : c.value = none := by simpa using hnone
        obtain ⟨⟨k, hk, hpre, hprev⟩, hval⟩ := hs
        have hik : ¬ i < k := by
          intro hlt; have := (hpre i c hc).mpr hlt; simp [hnone'] at this
        have hilt : i < s.chals.length := by
          have := List.getElem?_eq_some_iff.mp hc; exact this.1
        constructor
        · refine ⟨k, by simpa using hk, ?_, hprev⟩
          intro j c' hj
          simp only [List.getElem?_set] at hj
          split at hj
          · subst_vars
            simp at hj; subst hj
            simp [hnone']; omega
          · exact hpre j c' hj
        · intro j c' v' hj hv'
          simp only [List.getElem?_set] at hj
          split at hj
          · subst_vars
            simp at hj; subst hj
            simp [hnone'] at hv'
          · have hjk : j < k := (hpre j c' hj).mp (by simp [hv'])
            rw [← hval j c' v' hj hv']
            apply specValue_congr
            intro t ht
            have : i ≠ t := by omega
            simp [this]

theorem inv_compute (s : State) (name : Bytes) (hs : Inv W H s) : Inv W H (step W H s (.compute name)).1 := by
  simp only [step]
  split
  · exact hs
  · rename_i i hf
    split
    · exact hs
    · rename_i c hc
      split
      · exact hs
      · rename_i hnone
        split
        · exact hs
        · split
          · exact hs
          · rename_i hcond
            split
            · exact hs
            · rename_i bs hbs
              obtain ⟨⟨k, hk, hpre, hprev⟩, hval⟩ := hs
              have hilt : i < s.chals.length := (List.getElem?_eq_some_iff.mp hc).1
              have hik : ¬ i < k := by
                intro hlt; have := (hpre i c hc).mpr hlt; simp [hnone] at this
              have hieq : k = i := by
                by_cases h0 : i = 0
                · omega
                · have : s.prev = some (i-1) := by
                    by_cases hp : s.prev = some (i-1)
                    · exact hp
                    · exact absurd ⟨h0, hp⟩ hcond
                  rw [hprev] at this
                  split at this
                  · simp at this
                  · simp at this; omega
              subst hieq
              have hself : ∀ a : Chal, (s.chals.set k a)[k]? = some a := by
                intro a; simp [hilt]
              constructor
              · refine ⟨k+1, by simp; omega, ?_, by simp⟩
                intro j c' hj
                by_cases hjk : k = j
                · subst hjk
                  rw [hself] at hj; simp at hj; subst hj
                  simp
                · rw [List.getElem?_set_ne hjk] at hj
                  have := hpre j c' hj
                  rw [this]; omega
              · intro j c' v' hj hv'
                by_cases hjk : k = j
                · subst hjk
                  rw [hself] at hj; simp at hj; subst hj
                  simp at hv'; subst hv'
                  have hcongr : specValue W H (s.chals.set k { c with value := some (H bs) }) k
                      = specValue W H s.chals k := by
                    apply specValue_congr
                    intro t ht
                    by_cases htk : k = t
                    · subst htk; rw [hself]; simp [hc]
                    · rw [List.getElem?_set_ne htk]
                  rw [hcongr]
                  cases k with
                  | zero =>
                    simp only [writes, if_true, List.nil_append] at hbs
                    simp [specValue, hc, hbs]
                  | succ i =>
                    have hlt : i < s.chals.length := by omega
                    have hci : s.chals[i]? = some s.chals[i] := by simp [hlt]
                    have hsome : (s.chals[i]).value.isSome := (hpre i _ hci).mpr (by omega)
                    obtain ⟨w, hw⟩ := Option.isSome_iff_exists.mp hsome
                    have hsp := hval i _ w hci hw
                    simp [writes, hci, hw] at hbs
                    simp [specValue, hc, hsp, hbs]
                · rw [List.getElem?_set_ne hjk] at hj
                  have hlt : j < k := (hpre j c' hj).mp (by simp [hv'])
                  rw [← hval j c' v' hj hv']
                  apply specValue_congr
                  intro t ht
                  have : k ≠ t := by omega
                  rw [List.getElem?_set_ne this]

/-- the two ways ComputeChallenge returns a value: cached (nothing changes) or fresh -/
theorem compute_val_cases (s : State) (name v : Bytes) (h : (step W H s (.compute name)).2 = .val v) :
    ∃ i c, find s.chals name = some i ∧ s.chals[i]? = some c ∧
      ((c.value = some v ∧ step W H s (.compute name) = (s, .val v)) ∨
       (c.value = none ∧ ∃ bs, absorb W (writes s.chals i c) = some bs ∧ v = H bs ∧
          step W H s (.compute name) =
            ({ chals := s.chals.set i { c with value := some (H bs) }, prev := some i }, .val (H bs)))) := by
  simp only [step] at h
  split at h
  · simp at h
  · rename_i i hf
    split at h
    · simp at h
    · rename_i c hc
      refine ⟨i, c, hf, hc, ?_⟩
      split at h
      · rename_i w hw
        simp at h; subst h
        left; simp [step, hf, hc, hw]
      · rename_i hnone
        split at h
        · simp at h
        · rename_i a hwn
          split at h
          · simp at h
          · rename_i hcond
            split at h
            · simp at h
            · rename_i bs hbs
              simp at h; subst h
              right
              refine ⟨hnone, bs, hbs, rfl, ?_⟩
              simp only [step, hf, hc, hnone, hwn, hbs]
              simp only [hcond, if_false]

end GV.Transcript
