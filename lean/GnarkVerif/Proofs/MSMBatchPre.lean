import GnarkVerif.Proofs.MSMBatch
/-
C04 — the precondition of `batchAddG?Affine` (distinct bucket pointers, bucket and point finite, different X)
is an invariant of the batch-affine state machine: it is established by the special-casing of
infinity / doubling / cancellation in `add` and `addFromQueue` and by routing conflicts to the queue.
-/
namespace GV.MSM

section
variable {G : Type} [AddCommGroup G]

/-- what `batchAddG?Affine(&R, &P, cptAdd)` needs: the `R[i]` are distinct buckets, `R[i] ≠ ∞`, `P[i] ≠ ∞`,
`R[i].X ≠ P[i].X` (otherwise one zero denominator poisons the whole batch inversion) -/
structure BatchPre (ops : GOps G) (st : BAState G) : Prop where
  nodup : (st.pending.map (·.1)).Nodup
  pre : ∀ p ∈ st.pending, st.buckets.getD p.1 0 ≠ 0 ∧ p.2 ≠ 0 ∧ ops.sameX (st.buckets.getD p.1 0) p.2 = false

theorem not_inPending (st : BAState G) (id : Nat) (h : ¬ inPending st id = true) :
    ∀ p ∈ st.pending, p.1 ≠ id := by
  intro p hp e
  apply h
  unfold inPending
  rw [List.any_eq_true]
  exact ⟨p, hp, by simp [e]⟩

theorem getD_set_ne (l : List G) (i j : Nat) (a d : G) (h : i ≠ j) : (l.set i a).getD j d = l.getD j d := by
  simp [List.getD_eq_getElem?_getD, List.getElem?_set_ne h]

/-- the three possible effects of `addFromQueue` -/
theorem baAddFromQueue_cases (ops : GOps G) (h : LawfulBA ops) (st : BAState G) (id : Nat) (Q : G) :
    (∃ X, baAddFromQueue ops st id Q = { st with buckets := st.buckets.set id X }) ∨
    (∃ f, baAddFromQueue ops st id Q = { st with bucketsJE := f }) ∨
    (st.buckets.getD id 0 ≠ 0 ∧ ops.sameX (st.buckets.getD id 0) Q = false ∧
      baAddFromQueue ops st id Q = { st with pending := (id, Q) :: st.pending }) := by
  by_cases hz : ops.isZero (st.buckets.getD id 0) = true
  · left
    exact ⟨Q, by unfold baAddFromQueue; simp only [h.law.zero]; rw [if_pos hz]⟩
  · have hB : st.buckets.getD id 0 ≠ 0 := fun e => hz ((h.isZero_iff _).2 e)
    by_cases hx : ops.sameX (st.buckets.getD id 0) Q = true
    · by_cases hy : ops.sameY (st.buckets.getD id 0) Q = true
      · right; left
        exact ⟨_, by unfold baAddFromQueue; simp only [h.law.zero]; rw [if_neg hz, if_pos hx, if_pos hy]⟩
      · left
        exact ⟨_, by unfold baAddFromQueue; simp only [h.law.zero]; rw [if_neg hz, if_pos hx, if_neg hy]⟩
    · right; right
      exact ⟨hB, by simpa using hx, by unfold baAddFromQueue; simp only [h.law.zero]; rw [if_neg hz, if_neg hx]⟩

/-- the three possible effects of `add` -/
theorem baAdd_cases (ops : GOps G) (h : LawfulBA ops) (st : BAState G) (id : Nat) (P : G) (isAdd : Bool) :
    (∃ X, baAdd ops st id P isAdd = { st with buckets := st.buckets.set id X }) ∨
    (∃ f, baAdd ops st id P isAdd = { st with bucketsJE := f }) ∨
    (st.buckets.getD id 0 ≠ 0 ∧ ops.sameX (st.buckets.getD id 0) P = false ∧
      baAdd ops st id P isAdd = { st with pending := (id, if isAdd then P else ops.neg P) :: st.pending }) := by
  by_cases hz : ops.isZero (st.buckets.getD id 0) = true
  · left
    exact ⟨_, by unfold baAdd; simp only [h.law.zero]; rw [if_pos hz]⟩
  · have hB : st.buckets.getD id 0 ≠ 0 := fun e => hz ((h.isZero_iff _).2 e)
    by_cases hx : ops.sameX (st.buckets.getD id 0) P = true
    · by_cases hy : ops.sameY (st.buckets.getD id 0) P = true
      · cases isAdd with
        | true =>
          right; left
          exact ⟨_, by unfold baAdd; simp only [h.law.zero]; rw [if_neg hz, if_pos hx, if_pos hy]; simp only [if_true]; rfl⟩
        | false =>
          left
          exact ⟨_, by unfold baAdd; simp only [h.law.zero]; rw [if_neg hz, if_pos hx, if_pos hy]
                       simp only [Bool.false_eq_true, if_false]; rfl⟩
      · cases isAdd with
        | true =>
          left
          exact ⟨_, by unfold baAdd; simp only [h.law.zero]; rw [if_neg hz, if_pos hx, if_neg hy]; simp only [if_true]; rfl⟩
        | false =>
          right; left
          exact ⟨_, by unfold baAdd; simp only [h.law.zero]; rw [if_neg hz, if_pos hx, if_neg hy]
                       simp only [Bool.false_eq_true, if_false]; rfl⟩
    · right; right
      exact ⟨hB, by simpa using hx, by unfold baAdd; simp only [h.law.zero]; rw [if_neg hz, if_neg hx]⟩

theorem batchPre_set (ops : GOps G) (st : BAState G) (id : Nat) (X : G) (hp : ∀ p ∈ st.pending, p.1 ≠ id)
    (hi : BatchPre ops st) : BatchPre ops { st with buckets := st.buckets.set id X } := by
  refine ⟨hi.nodup, ?_⟩
  intro p hpm
  have := hi.pre p hpm
  have hne : id ≠ p.1 := fun e => hp p hpm e.symm
  simp only [getD_set_ne _ _ _ _ _ hne]
  exact this

theorem batchPre_cons (ops : GOps G) (st : BAState G) (id : Nat) (Q : G) (hp : ∀ p ∈ st.pending, p.1 ≠ id)
    (hB : st.buckets.getD id 0 ≠ 0) (hQ : Q ≠ 0) (hx : ops.sameX (st.buckets.getD id 0) Q = false)
    (hi : BatchPre ops st) : BatchPre ops { st with pending := (id, Q) :: st.pending } := by
  refine ⟨?_, ?_⟩
  · simp only [List.map_cons, List.nodup_cons]
    refine ⟨?_, hi.nodup⟩
    intro hmem
    simp only [List.mem_map] at hmem
    obtain ⟨p, hpm, e⟩ := hmem
    exact hp p hpm e
  · intro p hpm
    simp only [List.mem_cons] at hpm
    rcases hpm with rfl | hpm
    · exact ⟨hB, hQ, hx⟩
    · exact hi.pre p hpm

theorem baAddFromQueue_pre (ops : GOps G) (h : LawfulBA ops) (st : BAState G) (id : Nat) (Q : G)
    (hnp : ¬ inPending st id = true) (hQ : Q ≠ 0) (hi : BatchPre ops st) :
    BatchPre ops (baAddFromQueue ops st id Q) := by
  have hp := not_inPending st id hnp
  rcases baAddFromQueue_cases ops h st id Q with ⟨X, e⟩ | ⟨f, e⟩ | ⟨hB, hx, e⟩
  · rw [e]; exact batchPre_set ops st id X hp hi
  · rw [e]; exact ⟨hi.nodup, hi.pre⟩
  · rw [e]; exact batchPre_cons ops st id Q hp hB hQ hx hi

/-- `X` is not changed by negation (true for short Weierstrass points) -/
def SameXNeg (ops : GOps G) : Prop := ∀ B P, ops.sameX B (ops.neg P) = ops.sameX B P

theorem baAdd_pre (ops : GOps G) (h : LawfulBA ops) (hneg : SameXNeg ops) (st : BAState G) (id : Nat) (P : G)
    (isAdd : Bool) (hnp : ¬ inPending st id = true) (hP : P ≠ 0) (hi : BatchPre ops st) :
    BatchPre ops (baAdd ops st id P isAdd) := by
  have hp := not_inPending st id hnp
  rcases baAdd_cases ops h st id P isAdd with ⟨X, e⟩ | ⟨f, e⟩ | ⟨hB, hx, e⟩
  · rw [e]; exact batchPre_set ops st id X hp hi
  · rw [e]; exact ⟨hi.nodup, hi.pre⟩
  · rw [e]
    refine batchPre_cons ops st id _ hp hB ?_ ?_ hi
    · cases isAdd
      · simpa [h.law.neg] using hP
      · simpa using hP
    · cases isAdd
      · simpa [hneg _ _] using hx
      · simpa using hx

theorem baProcessTop_pre (ops : GOps G) (h : LawfulBA ops) : ∀ (q : List (Nat × G)) (st : BAState G),
    (∀ p ∈ q, p.2 ≠ 0) → BatchPre ops st → BatchPre ops (baProcessTop ops st q) := by
  intro q
  induction q with
  | nil => intro st _ hi; exact ⟨hi.nodup, hi.pre⟩
  | cons p q ih =>
    intro st hq hi
    obtain ⟨id, Q⟩ := p
    by_cases hp : inPending st id = true
    · have key : baProcessTop ops st ((id, Q) :: q) = { st with queue := (id, Q) :: q } := by
        simp only [baProcessTop]; rw [if_pos hp]
      rw [key]; exact ⟨hi.nodup, hi.pre⟩
    · have key : baProcessTop ops st ((id, Q) :: q) = baProcessTop ops (baAddFromQueue ops st id Q) q := by
        simp only [baProcessTop]; rw [if_neg hp]
      rw [key]
      exact ih _ (fun p hp' => hq p (by simp [hp'])) (baAddFromQueue_pre ops h st id Q hp (hq (id, Q) (by simp)) hi)

theorem baExecute_pre (ops : GOps G) (st : BAState G) : BatchPre ops (baExecute ops st) := by
  unfold baExecute
  exact ⟨by simp, by simp⟩

theorem baFlush_pre (ops : GOps G) (st : BAState G) (hi : BatchPre ops st) : BatchPre ops (baFlush ops st) := by
  unfold baFlush
  exact ⟨hi.nodup, hi.pre⟩

theorem baConflict_pre (ops : GOps G) (batchSize : Nat) (st : BAState G) (id : Nat) (Q : G)
    (hi : BatchPre ops st) : BatchPre ops (baConflict ops batchSize st id Q) := by
  unfold baConflict
  dsimp only
  split
  · exact baFlush_pre ops _ ⟨hi.nodup, hi.pre⟩
  · exact ⟨hi.nodup, hi.pre⟩

/-- one step keeps the precondition; moreover the state handed to `executeAndReset` inside the step
(`baAdd …`) satisfies it (`baAdd_pre`) -/
theorem baStep_pre (ops : GOps G) (h : LawfulBA ops) (hneg : SameXNeg ops) (nb batchSize : Nat) (st : BAState G)
    (P : G) (u : Nat) (hinv : BAInv nb st) (hi : BatchPre ops st) : BatchPre ops (baStep ops batchSize st P u) := by
  unfold baStep
  split
  · exact hi
  · rename_i hc
    simp only [Bool.or_eq_true, decide_eq_true_eq, not_or] at hc
    obtain ⟨_, hz⟩ := hc
    have hP : P ≠ 0 := fun e => hz ((h.isZero_iff _).2 e)
    dsimp only
    split
    · exact baConflict_pre ops batchSize st _ _ hi
    · rename_i hnp
      have ha := baAdd_pre ops h hneg st (bucketOf u) P (u % 2 == 0) hnp hP hi
      unfold baAddAndRun
      dsimp only
      split
      · apply baProcessTop_pre ops h _ _ _ (baExecute_pre ops _)
        intro p hp
        -- queued points are finite: shape invariant
        have hq : (baExecute ops (baAdd ops st (bucketOf u) P (u % 2 == 0))).queue = st.queue := by
          rcases baAdd_cases ops h st (bucketOf u) P (u % 2 == 0) with ⟨X, e⟩ | ⟨f, e⟩ | ⟨_, _, e⟩ <;>
            (unfold baExecute; rw [e])
        rw [hq] at hp
        exact (hinv.que p hp).2
      · exact ha

/-- **the batch precondition holds in every reachable state**, in particular for the final `executeAndReset` -/
theorem baRun_pre (ops : GOps G) (h : LawfulBA ops) (hneg : SameXNeg ops) (nb batchSize : Nat) :
    ∀ (Ps : List G) (us : List Nat) (st : BAState G), BAInv nb st → BatchPre ops st →
      (∀ u ∈ us, u ≠ 0 → bucketOf u < nb) →
      BatchPre ops ((Ps.zip us).foldl (fun st pu => baStep ops batchSize st pu.1 pu.2) st) := by
  intro Ps
  induction Ps with
  | nil => intro us st _ hi _; simpa using hi
  | cons P Ps ih =>
    intro us st hinv hi hr
    cases us with
    | nil => simpa using hi
    | cons u us =>
      simp only [List.zip_cons_cons, List.foldl_cons]
      exact ih us _ (baStep_spec ops h nb batchSize st P u hinv (hr u (by simp))).2
        (baStep_pre ops h hneg nb batchSize st P u hinv hi) (fun u' hu' => hr u' (by simp [hu']))

theorem baInit_pre (ops : GOps G) (nb : Nat) : BatchPre ops (baInit ops nb : BAState G) :=
  ⟨by simp [baInit], by simp [baInit]⟩

end

end GV.MSM
