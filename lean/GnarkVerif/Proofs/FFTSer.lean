import GnarkVerif.Model.FFT
import Mathlib.Tactic.Ring
import Mathlib.Tactic.Linarith
/-
C10 helper: big-endian encoding round trip and the Domain WriteTo/ReadFrom model (Model/FFT.lean).
-/
namespace GV.FFT
open GV

theorem natToBE_succ (len n : Nat) :
    natToBE (len+1) n = UInt8.ofNat ((n / 256^len) % 256) :: natToBE len n := by
  simp [natToBE, List.range_succ]

@[simp] theorem natToBE_length (len n : Nat) : (natToBE len n).length = len := by simp [natToBE]

theorem foldl_natToBE (len n acc : Nat) :
    (natToBE len n).foldl (fun a b => a*256 + b.toNat) acc = acc * 256^len + n % 256^len := by
  induction len generalizing acc with
  | zero => simp [natToBE, Nat.mod_one]
  | succ len ih =>
    rw [natToBE_succ, List.foldl_cons, ih, Nat.mod_pow_succ]
    have : (UInt8.ofNat (n / 256 ^ len % 256)).toNat = n / 256^len % 256 := by
      simp [UInt8.toNat_ofNat']
    rw [this, pow_succ]; ring

theorem beToNat_natToBE (len n : Nat) : beToNat (natToBE len n) = n % 256^len := by
  simp [beToNat, foldl_natToBE]

theorem takeN_append (n : Nat) (x r : List UInt8) (hx : x.length = n) : takeN n (x ++ r) = .ok (x, r) := by
  simp [takeN, hx, List.take_left' hx, List.drop_left' hx]

theorem readElem_append (nb q v : Nat) (r : List UInt8) (hv : v < q) (hq : q ≤ 256^nb) :
    readElem nb q (natToBE nb v ++ r) = .ok (v, r) := by
  have : beToNat (natToBE nb v) = v := by rw [beToNat_natToBE, Nat.mod_eq_of_lt (by omega)]
  simp [readElem, takeN_append _ _ _ (natToBE_length nb v), this, hv]


/-- **serialisation round trip**: `ReadFrom` of `WriteTo` gives back the same domain record and leaves the rest
    of the stream untouched -/
theorem decode_encode (nb q : Nat) (d : DomainRec) (rest : List UInt8) (hq : q ≤ 256^nb)
    (hc : d.card < 2^64) (h1 : d.cardInv < q) (h2 : d.gen < q) (h3 : d.genInv < q) (h4 : d.g < q)
    (h5 : d.gInv < q) :
    decodeDomain nb q (encodeDomain nb d ++ rest) = .ok (d, rest) := by
  have hcard : beToNat (natToBE 8 d.card) = d.card := by
    rw [beToNat_natToBE, Nat.mod_eq_of_lt (by norm_num at hc ⊢; omega)]
  have hflag : (beToNat [if d.precomp then 1 else 0] != 0) = d.precomp := by
    cases d.precomp <;> simp [beToNat]
  simp only [decodeDomain, encodeDomain, List.append_assoc]
  rw [takeN_append _ _ _ (natToBE_length 8 d.card)]
  simp only []
  rw [readElem_append _ _ _ _ h1 hq]; simp only []
  rw [readElem_append _ _ _ _ h2 hq]; simp only []
  rw [readElem_append _ _ _ _ h3 hq]; simp only []
  rw [readElem_append _ _ _ _ h4 hq]; simp only []
  rw [readElem_append _ _ _ _ h5 hq]; simp only []
  rw [takeN_append 1 [if d.precomp then 1 else 0] rest (by simp)]
  have hle : beToNat [if d.precomp then 1 else 0] ≤ 1 := by
    cases d.precomp <;> simp [beToNat]
  simp only [hcard, hflag, hle, if_true]

end GV.FFT
