import GnarkVerif.Proofs.Poseidon2
/-
Helper for Props/C14_perm_*: the key table and the instance of the hand model `Model/Poseidon2.lean` built from an ABSTRACT
round-key function `rc i j` (= `h.params.RoundKeys[i][j]`), in the shape `initRC` produces and `keysShapeOk` demands:
`rf/2` rows of `t` keys, `rp` rows of one key, the remaining rows of `t` keys.
-/
namespace GV.C14perm
open GV.Poseidon2

/-- rows `0 … rf+rp-1`; row `i` holds `rc i 0 …` — one key in the partial rounds `rf/2 ≤ i < rf/2 + rp`, `t` keys otherwise -/
def keysOf {α : Type} (t rf rp : Nat) (rc : Nat → Nat → α) : List (List α) :=
  (List.range (rf + rp)).map fun i => (List.range (if rf / 2 ≤ i ∧ i < rf / 2 + rp then 1 else t)).map (rc i)

/-- the instance of the hand model with these keys -/
def instOf {α : Type} (t : Nat) (sb : SBox) (m4k : M4Kind) (diag : List α) (rf rp : Nat) (rc : Nat → Nat → α) : Inst α :=
  { t := t, sb := sb, m4k := m4k, diag := diag, rf := rf, rp := rp, keys := keysOf t rf rp rc }

/-- the accessor of a concrete key table -/
def rcOf {α : Type} (z : α) (keys : List (List α)) (i j : Nat) : α := (keys.getD i []).getD j z

section layers
variable {α : Type} (F : ROps α)

/-- `extL` / `intL` of an instance whose width is a multiple of 4 resp. is 2 or 3 -/
theorem extL_4k (I : Inst α) (h : I.t % 4 = 0) (xs : List α) : extL F I xs = ext4 F I.m4k xs := by simp [extL, h]
theorem extL_23 (I : Inst α) (h : I.t % 4 ≠ 0) (xs : List α) : extL F I xs = ext23 F xs := by simp [extL, h]
theorem intL_4k (I : Inst α) (h : I.t % 4 = 0) (xs : List α) : intL F I xs = intDiag F I.diag xs := by simp [intL, h]
theorem intL_23 (I : Inst α) (h : I.t % 4 ≠ 0) (xs : List α) : intL F I xs = int23 F xs := by simp [intL, h]

end layers

end GV.C14perm
