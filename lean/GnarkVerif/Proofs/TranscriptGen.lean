import GnarkVerif.Proofs.Transcript
import GnarkVerif.Gen.Imp.Transcript
/-
Helper lemmas for C15_gen: the Lean defs REGENERATED from fiat-shamir/transcript.go (Gen/Imp/Transcript.lean, tools/goslp
mode "imp") refine the hand-written model of Model/Transcript.lean.  Property theorems are in Props/C15_gen.lean.
-/
namespace GV.GoImp

theorem copy_make (s : Bytes) : copy (makeBytes (len s)) s = s := by
  simp [copy, makeBytes, len]

variable {V : Type}

theorem lookupL_none [Inhabited V] (l : List (GoString × V)) (k : GoString)
    (h : l.findIdx? (fun e => e.1 = k) = none) : GoMap.lookupL l k = (default, false) := by
  induction l with
  | nil => rfl
  | cons e l ih =>
    obtain ⟨k', v⟩ := e
    simp only [List.findIdx?_cons] at h
    by_cases hk : k' = k
    · simp [hk] at h
    · simp [hk] at h
      simp [GoMap.lookupL, hk, ih (by simpa using h)]

theorem lookupL_some [Inhabited V] (l : List (GoString × V)) (k : GoString) (i : Nat)
    (h : l.findIdx? (fun e => e.1 = k) = some i) : ∃ v, l[i]? = some (k, v) ∧ GoMap.lookupL l k = (v, true) := by
  induction l generalizing i with
  | nil => simp at h
  | cons e l ih =>
    obtain ⟨k', v⟩ := e
    simp only [List.findIdx?_cons] at h
    by_cases hk : k' = k
    · simp [hk] at h; subst h; subst hk
      exact ⟨v, by simp, by simp [GoMap.lookupL]⟩
    · simp [hk] at h
      obtain ⟨j, hj, rfl⟩ := h
      obtain ⟨w, hw1, hw2⟩ := ih j hj
      exact ⟨w, by simpa using hw1, by simp [GoMap.lookupL, hk, hw2]⟩

theorem setL_some (l : List (GoString × V)) (k : GoString) (i : Nat) (v : V)
    (h : l.findIdx? (fun e => e.1 = k) = some i) : GoMap.setL l k v = l.set i (k, v) := by
  induction l generalizing i with
  | nil => simp at h
  | cons e l ih =>
    obtain ⟨k', v'⟩ := e
    simp only [List.findIdx?_cons] at h
    by_cases hk : k' = k
    · simp [hk] at h; subst h; subst hk
      simp [GoMap.setL]
    · simp [hk] at h
      obtain ⟨j, hj, rfl⟩ := h
      simp [GoMap.setL, hk, ih j hj]

theorem setL_none (l : List (GoString × V)) (k : GoString) (v : V)
    (h : l.findIdx? (fun e => e.1 = k) = none) : GoMap.setL l k v = l ++ [(k, v)] := by
  induction l with
  | nil => rfl
  | cons e l ih =>
    obtain ⟨k', v'⟩ := e
    simp only [List.findIdx?_cons] at h
    by_cases hk : k' = k
    · simp [hk] at h
    · simp [hk] at h
      simp [GoMap.setL, hk, ih (by simpa using h)]

end GV.GoImp

namespace GV.Transcript.Gen
open GV.GoImp GV.Gen.Imp GV.Gen.Imp.FiatShamir
abbrev GTranscript := GV.Gen.Imp.FiatShamir.Transcript
variable (W : Bytes → Option Bytes) (H : Bytes → Bytes)

/-! ### abstraction and representation invariant -/

/-- one map entry `name ↦ challenge{…}` as a model challenge: the value counts only once `isComputed` is set -/
def absChal (e : GoString × challenge) : Chal :=
  { name := e.1, bindings := e.2.bindings, value := if e.2.isComputed then some e.2.value else none }

/-- the model state of a generated transcript: the map's entries in position order (= order of the association list, by
`Inv.pos`); `previous` (a copy of a challenge) becomes its position.  The hasher is not part of the model state. -/
def abs (t : GTranscript) : State :=
  { chals := t.challenges.entries.map absChal, prev := t.previous.map (fun p => p.position.toNat) }

/-- representation invariant of the generated states reachable from `NewTranscript` with DISTINCT names -/
structure Inv (t : GTranscript) : Prop where
  /-- one map entry per declared name -/
  nodup : (t.challenges.entries.map (·.1)).Nodup
  /-- the i-th declared name has `position` i -/
  pos : ∀ (i : Nat) e, t.challenges.entries[i]? = some e → e.2.position = (i : Int)
  /-- `previous` points to a copy of the (computed) entry at its position -/
  prev : ∀ p, t.previous = some p → p.isComputed = true ∧ ∃ k, t.challenges.entries[p.position.toNat]? = some (k, p)

/-- Go error values as the model's error classes (a refused hash write may come wrapped by `fmt.Errorf("write: %w", …)`) -/
def absErr (e : GoImp.Err) : GV.Transcript.Err :=
  if e = errChallengeNotFound then .notFound
  else if e = errChallengeAlreadyComputed then .alreadyComputed
  else if e = errPreviousChallengeNotComputed then .prevNotComputed
  else .hash

def outBind (e : GoImp.Err) : Out := if e = GoImp.Err.nil then .ok else .err (absErr e)
def outCompute (r : Bytes × GoImp.Err) : Out := if r.2 = GoImp.Err.nil then .val r.1 else .err (absErr r.2)

theorem find_abs (t : GTranscript) (n : Bytes) :
    find (abs t).chals n = t.challenges.entries.findIdx? (fun e => e.1 = n) := by
  simp [find, abs, List.findIdx?_map, absChal, Function.comp_def]
  congr

theorem abs_set (t : GTranscript) (i : Nat) (e : GoString × challenge) :
    (t.challenges.entries.set i e).map absChal = (abs t).chals.set i (absChal e) := by
  simp [abs, List.map_set]

theorem keys_set (l : List (GoString × challenge)) (i : Nat) (k : GoString) (c c' : challenge)
    (h : l[i]? = some (k, c)) : (l.set i (k, c')).map (·.1) = l.map (·.1) := by
  have hi : i < l.length := (List.getElem?_eq_some_iff.mp h).1
  apply List.ext_getElem?
  intro j
  by_cases hj : i = j
  · subst hj
    have := (List.getElem?_eq_some_iff.mp h).2
    simp [hi, this]
  · simp [hj]

/-! ### Bind -/

theorem bind_refines (t : GTranscript) (n v : Bytes) (hi : Inv t) :
    Inv (Bind t n v).1 ∧ abs (Bind t n v).1 = (step W H (abs t) (.bind n v)).1 ∧
    outBind (Bind t n v).2 = (step W H (abs t) (.bind n v)).2 := by
  simp only [step, find_abs]
  cases hf : t.challenges.entries.findIdx? (fun e => e.1 = n) with
  | none =>
    have hl := lookupL_none _ _ hf
    simp [FiatShamir.Bind, GoMap.lookup, hl, hi, outBind, absErr]
  | some i =>
    obtain ⟨c, hc, hl⟩ := lookupL_some _ _ _ hf
    have hilt : i < t.challenges.entries.length := (List.getElem?_eq_some_iff.mp hc).1
    have hac : (abs t).chals[i]? = some (absChal (n, c)) := by simp [abs, hc]
    simp only [hac]
    cases hcomp : c.isComputed with
    | true =>
      simp [FiatShamir.Bind, GoMap.lookup, hl, hcomp, hi, outBind, absErr, absChal]
    | false =>
      simp only [FiatShamir.Bind, GoMap.lookup, hl, hcomp, copy_make, GoMap.set, setL_some _ _ _ _ hf,
        Bool.not_true, Bool.false_eq_true, ↓reduceIte]
      refine ⟨?_, ?_, ?_⟩
      · constructor
        · show (List.map (·.1) (t.challenges.entries.set i _)).Nodup
          rw [keys_set _ _ _ _ _ hc]; exact hi.nodup
        · intro j e hj
          simp only [List.getElem?_set] at hj
          split at hj
          · subst_vars; simp at hj; subst hj
            simpa using hi.pos _ _ hc
          · exact hi.pos _ _ hj
        · intro p hp
          obtain ⟨hpc, k, hk⟩ := hi.prev p hp
          refine ⟨hpc, k, ?_⟩
          have hne : i ≠ p.position.toNat := by
            intro he; rw [← he, hc] at hk; simp at hk; rw [hk.2] at hcomp; simp [hpc] at hcomp
          simp [hne, hk]
      · simp [abs, List.map_set, absChal, hcomp]
      · simp [outBind, absChal, hcomp]

/-! ### NewTranscript -/

/-- the entry the loop of `NewTranscript` stores for index `i` -/
def initEntry (names : List Bytes) (i : Nat) : GoString × challenge := (names.getD i default, { position := (i : Int) })

theorem newLoop_snoc (names : List Bytes) (is : List Nat) (i : Nat) (m : GoMap challenge) :
    NewTranscript.loop1 names (is ++ [i]) m = (NewTranscript.loop1 names is m).set (names.getD i default) { position := (i : Int) } := by
  induction is generalizing m with
  | nil => simp [NewTranscript.loop1, index]
  | cons j is ih => simp [NewTranscript.loop1, ih]

theorem newLoop_entries (names : List Bytes) (hnd : names.Nodup) (k : Nat) (hk : k ≤ names.length) :
    (NewTranscript.loop1 names (List.range k) GoMap.empty).entries = (List.range k).map (initEntry names) := by
  induction k with
  | zero => simp [NewTranscript.loop1, GoMap.empty]
  | succ k ih =>
    rw [List.range_succ, newLoop_snoc, GoMap.set, ih (by omega), List.map_append]
    rw [setL_none]
    · simp [initEntry]
    · rw [List.findIdx?_eq_none_iff]
      intro e he
      simp only [List.mem_map, List.mem_range] at he
      obtain ⟨j, hj, rfl⟩ := he
      apply decide_eq_false
      intro heq
      simp only [initEntry] at heq
      have h1 : names[j]? = names[k]? := by
        rw [List.getD_eq_getElem?_getD, List.getD_eq_getElem?_getD] at heq
        rw [List.getElem?_eq_getElem (by omega), List.getElem?_eq_getElem (by omega)] at heq ⊢
        simpa using heq
      have := (List.getElem?_inj (i := j) (j := k) (by omega) hnd).mp h1
      omega

theorem new_entries (h : Hash) (names : List Bytes) (hnd : names.Nodup) :
    (NewTranscript h names).challenges.entries = (List.range names.length).map (initEntry names) := by
  simp only [NewTranscript]
  exact newLoop_entries names hnd _ (Nat.le_refl _)

theorem init_refines (h : Hash) (names : List Bytes) (hnd : names.Nodup) :
    Inv (NewTranscript h names) ∧ abs (NewTranscript h names) = init names ∧
    (NewTranscript h names).challenges.entries.map (·.1) = names ∧ (NewTranscript h names).h = h := by
  have he := new_entries h names hnd
  have hkeys : (NewTranscript h names).challenges.entries.map (·.1) = names := by
    rw [he]
    apply List.ext_getElem?
    intro i
    by_cases hi : i < names.length
    · simp [initEntry, hi]
    · simp [hi]
  have hprev : (NewTranscript h names).previous = none := by simp [NewTranscript]
  refine ⟨⟨by rw [hkeys]; exact hnd, ?_, by simp [hprev]⟩, ?_, hkeys, by simp [NewTranscript]⟩
  · intro i e hi
    rw [he] at hi
    simp only [List.getElem?_map] at hi
    by_cases hlt : i < names.length
    · simp [hlt, initEntry] at hi; subst hi; rfl
    · simp [hlt] at hi
  · simp only [abs, hprev, he, init]
    simp only [Option.map_none, List.map_map]
    congr 1
    apply List.ext_getElem?
    intro i
    by_cases hi : i < names.length
    · simp [initEntry, hi, absChal]
    · simp [hi]

end GV.Transcript.Gen
