import GnarkVerif.Proofs.Transcript
import GnarkVerif.Gen.Imp.Transcript
/-
Helper lemmas for C15_gen: the Lean defs REGENERATED from fiat-shamir/transcript.go (Gen/Imp/Transcript.lean, tools/goslp
mode "imp") refine the hand-written model of Model/Transcript.lean.  Property theorems are in Props/C15_gen.lean.
-/
namespace GV.GoImp

theorem copy_make (s : Bytes) : copy (makeBytes (len s)) s = s := by
  simp [copy, makeBytes, len]

@[simp] theorem bytesOfString_eq (s : GoString) : bytesOfString s = s := rfl

variable {V : Type}

theorem lookupL_none [Inhabited V] (l : List (GoString × V)) (k : GoString)
    (h : l.findIdx? (fun e => e.1 = k) = none) : GoMap.lookupL l k = (default, false) := by
  induction l with
  | nil => rfl
  | cons e l ih =>
    obtain ⟨k', v⟩ := e
    simp only [List.findIdx?_cons] at h
    by_cases hk : k' = k
    · simp [hk] at h
    · simp [hk] at h
      simp [GoMap.lookupL, hk, ih (by simpa using h)]

theorem lookupL_some [Inhabited V] (l : List (GoString × V)) (k : GoString) (i : Nat)
    (h : l.findIdx? (fun e => e.1 = k) = some i) : ∃ v, l[i]? = some (k, v) ∧ GoMap.lookupL l k = (v, true) := by
  induction l generalizing i with
  | nil => simp at h
  | cons e l ih =>
    obtain ⟨k', v⟩ := e
    simp only [List.findIdx?_cons] at h
    by_cases hk : k' = k
    · simp [hk] at h; subst h; subst hk
      exact ⟨v, by simp, by simp [GoMap.lookupL]⟩
    · simp [hk] at h
      obtain ⟨j, hj, rfl⟩ := h
      obtain ⟨w, hw1, hw2⟩ := ih j hj
      exact ⟨w, by simpa using hw1, by simp [GoMap.lookupL, hk, hw2]⟩

theorem setL_some (l : List (GoString × V)) (k : GoString) (i : Nat) (v : V)
    (h : l.findIdx? (fun e => e.1 = k) = some i) : GoMap.setL l k v = l.set i (k, v) := by
  induction l generalizing i with
  | nil => simp at h
  | cons e l ih =>
    obtain ⟨k', v'⟩ := e
    simp only [List.findIdx?_cons] at h
    by_cases hk : k' = k
    · simp [hk] at h; subst h; subst hk
      simp [GoMap.setL]
    · simp [hk] at h
      obtain ⟨j, hj, rfl⟩ := h
      simp [GoMap.setL, hk, ih j hj]

theorem setL_none (l : List (GoString × V)) (k : GoString) (v : V)
    (h : l.findIdx? (fun e => e.1 = k) = none) : GoMap.setL l k v = l ++ [(k, v)] := by
  induction l with
  | nil => rfl
  | cons e l ih =>
    obtain ⟨k', v'⟩ := e
    simp only [List.findIdx?_cons] at h
    by_cases hk : k' = k
    · simp [hk] at h
    · simp [hk] at h
      simp [GoMap.setL, hk, ih (by simpa using h)]

end GV.GoImp

namespace GV.Transcript.Gen
open GV.GoImp GV.Gen.Imp GV.Gen.Imp.FiatShamir
abbrev GTranscript := GV.Gen.Imp.FiatShamir.Transcript
variable (W : Bytes → Option Bytes) (H : Bytes → Bytes)

/-! ### abstraction and representation invariant -/

/-- one map entry `name ↦ challenge{…}` as a model challenge: the value counts only once `isComputed` is set -/
def absChal (e : GoString × challenge) : Chal :=
  { name := e.1, bindings := e.2.bindings, value := if e.2.isComputed then some e.2.value else none }

/-- the model state of a generated transcript: the map's entries in position order (= order of the association list, by
`Inv.pos`); `previous` (a copy of a challenge) becomes its position.  The hasher is not part of the model state. -/
def abs (t : GTranscript) : State :=
  { chals := t.challenges.entries.map absChal, prev := t.previous.map (fun p => p.position.toNat) }

/-- representation invariant of the generated states reachable from `NewTranscript` with DISTINCT names -/
structure Inv (t : GTranscript) : Prop where
  /-- one map entry per declared name -/
  nodup : (t.challenges.entries.map (·.1)).Nodup
  /-- the i-th declared name has `position` i -/
  pos : ∀ (i : Nat) e, t.challenges.entries[i]? = some e → e.2.position = (i : Int)
  /-- `previous` points to a copy of the (computed) entry at its position -/
  prev : ∀ p, t.previous = some p → p.isComputed = true ∧ ∃ k, t.challenges.entries[p.position.toNat]? = some (k, p)

/-- Go error values as the model's error classes (a refused hash write may come wrapped by `fmt.Errorf("write: %w", …)`) -/
def absErr (e : GoImp.Err) : GV.Transcript.Err :=
  if e = errChallengeNotFound then .notFound
  else if e = errChallengeAlreadyComputed then .alreadyComputed
  else if e = errPreviousChallengeNotComputed then .prevNotComputed
  else .hash

def outBind (e : GoImp.Err) : Out := if e = GoImp.Err.nil then .ok else .err (absErr e)
def outCompute (r : Bytes × GoImp.Err) : Out := if r.2 = GoImp.Err.nil then .val r.1 else .err (absErr r.2)

theorem find_abs (t : GTranscript) (n : Bytes) :
    find (abs t).chals n = t.challenges.entries.findIdx? (fun e => e.1 = n) := by
  simp [find, abs, List.findIdx?_map, absChal, Function.comp_def]
  congr

theorem abs_set (t : GTranscript) (i : Nat) (e : GoString × challenge) :
    (t.challenges.entries.set i e).map absChal = (abs t).chals.set i (absChal e) := by
  simp [abs, List.map_set]

theorem keys_set (l : List (GoString × challenge)) (i : Nat) (k : GoString) (c c' : challenge)
    (h : l[i]? = some (k, c)) : (l.set i (k, c')).map (·.1) = l.map (·.1) := by
  have hi : i < l.length := (List.getElem?_eq_some_iff.mp h).1
  apply List.ext_getElem?
  intro j
  by_cases hj : i = j
  · subst hj
    have := (List.getElem?_eq_some_iff.mp h).2
    simp [hi, this]
  · simp [hj]

/-! ### Bind -/

theorem bind_refines (t : GTranscript) (n v : Bytes) (hi : Inv t) :
    Inv (Bind t n v).1 ∧ abs (Bind t n v).1 = (step W H (abs t) (.bind n v)).1 ∧
    outBind (Bind t n v).2 = (step W H (abs t) (.bind n v)).2 := by
  simp only [step, find_abs]
  cases hf : t.challenges.entries.findIdx? (fun e => e.1 = n) with
  | none =>
    have hl := lookupL_none _ _ hf
    simp [FiatShamir.Bind, GoMap.lookup, hl, hi, outBind, absErr]
  | some i =>
    obtain ⟨c, hc, hl⟩ := lookupL_some _ _ _ hf
    have hilt : i < t.challenges.entries.length := (List.getElem?_eq_some_iff.mp hc).1
    have hac : (abs t).chals[i]? = some (absChal (n, c)) := by simp [abs, hc]
    simp only [hac]
    cases hcomp : c.isComputed with
    | true =>
      simp [FiatShamir.Bind, GoMap.lookup, hl, hcomp, hi, outBind, absErr, absChal]
    | false =>
      simp only [FiatShamir.Bind, GoMap.lookup, hl, hcomp, copy_make, GoMap.set, setL_some _ _ _ _ hf,
        Bool.not_true, Bool.false_eq_true, ↓reduceIte]
      refine ⟨?_, ?_, ?_⟩
      · constructor
        · show (List.map (·.1) (t.challenges.entries.set i _)).Nodup
          rw [keys_set _ _ _ _ _ hc]; exact hi.nodup
        · intro j e hj
          simp only [List.getElem?_set] at hj
          split at hj
          · subst_vars; simp at hj; subst hj
            simpa using hi.pos _ _ hc
          · exact hi.pos _ _ hj
        · intro p hp
          obtain ⟨hpc, k, hk⟩ := hi.prev p hp
          refine ⟨hpc, k, ?_⟩
          have hne : i ≠ p.position.toNat := by
            intro he; rw [← he, hc] at hk; simp at hk; rw [hk.2] at hcomp; simp [hpc] at hcomp
          simp [hne, hk]
      · simp [abs, List.map_set, absChal, hcomp]
      · simp [outBind, absChal, hcomp]

/-! ### NewTranscript -/

/-- the entry the loop of `NewTranscript` stores for index `i` -/
def initEntry (names : List Bytes) (i : Nat) : GoString × challenge := (names.getD i default, { position := (i : Int) })

theorem newLoop_snoc (names : List Bytes) (is : List Nat) (i : Nat) (m : GoMap challenge) :
    NewTranscript.loop1 names (is ++ [i]) m = (NewTranscript.loop1 names is m).set (names.getD i default) { position := (i : Int) } := by
  induction is generalizing m with
  | nil => simp [NewTranscript.loop1, index]
  | cons j is ih => simp [NewTranscript.loop1, ih]

theorem newLoop_entries (names : List Bytes) (hnd : names.Nodup) (k : Nat) (hk : k ≤ names.length) :
    (NewTranscript.loop1 names (List.range k) GoMap.empty).entries = (List.range k).map (initEntry names) := by
  induction k with
  | zero => simp [NewTranscript.loop1, GoMap.empty]
  | succ k ih =>
    rw [List.range_succ, newLoop_snoc, GoMap.set, ih (by omega), List.map_append]
    rw [setL_none]
    · simp [initEntry]
    · rw [List.findIdx?_eq_none_iff]
      intro e he
      simp only [List.mem_map, List.mem_range] at he
      obtain ⟨j, hj, rfl⟩ := he
      apply decide_eq_false
      intro heq
      simp only [initEntry] at heq
      have h1 : names[j]? = names[k]? := by
        rw [List.getD_eq_getElem?_getD, List.getD_eq_getElem?_getD] at heq
        rw [List.getElem?_eq_getElem (by omega), List.getElem?_eq_getElem (by omega)] at heq ⊢
        simpa using heq
      have := (List.getElem?_inj (i := j) (j := k) (by omega) hnd).mp h1
      omega

theorem new_entries (h : Hash) (names : List Bytes) (hnd : names.Nodup) :
    (NewTranscript h names).challenges.entries = (List.range names.length).map (initEntry names) := by
  simp only [NewTranscript]
  exact newLoop_entries names hnd _ (Nat.le_refl _)

theorem init_refines (h : Hash) (names : List Bytes) (hnd : names.Nodup) :
    Inv (NewTranscript h names) ∧ abs (NewTranscript h names) = init names ∧
    (NewTranscript h names).challenges.entries.map (·.1) = names ∧ (NewTranscript h names).h = h := by
  have he := new_entries h names hnd
  have hkeys : (NewTranscript h names).challenges.entries.map (·.1) = names := by
    rw [he]
    apply List.ext_getElem?
    intro i
    by_cases hi : i < names.length
    · simp [initEntry, hi]
    · simp [hi]
  have hprev : (NewTranscript h names).previous = none := by simp [NewTranscript]
  refine ⟨⟨by rw [hkeys]; exact hnd, ?_, by simp [hprev]⟩, ?_, hkeys, by simp [NewTranscript]⟩
  · intro i e hi
    rw [he] at hi
    simp only [List.getElem?_map] at hi
    by_cases hlt : i < names.length
    · simp [hlt, initEntry] at hi; subst hi; rfl
    · simp [hlt] at hi
  · simp only [abs, hprev, he, init]
    simp only [Option.map_none, List.map_map]
    congr 1
    apply List.ext_getElem?
    intro i
    by_cases hi : i < names.length
    · simp [initEntry, hi, absChal]
    · simp [hi]

/-! ### ComputeChallenge -/

/-- hasher state after the loop over the bound values (stops at the first refused `Write`) -/
def hashAfter : List Bytes → Hash → Hash
  | [], h => h
  | b :: bs, h => match W b with
    | none => h
    | some a => hashAfter bs { written := h.written ++ [a] }

/-- the loop over the bound values: every `Write` accepted (the hasher has absorbed `absorb W bs` more) or the first refused
one makes the function return the hash error; only the hasher changes -/
theorem loop1_eq (bs : List Bytes) (h0 : Hash) (m : GoMap challenge) (p : Option challenge) :
    ComputeChallenge.loop1 W bs { h := h0, challenges := m, previous := p } =
      ({ h := hashAfter W bs h0, challenges := m, previous := p },
        match absorb W bs with
        | none => some ([], GoImp.Err.hashWrite)
        | some _ => none) := by
  induction bs generalizing h0 with
  | nil => rfl
  | cons b bs ih =>
    cases hb : W b with
    | none => simp [absorb, ComputeChallenge.loop1, Hash.Write, hb, hashAfter]
    | some a =>
      simp only [absorb, ComputeChallenge.loop1, Hash.Write, hb, hashAfter]
      cases hr : absorb W bs <;> simp [ih, hr]

theorem hashAfter_written (bs : List Bytes) (h0 : Hash) (r : Bytes) (h : absorb W bs = some r) :
    (hashAfter W bs h0).written.flatten = h0.written.flatten ++ r := by
  induction bs generalizing h0 r with
  | nil => simp [absorb] at h; subst h; simp [hashAfter]
  | cons b bs ih =>
    cases hb : W b with
    | none => simp [absorb, hb] at h
    | some a =>
      cases hr : absorb W bs with
      | none => simp [absorb, hb, hr] at h
      | some r' =>
        simp [absorb, hb, hr] at h; subst h
        simp [hashAfter, hb, ih _ _ hr]

/-- the tail of `ComputeChallenge` from the loop over the bound values on -/
theorem cont1_eq (h0 : Hash) (m : GoMap challenge) (p : Option challenge) (n : Bytes) (c : challenge) :
    ComputeChallenge.cont1 W H { h := h0, challenges := m, previous := p } n c =
      match absorb W c.bindings with
      | none => ({ h := hashAfter W c.bindings h0, challenges := m, previous := p }, ([], GoImp.Err.hashWrite))
      | some r =>
        ({ h := hashAfter W c.bindings h0,
           challenges := m.set n { c with value := H (h0.written.flatten ++ r), isComputed := true },
           previous := some { c with value := H (h0.written.flatten ++ r), isComputed := true } },
         (H (h0.written.flatten ++ r), GoImp.Err.nil)) := by
  simp only [ComputeChallenge.cont1, loop1_eq]
  cases hr : absorb W c.bindings with
  | none => rfl
  | some r => simp [Hash.Sum, copy_make, hashAfter_written W _ _ _ hr]

/-- storing a freshly computed value keeps the invariant; its abstraction -/
theorem inv_store (t : GTranscript) (n v : Bytes) (i : Nat) (c : challenge) (h' : Hash) (hi : Inv t)
    (hf : t.challenges.entries.findIdx? (fun e => e.1 = n) = some i) (hc : t.challenges.entries[i]? = some (n, c)) :
    let c' : challenge := { c with value := v, isComputed := true }
    let t' : GTranscript := { h := h', challenges := t.challenges.set n c', previous := some c' }
    Inv t' ∧ abs t' = { chals := (abs t).chals.set i { absChal (n, c) with value := some v }, prev := some i } := by
  intro c' t'
  have hilt : i < t.challenges.entries.length := (List.getElem?_eq_some_iff.mp hc).1
  have hpos : c.position = (i : Int) := hi.pos _ _ hc
  have he : t'.challenges.entries = t.challenges.entries.set i (n, c') := by
    simp [t', GoMap.set, setL_some _ _ _ _ hf]
  refine ⟨⟨?_, ?_, ?_⟩, ?_⟩
  · rw [he, keys_set _ _ _ _ _ hc]; exact hi.nodup
  · intro j e hj
    rw [he] at hj
    simp only [List.getElem?_set] at hj
    split at hj
    · subst_vars; simp at hj; subst hj; simpa [c'] using hpos
    · exact hi.pos _ _ hj
  · intro p hp
    simp [t'] at hp; subst hp
    refine ⟨rfl, n, ?_⟩
    rw [he]
    simp [c', hpos, hilt]
  · simp only [abs, he, List.map_set]
    simp [t', c', absChal, hpos]

theorem inv_h (t : GTranscript) (h' : Hash) (hi : Inv t) :
    Inv { h := h', challenges := t.challenges, previous := t.previous } := ⟨hi.nodup, hi.pos, hi.prev⟩

@[simp] theorem abs_h (h' : Hash) (t : GTranscript) :
    abs { h := h', challenges := t.challenges, previous := t.previous } = abs t := rfl

theorem inv_abs_of_fields (t t' : GTranscript) (hc : t'.challenges = t.challenges) (hp : t'.previous = t.previous)
    (hi : Inv t) : Inv t' ∧ abs t' = abs t := by
  refine ⟨⟨by rw [hc]; exact hi.nodup, by rw [hc]; exact hi.pos, by rw [hc, hp]; exact hi.prev⟩, by simp [abs, hc, hp]⟩

/-- the hasher after a call: untouched (unknown name, cached value) or Reset (the deferred `t.h.Reset()`) -/
def hashOK (t t' : GTranscript) : Prop := t'.h = t.h ∨ t'.h = Hash.Reset t.h

theorem compute_refines (t : GTranscript) (n : Bytes) (hi : Inv t) :
    Inv (ComputeChallenge W H t n).1 ∧ abs (ComputeChallenge W H t n).1 = (step W H (abs t) (.compute n)).1 ∧
    outCompute (ComputeChallenge W H t n).2 = (step W H (abs t) (.compute n)).2 ∧
    hashOK t (ComputeChallenge W H t n).1 := by
  simp only [step, find_abs]
  cases hf : t.challenges.entries.findIdx? (fun e => e.1 = n) with
  | none =>
    have hl := lookupL_none _ _ hf
    simp [ComputeChallenge, GoMap.lookup, hl, hi, outCompute, absErr, hashOK]
  | some i =>
    obtain ⟨c, hc, hl⟩ := lookupL_some _ _ _ hf
    have hilt : i < t.challenges.entries.length := (List.getElem?_eq_some_iff.mp hc).1
    have hac : (abs t).chals[i]? = some (absChal (n, c)) := by simp [abs, hc]
    have hpos : c.position = (i : Int) := hi.pos _ _ hc
    simp only [hac]
    cases hcomp : c.isComputed with
    | true =>
      simp [ComputeChallenge, GoMap.lookup, hl, hcomp, hi, outCompute, absChal, copy_make, hashOK]
    | false =>
      have hv : (absChal (n, c)).value = none := by simp [absChal, hcomp]
      have hnm : (absChal (n, c)).name = n := rfl
      simp only [hv, hnm]
      cases hWn : W n with
      | none =>
        simp [ComputeChallenge, GoMap.lookup, hl, hcomp, Hash.Write, Hash.Reset, hWn, inv_h, hi, outCompute, absErr, hashOK]
      | some a =>
        simp only []
        by_cases hi0 : i = 0
        · subst hi0
          have hp0 : (c.position != 0) = false := by simp [hpos]
          have hwr : absorb W (writes (abs t).chals 0 (absChal (n, c))) = (absorb W c.bindings).map (a ++ ·) := by
            simp only [writes, absChal, absorb, hWn, if_true, List.nil_append]
            cases absorb W c.bindings <;> simp
          simp only [hwr]
          cases hab : absorb W c.bindings with
          | none =>
            simp [ComputeChallenge, GoMap.lookup, hl, hcomp, Hash.Write, Hash.Reset, hWn, hp0, cont1_eq, hab,
              inv_h, hi, outCompute, absErr, hashOK]
          | some r =>
            obtain ⟨hI, hA⟩ := inv_store t n (H (a ++ r)) 0 c (Hash.Reset t.h) hi hf hc
            simp [ComputeChallenge, GoMap.lookup, hl, hcomp, Hash.Write, Hash.Reset, hWn, hp0, cont1_eq, hab,
              outCompute, hashOK]
            exact ⟨hI, hA⟩
        · have hp0 : (c.position != 0) = true := by simp [hpos]; omega
          cases hp : t.previous with
          | none =>
            have hm : (abs t).prev = none := by simp [abs, hp]
            simp [ComputeChallenge, GoMap.lookup, hl, hcomp, Hash.Write, Hash.Reset, hWn, hp0, hp, hm, hi0,
              outCompute, absErr, hashOK]
            exact inv_abs_of_fields t _ rfl hp.symm hi
          | some p =>
            obtain ⟨hpc, k, hk⟩ := hi.prev p hp
            have hpp : p.position = ((p.position.toNat : Nat) : Int) := hi.pos _ _ hk
            generalize hj : p.position.toNat = j at hk hpp
            have hm : (abs t).prev = some j := by simp [abs, hp, hj]
            by_cases hji : j = i - 1
            · have hcond : (p.position != c.position - 1) = false := by simp [hpos, hpp]; omega
              have hwr : absorb W (writes (abs t).chals i (absChal (n, c))) =
                  match W p.value with
                  | none => none
                  | some b => (absorb W c.bindings).map (fun r => a ++ (b ++ r)) := by
                have hpv : (abs t).chals[i-1]? = some (absChal (k, p)) := by simp [abs, ← hji, hk]
                simp only [writes, hi0, if_false, hpv, absChal, hpc, absorb, hWn, List.cons_append, List.nil_append]
                simp only [Option.bind, if_true, Option.getD]
                cases W p.value with
                | none => rfl
                | some b => cases absorb W c.bindings <;> simp
              have hnc : ¬ (i ≠ 0 ∧ (abs t).prev ≠ some (i - 1)) := by simp [hm, hji]
              simp only [hnc, if_false, hwr]
              cases hWp : W p.value with
              | none =>
                simp [ComputeChallenge, GoMap.lookup, hl, hcomp, Hash.Write, Hash.Reset, hWn, hp0, hp, hcond, deref, hWp,
                  outCompute, absErr, hashOK]
                exact inv_abs_of_fields t _ rfl hp.symm hi
              | some b =>
                cases hab : absorb W c.bindings with
                | none =>
                  simp [ComputeChallenge, GoMap.lookup, hl, hcomp, Hash.Write, Hash.Reset, hWn, hp0, hp, hcond, deref, hWp,
                    cont1_eq, hab, outCompute, absErr, hashOK]
                  exact inv_abs_of_fields t _ rfl hp.symm hi
                | some r =>
                  obtain ⟨hI, hA⟩ := inv_store t n (H (a ++ (b ++ r))) i c (Hash.Reset t.h) hi hf hc
                  simp [ComputeChallenge, GoMap.lookup, hl, hcomp, Hash.Write, Hash.Reset, hWn, hp0, hp, hcond, deref, hWp,
                    cont1_eq, hab, outCompute, hashOK]
                  exact ⟨hI, hA⟩
            · have hcond : (p.position != c.position - 1) = true := by simp [hpos, hpp]; omega
              simp [ComputeChallenge, GoMap.lookup, hl, hcomp, Hash.Write, Hash.Reset, hWn, hp0, hp, hm, hi0, hji, hcond, deref,
                outCompute, absErr, hashOK]
              exact inv_abs_of_fields t _ rfl hp.symm hi

/-! ### histories -/

/-- one call of the generated code, its result rendered as the model's `Out` -/
def genStep (t : GTranscript) : Op → GTranscript × Out
  | .bind n v => ((FiatShamir.Bind t n v).1, outBind (FiatShamir.Bind t n v).2)
  | .compute n => ((ComputeChallenge W H t n).1, outCompute (ComputeChallenge W H t n).2)

def genRun (t : GTranscript) : List Op → GTranscript × List Out
  | [] => (t, [])
  | op :: ops => ((genRun (genStep W H t op).1 ops).1, (genStep W H t op).2 :: (genRun (genStep W H t op).1 ops).2)

/-! ### errors leave the transcript as it was (no invariant needed: a fact about the return paths of the Go text) -/

theorem bind_error_unchanged (t : GTranscript) (n v : Bytes) (h : (FiatShamir.Bind t n v).2 ≠ GoImp.Err.nil) :
    (FiatShamir.Bind t n v).1 = t := by
  simp only [FiatShamir.Bind] at h ⊢
  (repeat' split) <;> simp_all

theorem compute_error_unchanged (t : GTranscript) (n : Bytes) (h : (ComputeChallenge W H t n).2.2 ≠ GoImp.Err.nil) :
    (ComputeChallenge W H t n).1.challenges = t.challenges ∧ (ComputeChallenge W H t n).1.previous = t.previous ∧
    (ComputeChallenge W H t n).2.1 = [] := by
  simp only [ComputeChallenge, cont1_eq] at h ⊢
  (repeat' split) <;> simp_all

end GV.Transcript.Gen
