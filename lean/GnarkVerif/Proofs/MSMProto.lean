import GnarkVerif.Model.MSMProto
/-
Lemmas for Props/C04_proto: the buffered-channel semantics of `Model/MSMProto.lean` run on the NORMAL FORM of the MSM
protocol (what `WorkerOK` / `MainOK` skeletons unroll to) — invariant over all interleavings.
-/
namespace GV.MSMProto

/-! ## sums over the goroutine pool -/

def gsum (f : List Ev → Nat) (G : List (List Ev)) : Nat := (G.map f).sum

@[simp] theorem gsum_nil (f : List Ev → Nat) : gsum f [] = 0 := rfl
@[simp] theorem gsum_cons (f : List Ev → Nat) (a : List Ev) (G : List (List Ev)) : gsum f (a :: G) = f a + gsum f G := by
  simp [gsum]
theorem gsum_append_single (f : List Ev → Nat) (G : List (List Ev)) (p : List Ev) : gsum f (G ++ [p]) = gsum f G + f p := by
  induction G with
  | nil => simp
  | cons a G ih => simp [ih]; omega

theorem gsum_set (f : List Ev → Nat) : ∀ (G : List (List Ev)) (k : Nat) (x y : List Ev), G[k]? = some y →
    gsum f (G.set k x) + f y = gsum f G + f x := by
  intro G
  induction G with
  | nil => intro k x y h; simp at h
  | cons a G ih =>
    intro k x y h
    cases k with
    | zero => simp at h; subst h; simp; omega
    | succ k => simp at h; have := ih k x y h; simp; omega

theorem gsum_add (f h k : List Ev → Nat) (G : List (List Ev)) (hp : ∀ g ∈ G, f g = h g + k g) :
    gsum f G = gsum h G + gsum k G := by
  induction G with
  | nil => simp
  | cons a G ih =>
    have h1 := hp a (by simp)
    have h2 := ih (fun g hg => hp g (by simp [hg]))
    simp; omega

theorem gsum_le (f h : List Ev → Nat) (G : List (List Ev)) (hp : ∀ g ∈ G, f g ≤ h g) : gsum f G ≤ gsum h G := by
  induction G with
  | nil => simp
  | cons a G ih =>
    have h1 := hp a (by simp)
    have h2 := ih (fun g hg => hp g (by simp [hg]))
    simp; omega

theorem gsum_zero (f : List Ev → Nat) (G : List (List Ev)) (hp : ∀ g ∈ G, f g = 0) : gsum f G = 0 := by
  induction G with
  | nil => simp
  | cons a G ih =>
    have h1 := hp a (by simp)
    have h2 := ih (fun g hg => hp g (by simp [hg]))
    simp; omega

theorem gsum_mem_le (f : List Ev → Nat) (G : List (List Ev)) (g : List Ev) (hg : g ∈ G) : f g ≤ gsum f G := by
  induction G with
  | nil => simp at hg
  | cons a G ih =>
    simp at hg
    rcases hg with rfl | hg
    · simp
    · have := ih hg; simp; omega

theorem exists_of_gsum_pos (f : List Ev → Nat) (G : List (List Ev)) (h : 1 ≤ gsum f G) : ∃ g ∈ G, 1 ≤ f g := by
  induction G with
  | nil => simp at h
  | cons a G ih =>
    by_cases ha : 1 ≤ f a
    · exact ⟨a, by simp, ha⟩
    · simp at h
      obtain ⟨g, hg, h1⟩ := ih (by omega)
      exact ⟨g, by simp [hg], h1⟩

/-! ## the normal form -/

def W (c : Ch) : List Ev := [.recv .sem, .send .sem, .send c]
def Cj (j : Nat) : List Ev := [.recv (.split j), .recv (.split j), .close (.split j), .send (.chunk j)]

def chunkEvs (split : Nat → Bool) (j : Nat) : List MEv :=
  if split j then [.ev (.send .sem), .go (W (.split j)), .go (W (.split j)), .go (Cj j)] else [.go (W (.chunk j))]

def spawns (split : Nat → Bool) : Nat → List MEv
  | 0 => []
  | n + 1 => chunkEvs split n ++ spawns split n

def recvs : Nat → List MEv
  | 0 => []
  | n + 1 => .ev (.recv (.chunk n)) :: recvs n

def normalMain (K nb : Nat) (split : Nat → Bool) : List MEv :=
  List.replicate K (.ev (.send .sem)) ++ (spawns split nb ++ (recvs nb ++ [.ev (.close .sem)]))

/-- number of overweight chunks below `n` -/
def nsplit (split : Nat → Bool) : Nat → Nat
  | 0 => 0
  | n + 1 => (if split n then 1 else 0) + nsplit split n

theorem nsplit_le (split : Nat → Bool) (n : Nat) : nsplit split n ≤ n := by
  induction n with
  | zero => simp [nsplit]
  | succ n ih => simp only [nsplit]; split <;> omega

/-- all events still to come of the main goroutine, including those of the goroutines it has not started yet -/
def mflat : List MEv → List Ev
  | [] => []
  | .ev e :: m => e :: mflat m
  | .go p :: m => p ++ mflat m

theorem mflat_append (a b : List MEv) : mflat (a ++ b) = mflat a ++ mflat b := by
  induction a with
  | nil => simp [mflat]
  | cons x a ih => cases x <;> simp [mflat, ih]

/-- how often event `x` is still to come, anywhere -/
def cnt (x : Ev) (s : State) : Nat := (mflat s.main).count x + gsum (List.count x) s.gs

/-- the forms a started goroutine can have -/
def Shape (g : List Ev) : Prop :=
  g = [] ∨
  (∃ j, g = W (.chunk j) ∨ g = [.send .sem, .send (.chunk j)] ∨ g = [.send (.chunk j)]) ∨
  (∃ j, g = W (.split j) ∨ g = [.send .sem, .send (.split j)] ∨ g = [.send (.split j)]) ∨
  (∃ j, g = Cj j ∨ g = [.recv (.split j), .close (.split j), .send (.chunk j)] ∨ g = [.close (.split j), .send (.chunk j)])

theorem Shape.tail {e : Ev} {g : List Ev} (h : Shape (e :: g)) : Shape g := by
  unfold Shape at h ⊢
  rcases h with h | ⟨j, h | h | h⟩ | ⟨j, h | h | h⟩ | ⟨j, h | h | h⟩ <;> simp [W, Cj] at h
  · right; left; exact ⟨j, by simp [h.2]⟩
  · right; left; exact ⟨j, by simp [h.2]⟩
  · left; exact h.2
  · right; right; left; exact ⟨j, by simp [h.2]⟩
  · right; right; left; exact ⟨j, by simp [h.2]⟩
  · left; exact h.2
  · right; right; right; exact ⟨j, by simp [h.2]⟩
  · right; right; right; exact ⟨j, by simp [h.2]⟩
  · right; left; exact ⟨j, by simp [h.2]⟩

/-- the worker holds a token: its next event is the release -/
def hold (g : List Ev) : Nat := if g.head? = some (.send .sem) then 1 else 0

theorem shape_facts {g : List Ev} (h : Shape g) :
    (∀ j, g.count (.recv (.chunk j)) = 0) ∧
    (∀ j, g.count (.recv (.split j)) ≤ 2 * g.count (.close (.split j))) ∧
    (∀ j, 1 ≤ g.count (.recv (.split j)) → 1 ≤ g.count (.send (.chunk j))) ∧
    (g.count (.send .sem) = g.count (.recv .sem) + hold g) ∧
    (1 ≤ g.count (.send .sem) → ∃ j, 1 ≤ g.count (.send (.chunk j)) ∨ 1 ≤ g.count (.send (.split j))) ∧
    (g.count (.close .sem) = 0) ∧ (∀ j, g.count (.close (.chunk j)) = 0) ∧
    (∀ j, g.count (.close (.split j)) ≤ g.count (.send (.chunk j))) := by
  unfold Shape at h
  rcases h with h | ⟨j, h | h | h⟩ | ⟨j, h | h | h⟩ | ⟨j, h | h | h⟩ <;> subst h <;>
    simp [W, Cj, hold, List.count_cons]
  all_goals first
    | exact ⟨j, by simp⟩
    | (refine ⟨fun j' => ?_, fun j' => ?_⟩ <;> by_cases hj : j = j' <;> simp [hj])
    | (intro j'; by_cases hj : j = j' <;> simp [hj])

/-! ## what one step does -/

/-- the goroutine that moves: event, the main program and the pool afterwards -/
inductive Fire (s : State) : Ev → List MEv → List (List Ev) → Prop
  | main (e : Ev) (m : List MEv) : s.main = .ev e :: m → Fire s e m s.gs
  | gor (k : Nat) (e : Ev) (g : List Ev) : s.gs[k]? = some (e :: g) → Fire s e s.main (s.gs.set k g)

theorem execEv_frame {cap : Ch → Nat} {s s1 : State} {e : Ev} (h : execEv cap s e = some s1) :
    s1.main = s.main ∧ s1.gs = s.gs := by
  cases e <;> simp only [execEv] at h <;> (repeat' split at h) <;> simp at h <;> subst h <;> simp

theorem step_cases {cap : Ch → Nat} {s s' : State} {i : Nat} (h : step cap s i = some s') :
    s.panic = false ∧
    ((∃ p m, s.main = .go p :: m ∧ s' = { s with main := m, gs := s.gs ++ [p] }) ∨
     (∃ e M G s1, Fire s e M G ∧ execEv cap s e = some s1 ∧ s' = { s1 with main := M, gs := G })) := by
  unfold step at h
  split at h
  · simp at h
  · rename_i hp
    refine ⟨by simpa using hp, ?_⟩
    split at h
    · split at h
      · simp at h
      · rename_i p m hm
        left; exact ⟨p, m, hm, by simpa using h.symm⟩
      · rename_i e m hm
        right
        simp only [Option.map_eq_some_iff] at h
        obtain ⟨s1, h1, h2⟩ := h
        exact ⟨e, m, s.gs, s1, Fire.main e m hm, h1, by rw [← h2, (execEv_frame h1).2]⟩
    · rename_i k
      split at h
      · rename_i e g hk
        right
        simp only [Option.map_eq_some_iff] at h
        obtain ⟨s1, h1, h2⟩ := h
        refine ⟨e, s.main, s.gs.set k g, s1, Fire.gor k e g hk, h1, ?_⟩
        rw [← h2, (execEv_frame h1).2]
        have := (execEv_frame h1).1
        cases s1; simp at this ⊢; exact this
      · simp at h

theorem count_cons_ev (x e : Ev) (l : List Ev) : (e :: l).count x = l.count x + (if x = e then 1 else 0) := by
  rw [List.count_cons]
  by_cases h : x = e
  · subst h; simp
  · have : ¬ e = x := fun h' => h h'.symm
    simp [h, this]

theorem fire_cnt {s : State} {e : Ev} {M : List MEv} {G : List (List Ev)} (h : Fire s e M G) (x : Ev) :
    (mflat M).count x + gsum (List.count x) G + (if x = e then 1 else 0) = cnt x s := by
  cases h with
  | main e m hm => simp only [cnt, hm, mflat, count_cons_ev]; omega
  | gor k e g hk =>
    have := gsum_set (List.count x) s.gs k g (e :: g) hk
    rw [count_cons_ev] at this
    simp only [cnt]; omega

/-! ## the invariant -/

def rank : MEv → Nat
  | .ev (.recv _) => 1
  | .ev (.close _) => 2
  | _ => 0

/-- the events of the main goroutine in normal form -/
def MOk (x : MEv) : Prop :=
  x = .ev (.send .sem) ∨ (∃ j, x = .go (W (.chunk j))) ∨ (∃ j, x = .go (W (.split j))) ∨ (∃ j, x = .go (Cj j)) ∨
  (∃ j, x = .ev (.recv (.chunk j))) ∨ x = .ev (.close .sem)

theorem MOk.shape {p : List Ev} (h : MOk (.go p)) : Shape p := by
  unfold MOk at h; unfold Shape
  rcases h with h | ⟨j, h⟩ | ⟨j, h⟩ | ⟨j, h⟩ | ⟨j, h⟩ | h <;> simp at h
  · right; left; exact ⟨j, Or.inl h⟩
  · right; right; left; exact ⟨j, Or.inl h⟩
  · right; right; right; exact ⟨j, Or.inl h⟩

/-- counting facts about the future of the main goroutine -/
theorem mflat_facts {M : List MEv} (h : ∀ x ∈ M, MOk x) :
    (∀ j, (mflat M).count (.recv (.split j)) ≤ 2 * (mflat M).count (.close (.split j))) ∧
    ((mflat M).count (.recv .sem) ≤ (mflat M).count (.send .sem)) := by
  induction M with
  | nil => simp [mflat]
  | cons x M ih =>
    have ih := ih (fun y hy => h y (by simp [hy]))
    have hx := h x (by simp)
    unfold MOk at hx
    rcases hx with hx | ⟨j, hx⟩ | ⟨j, hx⟩ | ⟨j, hx⟩ | ⟨j, hx⟩ | hx <;> subst hx <;>
      simp only [mflat, W, Cj, List.count_append, count_cons_ev, List.count_nil] <;>
      (constructor
       · intro j'
         have h1 := ih.1 j'
         first | (simp <;> omega) | (by_cases hj : j' = j <;> simp [hj] <;> omega)
       · have h2 := ih.2
         simp <;> omega)

/-- when the main goroutine has only receives / the close left, its future has no send and no `<-sem`, `<-chSplit` -/
theorem mflat_phase {M : List MEv} (h : ∀ x ∈ M, MOk x) (hr : ∀ x ∈ M, 1 ≤ rank x) :
    (∀ c, (mflat M).count (.send c) = 0) ∧ (mflat M).count (.recv .sem) = 0 ∧ (∀ j, (mflat M).count (.recv (.split j)) = 0) := by
  induction M with
  | nil => simp [mflat]
  | cons x M ih =>
    have ih := ih (fun y hy => h y (by simp [hy])) (fun y hy => hr y (by simp [hy]))
    have hx := h x (by simp)
    have hrx := hr x (by simp)
    unfold MOk at hx
    rcases hx with hx | ⟨j, hx⟩ | ⟨j, hx⟩ | ⟨j, hx⟩ | ⟨j, hx⟩ | hx <;> subst hx <;> simp [rank] at hrx <;>
      simp only [mflat, count_cons_ev] <;> simp [ih]

structure Inv (T : Nat) (s : State) : Prop where
  np : s.panic = false
  bal : ∀ c, s.buf c + cnt (.send c) s = (if c = .sem then T else 0) + cnt (.recv c) s
  shape : ∀ g ∈ s.gs, Shape g
  mok : ∀ x ∈ s.main, MOk x
  sorted : s.main.Pairwise (fun a b => rank a ≤ rank b)
  mlast : s.main = [] ∨ s.main.getLast? = some (.ev (.close .sem))
  clS : ∀ c, s.closed c = true → cnt (.send c) s = 0
  clC : ∀ c, s.closed c = true → cnt (.close c) s = 0
  c1 : ∀ c, cnt (.close c) s ≤ 1
  rc : ∀ j, cnt (.recv (.chunk j)) s ≤ 1 ∧ cnt (.recv (.split j)) s ≤ 2

theorem getLast?_tail {α : Type} {x : α} {m : List α} {y : α} (h : (x :: m).getLast? = some y) :
    m = [] ∨ m.getLast? = some y := by
  cases m with
  | nil => left; rfl
  | cons b l => right; simpa [List.getLast?_cons_cons] using h

/-- a `go` step of the main goroutine -/
theorem inv_go {T : Nat} {s : State} {p : List Ev} {m : List MEv} (h : Inv T s) (hm : s.main = .go p :: m) :
    Inv T { s with main := m, gs := s.gs ++ [p] } := by
  have hc : ∀ x, cnt x { s with main := m, gs := s.gs ++ [p] } = cnt x s := by
    intro x; simp only [cnt, hm, mflat, List.count_append, gsum_append_single]; omega
  have hmok : ∀ x ∈ m, MOk x := fun x hx => h.mok x (by simp [hm, hx])
  refine ⟨h.np, ?_, ?_, hmok, ?_, ?_, ?_, ?_, ?_, ?_⟩
  · intro c; rw [hc, hc]; exact h.bal c
  · intro g hg
    simp at hg
    rcases hg with hg | hg
    · exact h.shape g hg
    · subst hg; exact (h.mok _ (by simp [hm])).shape
  · have := h.sorted; rw [hm] at this; exact (List.pairwise_cons.mp this).2
  · rcases h.mlast with h0 | h0
    · simp [hm] at h0
    · rw [hm] at h0; exact getLast?_tail h0
  · intro c hcl; rw [hc]; exact h.clS c hcl
  · intro c hcl; rw [hc]; exact h.clC c hcl
  · intro c; rw [hc]; exact h.c1 c
  · intro j; rw [hc, hc]; exact h.rc j

/-- frame facts of an event step -/
theorem fire_frame {T : Nat} {s : State} {e : Ev} {M : List MEv} {G : List (List Ev)} (h : Inv T s) (hf : Fire s e M G) :
    (∀ g ∈ G, Shape g) ∧ (∀ x ∈ M, MOk x) ∧ M.Pairwise (fun a b => rank a ≤ rank b) ∧
    (M = [] ∨ M.getLast? = some (.ev (.close .sem))) := by
  cases hf with
  | main e m hm =>
    refine ⟨h.shape, fun x hx => h.mok x (by simp [hm, hx]), ?_, ?_⟩
    · have := h.sorted; rw [hm] at this; exact (List.pairwise_cons.mp this).2
    · rcases h.mlast with h0 | h0
      · simp [hm] at h0
      · rw [hm] at h0; exact getLast?_tail h0
  | gor k e g hk =>
    refine ⟨?_, h.mok, h.sorted, h.mlast⟩
    intro g' hg'
    rcases List.mem_or_eq_of_mem_set hg' with h1 | h1
    · exact h.shape g' h1
    · subst h1; exact (h.shape _ (List.mem_of_getElem? hk)).tail

def cnt2 (x : Ev) (M : List MEv) (G : List (List Ev)) : Nat := (mflat M).count x + gsum (List.count x) G
theorem cnt_eq (x : Ev) (s : State) : cnt x s = cnt2 x s.main s.gs := rfl

theorem fire_self {s : State} {e : Ev} {M : List MEv} {G : List (List Ev)} (h : Fire s e M G) :
    cnt2 e M G + 1 = cnt e s := by
  have := fire_cnt h e; simp at this; exact this
theorem fire_other {s : State} {e : Ev} {M : List MEv} {G : List (List Ev)} (h : Fire s e M G) (x : Ev) (hx : x ≠ e) :
    cnt2 x M G = cnt x s := by
  have := fire_cnt h x; simp [hx] at this; exact this
theorem fire_le {s : State} {e : Ev} {M : List MEv} {G : List (List Ev)} (h : Fire s e M G) (x : Ev) :
    cnt2 x M G ≤ cnt x s := by
  have := fire_cnt h x; unfold cnt2; omega

theorem close_cases {T : Nat} {s : State} {c : Ch} {M : List MEv} {G : List (List Ev)} (h : Inv T s)
    (hf : Fire s (.close c) M G) : (c = .sem ∧ s.main = .ev (.close .sem) :: M ∧ G = s.gs) ∨ ∃ j, c = .split j := by
  cases hf with
  | main e m hm =>
    have := h.mok (.ev (.close c)) (by simp [hm])
    unfold MOk at this
    simp at this
    subst this
    left; exact ⟨rfl, hm, rfl⟩
  | gor k e g hk =>
    have := h.shape _ (List.mem_of_getElem? hk)
    unfold Shape at this
    rcases this with h0 | ⟨j, h0 | h0 | h0⟩ | ⟨j, h0 | h0 | h0⟩ | ⟨j, h0 | h0 | h0⟩ <;> simp [W, Cj] at h0
    right; exact ⟨j, h0.1⟩

/-- the total of an event over the pool, bounded pointwise -/
theorem cnt2_split_bound {M : List MEv} {G : List (List Ev)} (hM : ∀ x ∈ M, MOk x) (hG : ∀ g ∈ G, Shape g) (j : Nat) :
    cnt2 (.recv (.split j)) M G ≤ 2 * cnt2 (.close (.split j)) M G := by
  have h1 := (mflat_facts hM).1 j
  have h2 := gsum_le (List.count (.recv (.split j))) (fun g => 2 * List.count (.close (.split j)) g) G
    (fun g hg => (shape_facts (hG g hg)).2.1 j)
  have h3 : gsum (fun g => 2 * List.count (Ev.close (Ch.split j)) g) G = 2 * gsum (List.count (Ev.close (Ch.split j))) G := by
    clear h2 hG
    induction G with
    | nil => simp
    | cons a G ih => simp [ih]; omega
  unfold cnt2; omega

/-- when `close(sem)` runs, no goroutine has a release left: every pending release is followed by a result send, and all result
sends have been received -/
theorem no_release_left {T : Nat} {s : State} (h : Inv T s) (hm : s.main = [.ev (.close .sem)]) :
    gsum (List.count (.send .sem)) s.gs = 0 := by
  have hchunk : ∀ j, cnt (.send (.chunk j)) s = 0 := by
    intro j
    have hb := h.bal (.chunk j)
    have hr : cnt (.recv (.chunk j)) s = 0 := by
      simp only [cnt, hm, mflat]
      rw [gsum_zero _ _ (fun g hg => (shape_facts (h.shape g hg)).1 j)]
      simp
    simp at hb; omega
  rcases Nat.eq_zero_or_pos (gsum (List.count (.send .sem)) s.gs) with h0 | hpos
  · exact h0
  exfalso
  obtain ⟨g, hg, h1⟩ := exists_of_gsum_pos _ _ hpos
  obtain ⟨j, hj | hj⟩ := (shape_facts (h.shape g hg)).2.2.2.2.1 h1
  · have := hchunk j
    have h2 := gsum_mem_le (List.count (.send (.chunk j))) s.gs g hg
    simp only [cnt] at this; omega
  · have hb := h.bal (.split j)
    have h2 := gsum_mem_le (List.count (.send (.split j))) s.gs g hg
    have hr : 1 ≤ gsum (List.count (.recv (.split j))) s.gs := by
      simp only [cnt, hm, mflat] at hb
      simp at hb; omega
    obtain ⟨g', hg', h3⟩ := exists_of_gsum_pos _ _ hr
    have h4 := (shape_facts (h.shape g' hg')).2.2.1 j h3
    have h5 := gsum_mem_le (List.count (.send (.chunk j))) s.gs g' hg'
    have := hchunk j
    simp only [cnt] at this; omega

theorem mflat_count_mem {e : Ev} {M : List MEv} (hmem : MEv.ev e ∈ M) : 1 ≤ (mflat M).count e := by
  induction M with
  | nil => simp at hmem
  | cons x M ih =>
    simp at hmem
    rcases hmem with rfl | hmem
    · simp [mflat]
    · have := ih hmem
      cases x <;> simp only [mflat, List.count_append, count_cons_ev] <;> omega

/-- an event step preserves the invariant (in particular it does not reach the panic state) -/
theorem inv_ev {T : Nat} {cap : Ch → Nat} {s s1 : State} {e : Ev} {M : List MEv} {G : List (List Ev)}
    (h : Inv T s) (hf : Fire s e M G) (hx : execEv cap s e = some s1) : Inv T { s1 with main := M, gs := G } := by
  obtain ⟨hS, hM, hP, hL⟩ := fire_frame h hf
  have hself := fire_self hf
  have hoth := fire_other hf
  have hle := fire_le hf
  have hclS : ∀ d, s.closed d = true → cnt2 (.send d) M G = 0 := fun d hcl => by
    have := h.clS d hcl; have := hle (.send d); omega
  have hclC : ∀ d, s.closed d = true → cnt2 (.close d) M G = 0 := fun d hcl => by
    have := h.clC d hcl; have := hle (.close d); omega
  have hc1 : ∀ d, cnt2 (.close d) M G ≤ 1 := fun d => by
    have := h.c1 d; have := hle (.close d); omega
  have hrc : ∀ j, cnt2 (.recv (.chunk j)) M G ≤ 1 ∧ cnt2 (.recv (.split j)) M G ≤ 2 := fun j => by
    have := h.rc j; have := hle (.recv (.chunk j)); have := hle (.recv (.split j)); omega
  cases e with
  | recv c =>
    simp only [execEv] at hx
    have hbal := h.bal c
    split at hx
    · rename_i hb
      simp at hx; subst hx
      refine ⟨h.np, ?_, hS, hM, hP, hL, hclS, hclC, hc1, hrc⟩
      intro d
      simp only [cnt_eq]
      have hb' := h.bal d
      rw [hoth (.send d) (by simp)]
      by_cases hd : d = c
      · subst hd; simp only [if_true]
        generalize (if d = Ch.sem then T else 0) = E at *
        omega
      · rw [hoth (.recv d) (by simp [hd])]; simp only [hd, if_false]; exact hb'
    · split at hx
      · rename_i hb hcl
        exfalso
        have := h.clS c hcl
        generalize (if c = Ch.sem then T else 0) = E at *
        omega
      · simp at hx
  | send c =>
    simp only [execEv] at hx
    split at hx
    · rename_i hcl
      exfalso
      have := h.clS c hcl
      omega
    · split at hx
      · simp at hx; subst hx
        refine ⟨h.np, ?_, hS, hM, hP, hL, hclS, hclC, hc1, hrc⟩
        intro d
        simp only [cnt_eq]
        have hb' := h.bal d
        rw [hoth (.recv d) (by simp)]
        by_cases hd : d = c
        · subst hd; simp only [if_true]
          generalize (if d = Ch.sem then T else 0) = E at *
          omega
        · rw [hoth (.send d) (by simp [hd])]; simp only [hd, if_false]; exact hb'
      · simp at hx
  | close c =>
    simp only [execEv] at hx
    split at hx
    · rename_i hcl
      exfalso
      have := h.clC c hcl
      omega
    · rename_i hncl
      simp at hx; subst hx
      have hbal' : ∀ d, s.buf d + cnt2 (.send d) M G = (if d = .sem then T else 0) + cnt2 (.recv d) M G := by
        intro d
        rw [hoth (.send d) (by simp), hoth (.recv d) (by simp)]; exact h.bal d
      have hc0 : cnt2 (.close c) M G = 0 := by have := h.c1 c; omega
      refine ⟨h.np, hbal', hS, hM, hP, hL, ?_, ?_, hc1, hrc⟩
      · intro d hd
        simp only [cnt_eq]
        by_cases hdc : d = c
        · subst hdc
          rcases close_cases h hf with ⟨hsem, hmain, hG⟩ | ⟨j, hj⟩
          · -- close(sem) by the main goroutine: it is its last event
            subst hsem; subst hG
            have hMnil : M = [] := by
              rcases hL with h0 | h0
              · exact h0
              · exfalso
                have hmem : MEv.ev (.close .sem) ∈ M := List.mem_of_getLast? h0
                have := mflat_count_mem hmem
                unfold cnt2 at hc0; omega
            subst hMnil
            have := no_release_left h hmain
            simp [cnt2, mflat, this]
          · subst hj
            have h1 := cnt2_split_bound hM hS j
            have h2 := hbal' (.split j)
            simp at h2
            omega
        · simp [hdc] at hd
          exact hclS d hd
      · intro d hd
        simp only [cnt_eq]
        by_cases hdc : d = c
        · subst hdc; exact hc0
        · simp [hdc] at hd
          exact hclC d hd

/-! ## safety and progress from the invariant -/

/-- what the theorems state of every reachable state: not the panic state; a goroutine about to release its token finds `sem`
open and not full; the state is final (every goroutine has run to its end) or some goroutine can make a step -/
def Safe (cap : Ch → Nat) (s : State) : Prop :=
  s.panic = false ∧
  (∀ g ∈ s.gs, g.head? = some (.send .sem) → s.closed .sem = false ∧ s.buf .sem < cap .sem) ∧
  (s.final ∨ ∃ i s', step cap s i = some s')

theorem shape_head {e : Ev} {g : List Ev} (h : Shape (e :: g)) :
    e = .recv .sem ∨ e = .send .sem ∨ (∃ j, e = .send (.chunk j)) ∨ (∃ j, e = .send (.split j)) ∨
    (∃ j, e = .recv (.split j)) ∨ (∃ j, e = .close (.split j)) := by
  unfold Shape at h
  rcases h with h | ⟨j, h | h | h⟩ | ⟨j, h | h | h⟩ | ⟨j, h | h | h⟩ <;> simp [W, Cj] at h <;> obtain ⟨h1, _⟩ := h <;> subst h1 <;> simp

theorem sem_slack {T : Nat} {s : State} (h : Inv T s) :
    s.buf .sem + (mflat s.main).count (.send .sem) + gsum hold s.gs = T + (mflat s.main).count (.recv .sem) := by
  have hb := h.bal .sem
  have := gsum_add (List.count (.send .sem)) (List.count (.recv .sem)) hold s.gs
    (fun g hg => (shape_facts (h.shape g hg)).2.2.2.1)
  simp only [cnt, if_true] at hb; omega

theorem gor_step {cap : Ch → Nat} {s s1 : State} {e : Ev} {g g' : List Ev} (hp : s.panic = false) (hg : g ∈ s.gs)
    (he : g = e :: g') (hx : execEv cap s e = some s1) : ∃ i s', step cap s i = some s' := by
  obtain ⟨k, hk⟩ := List.getElem?_of_mem hg
  refine ⟨k + 1, ?_⟩
  subst he
  simp [step, hp, hk, hx]

/-- a release is never blocked and never hits a closed channel -/
theorem release_ok {T semCap : Nat} {s : State} (hTc : T ≤ semCap) (h : Inv T s) {g : List Ev} (hg : g ∈ s.gs)
    (hh : g.head? = some (.send .sem)) : s.closed .sem = false ∧ s.buf .sem < semCap := by
  have hcnt : 1 ≤ List.count (.send .sem) g := by
    cases g with
    | nil => simp at hh
    | cons e g' => simp at hh; subst hh; simp
  have h1 := gsum_mem_le (List.count (.send .sem)) s.gs g hg
  constructor
  · cases hc : s.closed .sem with
    | false => rfl
    | true => have := h.clS .sem hc; simp only [cnt] at this; omega
  · have h2 := sem_slack h
    have h3 := gsum_mem_le hold s.gs g hg
    have h4 : hold g = 1 := by simp [hold, hh]
    have h5 := (mflat_facts h.mok).2
    omega

/-- heads that are enabled outright -/
theorem enabled_direct {T semCap : Nat} {s : State} (hTc : T ≤ semCap) (h : Inv T s) {g g' : List Ev} {e : Ev} (hg : g ∈ s.gs)
    (he : g = e :: g')
    (hk : e = .send .sem ∨ (∃ j, e = .send (.chunk j)) ∨ (∃ j, e = .send (.split j)) ∨ (∃ j, e = .close (.split j))) :
    ∃ i s', step (capOf semCap) s i = some s' := by
  have hcnt : 1 ≤ cnt e s := by
    have h1 := gsum_mem_le (List.count e) s.gs g hg
    have : 1 ≤ List.count e g := by subst he; simp
    simp only [cnt]; omega
  rcases hk with hk | ⟨j, hk⟩ | ⟨j, hk⟩ | ⟨j, hk⟩ <;> subst hk
  · obtain ⟨h1, h2⟩ := release_ok hTc h hg (by subst he; simp)
    exact gor_step h.np hg he (s1 := _) (by simp [execEv, h1, h2, capOf]; rfl)
  · have hc : s.closed (.chunk j) = false := by
      cases hc : s.closed (.chunk j) with
      | false => rfl
      | true => have := h.clS _ hc; omega
    have hb := h.bal (.chunk j)
    have := (h.rc j).1
    simp at hb
    have hb0 : s.buf (.chunk j) < 1 := by omega
    exact gor_step h.np hg he (s1 := _) (by simp [execEv, hc, capOf, hb0]; rfl)
  · have hc : s.closed (.split j) = false := by
      cases hc : s.closed (.split j) with
      | false => rfl
      | true => have := h.clS _ hc; omega
    have hb := h.bal (.split j)
    have := (h.rc j).2
    simp at hb
    have hb0 : s.buf (.split j) < 2 := by omega
    exact gor_step h.np hg he (s1 := _) (by simp [execEv, hc, capOf, hb0]; rfl)
  · have hc : s.closed (.split j) = false := by
      cases hc : s.closed (.split j) with
      | false => rfl
      | true => have := h.clC _ hc; omega
    exact gor_step h.np hg he (s1 := _) (by simp [execEv, hc]; rfl)

theorem recv_step {cap : Ch → Nat} {s : State} {c : Ch} (hb : 0 < s.buf c ∨ s.closed c = true) :
    ∃ s1, execEv cap s (.recv c) = some s1 := by
  by_cases h0 : 0 < s.buf c
  · exact ⟨_, by simp [execEv, h0]; rfl⟩
  · rcases hb with hb | hb
    · exact absurd hb h0
    · exact ⟨_, by simp [execEv, h0, hb]; rfl⟩

/-- a goroutine waiting for a token, once the main goroutine only receives: a token is there or a holder can release -/
theorem enabled_recv_sem {T semCap : Nat} {s : State} (hT1 : 1 ≤ T) (hTc : T ≤ semCap) (h : Inv T s)
    (hph : ∀ y ∈ s.main, 1 ≤ rank y) {g g' : List Ev} (hg : g ∈ s.gs) (he : g = .recv .sem :: g') :
    ∃ i s', step (capOf semCap) s i = some s' := by
  by_cases hb : 0 < s.buf .sem ∨ s.closed .sem = true
  · obtain ⟨s1, h1⟩ := recv_step (cap := capOf semCap) hb
    exact gor_step h.np hg he h1
  · have h2 := sem_slack h
    obtain ⟨hs, hr, _⟩ := mflat_phase h.mok hph
    have hs' := hs .sem
    have hb0 : s.buf .sem = 0 := by omega
    obtain ⟨g3, hg3, h3⟩ := exists_of_gsum_pos hold s.gs (by omega)
    cases g3 with
    | nil => simp [hold] at h3
    | cons e3 g3' =>
      have : e3 = .send .sem := by
        unfold hold at h3
        split at h3
        · rename_i hh; simpa using hh
        · omega
      exact enabled_direct hTc h hg3 rfl (Or.inl this)

/-- every started goroutine that has not finished yields a step (possibly of another goroutine) -/
theorem progress_gor {T semCap : Nat} {s : State} (hT1 : 1 ≤ T) (hTc : T ≤ semCap) (h : Inv T s)
    (hph : ∀ y ∈ s.main, 1 ≤ rank y) {g : List Ev} (hg : g ∈ s.gs) (hne : g ≠ []) :
    ∃ i s', step (capOf semCap) s i = some s' := by
  cases g with
  | nil => exact absurd rfl hne
  | cons e g' =>
    rcases shape_head (h.shape _ hg) with he | he | he | he | ⟨j, he⟩ | he
    · subst he; exact enabled_recv_sem hT1 hTc h hph hg rfl
    · exact enabled_direct hTc h hg rfl (Or.inl he)
    · exact enabled_direct hTc h hg rfl (Or.inr (Or.inl he))
    · exact enabled_direct hTc h hg rfl (Or.inr (Or.inr (Or.inl he)))
    · subst he
      by_cases hb : 0 < s.buf (.split j) ∨ s.closed (.split j) = true
      · obtain ⟨s1, h1⟩ := recv_step (cap := capOf semCap) hb
        exact gor_step h.np hg rfl h1
      · have hbal := h.bal (.split j)
        have h1 := gsum_mem_le (List.count (.recv (.split j))) s.gs _ hg
        have h2 : 1 ≤ List.count (.recv (.split j)) (Ev.recv (.split j) :: g') := by simp
        have hs := (mflat_phase h.mok hph).1 (.split j)
        simp only [cnt] at hbal
        simp at hbal
        obtain ⟨g2, hg2, h3⟩ := exists_of_gsum_pos (List.count (.send (.split j))) s.gs (by omega)
        have hsh := h.shape g2 hg2
        unfold Shape at hsh
        rcases hsh with h0 | ⟨j', h0 | h0 | h0⟩ | ⟨j', h0 | h0 | h0⟩ | ⟨j', h0 | h0 | h0⟩ <;> subst h0 <;>
          simp [W, Cj, List.count_cons] at h3
        · exact enabled_recv_sem hT1 hTc h hph hg2 rfl
        · exact enabled_direct hTc h hg2 rfl (Or.inl rfl)
        · exact enabled_direct hTc h hg2 rfl (Or.inr (Or.inr (Or.inl ⟨j', rfl⟩)))
    · exact enabled_direct hTc h hg rfl (Or.inr (Or.inr (Or.inr he)))

theorem safe_of_inv {T semCap : Nat} {s : State} (hT1 : 1 ≤ T) (hTc : T ≤ semCap) (h : Inv T s) : Safe (capOf semCap) s := by
  refine ⟨h.np, fun g hg hh => release_ok hTc h hg hh, ?_⟩
  cases hmain : s.main with
  | nil =>
    by_cases hall : ∀ g ∈ s.gs, g = []
    · left; exact ⟨hmain, hall⟩
    · right
      have : ∃ g ∈ s.gs, g ≠ [] := by
        apply Classical.byContradiction
        intro hn
        apply hall
        intro g hg
        apply Classical.byContradiction
        intro hne
        exact hn ⟨g, hg, hne⟩
      obtain ⟨g, hg, hne⟩ := this
      exact progress_gor hT1 hTc h (by simp [hmain]) hg hne
  | cons x m =>
    right
    have hx := h.mok x (by simp [hmain])
    unfold MOk at hx
    rcases hx with hx | ⟨j, hx⟩ | ⟨j, hx⟩ | ⟨j, hx⟩ | ⟨j, hx⟩ | hx <;> subst hx
    · -- a token is put into `sem`
      have hc : s.closed .sem = false := by
        cases hc : s.closed .sem with
        | false => rfl
        | true =>
          have := h.clS _ hc
          have h1 := mflat_count_mem (e := .send .sem) (M := s.main) (by simp [hmain])
          simp only [cnt] at this; omega
      have h2 := sem_slack h
      have h5 := (mflat_facts (M := m) (fun y hy => h.mok y (by simp [hmain, hy]))).2
      simp only [hmain, mflat, count_cons_ev] at h2
      simp at h2
      have hb : s.buf .sem < semCap := by omega
      exact ⟨0, by simp [step, h.np, hmain, execEv, hc, capOf, hb]⟩
    · exact ⟨0, by simp [step, h.np, hmain]⟩
    · exact ⟨0, by simp [step, h.np, hmain]⟩
    · exact ⟨0, by simp [step, h.np, hmain]⟩
    · by_cases hb : 0 < s.buf (.chunk j) ∨ s.closed (.chunk j) = true
      · obtain ⟨s1, h1⟩ := recv_step (cap := capOf semCap) hb
        exact ⟨0, by simp [step, h.np, hmain, h1]⟩
      · have hph : ∀ y ∈ s.main, 1 ≤ rank y := by
          have := h.sorted
          rw [hmain] at this ⊢
          have h1 := (List.pairwise_cons.mp this).1
          intro y hy
          simp at hy
          rcases hy with rfl | hy
          · simp [rank]
          · have := h1 y hy; simp [rank] at this ⊢; omega
        have hbal := h.bal (.chunk j)
        have h1 := mflat_count_mem (e := .recv (.chunk j)) (M := s.main) (by simp [hmain])
        have hs := (mflat_phase h.mok hph).1 (.chunk j)
        simp only [cnt] at hbal
        simp at hbal
        obtain ⟨g2, hg2, h3⟩ := exists_of_gsum_pos (List.count (.send (.chunk j))) s.gs (by omega)
        refine progress_gor hT1 hTc h hph hg2 ?_
        intro h0; subst h0; simp at h3
    · have hc : s.closed .sem = false := by
        cases hc : s.closed .sem with
        | false => rfl
        | true =>
          have := h.clC _ hc
          have h1 := mflat_count_mem (e := .close .sem) (M := s.main) (by simp [hmain])
          simp only [cnt] at this; omega
      exact ⟨0, by simp [step, h.np, hmain, execEv, hc]⟩

theorem inv_step {T : Nat} {cap : Ch → Nat} {s s' : State} {i : Nat} (h : Inv T s) (hs : step cap s i = some s') : Inv T s' := by
  obtain ⟨_, hc | hc⟩ := step_cases hs
  · obtain ⟨p, m, hm, rfl⟩ := hc
    exact inv_go h hm
  · obtain ⟨e, M, G, s1, hf, hx, rfl⟩ := hc
    exact inv_ev h hf hx

theorem inv_reachable {T : Nat} {cap : Ch → Nat} {s0 s : State} (h0 : Inv T s0) (hr : Reachable cap s0 s) : Inv T s := by
  induction hr with
  | init => exact h0
  | step i _ hs ih => exact inv_step ih hs

/-! ## the initial state -/

theorem spawns_counts (split : Nat → Bool) (n : Nat) :
    ((mflat (spawns split n)).count (.send .sem) = (mflat (spawns split n)).count (.recv .sem) + nsplit split n) ∧
    (∀ j, (mflat (spawns split n)).count (.send (.chunk j)) = if j < n then 1 else 0) ∧
    (∀ j, (mflat (spawns split n)).count (.recv (.chunk j)) = 0) ∧
    (∀ j, (mflat (spawns split n)).count (.send (.split j)) = (mflat (spawns split n)).count (.recv (.split j))) ∧
    (∀ j, (mflat (spawns split n)).count (.recv (.split j)) = if j < n ∧ split j = true then 2 else 0) ∧
    (∀ j, (mflat (spawns split n)).count (.close (.split j)) = if j < n ∧ split j = true then 1 else 0) ∧
    ((mflat (spawns split n)).count (.close .sem) = 0) ∧
    (∀ j, (mflat (spawns split n)).count (.close (.chunk j)) = 0) ∧
    (∀ t, (mflat (spawns split n)).count (.send (.other t)) = 0 ∧ (mflat (spawns split n)).count (.recv (.other t)) = 0 ∧
      (mflat (spawns split n)).count (.close (.other t)) = 0) := by
  induction n with
  | zero => simp [spawns, mflat, nsplit]
  | succ n ih =>
    obtain ⟨i1, i2, i3, i4, i5, i6, i7, i8, i9⟩ := ih
    simp only [spawns, mflat_append, List.count_append, nsplit, chunkEvs]
    cases hsp : split n
    · simp only [if_false, Bool.false_eq_true, mflat, W, List.append_nil, count_cons_ev, List.count_nil]
      refine ⟨by simp; omega, fun j => ?_, fun j => by simp [i3], fun j => by simp [i4], fun j => ?_, fun j => ?_, by simp [i7],
        fun j => by simp [i8], fun t => by simp [i9 t]⟩
      · rw [i2 j]; by_cases hj : j = n
        · subst hj; simp
        · have : (Ev.send (Ch.chunk j) = Ev.send (Ch.chunk n)) = False := by simp [hj]
          simp only [this]; simp; (have h2 : (j < n + 1) ↔ (j < n) := by omega); simp [h2]
      · rw [i5 j]; by_cases hj : j = n
        · subst hj; simp [hsp]
        · simp; (have h2 : (j < n + 1) ↔ (j < n) := by omega); simp [h2]
      · rw [i6 j]; by_cases hj : j = n
        · subst hj; simp [hsp]
        · simp; (have h2 : (j < n + 1) ↔ (j < n) := by omega); simp [h2]
    · simp only [if_true, mflat, W, Cj, List.append_nil, List.count_append, count_cons_ev, List.count_nil]
      refine ⟨by simp; omega, fun j => ?_, fun j => by simp [i3], fun j => ?_, fun j => ?_, fun j => ?_, by simp [i7],
        fun j => by simp [i8], fun t => by simp [i9 t]⟩
      · rw [i2 j]; by_cases hj : j = n
        · subst hj; simp
        · have : (Ev.send (Ch.chunk j) = Ev.send (Ch.chunk n)) = False := by simp [hj]
          simp only [this]; simp; (have h2 : (j < n + 1) ↔ (j < n) := by omega); simp [h2]
      · rw [i4 j]; simp <;> omega
      · rw [i5 j]; by_cases hj : j = n
        · subst hj; simp [hsp]
        · simp [hj]; (have h2 : (j < n + 1) ↔ (j < n) := by omega); simp [h2]
      · rw [i6 j]; by_cases hj : j = n
        · subst hj; simp [hsp]
        · simp [hj]; (have h2 : (j < n + 1) ↔ (j < n) := by omega); simp [h2]

theorem mflat_replicate (K : Nat) (e : Ev) : mflat (List.replicate K (.ev e)) = List.replicate K e := by
  induction K with
  | zero => simp [mflat]
  | succ K ih => simp [List.replicate_succ, mflat, ih]

theorem recvs_counts (n : Nat) :
    (∀ c, (mflat (recvs n)).count (.send c) = 0) ∧ (∀ c, (mflat (recvs n)).count (.close c) = 0) ∧
    ((mflat (recvs n)).count (.recv .sem) = 0) ∧ (∀ j, (mflat (recvs n)).count (.recv (.split j)) = 0) ∧
    (∀ t, (mflat (recvs n)).count (.recv (.other t)) = 0) ∧
    (∀ j, (mflat (recvs n)).count (.recv (.chunk j)) = if j < n then 1 else 0) := by
  induction n with
  | zero => simp [recvs, mflat]
  | succ n ih =>
    obtain ⟨i1, i2, i3, i4, i5, i6⟩ := ih
    simp only [recvs, mflat, count_cons_ev]
    refine ⟨fun c => by simp [i1], fun c => by simp [i2], by simp [i3], fun j => by simp [i4], fun t => by simp [i5], fun j => ?_⟩
    rw [i6 j]; by_cases hj : j = n
    · subst hj; simp
    · (have h2 : (j < n + 1) ↔ (j < n) := by omega); simp [h2, hj]

theorem spawns_mok (split : Nat → Bool) (n : Nat) : ∀ x ∈ spawns split n, MOk x ∧ rank x = 0 := by
  induction n with
  | zero => simp [spawns]
  | succ n ih =>
    intro x hx
    simp only [spawns, List.mem_append, chunkEvs] at hx
    rcases hx with hx | hx
    · unfold MOk
      split at hx <;> simp at hx
      · rcases hx with rfl | rfl | rfl
        · simp [rank]
        · exact ⟨Or.inr (Or.inr (Or.inl ⟨n, rfl⟩)), by simp [rank]⟩
        · exact ⟨Or.inr (Or.inr (Or.inr (Or.inl ⟨n, rfl⟩))), by simp [rank]⟩
      · subst hx; exact ⟨Or.inr (Or.inl ⟨n, rfl⟩), by simp [rank]⟩
    · exact ih x hx

theorem recvs_mok (n : Nat) : ∀ x ∈ recvs n, MOk x ∧ rank x = 1 := by
  induction n with
  | zero => simp [recvs]
  | succ n ih =>
    intro x hx
    simp only [recvs, List.mem_cons] at hx
    rcases hx with rfl | hx
    · exact ⟨Or.inr (Or.inr (Or.inr (Or.inr (Or.inl ⟨n, rfl⟩)))), by simp [rank]⟩
    · exact ih x hx

theorem pairwise_const {l : List MEv} {r : Nat} (h : ∀ x ∈ l, rank x = r) : l.Pairwise (fun a b => rank a ≤ rank b) := by
  induction l with
  | nil => exact List.Pairwise.nil
  | cons a l ih =>
    refine List.pairwise_cons.mpr ⟨fun b hb => ?_, ih (fun x hx => h x (by simp [hx]))⟩
    rw [h a (by simp), h b (by simp [hb])]; exact Nat.le_refl _

theorem init_inv (K nb : Nat) (split : Nat → Bool) :
    Inv (K + nsplit split nb) (initState (normalMain K nb split)) := by
  obtain ⟨a1, a2, a3, a4, a5, a6, a7, a8, a9⟩ := spawns_counts split nb
  obtain ⟨b1, b2, b3, b4, b5, b6⟩ := recvs_counts nb
  have hc : ∀ x, cnt x (initState (normalMain K nb split)) =
      (List.replicate K (Ev.send Ch.sem)).count x + ((mflat (spawns split nb)).count x + ((mflat (recvs nb)).count x +
        (if x = .close .sem then 1 else 0))) := by
    intro x
    simp only [cnt, initState, normalMain, mflat_append, mflat_replicate, List.count_append, gsum_nil, mflat, count_cons_ev,
      List.count_nil]
    omega
  have hrep : ∀ x, (List.replicate K (Ev.send Ch.sem)).count x = if x = .send .sem then K else 0 := by
    intro x; rw [List.count_replicate]; by_cases h : x = .send .sem
    · subst h; simp
    · have : ¬ (Ev.send Ch.sem = x) := fun h' => h h'.symm
      simp [h, this]
  refine ⟨rfl, ?_, by simp [initState], ?_, ?_, ?_, by simp [initState], by simp [initState], ?_, ?_⟩
  · intro c
    rw [hc, hc, hrep, hrep]
    simp only [initState]
    cases c with
    | sem => simp [a1, b1, b3]; omega
    | chunk j => simp [a2, a3, b1, b6]
    | split j => simp [a4, b1, b4]
    | other t => simp [(a9 t).1, (a9 t).2.1, b1, b5]
  · intro x hx
    simp only [initState, normalMain, List.mem_append, List.mem_replicate, List.mem_singleton] at hx
    rcases hx with ⟨_, rfl⟩ | hx | hx | rfl
    · exact Or.inl rfl
    · exact (spawns_mok split nb x hx).1
    · exact (recvs_mok nb x hx).1
    · exact Or.inr (Or.inr (Or.inr (Or.inr (Or.inr rfl))))
  · simp only [initState, normalMain]
    refine List.pairwise_append.mpr ⟨pairwise_const (r := 0) (fun x hx => ?_), List.pairwise_append.mpr
      ⟨pairwise_const (r := 0) (fun x hx => (spawns_mok split nb x hx).2), List.pairwise_append.mpr
        ⟨pairwise_const (r := 1) (fun x hx => (recvs_mok nb x hx).2), by simp, fun a ha b hb => ?_⟩, fun a ha b hb => ?_⟩,
      fun a ha b hb => ?_⟩
    · simp only [List.mem_replicate] at hx; rw [hx.2]; simp [rank]
    · simp at hb; subst hb; rw [(recvs_mok nb a ha).2]; simp [rank]
    · rw [(spawns_mok split nb a ha).2]; exact Nat.zero_le _
    · simp only [List.mem_replicate] at ha; rw [ha.2]; simp [rank]
  · right
    simp [initState, normalMain, List.getLast?_append]
  · intro c
    rw [hc, hrep]
    cases c with
    | sem => simp [a7, b2]
    | chunk j => simp [a8, b2]
    | split j => simp [a6, b2]; split <;> omega
    | other t => simp [(a9 t).2.2, b2]
  · intro j
    rw [hc, hc, hrep, hrep]
    simp [a3, a5, b4, b6]
    constructor <;> split <;> omega

/-! ## from the skeletons to the normal form -/

theorem flatMap_const_nil {α β : Type} (l : List α) : l.flatMap (fun _ => ([] : List β)) = [] := by
  induction l with
  | nil => rfl
  | cons a l ih => simp

theorem flatMap_range_single (K : Nat) (x : MEv) : (List.range K).flatMap (fun _ => [x]) = List.replicate K x := by
  induction K with
  | zero => rfl
  | succ K ih => simp [List.range_succ, List.flatMap_append, ih, List.replicate_succ']

theorem flatMap_rev_range (f : Nat → List MEv) (g : Nat → List MEv) (hg0 : g 0 = []) (hgs : ∀ n, g (n + 1) = f n ++ g n) (n : Nat) :
    (List.range n).reverse.flatMap f = g n := by
  induction n with
  | zero => simp [hg0]
  | succ n ih => simp [List.range_succ, hgs, ih]

theorem worker_bind {f : Fn} (h : WorkerOK f = true) (c : Ch) : (workerTrace f true).map (Ev.bind c) = W c := by
  simp only [WorkerOK, Bool.and_eq_true, beq_iff_eq] at h
  rw [h.1.2]
  simp [Ev.bind, Ch.bind, chResParam, W]

theorem trace_canonReduce (env : Env) (hnb : 1 ≤ env.nb) : trace env canonReduce = recvs env.nb := by
  obtain ⟨K, nb, thr, split, j, res, worker, calls⟩ := env
  simp only at hnb
  obtain ⟨n, rfl⟩ : ∃ n, nb = n + 1 := ⟨nb - 1, by omega⟩
  simp [trace, canonReduce, unroll, loopVals, chanOf, ← List.map_reverse, List.flatMap_map, flatMap_const_nil, recvs]
  exact flatMap_rev_range (fun v => [MEv.ev (Ev.recv (Ch.chunk v))]) recvs rfl (fun n => rfl) n

theorem trace_canonMain (cap : Cap) (t : String) (cs : List String) (r : String) (env : Env) (hthr : env.thr = true)
    (hw : ∀ j c, env.worker j c = W c) (hcalls : env.calls r = recvs env.nb) :
    trace env (canonMain cap t cs r) = normalMain env.K env.nb env.split := by
  obtain ⟨K, nb, thr, split, j, res, worker, calls⟩ := env
  simp only at hthr hw hcalls; subst hthr
  have hsp : (List.range nb).reverse.flatMap (chunkEvs split) = spawns split nb :=
    flatMap_rev_range (chunkEvs split) (spawns split) rfl (fun n => rfl) nb
  simp [trace, canonMain, unroll, loopVals, condVal, chanOf, ← List.map_reverse, List.flatMap_map, flatMap_const_nil, hw, hcalls,
    normalMain, MEv.plain, flatMap_range_single]
  have h1 : ∀ a, (if split a = true then
              ([MEv.ev (Ev.send Ch.sem), MEv.go (W (Ch.split a)), MEv.go (W (Ch.split a)),
                  MEv.go [Ev.recv (Ch.split a), Ev.recv (Ch.split a), Ev.close (Ch.split a), Ev.send (Ch.chunk a)]],
                ([] : List MEv))
            else ([MEv.go (W (Ch.chunk a))], [])) = (chunkEvs split a, []) := by
    intro a; unfold chunkEvs Cj; split <;> rfl
  simp only [h1, flatMap_const_nil, hsp, List.nil_append]

theorem cap_enough {cap : Cap} (h : cap.enough = true) (K nb : Nat) : K + nb ≤ cap.eval K nb := by
  cases cap with
  | lit n => simp [Cap.enough] at h
  | text => simp [Cap.enough] at h
  | lin a b c =>
    simp [Cap.enough] at h
    have h1 : K ≤ a * K := Nat.le_mul_of_pos_left K h.1
    have h2 : nb ≤ b * nb := Nat.le_mul_of_pos_left nb h.2
    simp only [Cap.eval]; omega

/-- `MainOK` / `WorkerOK` skeletons unroll to the normal form, with enough capacity -/
theorem mainOK_normal (ws rs : List Fn) (f : Fn) (hm : MainOK ws rs f = true) (K nb : Nat) (hnb : 1 ≤ nb)
    (split : Nat → Bool) (pick : Nat → Fn) (hpick : ∀ j, WorkerOK (pick j) = true) :
    mainTrace f rs K nb true split pick = normalMain K nb split ∧ K + nb ≤ semCapOf f K nb := by
  unfold MainOK at hm
  split at hm
  · rename_i cap t cs r h1 h2 h3
    simp only [Bool.and_eq_true, beq_iff_eq] at hm
    obtain ⟨⟨⟨⟨⟨_, hbody⟩, henough⟩, _⟩, _⟩, hred⟩ := hm
    constructor
    · unfold mainTrace
      rw [hbody]
      refine trace_canonMain cap t cs r _ rfl (fun j c => worker_bind (hpick j) c) ?_
      simp only
      split at hred
      · rename_i g hg
        simp only [ReduceOK, Bool.and_eq_true, beq_iff_eq] at hred
        simp only [hred.2]
        exact trace_canonReduce _ hnb
      · simp at hred
    · simp only [semCapOf, h1]
      exact cap_enough henough K nb
  · simp at hm

/-- all interleavings: no panic, no blocked release, no deadlock -/
theorem proto_safe_core (ws rs : List Fn) (f : Fn) (hm : MainOK ws rs f = true) (K nb : Nat) (hK : 1 ≤ K) (hnb : 1 ≤ nb)
    (split : Nat → Bool) (pick : Nat → Fn) (hpick : ∀ j, WorkerOK (pick j) = true) (s : State)
    (hr : Reachable (capOf (semCapOf f K nb)) (initState (mainTrace f rs K nb true split pick)) s) :
    Safe (capOf (semCapOf f K nb)) s := by
  obtain ⟨htr, hcap⟩ := mainOK_normal ws rs f hm K nb hnb split pick hpick
  rw [htr] at hr
  have hinv := inv_reachable (init_inv K nb split) hr
  have := nsplit_le split nb
  exact safe_of_inv (by omega) (by omega) hinv

end GV.MSMProto
