import GnarkVerif.Model.MSMProto
/-
Lemmas for Props/C04_proto: the buffered-channel semantics of `Model/MSMProto.lean` run on the NORMAL FORM of the MSM
protocol (what `WorkerOK` / `MainOK` skeletons unroll to) — invariant over all interleavings.
-/
namespace GV.MSMProto

/-! ## sums over the goroutine pool -/

def gsum (f : List Ev → Nat) (G : List (List Ev)) : Nat := (G.map f).sum

@[simp] theorem gsum_nil (f : List Ev → Nat) : gsum f [] = 0 := rfl
@[simp] theorem gsum_cons (f : List Ev → Nat) (a : List Ev) (G : List (List Ev)) : gsum f (a :: G) = f a + gsum f G := by
  simp [gsum]
theorem gsum_append_single (f : List Ev → Nat) (G : List (List Ev)) (p : List Ev) : gsum f (G ++ [p]) = gsum f G + f p := by
  induction G with
  | nil => simp
  | cons a G ih => simp [ih]; omega

theorem gsum_set (f : List Ev → Nat) : ∀ (G : List (List Ev)) (k : Nat) (x y : List Ev), G[k]? = some y →
    gsum f (G.set k x) + f y = gsum f G + f x := by
  intro G
  induction G with
  | nil => intro k x y h; simp at h
  | cons a G ih =>
    intro k x y h
    cases k with
    | zero => simp at h; subst h; simp; omega
    | succ k => simp at h; have := ih k x y h; simp; omega

theorem gsum_add (f h k : List Ev → Nat) (G : List (List Ev)) (hp : ∀ g ∈ G, f g = h g + k g) :
    gsum f G = gsum h G + gsum k G := by
  induction G with
  | nil => simp
  | cons a G ih =>
    have h1 := hp a (by simp)
    have h2 := ih (fun g hg => hp g (by simp [hg]))
    simp; omega

theorem gsum_le (f h : List Ev → Nat) (G : List (List Ev)) (hp : ∀ g ∈ G, f g ≤ h g) : gsum f G ≤ gsum h G := by
  induction G with
  | nil => simp
  | cons a G ih =>
    have h1 := hp a (by simp)
    have h2 := ih (fun g hg => hp g (by simp [hg]))
    simp; omega

theorem gsum_zero (f : List Ev → Nat) (G : List (List Ev)) (hp : ∀ g ∈ G, f g = 0) : gsum f G = 0 := by
  induction G with
  | nil => simp
  | cons a G ih =>
    have h1 := hp a (by simp)
    have h2 := ih (fun g hg => hp g (by simp [hg]))
    simp; omega

theorem gsum_mem_le (f : List Ev → Nat) (G : List (List Ev)) (g : List Ev) (hg : g ∈ G) : f g ≤ gsum f G := by
  induction G with
  | nil => simp at hg
  | cons a G ih =>
    simp at hg
    rcases hg with rfl | hg
    · simp
    · have := ih hg; simp; omega

theorem exists_of_gsum_pos (f : List Ev → Nat) (G : List (List Ev)) (h : 1 ≤ gsum f G) : ∃ g ∈ G, 1 ≤ f g := by
  induction G with
  | nil => simp at h
  | cons a G ih =>
    by_cases ha : 1 ≤ f a
    · exact ⟨a, by simp, ha⟩
    · simp at h
      obtain ⟨g, hg, h1⟩ := ih (by omega)
      exact ⟨g, by simp [hg], h1⟩

/-! ## the normal form -/

def W (c : Ch) : List Ev := [.recv .sem, .send .sem, .send c]
def Cj (j : Nat) : List Ev := [.recv (.split j), .recv (.split j), .close (.split j), .send (.chunk j)]

def chunkEvs (split : Nat → Bool) (j : Nat) : List MEv :=
  if split j then [.ev (.send .sem), .go (W (.split j)), .go (W (.split j)), .go (Cj j)] else [.go (W (.chunk j))]

def spawns (split : Nat → Bool) : Nat → List MEv
  | 0 => []
  | n + 1 => chunkEvs split n ++ spawns split n

def recvs : Nat → List MEv
  | 0 => []
  | n + 1 => .ev (.recv (.chunk n)) :: recvs n

def normalMain (K nb : Nat) (split : Nat → Bool) : List MEv :=
  List.replicate K (.ev (.send .sem)) ++ (spawns split nb ++ (recvs nb ++ [.ev (.close .sem)]))

/-- number of overweight chunks below `n` -/
def nsplit (split : Nat → Bool) : Nat → Nat
  | 0 => 0
  | n + 1 => (if split n then 1 else 0) + nsplit split n

theorem nsplit_le (split : Nat → Bool) (n : Nat) : nsplit split n ≤ n := by
  induction n with
  | zero => simp [nsplit]
  | succ n ih => simp only [nsplit]; split <;> omega

/-- all events still to come of the main goroutine, including those of the goroutines it has not started yet -/
def mflat : List MEv → List Ev
  | [] => []
  | .ev e :: m => e :: mflat m
  | .go p :: m => p ++ mflat m

theorem mflat_append (a b : List MEv) : mflat (a ++ b) = mflat a ++ mflat b := by
  induction a with
  | nil => simp [mflat]
  | cons x a ih => cases x <;> simp [mflat, ih]

/-- how often event `x` is still to come, anywhere -/
def cnt (x : Ev) (s : State) : Nat := (mflat s.main).count x + gsum (List.count x) s.gs

/-- the forms a started goroutine can have -/
def Shape (g : List Ev) : Prop :=
  g = [] ∨
  (∃ j, g = W (.chunk j) ∨ g = [.send .sem, .send (.chunk j)] ∨ g = [.send (.chunk j)]) ∨
  (∃ j, g = W (.split j) ∨ g = [.send .sem, .send (.split j)] ∨ g = [.send (.split j)]) ∨
  (∃ j, g = Cj j ∨ g = [.recv (.split j), .close (.split j), .send (.chunk j)] ∨ g = [.close (.split j), .send (.chunk j)])

theorem Shape.tail {e : Ev} {g : List Ev} (h : Shape (e :: g)) : Shape g := by
  unfold Shape at h ⊢
  rcases h with h | ⟨j, h | h | h⟩ | ⟨j, h | h | h⟩ | ⟨j, h | h | h⟩ <;> simp [W, Cj] at h
  · right; left; exact ⟨j, by simp [h.2]⟩
  · right; left; exact ⟨j, by simp [h.2]⟩
  · left; exact h.2
  · right; right; left; exact ⟨j, by simp [h.2]⟩
  · right; right; left; exact ⟨j, by simp [h.2]⟩
  · left; exact h.2
  · right; right; right; exact ⟨j, by simp [h.2]⟩
  · right; right; right; exact ⟨j, by simp [h.2]⟩
  · right; left; exact ⟨j, by simp [h.2]⟩

/-- the worker holds a token: its next event is the release -/
def hold (g : List Ev) : Nat := if g.head? = some (.send .sem) then 1 else 0

theorem shape_facts {g : List Ev} (h : Shape g) :
    (∀ j, g.count (.recv (.chunk j)) = 0) ∧
    (∀ j, g.count (.recv (.split j)) ≤ 2 * g.count (.close (.split j))) ∧
    (∀ j, 1 ≤ g.count (.recv (.split j)) → 1 ≤ g.count (.send (.chunk j))) ∧
    (g.count (.send .sem) = g.count (.recv .sem) + hold g) ∧
    (1 ≤ g.count (.send .sem) → ∃ j, 1 ≤ g.count (.send (.chunk j)) ∨ 1 ≤ g.count (.send (.split j))) ∧
    (g.count (.close .sem) = 0) ∧ (∀ j, g.count (.close (.chunk j)) = 0) ∧
    (∀ j, g.count (.close (.split j)) ≤ g.count (.send (.chunk j))) := by
  unfold Shape at h
  rcases h with h | ⟨j, h | h | h⟩ | ⟨j, h | h | h⟩ | ⟨j, h | h | h⟩ <;> subst h <;>
    simp [W, Cj, hold, List.count_cons]
  all_goals first
    | exact ⟨j, by simp⟩
    | (refine ⟨fun j' => ?_, fun j' => ?_⟩ <;> by_cases hj : j = j' <;> simp [hj])
    | (intro j'; by_cases hj : j = j' <;> simp [hj])

end GV.MSMProto
