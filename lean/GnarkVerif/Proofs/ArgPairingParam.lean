import GnarkVerif.Proofs.ArgPairingSh
/-
C17a helper lemmas, part 4: parametricity of the SHPLONK model. Every function of the model commutes with a lawful
denotation `φ : α → K`, so verdicts computed with any lawful dictionary (in particular `fp r`, the driver's) coincide with
the verdicts computed in the field on the denotations.
-/
namespace GV.ArgPairing
open GV GV.Alg

def ShProof.map {α β : Type} (φ : α → β) (p : ShProof α) : ShProof β :=
  { W := φ p.W, WPrime := φ p.WPrime, claimed := p.claimed.map (List.map φ) }

section param
variable {α K : Type} [Field K] [DecidableEq K] {F : FOps α} {φ : α → K} (h : Lawful F φ)
include h

theorem evalP_map (f : List α) (x : α) : φ (evalP F f x) = evalP (ofField K) (f.map φ) (φ x) := by
  induction f with
  | nil => simp [evalP, h.zero]
  | cons a f ih =>
    simp only [evalP, List.foldr_cons, List.map_cons] at ih ⊢
    rw [h.add, h.mul, ih]; rfl

theorem addP_map (f g : List α) : (addP F f g).map φ = addP (ofField K) (f.map φ) (g.map φ) := by
  induction f generalizing g with
  | nil => simp [addP]
  | cons a f ih =>
    cases g with
    | nil => simp [addP]
    | cons b g => simp [addP, ih, h.add]

theorem subP_map (f g : List α) : (subP F f g).map φ = subP (ofField K) (f.map φ) (g.map φ) := by
  induction f generalizing g with
  | nil =>
    simp only [subP, List.map_nil, List.map_map]
    apply List.map_congr_left
    intro a _; simp [h.neg]
  | cons a f ih =>
    cases g with
    | nil => simp [subP]
    | cons b g => simp [subP, ih, h.sub]

theorem scaleP_map (c : α) (f : List α) : (scaleP F c f).map φ = scaleP (ofField K) (φ c) (f.map φ) := by
  simp only [scaleP, List.map_map]
  apply List.map_congr_left
  intro a _; simp [h.mul]

theorem mulP_map (f g : List α) : (mulP F f g).map φ = mulP (ofField K) (f.map φ) (g.map φ) := by
  induction g with
  | nil => simp [mulP]
  | cons b g ih => simp [mulP, addP_map h, scaleP_map h, ih, h.zero]

theorem mulLin_map (f : List α) (a : α) : (mulLin F f a).map φ = mulLin (ofField K) (f.map φ) (φ a) := by
  simp [mulLin, subP_map h, scaleP_map h, h.zero]

theorem foldl_mulLin_map (xs : List α) (acc : List α) :
    (xs.foldl (mulLin F) acc).map φ = (xs.map φ).foldl (mulLin (ofField K)) (acc.map φ) := by
  induction xs generalizing acc with
  | nil => rfl
  | cons x xs ih => simp [ih, mulLin_map h]

theorem vanishing_map (xs : List α) : (vanishing F xs).map φ = vanishing (ofField K) (xs.map φ) := by
  simp [vanishing, foldl_mulLin_map h, h.one]

theorem ztMinusSi_map (points : List (List α)) (i : Nat) :
    (ztMinusSi F points i).map φ = ztMinusSi (ofField K) (points.map (List.map φ)) i := by
  simp [ztMinusSi, vanishing_map h, List.map_flatten, List.eraseIdx_map]

theorem getD_map_zero (l : List α) (i : Nat) : φ (l.getD i F.zero) = (l.map φ).getD i 0 := by
  simp only [List.getD_eq_getElem?_getD, List.getElem?_map]
  cases l[i]? <;> simp [h.zero]

theorem lagrange_map (xs : List α) (i : Nat) :
    (lagrange F xs i).map φ = lagrange (ofField K) (xs.map φ) i := by
  simp only [lagrange, scaleP_map h, vanishing_map h, h.inv, evalP_map h, getD_map_zero h, List.eraseIdx_map,
    ofField_inv, ofField_zero]

theorem sumP_map (g : Nat → List α) (n : Nat) :
    (sumP F g n).map φ = sumP (ofField K) (fun i => (g i).map φ) n := by
  induction n with
  | zero => rfl
  | succ n ih => simp [sumP, addP_map h, ih]

theorem sumN_map (g : Nat → α) (n : Nat) : φ (sumN F g n) = sumN (ofField K) (fun i => φ (g i)) n := by
  induction n with
  | zero => simp [sumN, h.zero]
  | succ n ih => simp [sumN, h.add, ih]

theorem interpolate_map (xs ys : List α) :
    (interpolate F xs ys).map φ = interpolate (ofField K) (xs.map φ) (ys.map φ) := by
  simp only [interpolate, sumP_map h, scaleP_map h, lagrange_map h, getD_map_zero h, List.length_map, ofField_zero]

theorem padTo_map (n : Nat) (f : List α) : (padTo F n f).map φ = padTo (ofField K) n (f.map φ) := by
  simp [padTo, h.zero]

theorem subPrefix_map (f g : List α) : (subPrefix F f g).map φ = subPrefix (ofField K) (f.map φ) (g.map φ) := by
  induction f generalizing g with
  | nil => cases g <;> simp [subPrefix]
  | cons a f ih =>
    cases g with
    | nil => simp [subPrefix]
    | cons b g => simp [subPrefix, ih, h.sub]

theorem divRev_map (gt : List α) (k : Nat) (l : List α) :
    (divRev F gt k l).map φ = divRev (ofField K) (gt.map φ) k (l.map φ) := by
  induction k generalizing l with
  | zero => simp [divRev]
  | succ k ih =>
    cases l with
    | nil => simp [divRev]
    | cons c rest => simp [divRev, ih, subPrefix_map h, scaleP_map h]

theorem divP_map (f g : List α) : (divP F f g).map φ = divP (ofField K) (f.map φ) (g.map φ) := by
  simp [divP, divRev_map h, List.map_reverse, List.map_drop]

theorem kzgCommit_map (srs p : List α) :
    (kzgCommit F srs p).map φ = kzgCommit (ofField K) (srs.map φ) (p.map φ) := by
  unfold kzgCommit
  simp only [List.length_map]
  split
  · rfl
  · simp [dot_map h]

theorem getD_map_nil (l : List (List α)) (i : Nat) : (l.getD i []).map φ = (l.map (List.map φ)).getD i [] := by
  simp only [List.getD_eq_getElem?_getD, List.getElem?_map]
  cases l[i]? <;> simp

theorem shClaimed_map (polys points : List (List α)) :
    (shClaimed F polys points).map (List.map φ)
      = shClaimed (ofField K) (polys.map (List.map φ)) (points.map (List.map φ)) := by
  simp only [shClaimed, List.map_map, List.length_map]
  apply List.map_congr_left
  intro i _
  simp only [Function.comp, List.map_map, ← getD_map_nil h]
  apply List.map_congr_left
  intro a _
  simp [evalP_map h]

theorem shRi_map (points claimed : List (List α)) (i : Nat) :
    (shRi F points claimed i).map φ = shRi (ofField K) (points.map (List.map φ)) (claimed.map (List.map φ)) i := by
  unfold shRi
  rw [interpolate_map h, getD_map_nil h, getD_map_nil h]

theorem shF_map (polys points claimed : List (List α)) (γ : α) :
    (shF F polys points claimed γ).map φ
      = shF (ofField K) (polys.map (List.map φ)) (points.map (List.map φ)) (claimed.map (List.map φ)) (φ γ) := by
  simp only [shF, sumP_map h, scaleP_map h, mulP_map h, subP_map h, getD_map_nil h, shRi_map h, ztMinusSi_map h,
    npow_map h, List.length_map, npow_eq]

theorem shGz_map (points : List (List α)) (γ z : α) (i : Nat) :
    φ (shGz F points γ z i) = shGz (ofField K) (points.map (List.map φ)) (φ γ) (φ z) i := by
  simp [shGz, h.mul, npow_map h, evalP_map h, ztMinusSi_map h, npow_eq]

theorem shL_map (polys points claimed : List (List α)) (γ z : α) (w : List α) :
    (shL F polys points claimed γ z w).map φ
      = shL (ofField K) (polys.map (List.map φ)) (points.map (List.map φ)) (claimed.map (List.map φ)) (φ γ) (φ z)
          (w.map φ) := by
  simp only [shL, subP_map h, sumP_map h, scaleP_map h, shGz_map h, padTo_map h, getD_map_nil h, List.map_cons,
    List.map_nil, evalP_map h, shRi_map h, vanishing_map h, List.map_flatten, List.length_map]

omit h in
theorem maxLen_map (ls : List (List α)) : maxLen (ls.map (List.map φ)) = maxLen ls := by
  unfold maxLen
  generalize 0 = m
  induction ls generalizing m with
  | nil => rfl
  | cons l ls ih => simp [ih]

omit h in
theorem shTotal_map (polys points : List (List α)) :
    shTotal (polys.map (List.map φ)) (points.map (List.map φ)) = shTotal polys points := by
  simp [shTotal, maxLen_map, ← List.map_flatten]

theorem shW_map (polys points : List (List α)) (γ : α) :
    (shW F polys points γ).map φ = shW (ofField K) (polys.map (List.map φ)) (points.map (List.map φ)) (φ γ) := by
  simp only [shW, divP_map h, padTo_map h, shF_map h, shClaimed_map h, vanishing_map h, List.map_flatten, shTotal_map]

theorem shWP_map (polys points : List (List α)) (γ z : α) :
    (shWP F polys points γ z).map φ
      = shWP (ofField K) (polys.map (List.map φ)) (points.map (List.map φ)) (φ γ) (φ z) := by
  simp only [shWP, divP_map h, padTo_map h, shL_map h, shClaimed_map h, shW_map h, vanishing_map h, shTotal_map,
    List.map_cons, List.map_nil]

theorem shOpen_map (srs : List α) (polys points : List (List α)) (γ z : α) :
    (shOpen F srs polys points γ z).map (ShProof.map φ)
      = shOpen (ofField K) (srs.map φ) (polys.map (List.map φ)) (points.map (List.map φ)) (φ γ) (φ z) := by
  unfold shOpen
  simp only [List.length_map]
  split
  · rfl
  split
  · rfl
  rw [← shW_map h, ← shWP_map h, ← kzgCommit_map h, ← kzgCommit_map h]
  cases kzgCommit F srs (shW F polys points γ) with
  | none => simp
  | some W =>
    cases kzgCommit F srs (shWP F polys points γ z) with
    | none => simp
    | some WP => simp [ShProof.map, shClaimed_map h]

theorem shFolded_map (g1 : α) (pr : ShProof α) (digests : List α) (points : List (List α)) (γ z : α) :
    φ (shFolded F g1 pr digests points γ z)
      = shFolded (ofField K) (φ g1) (pr.map φ) (digests.map φ) (points.map (List.map φ)) (φ γ) (φ z) := by
  have hcomp : φ ∘ shGz F points γ z = shGz (ofField K) (points.map (List.map φ)) (φ γ) (φ z) := by
    funext i; simp [shGz_map h]
  simp only [shFolded, h.add, h.sub, h.mul, dot_map h, sumN_map h, shGz_map h, evalP_map h, shRi_map h,
    vanishing_map h, List.map_flatten, List.length_map, List.map_map, ShProof.map, ofField_add, ofField_sub,
    ofField_mul, hcomp]

theorem shVerify_map (g1 h0 h1 : α) (pr : ShProof α) (digests : List α) (points : List (List α)) (γ z : α) :
    shVerify F g1 h0 h1 pr digests points γ z
      = shVerify (ofField K) (φ g1) (φ h0) (φ h1) (pr.map φ) (digests.map φ) (points.map (List.map φ)) (φ γ) (φ z) := by
  unfold shVerify
  simp only [List.length_map, ShProof.map]
  split
  · rfl
  split
  · rfl
  rw [pairingCheck_map h]
  simp [h.neg, shFolded_map h, ShProof.map]

end param
end GV.ArgPairing
