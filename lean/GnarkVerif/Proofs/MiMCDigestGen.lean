import GnarkVerif.Gen.Imp.MimcAll
import GnarkVerif.Proofs.MiMC
import Mathlib.Data.List.Basic
/-
Helper lemmas for Props/C14_mimc_gen: the digest methods of Gen/Imp/Mimc_bn254.lean (regenerated from
ecc/bn254/fr/mimc/mimc.go on every run) refine the step machine of Model/MiMC.lean.

Abstraction function `abs` : generated `digest Nat BO` ↦ `Model.MiMC.Digest` (forget `byteOrder`, which no method changes).
Invariant `(abs d).h < P.q` (the chaining value is a reduced element).
`ParamsOK` = the assumed behaviour of the parameters of the generated defs.
-/
set_option linter.unusedSimpArgs false
set_option linter.unusedVariables false
namespace GV.MiMC.DigestGen
open GV.GoImp GV.Gen.Imp GV.Gen.Imp.Mimc_bn254

/-- what is assumed of the parameters of the generated defs, at F = ℕ (canonical representatives) for the instance `P` and
the byte order object `bo` of the hasher -/
structure ParamsOK (P : Params) {BO : Type} (bo : BO) (fZero : Nat) (fAdd encrypt : Nat → Nat → Nat)
    (boElement : BO → Bytes → Nat × Err) (fBytes : Nat → Bytes) (fSet : Nat → Bytes → Nat × Err) (BS : Int) : Prop where
  size_pos : 0 < P.size
  q_pos : 0 < P.q
  blockSize : BS = (P.size : Int)
  zero : fZero = 0
  add : ∀ a b, fAdd a b = (a + b) % P.q
  enc : ∀ k m, encrypt k m = MiMC.encrypt P k m
  dec_ok : ∀ blk, blk.length = P.size → decBlock P blk < P.q → boElement bo blk = (decBlock P blk, Err.nil)
  dec_err : ∀ blk, blk.length = P.size → ¬ decBlock P blk < P.q → (boElement bo blk).2 ≠ Err.nil
  bytes : ∀ x, x < P.q → fBytes x = encBE P.size x
  set_ok : ∀ z buf, buf.length = P.size → beToNat buf < P.q → fSet z buf = (beToNat buf, Err.nil)
  set_err : ∀ z buf, buf.length = P.size → ¬ beToNat buf < P.q → (fSet z buf).1 = z ∧ (fSet z buf).2 ≠ Err.nil

/-- abstraction function -/
def abs {BO : Type} (d : digest Nat BO) : Digest := { h := d.h, data := d.data }

/-- `(int, error)` of `Write` as the model's outcome -/
def outW (r : Int × Err) : Out := if r.2 = Err.nil then .wrote r.1.toNat else .err
/-- `error` of `SetState` as the model's outcome -/
def outE (e : Err) : Out := if e = Err.nil then .unit else .err

section
variable (P : Params) {BO : Type} (bo : BO) (fZero : Nat) (fAdd encrypt : Nat → Nat → Nat)
  (boElement : BO → Bytes → Nat × Err) (fBytes : Nat → Bytes) (fSet : Nat → Bytes → Nat × Err)
  (frHash : Bytes → Bytes → Int → List Nat × Err) (frBE : BO) (BS : Int)

/-! ### checksum -/

theorem checksum_loop (hadd : ∀ a b, fAdd a b = (a + b) % P.q) (henc : ∀ k m, encrypt k m = MiMC.encrypt P k m) :
    ∀ (suf pre : List Nat) (d : digest Nat BO), d.data = pre ++ suf →
      checksum.loop1 fZero fAdd encrypt boElement fBytes fSet frHash frBE BS (List.range' pre.length suf.length) d =
        { d with h := mp P d.h suf } := by
  intro suf
  induction suf with
  | nil => intro pre d _; simp [checksum.loop1, mp]
  | cons x suf ih =>
    intro pre d hd
    have hidx : index d.data (Int.ofNat pre.length) = x := by
      simp [index, hd, List.getD_eq_getElem?_getD]
    simp only [List.length_cons, List.range'_succ, checksum.loop1, hidx]
    have := ih (pre ++ [x]) { d with h := fAdd (fAdd (encrypt d.h x) d.h) x } (by simp [hd])
    simp only [List.length_append, List.length_singleton] at this
    rw [this]
    simp [mp, compress, hadd, henc]

theorem checksum_eq (hadd : ∀ a b, fAdd a b = (a + b) % P.q) (henc : ∀ k m, encrypt k m = MiMC.encrypt P k m)
    (d : digest Nat BO) :
    checksum fZero fAdd encrypt boElement fBytes fSet frHash frBE BS d =
      ({ d with h := mp P d.h d.data }, mp P d.h d.data) := by
  have h := checksum_loop P fZero fAdd encrypt boElement fBytes fSet frHash frBE BS hadd henc d.data [] d (by simp)
  simp only [List.length_nil] at h
  simp only [checksum, List.range_eq_range', h]

/-! ### Write -/

theorem pad_eq (hbs : BS = (P.size : Int)) (p : Bytes) :
    (if (decide (len p > 0)) && (decide (len p < BS)) then
        copyAt (makeBytes BS) ((len (makeBytes BS)) - (len p)) (len (makeBytes BS)) p else p) = pad P p := by
  subst hbs
  unfold pad
  by_cases h : 0 < p.length ∧ p.length < P.size
  · have h1 : (decide (len p > 0) && decide (len p < (P.size : Int))) = true := by
      simp [len]; omega
    rw [if_pos h1, if_pos h]
    have e1 : ((P.size : Int) - (p.length : Int)).toNat = P.size - p.length := by omega
    have e2 : ((P.size : Int) - ((P.size : Int) - (p.length : Int))).toNat = p.length := by omega
    simp only [copyAt, makeBytes, len, Int.toNat_natCast, List.length_replicate, Int.ofNat_eq_natCast, e1, e2,
      Nat.min_self, List.take_length, List.take_replicate, List.drop_replicate]
    have e3 : min P.size (P.size - p.length) = P.size - p.length := by omega
    have e4 : P.size - (P.size - p.length + p.length) = 0 := by omega
    simp [e3, e4]
  · have h1 : ¬ (decide (len p > 0) && decide (len p < (P.size : Int))) = true := by
      simp [len]; omega
    rw [if_neg h1, if_neg h]

theorem drop_split (p : Bytes) (k s : Nat) (h : k + s ≤ p.length) :
    p.drop k = (p.drop k).take s ++ p.drop (k + s) := by
  rw [← List.drop_drop, List.take_append_drop]

variable {P bo fZero fAdd encrypt boElement fBytes fSet frHash frBE BS}

theorem write_loop (hok : ParamsOK P bo fZero fAdd encrypt boElement fBytes fSet BS) (d : digest Nat BO)
    (hbo : d.byteOrder = bo) (p : Bytes) :
    ∀ (fuel : Nat) (elems : List Nat) (k : Nat), k ≤ p.length → P.size ∣ (p.length - k) → p.length - k ≤ fuel →
      (∀ xs, decodeBlocks P (p.drop k) = some xs →
        Write.loop1 fZero fAdd encrypt boElement fBytes fSet frHash frBE BS d p fuel elems (k : Int) =
          ((elems ++ xs, (p.length : Int)), none)) ∧
      (decodeBlocks P (p.drop k) = none →
        ∃ st e, e ≠ Err.nil ∧
          Write.loop1 fZero fAdd encrypt boElement fBytes fSet frHash frBE BS d p fuel elems (k : Int) = (st, some (0, e))) := by
  have hBS := hok.blockSize
  subst hBS
  intro fuel
  induction fuel with
  | zero =>
    intro elems k hk _ hf
    have hkl : k = p.length := by omega
    subst hkl
    simp [Write.loop1, decodeBlocks_nil]
  | succ fuel ih =>
    intro elems k hk hdvd hf
    by_cases hlt : k < p.length
    · -- one more block
      have hs := hok.size_pos
      have hsz : k + P.size ≤ p.length := by
        obtain ⟨c, hc⟩ := hdvd
        have : c ≠ 0 := by rintro rfl; omega
        have : P.size ≤ P.size * c := Nat.le_mul_of_pos_right _ (Nat.pos_of_ne_zero this)
        omega
      have hcond : decide ((k : Int) < len p) = true := by simp [len]; omega
      have hblk : arrayPtr (P.size : Int) (subslice p (k : Int) ((k : Int) + (P.size : Int))) = (p.drop k).take P.size := by
        have e1 : ((k : Int) + (P.size : Int)).toNat = k + P.size := by omega
        simp [arrayPtr, subslice, e1, List.drop_take, List.take_take]
      have hlen : ((p.drop k).take P.size).length = P.size := by simp; omega
      have hsplit := drop_split p k P.size hsz
      have hdec := decodeBlocks_block P ((p.drop k).take P.size) (p.drop (k + P.size)) hs hlen
      rw [← hsplit] at hdec
      have hnext : ((k + P.size : Nat) : Int) = (k : Int) + (P.size : Int) := by omega
      have hdvd' : P.size ∣ (p.length - (k + P.size)) := by
        obtain ⟨c, hc⟩ := hdvd
        refine ⟨c - 1, ?_⟩
        rw [Nat.mul_sub_one, ← hc]; omega
      by_cases hv : decBlock P ((p.drop k).take P.size) < P.q
      · have hbe := hok.dec_ok _ hlen hv
        have hstep : ∀ r, Write.loop1 fZero fAdd encrypt boElement fBytes fSet frHash frBE (P.size : Int) d p (fuel + 1) elems (k : Int) = r ↔
            Write.loop1 fZero fAdd encrypt boElement fBytes fSet frHash frBE (P.size : Int) d p fuel
              (elems ++ [decBlock P ((p.drop k).take P.size)]) ((k : Int) + (P.size : Int)) = r := by
          intro r
          rw [Write.loop1]
          simp only [hcond, if_true, hblk, hbo, hbe]
          simp
        obtain ⟨ih1, ih2⟩ := ih (elems ++ [decBlock P ((p.drop k).take P.size)]) (k + P.size) hsz hdvd' (by omega)
        rw [hnext] at ih1 ih2
        rw [hdec, if_pos hv]
        constructor
        · intro xs hx
          rw [hstep]
          cases hd : decodeBlocks P (p.drop (k + P.size)) with
          | none => rw [hd] at hx; simp at hx
          | some ys =>
            rw [hd] at hx
            simp only [Option.map_some, Option.some.injEq] at hx
            subst hx
            rw [ih1 ys hd]; simp
        · intro hx
          have hd : decodeBlocks P (p.drop (k + P.size)) = none := by
            cases hd : decodeBlocks P (p.drop (k + P.size)) with
            | none => rfl
            | some ys => rw [hd] at hx; simp at hx
          obtain ⟨st, e, he, hl⟩ := ih2 hd
          exact ⟨st, e, he, (hstep _).mpr hl⟩
      · have hbe := hok.dec_err _ hlen hv
        rw [hdec, if_neg hv]
        constructor
        · intro xs hx; simp at hx
        · intro _
          rcases hb : boElement bo ((p.drop k).take P.size) with ⟨e1, e2⟩
          rw [hb] at hbe
          refine ⟨(elems, (k : Int)), e2, hbe, ?_⟩
          rw [Write.loop1]
          simp only [hcond, if_true, hblk, hbo, hb]
          have : (e2 != Err.nil) = true := by simpa using hbe
          simp [this]
    · have hkl : k = p.length := by omega
      subst hkl
      simp [Write.loop1, decodeBlocks_nil, len]

/-! ### the methods -/

theorem digest_eta (d : digest Nat BO) : ({ d with h := d.h } : digest Nat BO) = d := by cases d; rfl

theorem reset_refines (hok : ParamsOK P bo fZero fAdd encrypt boElement fBytes fSet BS) (d : digest Nat BO) :
    abs (Reset fZero fAdd encrypt boElement fBytes fSet frHash frBE BS d) = (step P (abs d) .reset).1 ∧
    (Reset fZero fAdd encrypt boElement fBytes fSet frHash frBE BS d).byteOrder = d.byteOrder := by
  simp [Mimc_bn254.Reset, abs, step, subslice, hok.zero]

theorem sum_eq (hok : ParamsOK P bo fZero fAdd encrypt boElement fBytes fSet BS) (d : digest Nat BO) (b : Bytes) :
    Sum fZero fAdd encrypt boElement fBytes fSet frHash frBE BS d b =
      ({ d with h := mp P d.h d.data, data := [] }, b ++ fBytes (mp P d.h d.data)) := by
  simp [Mimc_bn254.Sum, checksum_eq P fZero fAdd encrypt boElement fBytes fSet frHash frBE BS hok.add hok.enc]

theorem sum_refines (hok : ParamsOK P bo fZero fAdd encrypt boElement fBytes fSet BS) (d : digest Nat BO) (b : Bytes)
    (hlt : d.h < P.q) :
    abs (Sum fZero fAdd encrypt boElement fBytes fSet frHash frBE BS d b).1 = (step P (abs d) (.sum b)).1 ∧
    Out.bytes (Sum fZero fAdd encrypt boElement fBytes fSet frHash frBE BS d b).2 = (step P (abs d) (.sum b)).2 ∧
    (Sum fZero fAdd encrypt boElement fBytes fSet frHash frBE BS d b).1.byteOrder = d.byteOrder := by
  rw [sum_eq hok]
  simp [abs, step, flush, hok.bytes _ (mp_lt P _ _ hlt)]

theorem state_refines (hok : ParamsOK P bo fZero fAdd encrypt boElement fBytes fSet BS) (d : digest Nat BO)
    (hlt : d.h < P.q) :
    abs (State fZero fAdd encrypt boElement fBytes fSet frHash frBE BS d).1 = (step P (abs d) .state).1 ∧
    Out.bytes (State fZero fAdd encrypt boElement fBytes fSet frHash frBE BS d).2 = (step P (abs d) .state).2 ∧
    (State fZero fAdd encrypt boElement fBytes fSet frHash frBE BS d).1.byteOrder = d.byteOrder := by
  simp only [Mimc_bn254.State, sum_eq hok]
  simp [abs, step, flush, hok.bytes _ (mp_lt P _ _ hlt)]

/-- `Write` in terms of `decodeBlocks (pad p)` -/
theorem write_eq (hok : ParamsOK P bo fZero fAdd encrypt boElement fBytes fSet BS) (d : digest Nat BO)
    (hbo : d.byteOrder = bo) (p : Bytes) :
    (∀ xs, decodeBlocks P (pad P p) = some xs →
      Write fZero fAdd encrypt boElement fBytes fSet frHash frBE BS d p =
        ({ d with data := d.data ++ xs }, (((pad P p).length : Int), Err.nil))) ∧
    (decodeBlocks P (pad P p) = none →
      ∃ e, e ≠ Err.nil ∧ Write fZero fAdd encrypt boElement fBytes fSet frHash frBE BS d p = (d, (0, e))) := by
  have hpad := pad_eq P BS hok.blockSize p
  have hs := hok.size_pos
  by_cases hdvd : P.size ∣ (pad P p).length
  · have hmod : ¬ ((Int.tmod (len (pad P p)) BS) != 0) = true := by
      rw [hok.blockSize]
      obtain ⟨c, hc⟩ := hdvd
      simp [len, hc]
    obtain ⟨l1, l2⟩ := write_loop (frHash := frHash) (frBE := frBE) hok d hbo (pad P p) (pad P p).length [] 0 (by omega)
      (by simpa using hdvd) (by omega)
    have hfuel : ((len (pad P p)) - 0).toNat = (pad P p).length := by simp [len]
    constructor
    · intro xs hx
      have := l1 xs (by simpa using hx)
      simp only [Write, hpad, hmod, if_false, hfuel]
      simp only [Nat.cast_zero] at this
      rw [this]
      simp [len]
    · intro hx
      obtain ⟨⟨s1, s2⟩, e, he, hl⟩ := l2 (by simpa using hx)
      refine ⟨e, he, ?_⟩
      simp only [Write, hpad, hmod, if_false, hfuel]
      simp only [Nat.cast_zero] at hl
      rw [hl]
      simp
  · have hnone : decodeBlocks P (pad P p) = none := by
      cases hd : decodeBlocks P (pad P p) with
      | none => rfl
      | some xs => exact absurd ⟨xs.length, by rw [(decodeBlocks_length P _ _ hd).1, Nat.mul_comm]⟩ hdvd
    have hmod : ((Int.tmod (len (pad P p)) BS) != 0) = true := by
      rw [hok.blockSize]
      have : (pad P p).length % P.size ≠ 0 := fun h => hdvd (Nat.dvd_of_mod_eq_zero h)
      simp only [len, Int.ofNat_eq_natCast, bne_iff_ne, ne_eq]
      intro h
      apply this
      have h2 : ((pad P p).length : Int).tmod (P.size : Int) = (((pad P p).length % P.size : Nat) : Int) := by
        simp [Int.tmod_eq_emod_of_nonneg]
      rw [h2] at h
      exact_mod_cast h
    constructor
    · intro xs hx; rw [hnone] at hx; simp at hx
    · intro _
      exact ⟨Err.sentinel "invalid input length: must represent a list of field elements, expects a []byte of len m*BlockSize",
        by simp, by simp only [Write, hpad, hmod, if_true]⟩

theorem write_refines (hok : ParamsOK P bo fZero fAdd encrypt boElement fBytes fSet BS) (d : digest Nat BO)
    (hbo : d.byteOrder = bo) (p : Bytes) :
    abs (Write fZero fAdd encrypt boElement fBytes fSet frHash frBE BS d p).1 = (step P (abs d) (.write p)).1 ∧
    outW (Write fZero fAdd encrypt boElement fBytes fSet frHash frBE BS d p).2 = (step P (abs d) (.write p)).2 ∧
    (Write fZero fAdd encrypt boElement fBytes fSet frHash frBE BS d p).1.byteOrder = d.byteOrder ∧
    ((Write fZero fAdd encrypt boElement fBytes fSet frHash frBE BS d p).2.2 ≠ Err.nil →
      (Write fZero fAdd encrypt boElement fBytes fSet frHash frBE BS d p).1 = d) := by
  obtain ⟨w1, w2⟩ := write_eq (frHash := frHash) (frBE := frBE) hok d hbo p
  cases hd : decodeBlocks P (pad P p) with
  | some xs => rw [w1 xs hd]; simp [abs, step, hd, outW]
  | none =>
    obtain ⟨e, he, hw⟩ := w2 hd
    rw [hw]; simp [abs, step, hd, outW, he]

/-- the text of `SetState` up to its length literal and the message of the first error -/
def SetStateN {F BO : Type} (fSet : F → Bytes → F × Err) (n : Int) (msg : String) (d : digest F BO) (newState : Bytes) :
    digest F BO × Err :=
  if (len newState) != n then
    (d, Err.sentinel msg)
  else
  let (d_h_, err) := fSet d.h newState
  let d := { d with h := d_h_ }
  if err != Err.nil then
    (d, Err.sentinel "the provided newState does not represent a valid state")
  else
  let d := { d with data := [] }
  (d, Err.nil)

theorem setStateN_refines (hok : ParamsOK P bo fZero fAdd encrypt boElement fBytes fSet BS) (n : Int) (msg : String)
    (hn : (P.size : Int) = n) (d : digest Nat BO) (st : Bytes) :
    abs (SetStateN fSet n msg d st).1 = (step P (abs d) (.setState st)).1 ∧
    outE (SetStateN fSet n msg d st).2 = (step P (abs d) (.setState st)).2 ∧
    (SetStateN fSet n msg d st).1.byteOrder = d.byteOrder ∧
    ((SetStateN fSet n msg d st).2 ≠ Err.nil → (SetStateN fSet n msg d st).1 = d) := by
  subst hn
  by_cases hl : st.length = P.size
  · have hc : ¬ ((len st) != (P.size : Int)) = true := by simp [len, hl]
    by_cases hv : beToNat st < P.q
    · have := hok.set_ok d.h st hl hv
      simp [SetStateN, hc, this, abs, step, hl, hv, outE]
    · obtain ⟨h1, h2⟩ := hok.set_err d.h st hl hv
      rcases hb : fSet d.h st with ⟨z, e⟩
      rw [hb] at h1 h2
      simp only at h1 h2
      subst h1
      have : (e != Err.nil) = true := by simpa using h2
      simp [SetStateN, hc, hb, this, abs, step, hl, hv, outE]
  · have hc : ((len st) != (P.size : Int)) = true := by simp [len]; exact_mod_cast hl
    simp [SetStateN, hc, abs, step, hl, outE]

theorem setState_bn254 : @Mimc_bn254.SetState Nat BO _ fZero fAdd encrypt boElement fBytes fSet frHash frBE BS =
    SetStateN fSet 32 "the mimc state expects a state of 32 bytes" := rfl
theorem setState_bw6_633 : @Mimc_bw6_633.SetState Nat BO _ fZero fAdd encrypt boElement fBytes fSet frHash frBE BS =
    SetStateN fSet 40 "the mimc state expects a state of 40 bytes" := rfl
theorem setState_bw6_761 : @Mimc_bw6_761.SetState Nat BO _ fZero fAdd encrypt boElement fBytes fSet frHash frBE BS =
    SetStateN fSet 48 "the mimc state expects a state of 48 bytes" := rfl

/-- package-level `Sum(msg)` -/
theorem pkgSum_eq (hok : ParamsOK P frBE fZero fAdd encrypt boElement fBytes fSet BS) (msg : Bytes) :
    (∀ xs, decodeBlocks P (pad P msg) = some xs →
      pkgSum fZero fAdd encrypt boElement fBytes fSet frHash frBE BS msg = (encBE P.size (mp P 0 xs), Err.nil)) ∧
    (decodeBlocks P (pad P msg) = none →
      (pkgSum fZero fAdd encrypt boElement fBytes fSet frHash frBE BS msg).1 = [] ∧
      (pkgSum fZero fAdd encrypt boElement fBytes fSet frHash frBE BS msg).2 ≠ Err.nil) := by
  have hz := hok.zero
  subst hz
  obtain ⟨w1, w2⟩ := write_eq (frHash := frHash) (frBE := frBE) hok
    ({ h := 0, data := [], byteOrder := frBE } : digest Nat BO) rfl msg
  constructor
  · intro xs hx
    have hlt : mp P 0 xs < P.q := mp_lt P _ _ hok.q_pos
    have hw := w1 xs hx
    simp only [pkgSum, hw]
    simp [checksum_eq P 0 fAdd encrypt boElement fBytes fSet frHash frBE BS hok.add hok.enc, hok.bytes _ hlt]
  · intro hx
    obtain ⟨e, he, hw⟩ := w2 hx
    have : (e != Err.nil) = true := by simpa using he
    simp only [pkgSum, hw]
    simp [this, he]

/-- `WriteString`: appends the first element of `fr.Hash(raw, "string:", 1)`; an error of the hash leaves the hasher unchanged -/
theorem writeString_eq (d : digest Nat BO) (raw : Bytes) :
    ((frHash raw [115, 116, 114, 105, 110, 103, 58] 1).2 = Err.nil →
      WriteString fZero fAdd encrypt boElement fBytes fSet frHash frBE BS d raw =
        ({ d with data := d.data ++ [index (frHash raw [115, 116, 114, 105, 110, 103, 58] 1).1 0] }, Err.nil)) ∧
    ((frHash raw [115, 116, 114, 105, 110, 103, 58] 1).2 ≠ Err.nil →
      WriteString fZero fAdd encrypt boElement fBytes fSet frHash frBE BS d raw =
        (d, (frHash raw [115, 116, 114, 105, 110, 103, 58] 1).2)) := by
  rcases hb : frHash raw [115, 116, 114, 105, 110, 103, 58] 1 with ⟨xs, e⟩
  constructor
  · intro he; simp only at he; subst he; simp [WriteString, hb]
  · intro he
    have : (e != Err.nil) = true := by simpa using he
    simp [WriteString, hb, this]

end

/-! ### bundles: the parameters, the translated methods of one package, the generated step machine -/

/-- the parameters of the generated defs (element type F, byte order type BO) -/
structure Prims (F BO : Type) where
  fZero : F
  fAdd : F → F → F
  encrypt : F → F → F
  boElement : BO → Bytes → F × Err
  fBytes : F → Bytes
  fSet : F → Bytes → F × Err
  frHash : Bytes → Bytes → Int → List F × Err
  frBE : BO
  BS : Int

/-- the assumed behaviour of the parameters (see `ParamsOK`) for the instance `P` and a hasher whose byte order object is `bo` -/
def OK (P : Params) {BO : Type} (bo : BO) (X : Prims Nat BO) : Prop :=
  ParamsOK P bo X.fZero X.fAdd X.encrypt X.boElement X.fBytes X.fSet X.BS

/-- the translated functions of one mimc package, applied to the parameters -/
structure Methods (F BO : Type) where
  reset : digest F BO → digest F BO
  sum : digest F BO → Bytes → digest F BO × Bytes
  write : digest F BO → Bytes → digest F BO × (Int × Err)
  setState : digest F BO → Bytes → digest F BO × Err
  state : digest F BO → digest F BO × Bytes
  writeString : digest F BO → Bytes → digest F BO × Err
  pkgSum : Bytes → Bytes × Err

/-- the methods as translated from ecc/bn254/fr/mimc, with the length literal / first error message of `SetState` as given -/
def refMethods {F BO : Type} [Inhabited F] (X : Prims F BO) (n : Int) (msg : String) : Methods F BO where
  reset := Mimc_bn254.Reset X.fZero X.fAdd X.encrypt X.boElement X.fBytes X.fSet X.frHash X.frBE X.BS
  sum := Mimc_bn254.Sum X.fZero X.fAdd X.encrypt X.boElement X.fBytes X.fSet X.frHash X.frBE X.BS
  write := Mimc_bn254.Write X.fZero X.fAdd X.encrypt X.boElement X.fBytes X.fSet X.frHash X.frBE X.BS
  setState := SetStateN X.fSet n msg
  state := Mimc_bn254.State X.fZero X.fAdd X.encrypt X.boElement X.fBytes X.fSet X.frHash X.frBE X.BS
  writeString := Mimc_bn254.WriteString X.fZero X.fAdd X.encrypt X.boElement X.fBytes X.fSet X.frHash X.frBE X.BS
  pkgSum := Mimc_bn254.pkgSum X.fZero X.fAdd X.encrypt X.boElement X.fBytes X.fSet X.frHash X.frBE X.BS

/-- one call on the generated hasher, with its outcome in the model's vocabulary -/
def gstep {F BO : Type} (M : Methods F BO) (d : digest F BO) : Op → digest F BO × Out
  | .write p => ((M.write d p).1, outW (M.write d p).2)
  | .sum b => ((M.sum d b).1, .bytes (M.sum d b).2)
  | .reset => (M.reset d, .unit)
  | .state => ((M.state d).1, .bytes (M.state d).2)
  | .setState st => ((M.setState d st).1, outE (M.setState d st).2)

def grun {F BO : Type} (M : Methods F BO) (d : digest F BO) : List Op → digest F BO × List Out
  | [] => (d, [])
  | op :: ops =>
    let r := gstep M d op
    let rs := grun M r.1 ops
    (rs.1, r.2 :: rs.2)

/-- the invariant is preserved by the model -/
theorem step_h_lt (P : Params) (s : Digest) (op : Op) (hq : 0 < P.q) (h : s.h < P.q) : (step P s op).1.h < P.q := by
  cases op with
  | write p => simp only [step]; cases decodeBlocks P (pad P p) <;> exact h
  | sum b => exact mp_lt P _ _ h
  | state => exact mp_lt P _ _ h
  | reset => exact hq
  | setState st => simp only [step]; split
                   · rename_i hc; exact hc.2
                   · exact h

theorem gstep_refines {BO : Type} (P : Params) (bo : BO) (X : Prims Nat BO) (n : Int) (msg : String)
    (hok : OK P bo X) (hn : (P.size : Int) = n) (d : digest Nat BO) (hbo : d.byteOrder = bo) (hlt : d.h < P.q) (op : Op) :
    abs (gstep (refMethods X n msg) d op).1 = (step P (abs d) op).1 ∧
    (gstep (refMethods X n msg) d op).2 = (step P (abs d) op).2 ∧
    (gstep (refMethods X n msg) d op).1.byteOrder = bo ∧
    (gstep (refMethods X n msg) d op).1.h < P.q := by
  have key : abs (gstep (refMethods X n msg) d op).1 = (step P (abs d) op).1 ∧
      (gstep (refMethods X n msg) d op).2 = (step P (abs d) op).2 ∧
      (gstep (refMethods X n msg) d op).1.byteOrder = bo := by
    cases op with
    | write p =>
      obtain ⟨h1, h2, h3, _⟩ := write_refines (frHash := X.frHash) (frBE := X.frBE) hok d hbo p
      exact ⟨h1, h2, h3.trans hbo⟩
    | sum b =>
      obtain ⟨h1, h2, h3⟩ := sum_refines (frHash := X.frHash) (frBE := X.frBE) hok d b hlt
      exact ⟨h1, h2, h3.trans hbo⟩
    | reset =>
      obtain ⟨h1, h3⟩ := reset_refines (frHash := X.frHash) (frBE := X.frBE) hok d
      exact ⟨h1, by simp [gstep, step], h3.trans hbo⟩
    | state =>
      obtain ⟨h1, h2, h3⟩ := state_refines (frHash := X.frHash) (frBE := X.frBE) hok d hlt
      exact ⟨h1, h2, h3.trans hbo⟩
    | setState st =>
      obtain ⟨h1, h2, h3, _⟩ := setStateN_refines hok n msg hn d st
      exact ⟨h1, h2, h3.trans hbo⟩
  refine ⟨key.1, key.2.1, key.2.2, ?_⟩
  have := step_h_lt P (abs d) op hok.q_pos hlt
  rw [← key.1] at this
  exact this

/-- a refused call returns the hasher it was given (all fields) -/
theorem gstep_error_unchanged {BO : Type} (P : Params) (bo : BO) (X : Prims Nat BO) (n : Int) (msg : String)
    (hok : OK P bo X) (hn : (P.size : Int) = n) (d : digest Nat BO) (hbo : d.byteOrder = bo) (op : Op)
    (he : (gstep (refMethods X n msg) d op).2 = .err) : (gstep (refMethods X n msg) d op).1 = d := by
  cases op with
  | write p =>
    obtain ⟨_, _, _, h4⟩ := write_refines (frHash := X.frHash) (frBE := X.frBE) hok d hbo p
    apply h4
    intro hnil
    simp [gstep, refMethods, outW, hnil] at he
  | setState st =>
    obtain ⟨_, _, _, h4⟩ := setStateN_refines hok n msg hn d st
    apply h4
    intro hnil
    simp [gstep, refMethods, outE, hnil] at he
  | sum b => simp [gstep] at he
  | state => simp [gstep] at he
  | reset => simp [gstep] at he

theorem grun_refines {BO : Type} (P : Params) (bo : BO) (X : Prims Nat BO) (n : Int) (msg : String)
    (hok : OK P bo X) (hn : (P.size : Int) = n) (ops : List Op) :
    ∀ (d : digest Nat BO), d.byteOrder = bo → d.h < P.q →
      abs (grun (refMethods X n msg) d ops).1 = (run P (abs d) ops).1 ∧
      (grun (refMethods X n msg) d ops).2 = (run P (abs d) ops).2 ∧
      (grun (refMethods X n msg) d ops).1.byteOrder = bo ∧
      (grun (refMethods X n msg) d ops).1.h < P.q := by
  induction ops with
  | nil => intro d hbo hlt; exact ⟨rfl, rfl, hbo, hlt⟩
  | cons op ops ih =>
    intro d hbo hlt
    obtain ⟨h1, h2, h3, h4⟩ := gstep_refines P bo X n msg hok hn d hbo hlt op
    obtain ⟨i1, i2, i3, i4⟩ := ih _ h3 h4
    simp only [grun, run]
    rw [← h1, ← h2]
    exact ⟨i1, by rw [i2], i3, i4⟩

/-! ### a canonical instance of the parameters (non-vacuity of `OK` for every `P`) -/

/-- the parameters read off the model: addition mod q, the model's `encrypt`, block decoding in the byte order of `P` -/
def canonical (P : Params) : Prims Nat Unit where
  fZero := 0
  fAdd a b := (a + b) % P.q
  encrypt := MiMC.encrypt P
  boElement _ blk := if decBlock P blk < P.q then (decBlock P blk, Err.nil) else (0, Err.sentinel "invalid fr.Element encoding")
  fBytes := encBE P.size
  fSet z buf := if beToNat buf < P.q then (beToNat buf, Err.nil) else (z, Err.sentinel "invalid fr.Element encoding")
  frHash _ _ _ := ([0], Err.nil)
  frBE := ()
  BS := (P.size : Int)

theorem canonical_ok (P : Params) (hs : 0 < P.size) (hq : 0 < P.q) : OK P () (canonical P) where
  size_pos := hs
  q_pos := hq
  blockSize := rfl
  zero := rfl
  add _ _ := rfl
  enc _ _ := rfl
  dec_ok blk _ hv := by simp [canonical, hv]
  dec_err blk _ hv := by simp [canonical, hv]
  bytes _ _ := rfl
  set_ok z buf _ hv := by simp [canonical, hv]
  set_err z buf _ hv := by simp [canonical, hv]

end GV.MiMC.DigestGen
